//go:build verif

// C03 correspondence driver: runs the real felix/calc PolicyResolver (+ its PolicySorter) on generated
// histories of match start/stop, policy / tier / endpoint updates and deletes, in-sync and flushes, records what
// every Flush hands to OnEndpointTierUpdate, runs the real tierInfoToProtoTierInfo on every emitted tier list and
// prints one JSON line per case carrying the case as a Coq term (inputs + the implementation's observables).
package main

import (
	"encoding/json"
	"flag"
	"fmt"
	"math"
	"math/big"
	"os"
	"sort"
	"strings"

	log "github.com/sirupsen/logrus"

	"github.com/projectcalico/calico/felix/calc"
	"github.com/projectcalico/calico/felix/proto"
	"github.com/projectcalico/calico/libcalico-go/lib/backend/api"
	"github.com/projectcalico/calico/libcalico-go/lib/backend/model"
)

type rng struct{ s uint64 }

func (r *rng) next() uint64 {
	r.s += 0x9e3779b97f4a7c15
	z := r.s
	z = (z ^ (z >> 30)) * 0xbf58476d1ce4e5b9
	z = (z ^ (z >> 27)) * 0x94d049bb133111eb
	return z ^ (z >> 31)
}
func (r *rng) intn(n int) int { return int(r.next() % uint64(n)) }

type line struct {
	Coq    string         `json:"coq"`
	NT     bool           `json:"nt"`
	Key    string         `json:"key"`
	Sample map[string]any `json:"sample,omitempty"`
	Tags   []string       `json:"tags"`
}

// ---------------------------------------------------------------- Coq printing

func bs(s string) string {
	if s == "" {
		return "[]"
	}
	if len(s) > 80 || strings.IndexByte(s, 0) >= 0 {
		panic("string outside the compact encoding")
	}
	// B n: bytes of n, least significant first
	n := new(big.Int)
	for i := len(s) - 1; i >= 0; i-- {
		n.Lsh(n, 8)
		n.Or(n, big.NewInt(int64(s[i])))
	}
	return "(B " + n.String() + ")"
}
func cb(b bool) string {
	if b {
		return "true"
	}
	return "false"
}
func pk(k model.PolicyKey) string { return fmt.Sprintf("(%s,%s,%s)", bs(k.Name), bs(k.Namespace), bs(k.Kind)) }

const scale = 4 // orders used by the generator are multiples of 1/4

func ordOpt(p *float64) string {
	if p == nil {
		return "None"
	}
	return ordF(*p)
}
func ordF(f float64) string {
	if math.IsInf(f, 1) {
		return "None"
	}
	z := f * scale
	if z != math.Trunc(z) || math.IsNaN(z) || math.IsInf(z, 0) {
		panic(fmt.Sprintf("order %v outside the modelled domain", f))
	}
	return fmt.Sprintf("(Some (%d)%%Z)", int64(z))
}
func act(a string) string {
	switch a {
	case "":
		return "0"
	case "Allow":
		return "1"
	case "Deny":
		return "2"
	case "Pass":
		return "3"
	}
	return "9"
}
func lst(xs []string) string { return "[" + strings.Join(xs, "; ") + "]" }

// ---------------------------------------------------------------- recording callback

type epUpd struct {
	ep      int
	present bool
	tiers   []calc.TierInfo
}
type recorder struct {
	epNum map[model.EndpointKey]int
	cur   []epUpd
}

func (r *recorder) OnEndpointTierUpdate(k model.EndpointKey, ep model.Endpoint, _ []calc.EndpointComputedData, _ *calc.EndpointBGPPeer, tiers []calc.TierInfo) {
	cp := make([]calc.TierInfo, len(tiers))
	copy(cp, tiers)
	r.cur = append(r.cur, epUpd{ep: r.epNum[k], present: ep != nil, tiers: cp})
}

func polkvCoq(kv calc.PolKV) string {
	v := kv.Value
	return fmt.Sprintf("(%s, mkMeta %s %s %s %s %s %s %s)", pk(kv.Key), ordF(v.Order), cb(v.DoNotTrack()), cb(v.PreDNAT()),
		cb(v.ApplyOnForward()), cb(kv.GovernsIngress()), cb(kv.GovernsEgress()), bs(v.Tier))
}
func toutCoq(t calc.TierInfo) string {
	ps := make([]string, len(t.OrderedPolicies))
	for i, kv := range t.OrderedPolicies {
		ps[i] = polkvCoq(kv)
	}
	return fmt.Sprintf("mkTout %s %s %s %s", bs(t.Name), ordOpt(t.Order), act(string(t.DefaultAction)), lst(ps))
}
func idsCoq(ids []*proto.PolicyID) string {
	p := make([]string, len(ids))
	for i, id := range ids {
		p[i] = fmt.Sprintf("(%s,%s,%s)", bs(id.Name), bs(id.Namespace), bs(id.Kind))
	}
	return lst(p)
}
func ptiersCoq(ts []*proto.TierInfo) string {
	p := make([]string, len(ts))
	for i, t := range ts {
		p[i] = fmt.Sprintf("mkPTier %s %s %s %s", bs(t.Name), act(t.DefaultAction), idsCoq(t.IngressPolicies), idsCoq(t.EgressPolicies))
	}
	return lst(p)
}

// ---------------------------------------------------------------- universe

type universe struct {
	fewOrders bool
	keys  []model.PolicyKey
	tiers []string
	eps   []model.EndpointKey
}

var plainKeys = []model.PolicyKey{
	{Name: "pa", Namespace: "", Kind: "GlobalNetworkPolicy"},
	{Name: "pa", Namespace: "ns1", Kind: "NetworkPolicy"},
	{Name: "pa", Namespace: "ns2", Kind: "NetworkPolicy"},
	{Name: "pb", Namespace: "ns1", Kind: "NetworkPolicy"},
	{Name: "pb", Namespace: "ns1", Kind: "StagedNetworkPolicy"},
	{Name: "pc", Namespace: "", Kind: "GlobalNetworkPolicy"},
	{Name: "knp.default.web", Namespace: "ns2", Kind: "KubernetesNetworkPolicy"},
	{Name: "pc", Namespace: "", Kind: ""},
}

// names / namespaces where one is a proper prefix of the other and continues with '-' or '.' (bytes below '/')
var prefixKeys = []model.PolicyKey{
	{Name: "allow-dns", Namespace: "", Kind: "GlobalNetworkPolicy"},
	{Name: "allow-dns-egress", Namespace: "", Kind: "GlobalNetworkPolicy"},
	{Name: "allow-dns.v2", Namespace: "", Kind: "GlobalNetworkPolicy"},
	{Name: "allow-dns0", Namespace: "", Kind: "GlobalNetworkPolicy"},
	{Name: "web", Namespace: "ns", Kind: "NetworkPolicy"},
	{Name: "web", Namespace: "ns-1", Kind: "NetworkPolicy"},
}
var tierNames = []string{"default", "tier-a", "tier-b", "sec"}
var orders = []float64{-1, 0, 0.25, 0.5, 2, 100}

func endpoints() []model.EndpointKey {
	return []model.EndpointKey{
		model.WorkloadEndpointKey{Hostname: "h", OrchestratorID: "k8s", WorkloadID: "w1", EndpointID: "eth0"},
		model.WorkloadEndpointKey{Hostname: "h", OrchestratorID: "k8s", WorkloadID: "w2", EndpointID: "eth0"},
		model.WorkloadEndpointKey{Hostname: "h", OrchestratorID: "k8s", WorkloadID: "w3", EndpointID: "eth0"},
		model.HostEndpointKey{Hostname: "h", EndpointID: "eth1"},
	}
}

// ---------------------------------------------------------------- operations

type opKind int

const (
	opStart opKind = iota
	opStop
	opPol
	opTier
	opEp
	opInSync
	opFlush
)

type op struct {
	kind    opKind
	p       int // policy key index
	e       int // endpoint index
	t       int // tier index
	del     bool
	pol     *model.Policy
	tier    *model.Tier
	typesEq []string // Types after EqualFold classification
}

func genOrder(r *rng, few bool) *float64 {
	if few {
		if r.intn(2) == 0 {
			return nil
		}
		f := orders[1+r.intn(2)]
		return &f
	}
	if r.intn(4) == 0 {
		return nil
	}
	f := orders[r.intn(len(orders))]
	return &f
}

func genPolicy(r *rng, u *universe) (*model.Policy, []string) {
	p := &model.Policy{Selector: "all()"}
	switch r.intn(12) {
	case 0:
		p.Tier = "" // "should not happen": ExtractPolicyMetadata falls back to default
	case 1:
		p.Tier = "ghost" // a tier that never exists
	default:
		p.Tier = u.tiers[r.intn(len(u.tiers))]
	}
	p.Order = genOrder(r, u.fewOrders)
	switch r.intn(8) {
	case 0:
		p.DoNotTrack = true
		p.ApplyOnForward = true
	case 1:
		p.PreDNAT = true
		p.ApplyOnForward = true
	case 2:
		p.ApplyOnForward = true
	case 3:
		p.DoNotTrack = true
		p.PreDNAT = true // not valid together; the code prefers DoNotTrack
	}
	var cls []string
	choices := [][]string{nil, {"ingress"}, {"egress"}, {"ingress", "egress"}, {"Ingress"}, {"EGRESS", "ingress"}, {"other"}, {"egress", "egress"}}
	p.Types = choices[r.intn(len(choices))]
	for _, t := range p.Types {
		switch {
		case strings.EqualFold(t, "ingress"):
			cls = append(cls, "TIn")
		case strings.EqualFold(t, "egress"):
			cls = append(cls, "TEg")
		default:
			cls = append(cls, "TOther")
		}
	}
	return p, cls
}

func genTier(r *rng) *model.Tier {
	t := &model.Tier{Order: genOrder(r, false)}
	switch r.intn(3) {
	case 0:
		t.DefaultAction = "Deny"
	case 1:
		t.DefaultAction = "Pass"
	}
	return t
}

func (o op) coq(u *universe) string {
	switch o.kind {
	case opStart:
		return fmt.Sprintf("MatchStart %s %d", pk(u.keys[o.p]), o.e+1)
	case opStop:
		return fmt.Sprintf("MatchStop %s %d", pk(u.keys[o.p]), o.e+1)
	case opPol:
		if o.del {
			return fmt.Sprintf("PolUpd %s None", pk(u.keys[o.p]))
		}
		return fmt.Sprintf("PolUpd %s (Some (mkPol %s %s %s %s %s %s))", pk(u.keys[o.p]), bs(o.pol.Tier), ordOpt(o.pol.Order),
			cb(o.pol.DoNotTrack), cb(o.pol.PreDNAT), cb(o.pol.ApplyOnForward), lst(o.typesEq))
	case opTier:
		if o.del {
			return fmt.Sprintf("TierUpd %s None", bs(u.tiers[o.t]))
		}
		return fmt.Sprintf("TierUpd %s (Some (mkTier %s %s))", bs(u.tiers[o.t]), ordOpt(o.tier.Order), act(string(o.tier.DefaultAction)))
	case opEp:
		return fmt.Sprintf("EpUpd %d %s", o.e+1, cb(!o.del))
	case opInSync:
		return "InSync"
	}
	return "Flush []"
}

func (o op) text(u *universe) string {
	switch o.kind {
	case opStart:
		return fmt.Sprintf("OnPolicyMatch(%v, ep%d)", u.keys[o.p], o.e+1)
	case opStop:
		return fmt.Sprintf("OnPolicyMatchStopped(%v, ep%d)", u.keys[o.p], o.e+1)
	case opPol:
		if o.del {
			return fmt.Sprintf("OnUpdate(%v, nil)", u.keys[o.p])
		}
		return fmt.Sprintf("OnUpdate(%v, tier=%q order=%s dnt=%v prednat=%v aof=%v types=%v)", u.keys[o.p], o.pol.Tier, fptr(o.pol.Order),
			o.pol.DoNotTrack, o.pol.PreDNAT, o.pol.ApplyOnForward, o.pol.Types)
	case opTier:
		if o.del {
			return fmt.Sprintf("OnUpdate(Tier %s, nil)", u.tiers[o.t])
		}
		return fmt.Sprintf("OnUpdate(Tier %s, order=%s action=%q)", u.tiers[o.t], fptr(o.tier.Order), o.tier.DefaultAction)
	case opEp:
		if o.del {
			return fmt.Sprintf("OnUpdate(ep%d, nil)", o.e+1)
		}
		return fmt.Sprintf("OnUpdate(ep%d, present)", o.e+1)
	case opInSync:
		return "OnDatamodelStatus(InSync)"
	}
	return "Flush()"
}
func fptr(p *float64) string {
	if p == nil {
		return "unset"
	}
	return fmt.Sprint(*p)
}

func safeApply(pr *calc.PolicyResolver, u *universe, o op) (msg string) {
	defer func() {
		if r := recover(); r != nil {
			msg = fmt.Sprint(r)
			if e, ok := r.(*log.Entry); ok {
				msg = e.Message
			}
		}
	}()
	apply(pr, u, o)
	return ""
}

func apply(pr *calc.PolicyResolver, u *universe, o op) {
	switch o.kind {
	case opStart:
		pr.OnPolicyMatch(u.keys[o.p], u.eps[o.e])
	case opStop:
		pr.OnPolicyMatchStopped(u.keys[o.p], u.eps[o.e])
	case opPol:
		upd := api.Update{KVPair: model.KVPair{Key: u.keys[o.p]}}
		if !o.del {
			cp := *o.pol
			upd.Value = &cp
		}
		pr.OnUpdate(upd)
	case opTier:
		upd := api.Update{KVPair: model.KVPair{Key: model.TierKey{Name: u.tiers[o.t]}}}
		if !o.del {
			cp := *o.tier
			upd.Value = &cp
		}
		pr.OnUpdate(upd)
	case opEp:
		upd := api.Update{KVPair: model.KVPair{Key: u.eps[o.e].(model.Key)}}
		if !o.del {
			if _, ok := u.eps[o.e].(model.WorkloadEndpointKey); ok {
				upd.Value = &model.WorkloadEndpoint{Name: "x"}
			} else {
				upd.Value = &model.HostEndpoint{Name: "x"}
			}
		}
		pr.OnUpdate(upd)
	case opInSync:
		pr.OnDatamodelStatus(api.InSync)
	case opFlush:
		pr.Flush()
	}
}

// ---------------------------------------------------------------- generation

type gen struct {
	r       *rng
	u       *universe
	matched map[[2]int]bool
	polSet  map[int]bool
	strict  bool // respect the upstream alternation contract
	ops     []op
	startStopBetweenFlush bool
	sawStart map[int]bool // policies with a start since the last flush
	polUpdInactive bool
	tierPlaceholderToReal bool
}

func (g *gen) push(o op) {
	switch o.kind {
	case opStart:
		g.matched[[2]int{o.p, o.e}] = true
		g.sawStart[o.p] = true
	case opStop:
		delete(g.matched, [2]int{o.p, o.e})
		if g.sawStart[o.p] {
			g.startStopBetweenFlush = true
		}
	case opPol:
		g.polSet[o.p] = !o.del
		active := false
		for k := range g.matched {
			if k[0] == o.p {
				active = true
			}
		}
		if !active {
			g.polUpdInactive = true
		}
	case opFlush:
		g.sawStart = map[int]bool{}
	}
	g.ops = append(g.ops, o)
}

func (g *gen) randomOp() {
	r, u := g.r, g.u
	switch k := r.intn(20); {
	case k < 5:
		p, e := r.intn(len(u.keys)), r.intn(len(u.eps))
		if g.strict && g.matched[[2]int{p, e}] {
			g.push(op{kind: opStop, p: p, e: e})
			return
		}
		if g.strict && !g.polSet[p] {
			// upstream only matches policies it has seen: the policy update follows the match callbacks
			pol, cls := genPolicy(r, u)
			g.push(op{kind: opStart, p: p, e: e})
			g.push(op{kind: opPol, p: p, pol: pol, typesEq: cls})
			return
		}
		g.push(op{kind: opStart, p: p, e: e})
	case k < 8:
		p, e := r.intn(len(u.keys)), r.intn(len(u.eps))
		if g.strict && !g.matched[[2]int{p, e}] {
			// pick a matched pair if there is one
			var pairs [][2]int
			for pe := range g.matched {
				pairs = append(pairs, pe)
			}
			if len(pairs) == 0 {
				return
			}
			sort.Slice(pairs, func(i, j int) bool { return pairs[i][0]*10+pairs[i][1] < pairs[j][0]*10+pairs[j][1] })
			pe := pairs[r.intn(len(pairs))]
			p, e = pe[0], pe[1]
		}
		g.push(op{kind: opStop, p: p, e: e})
	case k < 12:
		p := r.intn(len(u.keys))
		if r.intn(5) == 0 {
			if g.strict {
				// a deleted policy stops matching first
				for e := range u.eps {
					if g.matched[[2]int{p, e}] {
						g.push(op{kind: opStop, p: p, e: e})
					}
				}
			}
			g.push(op{kind: opPol, p: p, del: true})
			return
		}
		pol, cls := genPolicy(r, u)
		g.push(op{kind: opPol, p: p, pol: pol, typesEq: cls})
	case k < 14:
		t := r.intn(len(u.tiers))
		if r.intn(4) == 0 {
			g.push(op{kind: opTier, t: t, del: true})
			return
		}
		g.push(op{kind: opTier, t: t, tier: genTier(r)})
	case k < 16:
		g.push(op{kind: opEp, e: r.intn(len(u.eps)), del: r.intn(4) == 0})
	case k < 17:
		g.push(op{kind: opInSync})
	default:
		g.push(op{kind: opFlush})
	}
}

// the history class behind the pending-update defect: match, unmatch, flush, update while inactive, match again
func (g *gen) directed() {
	r, u := g.r, g.u
	p, e := r.intn(len(u.keys)), r.intn(len(u.eps))
	pol, cls := genPolicy(r, u)
	g.push(op{kind: opEp, e: e})
	g.push(op{kind: opPol, p: p, pol: pol, typesEq: cls})
	for i := r.intn(3); i > 0; i-- {
		g.randomOp()
	}
	if !g.matched[[2]int{p, e}] {
		g.push(op{kind: opStart, p: p, e: e})
	}
	for e2 := range u.eps {
		if g.matched[[2]int{p, e2}] {
			g.push(op{kind: opStop, p: p, e: e2})
		}
	}
	if r.intn(2) == 0 {
		g.push(op{kind: opInSync})
	}
	g.push(op{kind: opFlush})
	pol2, cls2 := genPolicy(r, u)
	g.push(op{kind: opPol, p: p, pol: pol2, typesEq: cls2})
	for i := r.intn(3); i > 0; i-- {
		g.randomOp()
	}
	if !g.matched[[2]int{p, e}] {
		g.push(op{kind: opStart, p: p, e: e})
	}
}

// a placeholder tier turning into a real one with the placeholder's own fields: policy p names tier T while T does
// not exist (T sorts last, after the never-existing tier "ghost" named by q), everything is flushed, then T is
// created with no order and no default action: T must now move ahead of "ghost" in the endpoint's list.
func (g *gen) directedTier() {
	r, u := g.r, g.u
	if len(u.keys) < 2 || len(u.tiers) < 2 {
		return
	}
	t := 1 + r.intn(len(u.tiers)-1)
	p := r.intn(len(u.keys))
	q := (p + 1 + r.intn(len(u.keys)-1)) % len(u.keys)
	e := r.intn(len(u.eps))
	g.push(op{kind: opTier, t: t, del: true})
	pol, cls := genPolicy(r, u)
	pol.Tier = u.tiers[t]
	g.push(op{kind: opPol, p: p, pol: pol, typesEq: cls})
	pol2, cls2 := genPolicy(r, u)
	pol2.Tier = "ghost"
	g.push(op{kind: opPol, p: q, pol: pol2, typesEq: cls2})
	g.push(op{kind: opEp, e: e})
	if !g.matched[[2]int{p, e}] {
		g.push(op{kind: opStart, p: p, e: e})
	}
	if !g.matched[[2]int{q, e}] {
		g.push(op{kind: opStart, p: q, e: e})
	}
	g.push(op{kind: opInSync})
	g.push(op{kind: opFlush})
	g.push(op{kind: opTier, t: t, tier: &model.Tier{}})
	g.tierPlaceholderToReal = true
}

// ---------------------------------------------------------------- probes: which variant is this tree?

func f64(f float64) *float64 { return &f }

// fixed: does OnPolicyMatchStopped drop the pending sorter insertion of a policy that became inactive?
func probeFixed() bool {
	pr := calc.NewPolicyResolver()
	rec := &recorder{epNum: map[model.EndpointKey]int{}}
	pr.RegisterCallback(rec)
	ep := endpoints()[0]
	k1 := model.PolicyKey{Name: "p1", Kind: "GlobalNetworkPolicy"}
	k2 := model.PolicyKey{Name: "p2", Kind: "GlobalNetworkPolicy"}
	set := func(k model.PolicyKey, o float64) {
		pr.OnUpdate(api.Update{KVPair: model.KVPair{Key: k, Value: &model.Policy{Tier: "default", Order: f64(o)}}})
	}
	pr.OnDatamodelStatus(api.InSync)
	pr.OnUpdate(api.Update{KVPair: model.KVPair{Key: ep.(model.Key), Value: &model.WorkloadEndpoint{}}})
	set(k1, 1)
	set(k2, 2)
	pr.OnPolicyMatch(k2, ep)
	pr.OnPolicyMatch(k1, ep)
	pr.OnPolicyMatchStopped(k1, ep)
	pr.Flush()
	set(k1, 3) // inactive: not forwarded to the sorter
	pr.OnPolicyMatch(k1, ep)
	rec.cur = nil
	pr.Flush()
	if len(rec.cur) != 1 || len(rec.cur[0].tiers) != 1 || len(rec.cur[0].tiers[0].OrderedPolicies) != 2 {
		// the tree does something else altogether: compare it with the repaired variant, the cases will show how
		return true
	}
	return rec.cur[0].tiers[0].OrderedPolicies[0].Key == k2
}

// lexname: does the sorter break ties by name proper ("a" before "a-b") or by the joined string?
func probeLexName() bool {
	ps := calc.NewPolicySorter()
	for _, n := range []string{"a", "a-b"} {
		ps.OnUpdate(api.Update{KVPair: model.KVPair{Key: model.PolicyKey{Name: n, Kind: "GlobalNetworkPolicy"}, Value: &model.Policy{Tier: "default"}}})
	}
	ts := ps.Sorted()
	return ts[0].OrderedPolicies[0].Key.Name == "a"
}

// resetact: does deleting a tier that policies still name reset the kept entry's DefaultAction?
func probeResetAct() bool {
	pr := calc.NewPolicyResolver()
	rec := &recorder{epNum: map[model.EndpointKey]int{}}
	pr.RegisterCallback(rec)
	ep := endpoints()[0]
	k1 := model.PolicyKey{Name: "p1", Kind: "GlobalNetworkPolicy"}
	pr.OnDatamodelStatus(api.InSync)
	pr.OnUpdate(api.Update{KVPair: model.KVPair{Key: ep.(model.Key), Value: &model.WorkloadEndpoint{}}})
	pr.OnUpdate(api.Update{KVPair: model.KVPair{Key: model.TierKey{Name: "t"}, Value: &model.Tier{Order: f64(1), DefaultAction: "Pass"}}})
	pr.OnUpdate(api.Update{KVPair: model.KVPair{Key: k1, Value: &model.Policy{Tier: "t", Order: f64(1)}}})
	pr.OnPolicyMatch(k1, ep)
	pr.Flush()
	pr.OnUpdate(api.Update{KVPair: model.KVPair{Key: model.TierKey{Name: "t"}}})
	rec.cur = nil
	pr.Flush()
	if len(rec.cur) != 1 || len(rec.cur[0].tiers) != 1 {
		return true
	}
	return rec.cur[0].tiers[0].DefaultAction == ""
}

// ---------------------------------------------------------------- main

func main() {
	n := flag.Int("n", 100, "cases")
	seed := flag.Uint64("seed", 1, "seed")
	flag.Parse()
	log.SetLevel(log.PanicLevel)
	log.SetOutput(os.Stderr)
	r := &rng{s: *seed}
	enc := json.NewEncoder(os.Stdout)
	fixed, lexname, resetact := probeFixed(), probeLexName(), probeResetAct()
	_ = enc.Encode(map[string]any{"stats": map[string]any{"probe_discard_pending_on_last_match_stopped": fixed, "probe_tiebreak_by_name_proper": lexname, "probe_deleted_tier_resets_default_action": resetact}})

	variant := fmt.Sprintf("(mkVariant3 %s %s %s)", cb(fixed), cb(lexname), cb(resetact))
	for i := 0; i < *n; i++ {
		if r.intn(4) == 0 {
			_ = enc.Encode(pipelineCase(r, variant))
			continue
		}
		u := &universe{tiers: tierNames, eps: endpoints()}
		stream := "stream:random"
		sel := r.intn(16)
		switch {
		case sel < 2:
			stream = "stream:prefix-names"
			u.keys = prefixKeys
			u.fewOrders = true
			u.tiers = tierNames[:2]
		default:
			nk := 3 + r.intn(4)
			off := r.intn(len(plainKeys))
			for j := 0; j < nk; j++ {
				u.keys = append(u.keys, plainKeys[(off+j)%len(plainKeys)])
			}
		}
		u.eps = u.eps[:2+r.intn(3)]
		g := &gen{r: r, u: u, matched: map[[2]int]bool{}, polSet: map[int]bool{}, sawStart: map[int]bool{}, strict: r.intn(6) != 0}
		if !g.strict {
			stream += "+unconstrained"
		}
		if r.intn(3) != 0 {
			g.push(op{kind: opInSync})
		}
		// a populated starting point: tiers, endpoints, policies
		for t := range u.tiers {
			if r.intn(3) != 0 {
				g.push(op{kind: opTier, t: t, tier: genTier(r)})
			}
		}
		for e := range u.eps {
			if r.intn(4) != 0 {
				g.push(op{kind: opEp, e: e})
			}
		}
		for p := range u.keys {
			if r.intn(3) != 0 {
				pol, cls := genPolicy(r, u)
				g.push(op{kind: opPol, p: p, pol: pol, typesEq: cls})
				for e := range u.eps {
					if r.intn(2) == 0 {
						g.push(op{kind: opStart, p: p, e: e})
					}
				}
			}
		}
		nops := len(g.ops) + 8 + r.intn(25)
		dir := sel >= 2 && sel < 6
		if dir {
			stream += "+directed"
		}
		for len(g.ops) < nops {
			if dir && r.intn(6) == 0 {
				g.directed()
			} else {
				g.randomOp()
			}
		}
		if sel >= 6 && sel < 9 {
			stream += "+placeholder-tier-created"
			g.directedTier()
			for i := r.intn(3); i > 0; i-- {
				g.randomOp()
			}
		}
		g.push(op{kind: opInSync})
		g.push(op{kind: opFlush})

		// run the real code
		pr := calc.NewPolicyResolver()
		rec := &recorder{epNum: map[model.EndpointKey]int{}}
		for j, e := range u.eps {
			rec.epNum[e] = j + 1
		}
		pr.RegisterCallback(rec)
		var opsCoq, outsCoq, splitsCoq, trace []string
		flushes, nonEmptyLists, multiPolTier, multiTier, prefixPairOut := 0, 0, 0, 0, false
		for _, o := range g.ops {
			opsCoq = append(opsCoq, o.coq(u))
		}
		panicked := false
		for _, o := range g.ops {
			rec.cur = nil
			tl := o.text(u)
			if msg := safeApply(pr, u, o); msg != "" {
				// the real code panicked: this Flush (and the rest) has no output, which no oracle accepts
				panicked = true
				trace = append(trace, tl+" PANIC: "+msg)
				break
			}
			if o.kind == opFlush {
				flushes++
				sort.SliceStable(rec.cur, func(a, b int) bool { return rec.cur[a].ep < rec.cur[b].ep })
				var outs []string
				for _, up := range rec.cur {
					if !up.present {
						outs = append(outs, fmt.Sprintf("(%d, None)", up.ep))
						tl += fmt.Sprintf(" ep%d:removed", up.ep)
						continue
					}
					ts := make([]string, len(up.tiers))
					for k, t := range up.tiers {
						ts[k] = toutCoq(t)
						if len(t.OrderedPolicies) > 1 {
							multiPolTier++
						}
						for a := 0; a+1 < len(t.OrderedPolicies); a++ {
							x, y := t.OrderedPolicies[a], t.OrderedPolicies[a+1]
							if x.Value.Order == y.Value.Order && (strings.HasPrefix(x.Key.Name, y.Key.Name) && x.Key.Name != y.Key.Name ||
								x.Key.Name == y.Key.Name && strings.HasPrefix(x.Key.Namespace, y.Key.Namespace) && x.Key.Namespace != y.Key.Namespace) {
								prefixPairOut = true
							}
						}
					}
					if len(up.tiers) > 0 {
						nonEmptyLists++
					}
					if len(up.tiers) > 1 {
						multiTier++
					}
					outs = append(outs, fmt.Sprintf("(%d, Some %s)", up.ep, lst(ts)))
					tl += fmt.Sprintf(" ep%d:%v", up.ep, up.tiers)
					nt, ut, pt, ft := calc.VerifTierInfoToProto(up.tiers)
					splitsCoq = append(splitsCoq, fmt.Sprintf("mkSplit %s %s %s %s", ptiersCoq(nt), ptiersCoq(ut), ptiersCoq(pt), ptiersCoq(ft)))
				}
				outsCoq = append(outsCoq, lst(outs))
			}
			trace = append(trace, tl)
		}
		coq := fmt.Sprintf("ARes (mk_case %s %s %s %s)", variant, lst(opsCoq), lst(outsCoq), lst(splitsCoq))
		tags := []string{stream}
		if panicked {
			tags = append(tags, "panic")
		}
		if g.startStopBetweenFlush {
			tags = append(tags, "start+stop-between-flushes")
		}
		if g.tierPlaceholderToReal {
			tags = append(tags, "placeholder-tier-became-real")
		}
		if g.polUpdInactive {
			tags = append(tags, "policy-update-while-inactive")
		}
		if multiTier > 0 {
			tags = append(tags, "multi-tier-output")
		}
		if multiPolTier > 0 {
			tags = append(tags, "multi-policy-tier-output")
		}
		if prefixPairOut {
			tags = append(tags, "prefix-pair-out-of-name-order")
		}
		nt := nonEmptyLists > 0 && (g.startStopBetweenFlush || multiPolTier > 0)
		_ = enc.Encode(line{Coq: coq, NT: nt, Key: strings.Join(opsCoq, ";"),
			Sample: map[string]any{"trace": trace}, Tags: tags})
	}
}
