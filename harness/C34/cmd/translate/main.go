//go:build verif

// C34 translator (go/ast): reads apiserver/pkg/registry/projectcalico/authorizer/authorizer.go of the tree named by
// -repo and prints {"gen": <Gen.v>, "info": {...}}.  For the method AuthorizeTierOperation it extracts
//   * every `go func() {...}()` statement (they must be top-level statements of the method body): the variables of the
//     enclosing function the closure WRITES and READS, whether it starts with `defer wg.Done()`, which outer variables
//     receive the results of its a.Authorize(ctx, attrs) call, and which of the three questions its attrs literal asks;
//   * for the parent goroutine, the accesses of the statements between consecutive `go` statements / wg.Wait() (they
//     run concurrently with the closures already started);
//   * wg.Add(n), the variables whose type is a synchronisation primitive;
//   * the decision expression evaluated after wg.Wait() (`if <cond> { return nil }` ... `return k8serrors.NewForbidden(...)`).
// Anything that does not have this shape is REFUSED (exit 3) rather than guessed.
package main

import (
	"bytes"
	"encoding/json"
	"flag"
	"fmt"
	"go/ast"
	"go/parser"
	"go/printer"
	"go/token"
	"os"
	"path/filepath"
	"sort"
	"strconv"
	"strings"
)

const rel = "apiserver/pkg/registry/projectcalico/authorizer/authorizer.go"

var fset = token.NewFileSet()

func refuse(format string, a ...any) {
	fmt.Fprintf(os.Stderr, "REFUSE: "+format+"\n", a...)
	os.Exit(3)
}

func text(n ast.Node) string {
	var b bytes.Buffer
	printer.Fprint(&b, fset, n)
	return strings.Join(strings.Fields(b.String()), " ")
}

func line(n ast.Node) int { return fset.Position(n.Pos()).Line }

func coqString(s string) string { return "\"" + strings.ReplaceAll(s, "\"", "\"\"") + "\"" }
func coqStrList(l []string) string {
	q := []string{}
	for _, s := range l {
		q = append(q, coqString(s))
	}
	return "[" + strings.Join(q, "; ") + "]"
}

type accessSet struct {
	writes, reads map[string]bool
}

func newAS() *accessSet { return &accessSet{map[string]bool{}, map[string]bool{}} }

func sorted(m map[string]bool) []string {
	r := []string{}
	for k := range m {
		r = append(r, k)
	}
	sort.Strings(r)
	return r
}

type analyser struct {
	fd    *ast.FuncDecl
	types map[string]string // function-level variable -> declared type text ("" if unknown)
}

// isOuter: the identifier denotes a variable (incl. parameter / receiver) of the enclosing function that is declared
// outside [lo, hi) (the closure), or anywhere in the function when lo == hi.
func (a *analyser) outerVar(id *ast.Ident, lo, hi token.Pos) (string, bool) {
	if id.Obj == nil || id.Obj.Kind != ast.Var || id.Name == "_" {
		return "", false
	}
	p := id.Obj.Pos()
	if p < a.fd.Pos() || p >= a.fd.End() {
		return "", false
	}
	if lo != hi && p >= lo && p < hi {
		return "", false // local to the closure
	}
	return id.Name, true
}

func baseIdent(x ast.Expr) *ast.Ident {
	for {
		switch n := x.(type) {
		case *ast.Ident:
			return n
		case *ast.SelectorExpr:
			x = n.X
		case *ast.IndexExpr:
			x = n.X
		case *ast.StarExpr:
			x = n.X
		case *ast.ParenExpr:
			x = n.X
		default:
			return nil
		}
	}
}

// accesses of a list of nodes. Nested function literals are included (they might run at once).
func (a *analyser) accesses(nodes []ast.Node, lo, hi token.Pos) *accessSet {
	as := newAS()
	writePos := map[*ast.Ident]bool{}
	alsoRead := map[*ast.Ident]bool{}
	mark := func(x ast.Expr, rw bool) {
		if id := baseIdent(x); id != nil {
			writePos[id] = true
			if rw {
				alsoRead[id] = true
			}
		}
	}
	for _, n := range nodes {
		ast.Inspect(n, func(m ast.Node) bool {
			switch s := m.(type) {
			case *ast.AssignStmt:
				for _, l := range s.Lhs {
					mark(l, s.Tok != token.ASSIGN && s.Tok != token.DEFINE)
				}
			case *ast.IncDecStmt:
				mark(s.X, true)
			case *ast.UnaryExpr:
				if s.Op == token.AND {
					mark(s.X, true) // address taken: assume it may be written through the pointer
				}
			case *ast.RangeStmt:
				if s.Key != nil {
					mark(s.Key, false)
				}
				if s.Value != nil {
					mark(s.Value, false)
				}
			case *ast.ValueSpec: // var x T [= e]: initialisation is a write
				for _, id := range s.Names {
					writePos[id] = true
				}
			}
			return true
		})
	}
	for _, n := range nodes {
		ast.Inspect(n, func(m ast.Node) bool {
			id, ok := m.(*ast.Ident)
			if !ok {
				return true
			}
			name, outer := a.outerVar(id, lo, hi)
			if !outer {
				return true
			}
			if writePos[id] {
				as.writes[name] = true
				if alsoRead[id] {
					as.reads[name] = true
				}
			} else {
				as.reads[name] = true
			}
			return true
		})
	}
	return as
}

func (a *analyser) collectTypes() {
	a.types = map[string]string{}
	rec := func(fl *ast.FieldList) {
		if fl == nil {
			return
		}
		for _, f := range fl.List {
			for _, n := range f.Names {
				a.types[n.Name] = text(f.Type)
			}
		}
	}
	rec(a.fd.Recv)
	rec(a.fd.Type.Params)
	rec(a.fd.Type.Results)
	ast.Inspect(a.fd.Body, func(m ast.Node) bool {
		switch s := m.(type) {
		case *ast.ValueSpec:
			for _, n := range s.Names {
				if s.Type != nil {
					a.types[n.Name] = text(s.Type)
				}
			}
		case *ast.AssignStmt:
			if s.Tok == token.DEFINE && len(s.Lhs) == len(s.Rhs) {
				for i, l := range s.Lhs {
					if id, ok := l.(*ast.Ident); ok {
						if cl, ok := s.Rhs[i].(*ast.CompositeLit); ok && cl.Type != nil {
							a.types[id.Name] = text(cl.Type)
						} else if _, seen := a.types[id.Name]; !seen {
							a.types[id.Name] = ""
						}
					}
				}
			}
		}
		return true
	})
}

var syncTypes = map[string]bool{"sync.WaitGroup": true, "*sync.WaitGroup": true, "sync.Mutex": true, "*sync.Mutex": true,
	"sync.RWMutex": true, "*sync.RWMutex": true, "atomic.Bool": true, "atomic.Int32": true, "atomic.Int64": true, "atomic.Value": true}

type closure struct {
	id, line       int
	as             *accessSet
	done           bool
	assigns        []string // Coq pairs
	query          string
	verb, res, nam string
}

func main() {
	repo := flag.String("repo", "", "tree")
	flag.Parse()
	f, err := parser.ParseFile(fset, filepath.Join(*repo, rel), nil, 0)
	if err != nil {
		refuse("%s: %v", rel, err)
	}
	var fd *ast.FuncDecl
	for _, d := range f.Decls {
		if x, ok := d.(*ast.FuncDecl); ok && x.Name.Name == "AuthorizeTierOperation" && x.Recv != nil && x.Body != nil {
			if fd != nil {
				refuse("%s: two methods AuthorizeTierOperation", rel)
			}
			fd = x
		}
	}
	if fd == nil {
		refuse("%s: method AuthorizeTierOperation not found", rel)
	}
	an := &analyser{fd: fd}
	an.collectTypes()

	// no `go` statement may hide below the top level
	nGo := 0
	ast.Inspect(fd.Body, func(m ast.Node) bool {
		if _, ok := m.(*ast.GoStmt); ok {
			nGo++
		}
		return true
	})

	var closures []*closure
	type segment struct {
		after int
		as    *accessSet
		lines string
	}
	var segments []segment
	var cur []ast.Node
	wgAdd, waitIdx := -1, -1
	flush := func() {
		if len(closures) > 0 && len(cur) > 0 {
			segments = append(segments, segment{len(closures), an.accesses(cur, 0, 0), fmt.Sprintf("%d-%d", line(cur[0]), fset.Position(cur[len(cur)-1].End()).Line)})
		}
		cur = nil
	}
	for i, st := range fd.Body.List {
		if waitIdx >= 0 {
			break
		}
		switch s := st.(type) {
		case *ast.GoStmt:
			fl, ok := s.Call.Fun.(*ast.FuncLit)
			if !ok || len(s.Call.Args) != 0 {
				refuse("%s:%d: `go` statement that is not `go func() {...}()`", rel, line(s))
			}
			flush()
			c := &closure{id: len(closures) + 1, line: line(s)}
			c.as = an.accesses([]ast.Node{fl.Body}, fl.Pos(), fl.End())
			if len(fl.Body.List) > 0 {
				if d, ok := fl.Body.List[0].(*ast.DeferStmt); ok && text(d.Call) == "wg.Done()" {
					c.done = true
				}
			}
			// a.Authorize(ctx, attrs)
			nAuth := 0
			ast.Inspect(fl.Body, func(m ast.Node) bool {
				as, ok := m.(*ast.AssignStmt)
				if !ok || len(as.Rhs) != 1 {
					return true
				}
				call, ok := as.Rhs[0].(*ast.CallExpr)
				if !ok || text(call.Fun) != "a.Authorize" {
					return true
				}
				nAuth++
				if len(as.Lhs) != 3 || len(call.Args) != 2 || text(call.Args[1]) != "attrs" {
					refuse("%s:%d: unexpected form of the a.Authorize call: %s", rel, line(as), text(as))
				}
				for idx, l := range as.Lhs {
					id, ok := l.(*ast.Ident)
					if !ok {
						refuse("%s:%d: result of a.Authorize stored in a non-identifier", rel, line(as))
					}
					if name, outer := an.outerVar(id, fl.Pos(), fl.End()); outer {
						c.assigns = append(c.assigns, fmt.Sprintf("(%s, %d)", coqString(name), idx))
					}
				}
				return true
			})
			if nAuth != 1 {
				refuse("%s:%d: closure with %d calls of a.Authorize (expected exactly one)", rel, line(s), nAuth)
			}
			// attrs := k8sauth.AttributesRecord{...}
			found := false
			ast.Inspect(fl.Body, func(m ast.Node) bool {
				as, ok := m.(*ast.AssignStmt)
				if !ok || as.Tok != token.DEFINE || len(as.Lhs) != 1 || text(as.Lhs[0]) != "attrs" {
					return true
				}
				cl, ok := as.Rhs[0].(*ast.CompositeLit)
				if !ok || text(cl.Type) != "k8sauth.AttributesRecord" {
					refuse("%s:%d: attrs is not a k8sauth.AttributesRecord literal", rel, line(as))
				}
				found = true
				for _, el := range cl.Elts {
					kv := el.(*ast.KeyValueExpr)
					v := kv.Value
					if id, ok := v.(*ast.Ident); ok && id.Obj != nil { // local defined by `x := e` inside the closure: use e
						if d, ok := id.Obj.Decl.(*ast.AssignStmt); ok && d.Tok == token.DEFINE && len(d.Lhs) == 1 && d.Pos() >= fl.Pos() && d.Pos() < fl.End() {
							v = d.Rhs[0]
						}
					}
					switch text(kv.Key) {
					case "Verb":
						c.verb = text(v)
					case "Resource":
						c.res = text(v)
					case "Name":
						c.nam = text(v)
					}
				}
				return true
			})
			if !found {
				refuse("%s:%d: closure without `attrs := k8sauth.AttributesRecord{...}`", rel, line(s))
			}
			switch {
			case c.verb == `"get"` && c.res == `"tiers"` && c.nam == "tierName":
				c.query = "QGetTier"
			case c.verb == "attributes.GetVerb()" && c.res == "tierScopedResource" && c.nam == "attributes.GetName()":
				c.query = "QPolicy"
			case c.verb == "attributes.GetVerb()" && c.res == "tierScopedResource" && c.nam == `tierName + ".*"`:
				c.query = "QWildcard"
			default:
				refuse("%s:%d: closure asks a question this translator does not know: Verb=%s Resource=%s Name=%s", rel, line(s), c.verb, c.res, c.nam)
			}
			closures = append(closures, c)
		case *ast.ExprStmt:
			t := text(s.X)
			switch {
			case strings.HasPrefix(t, "wg.Add("):
				call := s.X.(*ast.CallExpr)
				bl, ok := call.Args[0].(*ast.BasicLit)
				if !ok || wgAdd >= 0 || len(closures) > 0 {
					refuse("%s:%d: wg.Add is not a single literal call before the first goroutine", rel, line(s))
				}
				wgAdd, _ = strconv.Atoi(bl.Value)
			case t == "wg.Wait()":
				flush()
				waitIdx = i
			default:
				cur = append(cur, st)
			}
		default:
			cur = append(cur, st)
		}
	}
	if waitIdx < 0 || wgAdd < 0 || len(closures) == 0 {
		refuse("%s: AuthorizeTierOperation: wg.Add(n) / go func(){}() / wg.Wait() structure not found", rel)
	}
	if nGo != len(closures) {
		refuse("%s: AuthorizeTierOperation has %d `go` statements but only %d are top-level statements before wg.Wait()", rel, nGo, len(closures))
	}

	// after wg.Wait(): if <cond> { ...; return nil } ; ... ; return k8serrors.NewForbidden(...)
	post := fd.Body.List[waitIdx+1:]
	var cond ast.Expr
	for i, st := range post {
		switch s := st.(type) {
		case *ast.IfStmt:
			if cond != nil || s.Init != nil || s.Else != nil {
				refuse("%s:%d: unexpected `if` after wg.Wait()", rel, line(s))
			}
			last, ok := s.Body.List[len(s.Body.List)-1].(*ast.ReturnStmt)
			if !ok || len(last.Results) != 1 || text(last.Results[0]) != "nil" {
				refuse("%s:%d: the `if` after wg.Wait() does not end in `return nil`", rel, line(s))
			}
			cond = s.Cond
		case *ast.ReturnStmt:
			if i != len(post)-1 || cond == nil || len(s.Results) != 1 || !strings.HasPrefix(text(s.Results[0]), "k8serrors.NewForbidden(") {
				refuse("%s:%d: unexpected return after wg.Wait(): %s", rel, line(s), text(s))
			}
		default:
			ret := false
			ast.Inspect(st, func(m ast.Node) bool {
				if _, ok := m.(*ast.ReturnStmt); ok {
					ret = true
				}
				return true
			})
			if ret {
				refuse("%s:%d: statement with a return after wg.Wait(): %s", rel, line(st), text(st))
			}
		}
	}
	if cond == nil {
		refuse("%s: no `if <cond> { return nil }` after wg.Wait()", rel)
	}
	if _, ok := post[len(post)-1].(*ast.ReturnStmt); !ok {
		refuse("%s: AuthorizeTierOperation does not end in `return k8serrors.NewForbidden(...)`", rel)
	}
	var tr func(x ast.Expr) string
	decConst := map[string]string{"k8sauth.DecisionAllow": "Allow", "k8sauth.DecisionDeny": "Deny", "k8sauth.DecisionNoOpinion": "NoOpinion"}
	tr = func(x ast.Expr) string {
		switch n := x.(type) {
		case *ast.ParenExpr:
			return tr(n.X)
		case *ast.UnaryExpr:
			if n.Op == token.NOT {
				return "(BNot " + tr(n.X) + ")"
			}
		case *ast.BinaryExpr:
			switch n.Op {
			case token.LAND:
				return "(BAnd " + tr(n.X) + " " + tr(n.Y) + ")"
			case token.LOR:
				return "(BOr " + tr(n.X) + " " + tr(n.Y) + ")"
			case token.EQL, token.NEQ:
				id, ok := n.X.(*ast.Ident)
				c, okc := decConst[text(n.Y)]
				if ok && okc {
					if _, outer := an.outerVar(id, 0, 0); outer {
						r := "(BIs " + coqString(id.Name) + " " + c + ")"
						if n.Op == token.NEQ {
							r = "(BNot " + r + ")"
						}
						return r
					}
				}
			}
		}
		refuse("%s:%d: unrecognised decision expression `%s`", rel, line(x), text(x))
		return ""
	}
	allowed := tr(cond)
	var postNodes []ast.Node
	for _, s := range post {
		postNodes = append(postNodes, s)
	}
	postAS := an.accesses(postNodes, 0, 0)

	// ---- Gen.v
	syncVars := map[string]bool{}
	for v, t := range an.types {
		if syncTypes[t] {
			syncVars[v] = true
		}
	}
	var b strings.Builder
	b.WriteString("(* GENERATED on every run by /verif/harness/C34/cmd/translate from " + rel + " of $VERIF_REPO.  Do not edit. *)\n")
	b.WriteString("From Coq Require Import List String Bool.\nFrom Verif.C34 Require Import Model.\nImport ListNotations.\nOpen Scope string_scope.\n\n")
	b.WriteString("(* the `go func() {...}()` statements of AuthorizeTierOperation, in source order *)\nDefinition closures : list closure := [\n")
	var cls []string
	info := map[string]any{}
	var cinfo []map[string]any
	for _, c := range closures {
		cls = append(cls, fmt.Sprintf("  (* line %d: Verb=%s Resource=%s Name=%s *)\n  {| cl_id := %d; cl_line := %d; cl_query := %s; cl_done := %v;\n     cl_writes := %s;\n     cl_reads := %s;\n     cl_assigns := [%s] |}",
			c.line, c.verb, c.res, c.nam, c.id, c.line, c.query, c.done, coqStrList(sorted(c.as.writes)), coqStrList(sorted(c.as.reads)), strings.Join(c.assigns, "; ")))
		cinfo = append(cinfo, map[string]any{"id": c.id, "line": c.line, "query": c.query, "writes": sorted(c.as.writes), "reads": sorted(c.as.reads)})
	}
	b.WriteString(strings.Join(cls, ";\n") + "\n].\n\n")
	b.WriteString("(* statements of the parent goroutine between two `go` statements / wg.Wait(): sg_after = number of closures already running *)\nDefinition segments : list segment := [\n")
	var sgs []string
	for _, s := range segments {
		sgs = append(sgs, fmt.Sprintf("  (* lines %s *)\n  {| sg_after := %d; sg_writes := %s; sg_reads := %s |}", s.lines, s.after, coqStrList(sorted(s.as.writes)), coqStrList(sorted(s.as.reads))))
	}
	b.WriteString(strings.Join(sgs, ";\n") + "\n].\n\n")
	b.WriteString("(* variables whose type is a synchronisation primitive (" + fmt.Sprint(sorted(syncVars)) + ") *)\nDefinition sync_vars : list string := " + coqStrList(sorted(syncVars)) + ".\n\n")
	b.WriteString(fmt.Sprintf("(* wg.Add(%d) *)\nDefinition wg_add : nat := %d.\n\n", wgAdd, wgAdd))
	b.WriteString("(* after wg.Wait(): if " + text(cond) + " { return nil } ... return k8serrors.NewForbidden(...) *)\n")
	b.WriteString("Definition post_wait_allowed : bexpr :=\n  " + allowed + ".\n\n")
	b.WriteString("(* variables read after wg.Wait() *)\nDefinition post_wait_reads : list string := " + coqStrList(sorted(postAS.reads)) + ".\n\n")
	b.WriteString("Definition G : gen := {| g_closures := closures; g_segments := segments; g_sync := sync_vars; g_wg_add := wg_add;\n  g_allowed := post_wait_allowed; g_post_reads := post_wait_reads |}.\n")
	info["closures"] = cinfo
	info["sync_vars"] = sorted(syncVars)
	info["wg_add"] = wgAdd
	info["decision"] = text(cond)
	js, _ := json.Marshal(map[string]any{"gen": b.String(), "info": info})
	os.Stdout.Write(js)
	os.Stdout.WriteString("\n")
}
