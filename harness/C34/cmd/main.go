//go:build verif

// C34 correspondence driver: the real AuthorizeTierOperation over a scripted k8s authorizer, for every combination of
// the three decisions (Deny / Allow / NoOpinion) x error flags and several request shapes.
package main

import (
	"context"
	"encoding/json"
	"errors"
	"flag"
	"fmt"
	"io"
	"os"
	"sync"
	"time"

	"github.com/sirupsen/logrus"
	k8serrors "k8s.io/apimachinery/pkg/api/errors"
	"k8s.io/apiserver/pkg/authentication/user"
	k8sauth "k8s.io/apiserver/pkg/authorization/authorizer"
	genericapirequest "k8s.io/apiserver/pkg/endpoints/request"

	"github.com/projectcalico/calico/apiserver/pkg/registry/projectcalico/authorizer"
)

type rng struct{ s uint64 }

func (r *rng) next() uint64 {
	r.s += 0x9e3779b97f4a7c15
	z := r.s
	z = (z ^ (z >> 30)) * 0xbf58476d1ce4e5b9
	z = (z ^ (z >> 27)) * 0x94d049bb133111eb
	return z ^ (z >> 31)
}

type question struct{ verb, resource, name, namespace string }

type ans struct {
	d   k8sauth.Decision
	err bool
}

type scripted struct {
	mu         sync.Mutex
	expect     [3]question
	answers    [3]ans
	asked      [3]int
	unexpected int
	delay      [3]time.Duration
}

func (s *scripted) Authorize(ctx context.Context, a k8sauth.Attributes) (k8sauth.Decision, string, error) {
	q := question{a.GetVerb(), a.GetResource(), a.GetName(), a.GetNamespace()}
	s.mu.Lock()
	idx := -1
	for i, e := range s.expect {
		if e == q {
			idx = i
		}
	}
	if idx < 0 {
		s.unexpected++
		s.mu.Unlock()
		return k8sauth.DecisionDeny, "unexpected question", nil
	}
	s.asked[idx]++
	d := s.delay[idx]
	s.mu.Unlock()
	if d > 0 {
		time.Sleep(d)
	}
	if s.answers[idx].err {
		return s.answers[idx].d, "scripted", errors.New("scripted authorizer error")
	}
	return s.answers[idx].d, "scripted", nil
}

func (s *scripted) ConditionsAwareAuthorize(ctx context.Context, a k8sauth.Attributes) k8sauth.ConditionsAwareDecision {
	return k8sauth.ConditionsAwareDecisionFromParts(s.Authorize(ctx, a))
}

func (s *scripted) EvaluateConditions(ctx context.Context, decision k8sauth.ConditionsAwareDecision, data k8sauth.ConditionsData) (k8sauth.Decision, string, error) {
	return k8sauth.DecisionDeny, "", k8sauth.ErrorConditionEvaluationNotSupported
}

type shape struct {
	name, resource, namespace, verb, objName string
}

var shapes = []shape{
	{"gnp-get-named", "globalnetworkpolicies", "", "get", "tier-a.gnp1"},
	{"gnp-list", "globalnetworkpolicies", "", "list", ""},
	{"np-create", "networkpolicies", "ns1", "create", ""},
	{"np-delete-bare-name", "networkpolicies", "ns1", "delete", "np1"},
}

const tier = "tier-a"

var testUser = &user.DefaultInfo{Name: "verif-user", UID: "u1", Groups: []string{"g1"}}

func mkctx(sh shape) context.Context {
	ctx := genericapirequest.NewContext()
	ctx = genericapirequest.WithUser(ctx, testUser)
	path := "/apis/projectcalico.org/v3/"
	if sh.namespace != "" {
		ctx = genericapirequest.WithNamespace(ctx, sh.namespace)
		path += "namespaces/" + sh.namespace + "/"
	}
	path += sh.resource
	if sh.objName != "" {
		path += "/" + sh.objName
	}
	ri := &genericapirequest.RequestInfo{IsResourceRequest: true, Path: path, Verb: sh.verb, APIGroup: "projectcalico.org", APIVersion: "v3",
		Resource: sh.resource, Namespace: sh.namespace, Name: sh.objName}
	return genericapirequest.WithRequestInfo(ctx, ri)
}

var decs = []k8sauth.Decision{k8sauth.DecisionDeny, k8sauth.DecisionAllow, k8sauth.DecisionNoOpinion}
var decCoq = map[k8sauth.Decision]string{k8sauth.DecisionDeny: "Deny", k8sauth.DecisionAllow: "Allow", k8sauth.DecisionNoOpinion: "NoOpinion"}
var decName = map[k8sauth.Decision]string{k8sauth.DecisionDeny: "Deny", k8sauth.DecisionAllow: "Allow", k8sauth.DecisionNoOpinion: "NoOpinion"}

func b(x bool) string {
	if x {
		return "true"
	}
	return "false"
}

type line struct {
	Coq    string         `json:"coq"`
	NT     bool           `json:"nt"`
	Key    string         `json:"key"`
	Sample map[string]any `json:"sample,omitempty"`
	Tags   []string       `json:"tags"`
}

func main() {
	n := flag.Int("n", 0, "ignored (complete enumeration)")
	seed := flag.Uint64("seed", 1, "seed of the per-question delays")
	flag.Parse()
	_ = n
	logrus.SetOutput(io.Discard)
	r := &rng{s: *seed}
	enc := json.NewEncoder(os.Stdout)
	count := 0
	for si, sh := range shapes {
		for _, dg := range decs {
			for _, dp := range decs {
				for _, dw := range decs {
					for e := 0; e < 8; e++ {
						s := &scripted{}
						s.expect = [3]question{{"get", "tiers", tier, ""}, {sh.verb, "tier." + sh.resource, sh.objName, sh.namespace}, {sh.verb, "tier." + sh.resource, tier + ".*", sh.namespace}}
						s.answers = [3]ans{{dg, e&1 != 0}, {dp, e&2 != 0}, {dw, e&4 != 0}}
						for i := range s.delay { // vary the completion order of the three goroutines
							s.delay[i] = time.Duration(r.next()%3) * 20 * time.Microsecond
						}
						err := authorizer.NewTierAuthorizer(s).AuthorizeTierOperation(mkctx(sh), sh.objName, tier)
						allowed := err == nil
						forbidden := err != nil && k8serrors.IsForbidden(err)
						coq := fmt.Sprintf("(Build_case (Build_answer %s %s) (Build_answer %s %s) (Build_answer %s %s) %d %s %s (%d, %d, %d) %d)",
							decCoq[dg], b(e&1 != 0), decCoq[dp], b(e&2 != 0), decCoq[dw], b(e&4 != 0), si, b(allowed), b(forbidden),
							s.asked[0], s.asked[1], s.asked[2], s.unexpected)
						msg := ""
						if err != nil {
							msg = err.Error()
						}
						nt := dg == k8sauth.DecisionAllow || e != 0
						enc.Encode(line{Coq: coq, NT: nt, Key: fmt.Sprintf("%s|%s|%s|%s|%d", sh.name, decName[dg], decName[dp], decName[dw], e),
							Tags:   []string{"shape:" + sh.name, "get:" + decName[dg], fmt.Sprintf("errors:%d", e)},
							Sample: map[string]any{"shape": sh.name, "getTier": decName[dg], "policy": decName[dp], "wildcard": decName[dw], "error_flags(get,policy,wildcard)": []bool{e&1 != 0, e&2 != 0, e&4 != 0}, "allowed": allowed, "error": msg, "asked": s.asked, "unexpected_questions": s.unexpected}})
						count++
					}
				}
			}
		}
	}
	enc.Encode(map[string]any{"stats": map[string]any{"cases": count, "shapes": len(shapes)}})
}
