//go:build verif

package authorizer_test

import (
	"context"
	"errors"
	"math/rand"
	"os"
	"strconv"
	"testing"
	"time"

	k8sauth "k8s.io/apiserver/pkg/authorization/authorizer"

	"github.com/projectcalico/calico/apiserver/pkg/registry/projectcalico/authorizer"
)

// verifSleepy answers every question with the scripted decision for its kind (and, if asked to, an error) after a
// random short sleep, so that the three goroutines of AuthorizeTierOperation complete in varying orders.
type verifSleepy struct {
	d     [3]k8sauth.Decision
	err   [3]bool
	delay [3]int // microseconds, per question; read-only while the goroutines run
}

func (s *verifSleepy) Authorize(ctx context.Context, a k8sauth.Attributes) (k8sauth.Decision, string, error) {
	i := 1
	if a.GetResource() == "tiers" {
		i = 0
	} else if n := a.GetName(); len(n) > 2 && n[len(n)-2:] == ".*" {
		i = 2
	}
	time.Sleep(time.Duration(s.delay[i]) * time.Microsecond)
	if s.err[i] {
		return s.d[i], "scripted", errors.New("scripted authorizer error")
	}
	return s.d[i], "scripted", nil
}

func (s *verifSleepy) ConditionsAwareAuthorize(ctx context.Context, a k8sauth.Attributes) k8sauth.ConditionsAwareDecision {
	return k8sauth.ConditionsAwareDecisionFromParts(s.Authorize(ctx, a))
}

func (s *verifSleepy) EvaluateConditions(ctx context.Context, decision k8sauth.ConditionsAwareDecision, data k8sauth.ConditionsData) (k8sauth.Decision, string, error) {
	return k8sauth.DecisionDeny, "", k8sauth.ErrorConditionEvaluationNotSupported
}

// TestVerifC34Race: all 27 x 8 answer combinations, several rounds, meant to be run with -race.
func TestVerifC34Race(t *testing.T) {
	seed, _ := strconv.ParseInt(os.Getenv("VERIF_SEED"), 10, 64)
	rounds, _ := strconv.Atoi(os.Getenv("VERIF_ROUNDS"))
	if rounds <= 0 {
		rounds = 2
	}
	r := rand.New(rand.NewSource(seed + 1))
	decs := []k8sauth.Decision{k8sauth.DecisionDeny, k8sauth.DecisionAllow, k8sauth.DecisionNoOpinion}
	for round := 0; round < rounds; round++ {
		for _, dg := range decs {
			for _, dp := range decs {
				for _, dw := range decs {
					for e := 0; e < 8; e++ {
						s := &verifSleepy{d: [3]k8sauth.Decision{dg, dp, dw}, err: [3]bool{e&1 != 0, e&2 != 0, e&4 != 0}}
						s.delay = [3]int{r.Intn(60), r.Intn(60), r.Intn(60)}
						ctx := createNetworkPolicyContext("get")
						if round%2 == 1 {
							ctx = createGlobalNetworkPolicyContext("delete")
						}
						err := authorizer.NewTierAuthorizer(s).AuthorizeTierOperation(ctx, "test-tier.test-np", "test-tier")
						want := dg == k8sauth.DecisionAllow && (dp == k8sauth.DecisionAllow || dw == k8sauth.DecisionAllow)
						if (err == nil) != want {
							t.Errorf("get=%v policy=%v wildcard=%v errors=%d: allowed=%v, want %v", dg, dp, dw, e, err == nil, want)
						}
					}
				}
			}
		}
	}
}
