//go:build verif

// C29 correspondence driver.  For generated Kubernetes NetworkPolicies, namespaces and pods it runs the REAL
//
//	conversion.K8sNetworkPolicyToCalico  ->  updateprocessors.NewNetworkPolicyUpdateProcessor(KindKubernetesNetworkPolicy)
//	conversion.NamespaceToProfile        ->  updateprocessors.NewProfileUpdateProcessor
//	conversion.PodToWorkloadEndpoints    ->  updateprocessors.NewWorkloadEndpointUpdateProcessor
//
// parses every selector of the resulting model.Policy with the real selector parser and prints the case
// (inputs + the implementation's outputs) as a Coq term of type Verif.C29.Spec.case, one JSON object per line.
package main

import (
	"encoding/json"
	"flag"
	"fmt"
	"math/big"
	"net"
	"os"
	"sort"
	"strings"

	log "github.com/sirupsen/logrus"
	kapiv1 "k8s.io/api/core/v1"
	networkingv1 "k8s.io/api/networking/v1"
	metav1 "k8s.io/apimachinery/pkg/apis/meta/v1"
	k8slabels "k8s.io/apimachinery/pkg/labels"
	"k8s.io/apimachinery/pkg/util/intstr"

	apiv3 "github.com/projectcalico/api/pkg/apis/projectcalico/v3"
	"github.com/projectcalico/api/pkg/lib/numorstring"

	"github.com/projectcalico/calico/libcalico-go/lib/backend/k8s/conversion"
	"github.com/projectcalico/calico/libcalico-go/lib/backend/model"
	"github.com/projectcalico/calico/libcalico-go/lib/backend/syncersv1/updateprocessors"
	cnet "github.com/projectcalico/calico/libcalico-go/lib/net"
	"github.com/projectcalico/calico/libcalico-go/lib/selector/parser"
)

type rng struct{ s uint64 }

func (r *rng) next() uint64 {
	r.s += 0x9e3779b97f4a7c15
	z := r.s
	z = (z ^ (z >> 30)) * 0xbf58476d1ce4e5b9
	z = (z ^ (z >> 27)) * 0x94d049bb133111eb
	return z ^ (z >> 31)
}
func (r *rng) intn(n int) int      { return int(r.next() % uint64(n)) }
func (r *rng) chance(p int) bool   { return r.intn(100) < p }
func pick[T any](r *rng, xs []T) T { return xs[r.intn(len(xs))] }

type line struct {
	Coq    string         `json:"coq"`
	NT     bool           `json:"nt"`
	Key    string         `json:"key"`
	Sample map[string]any `json:"sample,omitempty"`
	Tags   []string       `json:"tags"`
	World  *worldJSON     `json:"world,omitempty"` // the inputs, so that a replay needs no seed
}

type connJSON struct {
	Src, Dst     int
	SrcIP, DstIP string
	Proto, Port  int
}
type worldJSON struct {
	SAs       []*kapiv1.ServiceAccount
	NSs       []*kapiv1.Namespace
	Pods      []*kapiv1.Pod
	PodIPs    []string
	NPs       []*networkingv1.NetworkPolicy
	Conns     []connJSON
	NoiseSeed uint64
}

func (w *world) toJSON() *worldJSON {
	j := &worldJSON{SAs: w.sas, NSs: w.nss, NPs: w.nps, NoiseSeed: w.noiseSeed}
	for _, p := range w.pods {
		j.Pods = append(j.Pods, p.pod)
		j.PodIPs = append(j.PodIPs, p.ip.String())
	}
	ips := func(ip net.IP) string {
		if ip == nil {
			return ""
		}
		return ip.String()
	}
	for _, c := range w.conns {
		j.Conns = append(j.Conns, connJSON{c.src, c.dst, ips(c.srcIP), ips(c.dstIP), c.proto, c.port})
	}
	return j
}

func (j *worldJSON) toWorld() *world {
	w := &world{sas: j.SAs, nss: j.NSs, nps: j.NPs, noiseSeed: j.NoiseSeed}
	for i, p := range j.Pods {
		w.pods = append(w.pods, podInfo{p, net.ParseIP(j.PodIPs[i])})
	}
	for _, c := range j.Conns {
		w.conns = append(w.conns, connSpec{src: c.Src, dst: c.Dst, srcIP: net.ParseIP(c.SrcIP), dstIP: net.ParseIP(c.DstIP), proto: c.Proto, port: c.Port})
	}
	return w
}

// ---------------------------------------------------------------- Coq printing

// frequent long strings are printed as the constants of Model.v (shorter terms elaborate much faster in Coq)
var cbConst = map[string]string{"projectcalico.org/orchestrator": "L_ORCH", "projectcalico.org/namespace": "L_NAMESPACE",
	"projectcalico.org/serviceaccount": "L_SA", "projectcalico.org/name": "L_NAME", "k8s": "V_K8S",
	"kubernetes.io/metadata.name": "K_KMN", "app.kubernetes.io/name": "K_AKN", "default": "T_DEFAULT",
	"tcp": "S_TCP", "udp": "S_UDP", "sctp": "S_SCTP"}

func cb(s string) string {
	if c, ok := cbConst[s]; ok {
		return c
	}
	for _, pfx := range [][2]string{{"pcns.", "PCNS"}, {"pcsa.", "PCSA"}, {"kns.", "KNS"}} {
		if strings.HasPrefix(s, pfx[0]) {
			if c, ok := cbConst[s[len(pfx[0]):]]; ok {
				return "(" + pfx[1] + " ++ " + c + ")"
			}
		}
	}
	return `(b "` + strings.ReplaceAll(s, `"`, `""`) + `")`
}
func clist(xs []string) string {
	return "[" + strings.Join(xs, "; ") + "]"
}
func clabels(m map[string]string, order []string) string {
	var xs []string
	for _, k := range order {
		xs = append(xs, fmt.Sprintf("(%s, %s)", cb(k), cb(m[k])))
	}
	return clist(xs)
}
func sortedKeys(m map[string]string) []string {
	ks := make([]string, 0, len(m))
	for k := range m {
		ks = append(ks, k)
	}
	sort.Strings(ks)
	return ks
}
func cbytesList(xs []string) string {
	ys := make([]string, len(xs))
	for i, x := range xs {
		ys[i] = cb(x)
	}
	return clist(ys)
}

func cipnet(n *net.IPNet) string {
	ones, bits := n.Mask.Size()
	if v4 := n.IP.To4(); v4 != nil {
		if bits == 128 {
			ones -= 96
		}
		return fmt.Sprintf("(Build_cidr V4 %s%%N %d%%N)", new(big.Int).SetBytes(v4).String(), ones)
	}
	return fmt.Sprintf("(Build_cidr V6 %s%%N %d%%N)", new(big.Int).SetBytes(n.IP.To16()).String(), ones)
}

// the CIDR exactly as written in the Kubernetes object (host bits kept)
func cK8sCIDR(s string) string {
	ip, n, err := net.ParseCIDR(s)
	if err != nil {
		panic(err)
	}
	ones, _ := n.Mask.Size()
	if v4 := ip.To4(); v4 != nil {
		return fmt.Sprintf("(Build_cidr V4 %s%%N %d%%N)", new(big.Int).SetBytes(v4).String(), ones)
	}
	return fmt.Sprintf("(Build_cidr V6 %s%%N %d%%N)", new(big.Int).SetBytes(ip.To16()).String(), ones)
}

func cnode(n parser.Node) string {
	switch v := n.(type) {
	case *parser.LabelEqValueNode:
		return fmt.Sprintf("(SEq %s %s)", cb(v.LabelName.Value()), cb(v.Value.Value()))
	case *parser.LabelNeValueNode:
		return fmt.Sprintf("(SNe %s %s)", cb(v.LabelName.Value()), cb(v.Value.Value()))
	case *parser.LabelContainsValueNode:
		return fmt.Sprintf("(SContains %s %s)", cb(v.LabelName.Value()), cb(v.Value.Value()))
	case *parser.LabelStartsWithValueNode:
		return fmt.Sprintf("(SStartsWith %s %s)", cb(v.LabelName.Value()), cb(v.Value.Value()))
	case *parser.LabelEndsWithValueNode:
		return fmt.Sprintf("(SEndsWith %s %s)", cb(v.LabelName.Value()), cb(v.Value.Value()))
	case *parser.LabelInSetNode:
		return fmt.Sprintf("(SIn %s %s)", cb(v.LabelName.Value()), cbytesList(v.Value.StringSlice()))
	case *parser.LabelNotInSetNode:
		return fmt.Sprintf("(SNotIn %s %s)", cb(v.LabelName.Value()), cbytesList(v.Value.StringSlice()))
	case *parser.HasNode:
		return fmt.Sprintf("(SHas %s)", cb(v.LabelName.Value()))
	case *parser.AllNode:
		return "SAll"
	case *parser.GlobalNode:
		return "SGlobal"
	case *parser.NotNode:
		return fmt.Sprintf("(SNot %s)", cnode(v.Operand))
	case *parser.AndNode:
		xs := make([]string, len(v.Operands))
		for i, o := range v.Operands {
			xs[i] = cnode(o)
		}
		return fmt.Sprintf("(SAnd %s)", clist(xs))
	case *parser.OrNode:
		xs := make([]string, len(v.Operands))
		for i, o := range v.Operands {
			xs[i] = cnode(o)
		}
		return fmt.Sprintf("(SOr %s)", clist(xs))
	}
	panic(fmt.Sprintf("unknown selector node %T", n))
}

// selector string -> option ast ("" = None); ok=false when the real parser rejects it
func csel(s string) (string, bool) {
	if s == "" {
		return "None", true
	}
	sel, err := parser.Parse(s)
	if err != nil {
		return "None", false
	}
	return "(Some " + cnode(sel.Root()) + ")", true
}

func cproto(p *numorstring.Protocol) string {
	if p == nil {
		return "None"
	}
	if p.Type == numorstring.NumOrStringNum {
		return fmt.Sprintf("(Some (CPNum %d%%N))", p.NumVal)
	}
	return fmt.Sprintf("(Some (CPName %s))", cb(p.StrVal))
}

func cports(ps []numorstring.Port) string {
	xs := make([]string, len(ps))
	for i, p := range ps {
		if p.PortName != "" {
			xs[i] = fmt.Sprintf("(CNamed %s)", cb(p.PortName))
		} else {
			xs[i] = fmt.Sprintf("(CRange %d%%N %d%%N)", p.MinPort, p.MaxPort)
		}
	}
	return clist(xs)
}

func cnets(ns []*cnet.IPNet) string {
	xs := make([]string, len(ns))
	for i, n := range ns {
		xs[i] = cipnet(&n.IPNet)
	}
	return clist(xs)
}

func caction(a string) string {
	switch a {
	case "allow":
		return "CAllow"
	case "deny":
		return "CDeny"
	case "next-tier", "pass":
		return "CPass"
	case "log":
		return "CLog"
	}
	return "COther"
}

// model.Rule -> crule; clean=false if a field outside the fragment is set
func crule(r *model.Rule) (string, bool) {
	clean := r.IPVersion == nil && r.NotProtocol == nil && r.ICMPType == nil && r.ICMPCode == nil &&
		r.NotICMPType == nil && r.NotICMPCode == nil && r.SrcTag == "" && r.SrcNet == nil && len(r.SrcPorts) == 0 &&
		r.SrcService == "" && r.SrcServiceNamespace == "" && r.DstTag == "" && r.DstNet == nil && r.DstService == "" &&
		r.DstServiceNamespace == "" && r.NotSrcTag == "" && r.NotSrcNet == nil && r.NotSrcSelector == "" &&
		len(r.NotSrcPorts) == 0 && r.NotDstTag == "" && r.NotDstSelector == "" && r.NotDstNet == nil &&
		len(r.NotDstPorts) == 0 && r.HTTPMatch == nil
	ss, ok1 := csel(r.SrcSelector)
	ds, ok2 := csel(r.DstSelector)
	clean = clean && ok1 && ok2
	return fmt.Sprintf("(Build_crule %s %s %s %s %s %s %s %s %s)",
		caction(r.Action), cproto(r.Protocol), ss, cnets(r.SrcNets), cnets(r.NotSrcNets), ds, cnets(r.DstNets),
		cnets(r.NotDstNets), cports(r.DstPorts)), clean
}

func cpolicy(p *model.Policy) (string, bool) {
	clean := !p.DoNotTrack && !p.PreDNAT && !p.ApplyOnForward && p.StagedAction == nil && len(p.PerformanceHints) == 0
	var in, out, types []string
	for i := range p.InboundRules {
		s, c := crule(&p.InboundRules[i])
		in = append(in, s)
		clean = clean && c
	}
	for i := range p.OutboundRules {
		s, c := crule(&p.OutboundRules[i])
		out = append(out, s)
		clean = clean && c
	}
	for _, t := range p.Types {
		switch t {
		case "ingress":
			types = append(types, "TIngress")
		case "egress":
			types = append(types, "TEgress")
		default:
			clean = false
		}
	}
	order := "None"
	if p.Order != nil {
		order = fmt.Sprintf("(Some %d%%N)", int64(*p.Order*1000))
	}
	sel, ok := csel(p.Selector)
	clean = clean && ok
	return fmt.Sprintf("(Build_cpolicy %s %s %s %s %s %s %s)",
		cb(p.Namespace), cb(p.Tier), order, sel, clist(in), clist(out), clist(types)), clean
}

// ---------------------------------------------------------------- Kubernetes object -> Coq

func cLabelSelector(s *metav1.LabelSelector, r *rng) string {
	if s == nil {
		return "None"
	}
	return "(Some " + cLabelSelectorV(s, r) + ")"
}
func cLabelSelectorV(s *metav1.LabelSelector, r *rng) string {
	// matchLabels is a map: print it in a random order (the model sorts, as the code does)
	ks := sortedKeys(s.MatchLabels)
	for i := len(ks) - 1; i > 0; i-- {
		j := r.intn(i + 1)
		ks[i], ks[j] = ks[j], ks[i]
	}
	var es []string
	for _, e := range s.MatchExpressions {
		op := map[metav1.LabelSelectorOperator]string{metav1.LabelSelectorOpIn: "OpIn", metav1.LabelSelectorOpNotIn: "OpNotIn",
			metav1.LabelSelectorOpExists: "OpExists", metav1.LabelSelectorOpDoesNotExist: "OpDoesNotExist"}[e.Operator]
		es = append(es, fmt.Sprintf("(Build_req %s %s %s)", cb(e.Key), op, cbytesList(e.Values)))
	}
	return fmt.Sprintf("(Build_lsel %s %s)", clabels(s.MatchLabels, ks), clist(es))
}

func cPeer(p *networkingv1.NetworkPolicyPeer, r *rng) string {
	ib := "None"
	if p.IPBlock != nil {
		var ex []string
		for _, e := range p.IPBlock.Except {
			ex = append(ex, cK8sCIDR(e))
		}
		ib = fmt.Sprintf("(Some (Build_ipblock %s %s))", cK8sCIDR(p.IPBlock.CIDR), clist(ex))
	}
	return fmt.Sprintf("(Build_peer %s %s %s)", cLabelSelector(p.PodSelector, r), cLabelSelector(p.NamespaceSelector, r), ib)
}

func cKProto(p kapiv1.Protocol) string {
	switch p {
	case kapiv1.ProtocolTCP:
		return "KTCP"
	case kapiv1.ProtocolUDP:
		return "KUDP"
	case kapiv1.ProtocolSCTP:
		return "KSCTP"
	}
	panic("protocol " + string(p))
}

func cPort(p *networkingv1.NetworkPolicyPort) string {
	proto := "None"
	if p.Protocol != nil {
		proto = "(Some " + cKProto(*p.Protocol) + ")"
	}
	port := "KNoPort"
	if p.Port != nil {
		if p.Port.Type == intstr.Int {
			port = fmt.Sprintf("(KNum %d%%N)", p.Port.IntVal)
		} else {
			port = fmt.Sprintf("(KName %s)", cb(p.Port.StrVal))
		}
	}
	end := "None"
	if p.EndPort != nil {
		end = fmt.Sprintf("(Some %d%%N)", *p.EndPort)
	}
	return fmt.Sprintf("(Build_npport %s %s %s)", proto, port, end)
}

func cRule(peers []networkingv1.NetworkPolicyPeer, ports []networkingv1.NetworkPolicyPort, r *rng) string {
	var ps, qs []string
	for i := range peers {
		ps = append(ps, cPeer(&peers[i], r))
	}
	for i := range ports {
		qs = append(qs, cPort(&ports[i]))
	}
	return fmt.Sprintf("(Build_nprule %s %s)", clist(ps), clist(qs))
}

func cNP(np *networkingv1.NetworkPolicy, r *rng) string {
	var in, out, ts []string
	for _, x := range np.Spec.Ingress {
		in = append(in, cRule(x.From, x.Ports, r))
	}
	for _, x := range np.Spec.Egress {
		out = append(out, cRule(x.To, x.Ports, r))
	}
	for _, t := range np.Spec.PolicyTypes {
		if t == networkingv1.PolicyTypeIngress {
			ts = append(ts, "TIngress")
		} else {
			ts = append(ts, "TEgress")
		}
	}
	return fmt.Sprintf("(Build_netpol %s %s %s %s %s)",
		cb(np.Namespace), cLabelSelectorV(&np.Spec.PodSelector, r), clist(in), clist(out), clist(ts))
}

// ---------------------------------------------------------------- generators

var podKeys = []string{"app", "tier", "role", "env", "app.kubernetes.io/name"}
var podVals = map[string][]string{"app": {"web", "db", "api"}, "tier": {"fe", "be"}, "role": {"x", "y", ""}, "env": {"prod", "dev"},
	"app.kubernetes.io/name": {"web", "db"}}
var nsKeys = []string{"team", "env", "kubernetes.io/metadata.name", "in"}
var nsVals = map[string][]string{"team": {"a", "b"}, "env": {"prod", "dev"}, "kubernetes.io/metadata.name": {"default", "prod", "dev"}, "in": {"has", "all"}}
var nsNames = []string{"default", "prod", "dev"}

func genLabels(r *rng, keys []string, vals map[string][]string, p int) map[string]string {
	m := map[string]string{}
	for _, k := range keys {
		if r.chance(p) {
			m[k] = pick(r, vals[k])
		}
	}
	return m
}

func genSelector(r *rng, keys []string, vals map[string][]string) *metav1.LabelSelector {
	s := &metav1.LabelSelector{}
	switch r.intn(10) {
	case 0, 1:
		return s // empty selector: everything
	case 2, 3, 4:
		s.MatchLabels = genLabels(r, keys, vals, 30)
		if len(s.MatchLabels) == 0 {
			k := pick(r, keys)
			s.MatchLabels = map[string]string{k: pick(r, vals[k])}
		}
		return s
	case 5, 6:
		s.MatchLabels = genLabels(r, keys, vals, 25)
	}
	n := 1 + r.intn(2)
	for i := 0; i < n; i++ {
		k := pick(r, keys)
		e := metav1.LabelSelectorRequirement{Key: k}
		switch r.intn(4) {
		case 0:
			e.Operator = metav1.LabelSelectorOpIn
		case 1:
			e.Operator = metav1.LabelSelectorOpNotIn
		case 2:
			e.Operator = metav1.LabelSelectorOpExists
		default:
			e.Operator = metav1.LabelSelectorOpDoesNotExist
		}
		if e.Operator == metav1.LabelSelectorOpIn || e.Operator == metav1.LabelSelectorOpNotIn {
			m := 1 + r.intn(3)
			for j := 0; j < m; j++ {
				e.Values = append(e.Values, pick(r, vals[k])) // duplicates and unsorted on purpose
			}
			if r.chance(20) {
				e.Values = append(e.Values, "zzz")
			}
		}
		s.MatchExpressions = append(s.MatchExpressions, e)
	}
	return s
}

var cidrs = []string{"10.0.0.0/8", "10.0.1.0/24", "10.0.1.7/24", "0.0.0.0/0", "192.168.0.0/16", "10.0.2.3/32", "fd00::/8", "fd00::1:0/112", "::/0"}
var excepts = map[string][]string{
	"10.0.0.0/8": {"10.0.1.0/24", "10.0.2.0/24", "10.0.1.5/32", "10.128.0.0/9"}, "10.0.1.0/24": {"10.0.1.0/28", "10.0.1.5/32"},
	"10.0.1.7/24": {"10.0.1.4/30"}, "0.0.0.0/0": {"10.0.0.0/8", "192.168.1.1/32", "10.0.1.0/24"}, "192.168.0.0/16": {"192.168.1.0/24"},
	"10.0.2.3/32": {}, "fd00::/8": {"fd00::1:0/112", "fd00::5/128"}, "fd00::1:0/112": {"fd00::1:5/128"}, "::/0": {"fd00::/8"}}

func genPeer(r *rng, tags map[string]bool) networkingv1.NetworkPolicyPeer {
	switch r.intn(10) {
	case 0, 1, 2:
		tags["peer:pod"] = true
		return networkingv1.NetworkPolicyPeer{PodSelector: genSelector(r, podKeys, podVals)}
	case 3, 4:
		tags["peer:ns"] = true
		return networkingv1.NetworkPolicyPeer{NamespaceSelector: genSelector(r, nsKeys, nsVals)}
	case 5, 6:
		tags["peer:ns+pod"] = true
		return networkingv1.NetworkPolicyPeer{NamespaceSelector: genSelector(r, nsKeys, nsVals), PodSelector: genSelector(r, podKeys, podVals)}
	default:
		c := pick(r, cidrs)
		ib := &networkingv1.IPBlock{CIDR: c}
		if ex := excepts[c]; len(ex) > 0 && r.chance(60) {
			n := 1 + r.intn(2)
			for i := 0; i < n; i++ {
				ib.Except = append(ib.Except, pick(r, ex))
			}
			tags["peer:ipblock-except"] = true
		} else {
			tags["peer:ipblock"] = true
		}
		return networkingv1.NetworkPolicyPeer{IPBlock: ib}
	}
}

var portNums = []int{53, 80, 81, 82, 83, 443, 8080, 9090, 3000, 1, 65535}
var portNames = []string{"http", "dns", "metrics", "sctp-p", "nosuch"}
var protos = []kapiv1.Protocol{kapiv1.ProtocolTCP, kapiv1.ProtocolUDP, kapiv1.ProtocolSCTP}

// near: when >0, numeric ports are mostly taken close to it (adjacent and almost-adjacent numbers exercise the
// merging of SimplifyPorts and its gaps)
func genPort(r *rng, tags map[string]bool, near int) networkingv1.NetworkPolicyPort {
	p := networkingv1.NetworkPolicyPort{}
	if r.chance(60) {
		q := pick(r, []kapiv1.Protocol{kapiv1.ProtocolTCP, kapiv1.ProtocolTCP, kapiv1.ProtocolUDP, kapiv1.ProtocolSCTP})
		p.Protocol = &q
	} else {
		tags["port:default-proto"] = true
	}
	switch r.intn(10) {
	case 0:
		tags["port:none"] = true
	case 1, 2, 3, 4:
		n := pick(r, portNums)
		if near > 0 && r.chance(70) {
			n = near + pick(r, []int{0, 1, 2, 2, 3, 4, 6})
		}
		if n > 65535 {
			n = 65535
		}
		v := intstr.FromInt(n)
		p.Port = &v
		tags["port:num"] = true
	case 5, 6:
		v := intstr.FromString(pick(r, portNames))
		p.Port = &v
		tags["port:named"] = true
	default:
		lo := pick(r, portNums)
		if near > 0 && r.chance(60) {
			lo = near + pick(r, []int{0, 2, 3, 5, 8})
		}
		if lo > 65535 {
			lo = 65535
		}
		v := intstr.FromInt(lo)
		p.Port = &v
		hi := lo + r.intn(6)
		if r.chance(5) {
			hi = 65535
			tags["port:huge-range"] = true
		}
		if hi > 65535 {
			hi = 65535
		}
		e := int32(hi)
		p.EndPort = &e
		tags["port:range"] = true
	}
	return p
}

func genNP(r *rng, idx int, tags map[string]bool) *networkingv1.NetworkPolicy {
	np := &networkingv1.NetworkPolicy{}
	np.Name = fmt.Sprintf("np%d", idx)
	np.Namespace = pick(r, nsNames)
	np.UID = "30316465-6365-4463-ad63-3564622d3638"
	np.Spec.PodSelector = *genSelector(r, podKeys, podVals)
	if r.chance(40) {
		np.Spec.PodSelector = metav1.LabelSelector{}
	}
	genRules := func() ([][]networkingv1.NetworkPolicyPeer, [][]networkingv1.NetworkPolicyPort) {
		n := r.intn(3)
		var pe [][]networkingv1.NetworkPolicyPeer
		var po [][]networkingv1.NetworkPolicyPort
		for i := 0; i < n; i++ {
			var peers []networkingv1.NetworkPolicyPeer
			var ports []networkingv1.NetworkPolicyPort
			np := r.intn(4)
			for j := 0; j < np; j++ {
				peers = append(peers, genPeer(r, tags))
			}
			nq := r.intn(5)
			near := 0
			if r.chance(60) {
				near = pick(r, portNums)
			}
			for j := 0; j < nq; j++ {
				ports = append(ports, genPort(r, tags, near))
			}
			pe = append(pe, peers)
			po = append(po, ports)
		}
		return pe, po
	}
	pe, po := genRules()
	for i := range pe {
		np.Spec.Ingress = append(np.Spec.Ingress, networkingv1.NetworkPolicyIngressRule{From: pe[i], Ports: po[i]})
	}
	pe, po = genRules()
	for i := range pe {
		np.Spec.Egress = append(np.Spec.Egress, networkingv1.NetworkPolicyEgressRule{To: pe[i], Ports: po[i]})
	}
	switch r.intn(10) {
	case 0, 1, 2:
		np.Spec.PolicyTypes = []networkingv1.PolicyType{networkingv1.PolicyTypeIngress}
		tags["types:I"] = true
	case 3, 4:
		np.Spec.PolicyTypes = []networkingv1.PolicyType{networkingv1.PolicyTypeEgress}
		tags["types:E"] = true
	case 5, 6, 7:
		np.Spec.PolicyTypes = []networkingv1.PolicyType{networkingv1.PolicyTypeIngress, networkingv1.PolicyTypeEgress}
		if r.chance(30) {
			np.Spec.PolicyTypes = []networkingv1.PolicyType{networkingv1.PolicyTypeEgress, networkingv1.PolicyTypeIngress}
		}
		tags["types:IE"] = true
	default:
		// policyTypes absent (an object that never went through API-server defaulting); the API server would
		// have filled in [Ingress] (+Egress if there are egress rules)
		if len(np.Spec.Egress) > 0 {
			if *absentEgress && r.chance(25) {
				tags["types:absent-with-egress"] = true
			} else {
				np.Spec.PolicyTypes = []networkingv1.PolicyType{networkingv1.PolicyTypeIngress, networkingv1.PolicyTypeEgress}
				tags["types:IE"] = true
			}
		} else {
			tags["types:absent"] = true
		}
	}
	return np
}

// malform turns the policy into an object the Kubernetes API would reject (the oracle is not consulted for
// those, Spec.k8s_np_valid; the model must still agree with what the code does with them)
func malform(r *rng, np *networkingv1.NetworkPolicy) {
	if len(np.Spec.Ingress) == 0 {
		np.Spec.Ingress = append(np.Spec.Ingress, networkingv1.NetworkPolicyIngressRule{})
	}
	rule := &np.Spec.Ingress[r.intn(len(np.Spec.Ingress))]
	tcp := kapiv1.ProtocolTCP
	i32 := func(v int32) *int32 { return &v }
	ios := func(v intstr.IntOrString) *intstr.IntOrString { return &v }
	switch r.intn(9) {
	case 0:
		rule.Ports = append(rule.Ports, networkingv1.NetworkPolicyPort{Protocol: &tcp, Port: ios(intstr.FromString("http")), EndPort: i32(90)})
	case 1:
		rule.Ports = append(rule.Ports, networkingv1.NetworkPolicyPort{Port: ios(intstr.FromInt(90)), EndPort: i32(80)})
	case 2:
		rule.Ports = append(rule.Ports, networkingv1.NetworkPolicyPort{Port: ios(intstr.FromInt(70000))})
	case 3:
		rule.Ports = append(rule.Ports, networkingv1.NetworkPolicyPort{Port: ios(intstr.FromInt(0))})
	case 4:
		rule.Ports = append(rule.Ports, networkingv1.NetworkPolicyPort{Protocol: &tcp, EndPort: i32(90)})
	case 5:
		np.Spec.PodSelector.MatchExpressions = append(np.Spec.PodSelector.MatchExpressions,
			metav1.LabelSelectorRequirement{Key: "role", Operator: pick(r, []metav1.LabelSelectorOperator{metav1.LabelSelectorOpIn, metav1.LabelSelectorOpNotIn})})
	case 6:
		np.Spec.PodSelector.MatchExpressions = append(np.Spec.PodSelector.MatchExpressions,
			metav1.LabelSelectorRequirement{Key: "role", Operator: pick(r, []metav1.LabelSelectorOperator{metav1.LabelSelectorOpExists, metav1.LabelSelectorOpDoesNotExist}), Values: []string{"x"}})
	case 7:
		rule.From = append(rule.From, networkingv1.NetworkPolicyPeer{})
	default:
		rule.From = append(rule.From, networkingv1.NetworkPolicyPeer{IPBlock: &networkingv1.IPBlock{CIDR: "10.0.1.0/24"},
			PodSelector: &metav1.LabelSelector{MatchLabels: map[string]string{"app": "web"}}})
	}
}

var replayFile = flag.String("replay", "", "replay file (written by the check) whose inputs are to be re-run")
var history = flag.Bool("history", true, "process foreign Calico policies before/between the Kubernetes policies and convert those twice")
var malformed = flag.Bool("malformed", true, "also generate objects the Kubernetes API validation would reject")
var absentEgress = flag.Bool("absent-egress", true, "also generate policies without policyTypes that have egress rules")
var reserved = flag.Bool("reserved", true, "also generate cases using Calico-reserved label keys as ordinary labels")
var witnesses = flag.Bool("witnesses", true, "emit the scripted witnesses of the Coq refutations first")

type podInfo struct {
	pod *kapiv1.Pod
	ip  net.IP
}

var namedPorts = []kapiv1.ContainerPort{
	{Name: "http", Protocol: kapiv1.ProtocolTCP, ContainerPort: 80}, {Name: "http", Protocol: kapiv1.ProtocolTCP, ContainerPort: 8080},
	{Name: "dns", Protocol: kapiv1.ProtocolUDP, ContainerPort: 53}, {Name: "dns", Protocol: kapiv1.ProtocolTCP, ContainerPort: 53},
	{Name: "metrics", Protocol: "", ContainerPort: 9090}, {Name: "sctp-p", Protocol: kapiv1.ProtocolSCTP, ContainerPort: 3000},
	{Name: "http", Protocol: kapiv1.ProtocolUDP, ContainerPort: 81},
}

func genPod(r *rng, idx int) podInfo {
	p := &kapiv1.Pod{}
	p.Name = fmt.Sprintf("pod%d", idx)
	p.Namespace = pick(r, nsNames)
	p.Labels = genLabels(r, podKeys, podVals, 50)
	p.Spec.NodeName = "node1"
	if r.chance(30) {
		p.Spec.ServiceAccountName = pick(r, []string{"sa1", "builder"})
	}
	c := kapiv1.Container{Name: "c"}
	n := r.intn(4)
	for i := 0; i < n; i++ {
		c.Ports = append(c.Ports, pick(r, namedPorts))
	}
	p.Spec.Containers = []kapiv1.Container{c}
	var ip net.IP
	if r.chance(15) {
		ip = net.ParseIP(fmt.Sprintf("fd00::1:%x", 1+idx))
	} else {
		ip = net.ParseIP(pick(r, []string{"10.0.1.", "10.0.2.", "10.200.0."}) + fmt.Sprint(1+idx+r.intn(3)*16))
	}
	p.Status.PodIP = ip.String()
	p.Status.PodIPs = []kapiv1.PodIP{{IP: ip.String()}}
	return podInfo{p, ip}
}

var extIPs = []string{"10.0.1.5", "10.0.1.200", "10.9.9.9", "192.168.1.1", "192.168.7.7", "8.8.8.8", "fd00::5", "fd00::1:5", "2001:db8::1"}

func cIP(ip net.IP) (string, string) {
	if v4 := ip.To4(); v4 != nil {
		return "V4", new(big.Int).SetBytes(v4).String() + "%N"
	}
	return "V6", new(big.Int).SetBytes(ip.To16()).String() + "%N"
}

// ---------------------------------------------------------------- main

type connSpec struct {
	src, dst     int // pod index, or -1 for an external address
	srcIP, dstIP net.IP
	proto, port  int
}

type world struct {
	noiseSeed uint64 // seed of the foreign (Calico) policies processed before / between the Kubernetes ones
	sas       []*kapiv1.ServiceAccount
	nss       []*kapiv1.Namespace
	pods      []podInfo
	nps       []*networkingv1.NetworkPolicy
	conns     []connSpec
}

func mkNS(name string, labels map[string]string) *kapiv1.Namespace {
	ns := &kapiv1.Namespace{}
	ns.Name = name
	ns.UID = "30316465-6365-4463-ad63-3564622d3638"
	ns.Labels = labels
	return ns
}

func main() {
	n := flag.Int("n", 100, "cases")
	seed := flag.Uint64("seed", 1, "seed")
	flag.Parse()
	log.SetLevel(log.PanicLevel)
	r := &rng{s: *seed}
	enc := json.NewEncoder(os.Stdout)
	conv := conversion.NewConverter()
	npProc := updateprocessors.NewNetworkPolicyUpdateProcessor(model.KindKubernetesNetworkPolicy)
	calicoNPProc := updateprocessors.NewNetworkPolicyUpdateProcessor(apiv3.KindNetworkPolicy)
	gnpProc := updateprocessors.NewGlobalNetworkPolicyUpdateProcessor(apiv3.KindGlobalNetworkPolicy)
	profProc := updateprocessors.NewProfileUpdateProcessor()
	wepProc := updateprocessors.NewWorkloadEndpointUpdateProcessor()

	port80 := intstr.FromInt(80)
	// probe: which variant of the policyTypes inference does this tree have?
	probe := &networkingv1.NetworkPolicy{}
	probe.Name, probe.Namespace = "probe", "default"
	probe.Spec.Egress = []networkingv1.NetworkPolicyEgressRule{{Ports: []networkingv1.NetworkPolicyPort{{Port: &port80}}}}
	infer := false
	if kvp, _ := conv.K8sNetworkPolicyToCalico(probe); kvp != nil {
		if out, err := npProc.Process(kvp); err == nil && len(out) == 1 {
			for _, t := range out[0].Value.(*model.Policy).Types {
				if t == "egress" {
					infer = true
				}
			}
		}
	}

	emit := func(w *world, tags map[string]bool) {
		clean := true
		profLabels := map[string]map[string]string{}
		var clusterC, profilesC []string
		for _, ns := range w.nss {
			clusterC = append(clusterC, fmt.Sprintf("(%s, %s)", cb(ns.Name), clabels(ns.Labels, sortedKeys(ns.Labels))))
			kvp, err := conv.NamespaceToProfile(ns)
			if err != nil {
				panic(err)
			}
			out, err := profProc.Process(kvp)
			if err != nil {
				panic(err)
			}
			for _, o := range out {
				if k, ok := o.Key.(model.ProfileLabelsKey); ok {
					m, _ := o.Value.(map[string]string)
					profLabels[k.Name] = m
					profilesC = append(profilesC, fmt.Sprintf("(%s, %s)", cb(k.Name), clabels(m, sortedKeys(m))))
				}
				if _, ok := o.Key.(model.ProfileRulesKey); ok {
					// the namespace profile must be allow-all in both directions (the Calico semantics in Spec.v rely on it)
					pr, _ := o.Value.(*model.ProfileRules)
					if pr == nil || len(pr.InboundRules) != 1 || len(pr.OutboundRules) != 1 || pr.InboundRules[0].Action != "allow" ||
						pr.OutboundRules[0].Action != "allow" || pr.InboundRules[0].SrcSelector != "" || pr.InboundRules[0].DstSelector != "" ||
						pr.OutboundRules[0].SrcSelector != "" || pr.OutboundRules[0].DstSelector != "" ||
						pr.InboundRules[0].Protocol != nil || pr.OutboundRules[0].Protocol != nil ||
						len(pr.InboundRules[0].SrcNets)+len(pr.InboundRules[0].DstNets)+len(pr.InboundRules[0].DstPorts) != 0 ||
						len(pr.OutboundRules[0].SrcNets)+len(pr.OutboundRules[0].DstNets)+len(pr.OutboundRules[0].DstPorts) != 0 {
						clean = false
					} else {
						if _, c := crule(&pr.InboundRules[0]); !c {
							clean = false
						}
						if _, c := crule(&pr.OutboundRules[0]); !c {
							clean = false
						}
					}
				}
			}
		}

		var sasC []string
		for _, sa := range w.sas {
			sasC = append(sasC, fmt.Sprintf("(%s, %s, %s)", cb(sa.Namespace), cb(sa.Name), clabels(sa.Labels, sortedKeys(sa.Labels))))
			kvp, err := conv.ServiceAccountToProfile(sa)
			if err != nil {
				panic(err)
			}
			out, err := profProc.Process(kvp)
			if err != nil {
				panic(err)
			}
			for _, o := range out {
				if k, ok := o.Key.(model.ProfileLabelsKey); ok {
					m, _ := o.Value.(map[string]string)
					profLabels[k.Name] = m
					profilesC = append(profilesC, fmt.Sprintf("(%s, %s)", cb(k.Name), clabels(m, sortedKeys(m))))
				}
			}
		}

		var podsC []string
		var effLabels []map[string]string // per pod: own labels over the profiles' labels (first profile wins)
		for _, pi := range w.pods {
			kvps, err := conv.PodToWorkloadEndpoints(pi.pod)
			if err != nil {
				panic(err)
			}
			out, err := wepProc.Process(kvps[0])
			if err != nil {
				panic(err)
			}
			wep := out[0].Value.(*model.WorkloadEndpoint)
			lm := wep.Labels.RecomputeOriginalMap()
			eff := map[string]string{}
			for pi := len(wep.ProfileIDs) - 1; pi >= 0; pi-- {
				for k, v := range profLabels[wep.ProfileIDs[pi]] {
					eff[k] = v
				}
			}
			for k, v := range lm {
				eff[k] = v
			}
			effLabels = append(effLabels, eff)
			var ports, implPorts []string
			for _, c := range pi.pod.Spec.Containers {
				for _, cp := range c.Ports {
					pr := cp.Protocol
					if pr == "" {
						pr = kapiv1.ProtocolTCP
					}
					ports = append(ports, fmt.Sprintf("(%s, %s, %d%%N)", cb(cp.Name), cKProto(pr), cp.ContainerPort))
				}
			}
			for _, ep := range wep.Ports {
				num := 0
				if ep.Protocol.Type == numorstring.NumOrStringNum {
					num = int(ep.Protocol.NumVal)
				} else if v, ok := map[string]int{"tcp": 6, "udp": 17, "sctp": 132}[strings.ToLower(ep.Protocol.StrVal)]; ok {
					num = v
				} else {
					clean = false
				}
				implPorts = append(implPorts, fmt.Sprintf("(%s, %d%%N, %d%%N)", cb(ep.Name), num, ep.Port))
			}
			ver, addr := cIP(pi.ip)
			podsC = append(podsC, fmt.Sprintf("(Build_ipod (Build_pod %s %s %s %s) %s %s %s %s %s)",
				cb(pi.pod.Namespace), cb(pi.pod.Spec.ServiceAccountName), clabels(pi.pod.Labels, sortedKeys(pi.pod.Labels)), clist(ports),
				ver, addr, clabels(lm, sortedKeys(lm)), cbytesList(wep.ProfileIDs), clist(implPorts)))
		}

		// ---- the conversion pipeline is exercised as a HISTORY in this one process:
		//   foreign objects A ; the Kubernetes policies in order ; foreign objects B ; the Kubernetes policies in
		//   reverse order.  The foreign objects are Calico NetworkPolicies / GlobalNetworkPolicies pushed through the
		//   same update processors (policy-level serviceAccountSelector, rule ServiceAccounts.Selector,
		//   namespaceSelector, selector) whose selector TEXTS are the very texts stage 1 produced for the Kubernetes
		//   policies of this case plus texts from the same label pool, so that identical texts occur under both the
		//   pcns. and the pcsa. prefix.  The property must hold for the output of every pass.
		var npsC []string
		nrules := 0
		var texts []string
		for _, np := range w.nps {
			nrules += len(np.Spec.Ingress) + len(np.Spec.Egress)
			npsC = append(npsC, cNP(np, r))
			if kvp, _ := conv.K8sNetworkPolicyToCalico(np); kvp != nil {
				if v3, ok := kvp.Value.(*apiv3.NetworkPolicy); ok {
					texts = append(texts, v3.Spec.Selector)
					for _, rs := range [][]apiv3.Rule{v3.Spec.Ingress, v3.Spec.Egress} {
						for _, ru := range rs {
							texts = append(texts, ru.Source.Selector, ru.Source.NamespaceSelector, ru.Destination.Selector, ru.Destination.NamespaceSelector)
						}
					}
				}
			}
		}
		pool := []string{"team == 'a'", "team == 'b'", "env == 'prod'", "env == 'dev'", "has(team)", "all()", "app == 'web'", "tier == 'fe'",
			"team in { 'a' }", "env in { 'dev', 'prod' }", "! has(env)", "kubernetes.io/metadata.name == 'prod'"}
		var cand []string
		for _, t := range texts {
			if t != "" {
				cand = append(cand, t)
			}
		}
		nr := &rng{s: w.noiseSeed}
		pickText := func() string {
			if len(cand) > 0 && nr.chance(70) {
				return pick(nr, cand)
			}
			return pick(nr, pool)
		}
		foreign := func(n int) {
			for i := 0; i < n; i++ {
				var kvp *model.KVPair
				var proc interface {
					Process(*model.KVPair) ([]*model.KVPair, error)
				}
				rules := []apiv3.Rule{{Action: apiv3.Allow,
					Source:      apiv3.EntityRule{ServiceAccounts: &apiv3.ServiceAccountMatch{Selector: pickText()}},
					Destination: apiv3.EntityRule{NamespaceSelector: pickText(), Selector: pickText()}}}
				if nr.chance(50) {
					p := apiv3.NewNetworkPolicy()
					p.Name, p.Namespace = fmt.Sprintf("default.foreign%d", i), pick(nr, nsNames)
					p.Spec.Tier = "default"
					p.Spec.Selector = pickText()
					p.Spec.ServiceAccountSelector = pickText()
					if nr.chance(60) {
						p.Spec.Ingress = rules
					} else {
						p.Spec.Egress = rules
					}
					kvp = &model.KVPair{Key: model.ResourceKey{Kind: apiv3.KindNetworkPolicy, Name: p.Name, Namespace: p.Namespace}, Value: p}
					proc = calicoNPProc
					tags["history:calico-np"] = true
				} else {
					p := apiv3.NewGlobalNetworkPolicy()
					p.Name = fmt.Sprintf("default.gforeign%d", i)
					p.Spec.Tier = "default"
					p.Spec.Selector = pickText()
					if nr.chance(60) {
						p.Spec.ServiceAccountSelector = pickText()
					}
					if nr.chance(60) {
						p.Spec.NamespaceSelector = pickText()
					}
					if nr.chance(50) {
						p.Spec.Ingress = rules
					}
					kvp = &model.KVPair{Key: model.ResourceKey{Kind: apiv3.KindGlobalNetworkPolicy, Name: p.Name}, Value: p}
					proc = gnpProc
					tags["history:calico-gnp"] = true
				}
				if _, err := proc.Process(kvp); err != nil {
					panic(err)
				}
			}
		}
		type passOut struct {
			implC, selStrings []string
			clean             bool
			texts             [][]string // per policy: Selector, then (Src, Dst) of every inbound / outbound rule
		}
		runPass := func(order []int) passOut {
			po := passOut{implC: make([]string, len(w.nps)), clean: true, texts: make([][]string, len(w.nps))}
			for _, idx := range order {
				np := w.nps[idx]
				kvp, _ := conv.K8sNetworkPolicyToCalico(np) // a conversion error only drops rules; the KVPair is still returned
				if kvp == nil {
					po.clean = false
					continue
				}
				out, err := npProc.Process(kvp)
				if err != nil || len(out) != 1 {
					po.clean = false
					continue
				}
				k, ok := out[0].Key.(model.PolicyKey)
				if !ok || k.Name != np.Name || k.Namespace != np.Namespace || k.Kind != model.KindKubernetesNetworkPolicy {
					po.clean = false
				}
				pol := out[0].Value.(*model.Policy)
				po.selStrings = append(po.selStrings, pol.Selector)
				po.texts[idx] = []string{pol.Selector}
				for _, rs := range [][]model.Rule{pol.InboundRules, pol.OutboundRules} {
					for _, ru := range rs {
						po.selStrings = append(po.selStrings, ru.SrcSelector, ru.DstSelector)
						po.texts[idx] = append(po.texts[idx], ru.SrcSelector, ru.DstSelector)
					}
				}
				s, c := cpolicy(pol)
				po.clean = po.clean && c
				po.implC[idx] = s
			}
			var compact []string
			for _, s := range po.implC {
				if s != "" {
					compact = append(compact, s)
				}
			}
			po.implC = compact
			return po
		}
		var fwd, rev []int
		for i := range w.nps {
			fwd = append(fwd, i)
			rev = append([]int{i}, rev...)
		}
		var passes []passOut
		if w.noiseSeed != 0 {
			foreign(1 + nr.intn(3))
			passes = append(passes, runPass(fwd))
			foreign(1 + nr.intn(3))
			passes = append(passes, runPass(rev))
			tags["history:2-passes"] = true
		} else {
			passes = append(passes, runPass(fwd))
		}
		// one case per DISTINCT output (normally exactly one: the conversion does not depend on the history)
		var distinct []passOut
		for _, po := range passes {
			dup := false
			for _, q := range distinct {
				if strings.Join(q.implC, "|") == strings.Join(po.implC, "|") && q.clean == po.clean && fmt.Sprint(q.texts) == fmt.Sprint(po.texts) {
					dup = true
				}
			}
			if !dup {
				distinct = append(distinct, po)
			}
		}
		if len(distinct) > 1 {
			tags["history:outputs-differ"] = true
		}

		var connsC []string
		end := func(idx int, ip net.IP) string {
			if idx >= 0 {
				return fmt.Sprintf("(EPod %d%%nat)", idx)
			}
			v, a := cIP(ip)
			return fmt.Sprintf("(EExt %s %s)", v, a)
		}
		for _, c := range w.conns {
			connsC = append(connsC, fmt.Sprintf("(%s, %s, %d%%N, %d%%N)", end(c.src, c.srcIP), end(c.dst, c.dstIP), c.proto, c.port))
		}

		for _, po := range distinct {
			implC, selStrings := po.implC, po.selStrings
			clean := clean && po.clean
			// the real selector evaluator on the real labels, for every distinct selector of the converted policies
			var evalsC []string
			seenSel := map[string]bool{}
			for _, ss := range selStrings {
				if ss == "" || seenSel[ss] {
					continue
				}
				seenSel[ss] = true
				sel, err := parser.Parse(ss)
				if err != nil {
					continue
				}
				var bs []string
				for _, eff := range effLabels {
					bs = append(bs, fmt.Sprint(sel.Evaluate(eff)))
				}
				evalsC = append(evalsC, fmt.Sprintf("(%s, %s)", cnode(sel.Root()), clist(bs)))
			}

			// selector strings: table of distinct strings + indices
			var table, idxC []string
			tindex := map[string]int{}
			for _, ts := range po.texts {
				if ts == nil {
					continue
				}
				var is []string
				for _, t := range ts {
					j, ok := tindex[t]
					if !ok {
						j = len(table)
						tindex[t] = j
						table = append(table, cb(t))
					}
					is = append(is, fmt.Sprintf("%d%%nat", j))
				}
				idxC = append(idxC, clist(is))
			}

			coq := fmt.Sprintf("(Build_case %s (Build_cluster %s %s) %s %s %s %v %v %s %s %s %s)",
				clist(npsC), clist(clusterC), clist(sasC), clist(profilesC), clist(podsC), clist(implC), clean, infer, clist(connsC), clist(evalsC),
				clist(table), clist(idxC))
			var tl []string
			for t := range tags {
				tl = append(tl, t)
			}
			sort.Strings(tl)
			_ = enc.Encode(line{Coq: coq, NT: nrules > 0, Key: strings.Join(npsC, "|") + "#" + strings.Join(podsC, "|") + "#" + strings.Join(clusterC, "|") + "#" + strings.Join(sasC, "|") + "#" + strings.Join(connsC, "|"),
				Sample: map[string]any{"policies": npsC, "converted": implC}, Tags: tl, World: w.toJSON()})
		}
	}

	if *replayFile != "" {
		// re-run the implementation on the inputs stored in a replay file (or a driver output line)
		raw, err := os.ReadFile(*replayFile)
		if err != nil {
			panic(err)
		}
		var rp struct {
			Case *line `json:"case"`
			line
		}
		if err := json.Unmarshal(raw, &rp); err != nil {
			panic(err)
		}
		l := &rp.line
		if rp.Case != nil {
			l = rp.Case
		}
		if l.World == nil {
			panic("replay file has no world")
		}
		tags := map[string]bool{}
		for _, t := range l.Tags {
			tags[t] = true
		}
		emit(l.World.toWorld(), tags)
		return
	}

	mkPod := func(name, ns string, labels map[string]string, ip string) podInfo {
		p := &kapiv1.Pod{}
		p.Name, p.Namespace, p.Labels = name, ns, labels
		p.Spec.NodeName = "node1"
		p.Spec.Containers = []kapiv1.Container{{Name: "c"}}
		p.Status.PodIP = ip
		p.Status.PodIPs = []kapiv1.PodIP{{IP: ip}}
		return podInfo{p, net.ParseIP(ip)}
	}

	// scripted witnesses of the Coq refutations (Proofs.v w1_*, w2_*), replayed on the real code
	if *witnesses {
		// w1: policyTypes absent + an egress rule (TCP 80); pod -> 8.8.8.8:443
		np1 := &networkingv1.NetworkPolicy{}
		np1.Name, np1.Namespace = "w1", "default"
		np1.Spec.Egress = []networkingv1.NetworkPolicyEgressRule{{Ports: []networkingv1.NetworkPolicyPort{{Port: &port80}}}}
		emit(&world{nss: []*kapiv1.Namespace{mkNS("default", map[string]string{})},
			pods:  []podInfo{mkPod("p0", "default", map[string]string{}, "10.0.1.1")},
			nps:   []*networkingv1.NetworkPolicy{np1},
			conns: []connSpec{{src: 0, dst: -1, dstIP: net.ParseIP("8.8.8.8"), proto: 6, port: 443}, {src: 0, dst: -1, dstIP: net.ParseIP("8.8.8.8"), proto: 6, port: 80}}},
			map[string]bool{"witness:w1": true, "types:absent-with-egress": true})
		// w2: pod label with the reserved prefix pcns., podSelector on it, ingress isolated; 8.8.8.8 -> pod:80
		np2 := &networkingv1.NetworkPolicy{}
		np2.Name, np2.Namespace = "w2", "default"
		np2.Spec.PodSelector = metav1.LabelSelector{MatchLabels: map[string]string{"pcns.tier": "db"}}
		np2.Spec.PolicyTypes = []networkingv1.PolicyType{networkingv1.PolicyTypeIngress}
		emit(&world{nss: []*kapiv1.Namespace{mkNS("default", map[string]string{})},
			pods:  []podInfo{mkPod("p0", "default", map[string]string{"pcns.tier": "db"}, "10.0.1.1")},
			nps:   []*networkingv1.NetworkPolicy{np2},
			conns: []connSpec{{src: -1, srcIP: net.ParseIP("8.8.8.8"), dst: 0, proto: 6, port: 80}}},
			map[string]bool{"witness:w2": true, "reserved-key": true})
	}

	for i := 0; i < *n; i++ {
		tags := map[string]bool{}
		w := &world{}
		if *history && r.chance(85) {
			w.noiseSeed = r.next() | 1
		}
		for _, nsn := range nsNames {
			ns := mkNS(nsn, genLabels(r, nsKeys, nsVals, 50))
			if r.chance(5) {
				ns.Labels["projectcalico.org/name"] = "spoof"
				tags["ns:name-label"] = true
			}
			w.nss = append(w.nss, ns)
		}
		npods := 3 + r.intn(3)
		for j := 0; j < npods; j++ {
			w.pods = append(w.pods, genPod(r, j))
		}
		// service accounts: those the pods use (mostly) with generated labels
		seen := map[string]bool{}
		for _, pi := range w.pods {
			san := pi.pod.Spec.ServiceAccountName
			if san == "" || seen[pi.pod.Namespace+"/"+san] || r.chance(20) {
				continue
			}
			seen[pi.pod.Namespace+"/"+san] = true
			sa := &kapiv1.ServiceAccount{}
			sa.Name, sa.Namespace = san, pi.pod.Namespace
			sa.UID = "30316465-6365-4463-ad63-3564622d3638"
			sa.Labels = genLabels(r, []string{"team", "app", "tier", "projectcalico.org/name"},
				map[string][]string{"team": {"a", "b"}, "app": {"web", "db"}, "tier": {"fe", "be"}, "projectcalico.org/name": {"spoof"}}, 35)
			w.sas = append(w.sas, sa)
			tags["sa-profile"] = true
		}
		nnp := 1 + r.intn(2)
		for j := 0; j < nnp; j++ {
			np := genNP(r, j, tags)
			if r.chance(80) {
				np.Namespace = w.pods[r.intn(len(w.pods))].pod.Namespace // a namespace that has pods
			}
			w.nps = append(w.nps, np)
		}
		if *malformed && r.chance(6) {
			malform(r, w.nps[r.intn(len(w.nps))])
			tags["malformed"] = true
		}
		if r.chance(8) {
			// a pod CARRYING labels in the reserved pcns./pcsa. space that no Kubernetes selector refers to: the
			// workload-endpoint processor must drop them, or the pod could pose as living in another namespace
			pod := w.pods[r.intn(len(w.pods))].pod
			for _, k := range []string{"team", "env", "in", "kubernetes.io/metadata.name"} {
				if r.chance(60) {
					pod.Labels["pcns."+k] = pick(r, nsVals[k])
				}
			}
			pod.Labels["pcsa.team"] = "a"
			tags["pod:pcns-labels"] = true
		}
		var resPod *kapiv1.Pod
		resKey := ""
		if *reserved && r.chance(3) {
			// a Calico-reserved key used as an ordinary Kubernetes label (dedicated cases, see known-findings.txt)
			resKey = pick(r, []string{"pcns.tier", "pcns.team", "pcsa.role", "projectcalico.org/namespace", "projectcalico.org/orchestrator"})
			resPod = w.pods[r.intn(len(w.pods))].pod
			resPod.Labels[resKey] = "a"
			w.nps[0].Namespace = resPod.Namespace
			w.nps[0].Spec.PodSelector = metav1.LabelSelector{MatchLabels: map[string]string{resKey: "a"}}
			tags["reserved-key"] = true
		}
		// pods in the namespace of some policy (the ones a policy can isolate)
		var governed []int
		for i, pi := range w.pods {
			for _, np := range w.nps {
				if np.Namespace == pi.pod.Namespace {
					governed = append(governed, i)
					break
				}
			}
		}
		genEnd := func() (int, net.IP) {
			if len(governed) > 0 && r.chance(45) {
				return pick(r, governed), nil
			}
			if r.chance(55) {
				return r.intn(len(w.pods)), nil
			}
			return -1, net.ParseIP(pick(r, extIPs))
		}
		// ports the policies mention, to aim connections at them and at their neighbours (merged ranges, gaps)
		var mentioned []int
		for _, np := range w.nps {
			var all []networkingv1.NetworkPolicyPort
			for _, x := range np.Spec.Ingress {
				all = append(all, x.Ports...)
			}
			for _, x := range np.Spec.Egress {
				all = append(all, x.Ports...)
			}
			for _, pp := range all {
				if pp.Port != nil && pp.Port.Type == intstr.Int {
					mentioned = append(mentioned, int(pp.Port.IntVal))
					if pp.EndPort != nil {
						mentioned = append(mentioned, int(*pp.EndPort))
					}
				}
			}
		}
		// "directed" connections: aimed at one rule of one policy (local pod selected by the policy, remote end
		// chosen to satisfy one peer, port taken from one port entry), so that allowed-by-a-rule verdicts are
		// frequent.  The Kubernetes label-selector library is used for AIMING only, never for the oracle.
		selMatches := func(sel *metav1.LabelSelector, lbls map[string]string) bool {
			if sel == nil {
				return true
			}
			x, err := metav1.LabelSelectorAsSelector(sel)
			return err == nil && x.Matches(k8slabels.Set(lbls))
		}
		nsLabels := map[string]map[string]string{}
		for _, ns := range w.nss {
			nsLabels[ns.Name] = ns.Labels
		}
		protoNum := map[kapiv1.Protocol]int{kapiv1.ProtocolTCP: 6, kapiv1.ProtocolUDP: 17, kapiv1.ProtocolSCTP: 132, "": 6}
		directed := func() (connSpec, bool) {
			np := w.nps[r.intn(len(w.nps))]
			ingress := r.chance(50)
			var peers []networkingv1.NetworkPolicyPeer
			var ports []networkingv1.NetworkPolicyPort
			if ingress {
				if len(np.Spec.Ingress) == 0 {
					return connSpec{}, false
				}
				x := np.Spec.Ingress[r.intn(len(np.Spec.Ingress))]
				peers, ports = x.From, x.Ports
			} else {
				if len(np.Spec.Egress) == 0 {
					return connSpec{}, false
				}
				x := np.Spec.Egress[r.intn(len(np.Spec.Egress))]
				peers, ports = x.To, x.Ports
			}
			var locals []int
			for i, pi := range w.pods {
				if pi.pod.Namespace == np.Namespace && selMatches(&np.Spec.PodSelector, pi.pod.Labels) {
					locals = append(locals, i)
				}
			}
			if len(locals) == 0 {
				return connSpec{}, false
			}
			local := pick(r, locals)
			remote, remoteIP := genEnd()
			if len(peers) > 0 {
				pe := peers[r.intn(len(peers))]
				if pe.IPBlock != nil {
					_, cidr, _ := net.ParseCIDR(pe.IPBlock.CIDR)
					var cands []net.IP
					for _, e := range extIPs {
						cands = append(cands, net.ParseIP(e))
					}
					inExcept := func(ip net.IP) bool {
						for _, ex := range pe.IPBlock.Except {
							if _, n, err := net.ParseCIDR(ex); err == nil && n.Contains(ip) {
								return true
							}
						}
						return false
					}
					for _, ip := range cands {
						if cidr != nil && cidr.Contains(ip) && (!inExcept(ip) || r.chance(25)) {
							remote, remoteIP = -1, ip
							break
						}
					}
					for i, pi := range w.pods {
						if cidr != nil && cidr.Contains(pi.ip) && !inExcept(pi.ip) && r.chance(30) {
							remote, remoteIP = i, nil
						}
					}
				} else {
					var cands []int
					for i, pi := range w.pods {
						nsOK := pi.pod.Namespace == np.Namespace
						if pe.NamespaceSelector != nil {
							nsOK = selMatches(pe.NamespaceSelector, nsLabels[pi.pod.Namespace])
						}
						if nsOK && selMatches(pe.PodSelector, pi.pod.Labels) {
							cands = append(cands, i)
						}
					}
					if len(cands) > 0 {
						remote, remoteIP = pick(r, cands), nil
					}
				}
			}
			c := connSpec{proto: pick(r, []int{6, 6, 17, 132}), port: pick(r, portNums)}
			if ingress {
				c.src, c.srcIP, c.dst = remote, remoteIP, local
			} else {
				c.src, c.dst, c.dstIP = local, remote, remoteIP
			}
			if len(ports) > 0 {
				pp := ports[r.intn(len(ports))]
				if pp.Protocol != nil {
					c.proto = protoNum[*pp.Protocol]
				} else {
					c.proto = 6
				}
				if pp.Port != nil && pp.Port.Type == intstr.Int {
					c.port = int(pp.Port.IntVal)
					if pp.EndPort != nil && int(*pp.EndPort) >= c.port {
						span := int(*pp.EndPort) - c.port + 1
						if span > 8 && r.chance(70) {
							span = 8
						}
						c.port += r.intn(span)
					}
				} else if pp.Port != nil && c.dst >= 0 {
					for _, cp := range w.pods[c.dst].pod.Spec.Containers[0].Ports {
						if cp.Name == pp.Port.StrVal && protoNum[cp.Protocol] == c.proto {
							c.port = int(cp.ContainerPort)
						}
					}
				}
			}
			return c, true
		}
		for j := 0; j < 6; j++ {
			if c, ok := directed(); ok {
				w.conns = append(w.conns, c)
				tags["conn:directed"] = true
			}
		}
		for j := 0; j < 12; j++ {
			proto := pick(r, []int{6, 6, 6, 17, 17, 132, 1})
			port := pick(r, portNums)
			if r.chance(30) {
				port = pick(r, portNums) + r.intn(4)
			}
			if len(mentioned) > 0 && r.chance(55) {
				port = pick(r, mentioned) + pick(r, []int{-1, 0, 0, 1, 1, 2})
			}
			if port < 0 {
				port = 0
			}
			if port > 65535 {
				port = 65535
			}
			c := connSpec{proto: proto, port: port}
			c.src, c.srcIP = genEnd()
			c.dst, c.dstIP = genEnd()
			w.conns = append(w.conns, c)
		}
		emit(w, tags)

		// Twin of a case that belongs to a known-finding class: the same world with the construct of that class
		// neutralised (policyTypes filled in as the API server would; the reserved key replaced by an ordinary
		// one).  The twin carries no class tag, so any OTHER failure hidden behind a known finding still shows.
		if tags["reserved-key"] || tags["types:absent-with-egress"] {
			if resPod != nil {
				delete(resPod.Labels, resKey)
				resPod.Labels["zone"] = "a"
				w.nps[0].Spec.PodSelector = metav1.LabelSelector{MatchLabels: map[string]string{"zone": "a"}}
			}
			for _, np := range w.nps {
				if len(np.Spec.PolicyTypes) == 0 && len(np.Spec.Egress) > 0 {
					np.Spec.PolicyTypes = []networkingv1.PolicyType{networkingv1.PolicyTypeIngress, networkingv1.PolicyTypeEgress}
				}
			}
			t2 := map[string]bool{"twin": true}
			for t := range tags {
				if t != "reserved-key" && t != "types:absent-with-egress" {
					t2[t] = true
				}
			}
			emit(w, t2)
		}
	}
}
