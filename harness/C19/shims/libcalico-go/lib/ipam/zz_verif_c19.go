//go:build verif

package ipam

import (
	v3 "github.com/projectcalico/api/pkg/apis/projectcalico/v3"

	cnet "github.com/projectcalico/calico/libcalico-go/lib/net"
)

// VerifBlockOrder returns the order in which randomBlockGenerator visits the blocks of a pool for a host
// (the pseudo-random start index is an input of the Coq model, not something it computes).
func VerifBlockOrder(pool v3.IPPool, host string) []cnet.IPNet {
	g := randomBlockGenerator(pool, host)
	var out []cnet.IPNet
	for b := g(); b != nil; b = g() {
		out = append(out, *b)
	}
	return out
}

// VerifDatastoreRetries exposes the retry bound used by every CAS loop.
const VerifDatastoreRetries = datastoreRetries
