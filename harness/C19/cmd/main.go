//go:build verif

// C19 correspondence driver.  Runs the REAL ipamClient (libcalico-go/lib/ipam) against the in-memory
// compare-and-swap backend, one datastore access at a time under a seeded scheduler that chooses the
// interleaving of 1-3 clients and injects write conflicts and client crashes.  Every access (kind, key, value
// written, answer) and every result returned to a caller is printed as part of a Coq `case` term.
package main

import (
	"context"
	"encoding/json"
	"errors"
	"flag"
	"fmt"
	"net"
	"os"
	"sort"
	"strconv"
	"strings"

	v3 "github.com/projectcalico/api/pkg/apis/projectcalico/v3"
	"github.com/sirupsen/logrus"
	metav1 "k8s.io/apimachinery/pkg/apis/meta/v1"

	"github.com/projectcalico/calico/libcalico-go/lib/apis/internalapi"
	"github.com/projectcalico/calico/libcalico-go/lib/backend/model"
	cerrors "github.com/projectcalico/calico/libcalico-go/lib/errors"
	"github.com/projectcalico/calico/libcalico-go/lib/ipam"
	cnet "github.com/projectcalico/calico/libcalico-go/lib/net"
	"github.com/projectcalico/calico/libcalico-go/lib/options"
	mb "github.com/projectcalico/calico/zz_verif/c19/membackend"
)

type rng struct{ s uint64 }

func (r *rng) next() uint64 {
	r.s += 0x9e3779b97f4a7c15
	z := r.s
	z = (z ^ (z >> 30)) * 0xbf58476d1ce4e5b9
	z = (z ^ (z >> 27)) * 0x94d049bb133111eb
	return z ^ (z >> 31)
}
func (r *rng) intn(n int) int  { return int(r.next() % uint64(n)) }
func (r *rng) chance(p int) bool { return r.intn(100) < p }

// ---------------------------------------------------------------- fakes
type pools struct{ pool v3.IPPool }

func (p *pools) GetEnabledPools(ctx context.Context, ipVersion int) ([]v3.IPPool, error) {
	if ipVersion == 4 {
		return []v3.IPPool{p.pool}, nil
	}
	return nil, nil
}
func (p *pools) GetAllPools(ctx context.Context) ([]v3.IPPool, error) { return []v3.IPPool{p.pool}, nil }

type noReservations struct{}

func (noReservations) List(ctx context.Context, opts options.ListOptions) (*v3.IPReservationList, error) {
	return &v3.IPReservationList{}, nil
}

// ---------------------------------------------------------------- case description
type config struct {
	strict, autoalloc bool
	maxblocks         int // 0 = unset
	base              uint32
	nblocks, bsize    int
	hosts             int
	starts            []int
}

type op struct {
	kind   string // aa | aip | rel | rbh | claim | relaff | aam | aipm (the last two: with MaxAllocToHandlePerIPVersion)
	must   bool   // relaff: mustBeEmpty
	ma     int    // aam / aipm: MaxAllocToHandlePerIPVersion
	h, tag int
	num    int
	addr   uint32
	rel    []relOpt
	hint   []uint64
}
type relOpt struct {
	addr uint32
	h    int // 0 = no handle given
}

type result struct {
	ips     []uint32
	err     string
	isIPs   bool
	isClaim bool
	claimed bool
	failed  bool
}

func ip4(a uint32) net.IP { return net.IPv4(byte(a>>24), byte(a>>16), byte(a>>8), byte(a)).To4() }
func ipnum(ip net.IP) uint32 {
	v := ip.To4()
	return uint32(v[0])<<24 | uint32(v[1])<<16 | uint32(v[2])<<8 | uint32(v[3])
}
func log2(n int) int {
	k := 0
	for 1<<uint(k) < n {
		k++
	}
	return k
}

func classifyErr(err error) string {
	if err == nil {
		return "ENone"
	}
	if errors.Is(err, ipam.ErrBlockLimit) {
		return "EBlockLimit"
	}
	switch err.(type) {
	case cerrors.ErrorResourceDoesNotExist:
		return "ENotFound"
	case cerrors.ErrorResourceAlreadyExists:
		return "EExists"
	case cerrors.ErrorResourceUpdateConflict:
		return "EConflict"
	}
	return "EOther"
}

// ---------------------------------------------------------------- Coq printing
type printer struct {
	cfg     config
	seqBase map[uint32]uint64
}

func hostID(h string) int   { n, _ := strconv.Atoi(strings.TrimPrefix(h, "n")); return n }
func handleID(h string) int { n, _ := strconv.Atoi(strings.TrimPrefix(h, "h")); return n }

func (p *printer) key(k model.Key) string {
	switch kk := k.(type) {
	case model.BlockKey:
		return fmt.Sprintf("(KBlock %d%%N)", ipnum(kk.CIDR.Addr().AsSlice()))
	case model.BlockAffinityKey:
		return fmt.Sprintf("(KAff %d%%N %d%%N)", hostID(kk.Host), ipnum(kk.CIDR.Addr().AsSlice()))
	case model.IPAMHandleKey:
		return fmt.Sprintf("(KHandle %d%%N)", handleID(kk.HandleID))
	}
	return "(KHandle 999999%N)"
}

func (p *printer) block(b *model.AllocationBlock) string {
	cidr := ipnum(b.CIDR.IP)
	aff := "None"
	if b.Affinity != nil {
		aff = fmt.Sprintf("(Some %d%%N)", hostID(strings.TrimPrefix(*b.Affinity, "host:")))
	}
	var al []string
	for _, a := range b.Allocations {
		if a == nil {
			al = append(al, "None")
		} else {
			al = append(al, fmt.Sprintf("Some %d%%nat", *a))
		}
	}
	var un []string
	for _, u := range b.Unallocated {
		un = append(un, fmt.Sprintf("%d%%nat", u))
	}
	var at []string
	for _, a := range b.Attributes {
		h := "None"
		if a.HandleID != nil {
			h = fmt.Sprintf("(Some %d%%N)", handleID(*a.HandleID))
		}
		tag := 0
		if a.ReleasedAt != nil {
			tag = 777777 // an attribute in cooldown: outside the model's domain, shows up as a disagreement
		} else if t, ok := a.ActiveOwnerAttrs["tag"]; ok {
			tag, _ = strconv.Atoi(t)
		}
		at = append(at, fmt.Sprintf("Build_attr %s %d%%N", h, tag))
	}
	base := p.seqBase[cidr]
	type os struct {
		o int
		s uint64
	}
	var sq []os
	for k, v := range b.SequenceNumberForAllocation {
		o, _ := strconv.Atoi(k)
		sq = append(sq, os{o, v - base})
	}
	sort.Slice(sq, func(i, j int) bool { return sq[i].o < sq[j].o })
	var sqs []string
	for _, x := range sq {
		sqs = append(sqs, fmt.Sprintf("(%d%%nat, %d%%N)", x.o, x.s))
	}
	return fmt.Sprintf("(Build_block %d%%N %s [%s] [%s] [%s] %d%%N [%s])", cidr, aff, strings.Join(al, "; "),
		strings.Join(un, "; "), strings.Join(at, "; "), b.SequenceNumber-base, strings.Join(sqs, "; "))
}

func (p *printer) value(v any) string {
	switch vv := v.(type) {
	case *model.AllocationBlock:
		return "(VBlock " + p.block(vv) + ")"
	case *model.BlockAffinity:
		switch vv.State {
		case model.StatePending:
			return "(VAff APending)"
		case model.StateConfirmed:
			return "(VAff AConfirmed)"
		default:
			return "(VAff APendingDeletion)"
		}
	case *model.IPAMHandle:
		type cn struct {
			c uint32
			n int
		}
		var l []cn
		for k, n := range vv.Block {
			_, ipn, _ := net.ParseCIDR(k)
			l = append(l, cn{ipnum(ipn.IP), n})
		}
		sort.Slice(l, func(i, j int) bool { return l[i].c < l[j].c })
		var ss []string
		for _, x := range l {
			ss = append(ss, fmt.Sprintf("(%d%%N, %d%%N)", x.c, x.n))
		}
		return "(VHandle [" + strings.Join(ss, "; ") + "])"
	}
	return "(VHandle [(0%N, 0%N)])"
}

func nlist(xs []uint32) string {
	var ss []string
	for _, x := range xs {
		ss = append(ss, fmt.Sprintf("%d%%N", x))
	}
	return "[" + strings.Join(ss, "; ") + "]"
}
func hintlist(xs []uint64) string {
	var ss []string
	for _, x := range xs {
		ss = append(ss, fmt.Sprintf("%d%%N", x))
	}
	return "[" + strings.Join(ss, "; ") + "]"
}

func (o *op) coq() string {
	switch o.kind {
	case "aa":
		return fmt.Sprintf("OpAutoAssign %d%%N %d%%N %d%%nat", o.h, o.tag, o.num)
	case "aip":
		return fmt.Sprintf("OpAssignIP %d%%N %d%%N %d%%N", o.h, o.tag, o.addr)
	case "rel":
		var ss []string
		for _, r := range o.rel {
			h := "None"
			if r.h != 0 {
				h = fmt.Sprintf("Some %d%%N", r.h)
			}
			ss = append(ss, fmt.Sprintf("(%d%%N, %s)", r.addr, h))
		}
		return fmt.Sprintf("OpRelease [%s] %s", strings.Join(ss, "; "), hintlist(o.hint))
	case "aam":
		return fmt.Sprintf("OpAutoAssignM %d%%N %d%%N %d%%nat %d%%N %s", o.h, o.tag, o.num, o.ma, hintlist(o.hint))
	case "aipm":
		return fmt.Sprintf("OpAssignIPM %d%%N %d%%N %d%%N %d%%N %s", o.h, o.tag, o.addr, o.ma, hintlist(o.hint))
	case "claim":
		return fmt.Sprintf("OpClaimAffinity %d%%N", o.addr)
	case "relaff":
		return fmt.Sprintf("OpReleaseAffinity %d%%N %v", o.addr, o.must)
	default:
		return fmt.Sprintf("OpReleaseByHandle %d%%N %s", o.h, hintlist(o.hint))
	}
}
func (o *op) text() string {
	switch o.kind {
	case "aa":
		return fmt.Sprintf("AutoAssign(h%d,tag%d,n=%d)", o.h, o.tag, o.num)
	case "aip":
		return fmt.Sprintf("AssignIP(h%d,tag%d,%s)", o.h, o.tag, ip4(o.addr))
	case "rel":
		var ss []string
		for _, r := range o.rel {
			s := ip4(r.addr).String()
			if r.h != 0 {
				s += fmt.Sprintf("/h%d", r.h)
			}
			ss = append(ss, s)
		}
		return "ReleaseIPs(" + strings.Join(ss, ",") + ")"
	case "aam":
		return fmt.Sprintf("AutoAssign(h%d,tag%d,n=%d,maxAlloc=%d)", o.h, o.tag, o.num, o.ma)
	case "aipm":
		return fmt.Sprintf("AssignIP(h%d,tag%d,%s,maxAlloc=%d)", o.h, o.tag, ip4(o.addr), o.ma)
	case "claim":
		return fmt.Sprintf("ClaimAffinity(%s)", ip4(o.addr))
	case "relaff":
		return fmt.Sprintf("ReleaseAffinity(%s,mustBeEmpty=%v)", ip4(o.addr), o.must)
	default:
		return fmt.Sprintf("ReleaseByHandle(h%d)", o.h)
	}
}

func (r *result) coq() string {
	if r.isClaim {
		return fmt.Sprintf("ResClaim %v %v %s", r.claimed, r.failed, r.err)
	}
	if r.isIPs {
		return fmt.Sprintf("ResIPs %s %s", nlist(r.ips), r.err)
	}
	return "ResErr " + r.err
}

// ---------------------------------------------------------------- one case
type clientState struct {
	id      int
	host    int
	ops     []*op
	results []*result
	callOp  []int // op index of every call made by this client (parallel to obs entries of the client)
}

type obsRec struct {
	client int
	fault  mb.Decision
	call   *mb.Call
	done   []*result
	opIdx  int
	val    string
}

type world struct {
	cfg    config
	r      *rng
	alloc  map[uint32]int // addresses believed allocated -> handle (generator knowledge only)
	maxOps int
}

func (w *world) blockAddrs(i int) []uint32 {
	var out []uint32
	for k := 0; k < w.cfg.bsize; k++ {
		out = append(out, w.cfg.base+uint32(i*w.cfg.bsize+k))
	}
	return out
}

func (w *world) genOp() *op {
	r := w.r
	nh := 3
	switch k := r.intn(27); {
	case k == 23:
		ma := 1 + r.intn(2)
		return &op{kind: "aam", h: 1 + r.intn(nh), tag: 1 + r.intn(2), num: 1 + r.intn(ma), ma: ma} // num <= maxAlloc
	case k >= 24:
		total := w.cfg.nblocks * w.cfg.bsize
		return &op{kind: "aipm", h: 1 + r.intn(nh), tag: 1 + r.intn(2), addr: w.cfg.base + uint32(r.intn(total)), ma: 1 + r.intn(2)}
	case k == 20:
		return &op{kind: "claim", addr: w.cfg.base + uint32(r.intn(w.cfg.nblocks)*w.cfg.bsize)}
	case k == 21 || k == 22:
		return &op{kind: "relaff", addr: w.cfg.base + uint32(r.intn(w.cfg.nblocks)*w.cfg.bsize), must: r.chance(50)}
	case k < 8:
		num := 1 + r.intn(3)
		if r.chance(15) {
			num = 1 + r.intn(w.cfg.bsize+2)
		}
		return &op{kind: "aa", h: 1 + r.intn(nh), tag: 1 + r.intn(2), num: num}
	case k < 11:
		total := w.cfg.nblocks * w.cfg.bsize
		return &op{kind: "aip", h: 1 + r.intn(nh), tag: 1 + r.intn(2), addr: w.cfg.base + uint32(r.intn(total))}
	case k < 16:
		// release 1-4 addresses of one block, preferring allocated ones
		bi := r.intn(w.cfg.nblocks)
		var known []uint32
		for a := range w.alloc {
			known = append(known, a)
		}
		sort.Slice(known, func(i, j int) bool { return known[i] < known[j] })
		if len(known) > 0 && r.chance(80) {
			bi = int(known[r.intn(len(known))]-w.cfg.base) / w.cfg.bsize
		}
		addrs := w.blockAddrs(bi)
		n := 1 + r.intn(3)
		if r.chance(20) {
			n = 3 + r.intn(2)
		}
		o := &op{kind: "rel"}
		seen := map[uint32]int{}
		for i := 0; i < n; i++ {
			a := addrs[r.intn(len(addrs))]
			if hh, ok := seen[a]; ok { // duplicates carry the same option
				o.rel = append(o.rel, relOpt{a, hh})
				continue
			}
			h := 0
			if r.chance(50) {
				if kh, ok := w.alloc[a]; ok && r.chance(85) {
					h = kh
				} else {
					h = 1 + r.intn(nh)
				}
			}
			seen[a] = h
			o.rel = append(o.rel, relOpt{a, h})
		}
		return o
	default:
		return &op{kind: "rbh", h: 1 + r.intn(nh)}
	}
}

// A scripted case: fixed operations and a fixed schedule (minimal witnesses of past findings, always run first).
type schedEntry struct {
	client, steps int // let `client` perform up to `steps` accesses
	fault         mb.Decision
}
type script struct {
	name  string
	ops   [][]*op
	sched []schedEntry
}

const base0 = uint32(10 << 24)

var scripts = []*script{
	// one request for 3 addresses; the first block (2 addresses) fills only partially
	{name: "requested-count", ops: [][]*op{{{kind: "aa", h: 1, tag: 1, num: 3}}}, sched: []schedEntry{{0, 1000, mb.Proceed}}},
	// AssignIP whose block update (7th access) hits a write conflict and is retried
	{name: "assignip-conflict", ops: [][]*op{{{kind: "aip", h: 1, tag: 1, addr: base0}}},
		sched: []schedEntry{{0, 6, mb.Proceed}, {0, 1, mb.Conflict}, {0, 1000, mb.Proceed}}},
	// a 3-address release lists the handles, then another client assigns the address with an existing handle,
	// then the release runs on and decrements from its stale copy of the handle
	{name: "stale-handle-copy", ops: [][]*op{{{kind: "aa", h: 1, tag: 1, num: 2}}, {{kind: "aa", h: 1, tag: 1, num: 1}},
		{{kind: "rel", rel: []relOpt{{base0 + 2, 0}, {base0 + 2, 0}, {base0 + 2, 0}}}}},
		sched: []schedEntry{{0, 1000, mb.Proceed}, {2, 1, mb.Proceed}, {1, 1000, mb.Proceed}, {2, 1000, mb.Proceed}}},
	// ReleaseByHandle reads a non-affine block holding one address of the handle and is about to delete it; a
	// ReleaseIPs of that address deletes the block (and the handle) first; ReleaseByHandle's delete answers
	// "not found"; the address is assigned again with the same handle; ReleaseByHandle then runs on
	{name: "releasebyhandle-notfound", ops: [][]*op{
		{{kind: "aip", h: 1, tag: 1, addr: base0}, {kind: "relaff", addr: base0, must: false}},
		{{kind: "rbh", h: 1}}, {{kind: "rel", rel: []relOpt{{base0, 0}}}}, {{kind: "aip", h: 1, tag: 1, addr: base0}}},
		sched: []schedEntry{{0, 1000, mb.Proceed}, {1, 2, mb.Proceed}, {2, 1000, mb.Proceed}, {1, 1, mb.Proceed},
			{3, 1000, mb.Proceed}, {1, 1000, mb.Proceed}}},
	// MaxAlloc = 1: a client increments the handle and dies before writing the block; the pod's retry (same handle,
	// same address) must not be told it owns the address unless a written block records it
	{name: "maxalloc-unwritten-block", ops: [][]*op{
		{{kind: "aipm", h: 1, tag: 1, addr: base0, ma: 1}}, {{kind: "aipm", h: 1, tag: 1, addr: base0, ma: 1}},
		{{kind: "aip", h: 2, tag: 1, addr: base0}}},
		sched: []schedEntry{{0, 6, mb.Proceed}, {0, 1, mb.CrashBefore}, {1, 100000, mb.Proceed}, {2, 1000, mb.Proceed}}},
}

func runCase(seed uint64, conc bool, sc *script) (string, bool, string, map[string]any, []string) {
	r := &rng{s: seed}
	cfg := config{base: base0}
	cfg.bsize = []int{2, 4, 4, 4, 8}[r.intn(5)]
	cfg.nblocks = []int{2, 4, 4, 8}[r.intn(4)]
	cfg.hosts = 1 + r.intn(3)
	if sc != nil {
		cfg.bsize, cfg.nblocks, cfg.hosts = 2, 2, 1
	}
	switch k := r.intn(10); {
	case sc != nil:
		cfg.strict, cfg.autoalloc = false, true
	case k < 6:
		cfg.strict, cfg.autoalloc = false, true
	case k < 8:
		cfg.strict, cfg.autoalloc = true, true
		if r.chance(50) {
			cfg.maxblocks = 1 + r.intn(2)
		}
	default:
		cfg.strict, cfg.autoalloc = true, false
	}
	logrus.SetLevel(logrus.PanicLevel)

	poolLen := 32 - log2(cfg.nblocks*cfg.bsize)
	blockLen := 32 - log2(cfg.bsize)
	auto := v3.Automatic
	pool := v3.IPPool{ObjectMeta: metav1.ObjectMeta{Name: "pool0"}, Spec: v3.IPPoolSpec{
		CIDR: fmt.Sprintf("%s/%d", ip4(cfg.base), poolLen), BlockSize: blockLen,
		AllowedUses:    []v3.IPPoolAllowedUse{v3.IPPoolAllowedUseWorkload, v3.IPPoolAllowedUseTunnel},
		AssignmentMode: &auto,
	}}
	for h := 0; h < cfg.hosts; h++ {
		order := ipam.VerifBlockOrder(pool, fmt.Sprintf("n%d", h))
		cfg.starts = append(cfg.starts, int(ipnum(order[0].IP)-cfg.base)/cfg.bsize)
	}

	st := mb.NewStore()
	ctx := context.Background()
	for h := 0; h < cfg.hosts; h++ {
		n := internalapi.NewNode()
		n.Name = fmt.Sprintf("n%d", h)
		if _, err := st.Apply(ctx, &model.KVPair{Key: model.ResourceKey{Kind: internalapi.KindNode, Name: n.Name}, Value: n}); err != nil {
			panic(err)
		}
	}
	if cfg.strict || !cfg.autoalloc || cfg.maxblocks != 0 {
		if _, err := st.Apply(ctx, &model.KVPair{Key: model.IPAMConfigKey{}, Value: &model.IPAMConfig{
			StrictAffinity: cfg.strict, AutoAllocateBlocks: cfg.autoalloc, MaxBlocksPerHost: cfg.maxblocks}}); err != nil {
			panic(err)
		}
	}

	sched := mb.NewSched(st)
	sched.Scheduled = mb.IPAMOnly
	runner := mb.NewRunner(sched)
	w := &world{cfg: cfg, r: r, alloc: map[uint32]int{}}

	nclients := 1
	opsPer := 6 + r.intn(10)
	if conc {
		nclients = 2 + r.intn(2)
		opsPer = 2 + r.intn(4)
	}
	barrier := conc && r.chance(60)
	crashy := conc && r.chance(30)
	pConflict := 0
	if conc || r.chance(30) {
		pConflict = 4 + r.intn(12)
	}
	if sc != nil {
		nclients, barrier, crashy, pConflict = len(sc.ops), false, false, 0
	}

	clients := make([]*clientState, nclients)
	pa := &pools{pool: pool}
	for i := range clients {
		cs := &clientState{id: i, host: r.intn(cfg.hosts)}
		if conc && i > 0 && r.chance(40) {
			cs.host = clients[0].host // two clients on one host contend for the same affine blocks
		}
		clients[i] = cs
	}
	curOp := make([]int, nclients)
	for i := range clients {
		cs := clients[i]
		ic := ipam.NewIPAMClient(sched.Client(i), pa, noReservations{})
		hostname := fmt.Sprintf("n%d", cs.host)
		nops := opsPer
		if sc != nil {
			nops = len(sc.ops[i])
		}
		runner.Start(i, func() {
			for k := 0; k < nops; k++ {
				o := w.genOp()
				if sc != nil {
					o = sc.ops[cs.id][k]
				}
				cs.ops = append(cs.ops, o)
				curOp[cs.id] = k
				res := &result{}
				hs := fmt.Sprintf("h%d", o.h)
				attrs := map[string]string{"tag": strconv.Itoa(o.tag)}
				switch o.kind {
				case "aa", "aam":
					v4, _, err := ic.AutoAssign(ctx, ipam.AutoAssignArgs{Num4: o.num, HandleID: &hs, Attrs: attrs,
						Hostname: hostname, IntendedUse: v3.IPPoolAllowedUseWorkload, MaxAllocToHandlePerIPVersion: o.ma})
					res.isIPs, res.err = true, classifyErr(err)
					if v4 != nil {
						for _, ipn := range v4.IPs {
							res.ips = append(res.ips, ipnum(ipn.IP))
							w.alloc[ipnum(ipn.IP)] = o.h
						}
					}
				case "aip", "aipm":
					err := ic.AssignIP(ctx, ipam.AssignIPArgs{IP: cnet.IP{IP: ip4(o.addr)}, HandleID: &hs, Attrs: attrs, Hostname: hostname,
						MaxAllocToHandlePerIPVersion: o.ma})
					res.err = classifyErr(err)
					if err == nil {
						w.alloc[o.addr] = o.h
					}
				case "rel":
					var ro []ipam.ReleaseOptions
					for _, x := range o.rel {
						opt := ipam.ReleaseOptions{Address: ip4(x.addr).String()}
						if x.h != 0 {
							opt.Handle = fmt.Sprintf("h%d", x.h)
						}
						ro = append(ro, opt)
					}
					un, _, err := ic.ReleaseIPs(ctx, ro...)
					res.isIPs, res.err = true, classifyErr(err)
					for _, u := range un {
						res.ips = append(res.ips, ipnum(u.IP))
					}
					sort.Slice(res.ips, func(i, j int) bool { return res.ips[i] < res.ips[j] })
					if err == nil {
						for _, x := range o.rel {
							delete(w.alloc, x.addr)
						}
					}
				case "claim", "relaff":
					blockLen := 32 - log2(cfg.bsize)
					cidr := cnet.IPNet{IPNet: net.IPNet{IP: ip4(o.addr), Mask: net.CIDRMask(blockLen, 32)}}
					if o.kind == "claim" {
						cl, fl, err := ic.ClaimAffinity(ctx, cidr, ipam.AffinityConfig{AffinityType: ipam.AffinityTypeHost, Host: hostname})
						res.isClaim, res.claimed, res.failed, res.err = true, len(cl) > 0, len(fl) > 0, classifyErr(err)
					} else {
						res.err = classifyErr(ic.ReleaseAffinity(ctx, cidr, hostname, o.must))
					}
				case "rbh":
					err := ic.ReleaseByHandle(ctx, hs)
					res.err = classifyErr(err)
					for a, h := range w.alloc {
						if h == o.h {
							delete(w.alloc, a)
						}
					}
				}
				cs.results = append(cs.results, res)
			}
		})
	}

	pr := &printer{cfg: cfg, seqBase: map[uint32]uint64{}}
	var obs []*obsRec
	crashed := map[int]bool{}
	crashes, conflicts, steps := 0, 0, 0
	last := -1
	scPos := 0
	for {
		pend := runner.Pending()
		if len(pend) == 0 {
			break
		}
		// barrier mode: a client that finished its operation of this round waits for the others
		elig := pend
		if barrier {
			minOp := 1 << 30
			for _, id := range pend {
				if len(clients[id].results) < minOp {
					minOp = len(clients[id].results)
				}
			}
			elig = nil
			for _, id := range pend {
				if len(clients[id].results) == minOp {
					elig = append(elig, id)
				}
			}
		}
		id := elig[r.intn(len(elig))]
		if last >= 0 && r.chance(45) {
			for _, e := range elig {
				if e == last {
					id = last
				}
			}
		}
		scriptFault := mb.Proceed
		if sc != nil {
			id = -1
			for scPos < len(sc.sched) && id < 0 {
				e := &sc.sched[scPos]
				isPending := false
				for _, pid := range pend {
					if pid == e.client {
						isPending = true
					}
				}
				if e.steps <= 0 || !isPending {
					scPos++
					continue
				}
				e.steps--
				id, scriptFault = e.client, e.fault
			}
			if id < 0 {
				id = pend[0]
			}
		}
		last = id
		call := runner.Peek(id)
		dec := mb.Proceed
		isWrite := call.Op == "create" || call.Op == "update" || call.Op == "delete"
		if sc != nil {
			dec = scriptFault
			if dec == mb.Conflict {
				conflicts++
			}
			if dec == mb.CrashBefore || dec == mb.CrashAfter {
				crashes++
				crashed[id] = true
			}
		} else if (call.Op == "update" || call.Op == "delete") && r.chance(pConflict) {
			dec = mb.Conflict
			conflicts++
		} else if crashy && crashes == 0 && isWrite && r.chance(6) {
			if r.chance(50) {
				dec = mb.CrashBefore
			} else {
				dec = mb.CrashAfter
			}
			crashes++
			crashed[id] = true
		}
		nres := len(clients[id].results)
		opIdx := len(clients[id].results)
		rec := &obsRec{client: id, fault: dec, opIdx: opIdx}
		// snapshot the value carried by the request before the client runs on
		var createCIDR uint32
		var createSeq, prevBase uint64
		isBlockCreate := false
		if call.Raw != nil {
			v, err := model.ParseValue(call.Key, call.Raw)
			if err == nil {
				if b, ok := v.(*model.AllocationBlock); ok && call.Op == "create" {
					// a created block's sequence numbers are printed relative to its own initial value; the
					// base is kept only if the create succeeds
					isBlockCreate, createCIDR, createSeq = true, ipnum(b.CIDR.IP), b.SequenceNumber
					prevBase = pr.seqBase[createCIDR]
					pr.seqBase[createCIDR] = createSeq
				}
				rec.val = pr.value(v)
				if isBlockCreate {
					pr.seqBase[createCIDR] = prevBase
				}
			}
		}
		done := runner.Step(id, dec)
		rec.call = done
		if isBlockCreate && done.Result == "ok" {
			pr.seqBase[createCIDR] = createSeq
		}
		for _, x := range clients[id].results[nres:] {
			rec.done = append(rec.done, x)
		}
		obs = append(obs, rec)
		steps++
		if steps > 700 { // a handle stuck at its MaxAlloc limit makes autoAssign retry without end: cut the run
			break
		}
	}

	// hints: the order in which Go maps were iterated, read off the trace
	for _, cs := range clients {
		for k, o := range cs.ops {
			seen := map[uint64]bool{}
			for _, ob := range obs {
				if ob.client != cs.id || ob.opIdx != k || ob.call.Key == nil {
					continue
				}
				var id uint64
				switch kk := ob.call.Key.(type) {
				case model.IPAMHandleKey:
					if o.kind != "rel" {
						continue
					}
					id = uint64(handleID(kk.HandleID))
				case model.BlockKey:
					if o.kind != "rbh" || ob.call.Op != "get" {
						continue
					}
					id = uint64(ipnum(kk.CIDR.Addr().AsSlice()))
				default:
					continue
				}
				if !seen[id] {
					seen[id] = true
					o.hint = append(o.hint, id)
				}
			}
		}
	}

	// MaxAlloc operations: the order in which IPsByHandle visited the handle's blocks = the block reads that
	// follow two consecutive reads of the handle by the same client; the model takes one order per operation,
	// so a case in which two such visits of one operation disagree is skipped (counted by main)
	inconsistent := false
	for _, cs := range clients {
		for k, o := range cs.ops {
			if o.kind != "aam" && o.kind != "aipm" {
				continue
			}
			var mine []*obsRec
			for _, ob := range obs {
				if ob.client == cs.id && ob.opIdx == k {
					mine = append(mine, ob)
				}
			}
			pos := map[uint64]int{}
			for j := 1; j < len(mine); j++ {
				_, h1 := mine[j-1].call.Key.(model.IPAMHandleKey)
				_, h2 := mine[j].call.Key.(model.IPAMHandleKey)
				if !(h1 && h2 && mine[j-1].call.Op == "get" && mine[j].call.Op == "get" && mine[j].call.Result == "ok") {
					continue
				}
				nblk := 0
				if hv, ok := mine[j].call.Out.Value.(*model.IPAMHandle); ok {
					nblk = len(hv.Block)
				}
				last := -1
				for t := j + 1; t < len(mine) && t <= j+nblk; t++ {
					bk, ok := mine[t].call.Key.(model.BlockKey)
					if !ok || mine[t].call.Op != "get" {
						break
					}
					id := uint64(ipnum(bk.CIDR.Addr().AsSlice()))
					if p, seen := pos[id]; seen {
						if p < last {
							inconsistent = true
						}
						last = p
					} else {
						pos[id] = len(o.hint)
						last = len(o.hint)
						o.hint = append(o.hint, id)
					}
				}
			}
		}
	}
	if inconsistent {
		return "", false, "", nil, nil
	}

	// ---- print
	var sb strings.Builder
	b2s := func(b bool) string {
		if b {
			return "true"
		}
		return "false"
	}
	mbk := cfg.maxblocks
	if mbk == 0 {
		mbk = 20
	}
	var starts []string
	for h, s := range cfg.starts {
		starts = append(starts, fmt.Sprintf("(%d%%N, %d%%nat)", h, s))
	}
	fmt.Fprintf(&sb, "{| c_cfg := {| cf_strict := %s; cf_autoalloc := %s; cf_maxblocks := %d%%nat; cf_pool_base := %d%%N; cf_nblocks := %d%%nat; cf_bsize := %d%%nat; cf_retries := %d%%nat; cf_starts := [%s]; cf_count_requested := %s; cf_aip_leak := %s; cf_stale_cache := %s |}; c_fx := %s; c_fy := %s; ",
		b2s(cfg.strict), b2s(cfg.autoalloc), mbk, cfg.base, cfg.nblocks, cfg.bsize, ipam.VerifDatastoreRetries, strings.Join(starts, "; "), b2s(modelUnfixed), b2s(modelUnfixed), b2s(modelUnfixed), b2s(claimBumps != modelFlip), b2s(rbhReturns != modelFlipY))
	var cl []string
	for _, cs := range clients {
		var os []string
		for _, o := range cs.ops {
			os = append(os, o.coq())
		}
		cl = append(cl, fmt.Sprintf("(%d%%N, [%s])", cs.host, strings.Join(os, "; ")))
	}
	fmt.Fprintf(&sb, "c_clients := [%s]; ", strings.Join(cl, "; "))
	var ol []string
	var human []string
	partial, released, sawConflict := false, false, false
	for _, ob := range obs {
		c := ob.call
		fault := map[mb.Decision]string{mb.Proceed: "FNone", mb.Conflict: "FConflict", mb.CrashBefore: "FCrashBefore", mb.CrashAfter: "FCrashAfter"}[ob.fault]
		kind := map[string]string{"get": "OGet", "list": "OList", "create": "OCreate", "update": "OUpdate", "delete": "ODelete"}[c.Op]
		key, lst, val := "None", "None", "None"
		if c.Key != nil {
			key = "(Some " + pr.key(c.Key) + ")"
		}
		if c.List != nil {
			switch l := c.List.(type) {
			case model.BlockListOptions:
				lst = "(Some LBlocks)"
			case model.BlockAffinityListOptions:
				lst = fmt.Sprintf("(Some (LAffs %d%%N))", hostID(l.Host))
			case model.IPAMHandleListOptions:
				lst = "(Some LHandles)"
			}
		}
		if ob.val != "" {
			val = "(Some " + ob.val + ")"
		}
		res := map[string]string{"ok": "XOk", "notfound": "XNotFound", "exists": "XExists", "conflict": "XConflict", "crashed": "XNone", "error": "XNone"}[c.Result]
		if c.Result == "conflict" {
			sawConflict = true
		}
		var dn []string
		for _, d := range ob.done {
			dn = append(dn, d.coq())
		}
		ol = append(ol, fmt.Sprintf("Build_obs %d%%nat %s %s %s %s %s %s [%s]", ob.client, fault, kind, key, lst, val, res, strings.Join(dn, "; ")))
		if len(human) < 60 {
			k := ""
			if c.Key != nil {
				k = fmt.Sprint(c.Key)
			} else {
				k = fmt.Sprintf("%T", c.List)
			}
			h := fmt.Sprintf("c%d %s %s -> %s", ob.client, c.Op, k, c.Result)
			if ob.fault != mb.Proceed {
				h += " [" + fault + "]"
			}
			for _, d := range ob.done {
				h += " ; returns " + d.coq()
			}
			human = append(human, h)
		}
	}
	fmt.Fprintf(&sb, "c_obs := [%s]; ", strings.Join(ol, "; "))
	var fin []string
	for _, kv := range st.Dump() {
		switch kv.Key.(type) {
		case model.BlockKey, model.BlockAffinityKey, model.IPAMHandleKey:
			fin = append(fin, fmt.Sprintf("(%s, %s)", pr.key(kv.Key), pr.value(kv.Value)))
		}
	}
	fmt.Fprintf(&sb, "c_final := [%s] |}", strings.Join(fin, "; "))

	var keyParts, opsText []string
	nAssign := 0
	for _, cs := range clients {
		var t []string
		for k, o := range cs.ops {
			t = append(t, o.text())
			if k < len(cs.results) {
				rs := cs.results[k]
				if o.kind == "aa" || o.kind == "aam" {
					if len(rs.ips) > 0 {
						nAssign++
					}
					if len(rs.ips) < o.num {
						partial = true
					}
				}
				if (o.kind == "aip" || o.kind == "aipm") && rs.err == "ENone" {
					nAssign++
				}
				if (o.kind == "rel" && rs.err == "ENone" && len(rs.ips) < len(o.rel)) || (o.kind == "rbh" && rs.err == "ENone") {
					released = true
				}
			}
		}
		opsText = append(opsText, fmt.Sprintf("client %d on n%d: %s", cs.id, cs.host, strings.Join(t, " ; ")))
		keyParts = append(keyParts, strings.Join(t, ";"))
	}
	tags := []string{fmt.Sprintf("clients:%d", nclients), fmt.Sprintf("strict:%v", cfg.strict), fmt.Sprintf("autoalloc:%v", cfg.autoalloc),
		fmt.Sprintf("bsize:%d", cfg.bsize), fmt.Sprintf("nblocks:%d", cfg.nblocks)}
	if crashes > 0 {
		tags = append(tags, "crash")
	}
	if sawConflict {
		tags = append(tags, "conflict")
	}
	if partial {
		tags = append(tags, "partial-fill")
	}
	if barrier {
		tags = append(tags, "barrier")
	}
	if sc != nil {
		tags = append(tags, "witness:"+sc.name)
	}
	tags = append(tags, fmt.Sprintf("claim-bumps-revision:%v", claimBumps), fmt.Sprintf("rbh-notfound-returns:%v", rbhReturns))
	nt := nAssign > 0 && released
	if conc {
		nt = nAssign > 0 && (sawConflict || crashes > 0)
	}
	sample := map[string]any{"config": fmt.Sprintf("%+v", cfg), "ops": opsText, "trace_head": human, "steps": steps}
	key := fmt.Sprintf("%+v|%s|%d|%d", cfg, strings.Join(keyParts, "|"), seed, steps)
	return sb.String(), nt, key, sample, tags
}

type line struct {
	Coq    string         `json:"coq"`
	NT     bool           `json:"nt"`
	Key    string         `json:"key"`
	Sample map[string]any `json:"sample,omitempty"`
	Tags   []string       `json:"tags"`
}

var modelUnfixed, modelFlip, claimBumps, modelFlipY, rbhReturns bool

// probeRbhReturns reports which releaseByHandle the tree has: with fixes/C19-releasebyhandle-notfound-no-decrement.patch
// a ReleaseByHandle whose compare-and-delete of the emptied non-affine block answers "not found" returns at once;
// the code without the patch goes on to decrement the handle (one more handle access).
func probeRbhReturns() bool {
	logrus.SetLevel(logrus.PanicLevel)
	auto := v3.Automatic
	pool := v3.IPPool{ObjectMeta: metav1.ObjectMeta{Name: "pool0"}, Spec: v3.IPPoolSpec{
		CIDR: fmt.Sprintf("%s/%d", ip4(base0), 30), BlockSize: 31,
		AllowedUses:    []v3.IPPoolAllowedUse{v3.IPPoolAllowedUseWorkload, v3.IPPoolAllowedUseTunnel},
		AssignmentMode: &auto,
	}}
	st := mb.NewStore()
	ctx := context.Background()
	n := internalapi.NewNode()
	n.Name = "n0"
	if _, err := st.Apply(ctx, &model.KVPair{Key: model.ResourceKey{Kind: internalapi.KindNode, Name: n.Name}, Value: n}); err != nil {
		panic(err)
	}
	pa := &pools{pool: pool}
	raw := ipam.NewIPAMClient(st, pa, noReservations{}) // unscheduled: runs to completion at once
	h := "h1"
	x := cnet.IP{IP: ip4(base0)}
	cidr := cnet.IPNet{IPNet: net.IPNet{IP: ip4(base0), Mask: net.CIDRMask(31, 32)}}
	if err := raw.AssignIP(ctx, ipam.AssignIPArgs{IP: x, HandleID: &h, Attrs: map[string]string{"tag": "1"}, Hostname: "n0"}); err != nil {
		panic(err)
	}
	if err := raw.ReleaseAffinity(ctx, cidr, "n0", false); err != nil {
		panic(err)
	}
	sched := mb.NewSched(st)
	sched.Scheduled = mb.IPAMOnly
	runner := mb.NewRunner(sched)
	ic := ipam.NewIPAMClient(sched.Client(0), pa, noReservations{})
	runner.Start(0, func() { _ = ic.ReleaseByHandle(ctx, h) })
	handleAccessesAfter := 0
	sawNotFound := false
	for len(runner.Pending()) > 0 {
		c := runner.Peek(0)
		if _, ok := c.Key.(model.BlockKey); ok && c.Op == "delete" && !sawNotFound {
			// somebody else releases the address (and deletes the block) first
			if _, _, err := raw.ReleaseIPs(ctx, ipam.ReleaseOptions{Address: x.String()}); err != nil {
				panic(err)
			}
		}
		done := runner.Step(0, mb.Proceed)
		if _, ok := done.Key.(model.BlockKey); ok && done.Op == "delete" && done.Result == "notfound" {
			sawNotFound = true
			continue
		}
		if _, ok := done.Key.(model.IPAMHandleKey); ok && sawNotFound {
			handleAccessesAfter++
		}
	}
	if !sawNotFound {
		panic("probeRbhReturns: the probe scenario did not reach the not-found answer")
	}
	return handleAccessesAfter == 0
}

// probeClaimBumps reports which claimAffineBlock the tree has: with fixes/C22-claim-existing-block-bumps-revision.patch
// a ClaimAffinity of a block that this host already owns writes the block back (one block update) before
// confirming the affinity; the code without that patch performs no block update on that path.
func probeClaimBumps() bool {
	logrus.SetLevel(logrus.PanicLevel)
	auto := v3.Automatic
	pool := v3.IPPool{ObjectMeta: metav1.ObjectMeta{Name: "pool0"}, Spec: v3.IPPoolSpec{
		CIDR: fmt.Sprintf("%s/%d", ip4(base0), 30), BlockSize: 31,
		AllowedUses:    []v3.IPPoolAllowedUse{v3.IPPoolAllowedUseWorkload, v3.IPPoolAllowedUseTunnel},
		AssignmentMode: &auto,
	}}
	st := mb.NewStore()
	ctx := context.Background()
	n := internalapi.NewNode()
	n.Name = "n0"
	if _, err := st.Apply(ctx, &model.KVPair{Key: model.ResourceKey{Kind: internalapi.KindNode, Name: n.Name}, Value: n}); err != nil {
		panic(err)
	}
	sched := mb.NewSched(st)
	sched.Scheduled = mb.IPAMOnly
	runner := mb.NewRunner(sched)
	ic := ipam.NewIPAMClient(sched.Client(0), &pools{pool: pool}, noReservations{})
	cidr := cnet.IPNet{IPNet: net.IPNet{IP: ip4(base0), Mask: net.CIDRMask(31, 32)}}
	runner.Start(0, func() {
		for k := 0; k < 2; k++ {
			_, _, _ = ic.ClaimAffinity(ctx, cidr, ipam.AffinityConfig{AffinityType: ipam.AffinityTypeHost, Host: "n0"})
		}
	})
	updates := 0
	for len(runner.Pending()) > 0 {
		c := runner.Step(0, mb.Proceed)
		if _, ok := c.Key.(model.BlockKey); ok && c.Op == "update" {
			updates++
		}
	}
	return updates > 0
}

func main() {
	flag.BoolVar(&modelUnfixed, "model-unfixed", false, "emit cases whose model flags select the behaviour of the unfixed code (debugging aid)")
	n := flag.Int("n", 100, "cases")
	seed := flag.Uint64("seed", 1, "seed")
	mode := flag.String("mode", "mixed", "seq | conc | mixed")
	only := flag.Int("only", -1, "emit only the case with this index (replay)")
	noScripts := flag.Bool("no-scripts", false, "do not start with the scripted witness cases")
	flag.BoolVar(&modelFlipY, "model-flip-y", false, "tell the model the opposite of what the probe of releaseByHandle found (debugging aid)")
	flag.BoolVar(&modelFlip, "model-flip", false, "tell the model the opposite of what the probe of claimAffineBlock found (debugging aid)")
	flag.Parse()
	claimBumps = probeClaimBumps()
	rbhReturns = probeRbhReturns()
	enc := json.NewEncoder(os.Stdout)
	skipped := 0
	for i := 0; i < *n; i++ {
		if *only >= 0 && i != *only {
			continue
		}
		conc := *mode == "conc" || (*mode == "mixed" && i%2 == 1)
		var sc *script
		if i < len(scripts) && !*noScripts {
			c := *scripts[i]
			c.sched = append([]schedEntry(nil), c.sched...)
			sc = &c
		}
		coq, nt, key, sample, tags := runCase(*seed*1000003+uint64(i)*7919, conc && sc == nil, sc)
		if coq == "" {
			skipped++
			continue
		}
		sample["replay_args"] = fmt.Sprintf("-n %d -seed %d -mode %s -only %d", i+1, *seed, *mode, i)
		_ = enc.Encode(line{Coq: coq, NT: nt, Key: key, Sample: sample, Tags: tags})
	}
	_ = enc.Encode(map[string]any{"stats": map[string]any{"skipped_inconsistent_map_order": skipped}})
}
