//go:build verif

// Package membackend is an in-memory compare-and-swap implementation of the calico backend client
// interface (bapi.Client) plus a deterministic scheduler wrapper, written for the /verif harness
// (properties C19, C20, C21, C22, C38).
//
//   - Store: path -> (key, serialised value, revision).  Revisions come from one global counter, so a
//     revision names one write for the whole history.  Create fails with ErrorResourceAlreadyExists
//     when the key exists; Update / Delete(KVP) with a non-empty revision fail with
//     ErrorResourceUpdateConflict when the stored revision differs and ErrorResourceDoesNotExist when the key
//     is absent (same contract as the etcdv3 backend).  Values are deep-copied through the model's own
//     JSON serialisation on every read and write.  List returns entries in "natural" path order (digit
//     runs compare numerically, so 10.0.0.4 sorts before 10.0.0.12).  Watch is not supported.
//   - Sched: hands out per-client bapi.Client views.  Every call on a key selected by Sched.Scheduled
//     parks the calling goroutine until the driver decides what happens to it (Proceed, inject a
//     conflict, crash the client before or after the call).  The driver therefore replays any chosen
//     interleaving one datastore access at a time.
package membackend

import (
	"context"
	"errors"
	"fmt"
	"runtime"
	"sort"
	"strconv"
	"strings"
	"sync"

	bapi "github.com/projectcalico/calico/libcalico-go/lib/backend/api"
	"github.com/projectcalico/calico/libcalico-go/lib/backend/model"
	cerrors "github.com/projectcalico/calico/libcalico-go/lib/errors"
)

type entry struct {
	key  model.Key
	raw  []byte
	rev  uint64
	path string
}

// Store is the shared in-memory datastore.
type Store struct {
	mu      sync.Mutex
	entries map[string]*entry
	rev     uint64
}

func NewStore() *Store { return &Store{entries: map[string]*entry{}, rev: 100} }

func (s *Store) materialise(e *entry) (*model.KVPair, error) {
	v, err := model.ParseValue(e.key, e.raw)
	if err != nil {
		return nil, err
	}
	if h, ok := v.(*model.IPAMHandle); ok {
		if hk, ok := e.key.(model.IPAMHandleKey); ok {
			h.HandleID = hk.HandleID
		}
	}
	return &model.KVPair{Key: e.key, Value: v, Revision: strconv.FormatUint(e.rev, 10)}, nil
}

func parseRev(r string) (uint64, error) {
	if r == "" {
		return 0, errors.New("membackend: revision required")
	}
	return strconv.ParseUint(r, 10, 64)
}

// NaturalLess orders paths so that digit runs compare as numbers.
func NaturalLess(a, b string) bool { return natKey(a) < natKey(b) }

func natKey(p string) string {
	var sb strings.Builder
	i := 0
	for i < len(p) {
		if p[i] >= '0' && p[i] <= '9' {
			j := i
			for j < len(p) && p[j] >= '0' && p[j] <= '9' {
				j++
			}
			for k := j - i; k < 12; k++ {
				sb.WriteByte('0')
			}
			sb.WriteString(p[i:j])
			i = j
		} else {
			sb.WriteByte(p[i])
			i++
		}
	}
	return sb.String()
}

func (s *Store) Create(ctx context.Context, d *model.KVPair) (*model.KVPair, error) {
	path, err := model.KeyToDefaultPath(d.Key)
	if err != nil {
		return nil, err
	}
	raw, err := model.SerializeValue(d)
	if err != nil {
		return nil, err
	}
	s.mu.Lock()
	defer s.mu.Unlock()
	if e, ok := s.entries[path]; ok {
		cur, _ := s.materialise(e)
		return cur, cerrors.ErrorResourceAlreadyExists{Identifier: d.Key}
	}
	s.rev++
	e := &entry{key: d.Key, raw: raw, rev: s.rev, path: path}
	s.entries[path] = e
	return s.materialise(e)
}

func (s *Store) Update(ctx context.Context, d *model.KVPair) (*model.KVPair, error) {
	path, err := model.KeyToDefaultPath(d.Key)
	if err != nil {
		return nil, err
	}
	raw, err := model.SerializeValue(d)
	if err != nil {
		return nil, err
	}
	rev, err := parseRev(d.Revision)
	if err != nil {
		return nil, err
	}
	s.mu.Lock()
	defer s.mu.Unlock()
	e, ok := s.entries[path]
	if !ok {
		return nil, cerrors.ErrorResourceDoesNotExist{Identifier: d.Key}
	}
	if e.rev != rev {
		cur, _ := s.materialise(e)
		return cur, cerrors.ErrorResourceUpdateConflict{Identifier: d.Key}
	}
	s.rev++
	e.raw, e.rev = raw, s.rev
	return s.materialise(e)
}

// Apply = unconditional create-or-update (used only for setup objects such as IPAMConfig and Node).
func (s *Store) Apply(ctx context.Context, d *model.KVPair) (*model.KVPair, error) {
	path, err := model.KeyToDefaultPath(d.Key)
	if err != nil {
		return nil, err
	}
	raw, err := model.SerializeValue(d)
	if err != nil {
		return nil, err
	}
	s.mu.Lock()
	defer s.mu.Unlock()
	s.rev++
	e := &entry{key: d.Key, raw: raw, rev: s.rev, path: path}
	s.entries[path] = e
	return s.materialise(e)
}

func (s *Store) DeleteKVP(ctx context.Context, d *model.KVPair) (*model.KVPair, error) {
	return s.Delete(ctx, d.Key, d.Revision)
}

func (s *Store) Delete(ctx context.Context, k model.Key, revision string) (*model.KVPair, error) {
	path, err := model.KeyToDefaultDeletePath(k)
	if err != nil {
		return nil, err
	}
	s.mu.Lock()
	defer s.mu.Unlock()
	e, ok := s.entries[path]
	if !ok {
		return nil, cerrors.ErrorResourceDoesNotExist{Identifier: k}
	}
	if revision != "" {
		rev, err := parseRev(revision)
		if err != nil {
			return nil, err
		}
		if e.rev != rev {
			cur, _ := s.materialise(e)
			return cur, cerrors.ErrorResourceUpdateConflict{Identifier: k}
		}
	}
	s.rev++
	delete(s.entries, path)
	return s.materialise(e)
}

func (s *Store) Get(ctx context.Context, k model.Key, revision string) (*model.KVPair, error) {
	path, err := model.KeyToDefaultPath(k)
	if err != nil {
		return nil, err
	}
	s.mu.Lock()
	defer s.mu.Unlock()
	e, ok := s.entries[path]
	if !ok {
		return nil, cerrors.ErrorResourceDoesNotExist{Identifier: k}
	}
	return s.materialise(e)
}

func (s *Store) List(ctx context.Context, l model.ListInterface, revision string) (*model.KVPairList, error) {
	root := model.ListOptionsToDefaultPathRoot(l)
	s.mu.Lock()
	defer s.mu.Unlock()
	var paths []string
	for p := range s.entries {
		if strings.HasPrefix(p, root) {
			paths = append(paths, p)
		}
	}
	sort.Slice(paths, func(i, j int) bool { return NaturalLess(paths[i], paths[j]) })
	out := &model.KVPairList{Revision: strconv.FormatUint(s.rev, 10)}
	for _, p := range paths {
		k := l.KeyFromDefaultPath(p)
		if k == nil {
			continue
		}
		kv, err := s.materialise(s.entries[p])
		if err != nil {
			return nil, err
		}
		kv.Key = k
		out.KVPairs = append(out.KVPairs, kv)
	}
	return out, nil
}

func (s *Store) Watch(ctx context.Context, l model.ListInterface, o bapi.WatchOptions) (bapi.WatchInterface, error) {
	return nil, cerrors.ErrorOperationNotSupported{Operation: "Watch", Identifier: l}
}
func (s *Store) EnsureInitialized() error { return nil }
func (s *Store) Clean() error {
	s.mu.Lock()
	defer s.mu.Unlock()
	s.entries = map[string]*entry{}
	return nil
}
func (s *Store) Close() error { return nil }

// Dump returns every entry (natural path order) as freshly parsed KVPairs.
func (s *Store) Dump() []*model.KVPair {
	s.mu.Lock()
	defer s.mu.Unlock()
	var paths []string
	for p := range s.entries {
		paths = append(paths, p)
	}
	sort.Slice(paths, func(i, j int) bool { return NaturalLess(paths[i], paths[j]) })
	var out []*model.KVPair
	for _, p := range paths {
		kv, err := s.materialise(s.entries[p])
		if err == nil {
			out = append(out, kv)
		}
	}
	return out
}

var _ bapi.Client = (*Store)(nil)

// ---------------------------------------------------------------------------------------------
// Scheduler

type Decision int

const (
	Proceed     Decision = iota // execute the call atomically and return its result
	Conflict                    // do not execute; return ErrorResourceUpdateConflict (writes with a revision only)
	CrashBefore                 // the client dies without executing the call
	CrashAfter                  // the call is executed, then the client dies before seeing the result
)

// Call describes one parked datastore access.
type Call struct {
	Client int
	Op     string // get | list | create | update | delete
	Key    model.Key
	List   model.ListInterface
	KVP    *model.KVPair // the object being written (create/update/delete), as passed by the caller
	Raw    []byte        // serialised value of KVP at the moment of the call (create/update)
	Rev    string        // revision carried by the request (update/delete)
	Result string        // filled after execution: ok | notfound | exists | conflict | error
	Out    *model.KVPair // returned object on success (fresh copy)
	OutList *model.KVPairList
	Fault  Decision
}

type parked struct {
	call   *Call
	resume chan Decision
}

// Sched serialises the datastore accesses of several client goroutines.
type Sched struct {
	Store *Store
	// Scheduled says whether an access parks (true) or passes straight through (false).
	Scheduled func(k model.Key, l model.ListInterface) bool
	events    chan schedEvent
}

type schedEvent struct {
	client int
	park   *parked // non-nil: client parked at a call
	done   bool    // client finished (its function returned or it crashed)
}

func NewSched(st *Store) *Sched {
	return &Sched{Store: st, events: make(chan schedEvent, 64), Scheduled: func(model.Key, model.ListInterface) bool { return true }}
}

// IPAMOnly schedules only accesses to IPAM blocks, block affinities and handles; everything else
// (config, nodes) is constant during a run and passes through.
func IPAMOnly(k model.Key, l model.ListInterface) bool {
	switch k.(type) {
	case model.BlockKey, model.BlockAffinityKey, model.IPAMHandleKey:
		return true
	}
	switch l.(type) {
	case model.BlockListOptions, model.BlockAffinityListOptions, model.IPAMHandleListOptions:
		return true
	}
	return false
}

// ClientView is the bapi.Client seen by one client.
type ClientView struct {
	s  *Sched
	id int
}

func (s *Sched) Client(id int) *ClientView { return &ClientView{s: s, id: id} }

func (c *ClientView) gate(call *Call, exec func()) {
	if !c.s.Scheduled(call.Key, call.List) {
		exec()
		return
	}
	if call.KVP != nil {
		call.Rev = call.KVP.Revision
		if call.Op != "delete" {
			call.Raw, _ = model.SerializeValue(call.KVP)
		}
	}
	p := &parked{call: call, resume: make(chan Decision)}
	c.s.events <- schedEvent{client: c.id, park: p}
	d := <-p.resume
	call.Fault = d
	switch d {
	case Proceed:
		exec()
	case Conflict:
		call.Result = "conflict"
	case CrashBefore:
		call.Result = "crashed"
		c.s.events <- schedEvent{client: c.id, done: true}
		runtime.Goexit()
	case CrashAfter:
		exec()
		c.s.events <- schedEvent{client: c.id, done: true}
		runtime.Goexit()
	}
}

func classify(err error) string {
	if err == nil {
		return "ok"
	}
	switch err.(type) {
	case cerrors.ErrorResourceDoesNotExist:
		return "notfound"
	case cerrors.ErrorResourceAlreadyExists:
		return "exists"
	case cerrors.ErrorResourceUpdateConflict:
		return "conflict"
	}
	return "error"
}

func (c *ClientView) Create(ctx context.Context, d *model.KVPair) (out *model.KVPair, err error) {
	call := &Call{Client: c.id, Op: "create", Key: d.Key, KVP: d}
	c.gate(call, func() { out, err = c.s.Store.Create(ctx, d); call.Result = classify(err); call.Out = out })
	if call.Fault == Conflict {
		return nil, cerrors.ErrorResourceUpdateConflict{Identifier: d.Key, Err: errors.New("injected")}
	}
	return
}

func (c *ClientView) Update(ctx context.Context, d *model.KVPair) (out *model.KVPair, err error) {
	call := &Call{Client: c.id, Op: "update", Key: d.Key, KVP: d}
	c.gate(call, func() { out, err = c.s.Store.Update(ctx, d); call.Result = classify(err); call.Out = out })
	if call.Fault == Conflict {
		return nil, cerrors.ErrorResourceUpdateConflict{Identifier: d.Key, Err: errors.New("injected")}
	}
	return
}

func (c *ClientView) Apply(ctx context.Context, d *model.KVPair) (*model.KVPair, error) {
	return c.s.Store.Apply(ctx, d)
}

func (c *ClientView) DeleteKVP(ctx context.Context, d *model.KVPair) (out *model.KVPair, err error) {
	call := &Call{Client: c.id, Op: "delete", Key: d.Key, KVP: d}
	c.gate(call, func() { out, err = c.s.Store.DeleteKVP(ctx, d); call.Result = classify(err); call.Out = out })
	if call.Fault == Conflict {
		return nil, cerrors.ErrorResourceUpdateConflict{Identifier: d.Key, Err: errors.New("injected")}
	}
	return
}

func (c *ClientView) Delete(ctx context.Context, k model.Key, rev string) (out *model.KVPair, err error) {
	return c.DeleteKVP(ctx, &model.KVPair{Key: k, Revision: rev})
}

func (c *ClientView) Get(ctx context.Context, k model.Key, rev string) (out *model.KVPair, err error) {
	call := &Call{Client: c.id, Op: "get", Key: k}
	c.gate(call, func() { out, err = c.s.Store.Get(ctx, k, rev); call.Result = classify(err); call.Out = out })
	return
}

func (c *ClientView) List(ctx context.Context, l model.ListInterface, rev string) (out *model.KVPairList, err error) {
	call := &Call{Client: c.id, Op: "list", List: l}
	c.gate(call, func() { out, err = c.s.Store.List(ctx, l, rev); call.Result = classify(err); call.OutList = out })
	return
}

func (c *ClientView) Watch(ctx context.Context, l model.ListInterface, o bapi.WatchOptions) (bapi.WatchInterface, error) {
	return c.s.Store.Watch(ctx, l, o)
}
func (c *ClientView) EnsureInitialized() error { return nil }
func (c *ClientView) Clean() error             { return c.s.Store.Clean() }
func (c *ClientView) Close() error             { return nil }

var _ bapi.Client = (*ClientView)(nil)

// Runner drives client goroutines one datastore access at a time.
type Runner struct {
	S       *Sched
	pending map[int]*parked // clients parked at a call
	running map[int]bool    // clients whose goroutine is alive
}

func NewRunner(s *Sched) *Runner {
	return &Runner{S: s, pending: map[int]*parked{}, running: map[int]bool{}}
}

// Start launches fn as client id and waits until it parks at its first scheduled access or finishes.
// fn must perform all datastore accesses through S.Client(id).
func (r *Runner) Start(id int, fn func()) {
	r.running[id] = true
	go func() {
		finished := false
		defer func() {
			if !finished {
				return // Goexit path: the crash already reported done
			}
		}()
		fn()
		finished = true
		r.S.events <- schedEvent{client: id, done: true}
	}()
	r.waitFor(id)
}

func (r *Runner) waitFor(id int) {
	for {
		ev := <-r.S.events
		if ev.done {
			delete(r.running, ev.client)
			delete(r.pending, ev.client)
		} else {
			r.pending[ev.client] = ev.park
		}
		if ev.client == id {
			return
		}
	}
}

// Pending returns the ids of clients parked at a call, ascending.
func (r *Runner) Pending() []int {
	var ids []int
	for id := range r.pending {
		ids = append(ids, id)
	}
	sort.Ints(ids)
	return ids
}

// Peek returns the call client id is parked at.
func (r *Runner) Peek(id int) *Call { return r.pending[id].call }

// Alive reports whether the goroutine of client id is still running (parked or not).
func (r *Runner) Alive(id int) bool { return r.running[id] }

// Step lets client id perform the access it is parked at with the given decision, and waits until the
// client parks again or finishes.  It returns the completed call record.
func (r *Runner) Step(id int, d Decision) *Call {
	p, ok := r.pending[id]
	if !ok {
		panic(fmt.Sprintf("membackend: client %d is not parked", id))
	}
	delete(r.pending, id)
	p.resume <- d
	r.waitFor(id)
	return p.call
}
