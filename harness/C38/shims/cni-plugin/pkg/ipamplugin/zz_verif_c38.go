//go:build verif

// C38 add-only seam for the calico-ipam CNI plugin.
//
// cmdAdd / cmdDel construct their datastore client with utils.CreateClient(conf); there is no variable or
// parameter in the pinned tree through which a client can be injected.  The check therefore regenerates, on
// every run, zz_verif_c38_gen.go from the tree's ipam_plugin.go (harness/C38/gen/gen.go): verifCmdAdd /
// verifCmdDel are cmdAdd / cmdDel verbatim except that the single call utils.CreateClient(conf) is replaced by
// verifCreateClient(conf) below.  Nothing else of the plugin is copied or re-implemented here.
package ipamplugin

import (
	"errors"

	"github.com/containernetworking/cni/pkg/skel"

	"github.com/projectcalico/calico/cni-plugin/internal/pkg/utils"
	"github.com/projectcalico/calico/cni-plugin/pkg/types"
	client "github.com/projectcalico/calico/libcalico-go/lib/clientv3"
)

// VerifClient is the client handed to the plugin code by verifCreateClient (set by the driver).
var VerifClient client.Interface

// VerifCreateClientCalls counts constructor calls (one per ADD/DEL expected).
var VerifCreateClientCalls int

func verifCreateClient(conf types.NetConf) (client.Interface, error) {
	VerifCreateClientCalls++
	// Same first step as utils.CreateClient.
	if err := utils.ValidateNetworkName(conf.Name); err != nil {
		return nil, err
	}
	if VerifClient == nil {
		return nil, errors.New("verif: no client injected")
	}
	return VerifClient, nil
}

// VerifCmdAdd / VerifCmdDel run the tree's cmdAdd / cmdDel bodies (see the generated file).
func VerifCmdAdd(args *skel.CmdArgs) error { return verifCmdAdd(args) }
func VerifCmdDel(args *skel.CmdArgs) error { return verifCmdDel(args) }

// VerifIPAMUpgradedFilePath is the marker file consulted by maybeUpgradeIPAM.
const VerifIPAMUpgradedFilePath = ipamUpgradedFilePath
