//go:build verif

// C38 correspondence driver.
//
// Runs the tree's cmdAdd / cmdDel (cni-plugin/pkg/ipamplugin; through the generated seam verifCmdAdd / verifCmdDel,
// see harness/C38/gen/gen.go) against the REAL libcalico-go IPAM client over the in-memory compare-and-swap backend
// of C19, wrapped by a failure injector.  Every IPAM call the plugin makes is recorded (call, arguments, whether
// the host-wide IPAM lock was held, what the plugin got back, and the effect on the datastore as the difference of
// the allocation table before/after the call); after every ADD/DEL the whole allocation table (address -> handle,
// read from the stored blocks) is dumped.  One JSON line per case carries all of it as a Coq term.
package main

import (
	"context"
	"encoding/json"
	"errors"
	"flag"
	"fmt"
	"io"
	"math/big"
	"net"
	"os"
	"path/filepath"
	"regexp"
	"sort"
	"strings"
	"syscall"

	"github.com/containernetworking/cni/pkg/skel"
	"github.com/gofrs/flock"
	v3 "github.com/projectcalico/api/pkg/apis/projectcalico/v3"
	"github.com/sirupsen/logrus"
	metav1 "k8s.io/apimachinery/pkg/apis/meta/v1"

	"github.com/projectcalico/calico/cni-plugin/pkg/ipamplugin"
	"github.com/projectcalico/calico/libcalico-go/lib/apiconfig"
	"github.com/projectcalico/calico/libcalico-go/lib/apis/internalapi"
	bapi "github.com/projectcalico/calico/libcalico-go/lib/backend/api"
	"github.com/projectcalico/calico/libcalico-go/lib/backend/model"
	client "github.com/projectcalico/calico/libcalico-go/lib/clientv3"
	cerrors "github.com/projectcalico/calico/libcalico-go/lib/errors"
	"github.com/projectcalico/calico/libcalico-go/lib/ipam"
	cnet "github.com/projectcalico/calico/libcalico-go/lib/net"
	"github.com/projectcalico/calico/libcalico-go/lib/options"
	mb "github.com/projectcalico/calico/zz_verif/c19/membackend"
)

type rng struct{ s uint64 }

func (r *rng) next() uint64 {
	r.s += 0x9e3779b97f4a7c15
	z := r.s
	z = (z ^ (z >> 30)) * 0xbf58476d1ce4e5b9
	z = (z ^ (z >> 27)) * 0x94d049bb133111eb
	return z ^ (z >> 31)
}
func (r *rng) intn(n int) int    { return int(r.next() % uint64(n)) }
func (r *rng) chance(p int) bool { return r.intn(100) < p }

// ---------------------------------------------------------------- addresses
type addr struct {
	v6 bool
	n  *big.Int
}

func addrOfIP(ip net.IP) addr {
	if v4 := ip.To4(); v4 != nil {
		return addr{false, new(big.Int).SetBytes(v4)}
	}
	return addr{true, new(big.Int).SetBytes(ip.To16())}
}
func (a addr) ip() net.IP {
	if a.v6 {
		b := make([]byte, 16)
		a.n.FillBytes(b)
		return net.IP(b)
	}
	b := make([]byte, 4)
	a.n.FillBytes(b)
	return net.IP(b)
}
func (a addr) coq() string {
	if a.v6 {
		return fmt.Sprintf("(V6 %s%%N)", a.n.String())
	}
	return fmt.Sprintf("(V4 %s%%N)", a.n.String())
}
func (a addr) String() string { return a.ip().String() }
func (a addr) less(b addr) bool {
	if a.v6 != b.v6 {
		return !a.v6
	}
	return a.n.Cmp(b.n) < 0
}
func (a addr) eq(b addr) bool { return a.v6 == b.v6 && a.n.Cmp(b.n) == 0 }

type pair struct {
	a addr
	h string
}

var knownNames = map[string]bool{"<nil>": true, "<none>": true, "cid0": true, "cid1": true, "cid2": true, "default": true, "default.pod0": true, "default.pod1": true, "k8s-pod-network": true, "k8s-pod-network.cid0": true, "k8s-pod-network.cid1": true, "k8s-pod-network.cid2": true, "k8s-pod-network.default.pod0": true, "n.x": true, "n.x.cid0": true, "n.x.cid1": true, "n.x.cid2": true, "n.x.default.pod0": true, "net1": true, "net1.cid0": true, "net1.cid1": true, "net1.cid2": true, "net1.default.pod0": true, "node1": true, "ns1": true, "ns1.pod0": true, "ns1.pod1": true, "other-net.other-cid": true, "pod0": true, "pod1": true}

var identRe = regexp.MustCompile(`[^A-Za-z0-9]`)

// coqStr: the constants of coq/theories/C38/Names.v for the strings of the generator's universe, a literal otherwise
func coqStr(s string) string {
	if knownNames[s] {
		return "N_" + identRe.ReplaceAllString(s, "_")
	}
	return "\"" + strings.ReplaceAll(s, "\"", "\"\"") + "\"%string"
}
func coqPairs(ps []pair) string {
	xs := make([]string, len(ps))
	for i, p := range ps {
		xs[i] = fmt.Sprintf("(%s, %s)", p.a.coq(), coqStr(p.h))
	}
	return "[" + strings.Join(xs, "; ") + "]"
}
func coqAddrs(as []addr) string {
	xs := make([]string, len(as))
	for i, a := range as {
		xs[i] = a.coq()
	}
	return "[" + strings.Join(xs, "; ") + "]"
}
func strPairs(ps []pair) string {
	xs := make([]string, len(ps))
	for i, p := range ps {
		xs[i] = p.a.String() + "@" + p.h
	}
	return "{" + strings.Join(xs, " ") + "}"
}

// per-case registry: block CIDR -> small index, and the block of every address ever seen allocated
var blkIndex = map[string]int{}
var addrBlk = map[string]int{}
var addrSeen []addr

func blockIdx(cidr string) int {
	if i, ok := blkIndex[cidr]; ok {
		return i
	}
	i := len(blkIndex)
	blkIndex[cidr] = i
	return i
}
func resetBlocks() { blkIndex, addrBlk, addrSeen = map[string]int{}, map[string]int{}, nil }
func coqBlkMap() string {
	xs := make([]string, len(addrSeen))
	for i, a := range addrSeen {
		xs[i] = fmt.Sprintf("(%s, %d%%N)", a.coq(), addrBlk[a.coq()])
	}
	return "[" + strings.Join(xs, "; ") + "]"
}

// dumpHandles reads the IPAMHandle objects: handle -> block -> count, as a Coq term and as text.
func dumpHandles(st *mb.Store) (string, string) {
	var cs, ts []string
	for _, kv := range st.Dump() {
		hk, ok := kv.Key.(model.IPAMHandleKey)
		if !ok {
			continue
		}
		hv := kv.Value.(*model.IPAMHandle)
		var cidrs []string
		for c := range hv.Block {
			cidrs = append(cidrs, c)
		}
		sort.Strings(cidrs)
		var bs, bt []string
		for _, c := range cidrs {
			bs = append(bs, fmt.Sprintf("(%d%%N, %d%%nat)", blockIdx(c), hv.Block[c]))
			bt = append(bt, fmt.Sprintf("%s:%d", c, hv.Block[c]))
		}
		cs = append(cs, fmt.Sprintf("(%s, [%s])", coqStr(hk.HandleID), strings.Join(bs, "; ")))
		ts = append(ts, hk.HandleID+"{"+strings.Join(bt, " ")+"}")
	}
	return "[" + strings.Join(cs, "; ") + "]", strings.Join(ts, " ")
}

// dumpAlloc reads the allocation table out of the stored blocks: every allocated ordinal with a handle.
func dumpAlloc(st *mb.Store) []pair {
	var out []pair
	for _, kv := range st.Dump() {
		if _, ok := kv.Key.(model.BlockKey); !ok {
			continue
		}
		b := kv.Value.(*model.AllocationBlock)
		for ord, ai := range b.Allocations {
			if ai == nil {
				continue
			}
			h := "<none>"
			if *ai >= 0 && *ai < len(b.Attributes) {
				at := b.Attributes[*ai]
				if at.ReleasedAt != nil {
					continue
				}
				if at.HandleID != nil {
					h = *at.HandleID
				}
			}
			a := addrOfIP(b.OrdinalToIP(ord).IP)
			if _, ok := addrBlk[a.coq()]; !ok {
				addrBlk[a.coq()] = blockIdx(kv.Key.(model.BlockKey).CIDR.String())
				addrSeen = append(addrSeen, a)
			}
			out = append(out, pair{a, h})
		}
	}
	sort.Slice(out, func(i, j int) bool { return out[i].a.less(out[j].a) })
	return out
}

func diff(before, after []pair) (added, removed []pair) {
	in := func(p pair, l []pair) bool {
		for _, q := range l {
			if q.a.eq(p.a) && q.h == p.h {
				return true
			}
		}
		return false
	}
	for _, p := range after {
		if !in(p, before) {
			added = append(added, p)
		}
	}
	for _, p := range before {
		if !in(p, after) {
			removed = append(removed, p)
		}
	}
	return
}

// ---------------------------------------------------------------- fakes
type pools struct{ v4, v6 []v3.IPPool }

func (p *pools) GetEnabledPools(ctx context.Context, ipVersion int) ([]v3.IPPool, error) {
	if ipVersion == 4 {
		return p.v4, nil
	}
	return p.v6, nil
}
func (p *pools) GetAllPools(ctx context.Context) ([]v3.IPPool, error) {
	return append(append([]v3.IPPool{}, p.v4...), p.v6...), nil
}

type noReservations struct{}

func (noReservations) List(ctx context.Context, opts options.ListOptions) (*v3.IPReservationList, error) {
	return &v3.IPReservationList{}, nil
}

// faultyBackend fails one chosen datastore access BEFORE it reaches the store (the request is lost, not the reply).
type faultyBackend struct {
	*mb.Store
	armed int // 0 = off; k = fail the k-th access from now
	fired bool
}

func (f *faultyBackend) hit() error {
	if f.armed > 0 {
		f.armed--
		if f.armed == 0 {
			f.fired = true
			return cerrors.ErrorDatastoreError{Err: errors.New("verif: injected datastore failure")}
		}
	}
	return nil
}
func (f *faultyBackend) Create(ctx context.Context, d *model.KVPair) (*model.KVPair, error) {
	if err := f.hit(); err != nil {
		return nil, err
	}
	return f.Store.Create(ctx, d)
}
func (f *faultyBackend) Update(ctx context.Context, d *model.KVPair) (*model.KVPair, error) {
	if err := f.hit(); err != nil {
		return nil, err
	}
	return f.Store.Update(ctx, d)
}
func (f *faultyBackend) Apply(ctx context.Context, d *model.KVPair) (*model.KVPair, error) {
	if err := f.hit(); err != nil {
		return nil, err
	}
	return f.Store.Apply(ctx, d)
}
func (f *faultyBackend) DeleteKVP(ctx context.Context, d *model.KVPair) (*model.KVPair, error) {
	if err := f.hit(); err != nil {
		return nil, err
	}
	return f.Store.DeleteKVP(ctx, d)
}
func (f *faultyBackend) Delete(ctx context.Context, k model.Key, rev string) (*model.KVPair, error) {
	if err := f.hit(); err != nil {
		return nil, err
	}
	return f.Store.Delete(ctx, k, rev)
}
func (f *faultyBackend) Get(ctx context.Context, k model.Key, rev string) (*model.KVPair, error) {
	if err := f.hit(); err != nil {
		return nil, err
	}
	return f.Store.Get(ctx, k, rev)
}
func (f *faultyBackend) List(ctx context.Context, l model.ListInterface, rev string) (*model.KVPairList, error) {
	if err := f.hit(); err != nil {
		return nil, err
	}
	return f.Store.List(ctx, l, rev)
}

var _ bapi.Client = (*faultyBackend)(nil)

// ---------------------------------------------------------------- the injector
type callRec struct {
	coqCall string
	text    string
	held    bool
	argsok  bool
	errk    string // ENone | ENotFound | EOther
	r4, r6  *[]addr
	added   []pair
	removed []pair
	fault   string
}

type injector struct {
	ipam.Interface
	w     *world
	calls []callRec
	n     int // IPAM calls so far in this case
}

type world struct {
	r        *rng
	store    *mb.Store
	fb       *faultyBackend
	real     ipam.Interface
	inj      *injector
	lockPath string
	node     string
	rate     int // fault probability per IPAM call (percent)
	k8sAttrs *container
	faults   int
	tags     map[string]bool
}

func (w *world) lockHeld() bool {
	fl := flock.New(w.lockPath)
	ok, err := fl.TryLock()
	if err != nil {
		return false
	}
	if ok {
		_ = fl.Unlock()
		return false
	}
	return true
}

func errKind(err error) string {
	if err == nil {
		return "ENone"
	}
	if _, ok := err.(cerrors.ErrorResourceDoesNotExist); ok {
		return "ENotFound"
	}
	return "EOther"
}

func (j *injector) injected(r *rng) error {
	switch r.intn(3) {
	case 0:
		return errors.New("verif: injected IPAM failure")
	case 1:
		return context.DeadlineExceeded
	default:
		return cerrors.ErrorDatastoreError{Err: errors.New("verif: injected")}
	}
}

// pick decides what happens to the next IPAM call.
func (j *injector) pick(kinds ...string) string {
	w := j.w
	if !w.r.chance(w.rate) {
		return "none"
	}
	w.faults++
	k := kinds[w.r.intn(len(kinds))]
	w.tags["fault:"+k] = true
	return k
}

func (j *injector) begin() ([]pair, bool) {
	j.n++
	return dumpAlloc(j.w.store), j.w.lockHeld()
}

func (j *injector) end(rec callRec, before []pair, err error) {
	j.w.fb.armed = 0
	rec.errk = errKind(err)
	rec.added, rec.removed = diff(before, dumpAlloc(j.w.store))
	j.calls = append(j.calls, rec)
}

func (j *injector) attrsOK(attrs map[string]string) bool {
	w := j.w
	if attrs[ipam.AttributeNode] != w.node {
		return false
	}
	if c := w.k8sAttrs; c != nil && c.k8s {
		return attrs[ipam.AttributePod] == c.pod && attrs[ipam.AttributeNamespace] == c.ns
	}
	_, hasPod := attrs[ipam.AttributePod]
	return !hasPod
}

func toAddrs(ia *ipam.IPAMAssignments) *[]addr {
	if ia == nil {
		return nil
	}
	out := []addr{}
	for _, n := range ia.IPs {
		out = append(out, addrOfIP(n.IP))
	}
	return &out
}

func (j *injector) AutoAssign(ctx context.Context, args ipam.AutoAssignArgs) (*ipam.IPAMAssignments, *ipam.IPAMAssignments, error) {
	before, held := j.begin()
	h := "<nil>"
	if args.HandleID != nil {
		h = *args.HandleID
	}
	rec := callRec{held: held,
		coqCall: fmt.Sprintf("(CAuto %s %d%%nat %d%%nat)", coqStr(h), args.Num4, args.Num6),
		text:    fmt.Sprintf("AutoAssign(%s,%d,%d)", h, args.Num4, args.Num6)}
	rec.argsok = args.Hostname == j.w.node && args.IntendedUse == v3.IPPoolAllowedUseWorkload &&
		args.MaxAllocToHandlePerIPVersion == 0 && args.MaxBlocksPerHost == 0 && args.HostReservedAttrIPv4s == nil &&
		j.attrsOK(args.Attrs) && ctx.Err() == nil
	kinds := []string{"before", "after", "backend"}
	if args.Num4 > 0 && args.Num6 > 0 {
		kinds = append(kinds, "v6err", "short4", "short6", "short4", "short6")
	} else if args.Num4 > 0 {
		kinds = append(kinds, "short4")
	} else if args.Num6 > 0 {
		kinds = append(kinds, "short6")
	}
	var v4, v6 *ipam.IPAMAssignments
	var err error
	f := j.pick(kinds...)
	rec.fault = f
	switch f {
	case "before":
		err = j.injected(j.w.r)
	case "after":
		_, _, _ = j.w.real.AutoAssign(ctx, args)
		v4, v6, err = nil, nil, j.injected(j.w.r)
	case "v6err":
		// what the library does when the second family fails: the first family's assignment comes back with the error
		a := args
		a.Num6 = 0
		v4, _, err = j.w.real.AutoAssign(ctx, a)
		if err == nil {
			err = j.injected(j.w.r)
		}
	case "short4":
		// a family comes back empty without an error (what an exhausted pool looks like to the plugin)
		a := args
		a.Num4 = 0
		_, v6, err = j.w.real.AutoAssign(ctx, a)
		if err == nil {
			v4 = &ipam.IPAMAssignments{IPVersion: 4, NumRequested: args.Num4}
		}
	case "short6":
		a := args
		a.Num6 = 0
		v4, _, err = j.w.real.AutoAssign(ctx, a)
		if err == nil {
			v6 = &ipam.IPAMAssignments{IPVersion: 6, NumRequested: args.Num6}
		}
	case "backend":
		j.w.fb.armed = 1 + j.w.r.intn(8)
		v4, v6, err = j.w.real.AutoAssign(ctx, args)
	default:
		v4, v6, err = j.w.real.AutoAssign(ctx, args)
	}
	rec.r4, rec.r6 = toAddrs(v4), toAddrs(v6)
	j.end(rec, before, err)
	return v4, v6, err
}

func (j *injector) AssignIP(ctx context.Context, args ipam.AssignIPArgs) error {
	before, held := j.begin()
	h := "<nil>"
	if args.HandleID != nil {
		h = *args.HandleID
	}
	a := addrOfIP(args.IP.IP)
	rec := callRec{held: held, coqCall: fmt.Sprintf("(CAssign %s %s)", a.coq(), coqStr(h)), text: fmt.Sprintf("AssignIP(%s,%s)", a, h)}
	rec.argsok = args.Hostname == j.w.node && args.IntendedUse == v3.IPPoolAllowedUseWorkload &&
		args.MaxAllocToHandlePerIPVersion == 0 && j.attrsOK(args.Attrs) && ctx.Err() == nil
	var err error
	f := j.pick("before", "after", "backend")
	rec.fault = f
	switch f {
	case "before":
		err = j.injected(j.w.r)
	case "after":
		_ = j.w.real.AssignIP(ctx, args)
		err = j.injected(j.w.r)
	case "backend":
		j.w.fb.armed = 1 + j.w.r.intn(8)
		err = j.w.real.AssignIP(ctx, args)
	default:
		err = j.w.real.AssignIP(ctx, args)
	}
	j.end(rec, before, err)
	return err
}

func (j *injector) ReleaseIPs(ctx context.Context, ips ...ipam.ReleaseOptions) ([]cnet.IP, []ipam.ReleaseOptions, error) {
	before, held := j.begin()
	var as []addr
	ok := ctx.Err() == nil
	for _, o := range ips {
		ip := net.ParseIP(o.Address)
		if ip == nil {
			ok = false
			continue
		}
		as = append(as, addrOfIP(ip))
		if o.Handle != "" || o.SequenceNumber != nil {
			ok = false
		}
	}
	rec := callRec{held: held, argsok: ok, coqCall: fmt.Sprintf("(CRelIPs %s)", coqAddrs(as)), text: fmt.Sprintf("ReleaseIPs(%v)", as)}
	var un []cnet.IP
	var rl []ipam.ReleaseOptions
	var err error
	f := j.pick("before", "after", "backend")
	rec.fault = f
	switch f {
	case "before":
		err = j.injected(j.w.r)
	case "after":
		_, _, _ = j.w.real.ReleaseIPs(ctx, ips...)
		err = j.injected(j.w.r)
	case "backend":
		j.w.fb.armed = 1 + j.w.r.intn(6)
		un, rl, err = j.w.real.ReleaseIPs(ctx, ips...)
	default:
		un, rl, err = j.w.real.ReleaseIPs(ctx, ips...)
	}
	j.end(rec, before, err)
	return un, rl, err
}

func (j *injector) ReleaseByHandle(ctx context.Context, handleID string) error {
	before, held := j.begin()
	rec := callRec{held: held, argsok: ctx.Err() == nil, coqCall: fmt.Sprintf("(CRelH %s)", coqStr(handleID)), text: fmt.Sprintf("ReleaseByHandle(%s)", handleID)}
	var err error
	f := j.pick("before", "after", "backend", "partial")
	rec.fault = f
	switch f {
	case "before":
		err = j.injected(j.w.r)
	case "after":
		_ = j.w.real.ReleaseByHandle(ctx, handleID)
		err = j.injected(j.w.r)
	case "partial":
		// some of the handle's addresses are released, then the call fails (what happens when the handle spans
		// several blocks and a later block cannot be written)
		ips, _ := j.w.real.IPsByHandle(ctx, handleID)
		if len(ips) > 0 {
			_, _, _ = j.w.real.ReleaseIPs(ctx, ipam.ReleaseOptions{Address: ips[0].String(), Handle: handleID})
		}
		err = j.injected(j.w.r)
	case "backend":
		j.w.fb.armed = 1 + j.w.r.intn(8)
		err = j.w.real.ReleaseByHandle(ctx, handleID)
	default:
		err = j.w.real.ReleaseByHandle(ctx, handleID)
	}
	j.end(rec, before, err)
	return err
}

func (j *injector) UpgradeHost(ctx context.Context, nodeName string) error {
	before, held := j.begin()
	rec := callRec{held: held, argsok: ctx.Err() == nil, coqCall: fmt.Sprintf("(CUpgrade %s)", coqStr(nodeName)), text: fmt.Sprintf("UpgradeHost(%s)", nodeName)}
	var err error
	f := j.pick("before", "after")
	rec.fault = f
	switch f {
	case "before":
		err = j.injected(j.w.r)
	case "after":
		_ = j.w.real.UpgradeHost(ctx, nodeName)
		err = j.injected(j.w.r)
	default:
		err = j.w.real.UpgradeHost(ctx, nodeName)
	}
	j.end(rec, before, err)
	return err
}

// Calls the modelled (non-KubeVirt) paths never make: recorded so that the model comparison fails loudly.
func (j *injector) other(name string) {
	before, held := j.begin()
	j.end(callRec{held: held, coqCall: fmt.Sprintf("(COther %s)", coqStr(name)), text: name, fault: "none"}, before, nil)
}
func (j *injector) IPsByHandle(ctx context.Context, handleID string) ([]cnet.IP, error) {
	j.other("IPsByHandle")
	return j.w.real.IPsByHandle(ctx, handleID)
}
func (j *injector) GetAssignmentAttributes(ctx context.Context, a cnet.IP) (*model.AllocationAttribute, error) {
	j.other("GetAssignmentAttributes")
	return j.w.real.GetAssignmentAttributes(ctx, a)
}
func (j *injector) SetOwnerAttributes(ctx context.Context, ip cnet.IP, handleID string, u *ipam.OwnerAttributeUpdates, p *ipam.OwnerAttributePreconditions) error {
	j.other("SetOwnerAttributes")
	return j.w.real.SetOwnerAttributes(ctx, ip, handleID, u, p)
}

// verifClient is a clientv3.Interface over the in-memory backend whose IPAM() is the injector.
type verifClient struct {
	client.Interface
	inj *injector
}

func (c verifClient) IPAM() ipam.Interface { return c.inj }

// ---------------------------------------------------------------- case description
type container struct {
	cid     string
	k8s     bool
	ns, pod string
}

func (c container) primary(netname string) string { return netname + "." + c.cid }
func (c container) legacy() string {
	if c.k8s {
		return c.ns + "." + c.pod
	}
	return c.cid
}
func (c container) coq(netname string) string {
	k := "None"
	if c.k8s {
		k = fmt.Sprintf("(Some (%s, %s))", coqStr(c.ns), coqStr(c.pod))
	}
	return fmt.Sprintf("(Build_container %s %s %s)", coqStr(netname), coqStr(c.cid), k)
}

type request struct {
	ip     *addr
	a4, a6 string // "", "true", "false"
}

func tri(s string) string {
	switch s {
	case "true":
		return "(Some true)"
	case "false":
		return "(Some false)"
	}
	return "None"
}
func (q request) coq() string {
	if q.ip != nil {
		return fmt.Sprintf("(RIP %s)", q.ip.coq())
	}
	return fmt.Sprintf("(RAuto %s %s)", tri(q.a4), tri(q.a6))
}
func (q request) String() string {
	if q.ip != nil {
		return "IP=" + q.ip.String()
	}
	return fmt.Sprintf("auto(v4=%q,v6=%q)", q.a4, q.a6)
}

type line struct {
	Coq    string         `json:"coq"`
	NT     bool           `json:"nt"`
	Key    string         `json:"key"`
	Sample map[string]any `json:"sample,omitempty"`
	Tags   []string       `json:"tags"`
}

// captureStdout runs f with os.Stdout redirected to a pipe (cmdAdd prints the CNI result there).
func captureStdout(f func() error) (string, error) {
	old := os.Stdout
	rd, wr, err := os.Pipe()
	if err != nil {
		panic(err)
	}
	os.Stdout = wr
	done := make(chan string)
	go func() {
		b, _ := io.ReadAll(rd)
		done <- string(b)
	}()
	ferr := f()
	os.Stdout = old
	_ = wr.Close()
	out := <-done
	_ = rd.Close()
	return out, ferr
}

// canMarker: the fixed marker path is writable for this process (it is when the check runs as root); otherwise
// the marker is left as found and requested-address ADDs are generated only when it already exists.
var canMarker = true

func setMarker(present bool) {
	if !canMarker {
		return
	}
	p := ipamplugin.VerifIPAMUpgradedFilePath
	if present {
		if err := os.MkdirAll(filepath.Dir(p), 0o755); err != nil {
			canMarker = false
			return
		}
		f, err := os.Create(p)
		if err != nil {
			canMarker = false
			return
		}
		_ = f.Close()
	} else {
		_ = os.Remove(p)
	}
}
func markerPresent() bool {
	_, err := os.Stat(ipamplugin.VerifIPAMUpgradedFilePath)
	return err == nil
}

type poolCfg struct {
	cidr  string
	block int
}

var v4Pools = []poolCfg{{"10.0.0.0/29", 30}, {"10.0.0.0/30", 30}, {"10.0.0.0/31", 31}, {"10.0.0.0/28", 30}}
var v6Pools = []poolCfg{{"fd00::/125", 126}, {"fd00::/126", 126}, {"fd00::/127", 127}}

func mkPool(name string, p poolCfg) v3.IPPool {
	auto := v3.Automatic
	return v3.IPPool{ObjectMeta: metav1.ObjectMeta{Name: name}, Spec: v3.IPPoolSpec{
		CIDR: p.cidr, BlockSize: p.block,
		AllowedUses:    []v3.IPPoolAllowedUse{v3.IPPoolAllowedUseWorkload, v3.IPPoolAllowedUseTunnel},
		AssignmentMode: &auto,
	}}
}

func randAddrIn(r *rng, cidr string, span int) addr {
	_, n, _ := net.ParseCIDR(cidr)
	a := addrOfIP(n.IP)
	a.n = new(big.Int).Add(a.n, big.NewInt(int64(r.intn(span))))
	return a
}

func runCase(r *rng, idx int, tmp string, enc *json.Encoder, scripted int) {
	ctx := context.Background()
	resetBlocks()
	w := &world{r: r, node: "node1", tags: map[string]bool{}}
	w.lockPath = filepath.Join(tmp, "ipam.lock")
	w.store = mb.NewStore()
	w.fb = &faultyBackend{Store: w.store}
	n := internalapi.NewNode()
	n.Name = w.node
	if _, err := w.store.Apply(ctx, &model.KVPair{Key: model.ResourceKey{Kind: internalapi.KindNode, Name: n.Name}, Value: n}); err != nil {
		panic(err)
	}
	// pools
	pa := &pools{}
	var p4, p6 *poolCfg
	if !r.chance(8) {
		p := v4Pools[r.intn(len(v4Pools))]
		p4 = &p
		pa.v4 = []v3.IPPool{mkPool("pool4", p)}
	}
	if !r.chance(25) {
		p := v6Pools[r.intn(len(v6Pools))]
		p6 = &p
		pa.v6 = []v3.IPPool{mkPool("pool6", p)}
	}
	w.real = ipam.NewIPAMClient(w.fb, pa, noReservations{})
	w.inj = &injector{Interface: w.real, w: w}
	w.rate = []int{0, 10, 25, 45}[r.intn(4)]
	ipamplugin.VerifClient = verifClient{Interface: client.NewFromBackend(apiconfig.CalicoAPIConfig{}, w.fb), inj: w.inj}

	netname := []string{"net1", "k8s-pod-network", "n.x"}[r.intn(3)]
	// containers
	var cs []container
	nc := 1 + r.intn(3)
	for i := 0; i < nc; i++ {
		c := container{cid: fmt.Sprintf("cid%d", i)}
		if r.chance(60) {
			c.k8s = true
			c.ns = []string{"default", "ns1"}[r.intn(2)]
			c.pod = fmt.Sprintf("pod%d", r.intn(2)) // containers may share a pod (sandbox re-creation)
		} else if r.chance(20) {
			c.cid = "default.pod0" // a non-Kubernetes container id that looks like a workload id
		}
		cs = append(cs, c)
	}
	// initial allocations: legacy (v2.x style) handles of the containers, and an unrelated handle
	freeSpan := func(p *poolCfg) int {
		_, n, _ := net.ParseCIDR(p.cidr)
		ones, bits := n.Mask.Size()
		return 1 << uint(bits-ones)
	}
	pre := func(h string) {
		var a addr
		if p4 != nil && (p6 == nil || r.chance(70)) {
			a = randAddrIn(r, p4.cidr, freeSpan(p4))
		} else if p6 != nil {
			a = randAddrIn(r, p6.cidr, freeSpan(p6))
		} else {
			return
		}
		hh := h
		_ = w.real.AssignIP(ctx, ipam.AssignIPArgs{IP: cnet.IP{IP: a.ip()}, HandleID: &hh, Hostname: w.node,
			IntendedUse: v3.IPPoolAllowedUseWorkload, Attrs: map[string]string{ipam.AttributeNode: w.node}})
	}
	if r.chance(35) {
		pre(cs[r.intn(nc)].legacy())
		w.tags["init:legacy"] = true
	}
	if r.chance(35) {
		pre("other-net.other-cid")
		w.tags["init:other"] = true
	}
	if r.chance(10) {
		pre(cs[r.intn(nc)].primary(netname))
		w.tags["init:primary"] = true
	}
	init := dumpAlloc(w.store)
	hrecs0, _ := dumpHandles(w.store)
	marker := r.chance(70)
	setMarker(marker)
	if !canMarker {
		marker = markerPresent()
		w.tags["marker-path-not-writable"] = true
	}

	nops := 3 + r.intn(6)
	var steps, sample, keyParts []string
	sawAlloc, okDelAfterAlloc, rollback, leftAfterFailedAdd, dual := false, false, false, false, false
	for k := 0; k < nops; k++ {
		c := cs[0]
		if r.chance(35) {
			c = cs[r.intn(nc)]
		}
		isAdd := r.chance(50)
		if k == nops-1 && r.chance(60) {
			isAdd = false
		}
		var q request
		if isAdd {
			if r.chance(20) && (canMarker || marker) {
				var a addr
				switch {
				case p4 != nil && r.chance(60):
					a = randAddrIn(r, p4.cidr, freeSpan(p4)+r.intn(2)*4)
				case p6 != nil:
					a = randAddrIn(r, p6.cidr, freeSpan(p6)+r.intn(2)*4)
				default:
					a = randAddrIn(r, "10.0.0.0/29", 8)
				}
				q.ip = &a
			} else {
				q.a4 = []string{"", "", "true", "false"}[r.intn(4)]
				q.a6 = []string{"", "true", "true", "true", "false"}[r.intn(5)]
			}
		}
		if scripted == 1 {
			// minimal dual-stack script: add (v6 short) ; del ; del
			c = cs[0]
			isAdd = k == 0
			q = request{a4: "true", a6: "true"}
		}
		conf := map[string]any{
			"cniVersion": []string{"0.3.1", "1.0.0"}[r.intn(2)], "name": netname, "type": "calico",
			"nodename": w.node, "log_level": "error", "ipam_lock_file": w.lockPath,
			"datastore_type": "etcdv3",
		}
		ipamConf := map[string]any{"type": "calico-ipam"}
		if q.a4 != "" {
			ipamConf["assign_ipv4"] = q.a4
		}
		if q.a6 != "" {
			ipamConf["assign_ipv6"] = q.a6
		}
		if isAdd && q.ip == nil && p4 != nil && r.chance(15) {
			ipamConf["ipv4_pools"] = []string{p4.cidr}
		}
		conf["ipam"] = ipamConf
		stdin, _ := json.Marshal(conf)
		var argParts []string
		if c.k8s {
			argParts = append(argParts, "IgnoreUnknown=1", "K8S_POD_NAMESPACE="+c.ns, "K8S_POD_NAME="+c.pod, "K8S_POD_INFRA_CONTAINER_ID="+c.cid)
		}
		if q.ip != nil {
			argParts = append(argParts, "IP="+q.ip.String())
		}
		args := &skel.CmdArgs{ContainerID: c.cid, Netns: "/var/run/netns/verif", IfName: "eth0",
			Args: strings.Join(argParts, ";"), Path: "/opt/cni/bin", StdinData: stdin}
		w.inj.calls = nil
		cc := c
		w.k8sAttrs = &cc
		if q.a4 != "false" && q.a6 == "true" && q.ip == nil && isAdd {
			dual = true
		}
		before := dumpAlloc(w.store)
		ncli := ipamplugin.VerifCreateClientCalls
		var out string
		var err error
		if isAdd {
			out, err = captureStdout(func() error { return ipamplugin.VerifCmdAdd(args) })
		} else {
			out, err = captureStdout(func() error { return ipamplugin.VerifCmdDel(args) })
		}
		if ipamplugin.VerifCreateClientCalls != ncli+1 {
			panic("plugin did not construct its client through the seam exactly once")
		}
		if w.lockHeld() {
			panic("IPAM lock still held after the plugin returned")
		}
		after := dumpAlloc(w.store)
		res := "RFail"
		resText := "FAIL"
		if err == nil {
			if isAdd {
				var parsed struct {
					IPs []struct {
						Address string `json:"address"`
					} `json:"ips"`
				}
				if e := json.Unmarshal([]byte(out), &parsed); e != nil {
					panic(fmt.Sprintf("cannot parse CNI result %q: %v", out, e))
				}
				var as []addr
				for _, ipc := range parsed.IPs {
					// (AutoAssign results keep the block's mask here; only the address matters for C38)
					ip, _, e := net.ParseCIDR(ipc.Address)
					if e != nil {
						panic(e)
					}
					as = append(as, addrOfIP(ip))
				}
				res = fmt.Sprintf("(RAddOk %s)", coqAddrs(as))
				resText = fmt.Sprintf("OK %v", as)
			} else {
				res = "RDelOk"
				resText = "OK"
			}
		} else {
			resText = "FAIL: " + err.Error()
			if len(resText) > 120 {
				resText = resText[:120]
			}
		}
		var callsCoq, callsText []string
		for _, cr := range w.inj.calls {
			opt := func(p *[]addr) string {
				if p == nil {
					return "None"
				}
				return "(Some " + coqAddrs(*p) + ")"
			}
			callsCoq = append(callsCoq, fmt.Sprintf("(Build_callrec %s %v %v (Build_outcome %s %s %s %s %s))",
				cr.coqCall, cr.held, cr.argsok, cr.errk, opt(cr.r4), opt(cr.r6), coqPairs(cr.added), coqPairs(cr.removed)))
			callsText = append(callsText, fmt.Sprintf("%s[%s]->%s +%s -%s", cr.text, cr.fault, cr.errk, strPairs(cr.added), strPairs(cr.removed)))
			if cr.fault == "none" && strings.HasPrefix(cr.text, "ReleaseIPs") {
				rollback = true
			}
			if cr.errk == "ENotFound" {
				w.tags["del:notfound"] = true
			}
			if cr.fault == "none" && cr.r4 != nil && cr.r6 != nil && (len(*cr.r4) == 0) != (len(*cr.r6) == 0) {
				w.tags["natural-short-family"] = true
			}
		}
		opCoq := ""
		if isAdd {
			opCoq = fmt.Sprintf("(OpAdd %s %s)", c.coq(netname), q.coq())
		} else {
			opCoq = fmt.Sprintf("(OpDel %s)", c.coq(netname))
		}
		nofault := true
		for _, cr := range w.inj.calls {
			if cr.fault != "none" {
				nofault = false
			}
		}
		hrecsCoq, hrecsText := dumpHandles(w.store)
		multiBlock := false
		for _, kv := range w.store.Dump() {
			if hv, ok := kv.Value.(*model.IPAMHandle); ok && len(hv.Block) > 1 {
				multiBlock = true
			}
		}
		if multiBlock {
			w.tags["handle-spans-blocks"] = true
			if !nofault {
				w.tags["fault-while-handle-spans-blocks"] = true
			}
		}
		steps = append(steps, fmt.Sprintf("(Build_step2 (Build_step %s [%s] %s %v %s) %v %s)",
			opCoq, strings.Join(callsCoq, "; "), res, markerPresent(), coqPairs(after), nofault, hrecsCoq))
		kind := "DEL"
		if isAdd {
			kind = "ADD " + q.String()
		}
		who := c.cid
		if c.k8s {
			who += "(" + c.ns + "/" + c.pod + ")"
		}
		sample = append(sample, fmt.Sprintf("%s %s: %s => %s ; store %s", kind, who, strings.Join(callsText, ", "), resText, strPairs(after)+" handles "+hrecsText))
		keyParts = append(keyParts, opCoq+strings.Join(callsText, ","))
		ad, _ := diff(before, after)
		if isAdd && len(ad) > 0 {
			sawAlloc = true
			if err != nil {
				leftAfterFailedAdd = true
			}
		}
		if !isAdd && err == nil && sawAlloc {
			okDelAfterAlloc = true
		}
		if c.k8s {
			w.tags["ids:k8s"] = true
		} else {
			w.tags["ids:cni"] = true
		}
		if isAdd && q.ip != nil {
			w.tags["add:requested-ip"] = true
		}
	}
	if dual {
		w.tags["dual-stack"] = true
	}
	if rollback {
		w.tags["rollback-release"] = true
	}
	if leftAfterFailedAdd {
		w.tags["failed-add-left-address"] = true
	}
	if w.faults > 0 {
		w.tags["faults"] = true
	} else {
		w.tags["no-faults"] = true
	}
	var tags []string
	for t := range w.tags {
		tags = append(tags, t)
	}
	sort.Strings(tags)
	coq := fmt.Sprintf("(Build_case2 %s %v %s %s [%s])", coqPairs(init), marker, coqBlkMap(), hrecs0, strings.Join(steps, ";\n "))
	_ = enc.Encode(line{Coq: coq, NT: okDelAfterAlloc && (w.faults > 0 || rollback || w.tags["natural-short-family"]),
		Key:    fmt.Sprintf("%s|%v|%s", coqPairs(init), marker, strings.Join(keyParts, ";")),
		Sample: map[string]any{"case": idx, "net": netname, "init": strPairs(init), "marker": marker, "steps": sample}, Tags: tags})
}

func main() {
	n := flag.Int("n", 100, "cases")
	seed := flag.Uint64("seed", 1, "seed")
	flag.Parse()
	logrus.SetLevel(logrus.PanicLevel)
	logrus.SetOutput(io.Discard)

	// one driver at a time: the upgrade marker file has a fixed path on this machine
	gl, err := os.OpenFile(filepath.Join(os.TempDir(), "verif-c38-driver.lock"), os.O_CREATE|os.O_RDWR, 0o666)
	if err != nil {
		panic(err)
	}
	if err := syscall.Flock(int(gl.Fd()), syscall.LOCK_EX); err != nil {
		panic(err)
	}
	defer gl.Close()

	tmp, err := os.MkdirTemp("", "verif-c38-")
	if err != nil {
		panic(err)
	}
	defer os.RemoveAll(tmp)
	markerDir := filepath.Dir(ipamplugin.VerifIPAMUpgradedFilePath)
	_, statErr := os.Stat(filepath.Dir(markerDir))
	createdTop := statErr != nil
	hadMarker := markerPresent()
	defer func() {
		setMarker(hadMarker)
		if createdTop {
			_ = os.Remove(markerDir)
			_ = os.Remove(filepath.Dir(markerDir))
		}
	}()

	stdout := os.Stdout
	enc := json.NewEncoder(stdout)
	r := &rng{s: *seed}
	for i := 0; i < *n; i++ {
		cr := &rng{s: r.next()}
		runCase(cr, i, tmp, enc, 0)
	}
}
