//go:build verif

// C15 correspondence driver: runs the real felix/iptables.Table against the MockDataplane of
// iptables/testutils (its iptables-save writer and iptables-restore parser/executor), on generated
// starting kernel tables, desired-state histories, injected save/restore failures, racing and
// out-of-band edits and restarts.  Prints one JSON line per case carrying the case as a Coq term.
package main

import (
	"bytes"
	"encoding/json"
	"errors"
	"flag"
	"fmt"
	"io"
	"os"
	"regexp"
	"sort"
	"strconv"
	"strings"
	"time"

	"github.com/onsi/gomega"
	log "github.com/sirupsen/logrus"

	"github.com/projectcalico/calico/felix/environment"
	"github.com/projectcalico/calico/felix/generictables"
	"github.com/projectcalico/calico/felix/iptables"
	"github.com/projectcalico/calico/felix/iptables/cmdshim"
	"github.com/projectcalico/calico/felix/iptables/testutils"
	"github.com/projectcalico/calico/felix/rules/rulesdefs"
	"github.com/projectcalico/calico/lib/logrusr"
)

type rng struct{ s uint64 }

func (r *rng) next() uint64 {
	r.s += 0x9e3779b97f4a7c15
	z := r.s
	z = (z ^ (z >> 30)) * 0xbf58476d1ce4e5b9
	z = (z ^ (z >> 27)) * 0x94d049bb133111eb
	return z ^ (z >> 31)
}
func (r *rng) intn(n int) int     { return int(r.next() % uint64(n)) }
func (r *rng) chance(pm int) bool { return r.intn(1000) < pm }

type line struct {
	Coq    string         `json:"coq"`
	NT     bool           `json:"nt"`
	Key    string         `json:"key"`
	Sample map[string]any `json:"sample,omitempty"`
	Tags   []string       `json:"tags"`
}

// ---- fixed feature detector (no iptables --version calls; RestoreSupportsLock=false as the mock expects)
type feat struct{ f environment.Features }

func (f *feat) GetFeatures() *environment.Features { return &f.f }
func (f *feat) RefreshFeatures()                   {}
func (f *feat) FeatureGate(string) string          { return "" }

var (
	hashRe = regexp.MustCompile(`--comment "?` + rulesdefs.RuleHashPrefix + `([a-zA-Z0-9_-]+)"?`)
	oldRe  *regexp.Regexp
	kchain = []string{"INPUT", "FORWARD", "OUTPUT"}
)

const extraCleanup = "sneaky-rule"

func init() {
	parts := []string{}
	for _, p := range rulesdefs.AllHistoricChainNamePrefixes {
		parts = append(parts, "(?:-j|--jump) "+p)
	}
	parts = append(parts, extraCleanup)
	oldRe = regexp.MustCompile(strings.Join(parts, "|"))
}

func owned(c string) bool {
	for _, p := range rulesdefs.AllHistoricChainNamePrefixes {
		if strings.HasPrefix(c, p) {
			return true
		}
	}
	return false
}

// ---- interning of line texts and hash strings
type interner struct {
	lines  map[string]int
	hashes map[string]int
}

func (in *interner) line(rest string) string {
	id, ok := in.lines[rest]
	if !ok {
		id = len(in.lines) + 1
		in.lines[rest] = id
	}
	h := 0
	if m := hashRe.FindStringSubmatch(rest); m != nil {
		hid, ok := in.hashes[m[1]]
		if !ok {
			hid = len(in.hashes) + 2
			in.hashes[m[1]] = hid
		}
		h = hid
	} else if oldRe.FindString(rest) != "" {
		h = 1
	}
	return fmt.Sprintf("L %d %d", h, id)
}

func qs(s string) string { return `"` + s + `"%string` }

func (in *interner) lines_(ls []string) string {
	xs := make([]string, len(ls))
	for i, l := range ls {
		xs[i] = in.line(l)
	}
	return "[" + strings.Join(xs, "; ") + "]"
}

func (in *interner) kernel(k map[string][]string) string {
	names := make([]string, 0, len(k))
	for c := range k {
		names = append(names, c)
	}
	sort.Strings(names)
	xs := make([]string, len(names))
	for i, c := range names {
		xs[i] = "(" + qs(c) + ", " + in.lines_(k[c]) + ")"
	}
	return "[" + strings.Join(xs, "; ") + "]"
}

// ---- rules
type grule struct {
	r   generictables.Rule
	ref string
}

var renderer = iptables.NewIptablesRenderer(rulesdefs.RuleHashPrefix)
var features = &environment.Features{}

func genRule(r *rng, refs []string) grule {
	var g grule
	m := iptables.Match()
	switch r.intn(4) {
	case 0:
		m = m.Protocol("tcp")
	case 1:
		m = m.Protocol("udp")
	case 2:
		m = m.SourceNet("10.0.0.0/8")
	}
	g.r.Match = m
	if r.intn(3) == 0 {
		g.r.Comment = []string{fmt.Sprintf("k%d", r.intn(4))}
	}
	switch k := r.intn(10); {
	case k < 5 && len(refs) > 0:
		g.ref = refs[r.intn(len(refs))]
		if r.intn(4) == 0 {
			g.r.Action = iptables.GotoAction{Target: g.ref}
		} else {
			g.r.Action = iptables.JumpAction{Target: g.ref}
		}
	case k < 7:
		g.r.Action = iptables.AcceptAction{}
	case k < 9:
		g.r.Action = iptables.DropAction{}
	default:
		g.r.Action = iptables.ReturnAction{}
	}
	return g
}

func rawRules(gs []grule) []generictables.Rule {
	out := make([]generictables.Rule, len(gs))
	for i, g := range gs {
		out[i] = g.r
	}
	return out
}

// render the rules of chain `name` (hash key `key`) to kernel line texts (without "-A name ")
func render(key, name string, gs []grule) []string {
	rs := rawRules(gs)
	hs := iptables.CalculateRuleHashes(key, rs, features)
	out := make([]string, len(rs))
	for i := range rs {
		l := renderer.RenderAppend(&rs[i], name, hs[i], features)
		out[i] = strings.TrimPrefix(l, "-A "+name+" ")
	}
	return out
}

func (in *interner) rules(key, name string, gs []grule) string {
	ls := render(key, name, gs)
	xs := make([]string, len(gs))
	for i, g := range gs {
		ref := "None"
		if g.ref != "" {
			ref = "(Some " + qs(g.ref) + ")"
		}
		xs[i] = "R" + strings.TrimPrefix(in.line(ls[i]), "L") + " " + ref
	}
	return "[" + strings.Join(xs, "; ") + "]"
}

// ---- world: the mock kernel + command factory with fault injection, atomic restore
type rfaultRec struct {
	edits string
	fail  bool
	any   bool
}

type world struct {
	r      *rng
	in     *interner
	mock   *testutils.MockDataplane
	nft    bool // BackendMode nft (iptables-nft workarounds) over the mock in nft mode
	strict bool // own restore executor: delete-by-value removes the FIRST match (iptables); else MockDataplane's executor
	// fault probabilities (per mille) for the current Apply
	pSave, pRest, pMid int
	saves              []bool
	rests              []rfaultRec
	inputs             []string
	pool               *[]string // known line texts for edits
	tags               map[string]bool
}

type mockFailure string

type restoreWrap struct {
	w     *world
	inner cmdshim.CmdIface
	stdin string
}

func (c *restoreWrap) SetStdin(r io.Reader) {
	b, _ := io.ReadAll(r)
	c.stdin = string(b)
	c.inner.SetStdin(bytes.NewReader(b))
}
func (c *restoreWrap) SetStdout(w io.Writer)              { c.inner.SetStdout(w) }
func (c *restoreWrap) SetStderr(w io.Writer)              { c.inner.SetStderr(w) }
func (c *restoreWrap) Start() error                       { return errors.New("n/a") }
func (c *restoreWrap) Kill() error                        { return nil }
func (c *restoreWrap) Wait() error                        { return errors.New("n/a") }
func (c *restoreWrap) Output() ([]byte, error)            { return nil, errors.New("n/a") }
func (c *restoreWrap) StdoutPipe() (io.ReadCloser, error) { return nil, errors.New("n/a") }
func (c *restoreWrap) String() string                     { return "restoreWrap" }

func copyChains(k map[string][]string) map[string][]string {
	out := map[string][]string{}
	for c, ls := range k {
		out[c] = append([]string{}, ls...)
	}
	return out
}

func (c *restoreWrap) Run() (err error) {
	w := c.w
	w.inputs = append(w.inputs, c.stdin)
	rec := rfaultRec{edits: "[]"}
	if w.r.chance(w.pMid) {
		rec.edits = w.genEdits(1)
		rec.any = true
		w.tags["racing-edit"] = true
	}
	if w.r.chance(w.pRest) {
		rec.fail = true
		w.tags["restore-fail"] = true
	}
	w.rests = append(w.rests, rec)
	if rec.fail {
		return errors.New("injected restore failure")
	}
	snap := copyChains(w.mock.Chains)
	defer func() {
		if p := recover(); p != nil {
			// iptables-restore is all-or-nothing: a bad line fails the whole transaction
			w.mock.Chains = snap
			w.tags["restore-rejected"] = true
			err = fmt.Errorf("restore rejected: %v", p)
		}
	}()
	if w.strict {
		w.mock.Chains = strictRestore(copyChains(w.mock.Chains), c.stdin)
		return nil
	}
	return c.inner.Run()
}

// own executor with iptables semantics for delete-by-value (first match only); panics on a bad line
func strictRestore(k map[string][]string, input string) map[string][]string {
	for _, ln := range strings.Split(input, "\n") {
		if strings.TrimSpace(ln) == "" || ln[0] == '#' || ln[0] == '*' || ln == "COMMIT" {
			continue
		}
		if ln[0] == ':' {
			k[strings.Split(ln[1:], " ")[0]] = []string{}
			continue
		}
		parts := strings.Split(ln, " ")
		c := parts[1]
		ch, ok := k[c]
		switch parts[0] {
		case "-A":
			if !ok {
				panic("append to unknown chain")
			}
			k[c] = append(ch, strings.Join(parts[2:], " "))
		case "-I":
			if !ok {
				panic("insert to unknown chain")
			}
			k[c] = append([]string{strings.Join(parts[2:], " ")}, ch...)
		case "-R":
			n, err := strconv.Atoi(parts[2])
			if err != nil || n < 1 || n > len(ch) {
				panic("bad replace")
			}
			ch[n-1] = strings.Join(parts[3:], " ")
		case "-D":
			if n, err := strconv.Atoi(parts[2]); err == nil && len(parts) == 3 {
				if n < 1 || n > len(ch) {
					panic("bad delete")
				}
				k[c] = append(append([]string{}, ch[:n-1]...), ch[n:]...)
			} else {
				rule := strings.Join(parts[2:], " ")
				idx := -1
				for i, l := range ch {
					if l == rule {
						idx = i
						break
					}
				}
				if idx < 0 {
					panic("delete of nonexistent rule")
				}
				k[c] = append(append([]string{}, ch[:idx]...), ch[idx+1:]...)
			}
		case "--delete-chain":
			if !ok || len(ch) != 0 || len(parts) != 2 {
				panic("bad delete-chain")
			}
			delete(k, c)
		default:
			panic("unknown action " + parts[0])
		}
	}
	return k
}

func (w *world) NewCmd(name string, arg ...string) cmdshim.CmdIface {
	if strings.HasSuffix(name, "-save") {
		fail := w.r.chance(w.pSave)
		w.saves = append(w.saves, fail)
		if fail {
			w.mock.FailNextSaveRead = true
			w.tags["save-fail"] = true
		}
		return w.mock.NewCmd(name, arg...)
	}
	inner := w.mock.NewCmd(name, arg...)
	if strings.HasSuffix(name, "-restore") {
		return &restoreWrap{w: w, inner: inner}
	}
	return inner
}

// ---- line generators for starting tables / edits
func (w *world) randLine() string {
	r := w.r
	switch k := r.intn(12); {
	case k < 4:
		return fmt.Sprintf("-m foo --n %d -j ACCEPT", r.intn(5))
	case k < 5:
		// foreign rules: jumps to foreign chains with Felix-like names, comments with cali: text that is no hash comment
		return []string{"-j KUBE-SVC", "-j acme-felix-audit", "-j ufw-califw-compat", "--jump x-cali-y", "-j Cali-foo",
			"-j my-calipo-thing", `-m comment --comment "see cali:docs" -j ACCEPT`, `-m comment --comment "Cali:abc" -j ACCEPT`,
			`-m comment --comment "xcali:abc" -j ACCEPT`, `-m comment --comment "cali:" -j ACCEPT`, "-j felix", "-j cali"}[r.intn(12)]
	case k < 6:
		return []string{"-j cali-FORWARD", "--jump felix-INPUT", "-m sneaky-rule -j DROP", "-j califw-x"}[r.intn(4)]
	case k < 8:
		return fmt.Sprintf(`-m comment --comment "cali:stale%d" -j DROP`, r.intn(4))
	default:
		if len(*w.pool) > 0 {
			return (*w.pool)[r.intn(len(*w.pool))]
		}
		return "-j RETURN"
	}
}

func (w *world) mutate(ls []string) []string {
	r := w.r
	out := append([]string{}, ls...)
	for n := 1 + r.intn(2); n > 0; n-- {
		switch k := r.intn(6); {
		case k < 2: // insert a line somewhere
			p := r.intn(len(out) + 1)
			out = append(out[:p], append([]string{w.randLine()}, out[p:]...)...)
		case k < 3 && len(out) > 0: // delete one
			p := r.intn(len(out))
			out = append(out[:p], out[p+1:]...)
		case k < 4 && len(out) > 0: // duplicate one
			p := r.intn(len(out))
			q := r.intn(len(out) + 1)
			x := out[p]
			out = append(out[:q], append([]string{x}, out[q:]...)...)
		case k < 5 && len(out) > 1: // swap
			p, q := r.intn(len(out)), r.intn(len(out))
			out[p], out[q] = out[q], out[p]
		default: // drop all Felix-looking lines
			var o2 []string
			for _, l := range out {
				if hashRe.FindString(l) == "" && oldRe.FindString(l) == "" {
					o2 = append(o2, l)
				}
			}
			out = append([]string{}, o2...)
		}
	}
	return out
}

// innerEdit changes only NON-FINAL rules of a chain and keeps its length and its last rule: replace one
// rule by a foreign rule / a rule with an old hash comment / an old-insert rule / a copy of another rule of
// the chain, swap two non-final rules, or change the first rule only.
func (w *world) innerEdit(ls []string) ([]string, bool) {
	r := w.r
	n := len(ls)
	if n < 2 {
		return ls, false
	}
	out := append([]string{}, ls...)
	p := r.intn(n - 1)
	kind := r.intn(7)
	switch {
	case kind == 0:
		out[p] = fmt.Sprintf("-m foo --n %d -j ACCEPT", r.intn(5))
	case kind == 1:
		out[p] = fmt.Sprintf(`-m comment --comment "cali:stale%d" -j DROP`, r.intn(4))
	case kind == 2:
		out[p] = []string{"-j cali-FORWARD", "--jump felix-INPUT", "-m sneaky-rule -j DROP"}[r.intn(3)]
	case kind == 3:
		q := r.intn(n)
		out[p] = ls[q]
	case kind == 4 && n >= 3:
		q := r.intn(n - 1)
		out[p], out[q] = out[q], out[p]
	case kind == 5:
		out[0] = fmt.Sprintf("-m foo --n %d -j ACCEPT", r.intn(5))
	default:
		out[0] = fmt.Sprintf(`-m comment --comment "cali:stale%d" -j DROP`, r.intn(4))
	}
	same := true
	for i := range out {
		if out[i] != ls[i] {
			same = false
		}
	}
	return out, !same
}

// ownedWith returns the Felix-owned chains of the mock kernel that have at least n rules (sorted)
func (w *world) ownedWith(n int) []string {
	var out []string
	for c, ls := range w.mock.Chains {
		if owned(c) && len(ls) >= n {
			out = append(out, c)
		}
	}
	sort.Strings(out)
	return out
}

// innerEditOp applies an inner edit to one owned chain of the mock kernel; returns the Coq text of the edit
func (w *world) innerEditOp() (string, bool) {
	cands := w.ownedWith(3)
	if len(cands) == 0 || w.r.intn(4) == 0 {
		cands = w.ownedWith(2)
	}
	if len(cands) == 0 {
		return "", false
	}
	c := cands[w.r.intn(len(cands))]
	content, ok := w.innerEdit(w.mock.Chains[c])
	if !ok {
		return "", false
	}
	w.mock.Chains[c] = content
	w.tags["inner-edit"] = true
	return "[(" + qs(c) + ", Some " + w.in.lines_(content) + ")]", true
}

var staleOwned = []string{"cali-old", "felix-x", "califw-y", "calipo-z", "cali-a", "cali-c"}

// chains of other software; many names CONTAIN a historic Felix prefix not at the start, equal a prefix
// without its dash, or differ from one only by case: none of them starts with a configured prefix
var foreignNames = []string{"KUBE-SVC", "DOCKER", "calico-dhcp", "cal", "cali", "felix", "califw", "calipo",
	"x-cali-y", "acme-felix-audit", "ufw-califw-compat", "my-calitw-x", "a-califh-b", "n-calith-n", "q-calipi-q",
	"my-calipo-thing", "Cali-foo", "CALI-x", "Felix-a", "xcali-", "-cali-"}

// generate, apply to the mock kernel and return as Coq text n out-of-band edits
func (w *world) genEdits(n int) string {
	r := w.r
	k := w.mock.Chains
	var xs []string
	for ; n > 0; n-- {
		names := make([]string, 0, len(k))
		for c := range k {
			names = append(names, c)
		}
		sort.Strings(names)
		if r.intn(4) == 0 {
			if e, ok := w.innerEditOp(); ok {
				xs = append(xs, strings.TrimSuffix(strings.TrimPrefix(e, "["), "]"))
				continue
			}
		}
		var c string
		var content []string
		del := false
		switch x := r.intn(10); {
		case x < 6 && len(names) > 0: // mutate an existing chain
			c = names[r.intn(len(names))]
			content = w.mutate(k[c])
		case x < 8 && len(names) > 0: // delete a chain (rarely a kernel chain)
			c = names[r.intn(len(names))]
			if (c == "INPUT" || c == "FORWARD" || c == "OUTPUT") && r.intn(8) != 0 {
				content = w.mutate(k[c])
			} else {
				del = true
			}
		default: // create / replace a chain
			if r.intn(2) == 0 {
				c = staleOwned[r.intn(len(staleOwned))]
			} else {
				c = foreignNames[r.intn(len(foreignNames))]
			}
			for m := r.intn(4); m > 0; m-- {
				content = append(content, w.randLine())
			}
		}
		if del {
			delete(k, c)
			xs = append(xs, "("+qs(c)+", None)")
		} else {
			if content == nil {
				content = []string{}
			}
			k[c] = content
			xs = append(xs, "("+qs(c)+", Some "+w.in.lines_(content)+")")
		}
	}
	return "[" + strings.Join(xs, "; ") + "]"
}

func mentions(input string) []string {
	seen := map[string]bool{}
	for _, ln := range strings.Split(input, "\n") {
		if strings.TrimSpace(ln) == "" || ln[0] == '#' || ln[0] == '*' || ln == "COMMIT" {
			continue
		}
		if ln[0] == ':' {
			seen[strings.Split(ln[1:], " ")[0]] = true
			continue
		}
		parts := strings.Split(ln, " ")
		if len(parts) > 1 {
			seen[parts[1]] = true
		}
	}
	out := make([]string, 0, len(seen))
	for c := range seen {
		out = append(out, c)
	}
	sort.Strings(out)
	return out
}

func (w *world) newTable(appendMode bool) *iptables.Table {
	backend := "legacy"
	if w.nft {
		backend = "nft"
	}
	mode := "insert"
	if appendMode {
		mode = "append"
	}
	return iptables.NewTable("filter", 4, rulesdefs.RuleHashPrefix, &feat{}, iptables.TableOptions{
		HistoricChainPrefixes:    rulesdefs.AllHistoricChainNamePrefixes,
		ExtraCleanupRegexPattern: extraCleanup,
		NewCmdOverride:           w.NewCmd,
		SleepOverride:            w.mock.Sleep,
		NowOverride:              w.mock.Now,
		InsertMode:               mode,
		BackendMode:              backend,
		LookPathOverride:         testutils.LookPathAll,
		OpRecorder:               logrusr.NewSummarizer("verif"),
	})
}

// leakFixed: does the tree release the references of the new rules when an UpdateChain drops the
// ForceProgramming flag that was the chain's only reference?  (fixes/C15-force-downgrade-refcount-leak.patch)
var leakFixed bool

func probeLeakFix() bool {
	r := &rng{s: 1}
	pool := []string{}
	w := &world{r: r, in: &interner{lines: map[string]int{}, hashes: map[string]int{}}, pool: &pool, tags: map[string]bool{}, strict: true}
	w.mock = testutils.NewMockDataplane("filter", map[string][]string{"INPUT": {}, "FORWARD": {}, "OUTPUT": {}}, "legacy")
	t := w.newTable(false)
	jump := []generictables.Rule{{Match: iptables.Match(), Action: iptables.JumpAction{Target: "cali-b"}}}
	t.UpdateChain(&generictables.Chain{Name: "cali-a", Rules: jump, ForceProgramming: true})
	t.UpdateChain(&generictables.Chain{Name: "cali-b"})
	t.UpdateChain(&generictables.Chain{Name: "cali-a", Rules: jump})
	t.Apply()
	_, leaked := w.mock.Chains["cali-b"]
	return !leaked
}

var desiredNames = []string{"cali-a", "cali-b", "cali-c", "cali-d", "cali-e"}

func oneCase(seed uint64, idx int, maxOps int) line {
	r := &rng{s: seed*1000003 + uint64(idx)*7919}
	in := &interner{lines: map[string]int{}, hashes: map[string]int{}}
	pool := []string{}
	appendMode := r.intn(3) == 0
	strict := r.intn(2) == 0
	tags := map[string]bool{}

	// plan: a few versions of every desired chain and of the hook rule sets (acyclic references: i -> j>i)
	versions := map[string][][]grule{}
	for i, c := range desiredNames {
		nv := 1 + r.intn(2)
		for v := 0; v < nv; v++ {
			var gs []grule
			for n := r.intn(6); n > 0; n-- {
				gs = append(gs, genRule(r, desiredNames[i+1:]))
			}
			versions[c] = append(versions[c], gs)
			pool = append(pool, render(c, c, gs)...)
		}
	}
	hookV := map[string][][]grule{}
	appV := map[string][][]grule{}
	for _, kc := range kchain {
		for v := 0; v < 2; v++ {
			var gs, as []grule
			for n := r.intn(3); n > 0; n-- {
				gs = append(gs, genRule(r, desiredNames[:3]))
			}
			for n := r.intn(2); n > 0; n-- {
				as = append(as, genRule(r, desiredNames[:3]))
			}
			hookV[kc] = append(hookV[kc], gs)
			appV[kc] = append(appV[kc], as)
			pool = append(pool, render(kc, kc, gs)...)
			pool = append(pool, render(kc+"*appends*", kc, as)...)
		}
	}

	nft := r.intn(4) == 0
	w := &world{r: r, in: in, strict: strict, nft: nft, pool: &pool, tags: tags}

	// starting kernel
	k0 := map[string][]string{}
	for _, kc := range kchain {
		if r.intn(25) == 0 {
			tags["k0:kernel-chain-missing"] = true
			continue
		}
		ls := []string{}
		for n := r.intn(4); n > 0; n-- {
			ls = append(ls, w.randLine())
		}
		if r.intn(3) == 0 { // hooks of an earlier Felix in place, possibly disturbed
			v := r.intn(2)
			hk := render(kc, kc, hookV[kc][v])
			ap := render(kc+"*appends*", kc, appV[kc][v])
			if appendMode != (r.intn(6) == 0) {
				ls = append(append(ls, hk...), ap...)
			} else {
				ls = append(append(hk, ls...), ap...)
			}
			if r.intn(2) == 0 {
				ls = w.mutate(ls)
			}
			tags["k0:hooks-present"] = true
		}
		k0[kc] = ls
	}
	for n := 1 + r.intn(4); n > 0; n-- {
		c := foreignNames[r.intn(len(foreignNames))]
		if owned(c) {
			panic("C15 driver: foreign name is Felix-owned: " + c)
		}
		if strings.Contains(c[1:], "cali") || strings.Contains(c[1:], "felix") || c == "cali" || c == "felix" {
			tags["k0:foreign-felixlike-name"] = true
		}
		ls := []string{}
		for m := r.intn(4); m > 0; m-- {
			ls = append(ls, w.randLine())
		}
		k0[c] = ls
	}
	for _, c := range desiredNames {
		if r.intn(2) == 0 {
			ls := render(c, c, versions[c][r.intn(len(versions[c]))])
			if r.intn(2) == 0 {
				if in2, ok := w.innerEdit(ls); ok && r.intn(2) == 0 {
					ls = in2
					tags["k0:owned-inner-edit"] = true
				} else {
					ls = w.mutate(ls)
				}
				tags["k0:owned-disturbed"] = true
			} else {
				tags["k0:owned-current"] = true
			}
			k0[c] = ls
		}
	}
	for n := r.intn(3); n > 0; n-- {
		c := staleOwned[r.intn(len(staleOwned))]
		if _, ok := k0[c]; ok {
			continue
		}
		ls := []string{}
		for m := r.intn(4); m > 0; m-- {
			ls = append(ls, w.randLine())
		}
		k0[c] = ls
		tags["k0:stale-owned-chain"] = true
	}
	k0coq := in.kernel(k0)

	backend := "legacy"
	if nft {
		backend = "nft"
		tags["backend:nft"] = true
	} else {
		tags["backend:legacy"] = true
	}
	w.mock = testutils.NewMockDataplane("filter", copyChains(k0), backend)
	table := w.newTable(appendMode)
	dead := false
	isForce := map[string]bool{}
	wanted := map[string][]grule{} // the live table's chain map, for the fuel-bound check (c15_fuel_sufficient)

	var ops, obs, sample []string
	nops := 4 + r.intn(maxOps)
	successes, rewrites := 0, 0
	sawFault := false
	forceApply := false
	doApply := func() {
		w.saves, w.rests, w.inputs = nil, nil, nil
		if dead {
			ops = append(ops, "OpApply (FS [] [])")
			sample = append(sample, "Apply (dead table: ignored)")
			return
		}
		res := "Success"
		func() {
			defer func() {
				if p := recover(); p != nil {
					if mf, ok := p.(mockFailure); ok {
						// a mock assertion outside the restore path: not expected
						panic("unexpected mock failure: " + string(mf))
					}
					res = "Panic"
					dead = true
				}
			}()
			table.Apply()
		}()
		sv := make([]string, len(w.saves))
		for i, b := range w.saves {
			sv[i] = strconv.FormatBool(b)
			sawFault = sawFault || b
		}
		rs := make([]string, len(w.rests))
		for i, rf := range w.rests {
			rs[i] = fmt.Sprintf("RF %s %v", rf.edits, rf.fail)
			sawFault = sawFault || rf.fail || rf.any
		}
		ops = append(ops, fmt.Sprintf("OpApply (FS [%s] [%s])", strings.Join(sv, "; "), strings.Join(rs, "; ")))
		ms := make([]string, len(w.inputs))
		for i, inp := range w.inputs {
			m := mentions(inp)
			q := make([]string, len(m))
			for a, c := range m {
				q[a] = qs(c)
			}
			ms[i] = "[" + strings.Join(q, "; ") + "]"
		}
		obs = append(obs, fmt.Sprintf("OB %s %s [%s]", res, in.kernel(w.mock.Chains), strings.Join(ms, "; ")))
		sample = append(sample, fmt.Sprintf("Apply saves=%v restores=%v -> %s inputs=%q kernel=%v", sv, rs, res, w.inputs, w.mock.Chains))
		if res == "Success" {
			successes++
			if len(w.inputs) > 0 {
				rewrites++
			}
		} else {
			tags["apply-panic"] = true
		}
	}
	for j := 0; j < nops || forceApply; j++ {
		x := r.intn(100)
		if forceApply || j == nops-1 {
			x = 99
			forceApply = false
		}
		if dead && x >= 8 {
			x = 7 // restart
		}
		switch {
		case x < 3:
			ops = append(ops, "OpInvalidate")
			sample = append(sample, "Invalidate")
			if !dead {
				table.InvalidateDataplaneCache("verif")
			}
		case x < 7 || (x == 7 && !dead && r.intn(2) == 0):
			// out-of-band edit, usually followed by the refresh timer firing
			e := w.genEdits(1 + r.intn(2))
			ops = append(ops, "OpEdit "+e)
			sample = append(sample, "Edit "+e)
			tags["oob-edit"] = true
			if r.intn(4) != 0 {
				ops = append(ops, "OpInvalidate")
				sample = append(sample, "Invalidate")
				if !dead {
					table.InvalidateDataplaneCache("verif")
				}
			}
		case x == 7:
			ops = append(ops, "OpRestart")
			sample = append(sample, "Restart")
			table = w.newTable(appendMode)
			dead = false
			isForce = map[string]bool{}
			wanted = map[string][]grule{}
			tags["restart"] = true
		case x < 40:
			i := r.intn(len(desiredNames))
			c := desiredNames[i]
			var gs []grule
			if r.intn(4) == 0 {
				for n := r.intn(6); n > 0; n-- {
					gs = append(gs, genRule(r, desiredNames[i+1:]))
				}
				pool = append(pool, render(c, c, gs)...)
			} else {
				gs = versions[c][r.intn(len(versions[c]))]
			}
			force := r.intn(5) == 0
			if isForce[c] && !force {
				// force -> non-force downgrade (known finding force-downgrade-refcount-leak on unfixed trees): keep rare
				if r.intn(3) == 0 {
					if !dead {
						tags["force-downgrade"] = true
					}
				} else {
					force = true
				}
			}
			if !dead {
				isForce[c] = force
			}
			fb := "false"
			if force {
				fb = "true"
			}
			ops = append(ops, fmt.Sprintf("OpUpdate %s (CH %s %s)", qs(c), in.rules(c, c, gs), fb))
			sample = append(sample, fmt.Sprintf("UpdateChain %s %v force=%v", c, render(c, c, gs), force))
			if !dead {
				table.UpdateChain(&generictables.Chain{Name: c, Rules: rawRules(gs), ForceProgramming: force})
				wanted[c] = gs
				checkFuelBound(wanted)
				tags["fuel-bound-checked"] = true
			}
		case x < 48:
			c := desiredNames[r.intn(len(desiredNames))]
			if !dead {
				isForce[c] = false
			}
			ops = append(ops, "OpRemove "+qs(c))
			sample = append(sample, "RemoveChain "+c)
			if !dead {
				table.RemoveChainByName(c)
				delete(wanted, c)
			}
		case x < 62:
			kc := kchain[r.intn(3)]
			gs := hookV[kc][r.intn(2)]
			if r.intn(5) == 0 {
				gs = nil
			}
			ops = append(ops, fmt.Sprintf("OpInsert %s %s", qs(kc), in.rules(kc, kc, gs)))
			sample = append(sample, fmt.Sprintf("InsertOrAppendRules %s %v", kc, render(kc, kc, gs)))
			if !dead {
				table.InsertOrAppendRules(kc, rawRules(gs))
			}
		case x < 70:
			kc := kchain[r.intn(3)]
			gs := appV[kc][r.intn(2)]
			if r.intn(5) == 0 {
				gs = nil
			}
			ops = append(ops, fmt.Sprintf("OpAppend %s %s", qs(kc), in.rules(kc+"*appends*", kc, gs)))
			sample = append(sample, fmt.Sprintf("AppendRules %s %v", kc, render(kc+"*appends*", kc, gs)))
			if !dead {
				table.AppendRules(kc, rawRules(gs))
			}
		default:
			// Apply with a fault plan
			w.pSave, w.pRest, w.pMid = 0, 0, 0
			switch r.intn(8) {
			case 0:
				w.pRest = 400
			case 1:
				w.pSave = 400
			case 2:
				w.pMid = 500
			case 3:
				w.pRest, w.pSave, w.pMid = 200, 200, 200
			case 4:
				if r.intn(6) == 0 {
					w.pRest = 1000
				}
			}
			doApply()
		}
	}
	// resync scenario: converge, then another program changes only non-final rules of a programmed Felix chain
	// (length and last rule kept), the refresh timer fires while the wanted state is unchanged, Apply again
	if !dead && r.intn(5) < 3 {
		w.pSave, w.pRest, w.pMid = 0, 0, 0
		doApply()
		if !dead {
			if e, ok := w.innerEditOp(); ok {
				ops = append(ops, "OpEdit "+e, "OpInvalidate")
				sample = append(sample, "Edit (inner) "+e, "Invalidate")
				table.InvalidateDataplaneCache("verif")
				tags["oob-edit"] = true
				tags["resync-after-inner-edit"] = true
				doApply()
			}
		}
	}
	cfg := fmt.Sprintf("{| cf_prefixes := [%s]; cf_append := %v; cf_kchains := [%s]; cf_fix := %v; cf_nft := %v |}",
		joinQ(rulesdefs.AllHistoricChainNamePrefixes), appendMode, joinQ(kchain), leakFixed, nft)
	coq := fmt.Sprintf("{| c_cfg := %s; c_dall := %v; c_k0 := %s; c_ops := [%s]; c_obs := [%s] |}",
		cfg, !strict, k0coq, strings.Join(ops, "; "), strings.Join(obs, "; "))
	if appendMode {
		tags["mode:append"] = true
	} else {
		tags["mode:insert"] = true
	}
	if strict {
		tags["exec:first-match"] = true
	} else {
		tags["exec:mockdataplane"] = true
	}
	tl := make([]string, 0, len(tags))
	for t := range tags {
		tl = append(tl, t)
	}
	sort.Strings(tl)
	return line{Coq: coq, NT: successes >= 1 && rewrites >= 1 && (sawFault || tags["oob-edit"] || tags["k0:stale-owned-chain"] || tags["k0:owned-disturbed"] || tags["k0:hooks-present"]),
		Key: k0coq + "|" + strings.Join(ops, ";"), Sample: map[string]any{"append_mode": appendMode, "k0": k0, "trace": sample}, Tags: tl}
}

// checkFuelBound: hypothesis of c15_fuel_sufficient on a wanted chain map: the reference graph is acyclic and
// its longest-path rank (0 for absent chains) is at most the number of chains + 1.
func checkFuelBound(m map[string][]grule) {
	state := map[string]int{} // 1 = on stack, 2 = done
	rank := map[string]int{}
	var visit func(c string) int
	visit = func(c string) int {
		gs, ok := m[c]
		if !ok {
			return 0
		}
		if state[c] == 1 {
			panic("C15 driver: cyclic chain reference graph generated at " + c)
		}
		if state[c] == 2 {
			return rank[c]
		}
		state[c] = 1
		r := 0
		for _, g := range gs {
			if g.ref != "" {
				if v := visit(g.ref) + 1; v > r {
					r = v
				}
			}
		}
		if r == 0 {
			r = 1
		}
		state[c] = 2
		rank[c] = r
		return r
	}
	for c := range m {
		if visit(c) > len(m)+1 {
			panic("C15 driver: fuel bound violated")
		}
	}
}

func joinQ(xs []string) string {
	q := make([]string, len(xs))
	for i, x := range xs {
		q[i] = qs(x)
	}
	return strings.Join(q, "; ")
}

func main() {
	n := flag.Int("n", 100, "cases")
	seed := flag.Uint64("seed", 1, "seed")
	maxOps := flag.Int("maxops", 14, "max extra ops per case")
	flag.Parse()
	log.SetOutput(io.Discard)
	log.SetLevel(log.PanicLevel)
	gomega.RegisterFailHandler(func(message string, _ ...int) { panic(mockFailure(message)) })
	gomega.SetDefaultEventuallyTimeout(time.Second)
	leakFixed = probeLeakFix()
	enc := json.NewEncoder(os.Stdout)
	for i := 0; i < *n; i++ {
		_ = enc.Encode(oneCase(*seed, i, *maxOps))
	}
}
