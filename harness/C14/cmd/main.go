//go:build verif

// C14 correspondence driver: runs the REAL conntrack.Scanner + LivenessScanner (felix/bpf/conntrack) against an
// in-memory conntrack map with an injected clock.  Between the callbacks of the scanner's iteration the driver
// plays the dataplane (packets refreshing entries, state changes, evictions, clock ticks).  The kernel cleaner is
// replaced by a recorder: the observable is the content of the cleanup queue map each time the cleaner is run.
// One JSON line per case, carrying the case as a Coq term of type Verif.C14.Spec.case.
package main

import (
	"encoding/binary"
	"encoding/json"
	"flag"
	"fmt"
	"net"
	"os"
	"sort"
	"strings"
	"time"

	"github.com/sirupsen/logrus"
	"golang.org/x/sys/unix"

	"github.com/projectcalico/calico/felix/bpf/conntrack"
	"github.com/projectcalico/calico/felix/bpf/conntrack/timeouts"
	v4 "github.com/projectcalico/calico/felix/bpf/conntrack/v4"
	"github.com/projectcalico/calico/felix/bpf/maps"
	"github.com/projectcalico/calico/felix/bpf/mock"
	"github.com/projectcalico/calico/felix/timeshim"
)

type rng struct{ s uint64 }

func (r *rng) next() uint64 {
	r.s += 0x9e3779b97f4a7c15
	z := r.s
	z = (z ^ (z >> 30)) * 0xbf58476d1ce4e5b9
	z = (z ^ (z >> 27)) * 0x94d049bb133111eb
	return z ^ (z >> 31)
}
func (r *rng) intn(n int) int  { return int(r.next() % uint64(n)) }
func (r *rng) coin(p int) bool { return r.intn(100) < p }

// ---------------------------------------------------------------- clock

type clock struct {
	k int64 // kernel ns
	g int64 // go ns since base
}

var base = time.Date(2026, 1, 1, 0, 0, 0, 0, time.UTC)

func (c *clock) Now() time.Time                         { return base.Add(time.Duration(c.g)) }
func (c *clock) Since(t time.Time) time.Duration        { return c.Now().Sub(t) }
func (c *clock) Until(t time.Time) time.Duration        { return t.Sub(c.Now()) }
func (c *clock) After(t time.Duration) <-chan time.Time { return make(chan time.Time) }
func (c *clock) NewTimer(d timeshim.Duration) timeshim.Timer {
	panic("not used")
}
func (c *clock) KTimeNanos() int64 { return c.k }

// ---------------------------------------------------------------- model-side values

type mkey struct{ proto, id uint32 }

func (k mkey) coq() string { return fmt.Sprintf("(K %d %d)", k.proto, k.id) }

type mleg struct{ syn, ack, fin, rst bool }

type mentry struct {
	kind  int // 0 normal 1 fwd 2 rev 3 other
	ls    int64
	rev   mkey
	dsr   bool
	rstts int64 // rst_seen timestamp, 0 = none
	a, b  mleg
}

func b2s(b bool) string {
	if b {
		return "true"
	}
	return "false"
}
func (l mleg) coq() string {
	return fmt.Sprintf("(mkLeg %s %s %s %s)", b2s(l.syn), b2s(l.ack), b2s(l.fin), b2s(l.rst))
}
func (e mentry) coq() string {
	kn := []string{"KNormal", "KFwd", "KRev", "KOther"}[e.kind]
	return fmt.Sprintf("(mkE %s %d %s %s %d %s %s)", kn, e.ls, e.rev.coq(), b2s(e.dsr), e.rstts, e.a.coq(), e.b.coq())
}

// v6mode: the current case runs the IPv6 flavour (KeyV6/ValueV6, ipVersion 6 scanner, cali_v6_ccq value layout)
var v6mode bool

func realKey(k mkey) conntrack.Key {
	if k.proto == 0 && k.id == 0 {
		return conntrack.NewKey(0, net.IPv4zero, 0, net.IPv4zero, 0)
	}
	return conntrack.NewKey(uint8(k.proto), net.IPv4(10, 0, byte(k.id>>8), byte(k.id)), uint16(k.id), net.IPv4(10, 1, 0, 1), 80)
}

func realKeyV6(k mkey) conntrack.KeyV6 {
	if k.proto == 0 && k.id == 0 {
		return conntrack.NewKeyV6(0, net.IPv6zero, 0, net.IPv6zero, 0)
	}
	ipA := net.ParseIP("fd00::1")
	ipA[14], ipA[15] = byte(k.id>>8), byte(k.id)
	return conntrack.NewKeyV6(uint8(k.proto), ipA, uint16(k.id), net.ParseIP("fd00:1::1"), 80)
}

func keyBytes(k mkey) []byte {
	if v6mode {
		kb := realKeyV6(k)
		return append([]byte(nil), kb[:]...)
	}
	kb := realKey(k)
	return append([]byte(nil), kb[:]...)
}

func modelKey(b []byte) mkey {
	p := binary.LittleEndian.Uint32(b[0:4])
	if len(b) == conntrack.KeyV6Size {
		return mkey{p, uint32(binary.LittleEndian.Uint16(b[36:38]))}
	}
	id := uint32(binary.LittleEndian.Uint16(b[12:14]))
	return mkey{p, id}
}

func realLeg(l mleg) conntrack.Leg {
	return conntrack.Leg{SynSeen: l.syn, AckSeen: l.ack, FinSeen: l.fin, RstSeen: l.rst}
}

func realValue(e mentry) []byte {
	var flags uint32
	if e.dsr {
		flags |= v4.FlagNATFwdDsr
	}
	if v6mode {
		var v conntrack.ValueV6
		switch e.kind {
		case 0:
			v = conntrack.NewValueV6Normal(time.Duration(e.ls), flags, realLeg(e.a), realLeg(e.b))
		case 1:
			v = conntrack.NewValueV6NATForward(time.Duration(e.ls), flags, realKeyV6(e.rev))
		case 2:
			v = conntrack.NewValueV6NATReverse(time.Duration(e.ls), flags, realLeg(e.a), realLeg(e.b), net.IPv6zero, net.ParseIP("fd00:96::1"), 443)
		default:
			v = conntrack.NewValueV6Normal(time.Duration(e.ls), flags, realLeg(e.a), realLeg(e.b))
			v[v4.VoTypeV6] = 7
		}
		binary.LittleEndian.PutUint64(v[v4.VoRSTSeenV6:v4.VoRSTSeenV6+8], uint64(e.rstts))
		return append([]byte(nil), v[:]...)
	}
	var v conntrack.Value
	switch e.kind {
	case 0:
		v = conntrack.NewValueNormal(time.Duration(e.ls), flags, realLeg(e.a), realLeg(e.b))
	case 1:
		v = conntrack.NewValueNATForward(time.Duration(e.ls), flags, realKey(e.rev))
	case 2:
		v = conntrack.NewValueNATReverse(time.Duration(e.ls), flags, realLeg(e.a), realLeg(e.b), net.IPv4(0, 0, 0, 0), net.IPv4(10, 96, 0, 1), 443)
	default:
		v = conntrack.NewValueNormal(time.Duration(e.ls), flags, realLeg(e.a), realLeg(e.b))
		v[v4.VoType] = 7
	}
	binary.LittleEndian.PutUint64(v[v4.VoRSTSeen:v4.VoRSTSeen+8], uint64(e.rstts))
	return append([]byte(nil), v[:]...)
}

// newScanner builds the real Scanner + LivenessScanner of the current IP flavour over m, with the recording cleaner
func newScanner(m *ctMap, tm timeouts.Timeouts, clk *clock) (*conntrack.Scanner, *recorder) {
	lc := conntrack.NewLivenessScanner(tm, false, conntrack.WithTimeShim(clk))
	if v6mode {
		ccq := mock.NewMockMap(conntrack.MapParamsCleanupV6)
		rec := &recorder{ccq: ccq}
		return conntrack.NewScanner(m, conntrack.KeyV6FromBytes, conntrack.ValueV6FromBytes, nil, "Disabled", ccq, 6, rec, lc), rec
	}
	ccq := mock.NewMockMap(conntrack.MapParamsCleanup)
	rec := &recorder{ccq: ccq}
	return conntrack.NewScanner(m, conntrack.KeyFromBytes, conntrack.ValueFromBytes, nil, "Disabled", ccq, 4, rec, lc), rec
}

// ---------------------------------------------------------------- the conntrack map the scanner iterates

type event struct {
	kind string // tick packet set del
	k    mkey
	e    mentry
	d    int64
}

type ctMap struct {
	contents map[mkey]mentry
	clk      *clock
	order    []mkey          // iteration order of the current scan
	sched    map[int][]event // events played before the i-th callback (len(order) = after the last one)
	steps    []string        // Coq steps of the current scan
	nEvents  int
	eqSeen   int           // forward entries visited while their reverse entry carried the same last_seen
	fwdLive  map[mkey]bool // forward keys visited in the current scan while their reverse entry existed
}

func (m *ctMap) GetName() string            { return "cali_v4_ct" }
func (m *ctMap) EnsureExists() error        { return nil }
func (m *ctMap) Open() error                { return nil }
func (m *ctMap) Close() error               { return nil }
func (m *ctMap) MapFD() maps.FD             { panic("no fd") }
func (m *ctMap) Path() string               { return "/verif/ct" }
func (m *ctMap) CopyDeltaFromOldMap() error { return nil }
func (m *ctMap) Size() int                  { return 1 << 20 }
func (m *ctMap) Update(k, v []byte) error   { panic("scanner must not write the conntrack map") }
func (m *ctMap) BatchUpdate(ks, vs [][]byte, flags uint64) (int, error) {
	panic("scanner must not write the conntrack map")
}
func (m *ctMap) Delete(k []byte) error { panic("scanner must not delete from the conntrack map") }
func (m *ctMap) Get(k []byte) ([]byte, error) {
	e, ok := m.contents[modelKey(k)]
	if !ok {
		return nil, unix.ENOENT
	}
	return realValue(e), nil
}

func (m *ctMap) play(evs []event) {
	for _, ev := range evs {
		m.nEvents++
		switch ev.kind {
		case "tick":
			m.clk.k += ev.d
			m.clk.g += ev.d
			m.steps = append(m.steps, fmt.Sprintf("Tick %d %d", ev.d, ev.d))
		case "packet":
			// calico_ct_lookup: v->last_seen = now; NAT_FWD: tracking_v->last_seen = now, or delete if no reverse
			m.steps = append(m.steps, "Packet "+ev.k.coq())
			e, ok := m.contents[ev.k]
			if !ok {
				break
			}
			e.ls = m.clk.k
			if e.kind == 1 {
				r, ok := m.contents[e.rev]
				if !ok {
					delete(m.contents, ev.k)
					break
				}
				m.contents[ev.k] = e
				if e.rev != ev.k {
					r.ls = m.clk.k
					m.contents[e.rev] = r
				}
				break
			}
			m.contents[ev.k] = e
		case "set":
			e := ev.e
			m.steps = append(m.steps, fmt.Sprintf("DpSet %s %s", ev.k.coq(), e.coq()))
			e.ls = m.clk.k
			m.contents[ev.k] = e
		case "del":
			m.steps = append(m.steps, "DpDel "+ev.k.coq())
			delete(m.contents, ev.k)
		}
	}
}

func (m *ctMap) Iter(f maps.IterCallback) error {
	for i, k := range m.order {
		m.play(m.sched[i])
		e, ok := m.contents[k]
		if !ok {
			continue
		}
		m.steps = append(m.steps, "Judge "+k.coq())
		if e.kind == 1 {
			if re, ok := m.contents[e.rev]; ok {
				m.fwdLive[k] = true
				if re.ls == e.ls {
					m.eqSeen++
				}
			}
		}
		if f(keyBytes(k), realValue(e)) == maps.IterDelete {
			panic("scanner asked for an immediate delete although a BPF cleaner is configured")
		}
		// a callback takes time (Model.tick1)
		m.clk.k++
		m.clk.g++
	}
	m.play(m.sched[len(m.order)])
	return nil
}

// ---------------------------------------------------------------- the recording cleaner

type qent struct {
	k, rk   mkey
	ts, rts uint64
}

type recorder struct {
	ccq  *mock.Map
	runs [][]qent
}

func (r *recorder) Run(opts ...conntrack.RunOpt) (*conntrack.CleanupContext, error) {
	var l []qent
	for ks, vs := range r.ccq.Contents {
		var v interface {
			OtherNATKey() conntrack.KeyInterface
			Timestamp() uint64
			RevTimestamp() uint64
		}
		if v6mode {
			v = conntrack.CleanupValueV6FromBytes([]byte(vs))
		} else {
			v = conntrack.CleanupValueFromBytes([]byte(vs))
		}
		l = append(l, qent{modelKey([]byte(ks)), modelKey(v.OtherNATKey().AsBytes()), v.Timestamp(), v.RevTimestamp()})
	}
	sort.Slice(l, func(i, j int) bool {
		if l[i].k.proto != l[j].k.proto {
			return l[i].k.proto < l[j].k.proto
		}
		return l[i].k.id < l[j].k.id
	})
	r.runs = append(r.runs, l)
	// the kernel program removes every queue entry it has looked at
	r.ccq.Contents = map[string]string{}
	return &conntrack.CleanupContext{}, nil
}
func (r *recorder) Close() error { return nil }

// ---------------------------------------------------------------- generation

const sec = int64(time.Second)

func genTimeouts(r *rng) (timeouts.Timeouts, string) {
	switch r.intn(4) {
	case 0:
		return timeouts.DefaultTimeouts(), "tm:default"
	case 1:
		// small distinct values so that every ordering of the TCP rules occurs
		p := func() time.Duration { return time.Duration(int64(1+r.intn(12)) * 10 * sec) }
		return timeouts.Timeouts{CreationGracePeriod: 10 * time.Second, TCPSynSent: p(), TCPEstablished: p(), TCPFinsSeen: p(),
			TCPResetSeen: p(), UDPTimeout: p(), GenericTimeout: p(), ICMPTimeout: p()}, "tm:small"
	case 2:
		p := func() time.Duration { return time.Duration(int64(r.intn(300)) * sec) }
		return timeouts.Timeouts{CreationGracePeriod: 10 * time.Second, TCPSynSent: p(), TCPEstablished: p() * 20, TCPFinsSeen: p(),
			TCPResetSeen: p(), UDPTimeout: p(), GenericTimeout: p() * 3, ICMPTimeout: p()}, "tm:random"
	default:
		t := timeouts.DefaultTimeouts()
		t.TCPEstablished = 100 * time.Second // below the fixed 2 minutes of the RST-with-residual-traffic rule
		t.UDPTimeout = 0
		return t, "tm:boundary"
	}
}

func zc(v int64) string {
	if v < 0 {
		return fmt.Sprintf("(%d)", v)
	}
	return fmt.Sprintf("%d", v)
}

func tmCoq(t timeouts.Timeouts) string {
	return fmt.Sprintf("(mkTm %s %s %s %s %s %s %s)", zc(int64(t.TCPSynSent)), zc(int64(t.TCPEstablished)), zc(int64(t.TCPFinsSeen)),
		zc(int64(t.TCPResetSeen)), zc(int64(t.UDPTimeout)), zc(int64(t.GenericTimeout)), zc(int64(t.ICMPTimeout)))
}

func genLeg(r *rng, shape int) (mleg, mleg) {
	switch shape {
	case 0: // syn sent
		return mleg{syn: true}, mleg{}
	case 1: // established
		return mleg{syn: true, ack: true}, mleg{syn: true, ack: true}
	case 2: // one fin
		return mleg{syn: true, ack: true, fin: true}, mleg{syn: true, ack: true}
	case 3: // both fins
		return mleg{syn: true, ack: true, fin: true}, mleg{syn: true, ack: true, fin: true}
	case 4: // rst
		return mleg{syn: true, ack: true}, mleg{syn: true, ack: r.coin(50), rst: true}
	default:
		rb := func() bool { return r.coin(50) }
		return mleg{rb(), rb(), rb(), rb()}, mleg{rb(), rb(), rb(), rb()}
	}
}

var protos = []uint32{6, 6, 6, 17, 17, 1, 58, 132, 47}

// last_seen relative to now: mostly around the timeouts that can apply
func genAge(r *rng, t timeouts.Timeouts) int64 {
	cands := []int64{int64(t.TCPSynSent), int64(t.TCPEstablished), int64(t.TCPFinsSeen), int64(t.TCPResetSeen),
		int64(t.UDPTimeout), int64(t.GenericTimeout), int64(t.ICMPTimeout), 120 * sec}
	c := cands[r.intn(len(cands))]
	switch r.intn(8) {
	case 0:
		return c // exactly at the timeout: not expired
	case 1:
		return c + 1
	case 2:
		return c - 1
	case 3:
		return c + sec + 1 + int64(r.intn(3))*sec // past the cache slack
	case 4:
		return c + int64(r.intn(int(sec)))
	case 5:
		return int64(r.intn(5)) * sec
	case 6:
		return c + 3600*sec
	default:
		return int64(r.next() % uint64(2*c+sec))
	}
}

type gen struct {
	r      *rng
	t      timeouts.Timeouts
	nextID uint32
}

func (g *gen) freshKey(p uint32) mkey { g.nextID++; return mkey{p, g.nextID} }

func (g *gen) tracking(kind int, now int64) mentry {
	a, b := genLeg(g.r, g.r.intn(7))
	ls := now - genAge(g.r, g.t)
	if ls < 1 {
		ls = 1
	}
	// rst_seen: mostly none; otherwise a time at or after last_seen, anywhere between it and now (the 120 s rule must
	// be measured from last_seen, never from this value)
	var rst int64
	if g.r.coin(25) {
		rst = ls
		if now > ls {
			rst = ls + int64(g.r.next()%uint64(now-ls+1))
		}
		if g.r.coin(30) {
			rst = now - int64(g.r.intn(240))*sec
		}
		if rst < 1 {
			rst = 1
		}
	}
	return mentry{kind: kind, ls: ls, dsr: g.r.coin(15), rstts: rst, a: a, b: b}
}

// treeFixed: does handleNATEntries of the tree under test look the reverse entry up when a forward entry and the
// timestamp returned by the entry scanner are equal (fixes/C14-fwd-equal-timestamps.patch) or not (pinned code)?
// Probed once: an expired NAT pair whose two entries carry the same last_seen.
var treeFixed bool

func probe() bool {
	clk := &clock{k: 10000 * sec, g: 0}
	rk, fk := mkey{17, 1}, mkey{17, 2}
	m := &ctMap{contents: map[mkey]mentry{
		rk: {kind: 2, ls: 100 * sec},
		fk: {kind: 1, ls: 100 * sec, rev: rk},
	}, clk: clk, order: []mkey{fk, rk}, sched: map[int][]event{}, fwdLive: map[mkey]bool{}}
	sc, rec := newScanner(m, timeouts.DefaultTimeouts(), clk)
	sc.Scan()
	for _, q := range rec.runs[0] {
		if q.k == fk {
			return q.rk == rk
		}
	}
	return false
}

func main() {
	n := flag.Int("n", 100, "cases")
	seed := flag.Uint64("seed", 1, "seed")
	flag.Parse()
	logrus.SetLevel(logrus.PanicLevel)
	treeFixed = probe()
	r := &rng{s: *seed*7919 + 14}
	enc := json.NewEncoder(os.Stdout)
	for i := 0; i < *n; i++ {
		switch m := i % 20; {
		case m < 12:
			oneCase(r, enc, i)
		case m < 19:
			doneCase(r, enc)
		default:
			cfgCase(r, enc)
		}
	}
	_ = enc.Encode(map[string]any{"stats": map[string]any{"handleNATEntries_looks_up_reverse_on_equal_timestamps": treeFixed}})
}

func oneCase(r *rng, enc *json.Encoder, idx int) {
	tm, tmTag := genTimeouts(r)
	g := &gen{r: r, t: tm}
	tags := []string{tmTag}
	v6mode = r.coin(40)
	if v6mode {
		tags = append(tags, "ip:v6")
	} else {
		tags = append(tags, "ip:v4")
	}
	k0 := int64(5000*sec) + int64(r.next()%uint64(1000*sec))
	if r.coin(3) {
		k0 = 0
		tags = append(tags, "clock:zero")
	}
	clk := &clock{k: k0, g: int64(r.next() % uint64(100*sec))}
	g0 := clk.g
	m := &ctMap{contents: map[mkey]mentry{}, clk: clk}

	// initial conntrack table
	nPairs, nEq, nOrphan, nShared := 0, 0, 0, 0
	nEnt := 1 + r.intn(7)
	for j := 0; j < nEnt; j++ {
		p := protos[r.intn(len(protos))]
		switch c := r.intn(10); {
		case c < 4: // normal entry
			if r.coin(4) {
				p = 0
			}
			m.contents[g.freshKey(p)] = g.tracking(0, k0)
		case c < 8: // NAT pair
			if p != 6 && p != 17 {
				p = 6
			}
			rk, fk := g.freshKey(p), g.freshKey(p)
			re := g.tracking(2, k0)
			fe := mentry{kind: 1, rev: rk}
			switch r.intn(3) {
			case 0: // forward entry created just after the reverse entry, refreshed never (all traffic hit the reverse key)
				fe.ls = re.ls - int64(1+r.intn(1000))
				if fe.ls < 1 {
					fe.ls = 1
				}
			case 1: // last packet hit the forward key: both carry the same timestamp (conntrack.h 787/835)
				fe.ls = re.ls
				nEq++
			default:
				fe.ls = re.ls - int64(r.intn(int(100*sec)))
				if fe.ls < 1 {
					fe.ls = 1
				}
			}
			if fe.ls == re.ls && r.intn(3) != 1 {
				nEq++
			}
			m.contents[rk] = re
			m.contents[fk] = fe
			nPairs++
			if r.coin(10) { // a second forward entry for the same reverse entry
				f2 := g.freshKey(p)
				m.contents[f2] = mentry{kind: 1, rev: rk, ls: fe.ls + 7}
				nShared++
			}
		case c < 9: // forward entry without reverse entry
			if p != 6 && p != 17 {
				p = 17
			}
			rk, fk := g.freshKey(p), g.freshKey(p)
			ls := k0 - genAge(r, tm)
			if ls < 1 {
				ls = 1
			}
			m.contents[fk] = mentry{kind: 1, rev: rk, ls: ls}
			nOrphan++
		default: // unknown type
			e := g.tracking(3, k0)
			m.contents[g.freshKey(p)] = e
		}
	}
	_ = nEq

	var ct0 []string
	keys0 := sortedKeys(m.contents)
	for _, k := range keys0 {
		ct0 = append(ct0, fmt.Sprintf("(CE %s %s)", k.coq(), m.contents[k].coq()))
	}

	sc, rec := newScanner(m, tm, clk)

	nScans := 1 + r.intn(3)
	var segs []string
	nAlone := 0
	for s := 0; s < nScans; s++ {
		// iteration order: a random permutation of the keys present now
		ks := sortedKeys(m.contents)
		for a := len(ks) - 1; a > 0; a-- {
			b := r.intn(a + 1)
			ks[a], ks[b] = ks[b], ks[a]
		}
		m.order = ks
		m.sched = map[int][]event{}
		m.steps = nil
		m.fwdLive = map[mkey]bool{}
		// between two scans time passes
		if s > 0 {
			d := int64(r.intn(20)) * sec / 2
			if r.coin(30) {
				d = int64(r.intn(200)) * sec
			}
			m.sched[0] = append(m.sched[0], event{kind: "tick", d: d})
		}
		nEv := r.intn(5)
		if r.coin(25) {
			nEv = 0
		}
		for e := 0; e < nEv; e++ {
			pos := r.intn(len(ks) + 1)
			var ev event
			any := func() mkey {
				if len(ks) == 0 || r.coin(5) {
					return g.freshKey(6)
				}
				return ks[r.intn(len(ks))]
			}
			switch c := r.intn(10); {
			case c < 3:
				d := int64(r.intn(2500)) * sec / 1000
				if r.coin(20) {
					d = int64(r.intn(100)) * sec
				}
				ev = event{kind: "tick", d: d}
			case c < 7:
				ev = event{kind: "packet", k: any()}
			case c < 9:
				k := any()
				cur, ok := m.contents[k]
				var ne mentry
				if ok && cur.kind == 1 {
					ne = cur
					if r.coin(30) { // re-pointed forward entry (NAT exists for TCP/UDP/SCTP only: never to a protocol-0 key)
						if nk := any(); nk.proto != 0 {
							ne.rev = nk
						}
					}
				} else {
					kind := 0
					if ok {
						kind = cur.kind
					}
					if kind == 3 {
						kind = 0
					}
					ne = g.tracking(kind, clk.k)
				}
				ev = event{kind: "set", k: k, e: ne}
			default:
				ev = event{kind: "del", k: any()}
			}
			m.sched[pos] = append(m.sched[pos], ev)
		}
		before := len(rec.runs)
		sc.Scan()
		if len(rec.runs) != before+1 {
			panic(fmt.Sprintf("cleaner ran %d times in one scan", len(rec.runs)-before))
		}
		segs = append(segs, "["+strings.Join(m.steps, "; ")+"]")
		for _, q := range rec.runs[len(rec.runs)-1] {
			if q.rk.proto == 0 && m.fwdLive[q.k] {
				nAlone++
			}
		}
	}

	var obs []string
	nQueued := 0
	for _, run := range rec.runs {
		var l []string
		for _, q := range run {
			l = append(l, fmt.Sprintf("(QE %s %s %d %d)", q.k.coq(), q.rk.coq(), q.ts, q.rts))
			nQueued++
		}
		obs = append(obs, "["+strings.Join(l, "; ")+"]")
	}

	coq := fmt.Sprintf("(AScan (mkCase %s %s [%s] %d %d [%s] [%s]))", tmCoq(tm), b2s(treeFixed), strings.Join(ct0, "; "), k0, g0,
		strings.Join(segs, "; "), strings.Join(obs, "; "))
	coq = zscope(coq)
	if nPairs > 0 {
		tags = append(tags, "nat-pair")
	}
	if nAlone > 0 {
		// a forward entry was queued on its own (dummy reverse key) although its reverse entry existed when it was judged
		tags = append(tags, "fwd-queued-alone-with-reverse-present")
	}
	if m.eqSeen > 0 {
		tags = append(tags, "nat-pair-equal-timestamps")
	}
	if nOrphan > 0 {
		tags = append(tags, "orphan-fwd")
	}
	if nShared > 0 {
		tags = append(tags, "shared-reverse")
	}
	if m.nEvents > 0 {
		tags = append(tags, "interleaved-dataplane-events")
	}
	if nQueued > 0 {
		tags = append(tags, "queued")
	}
	tags = append(tags, fmt.Sprintf("scans:%d", nScans))
	line := map[string]any{
		"coq":  coq,
		"nt":   nQueued > 0 && (nPairs > 0 || m.nEvents > 0),
		"key":  coq,
		"tags": tags,
	}
	if idx < 3 {
		line["sample"] = map[string]any{"timeouts": fmt.Sprintf("%+v", tm), "entries": ct0, "scans": segs, "queue_per_scan": obs}
	}
	if err := enc.Encode(line); err != nil {
		panic(err)
	}
}

// the case term is written with plain integer literals; everything that is not a key component is a Z
func zscope(s string) string { return s }

func sortedKeys(m map[mkey]mentry) []mkey {
	var ks []mkey
	for k := range m {
		ks = append(ks, k)
	}
	sort.Slice(ks, func(i, j int) bool {
		if ks[i].proto != ks[j].proto {
			return ks[i].proto < ks[j].proto
		}
		return ks[i].id < ks[j].id
	})
	return ks
}

// ---------------------------------------------------------------- direct calls: EntryExpired / EntryFinished

var reasonCode = map[string]int{
	"RST seen":  1,
	"FINs seen": 2,
	"no traffic on conn with RST with residual traffic for too long": 3,
	"no traffic on established flow for too long":                    4,
	"no traffic on pre-established flow for too long":                5,
	"no traffic on ICMP flow for too long":                           6,
	"no traffic on UDP flow for too long":                            7,
	"no traffic on generic IP flow for too long":                     8,
}

func optCoq(reason string, done bool) string {
	if !done {
		return "None"
	}
	c, ok := reasonCode[reason]
	if !ok {
		c = 99
	}
	return fmt.Sprintf("(Some %d%%N)", c)
}

func doneCase(r *rng, enc *json.Encoder) {
	tm, tmTag := genTimeouts(r)
	g := &gen{r: r, t: tm}
	v6mode = r.coin(40)
	now := int64(5000*sec) + int64(r.next()%uint64(1000*sec))
	p := []uint32{6, 6, 6, 6, 17, 1, 58, 132, 47, 0}[r.intn(10)]
	kind := []int{0, 0, 2}[r.intn(3)]
	e := g.tracking(kind, now)
	var val conntrack.ValueInterface
	if v6mode {
		val = conntrack.ValueV6FromBytes(realValue(e))
	} else {
		val = conntrack.ValueFromBytes(realValue(e))
	}
	re, de := conntrack.EntryExpired(tm, now, uint8(p), val)
	rf, df := conntrack.EntryFinished(tm, now, uint8(p), val)
	coq := fmt.Sprintf("(ADone %s %d %d%%N %s %s %s)", tmCoq(tm), now, p, e.coq(), optCoq(re, de), optCoq(rf, df))
	tags := []string{"direct:entryDone", tmTag, fmt.Sprintf("proto:%d", p)}
	if v6mode {
		tags = append(tags, "ip:v6")
	} else {
		tags = append(tags, "ip:v4")
	}
	if e.rstts != 0 {
		tags = append(tags, "rst-time-recorded")
	}
	if de {
		tags = append(tags, fmt.Sprintf("expired-rule:%d", reasonCode[re]))
	}
	if df && !de {
		tags = append(tags, "finished-not-expired")
	}
	_ = enc.Encode(map[string]any{"coq": coq, "nt": de || df, "key": coq, "tags": tags})
}

// ---------------------------------------------------------------- timeouts.GetTimeouts

var cfgFields = []string{"TCPSynSent", "TCPEstablished", "TCPFinsSeen", "TCPResetSeen", "UDPTimeout", "GenericTimeout", "ICMPTimeout"}

func cfgCase(r *rng, enc *json.Encoder) {
	cfg := map[string]string{}
	var l []string
	for i, f := range cfgFields {
		switch r.intn(4) {
		case 0: // a duration
			d := time.Duration(r.intn(7200)) * time.Second
			if r.coin(20) {
				d = time.Duration(r.intn(100000)) * time.Millisecond
			}
			if r.coin(5) {
				d = -d
			}
			cfg[f] = d.String()
			l = append(l, fmt.Sprintf("(%d%%N, Some %s)", i, zc(int64(d))))
		case 1: // not a duration: the default stays
			cfg[f] = []string{"bogus", "", "12", "1 hour"}[r.intn(4)]
			if _, err := time.ParseDuration(cfg[f]); err == nil {
				cfg[f] = "bogus"
			}
			l = append(l, fmt.Sprintf("(%d%%N, None)", i))
		}
	}
	if r.coin(30) {
		cfg["CreationGracePeriod"] = "3s"
		l = append(l, "(7%N, Some 3000000000)")
	}
	if r.coin(30) {
		cfg["NoSuchTimeout"] = "5s"
		l = append(l, "(9%N, Some 5000000000)")
	}
	got := timeouts.GetTimeouts(cfg)
	coq := fmt.Sprintf("(ACfg [%s] %s)", strings.Join(l, "; "), tmCoq(got))
	_ = enc.Encode(map[string]any{"coq": coq, "nt": len(l) > 0, "key": coq, "tags": []string{"direct:GetTimeouts"}})
}
