//go:build verif

// C27 driver.
//
//	-gen        : TRANSLATOR.  Reflects over the real config package (config.Params(), Param.GetMetadata(),
//	              config.New(), SourcesInDescendingOrder, Source.Local(), Source.String()) and prints Gen.v.
//	(default)   : correspondence.  Generates histories of Config.UpdateFrom calls, runs them on the REAL code
//	              (repeatedly, so that a dependence on Go's map iteration order shows up as several distinct
//	              observations) and prints one JSON line per case carrying the case as a Coq term.
package main

import (
	"encoding/json"
	"flag"
	"fmt"
	"hash/fnv"
	"io"
	"net"
	"os"
	"reflect"
	"regexp"
	"sort"
	"strings"

	"github.com/sirupsen/logrus"

	"github.com/projectcalico/calico/felix/config"
	"github.com/projectcalico/calico/felix/proto"
)

// ------------------------------------------------------------------------------------------- rng

type rng struct{ s uint64 }

func (r *rng) next() uint64 {
	r.s += 0x9e3779b97f4a7c15
	z := r.s
	z = (z ^ (z >> 30)) * 0xbf58476d1ce4e5b9
	z = (z ^ (z >> 27)) * 0x94d049bb133111eb
	return z ^ (z >> 31)
}
func (r *rng) intn(n int) int { return int(r.next() % uint64(n)) }
func (r *rng) pick(xs []string) string {
	return xs[r.intn(len(xs))]
}

// ------------------------------------------------------------------------------------------- rendering

var regexpPtrType = reflect.TypeOf((*regexp.Regexp)(nil))
var ipType = reflect.TypeOf(net.IP(nil))

// render gives a canonical text for any value a Config field can hold: no addresses, maps sorted.
func render(x any) string {
	if x == nil {
		return "<nil>"
	}
	return short(renderV(reflect.ValueOf(x)))
}

// short keeps the case files small (Coq elaborates every character): a long rendering is replaced by its first
// characters and a 64-bit FNV-1a digest of the whole text.  renderLong gives the full text for the samples.
func short(s string) string {
	if len(s) <= 28 {
		return s
	}
	h := fnv.New64a()
	_, _ = h.Write([]byte(s))
	return fmt.Sprintf("%s~%d~%016x", s[:10], len(s), h.Sum64())
}

func renderV(v reflect.Value) string {
	if !v.IsValid() {
		return "<nil>"
	}
	t := v.Type()
	if t == regexpPtrType {
		if v.IsNil() {
			return "re:<nil>"
		}
		return "re:" + v.Interface().(*regexp.Regexp).String()
	}
	if t == ipType {
		if v.IsNil() {
			return "ip:<nil>"
		}
		return "ip:" + v.Interface().(net.IP).String()
	}
	switch v.Kind() {
	case reflect.Ptr, reflect.Interface:
		if v.IsNil() {
			return "<nil>"
		}
		return "&" + renderV(v.Elem())
	case reflect.Slice, reflect.Array:
		if v.Kind() == reflect.Slice && v.IsNil() {
			return "[]nil"
		}
		parts := make([]string, v.Len())
		for i := range parts {
			parts[i] = renderV(v.Index(i))
		}
		return "[" + strings.Join(parts, " ") + "]"
	case reflect.Map:
		if v.IsNil() {
			return "map:nil"
		}
		parts := make([]string, 0, v.Len())
		for _, k := range v.MapKeys() {
			parts = append(parts, renderV(k)+"="+renderV(v.MapIndex(k)))
		}
		sort.Strings(parts)
		return "map{" + strings.Join(parts, " ") + "}"
	case reflect.Struct:
		parts := make([]string, 0, v.NumField())
		for i := 0; i < v.NumField(); i++ {
			f := v.Field(i)
			if !f.CanInterface() {
				parts = append(parts, fmt.Sprintf("%s:%v", t.Field(i).Name, f))
				continue
			}
			parts = append(parts, t.Field(i).Name+":"+renderV(f))
		}
		return "{" + strings.Join(parts, " ") + "}"
	case reflect.String:
		return fmt.Sprintf("%q", v.String())
	default:
		return fmt.Sprintf("%v", v.Interface())
	}
}

// bs prints a Go string as a Coq term of type `bytes`.
func bs(s string) string {
	plain := true
	for i := 0; i < len(s); i++ {
		if s[i] < 0x20 || s[i] > 0x7e {
			plain = false
			break
		}
	}
	if plain {
		return `(b "` + strings.ReplaceAll(s, `"`, `""`) + `")`
	}
	parts := make([]string, len(s))
	for i := 0; i < len(s); i++ {
		parts[i] = fmt.Sprint(s[i])
	}
	return "[" + strings.Join(parts, ";") + "]"
}

func cb(x bool) string {
	if x {
		return "true"
	}
	return "false"
}

// ------------------------------------------------------------------------------------------- translator

func sortedParamNames() []string {
	ps := config.Params()
	names := make([]string, 0, len(ps))
	for lk := range ps {
		names = append(names, lk)
	}
	sort.Strings(names)
	return names
}

func fieldOf(c *config.Config, name string) any {
	return reflect.ValueOf(c).Elem().FieldByName(name).Interface()
}

func gen() string {
	var sb strings.Builder
	sb.WriteString("(* GENERATED on every run by harness/C27 (-gen) from the config package of $VERIF_REPO.  Do not edit. *)\n")
	sb.WriteString("From Coq Require Import List NArith String.\nFrom Verif.C27 Require Import Model Spec.\nImport ListNotations.\nOpen Scope N_scope.\nOpen Scope string_scope.\n\n")
	sb.WriteString("(* config.SourcesInDescendingOrder, as uint8 values *)\nDefinition srcs_desc : list N := [")
	for i, s := range config.SourcesInDescendingOrder {
		if i > 0 {
			sb.WriteString("; ")
		}
		fmt.Fprintf(&sb, "%d", uint8(s))
	}
	sb.WriteString("].\n(* Source.String() and Source.Local() for the values 0..7 *)\nDefinition src_names : list (N * string) := [")
	for i := 0; i < 8; i++ {
		if i > 0 {
			sb.WriteString("; ")
		}
		fmt.Fprintf(&sb, "(%d, \"%s\")", i, strings.ReplaceAll(config.Source(i).String(), `"`, `""`))
	}
	sb.WriteString("].\nDefinition src_local_tbl : list (N * bool) := [")
	for i := 0; i < 8; i++ {
		if i > 0 {
			sb.WriteString("; ")
		}
		fmt.Fprintf(&sb, "(%d, %s)", i, cb(config.Source(i).Local()))
	}
	sb.WriteString("].\n\n(* knownParams: Metadata of every parameter (name, Local, DieOnParseFailure, NonZero, rendered ZeroValue,\n   rendered Default, rendered field of config.New()) *)\n")
	sb.WriteString("Definition param_table_src : list bmeta := [\n")
	c0 := config.New()
	ps := config.Params()
	for i, lk := range sortedParamNames() {
		md := ps[lk].GetMetadata()
		if i > 0 {
			sb.WriteString(";\n")
		}
		fmt.Fprintf(&sb, "  mk_pmeta %s %s %s %s %s %s %s", bs(md.Name), cb(md.Local), cb(md.DieOnParseFailure), cb(md.NonZero),
			bs(render(md.ZeroValue)), bs(render(md.Default)), bs(render(fieldOf(c0, md.Name))))
	}
	sb.WriteString("\n].\n(* the keys of knownParams *)\nDefinition param_keys_src : list bytes := [\n")
	for i, lk := range sortedParamNames() {
		if i > 0 {
			sb.WriteString(";\n")
		}
		sb.WriteString("  " + bs(lk))
	}
	sb.WriteString("\n].\n")
	sb.WriteString("Definition param_table : list bmeta := Eval vm_compute in param_table_src.\n")
	sb.WriteString("Definition known_table : list (bytes * bmeta) := Eval vm_compute in combine param_keys_src param_table_src.\n")
	fmt.Fprintf(&sb, "(* uint8(config.InternalOverride) *)\nDefinition override_src : N := %d.\n", uint8(config.InternalOverride))
	sb.WriteString("Definition genv : env := mk_env known_table srcs_desc src_local_tbl override_src.\n")
	return sb.String()
}

// ------------------------------------------------------------------------------------------- cases

type srcKvs struct {
	src config.Source
	kvs [][2]string
}

type update struct {
	src config.Source
	kvs [][2]string // in a fixed (generated) order; the real code sees a map
	// UpdateFromConfigUpdate: the whole per-source raw config of the message (isAll)
	isAll bool
	all   []srcKvs
	// OverrideParam(ovName, ovVal); src/kvs then hold InternalOverride and the internalOverrides map after the call
	// (tracked by the generator) so that the bookkeeping can treat it like the UpdateFrom it performs
	isOver       bool
	ovName, ovVal string
}

type observation struct {
	errs    []bool
	cerrs   []bool
	changed []*[]string // nil = not observed (this call or the previous one failed)
	vals    []string
	raws    [][2]string
	fresh   bool // a fresh Config fed this Config's current sources agrees on the watched fields and RawValues
}

func (o observation) key() string {
	var ch []string
	for _, c := range o.changed {
		if c == nil {
			ch = append(ch, "-")
		} else {
			ch = append(ch, strings.Join(*c, ","))
		}
	}
	return fmt.Sprint(o.errs, "|", o.cerrs, "|", ch, "|", o.vals, "|", o.raws, "|", o.fresh)
}

func kvs0(u update) []string {
	var kvs []string
	for _, kv := range u.kvs {
		kvs = append(kvs, fmt.Sprintf("(%s, %s)", bs(kv[0]), bs(kv[1])))
	}
	return kvs
}

func uf(src config.Source, kvs [][2]string) update { return update{src: src, kvs: kvs} }

func ufs(sks []srcKvs) []update {
	var out []update
	for _, sk := range sks {
		out = append(out, uf(sk.src, sk.kvs))
	}
	return out
}

func runOnce(ups []update, watch []string) observation {
	c := config.New()
	var o observation
	lastErr := false
	prevOK := true
	for _, u := range ups {
		var err error
		var ch []string
		if u.isAll {
			msg := &proto.ConfigUpdate{Config: map[string]string{}, SourceToRawConfig: map[uint32]*proto.RawConfig{}}
			for _, sk := range u.all {
				m := make(map[string]string, len(sk.kvs))
				for _, kv := range sk.kvs {
					m[kv[0]] = kv[1]
				}
				msg.SourceToRawConfig[uint32(sk.src)] = &proto.RawConfig{Source: sk.src.String(), Config: m}
			}
			changedFields, e := c.UpdateFromConfigUpdate(msg)
			err = e
			if e == nil {
				ch = changedFields.Slice()
				sort.Strings(ch)
				if ch == nil {
					ch = []string{}
				}
			}
		} else if u.isOver {
			changed, e := c.OverrideParam(u.ovName, u.ovVal)
			err = e
			ch = []string{}
			if changed {
				ch = []string{"*"}
			}
		} else {
			m := make(map[string]string, len(u.kvs))
			for _, kv := range u.kvs {
				m[kv[0]] = kv[1]
			}
			changed, e := c.UpdateFrom(m, u.src)
			err = e
			ch = []string{}
			if changed {
				ch = []string{"*"}
			}
		}
		lastErr = err != nil
		o.errs = append(o.errs, lastErr)
		o.cerrs = append(o.cerrs, c.Err != nil)
		if prevOK && err == nil {
			cc := ch
			o.changed = append(o.changed, &cc)
		} else {
			o.changed = append(o.changed, nil)
		}
		prevOK = err == nil
	}
	if !lastErr && len(ups) > 0 {
		for _, n := range watch {
			o.vals = append(o.vals, render(fieldOf(c, n)))
		}
		rv := c.RawValues()
		keys := make([]string, 0, len(rv))
		for k := range rv {
			keys = append(keys, k)
		}
		sort.Strings(keys)
		for _, k := range keys {
			o.raws = append(o.raws, [2]string{k, rv[k]})
		}
		// a fresh Config fed exactly the sources this Config holds now (its own ToConfigUpdate message) must agree on
		// EVERY parameter and on RawValues(): the result is a function of the current sources, not of the history
		fresh := config.New()
		_, ferr := fresh.UpdateFromConfigUpdate(c.ToConfigUpdate())
		o.fresh = ferr == nil
		if ferr == nil {
			for _, p := range config.Params() {
				n := p.GetMetadata().Name
				if render(fieldOf(c, n)) != render(fieldOf(fresh, n)) {
					o.fresh = false
				}
			}
			frv := fresh.RawValues()
			if len(frv) != len(rv) {
				o.fresh = false
			}
			for k, v := range rv {
				if fv, ok := frv[k]; !ok || fv != v {
					o.fresh = false
				}
			}
		}
	} else {
		o.fresh = true
	}
	return o
}

func runMany(ups []update, watch []string, reps int) []observation {
	seen := map[string]bool{}
	var out []observation
	for i := 0; i < reps; i++ {
		o := runOnce(ups, watch)
		if !seen[o.key()] {
			seen[o.key()] = true
			out = append(out, o)
		}
	}
	sort.Slice(out, func(i, j int) bool { return out[i].key() < out[j].key() })
	return out
}

// probe: which variant of resolve() is this tree?
func probe() (fixed, sorted bool) {
	o := runOnce(ufs([]srcKvs{
		{config.EnvironmentVariable, [][2]string{{"chaininsertmode", "append"}}},
		{config.DatastoreGlobal, [][2]string{{"ChainInsertMode", "garbage"}}},
	}), nil)
	fixed = !o.errs[1]
	obs := runMany(ufs([]srcKvs{{config.ConfigFile, [][2]string{{"HealthHost", "1.2.3.4"}, {"healthhost", "5.6.7.8"}, {"HEALTHHOST", "9.9.9.9"}}}}),
		[]string{"HealthHost"}, 200)
	sorted = len(obs) == 1
	return
}

type pp struct {
	name string
	good []string
	bad  []string
}

// representative parameters of every type and flag combination, with raw values expected to be valid / invalid
// (the real Parse decides; these lists only steer the distribution)
var pool = []pp{
	{"ChainInsertMode", []string{"append", "insert", "Append", "INSERT"}, []string{"garbage", "prepend"}},                  // oneof non-zero die
	{"IptablesFilterAllowAction", []string{"RETURN", "accept"}, []string{"nope"}},                                        // oneof non-zero die
	{"DefaultEndpointToHostAction", []string{"RETURN", "ACCEPT", "drop"}, []string{"REJECT!"}},                           // oneof non-zero die
	{"MetadataPort", []string{"8080", "0", "65535", "0x50"}, []string{"70000", "x", "-1"}},                               // int range die
	{"MetadataAddr", []string{"10.0.0.1", "meta.example.com"}, []string{"bad!host", "a b"}},                              // hostname die
	{"InterfacePrefix", []string{"cali,tap", "eth", "cali"}, []string{"a b", "ca/li"}},                                   // iface-list non-zero die
	{"IptablesMarkMask", []string{"0xff000000", "0xffff0000", "4278190080"}, []string{"0", "zz", "0x1"}},                 // mark-bitmask non-zero die
	{"FailsafeInboundHostPorts", []string{"tcp:22,udp:53", "tcp:10.0.0.0/8:22", "22"}, []string{"tcp:xx", "sctp:1:2:3"}}, // port-list die
	{"ExternalNodesCIDRList", []string{"10.0.0.0/8,192.168.0.0/16", "1.1.1.1/32"}, []string{"10.0.0.0/33", "x"}},         // cidr-list die
	{"RouteTableRange", []string{"1-250", "10-20"}, []string{"0-9999999999", "abc", "5"}},                                // route-table-range die
	{"RouteTableRanges", []string{"1-250", "10-20,30-40"}, []string{"abc", "1-"}},                                        // route-table-ranges die
	{"OpenstackRegion", []string{"region1", "eu"}, []string{"bad_region", "Region/1"}},                                   // region die
	{"LogFilePath", []string{"/var/log/x.log", "relative.log"}, []string{}},                                              // file die
	{"DatastoreType", []string{"kubernetes", "etcdv3", "Kubernetes"}, []string{"zookeeper"}},                             // oneof non-zero die local
	{"FelixHostname", []string{"node-1", "host.example.com"}, []string{"Bad_Host!", "a b"}},                              // hostname local non-zero
	{"EtcdAddr", []string{"10.0.0.1:2379", "etcd:2379"}, []string{"::bad::", "nohost"}},                                  // authority local
	{"EtcdScheme", []string{"https", "http"}, []string{"ftp"}},                                                           // oneof local
	{"TyphaReadTimeout", []string{"45", "1.5"}, []string{"abc"}},                                                         // seconds local
	{"EtcdEndpoints", []string{"https://a:2379,https://b:2379", "http://127.0.0.1:2379"}, []string{"ftp//x", "a,b"}},     // endpoint-list local
	{"TyphaK8sNamespace", []string{"calico-system", "kube-system"}, []string{"bad ns"}},                                  // string non-zero local
	{"BPFLogLevel", []string{"debug", "Info", "off"}, []string{"verbose"}},                                               // oneof non-zero
	{"BPFMapSizeRoute", []string{"1000", "262144"}, []string{"abc", "1e3"}},                                              // int non-zero
	{"MaxIpsetSize", []string{"65536", "1"}, []string{"big"}},                                                            // int non-zero
	{"WireguardInterfaceName", []string{"wg0", "wireguard.cali"}, []string{"bad iface", "a/b"}},                          // iface-param non-zero
	{"HealthHost", []string{"1.2.3.4", "localhost", "::1"}, []string{"!!", "a b"}},                                       // host-address
	{"Ipv6Support", []string{"true", "false", "Y", "0"}, []string{"maybe"}},                                              // bool
	{"IpInIpMtu", []string{"1440", "0"}, []string{"big"}},                                                                // int
	{"IptablesRefreshInterval", []string{"90", "0", "2.5"}, []string{"soon"}},                                            // seconds
	{"ReportingIntervalSecs", []string{"30", "0"}, []string{"x"}},                                                        // seconds
	{"LogSeverityScreen", []string{"DEBUG", "info", "Warning"}, []string{"LOUD"}},                                        // oneof
	{"ClusterType", []string{"k8s,bgp", "openstack"}, []string{"bad type!"}},                                             // string
	{"KubeNodePortRanges", []string{"30000:32767", "1000:2000,3000:4000"}, []string{"x:y", "9:1"}},                       // portrange-list
	{"NATPortRange", []string{"32768:65535", "1000"}, []string{"70000:80000", "a"}},                                      // portrange
	{"InterfaceExclude", []string{"kube-ipvs0", "/^veth.*/,eth9"}, []string{"/[/", "bad iface!"}},                        // iface-list-regexp
	{"LogActionRateLimit", []string{"10/second", "100/minute"}, []string{"perhaps", "0/day"}}, // bool
	{"IpInIpTunnelAddr", []string{"10.1.2.3"}, []string{"10.1.2", "fe80::1"}},                                            // ipv4
	{"VXLANTunnelMACAddr", []string{"66:aa:bb:cc:dd:ee", "anything"}, []string{"a b"}},                                   // string
	{"MTUIfacePattern", []string{"^eth.*", "^((en|wl|ww|sl|ib)[Pcopsvx].*|(eth|wlan|wwan).*)"}, []string{"(", "["}},      // regexp
	{"BPFKubeProxyIptablesCleanupEnabled", []string{"true", "no"}, []string{"2"}},                                        // bool
	{"PrometheusMetricsHost", []string{"0.0.0.0", "metrics.local"}, []string{"bad host"}},                                // host-address
	{"DebugMemoryProfilePath", []string{"/tmp/prof", "x"}, []string{}},                                                   // file
	{"FlowLogsCollectorDebugTrace", []string{"true"}, []string{"x"}},                                                     // bool
	{"IptablesLockProbeIntervalMillis", []string{"50", "0"}, []string{"fast"}},                                           // millis
	{"LogPrefix", []string{"calico-packet", "%t %p"}, []string{}},                                                        // string
	{"DeviceRouteSourceAddress", []string{"10.0.0.9"}, []string{"nope"}},                                                 // ipv4
	{"DeviceRouteSourceAddressIPv6", []string{"fd00::9"}, []string{"10.0.0.9", "nope"}},                                  // ipv6
	{"RouteSource", []string{"WorkloadIPs", "CalicoIPAM"}, []string{"Static"}},                                           // oneof
	{"ServiceLoopPrevention", []string{"Drop", "Reject", "Disabled"}, []string{"Maybe"}},                                 // oneof
	{"BPFDSROptoutCIDRs", []string{"10.0.0.0/8", "10.0.0.0/8,fd00::/8"}, []string{"1.2.3.4/99"}},                         // cidr-list
	{"BPFConntrackTimeouts", []string{"TCPFinsSeen=10s", "ICMPTimeout=5s,GenericTimeout=1m"}, []string{"x=y", "="}}, // int
}

var genericRaw = []string{"1", "0", "true", "none", "garbage!", "10.0.0.1", "eth0", "tcp:80", "5", "-1", "0x10", "a=b", "1-5", "Enabled", "Disabled", "fd00::1", "30", "NONE", "/tmp/x", "^a.*"}
var unknownNames = []string{"FooBar", "PluginSetting", "foobar", "FOOBAR", "Some.Dotted-Name", "felix_x"}
var noneSpellings = []string{"none", "None", "NONE", "nOnE"}

func spell(r *rng, name string) string {
	switch r.intn(6) {
	case 0:
		return strings.ToLower(name)
	case 1:
		return strings.ToUpper(name)
	case 2:
		b := []byte(name)
		for i := range b {
			if r.intn(2) == 0 {
				b[i] = strings.ToLower(string(b[i]))[0]
			} else {
				b[i] = strings.ToUpper(string(b[i]))[0]
			}
		}
		return string(b)
	default:
		return name
	}
}

var allSources = []config.Source{config.DatastoreGlobal, config.DatastorePerSelector, config.DatastorePerHost, config.ConfigFile, config.EnvironmentVariable, config.InternalOverride}

// Felix's own loading order: environment, file, then the datastore sources, overrides last
var felixOrder = []config.Source{config.EnvironmentVariable, config.ConfigFile, config.DatastoreGlobal, config.DatastorePerSelector, config.DatastorePerHost, config.InternalOverride}

type caseGen struct {
	r       *rng
	content map[config.Source][][2]string
	tags    map[string]bool
	watch   []string
	params  []string // lower-case names of all known parameters
}

func (g *caseGen) add(src config.Source, k, v string) {
	for i, kv := range g.content[src] {
		if kv[0] == k { // a Go map holds a key once
			g.content[src][i][1] = v
			return
		}
	}
	g.content[src] = append(g.content[src], [2]string{k, v})
}

func (g *caseGen) hasLower(src config.Source, lk string) bool {
	for _, kv := range g.content[src] {
		if strings.ToLower(kv[0]) == lk {
			return true
		}
	}
	return false
}

func (g *caseGen) value(p pp, kind int) string {
	r := g.r
	switch kind {
	case 0:
		return r.pick(p.good)
	case 1:
		if len(p.bad) == 0 {
			return r.pick(genericRaw)
		}
		return r.pick(p.bad)
	case 2:
		return r.pick(noneSpellings)
	default:
		return ""
	}
}

func (g *caseGen) kind() int {
	k := g.r.intn(20)
	switch {
	case k < 11:
		return 0
	case k < 16:
		return 1
	case k < 19:
		return 2
	default:
		return 3
	}
}

func (g *caseGen) watchParam(name string) {
	for _, w := range g.watch {
		if w == name {
			return
		}
	}
	g.watch = append(g.watch, name)
}

func main() {
	n := flag.Int("n", 100, "cases")
	seed := flag.Uint64("seed", 1, "seed")
	doGen := flag.Bool("gen", false, "print Gen.v")
	reps := flag.Int("reps", 40, "repetitions of cases with case-variant names")
	flag.Parse()
	logrus.SetOutput(io.Discard)
	logrus.SetLevel(logrus.PanicLevel)
	enc := json.NewEncoder(os.Stdout)
	enc.SetEscapeHTML(false)

	if *doGen {
		_ = enc.Encode(map[string]any{"gen": gen(), "nparams": len(config.Params())})
		return
	}

	fixed, sorted := probe()
	_ = enc.Encode(map[string]any{"stats": map[string]any{"probe_shadow_check_before_parse": fixed, "probe_deterministic_key_order": sorted, "nparams": len(config.Params())}})

	ps := config.Params()
	lowerNames := sortedParamNames()
	for _, p := range pool {
		if _, ok := ps[strings.ToLower(p.name)]; !ok {
			fmt.Fprintf(os.Stderr, "pool parameter %s does not exist in this tree\n", p.name)
			os.Exit(2)
		}
	}
	r := &rng{s: *seed}

	entries := func(u update) []srcKvs {
		if u.isAll {
			return u.all
		}
		return []srcKvs{{u.src, u.kvs}}
	}
	sortedKvs := func(m map[string]string) [][2]string {
		keys := make([]string, 0, len(m))
		for k := range m {
			keys = append(keys, k)
		}
		sort.Strings(keys)
		var out [][2]string
		for _, k := range keys {
			out = append(out, [2]string{k, m[k]})
		}
		return out
	}
	envNoise := []string{"PATH=/usr/bin", "NOEQUALS", "FELIXX_A=1", "felix=2", "HOME=/root", "CALICO_FELIX_X=1", "=", "FELIX_=lonely"}
	emit := func(g *caseGen, ups0 []update, stream string, nreps int) {
		// half of the UpdateFrom calls for the environment / config-file source get their map from the REAL loaders
		// (LoadConfigFromEnvironment on a generated environ, LoadConfigFileData on generated ini text); the case then
		// carries what the loader returned
		ups := append([]update{}, ups0...)
		var envsC []string
		for i, u := range ups {
			if u.isAll || u.isOver || len(u.kvs) == 0 || g.r.intn(2) == 0 {
				continue
			}
			switch u.src {
			case config.EnvironmentVariable:
				var environ []string
				ok := true
				for _, kv := range u.kvs {
					if strings.Contains(kv[0], "=") {
						ok = false
					}
					pre := []string{"FELIX_", "felix_", "Felix_"}[g.r.intn(3)]
					environ = append(environ, pre+kv[0]+"="+kv[1])
					if g.r.intn(3) == 0 {
						environ = append(environ, g.r.pick(envNoise))
					}
				}
				if !ok {
					continue
				}
				if g.r.intn(3) == 0 && len(u.kvs) > 0 {
					// the same variable again in another spelling: the later one wins
					environ = append(environ, "FELIX_"+strings.ToUpper(u.kvs[0][0])+"="+g.r.pick(genericRaw))
				}
				loaded := sortedKvs(config.LoadConfigFromEnvironment(environ))
				ups[i].kvs = loaded
				var es, ls []string
				for _, e := range environ {
					es = append(es, bs(e))
				}
				for _, kv := range loaded {
					ls = append(ls, fmt.Sprintf("(%s, %s)", bs(kv[0]), bs(kv[1])))
				}
				envsC = append(envsC, fmt.Sprintf("([%s], [%s])", strings.Join(es, "; "), strings.Join(ls, "; ")))
				g.tags["via-env-loader"] = true
			case config.ConfigFile:
				text := "[global]\n"
				for _, kv := range u.kvs {
					text += kv[0] + " = " + kv[1] + "\n"
				}
				m, err := config.LoadConfigFileData([]byte(text))
				if err != nil {
					g.tags["file-loader-error"] = true
					continue
				}
				loaded := sortedKvs(m)
				if fmt.Sprint(loaded) != fmt.Sprint(sortedKvs(func() map[string]string {
					x := map[string]string{}
					for _, kv := range u.kvs {
						x[kv[0]] = kv[1]
					}
					return x
				}())) {
					g.tags["file-loader-altered-input"] = true
				}
				ups[i].kvs = loaded
				g.tags["via-file-loader"] = true
			}
		}
		obs := runMany(ups, g.watch, nreps)
		// parse oracle: the real Parse on every (known parameter, raw) pair of the case
		var ptab []string
		seenP := map[string]bool{}
		shadowFatal, localDS, shadowing, fatalTop := false, false, false, false
		for _, u := range ups {
			var flatKvs [][2]string
			for _, sk := range entries(u) {
				flatKvs = append(flatKvs, sk.kvs...)
			}
			for _, kv := range flatKvs {
				p, ok := ps[strings.ToLower(kv[0])]
				if !ok {
					continue
				}
				md := p.GetMetadata()
				key := md.Name + "\x00" + kv[1]
				if seenP[key] {
					continue
				}
				seenP[key] = true
				v, err := p.Parse(kv[1])
				if err != nil {
					ptab = append(ptab, fmt.Sprintf("((%s, %s), None)", bs(md.Name), bs(kv[1])))
				} else {
					ptab = append(ptab, fmt.Sprintf("((%s, %s), Some %s)", bs(md.Name), bs(kv[1]), bs(render(v))))
				}
			}
		}
		// tags from the content after every call (driver-side bookkeeping only; the verdict comes from Coq)
		isFatal := func(p config.Param, raw string) bool {
			md := p.GetMetadata()
			if strings.ToLower(raw) == "none" {
				return md.NonZero
			}
			_, err := p.Parse(raw)
			return err != nil && md.DieOnParseFailure
		}
		ambiguous := false
		final := map[config.Source][][2]string{}
		for _, u := range ups {
			if u.isAll {
				// the message replaces everything; empty values are kept on this path
				final = map[config.Source][][2]string{}
				for _, sk := range u.all {
					final[sk.src] = append([][2]string{}, sk.kvs...)
				}
			} else {
				final[u.src] = nil
				for _, kv := range u.kvs {
					if kv[1] != "" {
						final[u.src] = append(final[u.src], kv)
					}
				}
			}
			for _, lk := range lowerNames {
				p := ps[lk]
				md := p.GetMetadata()
				top := config.Source(0)
				nset := 0
				for _, s := range config.SourcesInDescendingOrder {
					cnt := 0
					for _, kv := range final[s] {
						if strings.ToLower(kv[0]) != lk {
							continue
						}
						if md.Local && !s.Local() {
							localDS = true
							continue
						}
						cnt++
						if top == 0 || top == s {
							top = s
							if isFatal(p, kv[1]) {
								fatalTop = true
							}
						} else if isFatal(p, kv[1]) {
							shadowFatal = true
						}
					}
					if cnt > 0 {
						nset++
					}
					if cnt > 1 {
						ambiguous = true
					}
				}
				if nset > 1 {
					shadowing = true
				}
			}
			for _, s := range allSources {
				seen := map[string]bool{}
				for _, kv := range final[s] {
					lk := strings.ToLower(kv[0])
					if seen[lk] {
						ambiguous = true
					}
					seen[lk] = true
				}
			}
		}
		tags := []string{"stream:" + stream}
		if shadowFatal {
			tags = append(tags, "shadowed-fatal-value")
		}
		if fatalTop {
			tags = append(tags, "fatal-deciding-value")
		}
		if localDS {
			tags = append(tags, "local-only-from-datastore")
		}
		if shadowing {
			tags = append(tags, "shadowing")
		}
		if ambiguous {
			tags = append(tags, "case-variant-names-in-one-source")
		}
		if len(obs) > 1 {
			tags = append(tags, "order-dependent-outcome")
		}
		for t := range g.tags {
			tags = append(tags, t)
		}
		sort.Strings(tags[1:])

		var upsC, sample []string
		for _, u := range ups {
			var parts, sparts []string
			for _, sk := range entries(u) {
				var kvs, skv []string
				for _, kv := range sk.kvs {
					kvs = append(kvs, fmt.Sprintf("(%s, %s)", bs(kv[0]), bs(kv[1])))
					skv = append(skv, kv[0]+"="+kv[1])
				}
				parts = append(parts, fmt.Sprintf("(%d, [%s])", uint8(sk.src), strings.Join(kvs, "; ")))
				sparts = append(sparts, fmt.Sprintf("%s: %s", sk.src, strings.Join(skv, ", ")))
			}
			if u.isAll {
				upsC = append(upsC, fmt.Sprintf("UAll [%s]", strings.Join(parts, "; ")))
				sample = append(sample, fmt.Sprintf("UpdateFromConfigUpdate(%s)", strings.Join(sparts, " | ")))
			} else if u.isOver {
				upsC = append(upsC, fmt.Sprintf("UOver %s %s", bs(u.ovName), bs(u.ovVal)))
				sample = append(sample, fmt.Sprintf("OverrideParam(%s=%s)", u.ovName, u.ovVal))
			} else {
				upsC = append(upsC, fmt.Sprintf("UFrom %d [%s]", uint8(u.src), strings.Join(kvs0(u), "; ")))
				sample = append(sample, fmt.Sprintf("UpdateFrom(%s)", sparts[0]))
			}
		}
		var obsC []string
		var obsS []any
		for _, o := range obs {
			var errs, cerrs, chs, vals, raws []string
			var chS []any
			for _, e := range o.errs {
				errs = append(errs, cb(e))
			}
			for _, e := range o.cerrs {
				cerrs = append(cerrs, cb(e))
			}
			for _, c := range o.changed {
				if c == nil {
					chs = append(chs, "None")
					chS = append(chS, nil)
					continue
				}
				var ns []string
				for _, n := range *c {
					ns = append(ns, bs(n))
				}
				chs = append(chs, fmt.Sprintf("Some [%s]", strings.Join(ns, "; ")))
				chS = append(chS, *c)
			}
			for _, v := range o.vals {
				vals = append(vals, bs(v))
			}
			for _, kv := range o.raws {
				raws = append(raws, fmt.Sprintf("(%s, %s)", bs(kv[0]), bs(kv[1])))
			}
			obsC = append(obsC, fmt.Sprintf("mk_obs [%s] [%s] [%s] [%s] [%s] %s", strings.Join(errs, "; "), strings.Join(cerrs, "; "),
				strings.Join(chs, "; "), strings.Join(vals, "; "), strings.Join(raws, "; "), cb(o.fresh)))
			obsS = append(obsS, map[string]any{"errs": o.errs, "configErr": o.cerrs, "changed": chS, "values": o.vals, "rawValues": o.raws,
				"freshConfigAgrees": o.fresh})
		}
		var watchC []string
		for _, w := range g.watch {
			watchC = append(watchC, bs(w))
		}
		coq := fmt.Sprintf("mk_case %s %s [%s] [%s] [%s] [%s] [%s]", cb(fixed), cb(sorted), strings.Join(ptab, "; "),
			strings.Join(upsC, "; "), strings.Join(watchC, "; "), strings.Join(obsC, "; "), strings.Join(envsC, "; "))
		_ = enc.Encode(map[string]any{
			"coq":    coq,
			"nt":     shadowing || localDS || ambiguous,
			"key":    strings.Join(sample, " ; "),
			"sample": map[string]any{"updates": sample, "watch": g.watch, "observations": obsS},
			"tags":   tags,
		})
	}

	// corpus: the witnesses of the two findings and their mirror images, always first
	corpus := [][]srcKvs{
		{{config.EnvironmentVariable, [][2]string{{"chaininsertmode", "append"}}}, {config.DatastoreGlobal, [][2]string{{"ChainInsertMode", "garbage"}}}},
		{{config.EnvironmentVariable, [][2]string{{"chaininsertmode", "append"}}}, {config.DatastoreGlobal, [][2]string{{"ChainInsertMode", "none"}}}},
		{{config.EnvironmentVariable, [][2]string{{"chaininsertmode", "garbage"}}}, {config.DatastoreGlobal, [][2]string{{"ChainInsertMode", "append"}}}},
		{{config.ConfigFile, [][2]string{{"MetadataPort", "8080"}}}, {config.DatastorePerHost, [][2]string{{"MetadataPort", "70000"}}}},
		{{config.ConfigFile, [][2]string{{"ChainInsertMode", "append"}, {"chaininsertmode", "insert"}}}},
		{{config.ConfigFile, [][2]string{{"HealthHost", "1.2.3.4"}, {"healthhost", "!!"}}}},
		{{config.DatastoreGlobal, [][2]string{{"DatastoreType", "zookeeper"}, {"FelixHostname", "none"}}}, {config.ConfigFile, [][2]string{{"DatastoreType", "kubernetes"}}}},
	}
	// histories on one long-lived Config: an update rejected by a fatal value after another parameter was assigned in
	// the same pass, then the settings are removed (the fields must be back at their defaults)
	histCorpus := [][]update{
		{uf(config.DatastorePerHost, [][2]string{{"HealthPort", "1234"}, {"MetadataPort", "99999"}}),
			uf(config.DatastorePerHost, [][2]string{{"LogSeverityScreen", "Info"}})},
		{uf(config.EnvironmentVariable, [][2]string{{"healthenabled", "true"}}),
			uf(config.DatastoreGlobal, [][2]string{{"BPFEnabled", "true"}, {"InterfacePrefix", "none"}}),
			uf(config.DatastoreGlobal, nil),
			uf(config.DatastorePerHost, [][2]string{{"HealthPort", "9098"}}),
			uf(config.DatastorePerHost, nil)},
		{uf(config.ConfigFile, [][2]string{{"Ipv6Support", "false"}}),
			{src: config.InternalOverride, kvs: [][2]string{{"ChainInsertMode", "garbage"}}, isOver: true, ovName: "ChainInsertMode", ovVal: "garbage"},
			uf(config.ConfigFile, nil),
			{src: config.InternalOverride, kvs: [][2]string{{"ChainInsertMode", "append"}}, isOver: true, ovName: "ChainInsertMode", ovVal: "append"}},
		{uf(config.DatastoreGlobal, [][2]string{{"BPFLogLevel", "debug"}, {"ChainInsertMode", "none"}}),
			{isAll: true, all: []srcKvs{{config.DatastoreGlobal, [][2]string{{"ChainInsertMode", "append"}}}}}},
	}
	count := 0
	for _, ups := range histCorpus {
		if count >= *n {
			break
		}
		g := &caseGen{r: r, tags: map[string]bool{"corpus": true}}
		for _, u := range ups {
			for _, sk := range entries(u) {
				for _, kv := range sk.kvs {
					if p, ok := ps[strings.ToLower(kv[0])]; ok {
						g.watchParam(p.GetMetadata().Name)
					}
				}
			}
		}
		emit(g, ups, "corpus-history", 2)
		count++
	}
	for _, sks := range corpus {
		if count >= *n {
			break
		}
		ups := ufs(sks)
		g := &caseGen{r: r, tags: map[string]bool{"corpus": true}}
		for _, u := range ups {
			for _, kv := range u.kvs {
				if p, ok := ps[strings.ToLower(kv[0])]; ok {
					g.watchParam(p.GetMetadata().Name)
				}
			}
		}
		emit(g, ups, "corpus", *reps)
		count++
	}

	for ; count < *n; count++ {
		g := &caseGen{r: r, content: map[config.Source][][2]string{}, tags: map[string]bool{}, params: lowerNames}
		stream := "priority"
		nreps := 2
		var histUps []update
		switch k := r.intn(26); {
		case k >= 20:
			// history: ONE long-lived Config over 3-9 calls of UpdateFrom / OverrideParam / UpdateFromConfigUpdate, with
			// updates rejected by a fatal value after other parameters were assigned in the same pass (a higher-priority
			// source or an earlier name), followed by updates that remove those settings
			stream = "history"
			np := 2 + r.intn(3)
			var hp []pp
			hp = append(hp, pool[r.intn(25)]) // a flagged parameter (die-on-fail / non-zero / local)
			for len(hp) < np {
				q := pool[r.intn(len(pool))]
				dup := false
				for _, x := range hp {
					dup = dup || x.name == q.name
				}
				if !dup {
					hp = append(hp, q)
				}
			}
			for _, q := range hp {
				g.watchParam(q.name)
			}
			cur := map[config.Source][][2]string{}
			var ov [][2]string
			setOv := func(k, v string) {
				for i := range ov {
					if ov[i][0] == k {
						ov[i][1] = v
						return
					}
				}
				ov = append(ov, [2]string{k, v})
			}
			nonEmpty := func(kvs [][2]string) [][2]string {
				var out [][2]string
				for _, kv := range kvs {
					if kv[1] != "" {
						out = append(out, kv)
					}
				}
				return out
			}
			hkind := func() int {
				switch x := r.intn(20); {
				case x < 10:
					return 0
				case x < 15:
					return 1
				case x < 19:
					return 2
				default:
					return 3
				}
			}
			mkFrom := func(s config.Source) update {
				var kvs [][2]string
				seen := map[string]bool{}
				cnt := 1 + r.intn(np)
				for j := 0; j < cnt; j++ {
					q := hp[r.intn(len(hp))]
					if seen[q.name] {
						continue
					}
					seen[q.name] = true
					kvs = append(kvs, [2]string{spell(r, q.name), g.value(q, hkind())})
				}
				cur[s] = nonEmpty(kvs)
				return uf(s, kvs)
			}
			nsteps := 3 + r.intn(5)
			for i := 0; i < nsteps; i++ {
				switch x := r.intn(10); {
				case x < 4:
					histUps = append(histUps, mkFrom(allSources[r.intn(len(allSources))]))
				case x < 5:
					s := allSources[r.intn(len(allSources))]
					cur[s] = nil
					histUps = append(histUps, uf(s, nil))
				case x < 7:
					// poisoned update: a good value for one parameter and a fatal one for the flagged parameter in the
					// same source; the source is emptied later
					s := allSources[r.intn(len(allSources))]
					a, bad := hp[1+r.intn(len(hp)-1)], hp[0]
					kvs := [][2]string{{spell(r, a.name), g.value(a, 0)}, {spell(r, bad.name), g.value(bad, 1+r.intn(2))}}
					cur[s] = nonEmpty(kvs)
					histUps = append(histUps, uf(s, kvs))
					g.tags["poisoned-update"] = true
				case x < 9:
					q := hp[r.intn(len(hp))]
					name, val := spell(r, q.name), g.value(q, hkind())
					setOv(name, val)
					cur[config.InternalOverride] = nonEmpty(ov)
					histUps = append(histUps, update{src: config.InternalOverride, kvs: append([][2]string{}, ov...), isOver: true, ovName: name, ovVal: val})
					g.tags["override-param"] = true
				default:
					var all []srcKvs
					for _, s := range allSources {
						kvs, ok := cur[s]
						if !ok || r.intn(4) == 0 {
							continue
						}
						kvs = append([][2]string{}, kvs...)
						if len(kvs) > 0 && r.intn(3) == 0 {
							j := r.intn(len(kvs))
							kvs[j][1] = g.value(hp[r.intn(len(hp))], hkind())
						}
						all = append(all, srcKvs{s, kvs})
					}
					cur = map[config.Source][][2]string{}
					for _, sk := range all {
						cur[sk.src] = sk.kvs
					}
					histUps = append(histUps, update{isAll: true, all: all})
					g.tags["config-update-message:history"] = true
				}
			}
			// the operator repairs things: most sources are emptied or given one good value, bad overrides are replaced
			for _, s := range allSources {
				if _, ok := cur[s]; !ok || r.intn(4) == 0 {
					continue
				}
				if s == config.InternalOverride && len(ov) > 0 {
					for _, kv := range append([][2]string{}, ov...) {
						for _, q := range hp {
							if strings.EqualFold(q.name, kv[0]) {
								val := g.value(q, 0)
								setOv(kv[0], val)
								histUps = append(histUps, update{src: config.InternalOverride, kvs: append([][2]string{}, ov...), isOver: true, ovName: kv[0], ovVal: val})
							}
						}
					}
					continue
				}
				if r.intn(2) == 0 {
					histUps = append(histUps, uf(s, nil))
				} else {
					q := hp[r.intn(len(hp))]
					histUps = append(histUps, uf(s, [][2]string{{spell(r, q.name), g.value(q, 0)}}))
				}
			}
		case k < 10:
			// priority: 1-4 pool parameters, each set in 1-4 sources, one spelling per source
			np := 1 + r.intn(4)
			for i := 0; i < np; i++ {
				p := pool[r.intn(len(pool))]
				g.watchParam(p.name)
				ns := 1 + r.intn(4)
				for j := 0; j < ns; j++ {
					s := allSources[r.intn(len(allSources))]
					if g.hasLower(s, strings.ToLower(p.name)) {
						continue
					}
					g.add(s, spell(r, p.name), g.value(p, g.kind()))
				}
			}
		case k < 13:
			// shadow: a flagged parameter, a value in a high source and another in a lower one
			stream = "shadow"
			np := 1 + r.intn(2)
			for i := 0; i < np; i++ {
				p := pool[r.intn(25)] // the flagged part of the pool
				g.watchParam(p.name)
				hi := 1 + r.intn(5)
				lo := r.intn(hi)
				kinds := [][2]int{{0, 1}, {0, 2}, {1, 0}, {2, 0}, {0, 0}, {1, 1}}[r.intn(6)]
				g.add(allSources[hi], spell(r, p.name), g.value(p, kinds[0]))
				g.add(allSources[lo], spell(r, p.name), g.value(p, kinds[1]))
				if r.intn(3) == 0 {
					s := allSources[r.intn(len(allSources))]
					if !g.hasLower(s, strings.ToLower(p.name)) {
						g.add(s, spell(r, p.name), g.value(p, g.kind()))
					}
				}
			}
		case k < 16:
			// any parameter of the table with type-agnostic raw values
			stream = "anyparam"
			np := 1 + r.intn(4)
			for i := 0; i < np; i++ {
				lk := lowerNames[r.intn(len(lowerNames))]
				name := ps[lk].GetMetadata().Name
				g.watchParam(name)
				ns := 1 + r.intn(3)
				for j := 0; j < ns; j++ {
					s := allSources[r.intn(len(allSources))]
					if g.hasLower(s, lk) {
						continue
					}
					g.add(s, spell(r, name), r.pick(genericRaw))
				}
			}
		default:
			// variant: one source spells a parameter in 2-3 ways
			stream = "variant"
			nreps = *reps
			p := pool[r.intn(len(pool))]
			g.watchParam(p.name)
			s := allSources[r.intn(len(allSources))]
			sp := []string{p.name, strings.ToLower(p.name), strings.ToUpper(p.name)}
			nsp := 2 + r.intn(2)
			for j := 0; j < nsp; j++ {
				g.add(s, sp[j], g.value(p, g.kind()))
			}
			if r.intn(2) == 0 {
				s2 := allSources[r.intn(len(allSources))]
				if !g.hasLower(s2, strings.ToLower(p.name)) {
					g.add(s2, spell(r, p.name), g.value(p, g.kind()))
				}
			}
			if r.intn(3) == 0 {
				q := pool[r.intn(len(pool))]
				if q.name != p.name {
					g.watchParam(q.name)
					g.add(allSources[r.intn(len(allSources))], spell(r, q.name), g.value(q, g.kind()))
				}
			}
		}
		if histUps != nil {
			emit(g, histUps, stream, nreps)
			continue
		}
		// unknown names (raw values for plugins), sometimes in several sources / spellings
		if r.intn(4) == 0 {
			nu := 1 + r.intn(2)
			for i := 0; i < nu; i++ {
				g.add(allSources[r.intn(len(allSources))], r.pick(unknownNames), r.pick(genericRaw))
			}
		}
		// one or two parameters nobody sets: must keep their defaults
		if r.intn(3) == 0 {
			g.watchParam(ps[lowerNames[r.intn(len(lowerNames))]].GetMetadata().Name)
		}
		// the history of UpdateFrom calls
		var order []config.Source
		if r.intn(5) < 3 {
			order = felixOrder
		} else {
			order = append([]config.Source{}, allSources...)
			for i := len(order) - 1; i > 0; i-- {
				j := r.intn(i + 1)
				order[i], order[j] = order[j], order[i]
			}
		}
		var ups, later []update
		for _, s := range order {
			kvs, ok := g.content[s]
			if !ok {
				if r.intn(6) == 0 {
					ups = append(ups, uf(s, nil)) // an empty update
				}
				continue
			}
			if r.intn(8) == 0 {
				// the source is first loaded with other content, replaced later
				var old [][2]string
				for _, kv := range kvs {
					if r.intn(2) == 0 {
						old = append(old, [2]string{kv[0], r.pick(genericRaw)})
					}
				}
				ups = append(ups, uf(s, old))
				g.tags["source-updated-twice"] = true
				later = append(later, uf(s, kvs))
				continue
			}
			ups = append(ups, uf(s, kvs))
		}
		ups = append(ups, later...)
		// sometimes the calculation graph's ConfigUpdate message follows (UpdateFromConfigUpdate replaces every source):
		// the same content (nothing may change), or one source dropped / one value replaced / an empty value added
		if r.intn(5) == 0 {
			cur := map[config.Source][][2]string{}
			for _, u := range ups {
				cur[u.src] = nil
				for _, kv := range u.kvs {
					if kv[1] != "" {
						cur[u.src] = append(cur[u.src], kv)
					}
				}
			}
			var all []srcKvs
			mode := r.intn(4)
			for _, s := range allSources {
				kvs, ok := cur[s]
				if !ok {
					continue
				}
				kvs = append([][2]string{}, kvs...)
				switch {
				case mode == 1 && r.intn(2) == 0:
					continue // source dropped
				case mode == 2 && len(kvs) > 0:
					i := r.intn(len(kvs))
					kvs[i][1] = r.pick(genericRaw)
				case mode == 3 && len(kvs) > 0:
					i := r.intn(len(kvs))
					kvs[i][1] = ""
				}
				all = append(all, srcKvs{s, kvs})
			}
			ups = append(ups, update{isAll: true, all: all})
			g.tags[fmt.Sprintf("config-update-message:%d", mode)] = true
			if r.intn(3) == 0 && len(later) > 0 {
				ups = append(ups, later[0]) // and a datastore update after it
			}
		}
		if len(ups) == 0 {
			ups = append(ups, uf(config.ConfigFile, nil))
		}
		emit(g, ups, stream, nreps)
	}
}
