//go:build verif

// C45 correspondence driver: runs the real lib/datastructures/hashring.Ring through generated
// insert/remove/lookup histories, with the production hash (xxh3) and with adversarial low-entropy
// hashes (ties, wrap-around, replicas colliding), and at every Lookup also asks a ring built fresh
// (real code, shuffled insertion order) from the current members.  Every call the ring makes to its
// hash function is recorded and handed to the Coq model as data.
package main

import (
	"crypto/sha1"
	"encoding/json"
	"flag"
	"fmt"
	"os"
	"sort"
	"strings"

	intdataplane "github.com/projectcalico/calico/felix/dataplane/linux"
	"github.com/projectcalico/calico/felix/proto"
	"github.com/projectcalico/calico/lib/datastructures/hashring"
)

type rng struct{ s uint64 }

func (r *rng) next() uint64 {
	r.s += 0x9e3779b97f4a7c15
	z := r.s
	z = (z ^ (z >> 30)) * 0xbf58476d1ce4e5b9
	z = (z ^ (z >> 27)) * 0x94d049bb133111eb
	return z ^ (z >> 31)
}
func (r *rng) intn(n int) int { return int(r.next() % uint64(n)) }

type line struct {
	Coq    string         `json:"coq"`
	NT     bool           `json:"nt"`
	Key    string         `json:"key"`
	Sample map[string]any `json:"sample,omitempty"`
	Tags   []string       `json:"tags"`
}

func bs(s string) string {
	if len(s) == 0 {
		return "[]"
	}
	var sb strings.Builder
	sb.WriteString("[")
	for i := 0; i < len(s); i++ {
		if i > 0 {
			sb.WriteByte(';')
		}
		fmt.Fprintf(&sb, "%d", s[i])
	}
	sb.WriteString("]%N")
	return sb.String()
}

const maxU = ^uint64(0)

var boundary = []uint64{0, 1, 2, maxU, maxU - 1, 1 << 63, 1<<63 - 1, 1<<63 + 1, 1 << 32, 1<<32 - 1}

// genHash returns the hash under test and its tag.
func genHash(r *rng, real hashring.Hash) (hashring.Hash, string) {
	switch r.intn(12) {
	case 0, 1, 2, 3:
		return real, "hash:xxh3"
	case 4:
		c := boundary[r.intn(len(boundary))]
		return func(b []byte) uint64 { return c }, "hash:const"
	case 5, 6:
		m := uint64(2 + r.intn(5))
		pts := make([]uint64, m)
		for i := range pts {
			if r.intn(3) == 0 {
				pts[i] = r.next()
			} else {
				pts[i] = boundary[r.intn(len(boundary))]
			}
		}
		return func(b []byte) uint64 { return pts[real(b)%m] }, "hash:points"
	case 7:
		m := uint64(3 + r.intn(14))
		return func(b []byte) uint64 { return real(b) % m }, "hash:small"
	case 8:
		m := uint64(3 + r.intn(14))
		return func(b []byte) uint64 { return maxU - real(b)%m }, "hash:high"
	case 9:
		// ignores the salt: all virtual nodes and all probes of one key collide
		m := uint64(2 + r.intn(30))
		return func(b []byte) uint64 {
			n := len(b) - 5
			if n < 0 {
				n = 0
			}
			return (real(b[:n]) % m) * (maxU / m)
		}, "hash:nosalt"
	case 10:
		// depends on the salt only: every key has the same positions
		return func(b []byte) uint64 {
			n := len(b) - 4
			if n < 0 {
				n = 0
			}
			return real(b[n:])
		}, "hash:saltonly"
	default:
		// few distinct values spread evenly around the ring
		m := uint64(2 + r.intn(7))
		return func(b []byte) uint64 { return (real(b) % m) * (maxU/m + 1) }, "hash:spread"
	}
}

var pools = [][]string{
	{"n0", "n1", "n2", "n3", "n4", "n5"},
	{"node-a", "node-b", "node-c", "node-d"},
	{"a", "ab", "abc", "b", "", "a\x00"},
	{"worker-1.example.com", "worker-2.example.com", "worker-10.example.com", "cp-0", "cp-1", "cp-2", "w3", "w4"},
	{"x", "y"},
}
var lookupPools = [][]string{
	{"10.0.0.1", "10.0.0.2", "10.0.0.3", "192.168.7.200", "fd00::10", "fd00::11"},
	{"", "a", "n0", "k", "kk", "172.16.0.254"},
}

func salt(key string, i int) []byte {
	b := append([]byte(key), 0)
	return append(b, byte(i), byte(i>>8), byte(i>>16), byte(i>>24))
}

func look(r *hashring.Ring[string], k string) (res string) {
	defer func() {
		if e := recover(); e != nil {
			res = "LPanic"
		}
	}()
	v, ok := r.Lookup(k)
	if !ok {
		if v != "" {
			return "LPanic" // not (zero, false): reported as a distinct, never accepted observation
		}
		return "LNone"
	}
	return "(LSome " + bs(v) + ")"
}

func main() {
	n := flag.Int("n", 100, "cases")
	seed := flag.Uint64("seed", 1, "seed")
	flag.Parse()
	r := &rng{s: *seed}
	enc := json.NewEncoder(os.Stdout)
	real := hashring.VerifDefaultHash()
	for ci := 0; ci < *n; ci++ {
		if ci%50 == 3 {
			largeCase(r, real, enc)
			continue
		}
		if ci%50 == 13 || ci%50 == 38 {
			nodesCase(r, real, enc)
			continue
		}
		var h hashring.Hash
		var htag string
		replicas := []int{1, 1, 2, 3, 5, 8}[r.intn(6)]
		probes := []int{1, 1, 1, 2, 3, 5}[r.intn(6)]
		production := ci%50 == 7
		if production {
			// the configuration of proxy_neigh_mgr.go: default hash, 100 replicas, 1 probe, value = key
			h, htag, replicas, probes = real, "hash:xxh3", 100, 1
		} else {
			h, htag = genHash(r, real)
		}
		tbl := map[string]uint64{}
		rec := func(b []byte) uint64 {
			v := h(b)
			tbl[string(b)] = v
			return v
		}
		mk := func() *hashring.Ring[string] {
			if production {
				// default hash cannot be wrapped without WithHash; use WithHash(rec) where rec = default hash
				return hashring.New[string](hashring.WithHash(rec), hashring.WithReplicas(100))
			}
			return hashring.New[string](hashring.WithHash(rec), hashring.WithReplicas(replicas), hashring.WithProbes(probes))
		}
		ring := mk()
		pool := pools[r.intn(len(pools))]
		if production {
			pool = pools[3]
		}
		lpool := lookupPools[r.intn(len(lookupPools))]
		cur := map[string]string{}
		pending := map[string]bool{} // removed since the last sweeping Lookup (driver's guess, for tags only)
		nops := 8 + r.intn(30)
		if production {
			nops = 14
		}
		var ops, obs, sample []string
		version := 0
		tags := map[string]bool{htag: true}
		nt := false
		removed := false
		for j := 0; j < nops; j++ {
			k := pool[r.intn(len(pool))]
			c := r.intn(20)
			if len(cur) < 2 && c >= 7 && c < 12 && r.intn(3) != 0 {
				c = 0
			}
			switch {
			case c < 7: // insert / update
				version++
				v := k
				if !production && r.intn(4) != 0 {
					v = fmt.Sprintf("%s#%d", k, version)
				}
				if v == "" {
					v = "#"
				}
				if pending[k] {
					tags["reinsert-pending"] = true
					delete(pending, k)
				}
				ring.Insert(k, v)
				cur[k] = v
				ops = append(ops, fmt.Sprintf("OInsert %s %s", bs(k), bs(v)))
				obs = append(obs, "BUnit")
				sample = append(sample, fmt.Sprintf("Insert(%q,%q)", k, v))
			case c < 12: // remove (mostly of a member)
				if len(cur) > 0 && r.intn(5) != 0 {
					ks := sortedKeys(cur)
					k = ks[r.intn(len(ks))]
				}
				if _, ok := cur[k]; ok {
					pending[k] = true
					removed = true
				}
				ring.Remove(k)
				delete(cur, k)
				ops = append(ops, fmt.Sprintf("ORemove %s", bs(k)))
				obs = append(obs, "BUnit")
				sample = append(sample, fmt.Sprintf("Remove(%q)", k))
			case c < 14:
				ops = append(ops, "OLen")
				obs = append(obs, fmt.Sprintf("BLen (%d)%%Z", ring.Len()))
				sample = append(sample, fmt.Sprintf("Len()=%d", ring.Len()))
			default: // lookup
				lk := lpool[r.intn(len(lpool))]
				if r.intn(6) == 0 {
					lk = k
				}
				if len(pending) > 0 {
					if len(cur) == 0 {
						tags["lookup-empty-with-pending-deletes"] = true
					} else {
						tags["lookup-sweeps"] = true
					}
				}
				if len(cur) == 0 {
					tags["lookup-empty"] = true
				} else {
					pending = map[string]bool{}
				}
				res := look(ring, lk)
				// fresh ring from the current members, shuffled insertion order
				ks := sortedKeys(cur)
				for i := len(ks) - 1; i > 0; i-- {
					x := r.intn(i + 1)
					ks[i], ks[x] = ks[x], ks[i]
				}
				fr := mk()
				var fm []string
				for _, mkey := range ks {
					fr.Insert(mkey, cur[mkey])
					fm = append(fm, fmt.Sprintf("(%s, %s)", bs(mkey), bs(cur[mkey])))
				}
				fres := look(fr, lk)
				if len(cur) >= 2 && removed {
					nt = true
				}
				// tags: ties between different members, wrap-around
				if len(cur) > 0 {
					seen := map[uint64]string{}
					var mx uint64
					for _, mkey := range ks {
						for i := 0; i < replicas; i++ {
							hv := h(salt(mkey, i))
							if o, ok := seen[hv]; ok && o != mkey {
								tags["tie-between-members"] = true
							}
							seen[hv] = mkey
							if hv > mx {
								mx = hv
							}
						}
					}
					for i := 0; i < probes; i++ {
						if h(salt(lk, i)) > mx {
							tags["wrap-around"] = true
						}
					}
				}
				ops = append(ops, fmt.Sprintf("OLookup %s", bs(lk)))
				obs = append(obs, fmt.Sprintf("BLook %s %s [%s]", res, fres, strings.Join(fm, "; ")))
				sample = append(sample, fmt.Sprintf("Lookup(%q) -> %s ; fresh ring of %d members -> %s", lk, pretty(res), len(ks), pretty(fres)))
			}
		}
		// hash table, sorted for determinism
		tk := make([]string, 0, len(tbl))
		for k := range tbl {
			tk = append(tk, k)
		}
		sort.Strings(tk)
		te := make([]string, len(tk))
		for i, k := range tk {
			te[i] = fmt.Sprintf("(%s, %d%%N)", bs(k), tbl[k])
		}
		coq := fmt.Sprintf("CRing (Build_case %d%%nat %d%%nat [%s] [] [%s] [%s])",
			replicas, probes, strings.Join(te, "; "), wrap(ops), wrap(obs))
		var tl []string
		for t := range tags {
			tl = append(tl, t)
		}
		sort.Strings(tl)
		tl = append(tl, fmt.Sprintf("replicas:%d", replicas), fmt.Sprintf("probes:%d", probes))
		if production {
			tl = append(tl, "production-config")
		}
		smp := map[string]any{"hash": htag, "replicas": replicas, "probes": probes, "trace": sample}
		_ = enc.Encode(line{Coq: coq, NT: nt, Key: fmt.Sprintf("%d|%d|%s|%s", replicas, probes, strings.Join(ops, ";"), strings.Join(te, ";")),
			Sample: smp, Tags: tl})
	}
}

func wrap(xs []string) string {
	ys := make([]string, len(xs))
	for i, x := range xs {
		if strings.Contains(x, " ") {
			ys[i] = "(" + x + ")"
		} else {
			ys[i] = x
		}
	}
	return strings.Join(ys, "; ")
}

func sortedKeys(m map[string]string) []string {
	ks := make([]string, 0, len(m))
	for k := range m {
		ks = append(ks, k)
	}
	sort.Strings(ks)
	return ks
}

func pretty(res string) string {
	if !strings.HasPrefix(res, "(LSome ") {
		return res
	}
	body := strings.TrimSuffix(strings.TrimPrefix(res, "(LSome "), ")")
	body = strings.TrimSuffix(strings.TrimPrefix(body, "["), "]%N")
	if body == "[]" || body == "" {
		return `""`
	}
	var b []byte
	for _, f := range strings.Split(body, ";") {
		var x int
		fmt.Sscanf(f, "%d", &x)
		b = append(b, byte(x))
	}
	return fmt.Sprintf("%q", string(b))
}

// largeCase: membership histories on a LARGE ring in the configuration felix runs (100 replicas, 1 probe,
// value = hostname): 11-40 members (1100-4000 virtual nodes), Lookups interleaved at arbitrary points,
// batches of pending inserts/removes between two lookup points (remove+insert pairs, several of each,
// remove-then-reinsert of the same member), and at every lookup point a sample of addresses asked of the
// ring under test and of a ring built fresh (shuffled order) from the current members.
func largeCase(r *rng, real hashring.Hash, enc *json.Encoder) {
	h, htag := real, "hash:xxh3"
	switch r.intn(6) {
	case 0:
		m := uint64(5 + r.intn(40))
		h, htag = func(b []byte) uint64 { return (real(b) % m) * (maxU/m + 1) }, "hash:spread"
	case 1:
		m := uint64(64 + r.intn(2000))
		h, htag = func(b []byte) uint64 { return maxU - real(b)%m }, "hash:high"
	}
	tbl := map[string]uint64{}
	rec := func(b []byte) uint64 {
		v := h(b)
		tbl[string(b)] = v
		return v
	}
	mk := func() *hashring.Ring[string] {
		return hashring.New[string](hashring.WithHash(rec), hashring.WithReplicas(100))
	}
	ring := mk()
	cur := map[string]string{}
	var gone []string // removed members, candidates for re-joining
	next := 0
	tags := map[string]bool{htag: true, "large-ring": true}
	var ops, obs, sample []string
	ins := func(k string) {
		ring.Insert(k, k)
		cur[k] = k
		ops = append(ops, fmt.Sprintf("OInsert %s %s", bs(k), bs(k)))
		obs = append(obs, "BUnit")
		sample = append(sample, fmt.Sprintf("Insert(%q)", k))
	}
	rem := func(k string) {
		ring.Remove(k)
		delete(cur, k)
		ops = append(ops, fmt.Sprintf("ORemove %s", bs(k)))
		obs = append(obs, "BUnit")
		sample = append(sample, fmt.Sprintf("Remove(%q)", k))
	}
	fresh := func() {
		ks := sortedKeys(cur)
		for i := len(ks) - 1; i > 0; i-- {
			x := r.intn(i + 1)
			ks[i], ks[x] = ks[x], ks[i]
		}
		fr := mk()
		fm := make([]string, 0, len(ks))
		for _, mkey := range ks {
			fr.Insert(mkey, cur[mkey])
			fm = append(fm, bs(mkey))
		}
		fms := strings.Join(fm, "; ")
		nkeys := 6 + r.intn(5)
		diff := 0
		for i := 0; i < nkeys; i++ {
			lk := fmt.Sprintf("10.%d.%d.%d", r.intn(4), r.intn(256), r.intn(256))
			if r.intn(8) == 0 {
				lk = fmt.Sprintf("fd00::%x", r.intn(65536))
			}
			res := look(ring, lk)
			fres := look(fr, lk)
			if res != fres {
				diff++
			}
			ops = append(ops, fmt.Sprintf("OLookup %s", bs(lk)))
			obs = append(obs, fmt.Sprintf("BLook %s %s (self_map [%s])", res, fres, fms))
		}
		sample = append(sample, fmt.Sprintf("%d Lookups on %d members (%d virtual nodes): %d differ from the fresh ring", nkeys, len(ks), 100*len(ks), diff))
	}
	newName := func() string {
		if len(gone) > 0 && r.intn(3) == 0 {
			i := r.intn(len(gone))
			k := gone[i]
			gone = append(gone[:i], gone[i+1:]...)
			tags["batch:rejoin-removed-member"] = true
			return k
		}
		next++
		return fmt.Sprintf("n%d", next)
	}
	// initial load, lookups possibly in the middle of it
	m0 := 11 + r.intn(22)
	for i := 0; i < m0; i++ {
		ins(newName())
		if r.intn(12) == 0 {
			fresh()
			tags["lookup-during-load"] = true
		}
	}
	fresh()
	nb := 5 + r.intn(5)
	for b := 0; b < nb; b++ {
		nr, ni := r.intn(4), r.intn(4)
		if len(cur) <= 12 {
			nr = r.intn(2)
			if ni == 0 {
				ni = 1
			}
		}
		if len(cur) >= 34 {
			ni = r.intn(2)
		}
		if nr == 0 && ni == 0 {
			ni, nr = 1, 1
		}
		switch {
		case nr > 0 && ni > 0:
			tags["batch:remove+insert"] = true
		case nr > 0:
			tags["batch:remove-only"] = true
		default:
			tags["batch:insert-only"] = true
		}
		if nr+ni > 2 {
			tags["batch:multi"] = true
		}
		// the batch, removes and inserts in random order
		acts := make([]byte, 0, nr+ni)
		for i := 0; i < nr; i++ {
			acts = append(acts, 'r')
		}
		for i := 0; i < ni; i++ {
			acts = append(acts, 'i')
		}
		for i := len(acts) - 1; i > 0; i-- {
			x := r.intn(i + 1)
			acts[i], acts[x] = acts[x], acts[i]
		}
		for _, a := range acts {
			if a == 'r' {
				ks := sortedKeys(cur)
				k := ks[r.intn(len(ks))]
				rem(k)
				if r.intn(5) == 0 {
					ins(k) // remove then re-insert the same member before any Lookup
					tags["batch:remove-then-reinsert-same"] = true
				} else {
					gone = append(gone, k)
				}
			} else {
				ins(newName())
			}
		}
		if r.intn(6) == 0 {
			ops = append(ops, "OLen")
			obs = append(obs, fmt.Sprintf("BLen (%d)%%Z", ring.Len()))
		}
		fresh()
	}
	// hash table: calls of the form saltedHash(name, 0..k-1) (checked against the recorded raw input bytes)
	// are grouped by name; every other recorded call is emitted raw
	names := map[string]bool{}
	for k := range tbl {
		if len(k) >= 5 {
			names[k[:len(k)-5]] = true
		}
	}
	var nl []string
	for k := range names {
		nl = append(nl, k)
	}
	sort.Strings(nl)
	var ge []string
	for _, name := range nl {
		var hs []string
		for i := 0; ; i++ {
			raw := string(salt(name, i))
			v, ok := tbl[raw]
			if !ok {
				break
			}
			hs = append(hs, fmt.Sprintf("%d", v))
			delete(tbl, raw)
		}
		if len(hs) > 0 {
			ge = append(ge, fmt.Sprintf("(%s, [%s]%%N)", bs(name), strings.Join(hs, ";")))
		}
	}
	tk := make([]string, 0, len(tbl))
	for k := range tbl {
		tk = append(tk, k)
	}
	sort.Strings(tk)
	te := make([]string, len(tk))
	for i, k := range tk {
		te[i] = fmt.Sprintf("(%s, %d%%N)", bs(k), tbl[k])
	}
	coq := fmt.Sprintf("CRing (Build_case 100%%nat 1%%nat [%s] [%s] [%s] [%s])", strings.Join(te, "; "), strings.Join(ge, "; "), wrap(ops), wrap(obs))
	var tl []string
	for t := range tags {
		tl = append(tl, t)
	}
	sort.Strings(tl)
	tl = append(tl, "replicas:100", "probes:1")
	_ = enc.Encode(line{Coq: coq, NT: true, Key: fmt.Sprintf("%x", sha1.Sum([]byte(coq))),
		Sample: map[string]any{"hash": htag, "replicas": 100, "probes": 1, "trace": sample}, Tags: tl})
}

// nodesCase: several real proxy-neighbour managers (felix/dataplane/linux/proxy_neigh_mgr.go), one per
// cluster node, each fed its own ordering of the same per-host HostMetadataUpdate/Remove streams (plus
// idempotent repeats and remove+re-add noise, selectNodeForIP and CompleteDeferredWork calls in between);
// at the end every node is asked, for a list of LoadBalancer addresses, whether it owns the address.
func nodesCase(r *rng, real hashring.Hash, enc *json.Encoder) {
	type ev struct {
		upd        bool
		host       string
		a4, a6     string
		coq, human string
	}
	tags := map[string]bool{"nodes-case": true}
	nh := 3 + r.intn(4)
	hosts := make([]string, nh)
	a4 := map[string]string{}
	a6 := map[string]string{}
	for i := range hosts {
		hosts[i] = fmt.Sprintf("node-%c", 'a'+i)
		a4[hosts[i]] = fmt.Sprintf("10.0.0.%d", i+1)
		a6[hosts[i]] = fmt.Sprintf("fd00::%d", i+1)
		switch r.intn(8) {
		case 0:
			a4[hosts[i]] = ""
			tags["host-without-v4-address"] = true
		case 1:
			a6[hosts[i]] = ""
			tags["host-without-v6-address"] = true
		}
	}
	mkUpd := func(h string) ev {
		return ev{upd: true, host: h, a4: a4[h], a6: a6[h],
			coq:   fmt.Sprintf("NMsg (HUpdate %s %s %s)", bs(h), bs(a4[h]), bs(a6[h])),
			human: fmt.Sprintf("HostMetadataUpdate(%s,%q,%q)", h, a4[h], a6[h])}
	}
	mkRem := func(h string) ev {
		return ev{host: h, coq: fmt.Sprintf("NMsg (HRemove %s)", bs(h)), human: fmt.Sprintf("HostMetadataRemove(%s)", h)}
	}
	// the cluster's history, per host: update, then possibly remove / re-add
	per := map[string][]ev{}
	for _, h := range hosts {
		seq := []ev{mkUpd(h)}
		for r.intn(3) == 0 {
			seq = append(seq, mkRem(h))
			if r.intn(3) != 0 {
				seq = append(seq, mkUpd(h))
			}
		}
		per[h] = seq
	}
	nips := 6 + r.intn(5)
	ips := make([]string, nips)
	for i := range ips {
		ips[i] = fmt.Sprintf("192.168.%d.%d", r.intn(4), r.intn(256))
		if r.intn(5) == 0 {
			ips[i] = fmt.Sprintf("fd10::%x", r.intn(4096))
		}
	}
	v6 := r.intn(4) == 0
	if v6 {
		tags["family:v6"] = true
	}
	nodeNames := append([]string{}, hosts...)
	if r.intn(4) == 0 {
		nodeNames = append(nodeNames, "outsider")
		tags["node-not-in-member-set"] = true
	}
	used := map[string]bool{}
	var nodes []string
	var human []string
	for _, name := range nodeNames {
		ver := uint8(4)
		nv6 := v6
		if r.intn(10) == 0 {
			nv6 = !v6
			tags["mixed-families"] = true
		}
		if nv6 {
			ver = 6
		}
		nd := intdataplane.VerifC45NewNode(name, ver)
		idx := map[string]int{}
		remaining := 0
		for _, h := range hosts {
			remaining += len(per[h])
		}
		miss := r.intn(6) == 0 // this node has not yet received the last event of one host
		if miss {
			tags["node-missed-last-event"] = true
		}
		var ops, obs, trace []string
		send := func(e ev) {
			if e.upd {
				nd.OnUpdate(&proto.HostMetadataUpdate{Hostname: e.host, Ipv4Addr: e.a4, Ipv6Addr: e.a6})
			} else {
				nd.OnUpdate(&proto.HostMetadataRemove{Hostname: e.host})
			}
			used[e.host] = true
			ops = append(ops, e.coq)
			obs = append(obs, fmt.Sprintf("NODirty %v", nd.Dirty()))
			trace = append(trace, fmt.Sprintf("%s dirty=%v", e.human, nd.Dirty()))
		}
		for remaining > 0 {
			h := hosts[r.intn(len(hosts))]
			if idx[h] >= len(per[h]) {
				continue
			}
			e := per[h][idx[h]]
			idx[h]++
			remaining--
			if miss && remaining == 0 {
				break
			}
			send(e)
			switch r.intn(8) {
			case 0: // idempotent repeat
				send(e)
				tags["repeat-message"] = true
			case 1: // flap: the opposite and back again
				if e.upd {
					send(mkRem(e.host))
					send(e)
				} else {
					send(mkUpd(e.host))
					send(e)
				}
				tags["flap"] = true
			case 2:
				ip := ips[r.intn(len(ips))]
				b := nd.Select(ip)
				ops = append(ops, fmt.Sprintf("NSelect %s", bs(ip)))
				obs = append(obs, fmt.Sprintf("NOSel %v", b))
				trace = append(trace, fmt.Sprintf("selectNodeForIP(%s)=%v", ip, b))
			case 3:
				_ = nd.Complete()
				ops = append(ops, "NComplete")
				obs = append(obs, fmt.Sprintf("NODirty %v", nd.Dirty()))
				trace = append(trace, fmt.Sprintf("CompleteDeferredWork dirty=%v", nd.Dirty()))
			}
		}
		var fin, owned []string
		for _, ip := range ips {
			b := nd.Select(ip)
			fin = append(fin, fmt.Sprintf("%v", b))
			if b {
				owned = append(owned, ip)
			}
		}
		nd.Stop()
		nodes = append(nodes, fmt.Sprintf("Build_node %v %s [%s] [%s] [%s]", nv6, bs(name), wrap(ops), wrap(obs), strings.Join(fin, ";")))
		human = append(human, fmt.Sprintf("%s (v%d): %s => owns %v", name, ver, strings.Join(trace, ", "), owned))
	}
	var ge []string
	grp := func(name string, k int) {
		hs := make([]string, k)
		for i := range hs {
			hs[i] = fmt.Sprintf("%d", real(salt(name, i)))
		}
		ge = append(ge, fmt.Sprintf("(%s, [%s]%%N)", bs(name), strings.Join(hs, ";")))
	}
	for _, h := range hosts {
		if used[h] {
			grp(h, 100)
		}
	}
	seen := map[string]bool{}
	for _, ip := range ips {
		if !seen[ip] {
			seen[ip] = true
			grp(ip, 1)
		}
	}
	ipl := make([]string, len(ips))
	for i, ip := range ips {
		ipl[i] = bs(ip)
	}
	coq := fmt.Sprintf("CNodes (Build_ncase [%s] [%s] [%s])", strings.Join(ge, "; "), strings.Join(ipl, "; "), wrap(nodes))
	var tl []string
	for t := range tags {
		tl = append(tl, t)
	}
	sort.Strings(tl)
	tl = append(tl, fmt.Sprintf("nodes:%d", len(nodeNames)))
	_ = enc.Encode(line{Coq: coq, NT: len(hosts) >= 2, Key: fmt.Sprintf("%x", sha1.Sum([]byte(coq))),
		Sample: map[string]any{"kind": "nodes", "ips": ips, "nodes": human}, Tags: tl})
}
