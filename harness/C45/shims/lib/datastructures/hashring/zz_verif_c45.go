//go:build verif

package hashring

// VerifDefaultHash exposes the hash a Ring uses when no WithHash option is given
// (what felix/dataplane/linux/proxy_neigh_mgr.go runs with).
func VerifDefaultHash() Hash { return defaultHash }
