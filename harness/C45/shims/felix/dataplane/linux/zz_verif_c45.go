//go:build verif

package intdataplane

import "time"

// VerifC45Node wraps a real proxyNeighManager (no netlink handle, no ARP/NDP sockets: with no pools,
// services or host interfaces configured its desired state is empty and it never opens one).
type VerifC45Node struct{ m *proxyNeighManager }

func VerifC45NewNode(hostname string, ipVersion uint8) *VerifC45Node {
	cfg := Config{Hostname: hostname}
	cfg.RulesConfig.WorkloadIfacePrefixes = []string{"cali"}
	return &VerifC45Node{m: newProxyNeighManagerWithShims(cfg, ipVersion, nil, nil, nil, time.Second, time.Second)}
}

func (n *VerifC45Node) OnUpdate(msg any)      { n.m.OnUpdate(msg) }
func (n *VerifC45Node) Dirty() bool           { return n.m.dirty }
func (n *VerifC45Node) Complete() error       { return n.m.CompleteDeferredWork() }
func (n *VerifC45Node) Select(ip string) bool { return n.m.selectNodeForIP(ip) }
func (n *VerifC45Node) Stop()                 { n.m.Stop() }
