//go:build verif

// C08 correspondence driver.  For every generated proto.Rule it runs the REAL
// rules.DefaultRuleRenderer.ProtoRuleToIptablesRules (iptables and nftables flavours), renders every
// resulting generictables.Rule to text with the real iptables / nftables rule renderers, parses that
// text into the abstract rule syntax of coq/theories/Common/Ipt.v (parse.go: anything not understood is
// a hard error) and prints one JSON line per case carrying the case as a Coq term
// (Verif.C08.Spec.case): rule, configuration, IP set contents, parsed implementation output, real
// SplitPortList output, boundary packets.
package main

import (
	"encoding/json"
	"flag"
	"fmt"
	"math/big"
	"os"
	"sort"
	"strings"

	"github.com/sirupsen/logrus"
	googleproto "google.golang.org/protobuf/proto"

	"github.com/projectcalico/calico/felix/environment"
	"github.com/projectcalico/calico/felix/generictables"
	"github.com/projectcalico/calico/felix/ipsets"
	"github.com/projectcalico/calico/felix/iptables"
	"github.com/projectcalico/calico/felix/nftables"
	"github.com/projectcalico/calico/felix/proto"
	"github.com/projectcalico/calico/felix/rules"
	"github.com/projectcalico/calico/felix/types"
)

type rng struct{ s uint64 }

func (r *rng) next() uint64 {
	r.s += 0x9e3779b97f4a7c15
	z := r.s
	z = (z ^ (z >> 30)) * 0xbf58476d1ce4e5b9
	z = (z ^ (z >> 27)) * 0x94d049bb133111eb
	return z ^ (z >> 31)
}
func (r *rng) intn(n int) int    { return int(r.next() % uint64(n)) }
func (r *rng) chance(p int) bool { return r.intn(100) < p }

type line struct {
	Coq    string         `json:"coq"`
	NT     bool           `json:"nt"`
	Key    string         `json:"key"`
	Sample map[string]any `json:"sample,omitempty"`
	Tags   []string       `json:"tags"`
}

// ------------------------------------------------------------------ generator-side rule description

type cidr struct {
	v6   bool
	addr *big.Int
	len  int
}

func (c cidr) width() int {
	if c.v6 {
		return 128
	}
	return 32
}
func (c cidr) String() string {
	w := c.width() / 8
	b := c.addr.FillBytes(make([]byte, w))
	if c.v6 {
		// calc graph sends net.IPNet.String(); use the library for canonical text
		return canonV6(b) + fmt.Sprintf("/%d", c.len)
	}
	return fmt.Sprintf("%d.%d.%d.%d/%d", b[0], b[1], b[2], b[3], c.len)
}
func (c cidr) coq() string {
	v := "V4"
	if c.v6 {
		v = "V6"
	}
	return fmt.Sprintf("{| cidr_ver := %s; cidr_addr := %s; cidr_len := %d |}", v, c.addr.String(), c.len)
}
func (c cidr) first() *big.Int {
	sh := uint(c.width() - c.len)
	x := new(big.Int).Rsh(c.addr, sh)
	return x.Lsh(x, sh)
}
func (c cidr) last() *big.Int {
	sh := uint(c.width() - c.len)
	x := new(big.Int).Lsh(big.NewInt(1), sh)
	x.Sub(x, big.NewInt(1))
	return x.Add(x, c.first())
}

type prange struct{ first, last int }

type icmpM struct {
	typ, code int
	hasCode   bool
}

// a fixed corpus case: sets and packets given instead of generated
type forced struct {
	sets [][]member
	pkts []packet
}

type grule struct {
	forced                                       *forced
	action                                       string // allow deny pass log ""
	ipver                                        int    // 0,4,6
	proto, notProto                              int    // -1 none
	protoByName, notProtoByName                  bool
	srcNets, dstNets, notSrcNets, notDstNets     []cidr
	srcPorts, dstPorts, notSrcPorts, notDstPorts []prange
	srcNamed, dstNamed, notSrcNamed, notDstNamed []int
	srcSets, dstSets, notSrcSets, notDstSets     []int
	dstIPPortSets                                []int
	icmp, notIcmp                                *icmpM
}

var protoNames = map[int]string{1: "icmp", 6: "tcp", 17: "udp", 58: "icmpv6", 132: "sctp", 136: "udplite"}

func setID(i int) string { return fmt.Sprintf("s%d", i) }

func (g *grule) toProto() *proto.Rule {
	r := &proto.Rule{Action: g.action}
	switch g.ipver {
	case 4:
		r.IpVersion = proto.IPVersion_IPV4
	case 6:
		r.IpVersion = proto.IPVersion_IPV6
	}
	mkp := func(n int, byName bool) *proto.Protocol {
		if n < 0 {
			return nil
		}
		if byName {
			return &proto.Protocol{NumberOrName: &proto.Protocol_Name{Name: protoNames[n]}}
		}
		return &proto.Protocol{NumberOrName: &proto.Protocol_Number{Number: int32(n)}}
	}
	r.Protocol = mkp(g.proto, g.protoByName)
	r.NotProtocol = mkp(g.notProto, g.notProtoByName)
	nets := func(cs []cidr) (out []string) {
		for _, c := range cs {
			out = append(out, c.String())
		}
		return
	}
	r.SrcNet, r.DstNet, r.NotSrcNet, r.NotDstNet = nets(g.srcNets), nets(g.dstNets), nets(g.notSrcNets), nets(g.notDstNets)
	ports := func(ps []prange) (out []*proto.PortRange) {
		for _, p := range ps {
			out = append(out, &proto.PortRange{First: int32(p.first), Last: int32(p.last)})
		}
		return
	}
	r.SrcPorts, r.DstPorts, r.NotSrcPorts, r.NotDstPorts = ports(g.srcPorts), ports(g.dstPorts), ports(g.notSrcPorts), ports(g.notDstPorts)
	ids := func(is []int) (out []string) {
		for _, i := range is {
			out = append(out, setID(i))
		}
		return
	}
	r.SrcNamedPortIpSetIds, r.DstNamedPortIpSetIds = ids(g.srcNamed), ids(g.dstNamed)
	r.NotSrcNamedPortIpSetIds, r.NotDstNamedPortIpSetIds = ids(g.notSrcNamed), ids(g.notDstNamed)
	r.SrcIpSetIds, r.DstIpSetIds, r.NotSrcIpSetIds, r.NotDstIpSetIds = ids(g.srcSets), ids(g.dstSets), ids(g.notSrcSets), ids(g.notDstSets)
	r.DstIpPortSetIds = ids(g.dstIPPortSets)
	if g.icmp != nil {
		if g.icmp.hasCode {
			r.Icmp = &proto.Rule_IcmpTypeCode{IcmpTypeCode: &proto.IcmpTypeAndCode{Type: int32(g.icmp.typ), Code: int32(g.icmp.code)}}
		} else {
			r.Icmp = &proto.Rule_IcmpType{IcmpType: int32(g.icmp.typ)}
		}
	}
	if g.notIcmp != nil {
		if g.notIcmp.hasCode {
			r.NotIcmp = &proto.Rule_NotIcmpTypeCode{NotIcmpTypeCode: &proto.IcmpTypeAndCode{Type: int32(g.notIcmp.typ), Code: int32(g.notIcmp.code)}}
		} else {
			r.NotIcmp = &proto.Rule_NotIcmpType{NotIcmpType: int32(g.notIcmp.typ)}
		}
	}
	return r
}

func coqList[T any](xs []T, f func(T) string) string {
	ys := make([]string, len(xs))
	for i, x := range xs {
		ys[i] = f(x)
	}
	return "[" + strings.Join(ys, "; ") + "]"
}
func coqN(i int) string        { return fmt.Sprintf("%d%%N", i) }
func coqRange(p prange) string { return fmt.Sprintf("(%d%%N, %d%%N)", p.first, p.last) }
func coqOptN(i int) string {
	if i < 0 {
		return "None"
	}
	return fmt.Sprintf("(Some %d%%N)", i)
}
func coqIcmp(m *icmpM) string {
	if m == nil {
		return "None"
	}
	if m.hasCode {
		return fmt.Sprintf("(Some (IcmpTypeCode %d%%N %d%%N))", m.typ, m.code)
	}
	return fmt.Sprintf("(Some (IcmpType %d%%N))", m.typ)
}

func (g *grule) coq() string {
	act := map[string]string{"": "Allow", "allow": "Allow", "deny": "Deny", "pass": "Pass", "next-tier": "Pass", "log": "Log"}[g.action]
	iv := "None"
	if g.ipver == 4 {
		iv = "(Some V4)"
	} else if g.ipver == 6 {
		iv = "(Some V6)"
	}
	cs := func(c []cidr) string { return coqList(c, cidr.coq) }
	ps := func(p []prange) string { return coqList(p, coqRange) }
	ns := func(n []int) string { return coqList(n, coqN) }
	return fmt.Sprintf("{| r_action := %s; r_ipver := %s; r_proto := %s; r_src_nets := %s; r_src_ports := %s; r_src_named_ports := %s; "+
		"r_dst_nets := %s; r_dst_ports := %s; r_dst_named_ports := %s; r_icmp := %s; r_src_ipsets := %s; r_dst_ipsets := %s; "+
		"r_dst_ipport_sets := %s; r_not_proto := %s; r_not_src_nets := %s; r_not_src_ports := %s; r_not_dst_nets := %s; "+
		"r_not_dst_ports := %s; r_not_icmp := %s; r_not_src_ipsets := %s; r_not_dst_ipsets := %s; "+
		"r_not_src_named_ports := %s; r_not_dst_named_ports := %s |}",
		act, iv, coqOptN(g.proto), cs(g.srcNets), ps(g.srcPorts), ns(g.srcNamed),
		cs(g.dstNets), ps(g.dstPorts), ns(g.dstNamed), coqIcmp(g.icmp), ns(g.srcSets), ns(g.dstSets),
		ns(g.dstIPPortSets), coqOptN(g.notProto), cs(g.notSrcNets), ps(g.notSrcPorts), cs(g.notDstNets),
		ps(g.notDstPorts), coqIcmp(g.notIcmp), ns(g.notSrcSets), ns(g.notDstSets), ns(g.notSrcNamed), ns(g.notDstNamed))
}

// ------------------------------------------------------------------ generation

var v4bases = []string{"10.0.0.0", "10.1.0.0", "10.1.2.0", "192.168.0.0", "172.16.5.4", "10.1.2.128", "0.0.0.0", "255.255.255.255", "10.0.0.1"}
var v6bases = []string{"fd00::", "fd00:1::", "fd00:1:2::", "fe80::", "::", "2001:db8::1", "ffff:ffff:ffff:ffff:ffff:ffff:ffff:ffff", "fd00::1"}

func genCIDR(r *rng, v6 bool, allowCatchAll bool) cidr {
	var c cidr
	c.v6 = v6
	if v6 {
		c.addr = parseIP(v6bases[r.intn(len(v6bases))])
		c.len = []int{0, 8, 16, 32, 48, 64, 96, 127, 128, 1, 10, 128}[r.intn(12)]
	} else {
		c.addr = parseIP(v4bases[r.intn(len(v4bases))])
		c.len = []int{0, 8, 16, 24, 25, 31, 32, 1, 12, 32, 24, 30}[r.intn(12)]
	}
	if r.chance(50) {
		// random address bits
		w := c.width()
		x := new(big.Int).SetUint64(r.next())
		x.Lsh(x, 64).Or(x, new(big.Int).SetUint64(r.next()))
		x.Rsh(x, uint(128-w))
		c.addr = x
	}
	// the calculation graph sends normalised CIDRs (host bits zero)
	c.addr = c.first()
	if c.len == 0 && !allowCatchAll {
		c.len = 1
		c.addr = c.first()
	}
	return c
}

// a CIDR list mixing both families (2-4 entries, both present, any order: v6 before v4, interleaved, ...)
func genMixedNets(r *rng, negated bool) []cidr {
	n := 2 + r.intn(3)
	for {
		var out []cidr
		have4, have6 := false, false
		for i := 0; i < n; i++ {
			v6 := r.chance(50)
			out = append(out, genCIDR(r, v6, false))
			have4 = have4 || !v6
			have6 = have6 || v6
		}
		if have4 && have6 {
			return out
		}
	}
}

func genNets(r *rng, ver int, negated bool) []cidr {
	n := []int{0, 0, 0, 1, 1, 2, 3, 4}[r.intn(8)]
	var out []cidr
	for i := 0; i < n; i++ {
		v6 := ver == 6
		if r.chance(6) {
			v6 = !v6 // a CIDR of the other family (API forbids, Felix tolerates)
		}
		out = append(out, genCIDR(r, v6, !negated || r.chance(4)))
	}
	return out
}

func genPorts(r *rng) []prange {
	n := []int{0, 0, 0, 1, 1, 2, 3, 7, 8, 9, 14, 15, 16, 17, 25, 31, 40}[r.intn(17)]
	var out []prange
	for i := 0; i < n; i++ {
		first := []int{0, 1, 22, 80, 443, 1024, 8080, 65535, 65534}[r.intn(9)]
		if r.chance(50) {
			first = r.intn(65536)
		}
		last := first
		if r.chance(40) {
			last = first + 1 + r.intn(200)
			if last > 65535 {
				last = 65535
			}
		}
		out = append(out, prange{first, last})
	}
	return out
}

type setAlloc struct{ n int }

func (s *setAlloc) some(r *rng, choices []int) []int {
	k := choices[r.intn(len(choices))]
	var out []int
	for i := 0; i < k; i++ {
		out = append(out, s.n)
		s.n++
	}
	return out
}

func genRule(r *rng, ver int, sa *setAlloc, mixed bool) (*grule, []string) {
	g := &grule{proto: -1, notProto: -1}
	var tags []string
	g.action = []string{"", "allow", "deny", "pass", "next-tier", "log", "allow", "deny"}[r.intn(8)]
	switch r.intn(10) {
	case 0:
		g.ipver = 10 - ver // the other version: rule must vanish
	case 1, 2, 3:
		g.ipver = ver
	}
	kind := r.intn(10)
	icmpProto := 1
	if ver == 6 {
		icmpProto = 58
	}
	switch {
	case kind < 5: // port-bearing protocol
		g.proto = []int{6, 17, 132}[r.intn(3)]
		g.protoByName = r.chance(60)
		tags = append(tags, "proto:ports")
		if r.chance(75) {
			g.srcPorts = genPorts(r)
		}
		if r.chance(85) {
			g.dstPorts = genPorts(r)
		}
		if r.chance(30) {
			g.notSrcPorts = genPorts(r)
		}
		if r.chance(30) {
			g.notDstPorts = genPorts(r)
		}
	case kind < 7: // icmp
		g.proto = icmpProto
		g.protoByName = r.chance(60)
		tags = append(tags, "proto:icmp")
		if r.chance(70) {
			g.icmp = &icmpM{typ: []int{0, 8, 3, 128, 255}[r.intn(5)], code: []int{0, 1, 255}[r.intn(3)], hasCode: r.chance(50)}
		}
		if r.chance(50) {
			g.notIcmp = &icmpM{typ: []int{0, 8, 3, 128, 255}[r.intn(5)], code: []int{0, 1, 255}[r.intn(3)], hasCode: r.chance(50)}
		}
	case kind < 8: // other protocol by number
		g.proto = []int{4, 47, 50, 33, 136, 255, 2}[r.intn(7)]
		if g.proto == 136 {
			g.protoByName = r.chance(50)
		}
		tags = append(tags, "proto:other")
	default:
		tags = append(tags, "proto:none")
	}
	if g.proto < 0 || r.chance(15) {
		if r.chance(40) {
			g.notProto = []int{6, 17, 1, 58, 132, 47}[r.intn(6)]
			g.notProtoByName = protoNames[g.notProto] != "" && r.chance(60)
		}
	}
	// named ports need no protocol in the rule (the set carries it)
	if r.chance(35) {
		g.srcNamed = sa.some(r, []int{1, 1, 2, 3})
	}
	if r.chance(45) {
		g.dstNamed = sa.some(r, []int{1, 1, 2, 3})
	}
	if r.chance(15) {
		g.notSrcNamed = sa.some(r, []int{1, 2})
	}
	if r.chance(15) {
		g.notDstNamed = sa.some(r, []int{1, 2})
	}
	if r.chance(70) {
		g.srcNets = genNets(r, ver, false)
	}
	if r.chance(70) {
		g.dstNets = genNets(r, ver, false)
	}
	if r.chance(45) {
		g.notSrcNets = genNets(r, ver, true)
	}
	if r.chance(45) {
		g.notDstNets = genNets(r, ver, true)
	}
	if r.chance(35) {
		g.srcSets = sa.some(r, []int{1, 1, 2})
	}
	if r.chance(35) {
		g.dstSets = sa.some(r, []int{1, 1, 2})
	}
	if r.chance(20) {
		g.notSrcSets = sa.some(r, []int{1, 2})
	}
	if r.chance(20) {
		g.notDstSets = sa.some(r, []int{1, 2})
	}
	if r.chance(12) && len(g.dstPorts) == 0 && len(g.notDstPorts) == 0 {
		g.dstIPPortSets = sa.some(r, []int{1, 1, 2})
	}
	if mixed {
		// no explicit ip_version, at least one CIDR field mixing IPv4 and IPv6 in arbitrary order; no ICMP
		// type matches (the rule is rendered for both versions)
		g.ipver = 0
		g.icmp, g.notIcmp = nil, nil
		fields := []*[]cidr{&g.srcNets, &g.notSrcNets, &g.dstNets, &g.notDstNets}
		k := r.intn(4)
		for j, f := range fields {
			switch roll := r.intn(100); {
			case j == k || roll < 25:
				*f = genMixedNets(r, j%2 == 1)
			case roll < 85:
				*f = nil // leave the rule applicable to both versions
			}
		}
		tags = append(tags, "mixed-family")
	}
	return g, tags
}

// number of positive match blocks the rule needs (for tagging only; computed independently of the renderer)
func posBlocks(g *grule, ver int, splits [4][][]*proto.PortRange) int {
	n := 0
	if len(splits[0])+len(g.srcNamed) > 1 {
		n++
	}
	if len(splits[1])+len(g.dstNamed) > 1 {
		n++
	}
	cnt := func(cs []cidr) int {
		k := 0
		for _, c := range cs {
			if c.v6 == (ver == 6) {
				k++
			}
		}
		return k
	}
	if cnt(g.srcNets) > 1 {
		n++
	}
	if cnt(g.dstNets) > 1 {
		n++
	}
	return n
}

// ------------------------------------------------------------------ packets

type packet struct {
	proto        int
	src, dst     *big.Int
	sport, dport int
	ityp, icode  int
	mark         uint32
}

func (p packet) coq(ver int) string {
	v := "V4"
	if ver == 6 {
		v = "V6"
	}
	return fmt.Sprintf("{| pk_ver := %s; pk_proto := %d; pk_src := %s; pk_dst := %s; pk_sport := %d; pk_dport := %d; "+
		"pk_icmp_type := %d; pk_icmp_code := %d; pk_in := []; pk_out := []; pk_ct := CtNew; pk_mark := %d |}",
		v, p.proto, p.src.String(), p.dst.String(), p.sport, p.dport, p.ityp, p.icode, p.mark)
}

func addrCandidates(ver int, lists ...[]cidr) []*big.Int {
	w := uint(32)
	if ver == 6 {
		w = 128
	}
	max := new(big.Int).Lsh(big.NewInt(1), w)
	max.Sub(max, big.NewInt(1))
	seen := map[string]bool{}
	var out []*big.Int
	add := func(x *big.Int) {
		if x.Sign() < 0 || x.Cmp(max) > 0 {
			return
		}
		if !seen[x.String()] {
			seen[x.String()] = true
			out = append(out, new(big.Int).Set(x))
		}
	}
	for _, l := range lists {
		for _, c := range l {
			if c.v6 != (ver == 6) {
				continue
			}
			f, la := c.first(), c.last()
			add(f)
			add(la)
			add(new(big.Int).Sub(f, big.NewInt(1)))
			add(new(big.Int).Add(la, big.NewInt(1)))
		}
	}
	add(big.NewInt(0))
	add(max)
	if ver == 4 {
		add(parseIP("10.1.2.3"))
	} else {
		add(parseIP("fd00:1:2::3"))
	}
	return out
}

func portCandidates(lists ...[]prange) []int {
	seen := map[int]bool{}
	var out []int
	add := func(x int) {
		if x < 0 || x > 65535 || seen[x] {
			return
		}
		seen[x] = true
		out = append(out, x)
	}
	for _, l := range lists {
		for _, p := range l {
			add(p.first)
			add(p.last)
			add(p.first - 1)
			add(p.last + 1)
		}
	}
	add(0)
	add(65535)
	add(12345)
	return out
}

func inCIDRs(cs []cidr, ver int, x *big.Int) bool {
	for _, c := range cs {
		if c.v6 == (ver == 6) && x.Cmp(c.first()) >= 0 && x.Cmp(c.last()) <= 0 {
			return true
		}
	}
	return false
}
func inPorts(ps []prange, x int) bool {
	for _, p := range ps {
		if p.first <= x && x <= p.last {
			return true
		}
	}
	return false
}

// pick a candidate satisfying pred if there is one (rotating start), else any
func pickAddr(r *rng, cands []*big.Int, pred func(*big.Int) bool) *big.Int {
	s := r.intn(len(cands))
	for i := range cands {
		c := cands[(s+i)%len(cands)]
		if pred(c) {
			return c
		}
	}
	return cands[s]
}
func pickPort(r *rng, cands []int, pred func(int) bool) int {
	s := r.intn(len(cands))
	for i := range cands {
		c := cands[(s+i)%len(cands)]
		if pred(c) {
			return c
		}
	}
	return cands[s]
}

type member struct {
	addr        *big.Int
	proto, port int // proto -1: plain IP member
}

func (m member) coq() string {
	if m.proto < 0 {
		return fmt.Sprintf("MemIP %s", m.addr.String())
	}
	return fmt.Sprintf("MemIPPort %s %d %d", m.addr.String(), m.proto, m.port)
}
func (m member) key() string { return m.coq() }

type markCfg struct{ accept, pass, drop, s0, s1, endpoint uint32 }

// treeFixed: does the tree under test clear the scratch bit before a third positive match block?
// Probed once from the real renderer (see probeVariant); selects the model variant (c_fixed).
var treeFixed bool

// probeVariant renders the minimal three-positive-block rule with the real iptables renderer and looks
// for an unconditional "clear scratch1" rule ahead of the third block.
func probeVariant() (bool, error) {
	g, _ := corpusThreeBlocks()
	mc := markCfgs[0]
	cfg := rules.Config{
		IPSetConfigV4: ipsets.NewIPVersionConfig(ipsets.IPFamilyV4, "cali", nil, nil),
		IPSetConfigV6: ipsets.NewIPVersionConfig(ipsets.IPFamilyV6, "cali", nil, nil),
		MarkAccept:    mc.accept, MarkPass: mc.pass, MarkDrop: mc.drop,
		MarkScratch0: mc.s0, MarkScratch1: mc.s1, MarkEndpoint: mc.endpoint,
	}
	out := rules.NewRenderer(cfg, false).ProtoRuleToIptablesRules(g.toProto(), 4, rules.RuleOwnerTypePolicy,
		rules.RuleDirIngress, 0, &types.PolicyID{Name: "default.foo", Kind: "GlobalNetworkPolicy"}, "default", false)
	clear := fmt.Sprintf("-A C --jump MARK --set-mark 0/%#x", mc.s1)
	n := 0
	for k := range out {
		if iptables.NewIptablesRenderer("").RenderAppend(&out[k], "C", "", &environment.Features{}) == clear {
			n++
		}
	}
	switch {
	case n == 0 && len(out) == 11:
		return false, nil
	case n == 1 && len(out) == 12:
		return true, nil
	}
	return false, fmt.Errorf("cannot tell the scratch-bit variant of this tree: %d rules, %d clear rules", len(out), n)
}

var markCfgs = []markCfg{
	{0x80, 0x100, 0x800, 0x200, 0x400, 0xff000},
	{0x10000, 0x20000, 0x100000, 0x40000, 0x80000, 0xffe00000},
	{0x1, 0x80000000, 0x4, 0x2, 0x40000000, 0xff00},
}

func main() {
	n := flag.Int("n", 100, "cases")
	seed := flag.Uint64("seed", 1, "seed")
	flag.Parse()
	logrus.SetLevel(logrus.PanicLevel)
	logrus.SetOutput(devNull{})
	r := &rng{s: *seed*0x2545F4914F6CDD1D + 0xC08}
	enc := json.NewEncoder(os.Stdout)
	stats := map[string]int{}
	var perr error
	if treeFixed, perr = probeVariant(); perr != nil {
		fmt.Fprintf(os.Stderr, "C08 driver: %v\n", perr)
		os.Exit(3)
	}
	// corpus first: the minimal three-positive-block rule (scratch bit re-use), both flavours
	for _, nft := range []bool{false, true} {
		g, nsets := corpusThreeBlocks()
		c, err := buildCase(r, g, 4, nft, markCfgs[0], false, false, false, false, nsets, nil)
		if err != nil {
			fmt.Fprintf(os.Stderr, "C08 driver: %v\n", err)
			os.Exit(3)
		}
		c.Tags = append(c.Tags, "corpus:three-positive-blocks")
		_ = enc.Encode(c)
	}
	emit := func(c *line, err error, tags []string) {
		if err != nil {
			// hard error: the tie to the code is gone for this rule
			fmt.Fprintf(os.Stderr, "C08 driver: %v\n", err)
			os.Exit(3)
		}
		stats["cases"]++
		c.Tags = append(c.Tags, tags...)
		_ = enc.Encode(c)
	}
	// corpus: the same rule object rendered for IPv4 and then IPv6, as the policy managers do, with a CIDR
	// list that names the IPv6 net first
	for _, nft := range []bool{false, true} {
		g := &grule{proto: -1, notProto: -1, action: "allow"}
		g.srcNets = []cidr{{true, parseIP("fd00:1::"), 64}, {false, parseIP("10.0.0.0"), 8}}
		pr := g.toProto()
		for k, v := range []int{4, 6} {
			c, err := buildCase(r, g, v, nft, markCfgs[0], false, false, false, false, 0, pr)
			emit(c, err, []string{"corpus:mixed-4-then-6", fmt.Sprintf("seq:4-then-6:%d", k+1), "mixed-family"})
		}
	}
	for i := 0; stats["cases"] < *n+4; i++ {
		ver := 4
		if r.chance(35) {
			ver = 6
		}
		nft := i%2 == 1
		mc := markCfgs[r.intn(len(markCfgs))]
		flow := r.chance(50)
		untracked := r.chance(15)
		reject := r.chance(25)
		logLimit := r.chance(40)
		sa := &setAlloc{}
		mixed := r.chance(12)
		g, tags := genRule(r, ver, sa, mixed)
		if mixed || (g.ipver == 0 && g.icmp == nil && g.notIcmp == nil && r.chance(8)) {
			// ONE proto.Rule object rendered for both IP versions in sequence (4 then 6, or 6 then 4); every
			// rendering is compared with the model's rendering of the ORIGINAL rule for that version
			pr := g.toProto()
			order := []int{4, 6}
			if r.chance(50) {
				order = []int{6, 4}
			}
			for k, v := range order {
				c, err := buildCase(r, g, v, nft, mc, flow, untracked, reject, logLimit, sa.n, pr)
				emit(c, err, append(append([]string{}, tags...), fmt.Sprintf("seq:%d-then-%d:%d", order[0], order[1], k+1)))
			}
			continue
		}
		c, err := buildCase(r, g, ver, nft, mc, flow, untracked, reject, logLimit, sa.n, nil)
		emit(c, err, tags)
	}
	_ = enc.Encode(map[string]any{"stats": stats})
}

type devNull struct{}

func (devNull) Write(p []byte) (int, error) { return len(p), nil }

// shared: the proto.Rule object to render (nil = a fresh one).  When given, it may already have been rendered
// for the other IP version; the model and the oracle always work from g, the original rule.
func buildCase(r *rng, g *grule, ver int, nft bool, mc markCfg, flow, untracked, reject, logLimit bool, nsets int, shared *proto.Rule) (ln *line, err error) {
	defer func() {
		if e := recover(); e != nil {
			err = fmt.Errorf("renderer panicked on rule %s: %v", g.coq(), e)
		}
	}()
	cfg := rules.Config{
		IPSetConfigV4:   ipsets.NewIPVersionConfig(ipsets.IPFamilyV4, "cali", nil, nil),
		IPSetConfigV6:   ipsets.NewIPVersionConfig(ipsets.IPFamilyV6, "cali", nil, nil),
		MarkAccept:      mc.accept,
		MarkPass:        mc.pass,
		MarkDrop:        mc.drop,
		MarkScratch0:    mc.s0,
		MarkScratch1:    mc.s1,
		MarkEndpoint:    mc.endpoint,
		FlowLogsEnabled: flow,
	}
	if reject {
		cfg.FilterDenyAction = "REJECT"
	}
	if logLimit {
		cfg.LogActionRateLimit = "5/minute"
		if r.chance(50) {
			cfg.LogActionRateLimitBurst = 7
		}
	}
	renderer := rules.NewRenderer(cfg, nft)
	pr := shared
	if pr == nil {
		pr = g.toProto()
	}
	owner, dir := rules.RuleOwnerTypePolicy, rules.RuleDirIngress
	if r.chance(50) {
		dir = rules.RuleDirEgress
	}
	polID := &types.PolicyID{Name: "default.foo", Kind: "GlobalNetworkPolicy"}
	out := renderer.ProtoRuleToIptablesRules(pr, uint8(ver), owner, dir, r.intn(5), polID, "default", untracked)
	// rendering must leave its input alone: the same message is rendered once per IP version
	inputMutated := !googleproto.Equal(pr, g.toProto())

	// set-name -> id maps (names as the renderer writes them)
	ipsetCfg := cfg.IPSetConfigV4
	if ver == 6 {
		ipsetCfg = cfg.IPSetConfigV6
	}
	names := map[string]int{}
	for i := 0; i < nsets; i++ {
		nm := ipsetCfg.NameForMainIPSet(setID(i))
		if nft {
			nm = nftables.LegalizeSetName(nm)
		}
		names[nm] = i
	}

	// render each rule with the real rule renderers and parse the text
	feat := &environment.Features{}
	var texts []string
	var parsed []string
	var nftText []string // nft cases: the same rules in the nftables text syntax (Nft.nrule)
	for k := range out {
		var txt string
		var a string
		var perr error
		if nft {
			txt = nftables.NewNFTRenderer("", uint8(ver)).Render("C", "", out[k], feat).Rule
			var nt string
			a, nt, perr = parseNft(txt, ver, names)
			nftText = append(nftText, nt)
		} else {
			txt = iptables.NewIptablesRenderer("").RenderAppend(&out[k], "C", "", feat)
			a, perr = parseIptables(txt, ver, names)
		}
		if perr != nil {
			return nil, fmt.Errorf("cannot parse rendered rule %q: %v", txt, perr)
		}
		if err2 := checkActionType(out[k].Action, a, nft); err2 != nil {
			return nil, fmt.Errorf("rule %q: %v", txt, err2)
		}
		texts = append(texts, txt)
		parsed = append(parsed, a)
	}

	// real SplitPortList
	var splits [4][][]*proto.PortRange
	for k, ps := range [][]*proto.PortRange{pr.SrcPorts, pr.DstPorts, pr.NotSrcPorts, pr.NotDstPorts} {
		splits[k] = rules.SplitPortList(ps)
	}
	splitCoq := coqList(splits[:], func(sp [][]*proto.PortRange) string {
		return coqList(sp, func(s []*proto.PortRange) string {
			return coqList(s, func(p *proto.PortRange) string { return coqRange(prange{int(p.First), int(p.Last)}) })
		})
	})

	// ---- packets: a base packet aimed at matching, single-field perturbations on every boundary, randoms
	srcC := addrCandidates(ver, g.srcNets, g.notSrcNets)
	dstC := addrCandidates(ver, g.dstNets, g.notDstNets)
	spC := portCandidates(g.srcPorts, g.notSrcPorts)
	dpC := portCandidates(g.dstPorts, g.notDstPorts)
	protoC := []int{6, 17, 1, 58, 132, 47}
	if g.proto >= 0 {
		protoC = append(protoC, g.proto)
	}
	if g.notProto >= 0 {
		protoC = append(protoC, g.notProto)
	}
	base := packet{}
	base.proto = g.proto
	if base.proto < 0 {
		base.proto = pickPort(r, protoC, func(p int) bool { return p != g.notProto })
	}
	base.src = pickAddr(r, srcC, func(x *big.Int) bool {
		return (len(g.srcNets) == 0 || inCIDRs(g.srcNets, ver, x)) && !inCIDRs(g.notSrcNets, ver, x)
	})
	base.dst = pickAddr(r, dstC, func(x *big.Int) bool {
		return (len(g.dstNets) == 0 || inCIDRs(g.dstNets, ver, x)) && !inCIDRs(g.notDstNets, ver, x)
	})
	// with named ports present, sometimes aim the numeric port OUTSIDE the ranges so that only the set can match
	wantSrcNumeric := len(g.srcNamed) == 0 || r.chance(50)
	wantDstNumeric := len(g.dstNamed) == 0 || r.chance(50)
	base.sport = pickPort(r, spC, func(x int) bool {
		return (len(g.srcPorts) == 0 || inPorts(g.srcPorts, x) == wantSrcNumeric) && !inPorts(g.notSrcPorts, x)
	})
	base.dport = pickPort(r, dpC, func(x int) bool {
		return (len(g.dstPorts) == 0 || inPorts(g.dstPorts, x) == wantDstNumeric) && !inPorts(g.notDstPorts, x)
	})
	itC := []int{0, 8, 3, 128, 255, 9}
	icC := []int{0, 1, 255, 2}
	base.ityp, base.icode = itC[r.intn(len(itC))], icC[r.intn(len(icC))]
	if g.icmp != nil {
		base.ityp = g.icmp.typ
		if g.icmp.hasCode {
			base.icode = g.icmp.code
		}
	}
	if g.notIcmp != nil && base.ityp == g.notIcmp.typ && (!g.notIcmp.hasCode || base.icode == g.notIcmp.code) {
		if g.icmp == nil {
			base.ityp = 9
		} else if !g.icmp.hasCode {
			base.icode = 2
		}
	}

	// IP set contents: chosen here (the renderer never sees them).  Positive sets contain the base
	// packet's member, negated sets do not; the rest is random over the candidate members.
	sets := make([][]member, nsets)
	seenM := make([]map[string]bool, nsets)
	addM := func(id int, m member) {
		if seenM[id] == nil {
			seenM[id] = map[string]bool{}
		}
		if !seenM[id][m.key()] {
			seenM[id][m.key()] = true
			sets[id] = append(sets[id], m)
		}
	}
	fill := func(ids []int, addrs []*big.Int, ports []int, ipport bool, baseM member, includeBase int) {
		for _, id := range ids {
			if r.chance(includeBase) {
				addM(id, baseM)
			}
			k := r.intn(4)
			for j := 0; j < k; j++ {
				m := member{addr: addrs[r.intn(len(addrs))], proto: -1}
				if ipport {
					m.proto = protoC[r.intn(len(protoC))]
					if r.chance(60) {
						m.proto = base.proto
					}
					m.port = ports[r.intn(len(ports))]
				}
				if includeBase == 0 && m.key() == baseM.key() {
					continue
				}
				addM(id, m)
			}
		}
	}
	srcPM := member{base.src, base.proto, base.sport}
	dstPM := member{base.dst, base.proto, base.dport}
	fill(g.srcSets, srcC, nil, false, member{base.src, -1, 0}, 100)
	fill(g.dstSets, dstC, nil, false, member{base.dst, -1, 0}, 100)
	fill(g.notSrcSets, srcC, nil, false, member{base.src, -1, 0}, 0)
	fill(g.notDstSets, dstC, nil, false, member{base.dst, -1, 0}, 0)
	fill(g.dstIPPortSets, dstC, dpC, true, dstPM, 100)
	sn, dn := 50, 50
	if !wantSrcNumeric || len(g.srcPorts) == 0 {
		sn = 100
	}
	if !wantDstNumeric || len(g.dstPorts) == 0 {
		dn = 100
	}
	// of several named-port alternatives only the first is guaranteed the base member
	for k, id := range g.srcNamed {
		p := sn
		if k > 0 {
			p = 30
		}
		fill([]int{id}, srcC, spC, true, srcPM, p)
	}
	for k, id := range g.dstNamed {
		p := dn
		if k > 0 {
			p = 30
		}
		fill([]int{id}, dstC, dpC, true, dstPM, p)
	}
	fill(g.notSrcNamed, srcC, spC, true, srcPM, 0)
	fill(g.notDstNamed, dstC, dpC, true, dstPM, 0)

	// entry marks: own verdict bit clear; scratch bits, other verdict bits and endpoint bits arbitrary
	own := map[string]uint32{"": mc.accept, "allow": mc.accept, "deny": mc.drop, "pass": mc.pass, "next-tier": mc.pass, "log": 0}[g.action]
	genMark := func() uint32 {
		var m uint32
		for _, b := range []uint32{mc.s0, mc.s1, mc.accept, mc.pass, mc.drop} {
			if r.chance(40) {
				m |= b
			}
		}
		m |= uint32(r.next()) & mc.endpoint
		if r.chance(10) {
			m = uint32(r.next())
		}
		if r.chance(95) {
			m &^= own
		}
		return m
	}
	var pert []packet
	var pkts []packet
	addP := func(p packet) { p.mark = genMark(); pkts = append(pkts, p) }
	if g.forced != nil {
		sets = g.forced.sets
		pkts = g.forced.pkts
		pert = nil
		goto emit
	}
	addP(base)
	// the same packet with both scratch bits set on entry (stale bits must not leak into the verdict)
	{
		p := base
		p.mark = (mc.s0 | mc.s1 | (uint32(r.next()) & mc.endpoint)) &^ own
		pkts = append(pkts, p)
	}
	for _, x := range srcC {
		p := base
		p.src = x
		pert = append(pert, p)
	}
	for _, x := range dstC {
		p := base
		p.dst = x
		pert = append(pert, p)
	}
	for _, x := range spC {
		p := base
		p.sport = x
		pert = append(pert, p)
	}
	for _, x := range dpC {
		p := base
		p.dport = x
		pert = append(pert, p)
	}
	for _, x := range protoC {
		p := base
		p.proto = x
		pert = append(pert, p)
	}
	if g.icmp != nil || g.notIcmp != nil {
		for _, t := range itC {
			for _, c := range icC {
				p := base
				p.ityp, p.icode = t, c
				pert = append(pert, p)
			}
		}
	}
	// members of the sets, as packets
	for id := range sets {
		for _, m := range sets[id] {
			p := base
			isSrc := contains(g.srcSets, id) || contains(g.notSrcSets, id) || contains(g.srcNamed, id) || contains(g.notSrcNamed, id)
			if isSrc {
				p.src = m.addr
				if m.proto >= 0 {
					p.proto, p.sport = m.proto, m.port
				}
			} else {
				p.dst = m.addr
				if m.proto >= 0 {
					p.proto, p.dport = m.proto, m.port
				}
			}
			pert = append(pert, p)
		}
	}
	const maxPkts = 44
	for len(pert) > 0 && len(pkts) < maxPkts-6 {
		k := r.intn(len(pert))
		addP(pert[k])
		pert[k] = pert[len(pert)-1]
		pert = pert[:len(pert)-1]
	}
	for k := 0; k < 6; k++ {
		addP(packet{proto: protoC[r.intn(len(protoC))], src: srcC[r.intn(len(srcC))], dst: dstC[r.intn(len(dstC))],
			sport: spC[r.intn(len(spC))], dport: dpC[r.intn(len(dpC))], ityp: itC[r.intn(len(itC))], icode: icC[r.intn(len(icC))]})
	}

	// ---- emit
emit:
	fl, dk := "Iptables", "DenyDrop"
	if nft {
		fl = "Nft"
	}
	if reject {
		dk = "DenyReject"
	}
	cfgCoq := fmt.Sprintf("{| c_flavor := %s; c_accept := %d; c_pass := %d; c_drop := %d; c_scratch0 := %d; c_scratch1 := %d; "+
		"c_flowlogs := %v; c_untracked := %v; c_deny := %s; c_log_limit := %v; c_fixed := %v |}",
		fl, mc.accept, mc.pass, mc.drop, mc.s0, mc.s1, flow, untracked, dk, logLimit, treeFixed)
	var setsCoq []string
	for id := range sets {
		setsCoq = append(setsCoq, fmt.Sprintf("(%d, %s)", id, coqList(sets[id], member.coq)))
	}
	vc := "V4"
	if ver == 6 {
		vc = "V6"
	}
	coq := fmt.Sprintf("{| k_cfg := %s; k_ver := %s; k_rule := %s; k_sets := [%s]; k_impl := [%s]; k_impl_splits := %s; k_packets := %s; k_input_mutated := %v |}",
		cfgCoq, vc, g.coq(), strings.Join(setsCoq, "; "), strings.Join(parsed, "; "), splitCoq,
		coqList(pkts, func(p packet) string { return p.coq(ver) }), inputMutated)
	coq = fmt.Sprintf("{| k2 := %s; k2_nft := [%s] |}", coq, strings.Join(nftText, "; "))
	coq = "(" + strings.ReplaceAll(coq, "%N", "") + ")%N"

	nb := posBlocks(g, ver, splits)
	tags := []string{"flavor:" + strings.ToLower(fl), fmt.Sprintf("ipv%d", ver), fmt.Sprintf("posblocks:%d", nb), "action:" + map[string]string{"": "allow(empty)"}[g.action] + g.action,
		fmt.Sprintf("rules:%d", len(out))}
	if len(out) == 0 {
		tags = append(tags, "filtered-out")
	}
	if treeFixed {
		tags = append(tags, "variant:scratch-bit-fixed")
	} else {
		tags = append(tags, "variant:scratch-bit-unfixed")
	}
	if g.notIcmp != nil && g.notIcmp.hasCode {
		tags = append(tags, "not-icmp-type-code")
	}
	if inputMutated {
		tags = append(tags, "input-rule-mutated")
	}
	sort.Strings(tags)
	return &line{Coq: coq, NT: len(out) >= 2 && len(pkts) >= 10, Key: fmt.Sprintf("%s|%d|%s|%s|%v", fl, ver, cfgCoq, g.coq(), shared != nil),
		Sample: map[string]any{"rule": g.toProto().String(), "rule_object_after_rendering": pr.String(), "shared_rule_object": shared != nil, "rendered": texts, "flavor": fl, "ipver": ver, "packets": len(pkts)}, Tags: tags}, nil
}

// allow, source named ports {s0,s1}, destination named ports {s2,s3}, source 10.0.0.0/8 or 11.0.0.0/8:
// three positive match blocks.  Packet 12.0.0.1:1000 -> 10.0.0.2:80/tcp is in s0 and s2 but in neither CIDR.
func corpusThreeBlocks() (*grule, int) {
	g := &grule{proto: -1, notProto: -1, action: "allow"}
	g.srcNamed = []int{0, 1}
	g.dstNamed = []int{2, 3}
	g.srcNets = []cidr{{false, parseIP("10.0.0.0"), 8}, {false, parseIP("11.0.0.0"), 8}}
	bad := packet{proto: 6, src: parseIP("12.0.0.1"), dst: parseIP("10.0.0.2"), sport: 1000, dport: 80}
	good := bad
	good.src = parseIP("10.0.0.1")
	good2 := good
	good2.mark = 0x600 // stale scratch bits on entry
	noport := good
	noport.dport = 81
	g.forced = &forced{
		sets: [][]member{
			{{parseIP("12.0.0.1"), 6, 1000}, {parseIP("10.0.0.1"), 6, 1000}}, {}, {{parseIP("10.0.0.2"), 6, 80}}, {}},
		pkts: []packet{bad, good, good2, noport},
	}
	return g, 4
}

func contains(xs []int, x int) bool {
	for _, y := range xs {
		if y == x {
			return true
		}
	}
	return false
}

// the action struct must agree with what its rendered fragment was parsed as
func checkActionType(a generictables.Action, parsed string, nft bool) error {
	want := ""
	switch a.(type) {
	case nil:
		want = "ANone"
	case iptables.ReturnAction, nftables.ReturnAction:
		want = "AReturn"
	case iptables.DropAction, nftables.DropAction:
		want = "ADrop"
	case iptables.RejectAction, nftables.RejectAction:
		want = "AReject"
	case iptables.AcceptAction, nftables.AcceptAction:
		want = "AAccept"
	case iptables.LogAction, nftables.LogAction:
		want = "ALog"
	case iptables.NflogAction, nftables.NflogAction:
		want = "ANflog"
	case iptables.SetMarkAction, nftables.SetMarkAction, iptables.ClearMarkAction, nftables.ClearMarkAction,
		iptables.SetMaskedMarkAction, nftables.SetMaskedMarkAction:
		want = "(AMark"
	default:
		return fmt.Errorf("unexpected action type %T", a)
	}
	if !strings.Contains(parsed, "ir_action := "+want) {
		return fmt.Errorf("action struct %T rendered as something parsed to %s", a, parsed)
	}
	return nil
}
