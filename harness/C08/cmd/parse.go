//go:build verif

// Parsers from the text the real iptables / nftables rule renderers produce into the abstract rule
// syntax of coq/theories/Common/Ipt.v (printed as Coq terms).  The grammar covers exactly what the
// policy renderer can emit; anything else is an error (never skipped).
//
// Tables that are knowledge about netfilter, not about Felix (trusted):
//
//	protocol names  tcp=6 udp=17 icmp=1 icmpv6/ipv6-icmp=58 sctp=132 udplite=136
//	MARK --set-mark v/m      : mark = (mark & ^m) ^ v
//	nft mark set mark or X   : mark = mark | X  = (mark & ^X) ^ X
//	nft mark set mark & A ^ X: mark = (mark & A) ^ X        (nft precedence: & binds tighter than ^)
//	multiport / th sport need a port-bearing -p / l4proto in the same rule; -m icmp needs -p icmp
package main

import (
	"fmt"
	"math/big"
	"net"
	"strconv"
	"strings"
)

func parseIP(s string) *big.Int {
	ip := net.ParseIP(s)
	if ip == nil {
		panic("bad ip " + s)
	}
	if !strings.Contains(s, ":") {
		return new(big.Int).SetBytes(ip.To4())
	}
	return new(big.Int).SetBytes(ip.To16())
}

func canonV6(b []byte) string { return net.IP(b).String() }

var protoNumbers = map[string]int{"tcp": 6, "udp": 17, "icmp": 1, "icmpv6": 58, "ipv6-icmp": 58, "sctp": 132, "udplite": 136}

func parseProto(s string) (int, error) {
	if n, ok := protoNumbers[s]; ok {
		return n, nil
	}
	n, err := strconv.Atoi(s)
	if err != nil || n < 0 || n > 255 {
		return 0, fmt.Errorf("unknown protocol %q", s)
	}
	return n, nil
}

func parseCIDRText(s string, ver int) (string, error) {
	if !strings.Contains(s, "/") {
		if strings.Contains(s, ":") {
			s += "/128"
		} else {
			s += "/32"
		}
	}
	ip, ipn, err := net.ParseCIDR(s)
	if err != nil {
		return "", err
	}
	v6 := strings.Contains(s, ":")
	if v6 != (ver == 6) {
		return "", fmt.Errorf("CIDR %s in an IPv%d rule", s, ver)
	}
	ones, _ := ipn.Mask.Size()
	var a *big.Int
	v := "V4"
	if v6 {
		a = new(big.Int).SetBytes(ip.To16())
		v = "V6"
	} else {
		a = new(big.Int).SetBytes(ip.To4())
	}
	return fmt.Sprintf("{| cidr_ver := %s; cidr_addr := %s; cidr_len := %d |}", v, a.String(), ones), nil
}

func parseUint32(s string) (uint32, error) {
	n, err := strconv.ParseUint(s, 0, 32)
	return uint32(n), err
}

// tokens separated by spaces; a double-quoted string is one token (quotes kept)
func tokenize(s string) ([]string, error) {
	var out []string
	i := 0
	for i < len(s) {
		if s[i] == ' ' {
			i++
			continue
		}
		if s[i] == '"' {
			j := strings.IndexByte(s[i+1:], '"')
			if j < 0 {
				return nil, fmt.Errorf("unterminated quote")
			}
			out = append(out, s[i:i+j+2])
			i += j + 2
			continue
		}
		j := strings.IndexByte(s[i:], ' ')
		if j < 0 {
			j = len(s) - i
		}
		out = append(out, s[i:i+j])
		i += j
	}
	return out, nil
}

type toks struct {
	t []string
	i int
}

func (t *toks) peek() string {
	if t.i < len(t.t) {
		return t.t[t.i]
	}
	return ""
}
func (t *toks) next() string { s := t.peek(); t.i++; return s }
func (t *toks) done() bool   { return t.i >= len(t.t) }
func (t *toks) expect(s string) error {
	if g := t.next(); g != s {
		return fmt.Errorf("expected %q, got %q", s, g)
	}
	return nil
}

func b(x bool) string {
	if x {
		return "true"
	}
	return "false"
}

type ruleAcc struct {
	nclauses []string // nftables text level (Nft.nclause), nft rules only
	nstmt    string
	matches  []string
	action   string
	l4proto  int // positive protocol match seen in this rule, -1 none
	needPort bool
	needICMP int // 0 no, 1 icmp, 58 icmpv6
}

func (a *ruleAcc) finish(ver int) (string, error) {
	if a.needPort && !(a.l4proto == 6 || a.l4proto == 17 || a.l4proto == 132 || a.l4proto == 136 || a.l4proto == 33) {
		return "", fmt.Errorf("port match without a port-bearing protocol match in the same rule")
	}
	if a.needICMP != 0 && a.l4proto != a.needICMP {
		return "", fmt.Errorf("icmp match without the matching protocol match in the same rule")
	}
	if a.action == "" {
		a.action = "ANone"
	}
	return fmt.Sprintf("{| ir_match := [%s]; ir_action := %s |}", strings.Join(a.matches, "; "), a.action), nil
}

func markAction(and, xor uint32) string { return fmt.Sprintf("(AMark %d %d)", and, xor) }

func parsePortList(s string, rangeSep string) (string, error) {
	var out []string
	for _, f := range strings.Split(s, ",") {
		f = strings.TrimSpace(f)
		if f == "" {
			return "", fmt.Errorf("empty port in %q", s)
		}
		lo, hi := f, f
		if k := strings.Index(f, rangeSep); k >= 0 {
			lo, hi = f[:k], f[k+1:]
		}
		l, err1 := strconv.Atoi(lo)
		h, err2 := strconv.Atoi(hi)
		if err1 != nil || err2 != nil || l < 0 || h > 65535 {
			return "", fmt.Errorf("bad port %q", f)
		}
		out = append(out, fmt.Sprintf("(%d, %d)", l, h))
	}
	return "[" + strings.Join(out, "; ") + "]", nil
}

// ------------------------------------------------------------------ iptables

func parseIptables(line string, ver int, sets map[string]int) (string, error) {
	tk, err := tokenize(line)
	if err != nil {
		return "", err
	}
	t := &toks{t: tk}
	if err := t.expect("-A"); err != nil {
		return "", err
	}
	t.next() // chain name
	a := &ruleAcc{l4proto: -1}
	neg := false
	takeNeg := func() bool { n := neg; neg = false; return n }
	for !t.done() {
		switch w := t.next(); w {
		case "!":
			if neg {
				return "", fmt.Errorf("double negation")
			}
			neg = true
		case "-p":
			n, err := parseProto(t.next())
			if err != nil {
				return "", err
			}
			ng := takeNeg()
			if !ng {
				a.l4proto = n
			}
			a.matches = append(a.matches, fmt.Sprintf("MProto %s %d", b(ng), n))
		case "--source", "--destination":
			c, err := parseCIDRText(t.next(), ver)
			if err != nil {
				return "", err
			}
			k := "MSrcNet"
			if w == "--destination" {
				k = "MDstNet"
			}
			a.matches = append(a.matches, fmt.Sprintf("%s %s %s", k, b(takeNeg()), c))
		case "-m":
			if neg {
				return "", fmt.Errorf("negation before -m")
			}
			switch m := t.next(); m {
			case "comment":
				if err := t.expect("--comment"); err != nil {
					return "", err
				}
				t.next()
			case "set":
				ng := false
				if t.peek() == "!" {
					t.next()
					ng = true
				}
				if err := t.expect("--match-set"); err != nil {
					return "", err
				}
				name := t.next()
				id, ok := sets[name]
				if !ok {
					return "", fmt.Errorf("unknown ip set %q", name)
				}
				var k string
				switch d := t.next(); d {
				case "src":
					k = "MSrcIpSet"
				case "dst":
					k = "MDstIpSet"
				case "src,src":
					k = "MSrcIpPortSet"
				case "dst,dst":
					k = "MDstIpPortSet"
				default:
					return "", fmt.Errorf("unknown set direction %q", d)
				}
				a.matches = append(a.matches, fmt.Sprintf("%s %s %d", k, b(ng), id))
			case "multiport":
				ng := false
				if t.peek() == "!" {
					t.next()
					ng = true
				}
				var k string
				switch d := t.next(); d {
				case "--source-ports":
					k = "MSrcPorts"
				case "--destination-ports":
					k = "MDstPorts"
				default:
					return "", fmt.Errorf("unknown multiport option %q", d)
				}
				txt := t.next()
				pl, err := parsePortList(txt, ":")
				if err != nil {
					return "", err
				}
				a.needPort = true
				a.matches = append(a.matches, fmt.Sprintf("%s %s %s", k, b(ng), pl))
			case "icmp", "icmp6":
				ng := false
				if t.peek() == "!" {
					t.next()
					ng = true
				}
				opt := "--icmp-type"
				a.needICMP = 1
				if m == "icmp6" {
					opt = "--icmpv6-type"
					a.needICMP = 58
				}
				if (m == "icmp6") != (ver == 6) {
					return "", fmt.Errorf("-m %s in an IPv%d rule", m, ver)
				}
				if err := t.expect(opt); err != nil {
					return "", err
				}
				tc := strings.Split(t.next(), "/")
				ty, err := strconv.Atoi(tc[0])
				if err != nil || ty < 0 || ty > 255 || len(tc) > 2 {
					return "", fmt.Errorf("bad icmp type %v", tc)
				}
				code := "None"
				if len(tc) == 2 {
					c, err := strconv.Atoi(tc[1])
					if err != nil || c < 0 || c > 255 {
						return "", fmt.Errorf("bad icmp code %v", tc)
					}
					code = fmt.Sprintf("(Some %d)", c)
				}
				a.matches = append(a.matches, fmt.Sprintf("MIcmp %s %d %s", b(ng), ty, code))
			case "mark":
				ng := false
				if t.peek() == "!" {
					t.next()
					ng = true
				}
				if err := t.expect("--mark"); err != nil {
					return "", err
				}
				vm := strings.Split(t.next(), "/")
				if len(vm) != 2 {
					return "", fmt.Errorf("bad --mark")
				}
				v, err1 := parseUint32(vm[0])
				mk, err2 := parseUint32(vm[1])
				if err1 != nil || err2 != nil {
					return "", fmt.Errorf("bad --mark %v", vm)
				}
				a.matches = append(a.matches, fmt.Sprintf("MMark %s %d %d", b(ng), v, mk))
			case "limit":
				if err := t.expect("--limit"); err != nil {
					return "", err
				}
				t.next()
				if t.peek() == "--limit-burst" {
					t.next()
					t.next()
				}
				a.matches = append(a.matches, "MOther 0")
			default:
				return "", fmt.Errorf("unknown match module %q", m)
			}
		case "--jump":
			if neg {
				return "", fmt.Errorf("negation before --jump")
			}
			switch tg := t.next(); tg {
			case "RETURN":
				a.action = "AReturn"
			case "DROP":
				a.action = "ADrop"
			case "ACCEPT":
				a.action = "AAccept"
			case "REJECT":
				a.action = "AReject"
				if t.peek() == "--reject-with" {
					t.next()
					t.next()
				}
			case "MARK":
				if err := t.expect("--set-mark"); err != nil {
					return "", err
				}
				vm := strings.Split(t.next(), "/")
				if len(vm) != 2 {
					return "", fmt.Errorf("bad --set-mark")
				}
				v, err1 := parseUint32(vm[0])
				mk, err2 := parseUint32(vm[1])
				if err1 != nil || err2 != nil {
					return "", fmt.Errorf("bad --set-mark %v", vm)
				}
				a.action = markAction(^mk, v)
			case "LOG":
				if err := t.expect("--log-prefix"); err != nil {
					return "", err
				}
				t.next()
				if err := t.expect("--log-level"); err != nil {
					return "", err
				}
				t.next()
				a.action = "ALog"
			case "NFLOG":
				if err := t.expect("--nflog-group"); err != nil {
					return "", err
				}
				t.next()
				if err := t.expect("--nflog-prefix"); err != nil {
					return "", err
				}
				t.next()
				if t.peek() == "--nflog-size" || t.peek() == "--nflog-range" {
					t.next()
					t.next()
				}
				a.action = "ANflog"
			default:
				return "", fmt.Errorf("unknown target %q", tg)
			}
			if !t.done() {
				return "", fmt.Errorf("trailing tokens after target: %q", t.peek())
			}
		default:
			return "", fmt.Errorf("unknown token %q", w)
		}
	}
	if neg {
		return "", fmt.Errorf("dangling negation")
	}
	return a.finish(ver)
}

// ------------------------------------------------------------------ nftables

// parseNft returns the rule both in the abstract Ipt syntax and, clause by clause, in the nftables text syntax
// of coq/theories/C08/Nft.v.  The second form is a pure tokenisation: implicit protocol / family dependencies
// of the clauses are NOT interpreted here (Nft.nrule_wf and Nft.nft_run do that inside Coq).
func parseNft(line string, ver int, sets map[string]int) (string, string, error) {
	ipt, nft, err := parseNft0(line, ver, sets)
	return ipt, nft, err
}

func (a *ruleAcc) nftTerm() string {
	st := a.nstmt
	if st == "" {
		st = "SNone"
	}
	return fmt.Sprintf("{| n_clauses := [%s]; n_stmt := %s |}", strings.Join(a.nclauses, "; "), st)
}

func famOf(w string) string {
	if w == "ip6" {
		return "V6"
	}
	return "V4"
}

func parseNft0(line string, ver int, sets map[string]int) (string, string, error) {
	a := &ruleAcc{l4proto: -1}
	if line == "continue" {
		s, err := a.finish(ver)
		return s, a.nftTerm(), err
	}
	tk, err := tokenize(line)
	if err != nil {
		return "", "", err
	}
	t := &toks{t: tk}
	fam := "ip"
	if ver == 6 {
		fam = "ip6"
	}
	negOp := func() bool {
		if t.peek() == "!=" {
			t.next()
			return true
		}
		return false
	}
	setRef := func() (int, error) {
		s := t.next()
		if !strings.HasPrefix(s, "@") {
			return 0, fmt.Errorf("expected set reference, got %q", s)
		}
		id, ok := sets[s[1:]]
		if !ok {
			return 0, fmt.Errorf("unknown set %q", s)
		}
		return id, nil
	}
	for !t.done() {
		switch w := t.next(); w {
		case "meta":
			switch f := t.next(); f {
			case "l4proto":
				ng := negOp()
				n, err := parseProto(t.next())
				if err != nil {
					return "", "", err
				}
				if !ng {
					a.l4proto = n
				}
				a.matches = append(a.matches, fmt.Sprintf("MProto %s %d", b(ng), n))
				a.nclauses = append(a.nclauses, fmt.Sprintf("NL4Proto %s %d", b(ng), n))
			case "mark":
				if err := t.expect("&"); err != nil {
					return "", "", err
				}
				mk, err := parseUint32(t.next())
				if err != nil {
					return "", "", err
				}
				op := t.next()
				if op != "==" && op != "!=" {
					return "", "", fmt.Errorf("bad mark operator %q", op)
				}
				v, err := parseUint32(t.next())
				if err != nil {
					return "", "", err
				}
				a.matches = append(a.matches, fmt.Sprintf("MMark %s %d %d", b(op == "!="), v, mk))
				a.nclauses = append(a.nclauses, fmt.Sprintf("NMark %d %s %d", mk, b(op == "!="), v))
			default:
				return "", "", fmt.Errorf("unknown meta key %q", f)
			}
		case "ip", "ip6":
			_ = fam // a family keyword that does not fit the table is judged in Coq (Nft.nrule_wf)
			dir := t.next()
			if dir != "saddr" && dir != "daddr" {
				return "", "", fmt.Errorf("unknown %s field %q", w, dir)
			}
			src := dir == "saddr"
			if t.peek() == "." {
				// <ip> saddr . meta l4proto . th sport [!=] @set
				want := []string{".", "meta", "l4proto", ".", "th", map[bool]string{true: "sport", false: "dport"}[src]}
				for _, x := range want {
					if err := t.expect(x); err != nil {
						return "", "", err
					}
				}
				ng := negOp()
				id, err := setRef()
				if err != nil {
					return "", "", err
				}
				k := map[bool]string{true: "MSrcIpPortSet", false: "MDstIpPortSet"}[src]
				a.matches = append(a.matches, fmt.Sprintf("%s %s %d", k, b(ng), id))
				a.nclauses = append(a.nclauses, fmt.Sprintf("NAddrPortSet %s %s %s %d", famOf(w), b(src), b(ng), id))
				break
			}
			ng := negOp()
			if strings.HasPrefix(t.peek(), "@") {
				id, err := setRef()
				if err != nil {
					return "", "", err
				}
				k := map[bool]string{true: "MSrcIpSet", false: "MDstIpSet"}[src]
				a.matches = append(a.matches, fmt.Sprintf("%s %s %d", k, b(ng), id))
				a.nclauses = append(a.nclauses, fmt.Sprintf("NAddrSet %s %s %s %d", famOf(w), b(src), b(ng), id))
			} else {
				c, err := parseCIDRText(t.next(), ver)
				if err != nil {
					return "", "", err
				}
				k := map[bool]string{true: "MSrcNet", false: "MDstNet"}[src]
				a.matches = append(a.matches, fmt.Sprintf("%s %s %s", k, b(ng), c))
				a.nclauses = append(a.nclauses, fmt.Sprintf("NAddr %s %s %s %s", famOf(w), b(src), b(ng), c))
			}
		case "tcp", "udp", "sctp":
			dir := t.next()
			if dir != "sport" && dir != "dport" {
				return "", "", fmt.Errorf("unknown %s field %q", w, dir)
			}
			ng := negOp()
			if err := t.expect("{"); err != nil {
				return "", "", err
			}
			var parts []string
			for t.peek() != "}" {
				if t.done() {
					return "", "", fmt.Errorf("unterminated port set")
				}
				parts = append(parts, t.next())
			}
			t.next()
			pl, err := parsePortList(strings.Join(parts, ""), "-")
			if err != nil {
				return "", "", err
			}
			a.needPort = true
			k := map[bool]string{true: "MSrcPorts", false: "MDstPorts"}[dir == "sport"]
			a.matches = append(a.matches, fmt.Sprintf("%s %s %s", k, b(ng), pl))
			a.nclauses = append(a.nclauses, fmt.Sprintf("NPorts %d %s %s %s", protoNumbers[w], b(dir == "sport"), b(ng), pl))
		case "icmp", "icmpv6":
			a.needICMP = 1
			if w == "icmpv6" {
				a.needICMP = 58
			}
			if err := t.expect("type"); err != nil {
				return "", "", err
			}
			ng := negOp()
			ty, err := strconv.Atoi(t.next())
			if err != nil || ty < 0 || ty > 255 {
				return "", "", fmt.Errorf("bad icmp type")
			}
			a.matches = append(a.matches, fmt.Sprintf("MIcmpType %s %d", b(ng), ty))
			a.nclauses = append(a.nclauses, fmt.Sprintf("NIcmpType %s %s %d", b(w == "icmpv6"), b(ng), ty))
			if t.peek() == "code" {
				t.next()
				ng2 := negOp()
				c, err := strconv.Atoi(t.next())
				if err != nil || c < 0 || c > 255 {
					return "", "", fmt.Errorf("bad icmp code")
				}
				a.matches = append(a.matches, fmt.Sprintf("MIcmpCode %s %d", b(ng2), c))
				a.nclauses = append(a.nclauses, fmt.Sprintf("NIcmpCode %s %s %d", b(w == "icmpv6"), b(ng2), c))
			}
		case "limit":
			if err := t.expect("rate"); err != nil {
				return "", "", err
			}
			t.next()
			if t.peek() == "burst" {
				t.next()
				t.next()
				if err := t.expect("packets"); err != nil {
					return "", "", err
				}
			}
			a.matches = append(a.matches, "MOther 0")
			a.nclauses = append(a.nclauses, "NLimit")
		case "counter":
			// the statement part
			switch s := t.next(); s {
			case "return":
				a.action, a.nstmt = "AReturn", "SReturn"
			case "drop":
				a.action, a.nstmt = "ADrop", "SDrop"
			case "accept":
				a.action, a.nstmt = "AAccept", "SAccept"
			case "reject":
				a.action, a.nstmt = "AReject", "SReject"
				if t.peek() == "with" {
					t.next()
					for !t.done() {
						t.next()
					}
				}
			case "meta":
				for _, x := range []string{"mark", "set", "mark"} {
					if err := t.expect(x); err != nil {
						return "", "", err
					}
				}
				switch op := t.next(); op {
				case "or":
					x, err := parseUint32(t.next())
					if err != nil {
						return "", "", err
					}
					a.action = markAction(^x, x)
					a.nstmt = fmt.Sprintf("(SMarkOr %d)", x)
				case "&":
					and, err := parseUint32(t.next())
					if err != nil {
						return "", "", err
					}
					xor := uint32(0)
					a.nstmt = fmt.Sprintf("(SMarkAnd %d)", and)
					if t.peek() == "^" {
						t.next()
						xor, err = parseUint32(t.next())
						if err != nil {
							return "", "", err
						}
						a.nstmt = fmt.Sprintf("(SMarkAndXor %d %d)", and, xor)
					}
					a.action = markAction(and, xor)
				default:
					return "", "", fmt.Errorf("unknown mark expression %q", op)
				}
			case "log":
				if err := t.expect("prefix"); err != nil {
					return "", "", err
				}
				t.next()
				switch t.peek() {
				case "level":
					t.next()
					t.next()
					a.action, a.nstmt = "ALog", "SLog"
				case "snaplen":
					t.next()
					t.next()
					if err := t.expect("group"); err != nil {
						return "", "", err
					}
					t.next()
					a.action, a.nstmt = "ANflog", "SNflog"
				case "group":
					t.next()
					t.next()
					a.action, a.nstmt = "ANflog", "SNflog"
				default:
					return "", "", fmt.Errorf("unknown log statement")
				}
			case "":
				return "", "", fmt.Errorf("counter without statement")
			default:
				return "", "", fmt.Errorf("unknown statement %q", s)
			}
			if !t.done() {
				return "", "", fmt.Errorf("trailing tokens after statement: %q", t.peek())
			}
		default:
			return "", "", fmt.Errorf("unknown token %q", w)
		}
	}
	// nft adds protocol dependencies itself: whether they are satisfied is judged in Coq (Nft.nrule_wf)
	a.needPort, a.needICMP = false, 0
	s, err := a.finish(ver)
	return s, a.nftTerm(), err
}
