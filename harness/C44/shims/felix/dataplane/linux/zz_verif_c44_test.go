//go:build verif

// C44 correspondence driver (in-package, because the mock tables / mock route table of the endpoint
// manager live in _test.go files of this package).  It builds the REAL endpointManager the way
// endpoint_mgr_test.go does, feeds it generated histories of WorkloadEndpointUpdate /
// WorkloadEndpointRemove / CompleteDeferredWork and writes one JSON line per case to $VERIF_C44_OUT.
package intdataplane

import (
	"encoding/json"
	"fmt"
	"os"
	"sort"
	"strconv"
	"strings"
	"testing"
	"time"

	"github.com/onsi/gomega"
	v3 "github.com/projectcalico/api/pkg/apis/projectcalico/v3"
	log "github.com/sirupsen/logrus"

	"github.com/projectcalico/calico/felix/dataplane/common"
	"github.com/projectcalico/calico/felix/environment"
	"github.com/projectcalico/calico/felix/ipsets"
	"github.com/projectcalico/calico/felix/iptables"
	"github.com/projectcalico/calico/felix/linkaddrs"
	"github.com/projectcalico/calico/felix/netlinkshim/mocknetlink"
	"github.com/projectcalico/calico/felix/proto"
	"github.com/projectcalico/calico/felix/routetable"
	"github.com/projectcalico/calico/felix/rules"
	"github.com/projectcalico/calico/felix/types"
)

type c44rng struct{ s uint64 }

func (r *c44rng) next() uint64 {
	r.s += 0x9e3779b97f4a7c15
	z := r.s
	z = (z ^ (z >> 30)) * 0xbf58476d1ce4e5b9
	z = (z ^ (z >> 27)) * 0x94d049bb133111eb
	return z ^ (z >> 31)
}
func (r *c44rng) intn(n int) int { return int(r.next() % uint64(n)) }

type c44line struct {
	Coq    string         `json:"coq"`
	NT     bool           `json:"nt"`
	Key    string         `json:"key"`
	Sample map[string]any `json:"sample,omitempty"`
	Tags   []string       `json:"tags"`
	Ops    [][]c44opJ     `json:"ops"` // the messages, batch by batch, for ./check C44 --replay
}

// structured form of one message (replay input/output)
type c44opJ struct {
	Rem   bool   `json:"rem"`
	Id    [3]int `json:"id"`
	Iface int    `json:"iface"`
	Up    bool   `json:"up"`
	Tag   int    `json:"tag"`
	Ips   []int  `json:"ips"`
}

func (o c44op) toJ() c44opJ {
	return c44opJ{Rem: o.rem, Id: [3]int{o.id.o, o.id.w, o.id.e}, Iface: o.ep.iface, Up: o.ep.up, Tag: o.ep.tag, Ips: append([]int{}, o.ep.ips...)}
}
func (j c44opJ) toOp() c44op {
	return c44op{rem: j.Rem, id: c44id{j.Id[0], j.Id[1], j.Id[2]}, ep: c44ep{iface: j.Iface, up: j.Up, tag: j.Tag, ips: j.Ips}}
}

// ---- identities: the three components are strings ordered like the numbers used in the Coq term.
var c44orch = []string{"cni", "k8s", "openstack"} // 0 < 1 < 2
var c44wl = []string{"a0", "podA", "podB"}        // 0 < 1 < 2
var c44epn = []string{"ep0", "ep1", "ep2"}        // 0 < 1 < 2

type c44id struct{ o, w, e int }

func (i c44id) proto() *proto.WorkloadEndpointID {
	return &proto.WorkloadEndpointID{OrchestratorId: c44orch[i.o], WorkloadId: c44wl[i.w], EndpointId: c44epn[i.e]}
}
func (i c44id) coq() string { return fmt.Sprintf("(%d,%d,%d)", i.o, i.w, i.e) }
func (i c44id) txt() string { return c44orch[i.o] + "/" + c44wl[i.w] + "/" + c44epn[i.e] }
func c44idOf(t types.WorkloadEndpointID) string {
	f := func(tab []string, s string) int {
		for k, v := range tab {
			if v == s {
				return k
			}
		}
		return 99
	}
	return fmt.Sprintf("(%d,%d,%d)", f(c44orch, t.OrchestratorId), f(c44wl, t.WorkloadId), f(c44epn, t.EndpointId))
}
func c44less(a, b c44id) bool {
	if a.o != b.o {
		return a.o < b.o
	}
	if a.w != b.w {
		return a.w < b.w
	}
	return a.e < b.e
}

func c44iface(n int) string { return fmt.Sprintf("cali%d", n) }
func c44ifaceIdx(s string) int {
	n, err := strconv.Atoi(strings.TrimPrefix(s, "cali"))
	if err != nil {
		return 999
	}
	return n
}

type c44ep struct {
	iface int
	up    bool
	tag   int
	ips   []int
}

type c44op struct {
	rem bool
	id  c44id
	ep  c44ep
}

func (o c44op) coq() string {
	if o.rem {
		return "Rem " + o.id.coq()
	}
	ips := make([]string, len(o.ep.ips))
	for k, v := range o.ep.ips {
		ips[k] = strconv.Itoa(v)
	}
	return fmt.Sprintf("Upd %s (mkEp %d %v %d [%s])", o.id.coq(), o.ep.iface, o.ep.up, o.ep.tag, strings.Join(ips, ";"))
}
func (o c44op) txt() string {
	if o.rem {
		return "remove " + o.id.txt()
	}
	st := "down"
	if o.ep.up {
		st = "active"
	}
	return fmt.Sprintf("update %s iface=%s %s prof=t%d ips=%v", o.id.txt(), c44iface(o.ep.iface), st, o.ep.tag, o.ep.ips)
}

func c44ip(n int) string { return fmt.Sprintf("10.0.%d.%d/32", n/256, n%256) }

type c44mgr struct {
	m      *endpointManager
	filter *mockTable
	routes *mockRouteTable
}

func c44new() *c44mgr {
	renderer := rules.NewRenderer(rules.Config{
		IPSetConfigV4:         ipsets.NewIPVersionConfig(ipsets.IPFamilyV4, "cali", nil, nil),
		IPSetConfigV6:         ipsets.NewIPVersionConfig(ipsets.IPFamilyV6, "cali", nil, nil),
		MarkAccept:            0x8,
		MarkPass:              0x10,
		MarkScratch0:          0x20,
		MarkScratch1:          0x40,
		MarkDrop:              0x80,
		MarkEndpoint:          0xff00,
		MarkNonCaliEndpoint:   0x0100,
		WorkloadIfacePrefixes: []string{"cali", "tap"},
	}, false)
	mockProcSys := &testProcSys{state: map[string]string{}, pathsThatExist: map[string]bool{}}
	nlDataplane := mocknetlink.New()
	linkAddrsMgr := linkaddrs.New(
		4,
		[]string{"cali"},
		&environment.FakeFeatureDetector{Features: environment.Features{}},
		10*time.Second,
		linkaddrs.WithNetlinkHandleShim(nlDataplane.NewMockNetlink),
	)
	filter := newMockTable("filter")
	rt := &mockRouteTable{index: 0, currentRoutes: map[string][]routetable.Target{}}
	m := newEndpointManagerWithShims(
		&endpointManagerConfig{
			wlInterfacePrefixes: []string{"cali"},
			bpfAttachType:       v3.BPFAttachOptionTCX,
			floatingIPsEnabled:  true,
		},
		newMockTable("raw"),
		newMockTable("mangle"),
		filter,
		renderer,
		rt,
		4,
		rules.NewEndpointMarkMapper(0xff00, 0x0100),
		(&statusReportRecorder{currentState: map[any]string{}, extraInfo: map[any]any{}}).endpointStatusUpdateCallback,
		mockProcSys.write,
		mockProcSys.stat,
		"1",
		nil, // filterMaps
		nil, // flowtableHandler
		&testHEPListener{},
		common.NewCallbacks(),
		linkAddrsMgr,
		nil, // arpTable
		nil, // arpMaps
	)
	return &c44mgr{m: m, filter: filter, routes: rt}
}

func (g *c44mgr) send(o c44op) {
	if o.rem {
		g.m.OnUpdate(&proto.WorkloadEndpointRemove{Id: o.id.proto()})
		return
	}
	st := "inactive"
	if o.ep.up {
		st = "active"
	}
	var nets []string
	for _, n := range o.ep.ips {
		nets = append(nets, c44ip(n))
	}
	g.m.OnUpdate(&proto.WorkloadEndpointUpdate{
		Id: o.id.proto(),
		Endpoint: &proto.WorkloadEndpoint{
			State:      st,
			Mac:        "01:02:03:04:05:06",
			Name:       c44iface(o.ep.iface),
			ProfileIds: []string{fmt.Sprintf("t%d", o.ep.tag)},
			Tiers:      []*proto.TierInfo{},
			Ipv4Nets:   nets,
		},
	})
}

func (g *c44mgr) apply() (panicked bool) {
	defer func() {
		if r := recover(); r != nil {
			panicked = true
		}
	}()
	if err := g.m.ResolveUpdateBatch(); err != nil {
		return true
	}
	if err := g.m.CompleteDeferredWork(); err != nil {
		return true
	}
	return false
}

type c44obs struct {
	ids            []string // "(iface, id)"
	tw, fw         []string // "(iface, (up, tag))"
	routes         []string // "(iface, [ips])"
	dfrom, dto     []string // iface
	panicked       bool
	txt            map[string]any
	nActive, nShad int
}

func (g *c44mgr) observe(panicked bool) c44obs {
	var o c44obs
	o.panicked = panicked
	// active endpoint per interface
	type kv struct {
		k int
		v string
	}
	var ids []kv
	for name, id := range g.m.activeWlIfaceNameToID {
		ids = append(ids, kv{c44ifaceIdx(name), c44idOf(id)})
	}
	sort.Slice(ids, func(a, b int) bool { return ids[a].k < ids[b].k })
	for _, e := range ids {
		o.ids = append(o.ids, fmt.Sprintf("(%d,%s)", e.k, e.v))
	}
	o.nActive = len(g.m.activeWlEndpoints)
	o.nShad = len(g.m.shadowedWlEndpoints)
	// per-endpoint chains and dispatch entries in the filter table
	var tw, fw []kv
	var dfrom, dto []int
	for name, ch := range g.filter.currentChains {
		switch {
		case strings.HasPrefix(name, "cali-tw-") || strings.HasPrefix(name, "cali-fw-"):
			up := true
			tag := 0
			for _, r := range ch.Rules {
				for _, c := range r.Comment {
					if c == "Endpoint admin disabled" {
						up = false
					}
				}
				if j, ok := r.Action.(iptables.JumpAction); ok {
					for _, p := range []string{"cali-pri-t", "cali-pro-t"} {
						if strings.HasPrefix(j.Target, p) {
							if n, err := strconv.Atoi(strings.TrimPrefix(j.Target, p)); err == nil {
								tag = n
							}
						}
					}
				}
			}
			e := kv{c44ifaceIdx(name[len("cali-tw-"):]), fmt.Sprintf("(%v,%d)", up, tag)}
			if strings.HasPrefix(name, "cali-tw-") {
				tw = append(tw, e)
			} else {
				fw = append(fw, e)
			}
		case strings.HasPrefix(name, "cali-from-wl-dispatch") || strings.HasPrefix(name, "cali-to-wl-dispatch"):
			for _, r := range ch.Rules {
				tgt := ""
				if j, ok := r.Action.(iptables.GotoAction); ok {
					tgt = j.Target
				} else if j, ok := r.Action.(iptables.JumpAction); ok {
					tgt = j.Target
				}
				if strings.HasPrefix(name, "cali-from-wl-dispatch") && strings.HasPrefix(tgt, "cali-fw-") {
					dfrom = append(dfrom, c44ifaceIdx(tgt[len("cali-fw-"):]))
				}
				if strings.HasPrefix(name, "cali-to-wl-dispatch") && strings.HasPrefix(tgt, "cali-tw-") {
					dto = append(dto, c44ifaceIdx(tgt[len("cali-tw-"):]))
				}
			}
		}
	}
	sort.Slice(tw, func(a, b int) bool { return tw[a].k < tw[b].k })
	sort.Slice(fw, func(a, b int) bool { return fw[a].k < fw[b].k })
	for _, e := range tw {
		o.tw = append(o.tw, fmt.Sprintf("(%d,%s)", e.k, e.v))
	}
	for _, e := range fw {
		o.fw = append(o.fw, fmt.Sprintf("(%d,%s)", e.k, e.v))
	}
	sort.Ints(dfrom)
	sort.Ints(dto)
	for _, d := range dfrom {
		o.dfrom = append(o.dfrom, strconv.Itoa(d))
	}
	for _, d := range dto {
		o.dto = append(o.dto, strconv.Itoa(d))
	}
	// routes
	var rts []kv
	for name, targets := range g.routes.currentRoutes {
		if len(targets) == 0 {
			continue
		}
		var ips []int
		for _, t := range targets {
			a := t.CIDR.Addr().AsNetIP().To4()
			ips = append(ips, int(a[2])*256+int(a[3]))
		}
		sort.Ints(ips)
		s := make([]string, len(ips))
		for k, v := range ips {
			s[k] = strconv.Itoa(v)
		}
		rts = append(rts, kv{c44ifaceIdx(name), "[" + strings.Join(s, ";") + "]"})
	}
	sort.Slice(rts, func(a, b int) bool { return rts[a].k < rts[b].k })
	for _, e := range rts {
		o.routes = append(o.routes, fmt.Sprintf("(%d,%s)", e.k, e.v))
	}
	o.txt = map[string]any{"active": o.ids, "to-chains": o.tw, "from-chains": o.fw, "routes": o.routes,
		"dispatch-from": o.dfrom, "dispatch-to": o.dto, "panic": panicked}
	return o
}

func (o c44obs) coq() string {
	j := func(l []string) string { return "[" + strings.Join(l, ";") + "]" }
	return fmt.Sprintf("(mkObs %s %s %s %s %s %s %v)", j(o.ids), j(o.tw), j(o.fw), j(o.routes), j(o.dfrom), j(o.dto), o.panicked)
}

// ---- generation

type c44gen struct {
	r      *c44rng
	ids    []c44id
	nif    int
	tag    int
	live   map[c44id]c44ep // the fold of the history so far
	tags   map[string]bool
	shared bool
}

func (g *c44gen) newEp(iface int) c44ep {
	g.tag++
	e := c44ep{iface: iface, up: g.r.intn(4) != 0, tag: g.tag}
	n := g.r.intn(3)
	for k := 0; k < n; k++ {
		e.ips = append(e.ips, g.tag*4+k)
	}
	return e
}

func (g *c44gen) liveIDs() []c44id {
	var l []c44id
	for _, i := range g.ids {
		if _, ok := g.live[i]; ok {
			l = append(l, i)
		}
	}
	return l
}

func (g *c44gen) pickIface() int {
	// biased towards the low names so that endpoints collide
	x := g.r.intn(10)
	if x < 5 || g.nif == 1 {
		return 0
	}
	if x < 8 || g.nif == 2 {
		return 1
	}
	return 2
}

func (g *c44gen) note(o c44op) {
	if o.rem {
		delete(g.live, o.id)
		return
	}
	if old, ok := g.live[o.id]; ok && old.iface != o.ep.iface {
		g.tags["rename"] = true
	}
	g.live[o.id] = o.ep
	cnt := map[int]int{}
	for _, e := range g.live {
		cnt[e.iface]++
		if cnt[e.iface] > 1 {
			g.shared = true
			g.tags["shared"] = true
		}
	}
}

func (g *c44gen) randomOp() c44op {
	lv := g.liveIDs()
	x := g.r.intn(100)
	switch {
	case x < 20 && len(lv) > 0: // rename
		id := lv[g.r.intn(len(lv))]
		nf := (g.live[id].iface + 1 + g.r.intn(g.nif)) % g.nif
		return c44op{id: id, ep: g.newEp(nf)}
	case x < 40 && len(lv) > 0: // remove live
		return c44op{rem: true, id: lv[g.r.intn(len(lv))]}
	case x < 44: // remove anything
		return c44op{rem: true, id: g.ids[g.r.intn(len(g.ids))]}
	case x < 54 && len(lv) > 0: // refresh on the same interface
		id := lv[g.r.intn(len(lv))]
		return c44op{id: id, ep: g.newEp(g.live[id].iface)}
	default:
		return c44op{id: g.ids[g.r.intn(len(g.ids))], ep: g.newEp(g.pickIface())}
	}
}

var c44pool = func() []c44id {
	var p []c44id
	for o := 0; o < 3; o++ {
		for w := 0; w < 3; w++ {
			for e := 0; e < 3; e++ {
				p = append(p, c44id{o, w, e})
			}
		}
	}
	return p
}()

func (g *c44gen) pickIDs(n int) {
	seen := map[c44id]bool{}
	for len(g.ids) < n {
		var c c44id
		if g.r.intn(2) == 0 {
			// same orchestrator and workload: the order is decided by the last component
			c = c44id{1, g.r.intn(2) + 1, g.r.intn(3)}
		} else {
			c = c44pool[g.r.intn(len(c44pool))]
		}
		if !seen[c] {
			seen[c] = true
			g.ids = append(g.ids, c)
		}
	}
	sort.Slice(g.ids, func(a, b int) bool { return c44less(g.ids[a], g.ids[b]) })
}

// scenario streams: the shapes named in the design (and their mirror images), randomised in the details
func (g *c44gen) scenario(kind int) [][]c44op {
	a, b := 0, 1
	if g.nif < 2 {
		g.nif = 2
	}
	lo, hi := g.ids[0], g.ids[len(g.ids)-1]
	up := func(id c44id, f int) c44op { return c44op{id: id, ep: g.newEp(f)} }
	rm := func(id c44id) c44op { return c44op{rem: true, id: id} }
	switch kind {
	case 0: // active endpoint of A moves to B while a shadowed endpoint still claims A
		return [][]c44op{{up(lo, a)}, {up(hi, a)}, {up(lo, b)}}
	case 1: // shadowed endpoint moves to B, then the active one of A goes away
		return [][]c44op{{up(lo, a)}, {up(hi, a)}, {up(hi, b)}, {rm(lo)}}
	case 2: // active and shadowed endpoint removed in one batch
		return [][]c44op{{up(lo, a)}, {up(hi, a)}, {rm(lo), rm(hi)}}
	case 3: // active endpoint of B updated to A where it loses
		return [][]c44op{{up(lo, a)}, {up(hi, b)}, {up(hi, a)}}
	case 4: // make-before-break, both orders, then remove the winner, then the other
		if g.r.intn(2) == 0 {
			return [][]c44op{{up(hi, a)}, {up(lo, a)}, {rm(lo)}, {rm(hi)}}
		}
		return [][]c44op{{up(lo, a)}, {up(hi, a)}, {rm(lo)}, {rm(hi)}}
	case 5: // both claimants arrive in one batch
		return [][]c44op{{up(hi, a), up(lo, a)}, {rm(lo)}}
	case 6: // shadowed endpoint refreshed, active removed and re-added in one batch
		return [][]c44op{{up(lo, a)}, {up(hi, a)}, {up(hi, a), rm(lo)}, {up(lo, a)}}
	default: // winner displaces the active endpoint while having been shadowed elsewhere
		mid := g.ids[len(g.ids)/2]
		return [][]c44op{{up(lo, a)}, {up(mid, b)}, {up(hi, b)}, {up(mid, a)}, {rm(lo)}}
	}
}

// ---- the preference order itself: the real wlIdsAscending on clusters of string identifiers
var c44strPool = []string{"", "a", "ab", "abc", "b", "k8s", "k8s-", "k8", "openstack", "cni", "pod-10a", "pod-11a", "pod-9",
	"pod-9/x", "default/pod", "default/pod-", "eth0", "ep", "ep1", "ep10", "ep2", "EP1", "\xc3\xa9", "\x7f", "\xff", "z"}

func c44bytes(s string) string {
	b := make([]string, len(s))
	for i := 0; i < len(s); i++ {
		b[i] = strconv.Itoa(int(s[i]))
	}
	return "[" + strings.Join(b, ";") + "]"
}

func c44orderCase(r *c44rng) c44line {
	type sid [3]string
	pick := func() string { return c44strPool[r.intn(len(c44strPool))] }
	n := 3 + r.intn(3)
	var ids []sid
	tags := map[string]bool{}
	for len(ids) < n {
		var c sid
		switch k := r.intn(10); {
		case k < 2 || len(ids) == 0:
			c = sid{pick(), pick(), pick()}
		case k < 4: // same orchestrator as an earlier id
			c = sid{ids[r.intn(len(ids))][0], pick(), pick()}
		case k < 6: // same orchestrator and workload
			p := ids[r.intn(len(ids))]
			c = sid{p[0], p[1], pick()}
		case k < 9: // same orchestrator, workload and endpoint cross over
			p := ids[r.intn(len(ids))]
			c = sid{p[0], pick(), pick()}
			if (c[1] < p[1]) == (c[2] < p[2]) {
				c[1], c[2] = p[1]+"x", ""
				if p[2] == "" {
					c[1], c[2] = "", "x"
					if p[1] == "" {
						c = sid{p[0], "m", ""}
					}
				}
			}
		default: // an exact duplicate
			c = ids[r.intn(len(ids))]
			tags["order:duplicate"] = true
		}
		ids = append(ids, c)
	}
	crossing := false
	var idsC, idsT, rows []string
	var mat [][]bool
	for _, a := range ids {
		idsC = append(idsC, fmt.Sprintf("(%s,%s,%s)", c44bytes(a[0]), c44bytes(a[1]), c44bytes(a[2])))
		idsT = append(idsT, fmt.Sprintf("%q/%q/%q", a[0], a[1], a[2]))
		if a[0] == "" || a[1] == "" || a[2] == "" {
			tags["order:empty-component"] = true
		}
		var row []string
		var brow []bool
		for _, b := range ids {
			if a[0] == b[0] && a[1] != b[1] && a[2] != b[2] && (a[1] < b[1]) != (a[2] < b[2]) {
				crossing = true
			}
			x := types.WorkloadEndpointID{OrchestratorId: a[0], WorkloadId: a[1], EndpointId: a[2]}
			y := types.WorkloadEndpointID{OrchestratorId: b[0], WorkloadId: b[1], EndpointId: b[2]}
			res := wlIdsAscending(&x, &y)
			row = append(row, fmt.Sprintf("%v", res))
			brow = append(brow, res)
		}
		rows = append(rows, "["+strings.Join(row, ";")+"]")
		mat = append(mat, brow)
	}
	if crossing {
		tags["order:workload-endpoint-cross"] = true
	}
	tl := []string{"stream:order", fmt.Sprintf("order-ids:%d", n)}
	for t := range tags {
		tl = append(tl, t)
	}
	sort.Strings(tl)
	return c44line{
		Coq:    "(KOrd [" + strings.Join(idsC, ";") + "] [" + strings.Join(rows, ";") + "])",
		NT:     crossing,
		Key:    "order " + strings.Join(idsT, " | "),
		Sample: map[string]any{"ids": idsT, "wlIdsAscending(row,column)": mat},
		Tags:   tl,
	}
}

// ---- calculateRoutes of one endpoint: networks, NAT external addresses, floating-IP switch, orchestrator,
// live-migration state, route priorities
func c44routesCase(r *c44rng) c44line {
	mg := c44new()
	fip := r.intn(2) == 0
	orch := []string{"k8s", "openstack", "cni"}[r.intn(3)]
	np := []int{0, 1024, 100}[r.intn(3)]
	ep := []int{512, 1, 1023}[r.intn(3)]
	mg.m.cfg.floatingIPsEnabled = fip
	mg.m.cfg.normalRoutePriority = np
	mg.m.cfg.elevatedRoutePriority = ep
	id := types.WorkloadEndpointID{OrchestratorId: orch, WorkloadId: "w", EndpointId: "e"}
	lmIdx := r.intn(4)
	lmName := []string{"LmNone", "LmTarget", "LmLive", "LmTimeWait"}[lmIdx]
	if r.intn(4) == 0 {
		// a state recorded earlier and reset to base must leave no trace
		mg.m.OnLiveMigrationStateUpdate(id, liveMigrationStateLive)
		mg.m.OnLiveMigrationStateUpdate(id, liveMigrationStateBase)
	}
	switch lmIdx {
	case 1:
		mg.m.OnLiveMigrationStateUpdate(id, liveMigrationStateTarget)
	case 2:
		mg.m.OnLiveMigrationStateUpdate(id, liveMigrationStateLive)
	case 3:
		mg.m.OnLiveMigrationStateUpdate(id, liveMigrationStateTimeWait)
	}
	wl := &proto.WorkloadEndpoint{State: "active", Name: "cali0", Mac: "01:02:03:04:05:06"}
	var nets, ext []string
	used := map[int]bool{}
	for k := r.intn(4); k > 0; k-- {
		n := 1 + r.intn(600)
		if used[n] {
			continue
		}
		used[n] = true
		wl.Ipv4Nets = append(wl.Ipv4Nets, fmt.Sprintf("10.0.%d.%d/32", n/256, n%256))
		nets = append(nets, strconv.Itoa(n))
	}
	for k := r.intn(3); k > 0; k-- {
		n := 1 + r.intn(600)
		if used[65536+n] {
			continue
		}
		used[65536+n] = true
		wl.Ipv4Nat = append(wl.Ipv4Nat, &proto.NatInfo{ExtIp: fmt.Sprintf("10.1.%d.%d", n/256, n%256), IntIp: "10.0.0.1"})
		ext = append(ext, strconv.Itoa(65536+n))
	}
	targets := mg.m.calculateRoutes(log.WithField("verif", "c44"), id, wl)
	var rs, rsT []string
	for _, t := range targets {
		a := t.CIDR.Addr().AsNetIP().To4()
		n := int(a[1])*65536 + int(a[2])*256 + int(a[3])
		rs = append(rs, fmt.Sprintf("(%d,%d)", n, t.Priority))
		rsT = append(rsT, fmt.Sprintf("%s prio %d", t.CIDR.String(), t.Priority))
	}
	tags := []string{"stream:routes", "routes:lm-" + strings.ToLower(lmName[2:]), "routes:orch-" + orch}
	if fip {
		tags = append(tags, "routes:floating-ips")
	}
	if len(ext) > 0 {
		tags = append(tags, "routes:nat")
	}
	sort.Strings(tags)
	return c44line{
		Coq: fmt.Sprintf("(KRoutes %v %v %s %d %d [%s] [%s] [%s])", fip, orch == "openstack", lmName, np, ep,
			strings.Join(nets, ";"), strings.Join(ext, ";"), strings.Join(rs, ";")),
		NT:  len(ext) > 0 && len(nets) > 0,
		Key: fmt.Sprintf("routes fip=%v orch=%s lm=%s np=%d ep=%d nets=%v nat=%v", fip, orch, lmName, np, ep, nets, ext),
		Sample: map[string]any{"floatingIPs": fip, "orchestrator": orch, "liveMigration": lmName, "nets": wl.Ipv4Nets,
			"natExt": ext, "routes": rsT},
		Tags: tags,
	}
}

func c44case(r *c44rng, idx int, fixed [][]c44op) c44line {
	if fixed == nil && idx%10 == 9 {
		return c44orderCase(r)
	}
	if fixed == nil && idx%10 == 4 {
		return c44routesCase(r)
	}
	g := &c44gen{r: r, live: map[c44id]c44ep{}, tags: map[string]bool{}}
	stream := "random"
	switch {
	case fixed != nil:
		stream = "replay"
	case idx%5 == 3:
		stream = "scenario"
	case idx%10 == 7:
		stream = "boundary"
	}
	g.nif = 1 + r.intn(3)
	g.pickIDs(2 + r.intn(3))
	var batches [][]c44op
	switch stream {
	case "replay":
		batches = fixed
	case "scenario":
		k := r.intn(8)
		g.tags[fmt.Sprintf("scenario:%d", k)] = true
		batches = g.scenario(k)
		// a random tail
		for n := r.intn(3); n > 0; n-- {
			batches = append(batches, nil) // filled below
		}
	case "boundary":
		// empty batches, removes of unknown ids, several ops on one id in one batch
		nb := 2 + r.intn(4)
		for k := 0; k < nb; k++ {
			batches = append(batches, nil)
		}
	default:
		nb := 2 + r.intn(6)
		for k := 0; k < nb; k++ {
			batches = append(batches, nil)
		}
	}
	mg := c44new()
	var coqB, keyB []string
	var allOps [][]c44opJ
	var sample []any
	panicked := false
	multi := false
	for _, b := range batches {
		if b == nil {
			var n int
			if stream == "boundary" {
				n = r.intn(4) // may be empty
			} else {
				n = 1 + r.intn(4)
			}
			for k := 0; k < n; k++ {
				var o c44op
				if stream == "boundary" && r.intn(3) == 0 && len(b) > 0 {
					// another op on an id already touched in this batch
					prev := b[r.intn(len(b))]
					if r.intn(2) == 0 {
						o = c44op{rem: true, id: prev.id}
					} else {
						o = c44op{id: prev.id, ep: g.newEp(g.pickIface())}
					}
				} else {
					o = g.randomOp()
				}
				b = append(b, o)
				g.note(o)
			}
		} else {
			for _, o := range b {
				g.note(o)
			}
		}
		touched := map[c44id]bool{}
		for _, o := range b {
			touched[o.id] = true
		}
		if len(touched) > 1 {
			multi = true
		}
		var ops, opsT []string
		opsJ := []c44opJ{}
		for _, o := range b {
			opsJ = append(opsJ, o.toJ())
			mg.send(o)
			ops = append(ops, o.coq())
			opsT = append(opsT, o.txt())
		}
		allOps = append(allOps, opsJ)
		p := mg.apply()
		ob := mg.observe(p)
		coqB = append(coqB, fmt.Sprintf("([%s], %s)", strings.Join(ops, ";"), ob.coq()))
		keyB = append(keyB, strings.Join(ops, ";"))
		sample = append(sample, map[string]any{"ops": opsT, "after-apply": ob.txt})
		if p {
			panicked = true
			g.tags["panic"] = true
			break
		}
	}
	if multi {
		g.tags["multi-id-batch"] = true
	}
	tags := []string{"stream:" + stream, fmt.Sprintf("ids:%d", len(g.ids)), fmt.Sprintf("ifaces:%d", g.nif)}
	for t := range g.tags {
		tags = append(tags, t)
	}
	sort.Strings(tags)
	_ = panicked
	return c44line{
		Coq:    "(KHist (mkCase [" + strings.Join(coqB, ";") + "]))",
		NT:     g.shared,
		Key:    strings.Join(keyB, " | "),
		Sample: map[string]any{"batches": sample},
		Tags:   tags,
		Ops:    allOps,
	}
}

func TestVerifC44(t *testing.T) {
	out := os.Getenv("VERIF_C44_OUT")
	if out == "" {
		t.Skip("VERIF_C44_OUT not set")
	}
	seed, _ := strconv.ParseUint(os.Getenv("VERIF_C44_SEED"), 10, 64)
	n, _ := strconv.Atoi(os.Getenv("VERIF_C44_N"))
	if n == 0 {
		n = 50
	}
	log.SetLevel(log.PanicLevel)
	gomega.RegisterTestingT(t) // the mock netlink dataplane asserts with gomega
	f, err := os.Create(out)
	if err != nil {
		t.Fatal(err)
	}
	defer f.Close()
	enc := json.NewEncoder(f)
	r := &c44rng{s: seed}
	if rp := os.Getenv("VERIF_C44_REPLAY"); rp != "" {
		// replay: a JSON file holding [[message,...],...] (the "ops" field of a case line)
		raw, err := os.ReadFile(rp)
		if err != nil {
			t.Fatal(err)
		}
		var in [][]c44opJ
		if err := json.Unmarshal(raw, &in); err != nil {
			t.Fatal(err)
		}
		fixed := [][]c44op{}
		for _, b := range in {
			ops := make([]c44op, 0, len(b))
			for _, j := range b {
				ops = append(ops, j.toOp())
			}
			fixed = append(fixed, ops)
		}
		if err := enc.Encode(c44case(r, 0, fixed)); err != nil {
			t.Fatal(err)
		}
		return
	}
	for i := 0; i < n; i++ {
		if err := enc.Encode(c44case(r, i, nil)); err != nil {
			t.Fatal(err)
		}
	}
}
