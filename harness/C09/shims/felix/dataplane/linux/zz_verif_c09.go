//go:build verif

package intdataplane

import (
	"github.com/projectcalico/calico/felix/proto"
	"github.com/projectcalico/calico/felix/rules"
	"github.com/projectcalico/calico/felix/types"
)

// VerifGroupTieredPolicy runs the real endpointManager.groupTieredPolicy / groupPolicies (which only read
// activePolicySelectors) on the given tiers, for both directions, as the endpoint manager does for a workload.
func VerifGroupTieredPolicy(selectors map[types.PolicyID]string, tiers []*proto.TierInfo) []rules.TierPolicyGroups {
	m := &endpointManager{activePolicySelectors: selectors}
	return m.groupTieredPolicy(tiers, includeInbound|includeOutbound)
}
