//go:build verif

// C09 correspondence driver.  For every generated endpoint (tiers x policy groups x policies x profiles, one
// direction, one IP version) it runs the REAL renderer: WorkloadEndpointToIptablesChains /
// HostEndpointToFilterChains for the endpoint chain, PolicyToIptablesChains for every policy (staged or
// not), PolicyGroupToIptablesChains for every group the real ShouldBeInlined says needs a chain, and
// ProfileToIptablesChains; renders every rule of every chain to iptables / nftables text with the real rule
// renderers; parses the text into the abstract rule syntax of coq/theories/Common/Ipt.v (parse.go: anything
// not understood is a hard error) and prints one JSON line per case carrying the case as a Coq term
// (Verif.C09.Spec.case): the endpoint description, the parsed implementation chains, IP set contents and
// probe packets.
package main

import (
	"encoding/json"
	"flag"
	"fmt"
	"math/big"
	"os"
	"sort"
	"strings"

	"github.com/sirupsen/logrus"

	intdataplane "github.com/projectcalico/calico/felix/dataplane/linux"
	"github.com/projectcalico/calico/felix/environment"
	"github.com/projectcalico/calico/felix/generictables"
	"github.com/projectcalico/calico/felix/ipsets"
	"github.com/projectcalico/calico/felix/iptables"
	"github.com/projectcalico/calico/felix/nftables"
	"github.com/projectcalico/calico/felix/proto"
	"github.com/projectcalico/calico/felix/rules"
	"github.com/projectcalico/calico/felix/types"
)

type rng struct{ s uint64 }

func (r *rng) next() uint64 {
	r.s += 0x9e3779b97f4a7c15
	z := r.s
	z = (z ^ (z >> 30)) * 0xbf58476d1ce4e5b9
	z = (z ^ (z >> 27)) * 0x94d049bb133111eb
	return z ^ (z >> 31)
}
func (r *rng) intn(n int) int    { return int(r.next() % uint64(n)) }
func (r *rng) chance(p int) bool { return r.intn(100) < p }

type line struct {
	Coq    string         `json:"coq"`
	NT     bool           `json:"nt"`
	Key    string         `json:"key"`
	Sample map[string]any `json:"sample,omitempty"`
	Tags   []string       `json:"tags"`
}

type devNull struct{}

func (devNull) Write(p []byte) (int, error) { return len(p), nil }

// ------------------------------------------------------------------ rules (generator side)

type cidr struct {
	v6   bool
	addr *big.Int
	len  int
}

func (c cidr) width() int {
	if c.v6 {
		return 128
	}
	return 32
}
func (c cidr) String() string {
	w := c.width() / 8
	b := c.addr.FillBytes(make([]byte, w))
	if c.v6 {
		return canonV6(b) + fmt.Sprintf("/%d", c.len)
	}
	return fmt.Sprintf("%d.%d.%d.%d/%d", b[0], b[1], b[2], b[3], c.len)
}
func (c cidr) coq() string {
	if c.v6 {
		return fmt.Sprintf("(C6 %s %d)", c.addr.String(), c.len)
	}
	return fmt.Sprintf("(C4 %s %d)", c.addr.String(), c.len)
}
func (c cidr) contains(x *big.Int) bool {
	sh := uint(c.width() - c.len)
	return new(big.Int).Rsh(x, sh).Cmp(new(big.Int).Rsh(c.addr, sh)) == 0
}
func mkCIDR(s string) cidr {
	parts := strings.Split(s, "/")
	var l int
	fmt.Sscanf(parts[1], "%d", &l)
	return cidr{v6: strings.Contains(s, ":"), addr: parseIP(parts[0]), len: l}
}

type prange struct{ first, last int }

type grule struct {
	action                                   string
	ipver                                    int // 0,4,6
	proto, notProto                          int // -1 none
	protoByName                              bool
	srcNets, dstNets, notSrcNets, notDstNets []cidr
	srcPorts, dstPorts, notDstPorts          []prange
	srcNamed, dstNamed, notDstNamed          []int
	srcSets, dstSets, notSrcSets, notDstSets []int
	dstIPPortSets                            []int
	icmpType                                 int // -1 none
}

var protoNames = map[int]string{1: "icmp", 6: "tcp", 17: "udp", 58: "icmpv6", 132: "sctp", 136: "udplite"}

func setID(i int) string { return fmt.Sprintf("s%d", i) }

func (g *grule) toProto() *proto.Rule {
	r := &proto.Rule{Action: g.action}
	switch g.ipver {
	case 4:
		r.IpVersion = proto.IPVersion_IPV4
	case 6:
		r.IpVersion = proto.IPVersion_IPV6
	}
	mkp := func(n int, byName bool) *proto.Protocol {
		if n < 0 {
			return nil
		}
		if byName && protoNames[n] != "" {
			return &proto.Protocol{NumberOrName: &proto.Protocol_Name{Name: protoNames[n]}}
		}
		return &proto.Protocol{NumberOrName: &proto.Protocol_Number{Number: int32(n)}}
	}
	r.Protocol = mkp(g.proto, g.protoByName)
	r.NotProtocol = mkp(g.notProto, false)
	nets := func(cs []cidr) (out []string) {
		for _, c := range cs {
			out = append(out, c.String())
		}
		return
	}
	r.SrcNet, r.DstNet, r.NotSrcNet, r.NotDstNet = nets(g.srcNets), nets(g.dstNets), nets(g.notSrcNets), nets(g.notDstNets)
	ports := func(ps []prange) (out []*proto.PortRange) {
		for _, p := range ps {
			out = append(out, &proto.PortRange{First: int32(p.first), Last: int32(p.last)})
		}
		return
	}
	r.SrcPorts, r.DstPorts, r.NotDstPorts = ports(g.srcPorts), ports(g.dstPorts), ports(g.notDstPorts)
	ids := func(is []int) (out []string) {
		for _, i := range is {
			out = append(out, setID(i))
		}
		return
	}
	r.SrcNamedPortIpSetIds, r.DstNamedPortIpSetIds = ids(g.srcNamed), ids(g.dstNamed)
	r.NotDstNamedPortIpSetIds = ids(g.notDstNamed)
	r.SrcIpSetIds, r.DstIpSetIds, r.NotSrcIpSetIds, r.NotDstIpSetIds = ids(g.srcSets), ids(g.dstSets), ids(g.notSrcSets), ids(g.notDstSets)
	r.DstIpPortSetIds = ids(g.dstIPPortSets)
	if g.icmpType >= 0 {
		r.Icmp = &proto.Rule_IcmpType{IcmpType: int32(g.icmpType)}
	}
	return r
}

func coqList[T any](xs []T, f func(T) string) string {
	ys := make([]string, len(xs))
	for i, x := range xs {
		ys[i] = f(x)
	}
	return "[" + strings.Join(ys, "; ") + "]"
}
func coqN(i int) string        { return fmt.Sprintf("%d", i) }
func coqRange(p prange) string { return fmt.Sprintf("(%d, %d)", p.first, p.last) }
func coqOptN(i int) string {
	if i < 0 {
		return "None"
	}
	return fmt.Sprintf("(Some %d)", i)
}

// positional Build_rule (Spec.R)
func (g *grule) coq() string {
	act := map[string]string{"": "Allow", "allow": "Allow", "deny": "Deny", "pass": "Pass", "next-tier": "Pass", "log": "Log"}[g.action]
	iv := "None"
	if g.ipver == 4 {
		iv = "(Some V4)"
	} else if g.ipver == 6 {
		iv = "(Some V6)"
	}
	cs := func(c []cidr) string { return coqList(c, cidr.coq) }
	ps := func(p []prange) string { return coqList(p, coqRange) }
	ns := func(n []int) string { return coqList(n, coqN) }
	icmp := "None"
	if g.icmpType >= 0 {
		icmp = fmt.Sprintf("(Some (IcmpType %d))", g.icmpType)
	}
	return fmt.Sprintf("(R %s %s %s %s %s %s %s %s %s %s %s %s %s %s %s [] %s %s None %s %s [] %s)",
		act, iv, coqOptN(g.proto), cs(g.srcNets), ps(g.srcPorts), ns(g.srcNamed),
		cs(g.dstNets), ps(g.dstPorts), ns(g.dstNamed), icmp, ns(g.srcSets), ns(g.dstSets),
		ns(g.dstIPPortSets), coqOptN(g.notProto), cs(g.notSrcNets), cs(g.notDstNets),
		ps(g.notDstPorts), ns(g.notSrcSets), ns(g.notDstSets), ns(g.notDstNamed))
}

// ------------------------------------------------------------------ the small universe rules and packets live in

type universe struct {
	ver    int
	addrs  []*big.Int
	nets   []cidr
	ports  []int
	protos []int
	nsets  int
}

func newUniverse(ver int) *universe {
	u := &universe{ver: ver, ports: []int{80, 443, 8080, 53, 4789, 1000}, nsets: 8}
	if ver == 4 {
		for _, a := range []string{"10.0.0.1", "10.0.0.2", "10.0.0.130", "10.0.1.1", "10.0.1.2", "192.168.0.1", "172.16.0.9"} {
			u.addrs = append(u.addrs, parseIP(a))
		}
		for _, n := range []string{"10.0.0.0/24", "10.0.1.0/24", "10.0.0.0/16", "10.0.0.1/32", "192.168.0.0/16", "10.0.0.0/25", "10.0.0.128/25", "172.16.0.0/12"} {
			u.nets = append(u.nets, mkCIDR(n))
		}
		u.protos = []int{6, 17, 1, 4, 132}
	} else {
		for _, a := range []string{"fd00::1", "fd00::2", "fd00::8000:0:0:1", "fd00:1::1", "fd00:1::2", "fe80::1", "2001:db8::9"} {
			u.addrs = append(u.addrs, parseIP(a))
		}
		for _, n := range []string{"fd00::/64", "fd00:1::/64", "fd00::/16", "fd00::1/128", "fe80::/10", "fd00::/65", "fd00::8000:0:0:0/65", "2001:db8::/32"} {
			u.nets = append(u.nets, mkCIDR(n))
		}
		u.protos = []int{6, 17, 58, 4, 132}
	}
	return u
}

type packet struct {
	proto        int
	src, dst     *big.Int
	sport, dport int
	ityp         int
	ct           string
	mark         uint32
}

func (p packet) coq(ver int) string {
	v := "V4"
	if ver == 6 {
		v = "V6"
	}
	return fmt.Sprintf("(K %s %d %s %s %d %d %d 0 %s %d)", v, p.proto, p.src.String(), p.dst.String(), p.sport, p.dport, p.ityp, p.ct, p.mark)
}

type member struct {
	addr        *big.Int
	proto, port int // proto -1: plain IP member
}

func (m member) coq() string {
	if m.proto < 0 {
		return fmt.Sprintf("MemIP %s", m.addr.String())
	}
	return fmt.Sprintf("MemIPPort %s %d %d", m.addr.String(), m.proto, m.port)
}

// IP set contents: sets 0..3 plain IP sets, 4..7 ip,port sets
type setWorld struct {
	sets [][]member
}

func genSets(r *rng, u *universe) *setWorld {
	w := &setWorld{sets: make([][]member, u.nsets)}
	for id := 0; id < u.nsets; id++ {
		seen := map[string]bool{}
		k := 1 + r.intn(4)
		for j := 0; j < k; j++ {
			m := member{addr: u.addrs[r.intn(len(u.addrs))], proto: -1}
			if id >= 4 {
				m.proto = []int{6, 17}[r.intn(2)]
				m.port = u.ports[r.intn(4)]
			}
			if !seen[m.coq()] {
				seen[m.coq()] = true
				w.sets[id] = append(w.sets[id], m)
			}
		}
	}
	return w
}
func (w *setWorld) has(id int, m member) bool {
	for _, x := range w.sets[id] {
		if x.addr.Cmp(m.addr) == 0 && x.proto == m.proto && (m.proto < 0 || x.port == m.port) {
			return true
		}
	}
	return false
}

// steering only (never used as an oracle): does the generated rule match the packet?
func (g *grule) matches(p packet, ver int, w *setWorld) bool {
	if g.ipver != 0 && g.ipver != ver {
		return false
	}
	if g.proto >= 0 && g.proto != p.proto {
		return false
	}
	if g.notProto >= 0 && g.notProto == p.proto {
		return false
	}
	inNets := func(cs []cidr, x *big.Int) bool {
		for _, c := range cs {
			if c.contains(x) {
				return true
			}
		}
		return false
	}
	inPorts := func(ps []prange, x int) bool {
		for _, q := range ps {
			if q.first <= x && x <= q.last {
				return true
			}
		}
		return false
	}
	if len(g.srcNets) > 0 && !inNets(g.srcNets, p.src) || len(g.dstNets) > 0 && !inNets(g.dstNets, p.dst) {
		return false
	}
	if inNets(g.notSrcNets, p.src) || inNets(g.notDstNets, p.dst) {
		return false
	}
	sm, dm := member{p.src, p.proto, p.sport}, member{p.dst, p.proto, p.dport}
	anyNamed := func(ids []int, m member) bool {
		for _, id := range ids {
			if w.has(id, m) {
				return true
			}
		}
		return false
	}
	if (len(g.srcPorts) > 0 || len(g.srcNamed) > 0) && !(inPorts(g.srcPorts, p.sport) || anyNamed(g.srcNamed, sm)) {
		return false
	}
	if (len(g.dstPorts) > 0 || len(g.dstNamed) > 0) && !(inPorts(g.dstPorts, p.dport) || anyNamed(g.dstNamed, dm)) {
		return false
	}
	if inPorts(g.notDstPorts, p.dport) || anyNamed(g.notDstNamed, dm) {
		return false
	}
	for _, id := range g.srcSets {
		if !w.has(id, member{p.src, -1, 0}) {
			return false
		}
	}
	for _, id := range g.dstSets {
		if !w.has(id, member{p.dst, -1, 0}) {
			return false
		}
	}
	for _, id := range g.notSrcSets {
		if w.has(id, member{p.src, -1, 0}) {
			return false
		}
	}
	for _, id := range g.notDstSets {
		if w.has(id, member{p.dst, -1, 0}) {
			return false
		}
	}
	for _, id := range g.dstIPPortSets {
		if !w.has(id, dm) {
			return false
		}
	}
	if g.icmpType >= 0 && g.icmpType != p.ityp {
		return false
	}
	return true
}

func pickNets(r *rng, u *universe, max int) []cidr {
	n := 1 + r.intn(max)
	var out []cidr
	for i := 0; i < n; i++ {
		out = append(out, u.nets[r.intn(len(u.nets))])
	}
	return out
}

// at most two positive match blocks (the C08 scratch-bit finding needs three)
func genRule(r *rng, u *universe, simple bool, allowPass bool) *grule {
	g := &grule{proto: -1, notProto: -1, icmpType: -1}
	acts := []string{"allow", "allow", "deny", "deny", "pass", "pass", "next-tier", "log", ""}
	for {
		g.action = acts[r.intn(len(acts))]
		if allowPass || (g.action != "pass" && g.action != "next-tier") {
			break
		}
	}
	if r.chance(12) {
		g.ipver = u.ver
	} else if r.chance(3) {
		g.ipver = 10 - u.ver
	}
	icmpProto := 1
	if u.ver == 6 {
		icmpProto = 58
	}
	switch k := r.intn(10); {
	case k < 5:
		g.proto = []int{6, 17}[r.intn(2)]
		g.protoByName = r.chance(60)
		if r.chance(65) {
			n := 1 + r.intn(2)
			for i := 0; i < n; i++ {
				f := u.ports[r.intn(len(u.ports))]
				l := f
				if r.chance(25) {
					l = f + 1 + r.intn(400)
				}
				g.dstPorts = append(g.dstPorts, prange{f, l})
			}
		}
		if !simple && r.chance(12) {
			g.srcPorts = []prange{{1000, 1000 + r.intn(2)*4000}}
		}
		if !simple && r.chance(12) {
			g.notDstPorts = []prange{{u.ports[r.intn(len(u.ports))], 9000}}
		}
	case k < 6:
		g.proto = icmpProto
		g.protoByName = r.chance(60)
		if r.chance(50) {
			g.icmpType = []int{8, 0, 128}[r.intn(3)]
		}
	case k < 7:
		g.proto = []int{4, 132, 47}[r.intn(3)]
	}
	if g.proto < 0 && r.chance(15) {
		g.notProto = []int{6, 17, 1}[r.intn(3)]
	}
	if r.chance(40) {
		g.srcNets = pickNets(r, u, 2)
	}
	if r.chance(35) {
		g.dstNets = pickNets(r, u, 2)
	}
	if !simple {
		if r.chance(15) {
			g.notSrcNets = pickNets(r, u, 2)
		}
		if r.chance(15) {
			g.notDstNets = pickNets(r, u, 1)
		}
		if r.chance(20) {
			g.srcSets = []int{r.intn(4)}
		}
		if r.chance(20) {
			g.dstSets = []int{r.intn(4)}
		}
		if r.chance(8) {
			g.notSrcSets = []int{r.intn(4)}
		}
		if r.chance(8) {
			g.notDstSets = []int{r.intn(4)}
		}
		if r.chance(15) {
			g.dstNamed = []int{4 + r.intn(4)}
			if r.chance(40) {
				g.dstNamed = append(g.dstNamed, 4+r.intn(4))
			}
		}
		if r.chance(8) {
			g.srcNamed = []int{4 + r.intn(4)}
		}
		if r.chance(6) {
			g.notDstNamed = []int{4 + r.intn(4)}
		}
		if r.chance(6) && len(g.dstPorts) == 0 && len(g.notDstPorts) == 0 {
			g.dstIPPortSets = []int{4 + r.intn(4)}
		}
	}
	// cap the number of positive blocks at two
	blocks := func() int {
		n := 0
		sp := 0
		if len(g.srcPorts) > 0 {
			sp = 1
		}
		dp := 0
		if len(g.dstPorts) > 0 {
			dp = 1
		}
		if sp+len(g.srcNamed) > 1 {
			n++
		}
		if dp+len(g.dstNamed) > 1 {
			n++
		}
		if len(g.srcNets) > 1 {
			n++
		}
		if len(g.dstNets) > 1 {
			n++
		}
		return n
	}
	for blocks() > 2 {
		switch {
		case len(g.srcNets) > 1:
			g.srcNets = g.srcNets[:1]
		case len(g.dstNets) > 1:
			g.dstNets = g.dstNets[:1]
		default:
			g.srcNamed = nil
		}
	}
	return g
}

// ------------------------------------------------------------------ endpoint description

type gpolicy struct {
	id            types.PolicyID
	staged        bool
	in, out       []*grule
	hasIn, hasOut bool // policy types: applies to ingress / egress
	selector      int
}
type ggroup struct{ pols []*gpolicy }
type gtier struct {
	name          string
	defaultAction string
	// the tier's policy groups per direction, as TierPolicyGroups carries them: a policy with ingress rules
	// only is in groupsIn only, one with egress rules only in groupsOut only, the rest in both (grouped
	// independently per direction, as groupPolicies does)
	groupsIn, groupsOut []*ggroup
	groups              []*ggroup // = the rendered direction's groups (set by buildCase)
	// when the groups were formed by the REAL endpointManager.groupTieredPolicy: its PolicyGroup values (parallel to
	// groupsIn / groupsOut) and, per direction, the Coq text "(input, groups)" of the grouping correspondence
	realIn, realOut []*rules.PolicyGroup
	groupings       []string
}
type gprofile struct {
	name    string
	in, out []*grule
}

type markCfg struct{ accept, pass, drop, s0, s1, endpoint uint32 }

var markCfgs = []markCfg{
	{0x80, 0x100, 0x800, 0x200, 0x400, 0xff000},
	{0x10000, 0x20000, 0x100000, 0x40000, 0x80000, 0xffe00000},
	{0x1, 0x80000000, 0x4, 0x2, 0x40000000, 0xff00},
	{0x8, 0x10, 0x80, 0x20, 0x40, 0xff00},
}

// chain-name interning: real names -> short tokens, injective by construction
type interner struct {
	m    map[string]string
	real []string
}

func (in *interner) get(name string) string {
	if s, ok := in.m[name]; ok {
		return s
	}
	s := fmt.Sprintf("c%d", len(in.m))
	in.m[name] = s
	in.real = append(in.real, name)
	return s
}

var builtinTargets = map[string]bool{"RETURN": true, "DROP": true, "ACCEPT": true, "REJECT": true, "MARK": true, "LOG": true, "NFLOG": true, "NOTRACK": true}

type caseOpts struct {
	ver               int
	nft               bool
	mc                markCfg
	flow, reject      bool
	kind              string // "wl" "hep"
	egress            bool
	adminUp           bool
	allowVXLAN        bool
	allowIPIP         bool
	filterAllowReturn bool
	disableCtInvalid  bool
	profilePass       bool
	qos               *proto.QoSControls // workload endpoints only
	extraPkts         []packet           // probe packets a layout wants evaluated in addition to the derived ones
}

// realGroupTier forms the tier's groups with the real endpointManager.groupTieredPolicy: every policy gets a
// selector (runs of equal selectors, sometimes an earlier selector again further down), the tier goes in as the
// proto.TierInfo the calculation graph sends, and the TierPolicyGroups that come back are what the renderer gets.
func realGroupTier(r *rng, tr *gtier, pols []*gpolicy, splitChance int) {
	selectors := map[types.PolicyID]string{}
	selID := map[string]int{}
	byID := map[types.PolicyID]int{}
	cur := 0
	nSel := 0
	for i, p := range pols {
		if i == 0 || r.chance(splitChance) {
			nSel++
			cur = nSel
			if nSel > 2 && r.chance(20) {
				cur = 1 + r.intn(nSel-1) // a selector seen before, not necessarily adjacent
			}
		}
		p.selector = cur
		sel := fmt.Sprintf("role == 'sel%d'", cur)
		selectors[p.id] = sel
		selID[sel] = cur
		byID[p.id] = i
	}
	ti := &proto.TierInfo{Name: tr.name, DefaultAction: tr.defaultAction}
	for _, p := range pols {
		if p.hasIn {
			ti.IngressPolicies = append(ti.IngressPolicies, types.PolicyIDToProto(p.id))
		}
		if p.hasOut {
			ti.EgressPolicies = append(ti.EgressPolicies, types.PolicyIDToProto(p.id))
		}
	}
	out := intdataplane.VerifGroupTieredPolicy(selectors, []*proto.TierInfo{ti})
	if len(out) != 1 || out[0].Name != tr.name || out[0].DefaultAction != tr.defaultAction {
		panic(fmt.Sprintf("groupTieredPolicy returned %d tiers / changed name or default action", len(out)))
	}
	conv := func(real []*rules.PolicyGroup, input []*proto.PolicyID) ([]*ggroup, string) {
		var gs []*ggroup
		var implCoq []string
		for _, pg := range real {
			g := &ggroup{}
			var idx []string
			for _, id := range pg.Policies {
				i, ok := byID[*id]
				if !ok {
					panic("groupPolicies returned an unknown policy id")
				}
				g.pols = append(g.pols, pols[i])
				idx = append(idx, fmt.Sprint(i))
			}
			gs = append(gs, g)
			implCoq = append(implCoq, "["+strings.Join(idx, "; ")+"]")
		}
		var in []string
		for _, id := range input {
			pid := types.ProtoToPolicyID(id)
			in = append(in, fmt.Sprintf("(%d, %d)", selID[selectors[pid]], byID[pid]))
		}
		return gs, fmt.Sprintf("([%s], [%s])", strings.Join(in, "; "), strings.Join(implCoq, "; "))
	}
	var gi, ge string
	tr.groupsIn, gi = conv(out[0].IngressPolicies, ti.IngressPolicies)
	tr.groupsOut, ge = conv(out[0].EgressPolicies, ti.EgressPolicies)
	tr.realIn, tr.realOut = out[0].IngressPolicies, out[0].EgressPolicies
	tr.groupings = []string{gi, ge}
}

func genEndpoint(r *rng, u *universe, o *caseOpts) ([]*gtier, []*gprofile, []string) {
	var tags []string
	realTiers := 0
	nT := []int{0, 1, 1, 2, 2, 3, 3, 4}[r.intn(8)]
	var tiers []*gtier
	polN := 0
	big := r.chance(22)
	if big {
		tags = append(tags, "layout:big")
		if nT == 0 {
			nT = 1
		}
	}
	for t := 0; t < nT; t++ {
		tr := &gtier{name: fmt.Sprintf("tier%d", t), defaultAction: []string{"Deny", "Deny", "Pass", ""}[r.intn(4)]}
		nP := []int{0, 1, 1, 2, 2, 3, 4}[r.intn(7)]
		bigTier := big && (t == 0 || r.chance(50))
		if bigTier {
			nP = 6 + r.intn(7) // 6..12: crosses the return stride once or twice
			if r.chance(35) {
				nP = 11 + r.intn(2)
			}
		}
		var pols []*gpolicy
		mkKind := func(p *gpolicy, kindIdx int) {
			switch {
			case kindIdx < 4:
				p.id = types.PolicyID{Name: fmt.Sprintf("%s.pol%d", tr.name, polN), Kind: "GlobalNetworkPolicy"}
			case kindIdx < 6:
				p.id = types.PolicyID{Name: fmt.Sprintf("%s.pol%d", tr.name, polN), Namespace: "ns1", Kind: "NetworkPolicy"}
			case kindIdx < 7:
				p.id = types.PolicyID{Name: fmt.Sprintf("knp.default.pol%d-with-a-rather-long-name-to-force-hashing", polN), Namespace: "ns2", Kind: "KubernetesNetworkPolicy"}
			case kindIdx < 8:
				p.id = types.PolicyID{Name: fmt.Sprintf("%s.pol%d", tr.name, polN), Kind: "StagedGlobalNetworkPolicy"}
			case kindIdx < 9:
				p.id = types.PolicyID{Name: fmt.Sprintf("%s.pol%d", tr.name, polN), Namespace: "ns1", Kind: "StagedNetworkPolicy"}
			default:
				p.id = types.PolicyID{Name: fmt.Sprintf("pol%d", polN), Namespace: "ns1", Kind: "StagedKubernetesNetworkPolicy"}
			}
			p.staged = strings.HasPrefix(p.id.Kind, "Staged")
		}
		for k := 0; k < nP; k++ {
			p := &gpolicy{}
			polN++
			kindIdx := r.intn(10)
			if bigTier && kindIdx >= 7 && r.chance(60) {
				kindIdx = r.intn(7) // fewer staged policies in big tiers so that groups of enforced policies get long
			}
			mkKind(p, kindIdx)
			// policy types: both directions, ingress only, egress only
			switch d := r.intn(100); {
			case d < 46 || bigTier && d < 80:
				p.hasIn, p.hasOut = true, true
			case d < 73:
				p.hasIn = true
			default:
				p.hasOut = true
			}
			pols = append(pols, p)
		}
		// direction-asymmetric tiers: every policy that applies to direction D is staged while an enforced
		// policy applies to the other direction only (a staged trial policy next to an enforced one-way policy)
		if !bigTier && len(pols) >= 1 && r.chance(22) {
			dIn := r.chance(50) // D = ingress?
			for _, p := range pols {
				if dIn && p.hasIn || !dIn && p.hasOut {
					polN++
					mkKind(p, 7+r.intn(3))
				}
			}
			polN++
			q := &gpolicy{hasIn: !dIn, hasOut: dIn}
			mkKind(q, r.intn(7))
			{
				at := r.intn(len(pols) + 1)
				np := append([]*gpolicy{}, pols[:at]...)
				np = append(np, q)
				pols = append(np, pols[at:]...)
			}
			if r.chance(70) {
				// make sure direction D is not empty
				polN++
				s := &gpolicy{hasIn: dIn, hasOut: !dIn}
				mkKind(s, 7+r.intn(3))
				pols = append(pols, s)
			}
			tags = append(tags, "tier-layout:staged-only-one-direction+enforced-other")
		}
		for _, p := range pols {
			nr := []int{0, 1, 1, 2, 3}[r.intn(5)]
			if big {
				nr = []int{0, 1, 1, 1, 2}[r.intn(5)]
			}
			for i := 0; p.hasIn && i < nr; i++ {
				p.in = append(p.in, genRule(r, u, big, true))
			}
			nr2 := []int{0, 1, 1, 2, 3}[r.intn(5)]
			if big {
				nr2 = []int{0, 1, 1, 1, 2}[r.intn(5)]
			}
			for i := 0; p.hasOut && i < nr2; i++ {
				p.out = append(p.out, genRule(r, u, big, true))
			}
		}
		splitChance := 35
		if bigTier {
			splitChance = 7
		}
		group := func(inDir bool) []*ggroup {
			var out []*ggroup
			var cur *ggroup
			for _, p := range pols {
				if inDir && !p.hasIn || !inDir && !p.hasOut {
					continue
				}
				if cur == nil || r.chance(splitChance) {
					cur = &ggroup{}
					out = append(out, cur)
				}
				cur.pols = append(cur.pols, p)
			}
			if r.chance(4) {
				// a group with no policies at all (never produced by groupPolicies, tolerated by the renderer)
				out = append(out, &ggroup{})
			}
			return out
		}
		if r.chance(60) {
			realGroupTier(r, tr, pols, splitChance)
			realTiers++
		} else {
			tr.groupsIn, tr.groupsOut = group(true), group(false)
		}
		tiers = append(tiers, tr)
	}
	if realTiers > 0 {
		tags = append(tags, "groups:real-groupTieredPolicy")
	} else if len(tiers) > 0 {
		tags = append(tags, "groups:arbitrary-partition")
	}
	nPr := []int{0, 1, 1, 2, 3}[r.intn(5)]
	var profs []*gprofile
	for k := 0; k < nPr; k++ {
		pf := &gprofile{name: fmt.Sprintf("prof%d", k)}
		if r.chance(20) {
			pf.name = fmt.Sprintf("kns.a-namespace-with-a-long-name-%d", k)
		}
		for i, n := 0, r.intn(4); i < n; i++ {
			pf.in = append(pf.in, genRule(r, u, false, o.profilePass))
		}
		for i, n := 0, r.intn(4); i < n; i++ {
			pf.out = append(pf.out, genRule(r, u, false, o.profilePass))
		}
		profs = append(profs, pf)
	}
	return tiers, profs, tags
}

func protoRules(gs []*grule) []*proto.Rule {
	var out []*proto.Rule
	for _, g := range gs {
		out = append(out, g.toProto())
	}
	return out
}

func buildCase(r *rng, o *caseOpts, u *universe, tiers []*gtier, profs []*gprofile, w *setWorld, forcedPkts []packet) (ln *line, err error) {
	defer func() {
		if e := recover(); e != nil {
			err = fmt.Errorf("renderer panicked: %v", e)
		}
	}()
	mc := o.mc
	cfg := rules.Config{
		IPSetConfigV4:                  ipsets.NewIPVersionConfig(ipsets.IPFamilyV4, "cali", nil, nil),
		IPSetConfigV6:                  ipsets.NewIPVersionConfig(ipsets.IPFamilyV6, "cali", nil, nil),
		MarkAccept:                     mc.accept,
		MarkPass:                       mc.pass,
		MarkDrop:                       mc.drop,
		MarkScratch0:                   mc.s0,
		MarkScratch1:                   mc.s1,
		MarkEndpoint:                   mc.endpoint,
		FlowLogsEnabled:                o.flow,
		VXLANPort:                      4789,
		VXLANVNI:                       4096,
		AllowVXLANPacketsFromWorkloads: o.allowVXLAN,
		AllowIPIPPacketsFromWorkloads:  o.allowIPIP,
		DisableConntrackInvalid:        o.disableCtInvalid,
	}
	if o.reject {
		cfg.FilterDenyAction = "REJECT"
	}
	if o.filterAllowReturn {
		cfg.FilterAllowAction = "RETURN"
		cfg.MangleAllowAction = "RETURN"
	}
	renderer := rules.NewRenderer(cfg, o.nft)
	ver := o.ver

	// ---- the real objects
	dirPol := rules.PolicyDirectionInbound
	polPfx, profPfx := rules.PolicyInboundPfx, rules.ProfileInboundPfx
	if o.egress {
		dirPol = rules.PolicyDirectionOutbound
		polPfx, profPfx = rules.PolicyOutboundPfx, rules.ProfileOutboundPfx
	}
	var tpgs []rules.TierPolicyGroups
	type grp struct {
		g    *ggroup
		real *rules.PolicyGroup
	}
	var allGroups []grp
	for _, t := range tiers {
		// ONE TierPolicyGroups value per tier carrying both directions, as the dataplane passes it
		tpg := rules.TierPolicyGroups{Name: t.name, DefaultAction: t.defaultAction}
		mkGroup := func(g *ggroup, dir rules.PolicyDirection, k int) *rules.PolicyGroup {
			pg := &rules.PolicyGroup{Direction: dir, Selector: fmt.Sprintf("sel == '%s-%d'", t.name, k)}
			for _, p := range g.pols {
				id := p.id
				pg.Policies = append(pg.Policies, &id)
			}
			return pg
		}
		t.groups = t.groupsIn
		if o.egress {
			t.groups = t.groupsOut
		}
		for k, g := range t.groupsIn {
			pg := mkGroup(g, rules.PolicyDirectionInbound, k)
			if t.realIn != nil {
				pg = t.realIn[k]
			}
			tpg.IngressPolicies = append(tpg.IngressPolicies, pg)
			if !o.egress {
				allGroups = append(allGroups, grp{g, pg})
			}
		}
		for k, g := range t.groupsOut {
			pg := mkGroup(g, rules.PolicyDirectionOutbound, k)
			if t.realOut != nil {
				pg = t.realOut[k]
			}
			tpg.EgressPolicies = append(tpg.EgressPolicies, pg)
			if o.egress {
				allGroups = append(allGroups, grp{g, pg})
			}
		}
		tpgs = append(tpgs, tpg)
	}
	_ = dirPol
	var profIDs []string
	for _, pf := range profs {
		profIDs = append(profIDs, pf.name)
	}

	// ---- render with the real code
	in := &interner{m: map[string]string{}}
	type rchain struct {
		name  string
		rules []generictables.Rule
	}
	var impl []rchain
	var epChain *generictables.Chain
	failsafe := ""
	epm := rules.NewEndpointMarkMapper(mc.endpoint, mc.endpoint&(^mc.endpoint+1))
	switch o.kind {
	case "wl":
		cs := renderer.WorkloadEndpointToIptablesChains("cali1234", epm, o.adminUp, tpgs, profIDs, o.qos)
		if o.egress {
			epChain = cs[1]
		} else {
			epChain = cs[0]
		}
	case "hep":
		cs := renderer.HostEndpointToFilterChains("eth0", tpgs, tpgs, epm, profIDs)
		if o.egress {
			epChain = cs[0]
			failsafe = rules.ChainFailsafeOut
		} else {
			epChain = cs[1]
			failsafe = rules.ChainFailsafeIn
		}
	case "hep-raw":
		// raw table: untracked policy, no conntrack rules, allow = NOTRACK + return
		cs := renderer.HostEndpointToRawChains("eth0", tpgs)
		if o.egress {
			epChain = cs[0]
			failsafe = rules.ChainFailsafeOut
		} else {
			epChain = cs[1]
			failsafe = rules.ChainFailsafeIn
		}
	case "hep-mangle":
		// mangle table: pre-DNAT policy, ingress only
		cs := renderer.HostEndpointToMangleIngressChains("eth0", tpgs)
		epChain = cs[0]
		failsafe = rules.ChainFailsafeIn
	case "hep-fwd":
		// forward chains take the forwardTiers argument and render no profiles; the normal tiers are decoys
		cs := renderer.HostEndpointToFilterChains("eth0", nil, tpgs, epm, profIDs)
		if o.egress {
			epChain = cs[2]
		} else {
			epChain = cs[3]
		}
	default:
		return nil, fmt.Errorf("unknown endpoint kind %q", o.kind)
	}
	impl = append(impl, rchain{epChain.Name, epChain.Rules})
	for _, t := range tiers {
		for _, g := range t.groups {
			for _, p := range g.pols {
				id := p.id
				pol := &proto.Policy{InboundRules: protoRules(p.in), OutboundRules: protoRules(p.out), Tier: t.name,
					Untracked: o.kind == "hep-raw", PreDnat: o.kind == "hep-mangle"}
				chains := renderer.PolicyToIptablesChains(&id, pol, uint8(ver))
				want := rules.PolicyChainName(polPfx, &id, o.nft)
				for _, ch := range chains {
					if ch.Name == want {
						impl = append(impl, rchain{ch.Name, ch.Rules})
					}
				}
			}
		}
	}
	for _, g := range allGroups {
		if !g.real.ShouldBeInlined() {
			for _, ch := range renderer.PolicyGroupToIptablesChains(g.real) {
				impl = append(impl, rchain{ch.Name, ch.Rules})
			}
		}
	}
	for _, pf := range profs {
		id := types.ProfileID{Name: pf.name}
		inb, outb := renderer.ProfileToIptablesChains(&id, &proto.Profile{InboundRules: protoRules(pf.in), OutboundRules: protoRules(pf.out)}, uint8(ver))
		want := rules.ProfileChainName(profPfx, &id, o.nft)
		for _, ch := range []*generictables.Chain{inb, outb} {
			if ch.Name == want {
				impl = append(impl, rchain{ch.Name, ch.Rules})
			}
		}
	}
	if failsafe != "" {
		impl = append(impl, rchain{failsafe, nil}) // no failsafe ports configured
	}

	// ---- text -> abstract syntax
	ipsetCfg := cfg.IPSetConfigV4
	if ver == 6 {
		ipsetCfg = cfg.IPSetConfigV6
	}
	names := map[string]int{}
	for i := 0; i < u.nsets; i++ {
		nm := ipsetCfg.NameForMainIPSet(setID(i))
		if o.nft {
			nm = nftables.LegalizeSetName(nm)
		}
		names[nm] = i
	}
	feat := &environment.Features{}
	var implCoq []string
	texts := map[string][]string{}
	nRules := 0
	for ci, ch := range impl {
		var parsed []string
		for k := range ch.rules {
			var txt, a string
			var perr error
			if o.nft {
				txt = nftables.NewNFTRenderer("", uint8(ver)).Render("C", "", ch.rules[k], feat).Rule
				a, perr = parseNft(txt, ver, names, in)
			} else {
				txt = iptables.NewIptablesRenderer("").RenderAppend(&ch.rules[k], "C", "", feat)
				a, perr = parseIptables(txt, ver, names, in)
			}
			if perr != nil {
				return nil, fmt.Errorf("cannot parse rendered rule %q of chain %s: %v", txt, ch.name, perr)
			}
			if err2 := checkActionType(ch.rules[k].Action, a); err2 != nil {
				return nil, fmt.Errorf("rule %q: %v", txt, err2)
			}
			if ci == 0 || strings.HasPrefix(ch.name, "cali-gi-") || strings.HasPrefix(ch.name, "cali-go-") {
				texts[ch.name] = append(texts[ch.name], txt)
			}
			parsed = append(parsed, a)
			nRules++
		}
		implCoq = append(implCoq, fmt.Sprintf("(\"%s\", [%s])", in.get(ch.name), strings.Join(parsed, "; ")))
	}

	// ---- the endpoint as the model sees it (names as the real code computes them)
	dirRules := func(inb, outb []*grule) []*grule {
		if o.egress {
			return outb
		}
		return inb
	}
	var allRules []*grule
	nPol, nStaged, nGroupChains := 0, 0, 0
	maxNonStaged := 0
	tiersCoq := coqList(tiers, func(t *gtier) string {
		k := 0
		groups := coqList(t.groups, func(g *ggroup) string {
			var real *rules.PolicyGroup
			for _, ag := range allGroups {
				if ag.g == g {
					real = ag.real
				}
			}
			ns := 0
			pols := coqList(g.pols, func(p *gpolicy) string {
				id := p.id
				rs := dirRules(p.in, p.out)
				nPol++
				if p.staged {
					nStaged++
				} else {
					allRules = append(allRules, rs...)
					ns++
				}
				return fmt.Sprintf("MP \"%s\" %v %s", in.get(rules.PolicyChainName(polPfx, &id, o.nft)), p.staged, coqList(rs, (*grule).coq))
			})
			if ns > 1 {
				nGroupChains++
			}
			if ns > maxNonStaged {
				maxNonStaged = ns
			}
			k++
			return fmt.Sprintf("MG \"%s\" %s", in.get(real.ChainName()), pols)
		})
		def := "DefaultDeny"
		if t.defaultAction == "Pass" {
			def = "DefaultPass"
		}
		return fmt.Sprintf("MT %s %s", groups, def)
	})
	profsCoq := coqList(profs, func(pf *gprofile) string {
		id := types.ProfileID{Name: pf.name}
		rs := dirRules(pf.in, pf.out)
		allRules = append(allRules, rs...)
		return fmt.Sprintf("MF \"%s\" %s", in.get(rules.ProfileChainName(profPfx, &id, o.nft)), coqList(rs, (*grule).coq))
	})

	// ---- probe packets: one aimed at each rule (a sample when there are many), perturbations, randoms
	rndPkt := func() packet {
		p := packet{proto: u.protos[r.intn(len(u.protos))], src: u.addrs[r.intn(len(u.addrs))], dst: u.addrs[r.intn(len(u.addrs))],
			sport: []int{1000, 5000, 40000}[r.intn(3)], dport: u.ports[r.intn(len(u.ports))], ityp: []int{8, 0, 128, 3}[r.intn(4)], ct: "CtNew"}
		if r.chance(60) {
			p.proto = []int{6, 17}[r.intn(2)]
		}
		return p
	}
	genMark := func() uint32 {
		var m uint32
		for _, b := range []uint32{mc.s0, mc.s1, mc.accept, mc.pass} {
			if r.chance(35) {
				m |= b
			}
		}
		m |= uint32(r.next()) & mc.endpoint
		if r.chance(8) {
			m = uint32(r.next()) &^ mc.drop
		}
		return m
	}
	var pkts []packet
	seenP := map[string]bool{}
	addP := func(p packet) {
		p.mark = genMark()
		k := fmt.Sprintf("%d|%s|%s|%d|%d|%d|%s", p.proto, p.src, p.dst, p.sport, p.dport, p.ityp, p.ct)
		if !seenP[k] {
			seenP[k] = true
			pkts = append(pkts, p)
		}
	}
	const maxPkts = 40
	if forcedPkts != nil {
		pkts = forcedPkts
	} else {
		for _, p := range o.extraPkts {
			addP(p)
		}
		order := make([]int, len(allRules))
		for i := range order {
			order[i] = i
		}
		for i := len(order) - 1; i > 0; i-- {
			j := r.intn(i + 1)
			order[i], order[j] = order[j], order[i]
		}
		for _, ri := range order {
			if len(pkts) >= maxPkts-10 {
				break
			}
			g := allRules[ri]
			for try := 0; try < 60; try++ {
				p := rndPkt()
				if g.proto >= 0 {
					p.proto = g.proto
				}
				if g.matches(p, ver, w) {
					addP(p)
					// one perturbation of the aimed packet
					q := p
					switch r.intn(4) {
					case 0:
						q.src = u.addrs[r.intn(len(u.addrs))]
					case 1:
						q.dst = u.addrs[r.intn(len(u.addrs))]
					case 2:
						q.dport = u.ports[r.intn(len(u.ports))]
					default:
						q.proto = u.protos[r.intn(len(u.protos))]
					}
					addP(q)
					break
				}
			}
		}
		for len(pkts) < maxPkts-4 && len(pkts) < 12+len(allRules)*2 {
			addP(rndPkt())
		}
		// conntrack states and the encapsulations workloads may not send
		for _, ct := range []string{"CtEstablished", "CtRelated", "CtInvalid", "CtUntracked"} {
			if r.chance(50) {
				p := rndPkt()
				p.ct = ct
				addP(p)
			}
		}
		{
			p := rndPkt()
			p.proto, p.dport = 17, 4789
			addP(p)
			p = rndPkt()
			p.proto = 4
			addP(p)
		}
	}

	// ---- emit
	fl, dk := "Iptables", "DenyDrop"
	if o.nft {
		fl = "Nft"
	}
	if o.reject {
		dk = "DenyReject"
	}
	cfgCoq := fmt.Sprintf("(Build_cfg %s %d %d %d %d %d %v %v %s false false)", fl, mc.accept, mc.pass, mc.drop, mc.s0, mc.s1, o.flow, o.kind == "hep-raw", dk)
	fs := "None"
	if failsafe != "" {
		fs = fmt.Sprintf("(Some \"%s\")", in.get(failsafe))
	}
	allow := "AllowAccept"
	if o.filterAllowReturn && o.kind != "hep-raw" {
		allow = "AllowReturn" // FilterAllowAction / MangleAllowAction = RETURN; the raw chains always use ACCEPT
	}
	vx, ipip := "None", false
	if o.kind == "wl" && o.egress {
		if !o.allowVXLAN {
			vx = "(Some 4789)"
		}
		ipip = !o.allowIPIP
	}
	adminUp := o.adminUp || o.kind != "wl"
	ctype := map[string]string{"hep-fwd": "TForward", "hep-raw": "TUntracked", "hep-mangle": "TPreDNAT"}[o.kind]
	if ctype == "" {
		ctype = "TNormal"
	}
	qosRate, qosConn := false, false
	if o.kind == "wl" && o.qos != nil {
		if o.egress {
			qosRate, qosConn = o.qos.EgressPacketRate != 0, o.qos.EgressMaxConnections != 0
		} else {
			qosRate, qosConn = o.qos.IngressPacketRate != 0, o.qos.IngressMaxConnections != 0
		}
	}
	ecCoq := fmt.Sprintf("(Build_ecfg "+ctype+" %v %s %s %v %s %v %v %v %v)", adminUp, fs, allow, !o.disableCtInvalid, vx, ipip, qosRate, qosConn, treeProfileFix)
	var setsCoq []string
	for id := range w.sets {
		setsCoq = append(setsCoq, fmt.Sprintf("(%d, %s)", id, coqList(w.sets[id], member.coq)))
	}
	vc := "V4"
	if ver == 6 {
		vc = "V6"
	}
	var groupings []string
	for _, t := range tiers {
		groupings = append(groupings, t.groupings...)
	}
	coq := fmt.Sprintf("(Build_case %s %s %s \"%s\" %s %s [%s] [%s] %s [%s])%%N",
		cfgCoq, ecCoq, vc, in.get(epChain.Name), tiersCoq, profsCoq, strings.Join(setsCoq, "; "), strings.Join(implCoq, "; "),
		coqList(pkts, func(p packet) string { return p.coq(ver) }), strings.Join(groupings, "; "))

	dir := "ingress"
	if o.egress {
		dir = "egress"
	}
	tags := []string{"flavor:" + strings.ToLower(fl), fmt.Sprintf("ipv%d", ver), "endpoint:" + o.kind, "dir:" + dir,
		fmt.Sprintf("tiers:%d", len(tiers)), fmt.Sprintf("profiles:%d", len(profs)), fmt.Sprintf("flowlogs:%v", o.flow),
		fmt.Sprintf("groupchains:%d", min(nGroupChains, 3)), fmt.Sprintf("allow-action-return:%v", o.filterAllowReturn)}
	switch {
	case maxNonStaged > 10:
		tags = append(tags, "group-size:>10 (two return rules)")
	case maxNonStaged > 5:
		tags = append(tags, "group-size:6-10 (one return rule)")
	case maxNonStaged > 1:
		tags = append(tags, "group-size:2-5")
	default:
		tags = append(tags, "group-size:<=1 (inline only)")
	}
	if nStaged > 0 {
		tags = append(tags, "has-staged")
	}
	if qosRate {
		tags = append(tags, "qos:packet-rate")
	}
	if qosConn {
		tags = append(tags, "qos:connection-limit")
	}
	enforcedIn := func(gs []*ggroup) (n, enf int) {
		for _, g := range gs {
			for _, p := range g.pols {
				n++
				if !p.staged {
					enf++
				}
			}
		}
		return
	}
	for _, t := range tiers {
		other := t.groupsOut
		if o.egress {
			other = t.groupsIn
		}
		n, enf := enforcedIn(t.groups)
		_, enfO := enforcedIn(other)
		switch {
		case len(t.groups) > 0 && enf == 0 && enfO > 0:
			tags = append(tags, "tier:all-staged-this-direction+enforced-other-direction")
		case n == 0 && enfO > 0:
			tags = append(tags, "tier:empty-this-direction+enforced-other-direction")
		case enf > 0 && enfO == 0:
			tags = append(tags, "tier:enforced-this-direction-only")
		}
	}
	if !adminUp {
		tags = append(tags, "admin-down")
	}
	for _, t := range tiers {
		if t.defaultAction == "Pass" {
			tags = append(tags, "tier-default-pass")
			break
		}
	}
	if o.profilePass {
		for _, pf := range profs {
			for _, g := range dirRules(pf.in, pf.out) {
				if g.action == "pass" || g.action == "next-tier" {
					tags = append(tags, "profile-has-pass-rule")
				}
			}
		}
	}
	if treeProfileFix {
		tags = append(tags, "variant:profile-pass-fixed")
	} else {
		tags = append(tags, "variant:profile-pass-unfixed")
	}
	sort.Strings(tags)
	tags = dedup(tags)
	sample := map[string]any{"flavor": fl, "ipver": ver, "endpoint": o.kind, "direction": dir, "policies": nPol, "staged": nStaged,
		"chains": len(impl), "rendered_rules": nRules, "packets": len(pkts), "endpoint_and_group_chains": texts, "chain_names": in.real}
	return &line{Coq: coq, NT: nPol-nStaged >= 2 && len(pkts) >= 10,
		Key: fmt.Sprintf("%s|%s|%s|%s|%s", cfgCoq, ecCoq, vc, tiersCoq, profsCoq), Sample: sample, Tags: tags}, nil
}

func dedup(xs []string) []string {
	var out []string
	for i, x := range xs {
		if i == 0 || xs[i-1] != x {
			out = append(out, x)
		}
	}
	return out
}

// the action struct must agree with what its rendered fragment was parsed as
func checkActionType(a generictables.Action, parsed string) error {
	want := ""
	switch a.(type) {
	case nil:
		want = "ANone"
	case iptables.ReturnAction, nftables.ReturnAction:
		want = "AReturn"
	case iptables.DropAction, nftables.DropAction:
		want = "ADrop"
	case iptables.RejectAction, nftables.RejectAction:
		want = "AReject"
	case iptables.AcceptAction, nftables.AcceptAction:
		want = "AAccept"
	case iptables.LogAction, nftables.LogAction:
		want = "ALog"
	case iptables.NflogAction, nftables.NflogAction:
		want = "ANflog"
	case iptables.NoTrackAction, nftables.NoTrackAction:
		want = "ANoTrack"
	case iptables.JumpAction, nftables.JumpAction, *iptables.JumpAction, *nftables.JumpAction:
		want = "(AJump"
	case iptables.GotoAction, nftables.GotoAction, *iptables.GotoAction, *nftables.GotoAction:
		want = "(AGoto"
	case iptables.LimitPacketRateAction:
		want = "(AMark"
	case nftables.LimitPacketRateAction:
		want = "ADrop"
	case iptables.LimitNumConnectionsAction, nftables.LimitNumConnectionsAction:
		want = "AReject"
	case iptables.SetMarkAction, nftables.SetMarkAction, iptables.ClearMarkAction, nftables.ClearMarkAction,
		iptables.SetMaskedMarkAction, nftables.SetMaskedMarkAction:
		want = "(AMark"
	default:
		return fmt.Errorf("unexpected action type %T", a)
	}
	if !strings.HasSuffix(parsed, want+")") && !strings.Contains(parsed, "] "+want) {
		return fmt.Errorf("action struct %T rendered as something parsed to %s", a, parsed)
	}
	return nil
}

// treeProfileFix: does the tree under test clear the pass mark at the head of a profile chain that holds a Pass
// rule (fixes/C09-profile-pass-mark.patch)?  Probed once from the real renderer; selects the model variant.
var treeProfileFix bool

func probeProfileVariant() (bool, error) {
	mc := markCfgs[0]
	cfg := rules.Config{
		IPSetConfigV4: ipsets.NewIPVersionConfig(ipsets.IPFamilyV4, "cali", nil, nil),
		IPSetConfigV6: ipsets.NewIPVersionConfig(ipsets.IPFamilyV6, "cali", nil, nil),
		MarkAccept:    mc.accept, MarkPass: mc.pass, MarkDrop: mc.drop,
		MarkScratch0: mc.s0, MarkScratch1: mc.s1, MarkEndpoint: mc.endpoint,
	}
	udp := &proto.Protocol{NumberOrName: &proto.Protocol_Number{Number: 17}}
	inb, _ := rules.NewRenderer(cfg, false).ProfileToIptablesChains(&types.ProfileID{Name: "probe"},
		&proto.Profile{InboundRules: []*proto.Rule{{Action: "pass", Protocol: udp}, {Action: "allow"}}}, 4)
	clear := fmt.Sprintf("--jump MARK --set-mark 0/%#x", mc.pass)
	var txt []string
	for k := range inb.Rules {
		txt = append(txt, iptables.NewIptablesRenderer("").RenderAppend(&inb.Rules[k], "C", "", &environment.Features{}))
	}
	switch {
	case len(txt) == 3 && !strings.HasSuffix(txt[0], clear):
		return false, nil
	case len(txt) == 4 && strings.HasSuffix(txt[0], clear):
		return true, nil
	}
	return false, fmt.Errorf("cannot tell the profile-pass variant of this tree: %q", txt)
}

// the minimal witness of the profile-pass defect: a tier that passes everything, a profile [pass udp; allow],
// a TCP packet (allowed by the reference)
func corpusProfilePass(r *rng, nft bool) (*line, error) {
	o := &caseOpts{ver: 4, nft: nft, mc: markCfgs[0], kind: "wl", adminUp: true, allowVXLAN: true, allowIPIP: true, profilePass: true}
	u := newUniverse(4)
	w := &setWorld{sets: make([][]member, u.nsets)}
	passAll := &grule{action: "pass", proto: -1, notProto: -1, icmpType: -1}
	passUDP := &grule{action: "pass", proto: 17, notProto: -1, icmpType: -1}
	allow := &grule{action: "allow", proto: -1, notProto: -1, icmpType: -1}
	tiers := []*gtier{{name: "tier0", defaultAction: "Deny", groups: []*ggroup{{pols: []*gpolicy{{
		id: types.PolicyID{Name: "tier0.pass-all", Kind: "GlobalNetworkPolicy"}, in: []*grule{passAll}, out: []*grule{passAll}}}}}}}
	profs := []*gprofile{{name: "prof0", in: []*grule{passUDP, allow}, out: []*grule{passUDP, allow}}}
	pk := packet{proto: 6, src: u.addrs[0], dst: u.addrs[1], sport: 1000, dport: 80, ct: "CtNew"}
	pk2 := pk
	pk2.proto = 17
	c, err := buildCase(r, o, u, tiers, profs, w, []packet{pk, pk2})
	if err != nil {
		return nil, err
	}
	c.Tags = append(c.Tags, "corpus:profile-pass-after-tier-pass")
	return c, nil
}

// genStrideConflict: a layout aimed at the RETURN stride of group chains.  One tier holds one long group of
// 11..17 enforced policies (staged ones interleaved); a chosen packet first matches an allow/pass rule in enforced
// policy a (in the second or third block of five) and a rule with a CONFLICTING action in the first policy of a
// later block (enforced position 11 or 16); every other policy of the group does not match the packet.  A group
// chain that evaluates a policy of a later block after a verdict gives the wrong answer on that packet.
func genStrideConflict(r *rng, u *universe, o *caseOpts) ([]*gtier, []*gprofile, []string) {
	nEnf := 11 + r.intn(7) // 11..17
	later := 11            // enforced position (1-based) of the conflicting policy: first of the third block ...
	if nEnf >= 16 && r.chance(75) {
		later = 16 // ... or of the fourth
	}
	first := later - 5 + r.intn(5) // 6..10 or 11..15: in the block before
	if later == 16 && r.chance(30) {
		first = 6 + r.intn(5) // two blocks before
	}
	firstAct := []string{"allow", "pass", "next-tier", "pass"}[r.intn(4)]
	laterAct := "deny"
	if firstAct != "allow" && r.chance(50) {
		laterAct = "allow"
	}
	ports := []int{80, 443, 8080, 53}
	hit := ports[r.intn(len(ports))]
	pk := packet{proto: 6, src: u.addrs[r.intn(len(u.addrs))], dst: u.addrs[r.intn(len(u.addrs))], sport: 1000, dport: hit, ct: "CtNew"}
	mkRule := func(action string, port int) *grule {
		return &grule{action: action, proto: 6, protoByName: r.chance(50), notProto: -1, icmpType: -1, dstPorts: []prange{{port, port}}}
	}
	miss := func() *grule {
		for {
			q := ports[r.intn(len(ports))]
			if q != hit {
				return mkRule([]string{"allow", "deny", "pass", "log"}[r.intn(4)], q)
			}
		}
	}
	tr := &gtier{name: "tier0", defaultAction: []string{"Deny", "Pass", ""}[r.intn(3)]}
	g := &ggroup{}
	polN := 0
	addPol := func(staged bool, rule *grule) {
		polN++
		p := &gpolicy{hasIn: true, hasOut: true, staged: staged}
		kind := []string{"GlobalNetworkPolicy", "NetworkPolicy"}[r.intn(2)]
		if staged {
			kind = "Staged" + kind
		}
		p.id = types.PolicyID{Name: fmt.Sprintf("tier0.sp%d", polN), Kind: kind}
		if strings.HasSuffix(kind, "NetworkPolicy") && !strings.Contains(kind, "Global") {
			p.id.Namespace = "ns1"
		}
		p.in, p.out = []*grule{rule}, []*grule{rule}
		g.pols = append(g.pols, p)
	}
	for k := 1; k <= nEnf; k++ {
		for r.chance(20) {
			// a staged policy in between; it may match the packet with any action: it must not count
			addPol(true, mkRule([]string{"allow", "deny", "pass"}[r.intn(3)], hit))
		}
		switch k {
		case first:
			addPol(false, mkRule(firstAct, hit))
		case later:
			addPol(false, mkRule(laterAct, hit))
		default:
			addPol(false, miss())
		}
	}
	tr.groupsIn, tr.groupsOut = []*ggroup{g}, []*ggroup{g}
	tiers := []*gtier{tr}
	if r.chance(50) {
		// a second tier and a profile that decide the other way once the first tier passes
		t2 := &gtier{name: "tier1", defaultAction: "Deny"}
		g2 := &ggroup{}
		p2 := &gpolicy{hasIn: true, hasOut: true, id: types.PolicyID{Name: "tier1.after", Kind: "GlobalNetworkPolicy"}}
		p2.in, p2.out = []*grule{mkRule("deny", hit)}, []*grule{mkRule("deny", hit)}
		g2.pols = []*gpolicy{p2}
		t2.groupsIn, t2.groupsOut = []*ggroup{g2}, []*ggroup{g2}
		tiers = append(tiers, t2)
	}
	var profs []*gprofile
	if r.chance(60) {
		profs = []*gprofile{{name: "prof0", in: []*grule{mkRule("deny", hit)}, out: []*grule{mkRule("deny", hit)}}}
	}
	pk2 := pk
	pk2.dport = ports[(r.intn(3)+1+indexOf(ports, hit))%len(ports)]
	o.extraPkts = []packet{pk, pk2}
	return tiers, profs, []string{"layout:stride-conflict", fmt.Sprintf("stride-conflict:first-verdict-at-%d-conflict-at-%d", first, later),
		"stride-conflict:" + firstAct + "-then-" + laterAct}
}

func indexOf(xs []int, x int) int {
	for i, y := range xs {
		if y == x {
			return i
		}
	}
	return 0
}

func main() {
	n := flag.Int("n", 100, "cases")
	seed := flag.Uint64("seed", 1, "seed")
	flag.Parse()
	logrus.SetLevel(logrus.PanicLevel)
	logrus.SetOutput(devNull{})
	r := &rng{s: *seed*0x2545F4914F6CDD1D + 0xC09}
	enc := json.NewEncoder(os.Stdout)
	stats := map[string]int{}
	fail := func(err error) {
		fmt.Fprintf(os.Stderr, "C09 driver: %v\n", err)
		os.Exit(3)
	}
	var perr error
	if treeProfileFix, perr = probeProfileVariant(); perr != nil {
		fail(perr)
	}
	for _, nft := range []bool{false, true} {
		c, err := corpusProfilePass(r, nft)
		if err != nil {
			fail(err)
		}
		_ = enc.Encode(c)
	}
	for i := 0; i < *n; i++ {
		o := &caseOpts{ver: 4, nft: i%2 == 1, mc: markCfgs[r.intn(len(markCfgs))], flow: r.chance(50), reject: r.chance(25),
			kind: "wl", egress: r.chance(50), adminUp: !r.chance(4), allowVXLAN: r.chance(40), allowIPIP: r.chance(40),
			filterAllowReturn: r.chance(25), disableCtInvalid: r.chance(20), profilePass: r.chance(30)}
		if r.chance(35) {
			o.ver = 6
		}
		if k := r.intn(100); k < 18 {
			o.kind = "hep"
		} else if k < 30 {
			o.kind = "hep-fwd"
		} else if k < 38 {
			o.kind = "hep-raw"
		} else if k < 45 {
			o.kind = "hep-mangle"
			o.egress = false
		}
		if o.kind == "wl" && r.chance(35) {
			q := &proto.QoSControls{}
			if r.chance(60) {
				q.IngressPacketRate, q.IngressPacketBurst = int64(1+r.intn(1000)), int64(1+r.intn(50))
			}
			if r.chance(60) {
				q.EgressPacketRate, q.EgressPacketBurst = int64(1+r.intn(1000)), int64(1+r.intn(50))
			}
			if r.chance(50) {
				q.IngressMaxConnections = int64(1 + r.intn(100))
			}
			if r.chance(50) {
				q.EgressMaxConnections = int64(1 + r.intn(100))
			}
			o.qos = q
		}
		u := newUniverse(o.ver)
		w := genSets(r, u)
		var tiers []*gtier
		var profs []*gprofile
		var tags []string
		if r.chance(14) {
			tiers, profs, tags = genStrideConflict(r, u, o)
		} else {
			tiers, profs, tags = genEndpoint(r, u, o)
		}
		if o.kind == "hep-fwd" || o.kind == "hep-raw" || o.kind == "hep-mangle" {
			profs = nil // these chains render no profile jumps; no profile chains are programmed for them here
		}
		c, err := buildCase(r, o, u, tiers, profs, w, nil)
		if err != nil {
			fail(err)
		}
		c.Tags = append(c.Tags, tags...)
		stats["cases"]++
		_ = enc.Encode(c)
		// the other direction of the same endpoint, rendered from the same TierPolicyGroups values
		if o.kind != "hep-mangle" && r.chance(30) {
			o.egress = !o.egress
			c2, err := buildCase(r, o, u, tiers, profs, w, nil)
			if err != nil {
				fail(err)
			}
			c2.Tags = append(c2.Tags, tags...)
			c2.Tags = append(c2.Tags, "second-direction-of-same-endpoint")
			stats["cases"]++
			_ = enc.Encode(c2)
		}
	}
	_ = enc.Encode(map[string]any{"stats": stats})
}
