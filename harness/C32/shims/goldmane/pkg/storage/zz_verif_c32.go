//go:build verif

package storage

// Add-only accessors for the C32 correspondence driver (never compiled without the verif tag).

// VerifFindBucket reports whether findBucket accepts t and the start time of the bucket it chose.
func (r *BucketRing) VerifFindBucket(t int64) (bool, int64) {
	_, b := r.findBucket(t)
	if b == nil {
		return false, 0
	}
	return true, b.StartTime
}

// VerifPushed returns the head index and the pushed flag of every ring slot.
func (r *BucketRing) VerifPushed() (int, []bool) {
	p := make([]bool, len(r.buckets))
	for i, b := range r.buckets {
		p[i] = b.pushed
	}
	return r.headIndex, p
}
