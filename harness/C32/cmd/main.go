//go:build verif

// C32 correspondence driver: runs the real goldmane/pkg/storage.BucketRing on generated interleavings of flow
// ingestion (incl. late and future-dated flows), rollovers (with and without a sink), sink attachment and
// List/Statistics queries, and prints one JSON line per case carrying the case as a Coq term.
package main

import (
	"encoding/json"
	"flag"
	"fmt"
	"io"
	"os"
	"sort"
	"strings"
	"unique"

	"github.com/sirupsen/logrus"

	"github.com/projectcalico/calico/goldmane/pkg/storage"
	"github.com/projectcalico/calico/goldmane/pkg/types"
	"github.com/projectcalico/calico/goldmane/proto"
	"github.com/projectcalico/calico/lib/std/time"
)

type rng struct{ s uint64 }

func (r *rng) next() uint64 {
	r.s += 0x9e3779b97f4a7c15
	z := r.s
	z = (z ^ (z >> 30)) * 0xbf58476d1ce4e5b9
	z = (z ^ (z >> 27)) * 0x94d049bb133111eb
	return z ^ (z >> 31)
}
func (r *rng) intn(n int) int { return int(r.next() % uint64(n)) }

type line struct {
	Coq    string         `json:"coq"`
	NT     bool           `json:"nt"`
	Key    string         `json:"key"`
	Sample map[string]any `json:"sample,omitempty"`
	Tags   []string       `json:"tags"`
}

const numKeys = 6

var keys [numKeys]*types.FlowKey

func init() {
	for i := 0; i < numKeys; i++ {
		keys[i] = types.NewFlowKey(
			&types.FlowKeySource{SourceName: fmt.Sprintf("s%d", i), SourceNamespace: "ns", SourceType: proto.EndpointType_WorkloadEndpoint},
			&types.FlowKeyDestination{DestName: "d", DestNamespace: "ns", DestType: proto.EndpointType_WorkloadEndpoint, DestPort: 80},
			&types.FlowKeyMeta{Proto: "tcp", Reporter: proto.Reporter_Dst, Action: proto.Action_Allow},
			&proto.PolicyTrace{EnforcedPolicies: []*proto.PolicyHit{{
				Kind: proto.PolicyKind_CalicoNetworkPolicy, Namespace: "ns", Name: fmt.Sprintf("p%d", i%3), Tier: "default",
				Action: proto.Action_Allow,
			}}},
		)
	}
}

func keyIndex(k *types.FlowKey) int {
	var i int
	fmt.Sscanf(k.SourceName(), "s%d", &i)
	return i
}

type noStreams struct{}

func (noStreams) Receive(storage.FlowProvider, string) {}

type coll struct {
	s, e  int64
	flows []types.Flow
}
type sink struct{ got []coll }

func (s *sink) Receive(c *storage.FlowCollection) {
	fl := make([]types.Flow, len(c.Flows))
	copy(fl, c.Flows)
	s.got = append(s.got, coll{c.StartTime, c.EndTime, fl})
}

func z(v int64) string {
	if v < 0 {
		return fmt.Sprintf("(%d)%%Z", v)
	}
	return fmt.Sprintf("%d%%Z", v)
}

func aflow(f *types.Flow) (int, string) {
	k := keyIndex(f.Key)
	return k, fmt.Sprintf("{| a_key := %d%%N; a_cnt := (%s, %s); a_start := %s; a_end := %s |}", k, z(f.PacketsIn), z(f.BytesIn), z(f.StartTime), z(f.EndTime))
}

func aflows(fs []*types.Flow) (string, bool) {
	type kv struct {
		k int
		s string
	}
	var l []kv
	phantom := false
	for _, f := range fs {
		k, s := aflow(f)
		if f.StartTime == 0 && f.PacketsIn == 0 {
			phantom = true
		}
		l = append(l, kv{k, s})
	}
	sort.SliceStable(l, func(i, j int) bool { return l[i].k < l[j].k })
	ss := make([]string, len(l))
	for i := range l {
		ss[i] = l[i].s
	}
	return "[" + strings.Join(ss, "; ") + "]", phantom
}

// walkDiverges replays the index arithmetic of EmitFlowCollections' backward walk on the pushed flags and says
// whether it would still be running after 2n+4 windows (the real loop would then never stop: it only appends).
func walkDiverges(n, head, p, k int, pushed []bool) bool {
	if fixWalk {
		// with the repair the walk stops at the head at the latest; the model's fuel covers it
		return false
	}
	sub := func(i, m int) int { return ((i-m)%n + n) % n }
	between := func(s, e, t int) bool {
		if s == e {
			return false
		}
		if s < e {
			return t > s && t < e
		}
		return t > s || t < e
	}
	e := sub(sub(head, 1), p)
	s := sub(e, k)
	for i := 0; i < 2*n+4; i++ {
		if pushed[s] {
			return false
		}
		e = s
		s = sub(s, k)
		if between(s, e, head) {
			return false
		}
	}
	return true
}

var fixWalk, fixAgg bool

// probe asks the real code which of the two repairs (fixes/C32-*.patch) the tree under test carries.
func probe() {
	now := int64(1000)
	ring := storage.NewBucketRing(7, 10, now, storage.WithPushAfter(0), storage.WithBucketsToAggregate(2),
		storage.WithStreamReceiver(noStreams{}), storage.WithNowFunc(func() time.Time { return time.Unix(now, 0) }))
	ring.AddFlow(&types.Flow{Key: keys[0], StartTime: 985, EndTime: 985, PacketsIn: 1, SourceLabels: unique.Make(""), DestLabels: unique.Make("")})
	s := &sink{}
	ring.EmitFlowCollections(s)
	fixWalk = len(s.got) == 1
	d := storage.NewDiachronicFlow(keys[0], 1)
	d.AddFlow(&types.Flow{Key: keys[0], StartTime: 103, PacketsIn: 1, SourceLabels: unique.Make(""), DestLabels: unique.Make("")}, 100, 110)
	fixAgg = d.Aggregate(100, 105) == nil
}

func main() {
	n := flag.Int("n", 100, "cases")
	seed := flag.Uint64("seed", 1, "seed")
	flag.Parse()
	logrus.SetOutput(io.Discard)
	logrus.SetLevel(logrus.PanicLevel)
	probe()
	r := &rng{s: *seed}
	enc := json.NewEncoder(os.Stdout)
	for i := 0; i < *n; i++ {
		genCase(r, enc, i)
	}
}

func genCase(r *rng, enc *json.Encoder, ci int) {
	nb := 4 + r.intn(12)
	interval := []int{1, 5, 15, 60}[r.intn(4)]
	// configuration: pushAfter + bucketsToAggregate + 2 <= nb
	var k, p int
	aligned := false
	for {
		k = 1 + r.intn(nb-2)
		if nb-2-k < 0 {
			continue
		}
		p = r.intn(nb - 2 - k + 1)
		aligned = (nb-1-p)%k == 0
		// exact alignment of the walk with the head is its own (small) stream: 1 case in 8
		if aligned == (ci%8 == 7) {
			break
		}
	}
	now := int64(1700000000 + r.intn(100000))
	alignedNow := r.intn(3) != 0
	if alignedNow {
		now -= now % int64(interval)
	}
	unalignedQueries := ci%3 == 0
	tags := []string{fmt.Sprintf("interval:%d", interval)}
	if aligned {
		tags = append(tags, "cfg:walk-aligned-with-head")
	}
	if unalignedQueries {
		tags = append(tags, "queries:unaligned")
	} else {
		tags = append(tags, "queries:bucket-aligned")
	}

	ring := storage.NewBucketRing(nb, interval, now,
		storage.WithPushAfter(p), storage.WithBucketsToAggregate(k), storage.WithStreamReceiver(noStreams{}),
		storage.WithNowFunc(func() time.Time { return time.Unix(now, 0) }))
	snk := &sink{}
	eoh := now + 2*int64(interval)
	iv := int64(interval)
	span := int64(nb) * iv

	var ops, outs, sample []string
	nops := 10 + r.intn(35)
	attached := false
	late, future, rejected, accepted, rolls, emittedN, diverged, phantom := 0, 0, 0, 0, 0, 0, false, false
	statErr := 0

	pickTime := func() int64 {
		boh := eoh - span
		switch r.intn(12) {
		case 0:
			return boh - 1 - int64(r.intn(2*interval)) // too old
		case 1:
			return eoh + int64(r.intn(2*interval)) // too far in the future
		case 2:
			return boh // oldest instant kept
		case 3:
			return eoh - 1 // last instant of the future bucket
		case 4:
			return eoh - iv + int64(r.intn(interval)) // future bucket
		case 5, 6:
			return boh + int64(r.intn(int(span))) // anywhere (late)
		case 7:
			return eoh - iv*int64(1+r.intn(nb)) // a bucket boundary
		default:
			return eoh - 2*iv + int64(r.intn(interval)) // the "now" bucket
		}
	}
	pickBound := func() int64 {
		boh := eoh - span
		if r.intn(5) == 0 {
			return 0
		}
		if r.intn(12) == 0 {
			return boh - iv*int64(r.intn(3)) - int64(r.intn(interval)) - 1
		}
		if r.intn(12) == 0 {
			return eoh + iv*int64(r.intn(2))
		}
		t := eoh - iv*int64(r.intn(nb+1))
		if t == boh-0 && r.intn(2) == 0 {
			t = boh
		}
		if unalignedQueries && r.intn(2) == 0 && interval > 1 {
			t = boh + int64(r.intn(int(span)))
		}
		return t
	}
	emitOut := func(before int) string {
		var cs []string
		for _, c := range snk.got[before:] {
			fp := make([]*types.Flow, len(c.flows))
			for j := range c.flows {
				fp[j] = &c.flows[j]
			}
			fl, _ := aflows(fp)
			cs = append(cs, fmt.Sprintf("(%s, %s, %s)", z(c.s), z(c.e), fl))
			emittedN++
		}
		return "OEmitted [" + strings.Join(cs, "; ") + "]"
	}

	for j := 0; j < nops; j++ {
		switch c := r.intn(20); {
		case c < 9: // ingest
			ki := r.intn(numKeys)
			if r.intn(3) == 0 {
				ki = r.intn(2)
			}
			t := pickTime()
			pk := int64(1 + r.intn(9))
			by := int64(40 + r.intn(1500))
			f := &types.Flow{Key: keys[ki], StartTime: t, EndTime: t + int64(r.intn(interval+1)),
				SourceLabels: unique.Make("a=b"), DestLabels: unique.Make("c=d"),
				PacketsIn: pk, BytesIn: by, PacketsOut: int64(r.intn(5)), BytesOut: int64(r.intn(500)), NumConnectionsLive: 1}
			ok, bs := ring.VerifFindBucket(t)
			ring.AddFlow(f)
			ops = append(ops, fmt.Sprintf("OpAdd {| f_key := %d%%N; f_start := %s; f_cnt := (%s, %s) |}", ki, z(t), z(pk), z(by)))
			if ok {
				outs = append(outs, fmt.Sprintf("OAdd (Some %s)", z(bs)))
				accepted++
				if t < eoh-2*iv {
					late++
				}
				if t >= eoh-iv {
					future++
				}
			} else {
				outs = append(outs, "OAdd None")
				rejected++
			}
		case c < 13: // rollover
			withSink := attached
			if r.intn(10) == 0 {
				withSink = !withSink // not what goldmane does, but the ring allows it
			}
			rolls++
			if withSink {
				head, pushed := ring.VerifPushed()
				h2 := (head + 1) % nb
				pushed[h2] = false
				ops = append(ops, "OpRollover true")
				if walkDiverges(nb, h2, p, k, pushed) {
					ring.Rollover(nil)
					outs = append(outs, "ODiverge")
					diverged = true
				} else {
					before := len(snk.got)
					ring.Rollover(snk)
					outs = append(outs, emitOut(before))
				}
			} else {
				ring.Rollover(nil)
				ops = append(ops, "OpRollover false")
				outs = append(outs, "OEmitted []")
			}
			eoh += iv
		case c < 15: // sink attach (goldmane: a.sink = s; EmitFlowCollections(s))
			attached = true
			head, pushed := ring.VerifPushed()
			ops = append(ops, "OpEmit")
			if walkDiverges(nb, head, p, k, pushed) {
				outs = append(outs, "ODiverge")
				diverged = true
			} else {
				before := len(snk.got)
				ring.EmitFlowCollections(snk)
				outs = append(outs, emitOut(before))
			}
		case c < 18: // List
			gte, lt := pickBound(), pickBound()
			if gte != 0 && lt != 0 && gte >= lt && r.intn(8) != 0 {
				gte, lt = lt, gte
			}
			fl, _, err := ring.List(&proto.FlowListRequest{StartTimeGte: gte, StartTimeLt: lt})
			if err != nil {
				panic(err)
			}
			s, ph := aflows(fl)
			phantom = phantom || ph
			ops = append(ops, fmt.Sprintf("OpList %s %s", z(gte), z(lt)))
			outs = append(outs, "OList "+s)
		default: // Statistics
			gte, lt := pickBound(), pickBound()
			if gte != 0 && lt != 0 && gte >= lt && r.intn(8) != 0 {
				gte, lt = lt, gte
			}
			ops = append(ops, fmt.Sprintf("OpStats %s %s", z(gte), z(lt)))
			pkts, err1 := ring.Statistics(&proto.StatisticsRequest{StartTimeGte: gte, StartTimeLt: lt, Type: proto.StatisticType_PacketCount, GroupBy: proto.StatisticsGroupBy_Policy})
			byts, err2 := ring.Statistics(&proto.StatisticsRequest{StartTimeGte: gte, StartTimeLt: lt, Type: proto.StatisticType_ByteCount, GroupBy: proto.StatisticsGroupBy_Policy})
			if (err1 != nil) != (err2 != nil) {
				panic("statistics: error for one type only")
			}
			if err1 != nil {
				outs = append(outs, "OStats None")
				statErr++
			} else {
				if len(pkts) != len(byts) {
					panic("statistics: different policies for packets and bytes")
				}
				type pc struct {
					p    int
					a, b int64
				}
				var l []pc
				for x := range pkts {
					var pi int
					fmt.Sscanf(pkts[x].Policy.Name, "p%d", &pi)
					if byts[x].Policy.Name != pkts[x].Policy.Name {
						panic("statistics: order differs")
					}
					l = append(l, pc{pi, pkts[x].AllowedIn[0], byts[x].AllowedIn[0]})
				}
				sort.Slice(l, func(a, b int) bool { return l[a].p < l[b].p })
				var ss []string
				for _, x := range l {
					ss = append(ss, fmt.Sprintf("(%d%%N, (%s, %s))", x.p, z(x.a), z(x.b)))
				}
				outs = append(outs, "OStats (Some ["+strings.Join(ss, "; ")+"])")
			}
		}
	}
	for j := range ops {
		sample = append(sample, ops[j]+" -> "+outs[j])
	}
	paren := func(xs []string) string {
		ys := make([]string, len(xs))
		for i, x := range xs {
			if strings.Contains(x, " ") {
				ys[i] = "(" + x + ")"
			} else {
				ys[i] = x
			}
		}
		return strings.Join(ys, "; ")
	}
	coq := fmt.Sprintf("{| c_n := %d%%nat; c_interval := %s; c_now := %s; c_push := %d%%nat; c_agg := %d%%nat; c_fix_walk := %t; c_fix_agg := %t; c_ops := [%s]; c_outs := [%s] |}",
		nb, z(iv), z(now), p, k, fixWalk, fixAgg, paren(ops), paren(outs))
	if late > 0 {
		tags = append(tags, "has:late-flow")
	}
	if future > 0 {
		tags = append(tags, "has:future-flow")
	}
	if rejected > 0 {
		tags = append(tags, "has:rejected-flow")
	}
	if emittedN > 0 {
		tags = append(tags, "has:emission")
	}
	if statErr > 0 {
		tags = append(tags, "has:stats-error")
	}
	if diverged {
		tags = append(tags, "obs:emit-walk-diverges")
	}
	tags = append(tags, fmt.Sprintf("tree:fix-walk=%t,fix-agg=%t", fixWalk, fixAgg))
	if phantom {
		tags = append(tags, "obs:list-phantom-zero-flow")
	}
	_ = enc.Encode(line{Coq: coq, NT: accepted >= 2 && rolls >= 1, Key: fmt.Sprintf("%d|%d|%d|%d|%d|%s", nb, interval, now, p, k, strings.Join(ops, ";")),
		Sample: map[string]any{"buckets": nb, "interval": interval, "now": now, "pushAfter": p, "bucketsToAggregate": k, "trace": sample}, Tags: tags})
}
