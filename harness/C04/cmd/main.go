//go:build verif

// C04 correspondence driver: runs the real felix/labelindex.SelectorAndNamedPortIndex (both overlap
// suppressor settings) on generated histories of IP set / endpoint / network set / profile updates and
// prints one JSON line per history carrying the history and the observed OnMemberAdded/OnMemberRemoved
// stream (per operation, in emission order) as a Coq term of type Verif.C04.Spec.case.
package main

import (
	"encoding/json"
	"flag"
	"fmt"
	"math/big"
	"net"
	"os"
	"sort"
	"strings"

	v3 "github.com/projectcalico/api/pkg/apis/projectcalico/v3"
	"github.com/projectcalico/api/pkg/lib/numorstring"

	"github.com/projectcalico/calico/felix/ip"
	"github.com/projectcalico/calico/felix/labelindex"
	"github.com/projectcalico/calico/felix/labelindex/ipsetmember"
	"github.com/projectcalico/calico/lib/std/uniquelabels"
	"github.com/projectcalico/calico/libcalico-go/lib/backend/api"
	"github.com/projectcalico/calico/libcalico-go/lib/backend/model"
	calinet "github.com/projectcalico/calico/libcalico-go/lib/net"
	"github.com/projectcalico/calico/libcalico-go/lib/selector"
	"github.com/projectcalico/calico/libcalico-go/lib/selector/parser"
)

type rng struct{ s uint64 }

func (r *rng) next() uint64 {
	r.s += 0x9e3779b97f4a7c15
	z := r.s
	z = (z ^ (z >> 30)) * 0xbf58476d1ce4e5b9
	z = (z ^ (z >> 27)) * 0x94d049bb133111eb
	return z ^ (z >> 31)
}
func (r *rng) intn(n int) int          { return int(r.next() % uint64(n)) }
func (r *rng) chance(p int) bool       { return r.intn(100) < p }
func (r *rng) pick(xs []string) string { return xs[r.intn(len(xs))] }

type line struct {
	Coq    string         `json:"coq"`
	NT     bool           `json:"nt"`
	Key    string         `json:"key"`
	Sample map[string]any `json:"sample,omitempty"`
	Tags   []string       `json:"tags"`
}

// ---------------------------------------------------------------- Coq printing

func coqBytes(s string) string {
	if len(s) == 0 {
		return "(B [])"
	}
	parts := make([]string, len(s))
	for i := 0; i < len(s); i++ {
		parts[i] = fmt.Sprintf("%d", s[i])
	}
	return "(B [" + strings.Join(parts, ";") + "]%N)"
}

func coqLabels(m map[string]string) string {
	keys := make([]string, 0, len(m))
	for k := range m {
		keys = append(keys, k)
	}
	sort.Strings(keys)
	parts := make([]string, len(keys))
	for i, k := range keys {
		parts[i] = "(" + coqBytes(k) + ", " + coqBytes(m[k]) + ")"
	}
	return "[" + strings.Join(parts, "; ") + "]"
}

func coqSet(ss parser.StringSet) string {
	parts := make([]string, len(ss))
	for i, h := range ss {
		parts[i] = coqBytes(h.Value())
	}
	return "[" + strings.Join(parts, "; ") + "]"
}

// coqAST prints the selector AST the REAL parser produced.
func coqAST(n parser.Node) string {
	switch x := n.(type) {
	case *parser.LabelEqValueNode:
		return "(SEq " + coqBytes(x.LabelName.Value()) + " " + coqBytes(x.Value.Value()) + ")"
	case *parser.LabelNeValueNode:
		return "(SNe " + coqBytes(x.LabelName.Value()) + " " + coqBytes(x.Value.Value()) + ")"
	case *parser.LabelContainsValueNode:
		return "(SContains " + coqBytes(x.LabelName.Value()) + " " + coqBytes(x.Value.Value()) + ")"
	case *parser.LabelStartsWithValueNode:
		return "(SStartsWith " + coqBytes(x.LabelName.Value()) + " " + coqBytes(x.Value.Value()) + ")"
	case *parser.LabelEndsWithValueNode:
		return "(SEndsWith " + coqBytes(x.LabelName.Value()) + " " + coqBytes(x.Value.Value()) + ")"
	case *parser.LabelInSetNode:
		return "(SIn " + coqBytes(x.LabelName.Value()) + " " + coqSet(x.Value) + ")"
	case *parser.LabelNotInSetNode:
		return "(SNotIn " + coqBytes(x.LabelName.Value()) + " " + coqSet(x.Value) + ")"
	case *parser.HasNode:
		return "(SHas " + coqBytes(x.LabelName.Value()) + ")"
	case *parser.NotNode:
		return "(SNot " + coqAST(x.Operand) + ")"
	case *parser.AndNode:
		parts := make([]string, len(x.Operands))
		for i, o := range x.Operands {
			parts[i] = coqAST(o)
		}
		return "(SAnd [" + strings.Join(parts, "; ") + "])"
	case *parser.OrNode:
		parts := make([]string, len(x.Operands))
		for i, o := range x.Operands {
			parts[i] = coqAST(o)
		}
		return "(SOr [" + strings.Join(parts, "; ") + "])"
	case *parser.AllNode:
		return "SAll"
	case *parser.GlobalNode:
		return "SGlobal"
	}
	panic(fmt.Sprintf("unknown selector node %T", n))
}

func addrN(a ip.Addr) string {
	return new(big.Int).SetBytes(a.AsNetIP()).String()
}

func coqCIDR(c ip.CIDR) string {
	f := "c4"
	if c.Version() == 6 {
		f = "c6"
	}
	return fmt.Sprintf("(%s %s %d)", f, addrN(c.Addr()), c.Prefix())
}

// a raw (possibly unmasked) net as it was handed to the index
func coqRawNet(n net.IPNet) string {
	ones, bits := n.Mask.Size()
	f := "c4"
	b := n.IP.To4()
	if bits == 128 {
		f = "c6"
		b = n.IP.To16()
	}
	return fmt.Sprintf("(%s %s %d)", f, new(big.Int).SetBytes(b).String(), ones)
}

type portMember interface {
	CIDR() ip.CIDR
	PortNumber() uint16
	Protocol() ipsetmember.Protocol
}

func coqMember(m ipsetmember.IPSetMember) string {
	if pm, ok := m.(portMember); ok {
		f := "V4"
		if pm.CIDR().Version() == 6 {
			f = "V6"
		}
		return fmt.Sprintf("(MPort %s %s %d %d)", f, addrN(pm.CIDR().Addr()), pm.PortNumber(), uint8(pm.Protocol()))
	}
	if cm, ok := m.(ipsetmember.CIDROrIPOnlyIPSetMember); ok {
		return "(MCidr " + coqCIDR(cm.CIDR()) + ")"
	}
	panic(fmt.Sprintf("unknown member type %T", m))
}

func coqProto(p numorstring.Protocol) string {
	if p.Type == numorstring.NumOrStringNum {
		return fmt.Sprintf("(PNum %d)", p.NumVal)
	}
	return "(PStr " + coqBytes(p.StrVal) + ")"
}

func coqPorts(ps []model.EndpointPort) string {
	parts := make([]string, len(ps))
	for i, p := range ps {
		parts[i] = fmt.Sprintf("(mkPort %s %s %d)", coqBytes(p.Name), coqProto(p.Protocol), p.Port)
	}
	return "[" + strings.Join(parts, "; ") + "]"
}

func coqNs(xs []int) string {
	parts := make([]string, len(xs))
	for i, x := range xs {
		parts[i] = fmt.Sprintf("%d", x)
	}
	if len(parts) == 0 {
		return "[]"
	}
	return "[" + strings.Join(parts, ";") + "]%N"
}

// ---------------------------------------------------------------- generators

var labelKeys = []string{"a", "b", "role"}
var labelVals = []string{"x", "y", "xy", "p1", "p2"}

func genAtom(r *rng) string {
	k := r.pick(labelKeys)
	v := r.pick(labelVals)
	switch r.intn(13) {
	case 0, 1, 2:
		return fmt.Sprintf("%s == '%s'", k, v)
	case 3:
		return fmt.Sprintf("%s != '%s'", k, v)
	case 4:
		return fmt.Sprintf("has(%s)", k)
	case 5:
		return fmt.Sprintf("!has(%s)", k)
	case 6:
		return fmt.Sprintf("%s in {'%s', '%s'}", k, v, r.pick(labelVals))
	case 7:
		return fmt.Sprintf("%s not in {'%s', '%s'}", k, v, r.pick(labelVals))
	case 8:
		return fmt.Sprintf("%s starts with '%s'", k, v[:1])
	case 9:
		return fmt.Sprintf("%s ends with '%s'", k, v[len(v)-1:])
	case 10:
		return fmt.Sprintf("%s contains '%s'", k, v[:1])
	case 11:
		return "all()"
	default:
		return "global()"
	}
}

func genSel(r *rng, d int) string {
	if d == 0 || r.chance(45) {
		return genAtom(r)
	}
	switch r.intn(5) {
	case 0, 1:
		return "(" + genSel(r, d-1) + " && " + genSel(r, d-1) + ")"
	case 2, 3:
		return "(" + genSel(r, d-1) + " || " + genSel(r, d-1) + ")"
	default:
		return "!(" + genSel(r, d-1) + ")"
	}
}

func genLabels(r *rng) map[string]string {
	m := map[string]string{}
	for _, k := range labelKeys {
		if r.chance(45) {
			m[k] = r.pick(labelVals)
		}
	}
	return m
}

var hostIPs4 = []string{"10.0.0.1", "10.0.0.2", "10.0.0.3", "10.0.1.1", "12.1.2.142", "200.1.1.1"}
var hostIPs6 = []string{"fd00::1", "fd00::2", "fd00:0:0:1::1", "9000::1"}

// nested chains, duplicates of host IPs, /0 and its halves, unmasked forms
var cidrs4 = []string{
	"0.0.0.0/0", "0.0.0.0/1", "128.0.0.0/1", "128.0.0.0/2", "10.0.0.0/8", "10.0.0.0/16", "10.0.0.0/24",
	"10.0.0.0/30", "10.0.0.2/31", "10.0.0.1/32", "10.0.0.2/32", "10.0.1.0/24", "10.0.1.1/32", "12.0.0.0/8",
	"12.1.0.0/16", "12.1.2.142/32", "10.0.0.77/24", "10.0.0.3/30", "200.1.1.1/32", "200.0.0.0/7",
}
var cidrs6 = []string{"::/0", "::/1", "8000::/1", "fd00::/8", "fd00::/64", "fd00::1/128", "fd00::2/128", "fd00::5/64", "9000::/4"}

func genHostNets(r *rng, v6 bool) []net.IPNet {
	var out []net.IPNet
	n := r.intn(3)
	if r.chance(15) {
		n = 3
	}
	for i := 0; i < n; i++ {
		if v6 {
			ipa := net.ParseIP(r.pick(hostIPs6))
			l := 128
			if r.chance(20) {
				l = 64
			}
			out = append(out, net.IPNet{IP: ipa, Mask: net.CIDRMask(l, 128)})
		} else {
			ipa := net.ParseIP(r.pick(hostIPs4)).To4()
			l := 32
			if r.chance(20) {
				l = 24
			}
			out = append(out, net.IPNet{IP: ipa, Mask: net.CIDRMask(l, 32)})
		}
	}
	return out
}

func parseRaw(s string) net.IPNet {
	ipa, n, err := net.ParseCIDR(s)
	if err != nil {
		panic(err)
	}
	ones, bits := n.Mask.Size()
	if bits == 32 {
		ipa = ipa.To4()
	}
	// keep the unmasked address: the index must mask it
	return net.IPNet{IP: ipa, Mask: net.CIDRMask(ones, bits)}
}

func genNetSetNets(r *rng, tags map[string]bool) []net.IPNet {
	var out []net.IPNet
	n := r.intn(5)
	for i := 0; i < n; i++ {
		var s string
		if r.chance(25) {
			s = r.pick(cidrs6)
			tags["net:v6-cidr"] = true
		} else {
			s = r.pick(cidrs4)
		}
		if strings.HasSuffix(s, "/0") {
			tags["net:/0"] = true
		}
		out = append(out, parseRaw(s))
	}
	if n >= 2 {
		tags["net:multi"] = true
	}
	return out
}

var portNames = []string{"http", "dns"}

func genProto(r *rng) numorstring.Protocol {
	switch r.intn(10) {
	case 0, 1:
		return numorstring.ProtocolFromString("TCP")
	case 2:
		return numorstring.ProtocolFromString("UDP")
	case 3:
		return numorstring.ProtocolFromString("SCTP")
	case 4:
		return numorstring.Protocol{Type: numorstring.NumOrStringString, StrVal: r.pick([]string{"tcp", "Udp", "sctp", "icmp"})}
	case 5:
		return numorstring.ProtocolFromInt(6)
	case 6:
		return numorstring.ProtocolFromInt(17)
	case 7:
		return numorstring.ProtocolFromInt(132)
	case 8:
		return numorstring.ProtocolFromInt(0)
	default:
		return numorstring.ProtocolFromInt(uint8([]int{255, 1, 6}[r.intn(3)]))
	}
}

func genPorts(r *rng, tags map[string]bool) []model.EndpointPort {
	var out []model.EndpointPort
	n := r.intn(4)
	protos := map[string]bool{}
	for i := 0; i < n; i++ {
		p := model.EndpointPort{Name: r.pick(portNames), Protocol: genProto(r), Port: uint16([]int{80, 8080, 53, 0}[r.intn(4)])}
		if p.Port == 0 && !r.chance(30) {
			p.Port = 443
		}
		protos[p.Protocol.String()] = true
		out = append(out, p)
	}
	if len(protos) >= 2 {
		tags["port:mixed-proto"] = true
	}
	return out
}

func genParents(r *rng) []int {
	var out []int
	perm := []int{0, 1, 2}
	for i := 2; i > 0; i-- {
		j := r.intn(i + 1)
		perm[i], perm[j] = perm[j], perm[i]
	}
	n := r.intn(3)
	if r.chance(10) {
		n = 3
	}
	for i := 0; i < n; i++ {
		out = append(out, perm[i])
	}
	return out
}

func parentNames(ps []int) []string {
	var out []string
	for _, p := range ps {
		out = append(out, fmt.Sprintf("prof%d", p))
	}
	return out
}

type event struct {
	add bool
	set string
	m   ipsetmember.IPSetMember
}

// probeDupProfile: outside the generator's domain (profile ID lists are kept duplicate free there): a host
// endpoint whose profile list names the same profile twice, created and deleted again.
func probeDupProfile() (panicked string) {
	defer func() {
		if r := recover(); r != nil {
			panicked = fmt.Sprint(r)
		}
	}()
	idx := labelindex.NewSelectorAndNamedPortIndex(false)
	key := model.HostEndpointKey{Hostname: "h", EndpointID: "dup"}
	idx.OnUpdate(api.Update{KVPair: model.KVPair{Key: key, Value: &model.HostEndpoint{
		ExpectedIPv4Addrs: []calinet.IP{{IP: net.ParseIP("10.0.0.1").To4()}},
		ProfileIDs:        []string{"p", "p"},
	}}})
	idx.OnUpdate(api.Update{KVPair: model.KVPair{Key: key}})
	return ""
}

func main() {
	n := flag.Int("n", 100, "cases")
	seed := flag.Uint64("seed", 1, "seed")
	flag.Parse()
	r := &rng{s: *seed}
	enc := json.NewEncoder(os.Stdout)
	_ = enc.Encode(map[string]any{"probe": "dup-profile", "panic": probeDupProfile()})

	for ci := 0; ci < *n; ci++ {
		sup := r.chance(50)
		idx := labelindex.NewSelectorAndNamedPortIndex(sup)
		var cur []event
		idx.OnMemberAdded = func(id string, m ipsetmember.IPSetMember) { cur = append(cur, event{true, id, m}) }
		idx.OnMemberRemoved = func(id string, m ipsetmember.IPSetMember) { cur = append(cur, event{false, id, m}) }

		tags := map[string]bool{}
		if sup {
			tags["suppress:on"] = true
		} else {
			tags["suppress:off"] = true
		}

		// selector pool for this history; canonical text interned to a number
		selPool := []string{"all()"}
		for i := 0; i < 4; i++ {
			selPool = append(selPool, genSel(r, 2))
		}
		selIDs := map[string]int{}
		setSel := map[int]string{} // current canonical selector text of each live IP set

		liveNets := map[int]map[string]bool{} // endpoint -> printed nets, to tag shared members
		noteNets := func(eid int, nets []string) {
			for other, ns := range liveNets {
				if other == eid {
					continue
				}
				for _, n := range nets {
					if ns[n] {
						tags["member:shared-by-endpoints"] = true
					}
				}
			}
			m := map[string]bool{}
			for _, n := range nets {
				if m[n] {
					tags["net:duplicate-in-one-endpoint"] = true
				}
				m[n] = true
			}
			liveNets[eid] = m
		}
		nops := 10 + r.intn(31)
		var ops, evs, sample []string
		totalEvents := 0
		panicked := ""

		runOp := func(f func()) {
			defer func() {
				if e := recover(); e != nil {
					panicked = fmt.Sprint(e)
				}
			}()
			f()
		}

		for j := 0; j < nops && panicked == ""; j++ {
			cur = nil
			var opCoq, opTxt string
			k := r.intn(100)
			switch {
			case k < 22: // UpdateIPSet
				sid := r.intn(4)
				text := selPool[r.intn(len(selPool))]
				sel, err := selector.Parse(text)
				if err != nil {
					panic(fmt.Sprintf("generated selector does not parse: %q: %v", text, err))
				}
				canon := sel.String()
				if _, ok := selIDs[canon]; !ok {
					selIDs[canon] = len(selIDs)
				}
				proto := ipsetmember.ProtocolNone
				port := ""
				if r.chance(35) {
					proto = []ipsetmember.Protocol{ipsetmember.ProtocolTCP, ipsetmember.ProtocolUDP, ipsetmember.ProtocolSCTP, ipsetmember.ProtocolAny}[r.intn(4)]
					port = r.pick(portNames)
					tags["ipset:named-port"] = true
				}
				if old, ok := setSel[sid]; ok && old != canon {
					tags["ipset:selector-change"] = true
				}
				setSel[sid] = canon
				opCoq = fmt.Sprintf("(OpIPSet %d %d %s %d %s)", sid, selIDs[canon], coqAST(sel.Root()), uint8(proto), coqBytes(port))
				opTxt = fmt.Sprintf("UpdateIPSet s%d %q proto=%s port=%q", sid, canon, proto, port)
				runOp(func() { idx.UpdateIPSet(fmt.Sprintf("s%d", sid), sel, proto, port) })
			case k < 28: // DeleteIPSet
				sid := r.intn(4)
				delete(setSel, sid)
				opCoq = fmt.Sprintf("(OpDelIPSet %d)", sid)
				opTxt = fmt.Sprintf("DeleteIPSet s%d", sid)
				runOp(func() { idx.DeleteIPSet(fmt.Sprintf("s%d", sid)) })
			case k < 68: // endpoint / network set update
				eid := r.intn(8)
				lbls := genLabels(r)
				parents := genParents(r)
				switch {
				case eid <= 2: // workload endpoint through OnUpdate
					v4 := genHostNets(r, false)
					var v6 []net.IPNet
					if r.chance(25) {
						v6 = genHostNets(r, true)
					}
					ports := genPorts(r, tags)
					var netsCoq []string
					var cv4, cv6 []calinet.IPNet
					for _, x := range v4 {
						netsCoq = append(netsCoq, coqRawNet(x))
						cv4 = append(cv4, calinet.IPNet{IPNet: x})
					}
					for _, x := range v6 {
						netsCoq = append(netsCoq, coqRawNet(x))
						cv6 = append(cv6, calinet.IPNet{IPNet: x})
					}
					key := model.WorkloadEndpointKey{Hostname: "h", OrchestratorID: "k8s", WorkloadID: fmt.Sprintf("w%d", eid), EndpointID: "eth0"}
					val := &model.WorkloadEndpoint{ProfileIDs: parentNames(parents), IPv4Nets: cv4, IPv6Nets: cv6,
						Labels: uniquelabels.Make(lbls), Ports: ports}
					opCoq = fmt.Sprintf("(OpEp %d KWep %s [%s] %s %s)", eid, coqLabels(lbls), strings.Join(netsCoq, "; "), coqPorts(ports), coqNs(parents))
					opTxt = fmt.Sprintf("WEP e%d labels=%v nets=%v ports=%v profiles=%v", eid, lbls, netsCoq, ports, parents)
					noteNets(eid, netsCoq)
					runOp(func() { idx.OnUpdate(api.Update{KVPair: model.KVPair{Key: key, Value: val}}) })
				case eid == 3: // host endpoint through OnUpdate
					var a4, a6 []calinet.IP
					var netsCoq []string
					for _, x := range genHostNets(r, false) {
						a4 = append(a4, calinet.IP{IP: x.IP})
						netsCoq = append(netsCoq, coqRawNet(net.IPNet{IP: x.IP, Mask: net.CIDRMask(32, 32)}))
					}
					if r.chance(25) {
						for _, x := range genHostNets(r, true) {
							a6 = append(a6, calinet.IP{IP: x.IP})
							netsCoq = append(netsCoq, coqRawNet(net.IPNet{IP: x.IP, Mask: net.CIDRMask(128, 128)}))
						}
					}
					ports := genPorts(r, tags)
					key := model.HostEndpointKey{Hostname: "h", EndpointID: "hep"}
					val := &model.HostEndpoint{ExpectedIPv4Addrs: a4, ExpectedIPv6Addrs: a6, Labels: uniquelabels.Make(lbls),
						ProfileIDs: parentNames(parents), Ports: ports}
					opCoq = fmt.Sprintf("(OpEp %d KHep %s [%s] %s %s)", eid, coqLabels(lbls), strings.Join(netsCoq, "; "), coqPorts(ports), coqNs(parents))
					opTxt = fmt.Sprintf("HEP e%d labels=%v ips=%v ports=%v profiles=%v", eid, lbls, netsCoq, ports, parents)
					noteNets(eid, netsCoq)
					runOp(func() { idx.OnUpdate(api.Update{KVPair: model.KVPair{Key: key, Value: val}}) })
				case eid <= 6: // network set through OnUpdate
					raw := genNetSetNets(r, tags)
					var nets []calinet.IPNet
					var netsCoq []string
					for _, x := range raw {
						nets = append(nets, calinet.IPNet{IPNet: x})
						netsCoq = append(netsCoq, coqRawNet(x))
					}
					key := model.NetworkSetKey{Name: fmt.Sprintf("ns%d", eid)}
					val := &model.NetworkSet{Nets: nets, Labels: uniquelabels.Make(lbls), ProfileIDs: parentNames(parents)}
					opCoq = fmt.Sprintf("(OpEp %d KNetSet %s [%s] [] %s)", eid, coqLabels(lbls), strings.Join(netsCoq, "; "), coqNs(parents))
					opTxt = fmt.Sprintf("NetSet e%d labels=%v nets=%v profiles=%v", eid, lbls, netsCoq, parents)
					noteNets(eid, netsCoq)
					runOp(func() { idx.OnUpdate(api.Update{KVPair: model.KVPair{Key: key, Value: val}}) })
				default: // direct UpdateEndpointOrSet: CIDR nets together with named ports
					raw := genNetSetNets(r, tags)
					var nets []ip.CIDR
					var netsCoq []string
					for _, x := range raw {
						c := ip.CIDRFromIPNet(&x)
						nets = append(nets, c)
						netsCoq = append(netsCoq, coqCIDR(c))
					}
					ports := genPorts(r, tags)
					opCoq = fmt.Sprintf("(OpEp %d KRaw %s [%s] %s %s)", eid, coqLabels(lbls), strings.Join(netsCoq, "; "), coqPorts(ports), coqNs(parents))
					opTxt = fmt.Sprintf("Raw e%d labels=%v nets=%v ports=%v profiles=%v", eid, lbls, netsCoq, ports, parents)
					noteNets(eid, netsCoq)
					runOp(func() { idx.UpdateEndpointOrSet("raw7", uniquelabels.Make(lbls), nets, ports, parentNames(parents)) })
				}
			case k < 76: // delete endpoint / network set
				eid := r.intn(8)
				delete(liveNets, eid)
				opCoq = fmt.Sprintf("(OpDelEp %d)", eid)
				opTxt = fmt.Sprintf("DeleteEndpoint e%d", eid)
				var key model.Key
				switch {
				case eid <= 2:
					key = model.WorkloadEndpointKey{Hostname: "h", OrchestratorID: "k8s", WorkloadID: fmt.Sprintf("w%d", eid), EndpointID: "eth0"}
				case eid == 3:
					key = model.HostEndpointKey{Hostname: "h", EndpointID: "hep"}
				case eid <= 6:
					key = model.NetworkSetKey{Name: fmt.Sprintf("ns%d", eid)}
				}
				if eid == 7 {
					runOp(func() { idx.DeleteEndpoint("raw7") })
				} else {
					runOp(func() { idx.OnUpdate(api.Update{KVPair: model.KVPair{Key: key}}) })
				}
			case k < 94: // profile labels
				pid := r.intn(3)
				lbls := genLabels(r)
				tags["parent:update"] = true
				opCoq = fmt.Sprintf("(OpParent %d %s)", pid, coqLabels(lbls))
				opTxt = fmt.Sprintf("Profile prof%d labels=%v", pid, lbls)
				key := model.ResourceKey{Kind: v3.KindProfile, Name: fmt.Sprintf("prof%d", pid)}
				prof := v3.NewProfile()
				prof.Name = key.Name
				prof.Spec.LabelsToApply = lbls
				runOp(func() { idx.OnUpdate(api.Update{KVPair: model.KVPair{Key: key, Value: prof}}) })
			default:
				pid := r.intn(3)
				opCoq = fmt.Sprintf("(OpDelParent %d)", pid)
				opTxt = fmt.Sprintf("DeleteProfile prof%d", pid)
				key := model.ResourceKey{Kind: v3.KindProfile, Name: fmt.Sprintf("prof%d", pid)}
				runOp(func() { idx.OnUpdate(api.Update{KVPair: model.KVPair{Key: key}}) })
			}

			ops = append(ops, opCoq)
			if panicked != "" {
				// no event list for this op: the oracle rejects the length mismatch
				sample = append(sample, opTxt+" -> PANIC "+panicked)
				tags["panic"] = true
				break
			}
			var es, et []string
			addSets, remSets := map[string]bool{}, map[string]bool{}
			for _, e := range cur {
				if e.add {
					addSets[e.set] = true
				} else {
					remSets[e.set] = true
				}
				if pm, ok := e.m.(portMember); ok {
					tags["member:port"] = true
					tags["member:port-proto-"+pm.Protocol().String()] = true
					if pm.CIDR().Version() == 6 {
						tags["member:port-v6"] = true
					}
				} else if cm, ok := e.m.(ipsetmember.CIDROrIPOnlyIPSetMember); ok {
					if cm.CIDR().Version() == 6 {
						tags["member:cidr-v6"] = true
					}
					if int(cm.CIDR().Prefix()) < map[uint8]int{4: 32, 6: 128}[cm.CIDR().Version()] {
						tags["member:cidr-net"] = true
					} else {
						tags["member:cidr-host"] = true
					}
				}
			}
			for sidName := range addSets {
				if remSets[sidName] {
					if sup {
						tags["suppress:add+withdraw-in-one-op"] = true
					} else {
						tags["op:add+remove-same-set"] = true
					}
				}
			}
			for _, e := range cur {
				var sid int
				fmt.Sscanf(e.set, "s%d", &sid)
				c := "ERem"
				if e.add {
					c = "EAdd"
				}
				es = append(es, fmt.Sprintf("%s %d %s", c, sid, coqMember(e.m)))
				sign := "-"
				if e.add {
					sign = "+"
				}
				et = append(et, sign+e.set+":"+e.m.ToProtobufFormat())
			}
			totalEvents += len(cur)
			evs = append(evs, "["+strings.Join(es, "; ")+"]")
			sample = append(sample, opTxt+" -> "+strings.Join(et, " "))
		}

		coq := fmt.Sprintf("(mkCase %v [%s] [%s])", sup, strings.Join(ops, "; "), strings.Join(evs, "; "))
		var tl []string
		for t := range tags {
			tl = append(tl, t)
		}
		sort.Strings(tl)
		_ = enc.Encode(line{Coq: coq, NT: totalEvents >= 4, Key: fmt.Sprintf("%v|%s", sup, strings.Join(ops, ";")),
			Sample: map[string]any{"suppress": sup, "trace": sample}, Tags: tl})
	}
}
