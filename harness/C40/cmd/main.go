//go:build verif

// C40 correspondence driver.
//
// For generated configurations (failsafe port lists, DefaultEndpointToHostAction, IPIP/VXLAN/Wireguard,
// allow-action settings, workload prefixes, OpenStack special cases, both IP versions) it calls the REAL
// rules.NewRenderer(cfg, nft) for BOTH renderers (iptables and nftables) and renders
//   - StaticFilterTableChains / StaticRawTableChains / StaticMangleTableChains / StaticFilterForwardAppendRules,
//   - real dispatch chains (WorkloadDispatchChains, HostDispatchChains, FromHostDispatchChains),
//   - real endpoint chains (WorkloadEndpointToIptablesChains, HostEndpointToFilterChains, ...ToRawChains,
//     ...ToMangleIngressChains) for generated endpoints, tiers and profiles,
//   - real policy / profile chains for generated policies,
// renders every rule to iptables text with the real iptables renderer, parses the text into the abstract
// syntax of Common/Ipt.v (parse.go: anything unparsed is a hard error) and prints one Coq `case` per line
// with probe packets.  Coq then compares the static chains with the model (structural equality) and
// evaluates the specification oracle by traversing the IMPLEMENTATION's chains on the probes.
package main

import (
	"encoding/json"
	"flag"
	"fmt"
	"io"
	"math/big"
	"net"
	"os"
	"regexp"
	"sort"
	"strings"

	"github.com/sirupsen/logrus"

	"github.com/projectcalico/api/pkg/lib/numorstring"

	v3 "github.com/projectcalico/api/pkg/apis/projectcalico/v3"

	"github.com/projectcalico/calico/felix/config"
	intdataplane "github.com/projectcalico/calico/felix/dataplane/linux"
	"github.com/projectcalico/calico/felix/environment"
	"github.com/projectcalico/calico/felix/generictables"
	"github.com/projectcalico/calico/felix/ipsets"
	"github.com/projectcalico/calico/felix/iptables"
	"github.com/projectcalico/calico/felix/nftables"
	"github.com/projectcalico/calico/felix/proto"
	"github.com/projectcalico/calico/felix/rules"
	"github.com/projectcalico/calico/felix/types"
)

var _ = v3.ProtoPort{}

type rng struct{ s uint64 }

func (r *rng) next() uint64 {
	r.s += 0x9e3779b97f4a7c15
	z := r.s
	z = (z ^ (z >> 30)) * 0xbf58476d1ce4e5b9
	z = (z ^ (z >> 27)) * 0x94d049bb133111eb
	return z ^ (z >> 31)
}
func (r *rng) intn(n int) int        { return int(r.next() % uint64(n)) }
func (r *rng) chance(pct int) bool   { return r.intn(100) < pct }
func (r *rng) pick(xs []string) string { return xs[r.intn(len(xs))] }

type line struct {
	Coq    string         `json:"coq"`
	NT     bool           `json:"nt"`
	Key    string         `json:"key"`
	Sample map[string]any `json:"sample,omitempty"`
	Tags   []string       `json:"tags"`
}

func fatal(format string, a ...any) {
	fmt.Fprintf(os.Stderr, "C40 driver: "+format+"\n", a...)
	os.Exit(3)
}

// explicit cons/nil: Coq elaborates this 2-3x faster than the [a; b] notation
func listTerm(xs []string) string {
	if len(xs) == 0 {
		return "nil"
	}
	var sb strings.Builder
	for _, x := range xs {
		sb.WriteString("(cons ")
		sb.WriteString(x)
		sb.WriteString(" ")
	}
	sb.WriteString("nil")
	sb.WriteString(strings.Repeat(")", len(xs)))
	return sb.String()
}

// ---------------------------------------------------------------- configuration

type markLayout struct{ accept, pass, drop, s0, s1, endpoint, nonCali, wg uint32 }

var markLayouts = []markLayout{
	{0x10000, 0x20000, 0x40000, 0x80000, 0x100000, 0xffe00000, 0x00200000, 0x1},
	{0x1, 0x2, 0x4, 0x8, 0x10, 0xff00, 0x100, 0x20},
	{0x80000000, 0x40000000, 0x20000000, 0x10000000, 0x08000000, 0x00fff000, 0x1000, 0x04000000},
	{0x8, 0x400, 0x2, 0x10, 0x4000, 0xff0000, 0x10000, 0x1},
}

var prefixSets = [][]string{{"cali"}, {"cali", "tap"}, {"tap"}, {"cali", "tap", "veth"}, {"ca"}, {"cali", "ca"}}

var fsPorts = []uint16{22, 53, 67, 68, 179, 2379, 2380, 4789, 5473, 6443, 6666, 6667, 8080, 51820}

type fsEntry struct {
	pp    config.ProtoPort
	proto int
}

type genCfg struct {
	nft      bool
	ver      int
	ml       markLayout
	prefixes []string
	fsIn     []fsEntry
	fsOut    []fsEntry
	cfg      rules.Config
	wgRaw    bool
	term     string
}

func (g *genCfg) v6() bool { return g.ver == 6 }

func randNet(r *rng, ver int) string {
	// mostly this version, sometimes the other, sometimes a bare IP, rarely garbage
	switch k := r.intn(20); {
	case k == 0:
		return "not-a-cidr"
	case k <= 3:
		ver = 10 - ver
	}
	if ver == 4 {
		s := fmt.Sprintf("10.%d.%d.%d", r.intn(4), r.intn(256), r.intn(256))
		if r.chance(25) {
			return s
		}
		return fmt.Sprintf("%s/%d", s, []int{8, 16, 24, 30, 32, 0, 12}[r.intn(7)])
	}
	s := fmt.Sprintf("fd00:%x::%x", r.intn(4), r.intn(65536))
	if r.chance(25) {
		return s
	}
	return fmt.Sprintf("%s/%d", s, []int{16, 32, 64, 112, 128, 0, 48}[r.intn(7)])
}

func genFailsafes(r *rng, ver int) []fsEntry {
	n := r.intn(5)
	if r.chance(10) {
		n = 8 + r.intn(6)
	}
	var out []fsEntry
	for i := 0; i < n; i++ {
		pr := r.pick([]string{"tcp", "udp", "tcp", "udp", "sctp"})
		e := fsEntry{pp: config.ProtoPort{Protocol: pr, Port: fsPorts[r.intn(len(fsPorts))]}, proto: protoNumbers[pr]}
		if r.chance(35) {
			e.pp.Net = randNet(r, ver)
		}
		out = append(out, e)
	}
	return out
}

func fsTerm(es []fsEntry, ver int) string {
	var xs []string
	for _, e := range es {
		nt := "FsNoNet"
		if e.pp.Net != "" {
			// same acceptance test as cnet.ParseCIDROrIP: an IP or a CIDR
			s := e.pp.Net
			isV6 := strings.Contains(s, ":")
			v := 4
			if isV6 {
				v = 6
			}
			if c, err := parseCIDRText(s, v); err != nil {
				nt = "FsBadNet"
			} else {
				nt = "(FsNet " + c + ")"
			}
		}
		xs = append(xs, fmt.Sprintf("(Build_fsport %d %d %s)", e.proto, e.pp.Port, nt))
	}
	return listTerm(xs)
}

func actTerm(s string, dflt string) string {
	switch s {
	case "ACCEPT":
		return "AAccept"
	case "RETURN":
		return "AReturn"
	case "DROP":
		return "ADrop"
	case "REJECT":
		return "AReject"
	}
	return dflt
}

func boolTerm(x bool) string { return b(x) }

func genConfig(r *rng) *genCfg {
	g := &genCfg{ver: 4}
	if r.chance(45) {
		g.ver = 6
	}
	g.nft = r.chance(50)
	g.ml = markLayouts[r.intn(len(markLayouts))]
	g.prefixes = prefixSets[r.intn(len(prefixSets))]
	g.fsIn = genFailsafes(r, g.ver)
	g.fsOut = genFailsafes(r, g.ver)
	c := rules.Config{
		IPSetConfigV4:         ipsets.NewIPVersionConfig(ipsets.IPFamilyV4, "cali", nil, nil),
		IPSetConfigV6:         ipsets.NewIPVersionConfig(ipsets.IPFamilyV6, "cali", nil, nil),
		WorkloadIfacePrefixes: g.prefixes,
		MarkAccept:            g.ml.accept, MarkPass: g.ml.pass, MarkDrop: g.ml.drop,
		MarkScratch0: g.ml.s0, MarkScratch1: g.ml.s1, MarkEndpoint: g.ml.endpoint, MarkNonCaliEndpoint: g.ml.nonCali,
		WireguardMark: g.ml.wg,
	}
	for _, e := range g.fsIn {
		c.FailsafeInboundHostPorts = append(c.FailsafeInboundHostPorts, e.pp)
	}
	for _, e := range g.fsOut {
		c.FailsafeOutboundHostPorts = append(c.FailsafeOutboundHostPorts, e.pp)
	}
	c.IPIPEnabled = r.chance(45)
	c.VXLANEnabled = r.chance(45)
	c.VXLANEnabledV6 = r.chance(45)
	c.VXLANPort = []int{4789, 4789, 4790, 6666, 53}[r.intn(5)]
	c.VXLANVNI = 4096
	c.WireguardEnabled = r.chance(30)
	c.WireguardEnabledV6 = r.chance(30)
	c.WireguardListeningPort = 51820
	c.WireguardListeningPortV6 = []int{51821, 51820}[r.intn(2)]
	c.WireguardInterfaceName = r.pick([]string{"wireguard.cali", "wg0"}) // never empty: an empty name renders a malformed --in-interface match
	c.WireguardInterfaceNameV6 = r.pick([]string{"wg-v6.cali", "wg1"})
	c.WireguardEncryptHostTraffic = r.chance(40)
	g.wgRaw = ((c.WireguardEnabled && c.WireguardInterfaceName != "") || (c.WireguardEnabledV6 && c.WireguardInterfaceNameV6 != "")) && c.WireguardEncryptHostTraffic
	c.OpenStackSpecialCasesEnabled = r.chance(25)
	meta := "None"
	if r.chance(60) {
		ip := net.ParseIP(r.pick([]string{"169.254.169.254", "10.0.0.2"}))
		c.OpenStackMetadataIP = ip
		c.OpenStackMetadataPort = []uint16{8775, 80}[r.intn(2)]
		meta = fmt.Sprintf("(Some (pair %s %d))", new(big.Int).SetBytes(ip.To4()).String(), c.OpenStackMetadataPort)
	}
	c.EndpointToHostAction = r.pick([]string{"DROP", "REJECT", "ACCEPT", "RETURN", ""})
	c.FilterAllowAction = r.pick([]string{"ACCEPT", "RETURN", ""})
	c.MangleAllowAction = r.pick([]string{"ACCEPT", "RETURN", ""})
	c.FilterDenyAction = r.pick([]string{"DROP", "REJECT", ""})
	c.DisableConntrackInvalid = r.chance(25)
	c.FlowLogsEnabled = r.chance(25)
	c.AllowVXLANPacketsFromWorkloads = r.chance(30)
	c.AllowIPIPPacketsFromWorkloads = r.chance(30)
	c.ServiceLoopPrevention = r.pick([]string{"Drop", "Reject", "Disabled"})
	c.KubeIPVSSupportEnabled = r.chance(30)
	nNP := r.intn(3)
	if r.chance(15) {
		nNP = 8 + r.intn(4) // more than 15 multiport slots: SplitPortList makes several rules
	}
	var npT []string
	for i := 0; i < nNP; i++ {
		lo := uint16(30000 + 200*i + r.intn(50))
		hi := lo
		if r.chance(70) {
			hi = lo + uint16(1+r.intn(100))
		}
		c.KubeNodePortRanges = append(c.KubeNodePortRanges, numorstring.Port{MinPort: lo, MaxPort: hi})
		npT = append(npT, fmt.Sprintf("(pair %d %d)", lo, hi))
	}
	c.IstioAmbientModeEnabled = r.chance(30)
	c.IstioDSCPMark = uint8(r.intn(64))
	g.cfg = c

	var pf []string
	for _, p := range g.prefixes {
		pf = append(pf, nameBytes(p))
	}
	verT := "V4"
	if g.v6() {
		verT = "V6"
	}
	g.term = fmt.Sprintf("(Build_cfg %s %d %d %d %d %s %s %s %s %s %s %d %s %s %d %d %s %s %s %d %s %s %s %s %s %s %s %s %d %d %s)",
		verT, g.ml.accept, g.ml.pass, g.ml.s0, g.ml.s1, listTerm(pf), fsTerm(g.fsIn, g.ver), fsTerm(g.fsOut, g.ver),
		b(c.IPIPEnabled), b(c.VXLANEnabled), b(c.VXLANEnabledV6), c.VXLANPort,
		b(c.WireguardEnabled), b(c.WireguardEnabledV6), c.WireguardListeningPort, c.WireguardListeningPortV6,
		b(g.wgRaw), nameBytes(c.WireguardInterfaceName), nameBytes(c.WireguardInterfaceNameV6), g.ml.wg,
		b(c.OpenStackSpecialCasesEnabled), meta,
		actTerm(c.EndpointToHostAction, "AReturn"), actTerm(c.FilterAllowAction, "AAccept"),
		actTerm(c.MangleAllowAction, "AAccept"), actTerm(c.FilterDenyAction, "ADrop"), b(c.IstioAmbientModeEnabled),
		b(c.KubeIPVSSupportEnabled), g.ml.endpoint, g.ml.nonCali, listTerm(npT))
	return g
}

// ---------------------------------------------------------------- rendering + parsing

var (
	ipRenderer = iptables.NewIptablesRenderer("")
	features   = &environment.Features{}
)

type tableAcc struct {
	nft    bool
	vmaps  map[string][]string // nft verdict map name fragment -> expansion (leaf rules as Coq terms)
	name   string
	names  []string
	bodies map[string][]string // chain -> parsed rules
	texts  map[string][]string
}

func newTable(name string, nft bool) *tableAcc {
	return &tableAcc{name: name, nft: nft, vmaps: map[string][]string{}, bodies: map[string][]string{}, texts: map[string][]string{}}
}

var vmapRule = regexp.MustCompile(`^(iifname|oifname) vmap @(\S+)$`)

// one rule -> text by the real renderer of the flavour -> abstract syntax.  An nftables verdict-map rule
// `iifname vmap @M` is expanded into one exact-interface rule per element of M (the elements are the real
// DispatchMappings output): a vmap lookup takes the verdict of the one element equal to the key, else continues.
func renderParse(nft bool, vmaps map[string][]string, rule *generictables.Rule, chain string, ver int, sets map[string]int) (string, []string, error) {
	if !nft {
		txt := ipRenderer.RenderAppend(rule, chain, "", features)
		a, err := parseIptables(txt, ver, sets)
		return txt, []string{a}, err
	}
	txt := nftables.NewNFTRenderer("", uint8(ver)).Render(chain, "", *rule, features).Rule
	if m := vmapRule.FindStringSubmatch(txt); m != nil {
		for frag, exp := range vmaps {
			if strings.HasSuffix(m[2], frag) {
				return txt, exp, nil
			}
		}
		return txt, nil, fmt.Errorf("verdict map %q has no known contents", m[2])
	}
	a, err := parseNft(txt, ver, sets)
	return txt, []string{a}, err
}

func (t *tableAcc) add(ver int, sets map[string]int, chs ...*generictables.Chain) {
	for _, ch := range chs {
		if ch == nil {
			continue
		}
		if _, dup := t.bodies[ch.Name]; dup {
			fatal("table %s: chain %q rendered twice", t.name, ch.Name)
		}
		if strings.ContainsAny(ch.Name, "\"\\") {
			fatal("chain name %q", ch.Name)
		}
		var parsed, texts []string
		for k := range ch.Rules {
			txt, as, err := renderParse(t.nft, t.vmaps, &ch.Rules[k], ch.Name, ver, sets)
			if err != nil {
				fatal("table %s: cannot parse rendered rule %q: %v", t.name, txt, err)
			}
			parsed = append(parsed, as...)
			texts = append(texts, txt)
		}
		t.names = append(t.names, ch.Name)
		t.bodies[ch.Name] = parsed
		t.texts[ch.Name] = texts
	}
}

func (t *tableAcc) term() string {
	var xs []string
	for _, n := range t.names {
		xs = append(xs, fmt.Sprintf("(pair \"%s\" %s)", n, listTerm(t.bodies[n])))
	}
	return listTerm(xs)
}

// ---------------------------------------------------------------- policies

type polPool struct {
	ids  []*types.PolicyID
	pols []*proto.Policy
}

func genRule(r *rng, ver int, fs []fsEntry) *proto.Rule {
	pr := &proto.Rule{Action: r.pick([]string{"allow", "deny", "deny", "pass", "log", "allow"})}
	if r.chance(70) {
		name := r.pick([]string{"tcp", "udp"})
		pr.Protocol = &proto.Protocol{NumberOrName: &proto.Protocol_Name{Name: name}}
		if r.chance(60) {
			p := int32(fsPorts[r.intn(len(fsPorts))])
			if len(fs) > 0 && r.chance(60) {
				p = int32(fs[r.intn(len(fs))].pp.Port)
			}
			pr.DstPorts = []*proto.PortRange{{First: p, Last: p + int32(r.intn(3))}}
		}
	}
	if r.chance(30) {
		if ver == 4 {
			pr.SrcNet = []string{fmt.Sprintf("10.%d.0.0/16", r.intn(4))}
		} else {
			pr.SrcNet = []string{fmt.Sprintf("fd00:%x::/32", r.intn(4))}
		}
	}
	return pr
}

func genPolicies(r *rng, ver int, n int, tag string, untracked, preDNAT bool, fs []fsEntry) *polPool {
	pp := &polPool{}
	for i := 0; i < n; i++ {
		id := &types.PolicyID{Name: fmt.Sprintf("%s-p%d", tag, i), Kind: "GlobalNetworkPolicy"}
		pol := &proto.Policy{Tier: "default", Untracked: untracked, PreDnat: preDNAT}
		for k := r.intn(3) + 1; k > 0; k-- {
			pol.InboundRules = append(pol.InboundRules, genRule(r, ver, fs))
		}
		for k := r.intn(3) + 1; k > 0; k-- {
			pol.OutboundRules = append(pol.OutboundRules, genRule(r, ver, fs))
		}
		if r.chance(50) {
			// a deny-everything rule: without failsafes this endpoint would be cut off
			pol.InboundRules = append(pol.InboundRules, &proto.Rule{Action: "deny"})
			pol.OutboundRules = append(pol.OutboundRules, &proto.Rule{Action: "deny"})
		}
		pp.ids = append(pp.ids, id)
		pp.pols = append(pp.pols, pol)
	}
	return pp
}

// one tier over a random non-empty subset of the pool, grouped at random
func (pp *polPool) tiers(r *rng) ([]rules.TierPolicyGroups, []*rules.PolicyGroup) {
	if len(pp.ids) == 0 || r.chance(15) {
		return nil, nil
	}
	var chosen []*types.PolicyID
	for _, id := range pp.ids {
		if r.chance(70) {
			chosen = append(chosen, id)
		}
	}
	if len(chosen) == 0 {
		chosen = pp.ids[:1]
	}
	mk := func(dir rules.PolicyDirection) []*rules.PolicyGroup {
		var gs []*rules.PolicyGroup
		i := 0
		for i < len(chosen) {
			k := 1 + r.intn(2)
			if i+k > len(chosen) {
				k = len(chosen) - i
			}
			gs = append(gs, &rules.PolicyGroup{Direction: dir, Policies: chosen[i : i+k], Selector: fmt.Sprintf("sel%d", len(chosen))})
			i += k
		}
		return gs
	}
	t := rules.TierPolicyGroups{Name: "default", DefaultAction: r.pick([]string{"Deny", "Deny", "Pass"}),
		IngressPolicies: mk(rules.PolicyDirectionInbound), EgressPolicies: mk(rules.PolicyDirectionOutbound)}
	var groups []*rules.PolicyGroup
	groups = append(groups, t.IngressPolicies...)
	groups = append(groups, t.EgressPolicies...)
	return []rules.TierPolicyGroups{t}, groups
}

// ---------------------------------------------------------------- packets

type pkt struct {
	ver, proto         int
	src, dst           *big.Int
	sport, dport       int
	icmpType, icmpCode int
	in, out            string
	ct                 string
	mark               uint32
	other              []int // oracle ids that hold
	why                string
}

func (p *pkt) hasOther(id int) bool {
	for _, x := range p.other {
		if x == id {
			return true
		}
	}
	return false
}

func (p *pkt) term() string {
	v := "V4"
	if p.ver == 6 {
		v = "V6"
	}
	var os []string
	for _, x := range p.other {
		os = append(os, fmt.Sprint(x))
	}
	return fmt.Sprintf("(Build_probe (Build_packet %s %d %s %s %d %d %d %d %s %s %s %d) %s)",
		v, p.proto, p.src.String(), p.dst.String(), p.sport, p.dport, p.icmpType, p.icmpCode,
		nameBytes(p.in), nameBytes(p.out), p.ct, p.mark, listTerm(os))
}

func hasPrefixAny(s string, pfx []string) bool {
	for _, p := range pfx {
		if strings.HasPrefix(s, p) {
			return true
		}
	}
	return false
}

// ---------------------------------------------------------------- one configuration -> cases

type world struct {
	g         *genCfg
	wlNames   []string
	hepNames  []string
	wildcard  bool
	setIDs    map[string]int
	hostIPs   []*big.Int // members of all-hosts-net
	vxlanIPs  []*big.Int // members of all-vxlan-net
	otherIPs  []*big.Int
	localIPs  []*big.Int // members of this-host
	raw       *tableAcc
	mangle    *tableAcc
	filter    *tableAcc
	hooks     []string
	wlChains  map[string]string
}

func randIP(r *rng, ver int) *big.Int {
	if ver == 4 {
		return parseIP(fmt.Sprintf("10.%d.%d.%d", r.intn(4), r.intn(256), r.intn(256)))
	}
	return parseIP(fmt.Sprintf("fd00:%x::%x", r.intn(4), r.intn(65536)))
}

func build(r *rng) *world {
	g := genConfig(r)
	w := &world{g: g, wlChains: map[string]string{}}
	ver := g.ver
	rr := rules.NewRenderer(g.cfg, g.nft)
	maxLen := iptables.MaxChainNameLength
	if g.nft {
		maxLen = nftables.MaxChainNameLength
	}

	// set names as the renderer writes them -> fixed ids of Model.v
	ipc := g.cfg.IPSetConfigV4
	if g.v6() {
		ipc = g.cfg.IPSetConfigV6
	}
	w.setIDs = map[string]int{
		ipc.NameForMainIPSet(rules.IPSetIDAllHostNets):        1,
		ipc.NameForMainIPSet(rules.IPSetIDAllVXLANSourceNets): 2,
		ipc.NameForMainIPSet(rules.IPSetIDThisHostIPs):        3,
		ipc.NameForMainIPSet(rules.IPSetIDNoFlowOffload):      4,
		ipc.NameForMainIPSet(rules.IPSetIDNetworkPools):       5,
		ipc.NameForMainIPSet(rules.IPSetIDDSCPEndpoints):      6,
		ipc.NameForMainIPSet(rules.IPSetIDAllIstioWEPs):       7,
	}
	if g.nft {
		for n, id := range map[string]int{rules.IPSetIDAllHostNets: 1, rules.IPSetIDAllVXLANSourceNets: 2, rules.IPSetIDThisHostIPs: 3,
			rules.IPSetIDNoFlowOffload: 4, rules.IPSetIDNetworkPools: 5, rules.IPSetIDDSCPEndpoints: 6, rules.IPSetIDAllIstioWEPs: 7} {
			w.setIDs[nftables.LegalizeSetName(ipc.NameForMainIPSet(n))] = id
		}
	}
	for i := 0; i < 3; i++ {
		w.hostIPs = append(w.hostIPs, randIP(r, ver))
		w.vxlanIPs = append(w.vxlanIPs, randIP(r, ver))
		w.otherIPs = append(w.otherIPs, randIP(r, ver))
		w.localIPs = append(w.localIPs, randIP(r, ver))
	}

	var epmm rules.EndpointMarkMapper
	if g.cfg.KubeIPVSSupportEnabled {
		epmm = rules.NewEndpointMarkMapper(g.ml.endpoint, g.ml.nonCali)
	}
	// ---- endpoints
	nWl := r.intn(4)
	if r.chance(8) {
		nWl = 5 + r.intn(5)
	}
	seen := map[string]bool{}
	for i := 0; i < nWl; i++ {
		n := g.prefixes[r.intn(len(g.prefixes))] + fmt.Sprintf("%x", r.intn(4096))
		if r.chance(30) {
			n = g.prefixes[r.intn(len(g.prefixes))] + r.pick([]string{"a", "ab", "abc", "b1", "b2", "0"})
		}
		if !seen[n] {
			seen[n] = true
			w.wlNames = append(w.wlNames, n)
		}
	}
	sort.Strings(w.wlNames)
	for _, n := range []string{"eth0", "eth1", "ens5", "bond0"} {
		if r.chance(30) && !hasPrefixAny(n, g.prefixes) {
			w.hepNames = append(w.hepNames, n)
		}
	}
	w.wildcard = r.chance(35)

	// ---- policies: one pool per table (a policy's chain lives in one table)
	normal := genPolicies(r, ver, 1+r.intn(2), "n", false, false, append(append([]fsEntry{}, g.fsIn...), g.fsOut...))
	untracked := genPolicies(r, ver, 1+r.intn(2), "u", true, false, append(append([]fsEntry{}, g.fsIn...), g.fsOut...))
	prednat := genPolicies(r, ver, 1+r.intn(2), "d", false, true, g.fsIn)
	profIDs := []string{}
	for i := r.intn(3); i > 0; i-- {
		profIDs = append(profIDs, fmt.Sprintf("prof%d", i))
	}

	w.raw, w.mangle, w.filter = newTable("raw", g.nft), newTable("mangle", g.nft), newTable("filter", g.nft)
	sets := w.setIDs

	// ---- static chains and hook wiring: what the REAL setUpIptablesNormal installs (recording tables)
	tabs := map[string]*tableAcc{"raw": w.raw, "mangle": w.mangle, "filter": w.filter}
	tabNum := map[string]int{"raw": 0, "mangle": 1, "filter": 2}
	for _, call := range intdataplane.VerifC40Wiring(rr, g.nft, uint8(ver)) {
		t := tabs[call.Table]
		if t == nil {
			fatal("wiring: unexpected table %q", call.Table)
		}
		switch call.Op {
		case "update-chains":
			t.add(ver, sets, call.Chains...)
		case "insert-or-append", "append":
			var rs []string
			for k := range call.Rules {
				txt, as, err := renderParse(g.nft, nil, &call.Rules[k], call.Chain, ver, sets)
				if err != nil {
					fatal("cannot parse hook rule %q: %v", txt, err)
				}
				rs = append(rs, as...)
			}
			if strings.ContainsAny(call.Chain, "\"\\") {
				fatal("kernel chain name %q", call.Chain)
			}
			w.hooks = append(w.hooks, fmt.Sprintf("(pair (pair (pair %d \"%s\") %s) %s)", tabNum[call.Table], call.Chain, b(call.Op == "append"), listTerm(rs)))
		default:
			fatal("wiring: unexpected operation %q", call.Op)
		}
	}

	// ---- policy and profile chains
	for i, id := range normal.ids {
		w.filter.add(ver, sets, rr.PolicyToIptablesChains(id, normal.pols[i], uint8(ver))...)
		w.mangle.add(ver, sets, rr.PolicyToIptablesChains(id, normal.pols[i], uint8(ver))...) // for the mangle egress chains
	}
	for i, id := range untracked.ids {
		w.raw.add(ver, sets, rr.PolicyToIptablesChains(id, untracked.pols[i], uint8(ver))...)
	}
	for i, id := range prednat.ids {
		w.mangle.add(ver, sets, rr.PolicyToIptablesChains(id, prednat.pols[i], uint8(ver))...)
	}
	for _, pid := range profIDs {
		prof := &proto.Profile{}
		for k := r.intn(3); k > 0; k-- {
			prof.InboundRules = append(prof.InboundRules, genRule(r, ver, g.fsIn))
			prof.OutboundRules = append(prof.OutboundRules, genRule(r, ver, g.fsOut))
		}
		in, out := rr.ProfileToIptablesChains(&types.ProfileID{Name: pid}, prof, uint8(ver))
		w.filter.add(ver, sets, in, out)
		w.mangle.add(ver, sets, in, out)
	}
	addGroups := func(t *tableAcc, done map[string]bool, groups []*rules.PolicyGroup) {
		for _, gr := range groups {
			if gr.ShouldBeInlined() || done[gr.ChainName()] {
				continue
			}
			done[gr.ChainName()] = true
			t.add(ver, sets, rr.PolicyGroupToIptablesChains(gr)...)
		}
	}
	doneF, doneR, doneM := map[string]bool{}, map[string]bool{}, map[string]bool{}

	// ---- workloads
	eps := map[types.WorkloadEndpointID]*proto.WorkloadEndpoint{}
	for i, n := range w.wlNames {
		eps[types.WorkloadEndpointID{OrchestratorId: "k8s", WorkloadId: fmt.Sprintf("w%d", i), EndpointId: "eth0"}] = &proto.WorkloadEndpoint{Name: n}
		tiers, groups := normal.tiers(r)
		addGroups(w.filter, doneF, groups)
		w.filter.add(ver, sets, rr.WorkloadEndpointToIptablesChains(n, epmm, !r.chance(10), tiers, profIDs, nil)...)
		w.wlChains[n] = rules.EndpointChainName(rules.WorkloadFromEndpointPfx, n, maxLen)
	}
	if g.nft {
		from, to := rr.DispatchMappings(eps)
		for frag, mp := range map[string]map[string][]string{rules.NftablesFromWorkloadDispatchMap: from, rules.NftablesToWorkloadDispatchMap: to} {
			var names []string
			for n := range mp {
				names = append(names, n)
			}
			sort.Strings(names)
			exp := []string{}
			for _, n := range names {
				v := mp[n]
				if len(v) != 1 || !strings.HasPrefix(v[0], "goto cali-") || strings.ContainsAny(v[0][5:], " \"\\") {
					fatal("unexpected verdict map element %q -> %v", n, v)
				}
				k := "MInIface"
				if frag == rules.NftablesToWorkloadDispatchMap {
					k = "MOutIface"
				}
				exp = append(exp, fmt.Sprintf("(Build_irule %s (AGoto \"%s\"))", listTerm([]string{fmt.Sprintf("(%s false %s false)", k, nameBytes(n))}), v[0][5:]))
			}
			w.filter.vmaps[nftables.LegalizeSetName(frag)] = exp
		}
	}
	w.filter.add(ver, sets, rr.WorkloadDispatchChains(eps)...)

	// ---- host endpoints
	filtMap, rawMap, preMap := map[string]types.HostEndpointID{}, map[string]types.HostEndpointID{}, map[string]types.HostEndpointID{}
	all := append([]string{}, w.hepNames...)
	const anyIface = "any-interface-at-all"
	if w.wildcard {
		all = append(all, anyIface)
	}
	preDefault := ""
	for i, n := range all {
		id := types.HostEndpointID{EndpointId: fmt.Sprintf("hep%d", i)}
		tiers, groups := normal.tiers(r)
		addGroups(w.filter, doneF, groups)
		fwdTiers, fgroups := normal.tiers(r)
		addGroups(w.filter, doneF, fgroups)
		w.filter.add(ver, sets, rr.HostEndpointToFilterChains(n, tiers, fwdTiers, epmm, profIDs)...)
		addGroups(w.mangle, doneM, groups)
		w.mangle.add(ver, sets, rr.HostEndpointToMangleEgressChains(n, tiers, profIDs)...)
		if n != anyIface {
			filtMap[n] = id
		}
		if ut, ugroups := untracked.tiers(r); len(ut) > 0 && n != anyIface {
			addGroups(w.raw, doneR, ugroups)
			w.raw.add(ver, sets, rr.HostEndpointToRawChains(n, ut)...)
			rawMap[n] = id
		}
		if pt, pgroups := prednat.tiers(r); len(pt) > 0 {
			addGroups(w.mangle, doneM, pgroups)
			w.mangle.add(ver, sets, rr.HostEndpointToMangleIngressChains(n, pt)...)
			if n == anyIface {
				preDefault = anyIface
			} else {
				preMap[n] = id
			}
		}
	}
	def := ""
	if w.wildcard {
		def = anyIface
	}
	w.filter.add(ver, sets, rr.HostDispatchChains(filtMap, def, true)...)
	if g.cfg.KubeIPVSSupportEnabled {
		w.filter.add(ver, sets, rr.EndpointMarkDispatchChains(epmm, eps, filtMap)...)
	}
	w.raw.add(ver, sets, rr.HostDispatchChains(rawMap, "", false)...)
	w.mangle.add(ver, sets, rr.FromHostDispatchChains(preMap, preDefault)...)
	w.mangle.add(ver, sets, rr.ToHostDispatchChains(filtMap, def)...)
	var dscp []*rules.DSCPRule
	for k := r.intn(3); k > 0; k-- {
		src := fmt.Sprintf("10.%d.0.0/16", k)
		if g.v6() {
			src = fmt.Sprintf("fd00:%x::/32", k)
		}
		dscp = append(dscp, &rules.DSCPRule{SrcAddrs: src, Value: uint8(r.intn(64))})
	}
	w.mangle.add(ver, sets, rr.EgressDSCPChain(dscp))

	// ---- the remaining callees of the static chains
	var blocked []string
	if r.chance(50) {
		blocked = []string{"10.96.0.0/12", "fd00:96::/108"}
	}
	w.filter.add(ver, sets, rr.BlockedCIDRsToIptablesChains(blocked, uint8(ver))...)
	w.raw.add(ver, sets, &generictables.Chain{Name: rules.ChainRpfSkip}) // rendered by the endpoint manager; empty when no workload skips RPF
	return w
}

func (w *world) known(n string) bool {
	_, ok := w.wlChains[n]
	return ok
}

// ---------------------------------------------------------------- probes

func addrIn(r *rng, netStr string, ver int) *big.Int {
	s := netStr
	if !strings.Contains(s, "/") {
		if net.ParseIP(s) == nil {
			return randIP(r, ver)
		}
		return parseIP(s)
	}
	_, ipn, err := net.ParseCIDR(s)
	if err != nil {
		return randIP(r, ver)
	}
	base := new(big.Int).SetBytes(ipn.IP)
	ones, bits := ipn.Mask.Size()
	if bits-ones > 0 {
		span := bits - ones
		if span > 16 {
			span = 16
		}
		base.Add(base, big.NewInt(int64(r.intn(1<<uint(span)))))
	}
	return base
}

func (w *world) probes(r *rng) []*pkt {
	g := w.g
	ver := g.ver
	cts := []string{"CtNew", "CtNew", "CtEstablished", "CtRelated", "CtUntracked", "CtInvalid"}
	marks := []uint32{0, 0, g.ml.endpoint, g.ml.nonCali, g.ml.accept, g.ml.pass, g.ml.s0, g.ml.accept | g.ml.s1, 0xffffffff, g.ml.drop, uint32(r.next())}
	nonWl := append([]string{"eth0", "eth1", "ens5", "bond0", "lo", "eth9", "wg0", ""}, w.hepNames...)
	ipPool := append(append(append(append([]*big.Int{}, w.hostIPs...), w.vxlanIPs...), w.otherIPs...), w.localIPs...)
	base := func(why string) *pkt {
		p := &pkt{ver: ver, proto: []int{6, 17, 6, 17, 132, 1, 58, 4}[r.intn(8)], why: why,
			src: ipPool[r.intn(len(ipPool))], dst: ipPool[r.intn(len(ipPool))],
			sport: int(fsPorts[r.intn(len(fsPorts))]), dport: int(fsPorts[r.intn(len(fsPorts))]),
			in: nonWl[r.intn(len(nonWl))], out: nonWl[r.intn(len(nonWl))],
			ct: cts[r.intn(len(cts))], mark: marks[r.intn(len(marks))]}
		if r.chance(30) {
			p.sport = r.intn(65536)
		}
		if r.chance(20) {
			p.dport = r.intn(65536)
		}
		if nps := g.cfg.KubeNodePortRanges; len(nps) > 0 && r.chance(25) {
			p.dport = int(nps[r.intn(len(nps))].MinPort)
		}
		if p.proto == 58 || p.proto == 1 {
			p.icmpType = []int{128, 129, 130, 131, 132, 133, 134, 135, 136, 137, 8, 0}[r.intn(12)]
			p.sport, p.dport = 0, 0
		}
		for id := 1; id <= 6; id++ {
			if r.chance(50) {
				p.other = append(p.other, id)
			}
		}
		return p
	}
	unknownName := func() string {
		for {
			n := g.prefixes[r.intn(len(g.prefixes))] + r.pick([]string{"", "x", "zz9", "a", "ab", "abcd", "b", "b3", "00", "+"})
			if r.chance(30) && len(w.wlNames) > 0 {
				k := w.wlNames[r.intn(len(w.wlNames))]
				n = k + "x"
				if r.chance(50) && len(k) > 1 {
					n = k[:len(k)-1]
				}
			}
			if !w.known(n) && hasPrefixAny(n, g.prefixes) && !strings.Contains(n, "+") {
				return n
			}
		}
	}
	var out []*pkt
	// failsafe hits, in and out, and their responses
	for _, dir := range []string{"in", "out"} {
		fs := g.fsIn
		if dir == "out" {
			fs = g.fsOut
		}
		for _, e := range fs {
			if !r.chance(60) && len(fs) > 3 {
				continue
			}
			p := base("failsafe-" + dir)
			p.proto, p.dport = e.proto, int(e.pp.Port)
			addr := randIP(r, ver)
			if e.pp.Net != "" && r.chance(80) {
				addr = addrIn(r, e.pp.Net, ver)
			}
			if dir == "in" {
				p.src = addr
			} else {
				p.dst = addr
			}
			if r.chance(70) {
				p.ct = "CtNew"
			}
			out = append(out, p)
			q := base("failsafe-resp-" + dir)
			q.proto, q.sport = e.proto, int(e.pp.Port)
			if dir == "in" {
				q.dst = addr // leaving: response to an inbound connection
			} else {
				q.src = addr
			}
			out = append(out, q)
		}
	}
	// unknown workload interfaces
	for i := 0; i < 4; i++ {
		p := base("unknown-wl")
		p.in = unknownName()
		if r.chance(30) && len(w.wlNames) > 0 {
			p.out = w.wlNames[r.intn(len(w.wlNames))]
		}
		out = append(out, p)
	}
	// known workloads to the host
	for _, n := range w.wlNames {
		for i := 0; i < 2; i++ {
			p := base("wl-to-host")
			p.in = n
			if r.chance(60) {
				p.ct = "CtNew"
			}
			out = append(out, p)
		}
	}
	// tunnels
	for i := 0; i < 4; i++ {
		p := base("tunnel")
		if i%2 == 0 {
			p.proto = 4
		} else {
			p.proto, p.dport = 17, g.cfg.VXLANPort
		}
		switch r.intn(3) {
		case 0:
			p.src = w.hostIPs[r.intn(len(w.hostIPs))]
		case 1:
			p.src = w.vxlanIPs[r.intn(len(w.vxlanIPs))]
		}
		if r.chance(70) && !p.hasOther(1) {
			p.other = append(p.other, 1)
		}
		if r.chance(25) {
			p.in = unknownName()
		}
		out = append(out, p)
	}
	// pre-policy special cases (ND, OpenStack) from workload interfaces
	for i := 0; i < 3; i++ {
		p := base("pre-policy")
		if r.chance(50) || len(w.wlNames) == 0 {
			p.in = unknownName()
		} else {
			p.in = w.wlNames[r.intn(len(w.wlNames))]
		}
		switch r.intn(4) {
		case 0:
			p.proto, p.icmpType, p.sport, p.dport = 58, []int{130, 131, 132, 133, 135, 136}[r.intn(6)], 0, 0
		case 1:
			p.proto, p.dport = 17, 53
		case 2:
			p.proto, p.sport, p.dport = 17, 68, 67
			if ver == 6 {
				p.sport, p.dport = 546, 547
			}
		case 3:
			p.proto = 6
			if g.cfg.OpenStackMetadataIP != nil {
				p.dst = new(big.Int).SetBytes(g.cfg.OpenStackMetadataIP.To4())
				p.dport = int(g.cfg.OpenStackMetadataPort)
			}
		}
		out = append(out, p)
	}
	// established flows from unknown workload interfaces (wildcard host endpoint)
	for i := 0; i < 2; i++ {
		p := base("unknown-wl-est")
		p.in = unknownName()
		p.ct = []string{"CtEstablished", "CtRelated"}[r.intn(2)]
		if len(w.wlNames) > 0 {
			p.out = w.wlNames[r.intn(len(w.wlNames))] // towards a known workload: met first when its prefix comes earlier
		}
		out = append(out, p)
	}
	for i := 0; i < 4; i++ {
		out = append(out, base("random"))
	}
	return out
}

// the two classes of known deviations (Spec.v: pre_policy_exempt, est_accepted_early), decided on the INPUT
func (w *world) classOf(p *pkt) string {
	g := w.g
	if !hasPrefixAny(p.in, g.prefixes) {
		return ""
	}
	nd := g.v6() && p.proto == 58 && (p.icmpType >= 130 && p.icmpType <= 136 && p.icmpType != 134)
	os := false
	if g.cfg.OpenStackSpecialCasesEnabled {
		dh := p.sport == 68 && p.dport == 67
		if g.v6() {
			dh = p.sport == 546 && p.dport == 547
		}
		os = p.proto == 17 && (p.dport == 53 || dh)
		if !g.v6() && g.cfg.OpenStackMetadataIP != nil && p.proto == 6 && p.dport == int(g.cfg.OpenStackMetadataPort) &&
			p.dst.Cmp(new(big.Int).SetBytes(g.cfg.OpenStackMetadataIP.To4())) == 0 {
			os = true
		}
	}
	est := !w.known(p.in) && (p.ct == "CtEstablished" || p.ct == "CtRelated")
	switch {
	case (nd || os) && est:
		return "both" // never emitted
	case nd || os:
		return "pre-policy"
	case est:
		return "est-early"
	}
	return ""
}

func (w *world) caseTerm(ps []*pkt) string {
	var wl []string
	for _, n := range w.wlNames {
		wl = append(wl, fmt.Sprintf("(pair %s \"%s\")", nameBytes(n), w.wlChains[n]))
	}
	mem := func(xs []*big.Int) string {
		var ms []string
		for _, x := range xs {
			ms = append(ms, "(MemIP "+x.String()+")")
		}
		return listTerm(ms)
	}
	sets := listTerm([]string{fmt.Sprintf("(pair 1 %s)", mem(w.hostIPs)), fmt.Sprintf("(pair 2 %s)", mem(w.vxlanIPs)), fmt.Sprintf("(pair 3 %s)", mem(w.localIPs))})
	var pts []string
	for _, p := range ps {
		pts = append(pts, p.term())
	}
	return fmt.Sprintf("(Build_case %s %s %s %s %s %s %s %s)", w.g.term, w.raw.term(), w.mangle.term(), w.filter.term(),
		listTerm(w.hooks), listTerm(wl), sets, listTerm(pts))
}

func main() {
	n := flag.Int("n", 100, "number of configurations")
	seed := flag.Uint64("seed", 40, "seed")
	flag.Parse()
	logrus.SetOutput(io.Discard)
	logrus.SetLevel(logrus.PanicLevel)
	r := &rng{s: *seed*0x9e3779b97f4a7c15 + 40}
	enc := json.NewEncoder(os.Stdout)
	stats := map[string]int{}
	for i := 0; i < *n; i++ {
		w := build(r)
		all := w.probes(r)
		byClass := map[string][]*pkt{}
		for _, p := range all {
			c := w.classOf(p)
			if c == "both" {
				continue
			}
			byClass[c] = append(byClass[c], p)
			stats["probe:"+p.why]++
		}
		g := w.g
		flav := "flavor:iptables"
		if g.nft {
			flav = "flavor:nft"
		}
		baseTags := []string{flav, fmt.Sprintf("ipv%d", g.ver), "ep-to-host:" + g.cfg.EndpointToHostAction, "filter-allow:" + g.cfg.FilterAllowAction,
			"mangle-allow:" + g.cfg.MangleAllowAction, "deny:" + g.cfg.FilterDenyAction,
			fmt.Sprintf("ipip:%v", g.cfg.IPIPEnabled), fmt.Sprintf("vxlan4:%v", g.cfg.VXLANEnabled), fmt.Sprintf("vxlan6:%v", g.cfg.VXLANEnabledV6),
			fmt.Sprintf("wireguard-raw:%v", g.wgRaw), fmt.Sprintf("openstack:%v", g.cfg.OpenStackSpecialCasesEnabled), fmt.Sprintf("istio:%v", g.cfg.IstioAmbientModeEnabled), fmt.Sprintf("kube-ipvs:%v", g.cfg.KubeIPVSSupportEnabled), fmt.Sprintf("nodeport-ranges:%d", min(len(g.cfg.KubeNodePortRanges), 8)),
			fmt.Sprintf("prefixes:%d", len(g.prefixes)), fmt.Sprintf("wildcard-hep:%v", w.wildcard),
			fmt.Sprintf("workloads:%d", min(len(w.wlNames), 6)), fmt.Sprintf("heps:%d", len(w.hepNames)),
			fmt.Sprintf("failsafe-in:%d", min(len(g.fsIn), 8)), fmt.Sprintf("failsafe-out:%d", min(len(g.fsOut), 8))}
		for _, cl := range []string{"", "pre-policy", "est-early"} {
			ps := byClass[cl]
			if len(ps) == 0 || (cl != "" && i%3 != 0) {
				continue // the two known deviations are exercised on every 3rd configuration only
			}
			tags := append([]string{}, baseTags...)
			if cl == "" {
				tags = append(tags, "class:main")
			} else {
				tags = append(tags, "class:"+cl)
			}
			l := line{Coq: w.caseTerm(ps), Tags: tags,
				NT:  len(ps) >= 8 && (len(g.fsIn)+len(g.fsOut) > 0) && len(w.filter.names) >= 8,
				Key: fmt.Sprintf("%s|%s|%v|%v|%d", cl, g.term, w.wlNames, w.hepNames, i)}
			if i < 3 && cl == "" {
				l.Sample = map[string]any{"config": fmt.Sprintf("%+v", struct {
					Ver                   int
					Prefixes              []string
					FsIn, FsOut           []config.ProtoPort
					IPIP, VXLAN4, VXLAN6  bool
					EpToHost, FilterAllow string
				}{g.ver, g.prefixes, g.cfg.FailsafeInboundHostPorts, g.cfg.FailsafeOutboundHostPorts, g.cfg.IPIPEnabled, g.cfg.VXLANEnabled, g.cfg.VXLANEnabledV6, g.cfg.EndpointToHostAction, g.cfg.FilterAllowAction}),
					"cali-INPUT": w.filter.texts[rules.ChainFilterInput], "cali-failsafe-in(raw)": w.raw.texts[rules.ChainFailsafeIn],
					"workloads": w.wlNames, "heps": w.hepNames, "probes": len(ps)}
			}
			if err := enc.Encode(l); err != nil {
				fatal("encode: %v", err)
			}
		}
	}
	_ = enc.Encode(map[string]any{"stats": stats})
}
