//go:build verif

// C40: observe the hook wiring from the REAL setUpIptablesNormal.  An InternalDataplane is built with recording
// generictables.Table fakes for the raw, mangle and filter tables (no NAT / ARP tables, no XDP) and the real rule
// renderer; every UpdateChains / InsertOrAppendRules / AppendRules call is recorded in order.
package intdataplane

import (
	"github.com/projectcalico/calico/felix/generictables"
	"github.com/projectcalico/calico/felix/iptables"
	"github.com/projectcalico/calico/felix/nftables"
	"github.com/projectcalico/calico/felix/rules"
)

type VerifC40Call struct {
	Table  string // raw | mangle | filter
	Op     string // update-chains | insert-or-append | append
	Chain  string // kernel chain for the rule operations
	Rules  []generictables.Rule
	Chains []*generictables.Chain
}

type verifC40Table struct {
	*generictables.NoopTable
	name string
	ver  uint8
	rec  *[]VerifC40Call
}

func (t *verifC40Table) Name() string     { return t.name }
func (t *verifC40Table) IPVersion() uint8 { return t.ver }
func (t *verifC40Table) InsertOrAppendRules(chain string, rs []generictables.Rule) {
	*t.rec = append(*t.rec, VerifC40Call{Table: t.name, Op: "insert-or-append", Chain: chain, Rules: rs})
}
func (t *verifC40Table) AppendRules(chain string, rs []generictables.Rule) {
	*t.rec = append(*t.rec, VerifC40Call{Table: t.name, Op: "append", Chain: chain, Rules: rs})
}
func (t *verifC40Table) UpdateChains(cs []*generictables.Chain) {
	*t.rec = append(*t.rec, VerifC40Call{Table: t.name, Op: "update-chains", Chains: cs})
}
func (t *verifC40Table) UpdateChain(c *generictables.Chain) {
	*t.rec = append(*t.rec, VerifC40Call{Table: t.name, Op: "update-chains", Chains: []*generictables.Chain{c}})
}

// VerifC40Wiring runs the real (*InternalDataplane).setUpIptablesNormal against recording tables.
func VerifC40Wiring(rr rules.RuleRenderer, nft bool, ipVersion uint8) []VerifC40Call {
	var rec []VerifC40Call
	mk := func(name string) generictables.Table {
		return &verifC40Table{NoopTable: generictables.NewNoopTable(), name: name, ver: ipVersion, rec: &rec}
	}
	d := &InternalDataplane{
		ruleRenderer: rr,
		actions:      iptables.Actions(),
		newMatch:     iptables.Match,
		rawTables:    []generictables.Table{mk("raw")},
		mangleTables: []generictables.Table{mk("mangle")},
		filterTables: []generictables.Table{mk("filter")},
	}
	if nft {
		d.actions = nftables.Actions()
		d.newMatch = nftables.Match
		d.nftablesEnabled = true
	}
	d.setUpIptablesNormal()
	return rec
}
