//go:build verif

package cachingmap

import "github.com/projectcalico/calico/felix/deltatracker"

// VerifTracker exposes the delta tracker behind the CachingMap so that the C18 driver can dump the
// pending-updates / pending-deletions views (the CachingMap API has no accessor for them).
func (c *CachingMap[K, V]) VerifTracker() *deltatracker.DeltaTracker[K, V] { return c.deltaTracker }
