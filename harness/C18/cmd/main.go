//go:build verif

// C18 correspondence driver: runs the real felix/deltatracker DeltaTracker[int,int] (with two
// different valuesEqual functions) and SetDeltaTracker[int] on generated operation sequences,
// dumps all four views (sorted) after every operation and prints one JSON line per case carrying
// the case as a Coq term of type Verif.C18.Spec.case.
package main

import (
	"encoding/json"
	"errors"
	"flag"
	"fmt"
	"os"
	"sort"
	"strings"

	dt "github.com/projectcalico/calico/felix/deltatracker"
)

type rng struct{ s uint64 }

func (r *rng) next() uint64 {
	r.s += 0x9e3779b97f4a7c15
	z := r.s
	z = (z ^ (z >> 30)) * 0xbf58476d1ce4e5b9
	z = (z ^ (z >> 27)) * 0x94d049bb133111eb
	return z ^ (z >> 31)
}
func (r *rng) intn(n int) int { return int(r.next() % uint64(n)) }

type line struct {
	Coq    string         `json:"coq"`
	NT     bool           `json:"nt"`
	Key    string         `json:"key"`
	Sample map[string]any `json:"sample,omitempty"`
	Tags   []string       `json:"tags"`
}

type kv struct{ k, v int }

type dump struct {
	des, dp, pu          []kv
	pd                   []int
	deslen, dplen        int
	pulen, pdlen         int
	gets                 [][4]*int
	ub                   int
	poisoned             bool
}

// tracker is the common face of the map tracker and the set tracker.  The four views are
// obtained ONCE, when the tracker is created, and reused for the whole case.
type tracker interface {
	DesSet(k, v int)
	DesDel(k int)
	DesDelAll()
	DpSet(k, v int)
	DpDel(k int)
	DpDelAll()
	ReplaceMap(m map[int]int)
	ReplaceIter(kvs []kv, fail bool) error
	IterUpd(f func(k, v int) dt.IterAction)
	IterDel(f func(k int) dt.IterAction)
	Dump(univ []int) dump
}

// ---- map tracker ----
type mapT struct {
	des *dt.DesiredView[int, int]
	dp  *dt.DataplaneView[int, int]
	pu  *dt.PendingUpdatesView[int, int]
	pd  *dt.PendingDeletionsView[int, int]
}

func newMapT(eq func(a, b int) bool) *mapT {
	t := dt.New[int, int](dt.WithValuesEqualFn[int, int](eq))
	return &mapT{des: t.Desired(), dp: t.Dataplane(), pu: t.PendingUpdates(), pd: t.PendingDeletions()}
}
func (t *mapT) DesSet(k, v int)          { t.des.Set(k, v) }
func (t *mapT) DesDel(k int)             { t.des.Delete(k) }
func (t *mapT) DesDelAll()               { t.des.DeleteAll() }
func (t *mapT) DpSet(k, v int)           { t.dp.Set(k, v) }
func (t *mapT) DpDel(k int)              { t.dp.Delete(k) }
func (t *mapT) DpDelAll()                { t.dp.DeleteAll() }
func (t *mapT) ReplaceMap(m map[int]int) { t.dp.ReplaceAllMap(m) }

var errIter = errors.New("iterator failed")

func (t *mapT) ReplaceIter(kvs []kv, fail bool) error {
	return t.dp.ReplaceAllIter(func(f func(k, v int)) error {
		for _, x := range kvs {
			f(x.k, x.v)
		}
		if fail {
			return errIter
		}
		return nil
	})
}
func (t *mapT) IterUpd(f func(k, v int) dt.IterAction) { t.pu.Iter(f) }
func (t *mapT) IterDel(f func(k int) dt.IterAction)    { t.pd.Iter(f) }

func optp(v int, ok bool) *int {
	if !ok {
		return nil
	}
	x := v
	return &x
}

func (t *mapT) Dump(univ []int) dump {
	var d dump
	t.des.Iter(func(k, v int) { d.des = append(d.des, kv{k, v}) })
	t.dp.Iter(func(k, v int) { d.dp = append(d.dp, kv{k, v}) })
	t.pu.Iter(func(k, v int) dt.IterAction { d.pu = append(d.pu, kv{k, v}); return dt.IterActionNoOp })
	t.pd.Iter(func(k int) dt.IterAction { d.pd = append(d.pd, k); return dt.IterActionNoOp })
	d.deslen, d.dplen, d.pulen, d.pdlen = t.des.Len(), t.dp.Len(), t.pu.Len(), t.pd.Len()
	for _, k := range univ {
		var g [4]*int
		g[0] = optp(t.des.Get(k))
		g[1] = optp(t.dp.Get(k))
		g[2] = optp(t.pu.Get(k))
		g[3] = optp(t.pd.Get(k))
		d.gets = append(d.gets, g)
	}
	d.ub = -1
	return d
}

// ---- set tracker ----
type setT struct {
	raw *dt.SetDeltaTracker[int]
	des *dt.DesiredSetView[int]
	dp  *dt.DataplaneSetView[int]
	pu  *dt.PendingUpdatesSetView[int]
	pd  *dt.PendingDeletionsSetView[int]
}

func newSetT() *setT {
	t := dt.NewSetDeltaTracker[int]()
	return &setT{raw: t, des: t.Desired(), dp: t.Dataplane(), pu: t.PendingUpdates(), pd: t.PendingDeletions()}
}
func (t *setT) DesSet(k, v int) { t.des.Add(k) }
func (t *setT) DesDel(k int)    { t.des.Delete(k) }
func (t *setT) DesDelAll()      { t.des.DeleteAll() }
func (t *setT) DpSet(k, v int)  { t.dp.Add(k) }
func (t *setT) DpDel(k int)     { t.dp.Delete(k) }
func (t *setT) DpDelAll()       { t.dp.DeleteAll() }
func (t *setT) ReplaceMap(m map[int]int) {
	// the set API has no ReplaceAllMap; iterate the Go map (runtime order) through ReplaceFromIter
	_ = t.dp.ReplaceFromIter(func(f func(k int)) error {
		for k := range m {
			f(k)
		}
		return nil
	})
}
func (t *setT) ReplaceIter(kvs []kv, fail bool) error {
	return t.dp.ReplaceFromIter(func(f func(k int)) error {
		for _, x := range kvs {
			f(x.k)
		}
		if fail {
			return errIter
		}
		return nil
	})
}
func (t *setT) IterUpd(f func(k, v int) dt.IterAction) {
	t.pu.Iter(func(k int) dt.IterAction { return f(k, 0) })
}
func (t *setT) IterDel(f func(k int) dt.IterAction) { t.pd.Iter(f) }

func optb(ok bool) *int {
	if !ok {
		return nil
	}
	z := 0
	return &z
}

func (t *setT) Dump(univ []int) dump {
	var d dump
	t.des.Iter(func(k int) { d.des = append(d.des, kv{k, 0}) })
	t.dp.Iter(func(k int) { d.dp = append(d.dp, kv{k, 0}) })
	t.pu.Iter(func(k int) dt.IterAction { d.pu = append(d.pu, kv{k, 0}); return dt.IterActionNoOp })
	t.pd.Iter(func(k int) dt.IterAction { d.pd = append(d.pd, k); return dt.IterActionNoOp })
	// the set views of Desired/Dataplane expose no Len(); the underlying map tracker (same struct) does
	mt := (*dt.DeltaTracker[int, struct{}])(t.raw)
	d.deslen, d.dplen = mt.Desired().Len(), mt.Dataplane().Len()
	d.pulen, d.pdlen = t.pu.Len(), t.pd.Len()
	for _, k := range univ {
		var g [4]*int
		g[0] = optb(t.des.Contains(k))
		g[1] = optb(t.dp.Contains(k))
		g[2] = optb(t.pu.Contains(k))
		g[3] = optb(t.pd.Contains(k))
		d.gets = append(d.gets, g)
	}
	d.ub = t.des.LenUpperBound()
	return d
}

// ---- Coq printing ----
func kvsCoq(xs []kv) string {
	ys := make([]string, len(xs))
	for i, x := range xs {
		ys[i] = fmt.Sprintf("(%d,%d)", x.k, x.v)
	}
	return "[" + strings.Join(ys, ";") + "]"
}
func intsCoq(xs []int) string {
	ys := make([]string, len(xs))
	for i, x := range xs {
		ys[i] = fmt.Sprint(x)
	}
	return "[" + strings.Join(ys, ";") + "]"
}
func optCoq(p *int) string {
	if p == nil {
		return "None"
	}
	return fmt.Sprintf("Some %d", *p)
}
func sortKVs(xs []kv) {
	sort.Slice(xs, func(i, j int) bool {
		if xs[i].k != xs[j].k {
			return xs[i].k < xs[j].k
		}
		return xs[i].v < xs[j].v
	})
}
func (d dump) coq() string {
	sortKVs(d.des)
	sortKVs(d.dp)
	sortKVs(d.pu)
	sort.Ints(d.pd)
	gs := make([]string, len(d.gets))
	for i, g := range d.gets {
		gs[i] = fmt.Sprintf("(%s,%s,%s,%s)", optCoq(g[0]), optCoq(g[1]), optCoq(g[2]), optCoq(g[3]))
	}
	dl := d.deslen
	if d.poisoned {
		dl = -999
	}
	return fmt.Sprintf("(Obs %s (%d)%%Z %s (%d)%%Z %s (%d)%%Z %s (%d)%%Z [%s] (%d)%%Z)",
		kvsCoq(d.des), dl, kvsCoq(d.dp), d.dplen, kvsCoq(d.pu), d.pulen, intsCoq(d.pd), d.pdlen,
		strings.Join(gs, ";"), d.ub)
}
func (d dump) short() string {
	return fmt.Sprintf("des=%v dp=%v pu=%v pd=%v", d.des, d.dp, d.pu, d.pd)
}

var actCoq = map[dt.IterAction]string{dt.IterActionNoOp: "ANoOp", dt.IterActionUpdateDataplane: "AUpd", dt.IterActionNoOpStopIteration: "AStop"}

const nKeys = 6

func main() {
	n := flag.Int("n", 100, "cases")
	seed := flag.Uint64("seed", 1, "seed")
	flag.Parse()
	r := &rng{s: *seed}
	enc := json.NewEncoder(os.Stdout)
	univ := []int{0, 1, 2, 3, 4, 5, 6} // key 6 is never written: Get of an absent key
	callsAfterStop := 0
	for i := 0; i < *n; i++ {
		var t tracker
		var kind string
		nVals := 3
		switch r.intn(5) {
		case 0, 1:
			kind = "KExact"
			t = newMapT(func(a, b int) bool { return a == b })
		case 2, 3:
			kind = "KCoarse"
			nVals = 4
			t = newMapT(func(a, b int) bool { return a/2 == b/2 })
		default:
			kind = "KSet"
			nVals = 1
			t = newSetT()
		}
		// stream "dup": iterators handed to ReplaceAllIter/ReplaceFromIter may produce a key twice
		dupStream := r.intn(8) == 0
		nk := 2 + r.intn(nKeys-1) // keys 0..nk-1 (small domains make collisions likely)
		nops := 6 + r.intn(35)
		var ops, outs, sample []string
		tags := []string{"kind:" + kind}
		if dupStream {
			tags = append(tags, "stream:dup")
		}
		sawUpd, sawDel, sawReplace, sawErr, sawBoth, sawDupKey, sawStop := false, false, false, false, false, false, false
		for j := 0; j < nops; j++ {
			k := r.intn(nk)
			v := r.intn(nVals)
			var op string
			poisoned := false
			switch c := r.intn(100); {
			case c < 20:
				t.DesSet(k, v)
				op = fmt.Sprintf("DesSet %d %d", k, v)
			case c < 30:
				t.DesDel(k)
				op = fmt.Sprintf("DesDel %d", k)
			case c < 32:
				t.DesDelAll()
				op = "DesDelAll"
			case c < 48:
				t.DpSet(k, v)
				op = fmt.Sprintf("DpSet %d %d", k, v)
			case c < 56:
				t.DpDel(k)
				op = fmt.Sprintf("DpDel %d", k)
			case c < 58:
				t.DpDelAll()
				op = "DpDelAll"
			case c < 64:
				// ReplaceAllMap with a Go map (its own runtime iteration order, no duplicate keys)
				m := map[int]int{}
				for kk := 0; kk < nk; kk++ {
					if r.intn(2) == 0 {
						m[kk] = r.intn(nVals)
					}
				}
				t.ReplaceMap(m)
				var xs []kv
				for kk, vv := range m {
					xs = append(xs, kv{kk, vv})
				}
				sortKVs(xs)
				op = fmt.Sprintf("Replace %s false", kvsCoq(xs))
				sawReplace = true
			case c < 74:
				// ReplaceAllIter with an explicit sequence, optionally failing after a prefix
				perm := make([]int, nk)
				for kk := range perm {
					perm[kk] = kk
				}
				for a := nk - 1; a > 0; a-- {
					b := r.intn(a + 1)
					perm[a], perm[b] = perm[b], perm[a]
				}
				var xs []kv
				for _, kk := range perm {
					if r.intn(3) != 0 {
						xs = append(xs, kv{kk, r.intn(nVals)})
					}
				}
				if dupStream && len(xs) > 0 && r.intn(2) == 0 {
					// the iterator shows some key again (possibly with another value), anywhere later
					nd := 1 + r.intn(2)
					for a := 0; a < nd; a++ {
						src := xs[r.intn(len(xs))]
						pos := r.intn(len(xs) + 1)
						x := kv{src.k, r.intn(nVals)}
						xs = append(xs[:pos], append([]kv{x}, xs[pos:]...)...)
					}
					sawDupKey = true
				}
				fail := r.intn(3) == 0
				if fail && len(xs) > 0 {
					xs = xs[:r.intn(len(xs)+1)] // fails part-way
				}
				err := t.ReplaceIter(xs, fail)
				if (err != nil) != fail || (err != nil && !errors.Is(err, errIter)) {
					poisoned = true
				}
				op = fmt.Sprintf("Replace %s %v", kvsCoq(xs), fail)
				sawReplace = true
				sawErr = sawErr || fail
			case c < 88:
				// PendingUpdates().Iter with a per-key answer table fixed before the iteration
				var table [nKeys]dt.IterAction
				allUpd := r.intn(4) == 0
				for kk := range table {
					switch x := r.intn(20); {
					case allUpd || x < 11:
						table[kk] = dt.IterActionUpdateDataplane
					case x < 18:
						table[kk] = dt.IterActionNoOp
					default:
						table[kk] = dt.IterActionNoOpStopIteration
					}
				}
				var tr []string
				stopped := false
				t.IterUpd(func(k, v int) dt.IterAction {
					a := table[k]
					tr = append(tr, fmt.Sprintf("(%d,%d,%s)", k, v, actCoq[a]))
					if stopped {
						callsAfterStop++
					}
					if a == dt.IterActionNoOpStopIteration {
						stopped, sawStop = true, true
					}
					if a == dt.IterActionUpdateDataplane {
						sawUpd = true
					}
					return a
				})
				op = "IterUpd [" + strings.Join(tr, ";") + "]"
			default:
				var table [nKeys]dt.IterAction
				allUpd := r.intn(4) == 0
				for kk := range table {
					switch x := r.intn(20); {
					case allUpd || x < 11:
						table[kk] = dt.IterActionUpdateDataplane
					case x < 18:
						table[kk] = dt.IterActionNoOp
					default:
						table[kk] = dt.IterActionNoOpStopIteration
					}
				}
				var tr []string
				stopped := false
				t.IterDel(func(k int) dt.IterAction {
					a := table[k]
					tr = append(tr, fmt.Sprintf("(%d,%s)", k, actCoq[a]))
					if stopped {
						callsAfterStop++
					}
					if a == dt.IterActionNoOpStopIteration {
						stopped, sawStop = true, true
					}
					if a == dt.IterActionUpdateDataplane {
						sawDel = true
					}
					return a
				})
				op = "IterDel [" + strings.Join(tr, ";") + "]"
			}
			d := t.Dump(univ)
			d.poisoned = poisoned
			if len(d.pu) > 0 && len(d.pd) > 0 {
				sawBoth = true
			}
			ops = append(ops, "("+op+")")
			outs = append(outs, d.coq())
			if len(sample) < 12 {
				sample = append(sample, op+" -> "+d.short())
			}
		}
		for _, x := range []struct {
			b bool
			s string
		}{{sawUpd, "iter-applied-update"}, {sawDel, "iter-applied-deletion"}, {sawReplace, "replace"}, {sawErr, "replace-error"},
			{sawDupKey, "replace-duplicate-key"}, {sawStop, "stop-requested"}, {sawBoth, "updates-and-deletions-pending"}} {
			if x.b {
				tags = append(tags, x.s)
			}
		}
		coq := fmt.Sprintf("{| c_kind := %s; c_univ := %s; c_ops := [%s]; c_outs := [%s] |}", kind, intsCoq(univ),
			strings.Join(ops, ";"), strings.Join(outs, ";"))
		_ = enc.Encode(line{Coq: coq, NT: (sawUpd || sawDel) && sawReplace && sawBoth,
			Key:    kind + "|" + strings.Join(ops, ";"),
			Sample: map[string]any{"kind": kind, "trace": sample}, Tags: tags})
	}
	_ = enc.Encode(map[string]any{"stats": map[string]any{
		"callbacks_invoked_after_IterActionNoOpStopIteration": callsAfterStop,
		"note": "informational: >0 means `break` inside the switch of Iter does not stop the range loop"}})
}
