//go:build verif

// C18 correspondence driver: runs the real felix/deltatracker DeltaTracker[int,int] (with two
// different valuesEqual functions) and SetDeltaTracker[int] on generated operation sequences,
// dumps all four views (sorted) after every operation and prints one JSON line per case carrying
// the case as a Coq term of type Verif.C18.Spec.case.
package main

import (
	"encoding/json"
	"errors"
	"flag"
	"fmt"
	"os"
	"sort"
	"strings"

	"github.com/sirupsen/logrus"

	"github.com/projectcalico/calico/felix/cachingmap"
	dt "github.com/projectcalico/calico/felix/deltatracker"
)

type rng struct{ s uint64 }

func (r *rng) next() uint64 {
	r.s += 0x9e3779b97f4a7c15
	z := r.s
	z = (z ^ (z >> 30)) * 0xbf58476d1ce4e5b9
	z = (z ^ (z >> 27)) * 0x94d049bb133111eb
	return z ^ (z >> 31)
}
func (r *rng) intn(n int) int { return int(r.next() % uint64(n)) }

type line struct {
	Coq    string         `json:"coq"`
	NT     bool           `json:"nt"`
	Key    string         `json:"key"`
	Sample map[string]any `json:"sample,omitempty"`
	Tags   []string       `json:"tags"`
}

type kv struct{ k, v int }

type dump struct {
	des, dp, pu          []kv
	pd                   []int
	deslen, dplen        int
	pulen, pdlen         int
	gets                 [][4]*int
	ub                   int
	poisoned             bool
	calls                [][]kv
	real                 []kv
	nerr                 int
}

// tracker is the common face of the map tracker and the set tracker.  The four views are
// obtained ONCE, when the tracker is created, and reused for the whole case.
type tracker interface {
	DesSet(k, v int)
	DesDel(k int)
	DesDelAll()
	DpSet(k, v int)
	DpDel(k int)
	DpDelAll()
	ReplaceMap(m map[int]int)
	ReplaceIter(kvs []kv, fail bool) error
	IterUpd(f func(k, v int) dt.IterAction)
	IterDel(f func(k int) dt.IterAction)
	IterBatchUpd(f func(ks, vs []int) (int, error)) bool
	IterBatchDel(f func(ks []int) (int, error)) bool
	Dump(univ []int) dump
}

// ---- map tracker ----
type mapT struct {
	insync func() bool
	des *dt.DesiredView[int, int]
	dp  *dt.DataplaneView[int, int]
	pu  *dt.PendingUpdatesView[int, int]
	pd  *dt.PendingDeletionsView[int, int]
}

func newMapT(eq func(a, b int) bool) *mapT {
	t := dt.New[int, int](dt.WithValuesEqualFn[int, int](eq))
	return &mapT{insync: t.InSync, des: t.Desired(), dp: t.Dataplane(), pu: t.PendingUpdates(), pd: t.PendingDeletions()}
}
func (t *mapT) DesSet(k, v int)          { t.des.Set(k, v) }
func (t *mapT) DesDel(k int)             { t.des.Delete(k) }
func (t *mapT) DesDelAll()               { t.des.DeleteAll() }
func (t *mapT) DpSet(k, v int)           { t.dp.Set(k, v) }
func (t *mapT) DpDel(k int)              { t.dp.Delete(k) }
func (t *mapT) DpDelAll()                { t.dp.DeleteAll() }
func (t *mapT) ReplaceMap(m map[int]int) { t.dp.ReplaceAllMap(m) }

var errIter = errors.New("iterator failed")

func (t *mapT) ReplaceIter(kvs []kv, fail bool) error {
	return t.dp.ReplaceAllIter(func(f func(k, v int)) error {
		for _, x := range kvs {
			f(x.k, x.v)
		}
		if fail {
			return errIter
		}
		return nil
	})
}
func (t *mapT) IterUpd(f func(k, v int) dt.IterAction) { t.pu.Iter(f) }
func (t *mapT) IterDel(f func(k int) dt.IterAction)    { t.pd.Iter(f) }
func (t *mapT) IterBatchUpd(f func(ks, vs []int) (int, error)) bool {
	t.pu.IterBatched(f)
	return true
}
func (t *mapT) IterBatchDel(f func(ks []int) (int, error)) bool {
	t.pd.IterBatched(f)
	return true
}

func optp(v int, ok bool) *int {
	if !ok {
		return nil
	}
	x := v
	return &x
}

func (t *mapT) Dump(univ []int) dump {
	var d dump
	t.des.Iter(func(k, v int) { d.des = append(d.des, kv{k, v}) })
	t.dp.Iter(func(k, v int) { d.dp = append(d.dp, kv{k, v}) })
	t.pu.Iter(func(k, v int) dt.IterAction { d.pu = append(d.pu, kv{k, v}); return dt.IterActionNoOp })
	t.pd.Iter(func(k int) dt.IterAction { d.pd = append(d.pd, k); return dt.IterActionNoOp })
	d.deslen, d.dplen, d.pulen, d.pdlen = t.des.Len(), t.dp.Len(), t.pu.Len(), t.pd.Len()
	for _, k := range univ {
		var g [4]*int
		g[0] = optp(t.des.Get(k))
		g[1] = optp(t.dp.Get(k))
		g[2] = optp(t.pu.Get(k))
		g[3] = optp(t.pd.Get(k))
		d.gets = append(d.gets, g)
	}
	d.ub = -1
	// InSync() must say exactly "nothing pending" (a disagreement poisons the observation)
	if t.insync != nil && t.insync() != (len(d.pu) == 0 && len(d.pd) == 0) {
		d.poisoned = true
	}
	return d
}

// ---- set tracker ----
type setT struct {
	raw *dt.SetDeltaTracker[int]
	des *dt.DesiredSetView[int]
	dp  *dt.DataplaneSetView[int]
	pu  *dt.PendingUpdatesSetView[int]
	pd  *dt.PendingDeletionsSetView[int]
}

func newSetT() *setT {
	t := dt.NewSetDeltaTracker[int]()
	return &setT{raw: t, des: t.Desired(), dp: t.Dataplane(), pu: t.PendingUpdates(), pd: t.PendingDeletions()}
}
func (t *setT) DesSet(k, v int) { t.des.Add(k) }
func (t *setT) DesDel(k int)    { t.des.Delete(k) }
func (t *setT) DesDelAll()      { t.des.DeleteAll() }
func (t *setT) DpSet(k, v int)  { t.dp.Add(k) }
func (t *setT) DpDel(k int)     { t.dp.Delete(k) }
func (t *setT) DpDelAll()       { t.dp.DeleteAll() }
func (t *setT) ReplaceMap(m map[int]int) {
	// the set API has no ReplaceAllMap; iterate the Go map (runtime order) through ReplaceFromIter
	_ = t.dp.ReplaceFromIter(func(f func(k int)) error {
		for k := range m {
			f(k)
		}
		return nil
	})
}
func (t *setT) ReplaceIter(kvs []kv, fail bool) error {
	return t.dp.ReplaceFromIter(func(f func(k int)) error {
		for _, x := range kvs {
			f(x.k)
		}
		if fail {
			return errIter
		}
		return nil
	})
}
func (t *setT) IterUpd(f func(k, v int) dt.IterAction) {
	t.pu.Iter(func(k int) dt.IterAction { return f(k, 0) })
}
func (t *setT) IterDel(f func(k int) dt.IterAction) { t.pd.Iter(f) }

// the set views have no IterBatched
func (t *setT) IterBatchUpd(f func(ks, vs []int) (int, error)) bool { return false }
func (t *setT) IterBatchDel(f func(ks []int) (int, error)) bool     { return false }

func optb(ok bool) *int {
	if !ok {
		return nil
	}
	z := 0
	return &z
}

func (t *setT) Dump(univ []int) dump {
	var d dump
	t.des.Iter(func(k int) { d.des = append(d.des, kv{k, 0}) })
	t.dp.Iter(func(k int) { d.dp = append(d.dp, kv{k, 0}) })
	t.pu.Iter(func(k int) dt.IterAction { d.pu = append(d.pu, kv{k, 0}); return dt.IterActionNoOp })
	t.pd.Iter(func(k int) dt.IterAction { d.pd = append(d.pd, k); return dt.IterActionNoOp })
	// the set views of Desired/Dataplane expose no Len(); the underlying map tracker (same struct) does
	mt := (*dt.DeltaTracker[int, struct{}])(t.raw)
	d.deslen, d.dplen = mt.Desired().Len(), mt.Dataplane().Len()
	d.pulen, d.pdlen = t.pu.Len(), t.pd.Len()
	for _, k := range univ {
		var g [4]*int
		g[0] = optb(t.des.Contains(k))
		g[1] = optb(t.dp.Contains(k))
		g[2] = optb(t.pu.Contains(k))
		g[3] = optb(t.pd.Contains(k))
		d.gets = append(d.gets, g)
	}
	d.ub = t.des.LenUpperBound()
	if t.raw.InSync() != (len(d.pu) == 0 && len(d.pd) == 0) {
		d.poisoned = true
	}
	return d
}

// ---- Coq printing ----
func kvsCoq(xs []kv) string {
	ys := make([]string, len(xs))
	for i, x := range xs {
		ys[i] = fmt.Sprintf("(%d,%d)", x.k, x.v)
	}
	return "[" + strings.Join(ys, ";") + "]"
}
func intsCoq(xs []int) string {
	ys := make([]string, len(xs))
	for i, x := range xs {
		ys[i] = fmt.Sprint(x)
	}
	return "[" + strings.Join(ys, ";") + "]"
}
func optCoq(p *int) string {
	if p == nil {
		return "None"
	}
	return fmt.Sprintf("Some %d", *p)
}
func sortKVs(xs []kv) {
	sort.Slice(xs, func(i, j int) bool {
		if xs[i].k != xs[j].k {
			return xs[i].k < xs[j].k
		}
		return xs[i].v < xs[j].v
	})
}
func (d dump) coq() string {
	sortKVs(d.des)
	sortKVs(d.dp)
	sortKVs(d.pu)
	sort.Ints(d.pd)
	gs := make([]string, len(d.gets))
	for i, g := range d.gets {
		gs[i] = fmt.Sprintf("(%s,%s,%s,%s)", optCoq(g[0]), optCoq(g[1]), optCoq(g[2]), optCoq(g[3]))
	}
	dl := d.deslen
	if d.poisoned {
		dl = -999
	}
	cs := make([]string, len(d.calls))
	for i, c := range d.calls {
		cs[i] = kvsCoq(c)
	}
	sortKVs(d.real)
	return fmt.Sprintf("(Obs %s (%d)%%Z %s (%d)%%Z %s (%d)%%Z %s (%d)%%Z [%s] (%d)%%Z [%s] %s (%d)%%Z)",
		kvsCoq(d.des), dl, kvsCoq(d.dp), d.dplen, kvsCoq(d.pu), d.pulen, intsCoq(d.pd), d.pdlen,
		strings.Join(gs, ";"), d.ub, strings.Join(cs, ";"), kvsCoq(d.real), d.nerr)
}
func (d dump) short() string {
	if len(d.des)+len(d.dp) > 24 {
		return fmt.Sprintf("|des|=%d |dp|=%d |pu|=%d |pd|=%d batches=%d", len(d.des), len(d.dp), len(d.pu), len(d.pd), len(d.calls))
	}
	return fmt.Sprintf("des=%v dp=%v pu=%v pd=%v real=%v nerr=%d", d.des, d.dp, d.pu, d.pd, d.real, d.nerr)
}

var actCoq = map[dt.IterAction]string{dt.IterActionNoOp: "ANoOp", dt.IterActionUpdateDataplane: "AUpd", dt.IterActionNoOpStopIteration: "AStop"}

const nKeys = 6

var errFail = errors.New("injected failure")
var errNotExist = errors.New("does not exist")

// fakeDP is the dataplane map behind the CachingMap: a Go map with injected failures; it records every call.
type fakeDP struct {
	m        map[int]int
	failUpd  map[int]bool
	failDel  map[int]bool
	failLoad bool
	upd      []string // (k,v,ok)
	del      []string // (k,ok)   ok = nil or ErrNotExists
}

func (f *fakeDP) Update(k, v int) error {
	if f.failUpd[k] {
		f.upd = append(f.upd, fmt.Sprintf("(%d,%d,false)", k, v))
		return errFail
	}
	f.m[k] = v
	f.upd = append(f.upd, fmt.Sprintf("(%d,%d,true)", k, v))
	return nil
}
func (f *fakeDP) Delete(k int) error {
	if f.failDel[k] {
		f.del = append(f.del, fmt.Sprintf("(%d,false)", k))
		return errFail
	}
	f.del = append(f.del, fmt.Sprintf("(%d,true)", k))
	if _, ok := f.m[k]; !ok {
		return errNotExist
	}
	delete(f.m, k)
	return nil
}
func (f *fakeDP) Load() (map[int]int, error) {
	if f.failLoad {
		return nil, errFail
	}
	c := map[int]int{}
	for k, v := range f.m {
		c[k] = v
	}
	return c, nil
}
func (f *fakeDP) ErrIsNotExists(err error) bool { return err == errNotExist }

// fakeDPB additionally implements cachingmap.DataplaneBatchedMap, which makes CachingMap take the IterBatched path.
type fakeDPB struct {
	*fakeDP
	partial        bool
	callsU, callsD []string
	shownU, shownD [][]kv
}

func (f *fakeDPB) BatchUpdate(ks, vs []int) (int, error) {
	n, code := 0, 0
	b := make([]kv, len(ks))
	for i := range ks {
		b[i] = kv{ks[i], vs[i]}
	}
	for i := range ks {
		if f.failUpd[ks[i]] {
			code = 1
			break
		}
		if f.partial && n >= 1 && i%2 == 1 {
			break // short write without an error
		}
		f.m[ks[i]] = vs[i]
		n++
	}
	f.shownU = append(f.shownU, b)
	f.callsU = append(f.callsU, fmt.Sprintf("(%s,(%d%%nat,%d))", kvsCoq(b), n, code))
	if code == 1 {
		return n, errFail
	}
	return n, nil
}
func (f *fakeDPB) BatchDelete(ks []int) (int, error) {
	n, code := 0, 0
	b := make([]kv, len(ks))
	for i := range ks {
		b[i] = kv{ks[i], 0}
	}
	for i := range ks {
		if f.failDel[ks[i]] {
			code = 1
			break
		}
		if _, ok := f.m[ks[i]]; !ok {
			code = 2
			break
		}
		if f.partial && n >= 1 && i%2 == 1 {
			break
		}
		delete(f.m, ks[i])
		n++
	}
	f.shownD = append(f.shownD, b)
	f.callsD = append(f.callsD, fmt.Sprintf("(%s,(%d%%nat,%d))", kvsCoq(b), n, code))
	switch code {
	case 1:
		return n, errFail
	case 2:
		return n, errNotExist
	}
	return n, nil
}

func nerrOf(err error) int {
	if err == nil {
		return 0
	}
	var es cachingmap.ErrSlice
	if errors.As(err, &es) {
		return len(es)
	}
	return 1
}

type out struct {
	ops, outs, sample []string
	tags              map[string]bool
}

func (o *out) add(op string, d dump) {
	o.ops = append(o.ops, "(COp ("+op+"))")
	o.outs = append(o.outs, d.coq())
	if len(o.sample) < 12 {
		if len(op) > 160 {
			op = op[:160] + "..."
		}
		o.sample = append(o.sample, op+" -> "+d.short())
	}
}
func (o *out) addC(op string, d dump) {
	o.ops = append(o.ops, "("+op+")")
	o.outs = append(o.outs, d.coq())
	if len(o.sample) < 14 {
		o.sample = append(o.sample, op+" -> "+d.short())
	}
}

func callsCoq(batches [][]kv, resps [][2]int) string {
	xs := make([]string, len(batches))
	for i := range batches {
		xs[i] = fmt.Sprintf("(%s,(%d%%nat,%v))", kvsCoq(batches[i]), resps[i][0], resps[i][1] == 1)
	}
	return "[" + strings.Join(xs, ";") + "]"
}

// batched iteration with random answers; returns the Coq op and the batches shown
func doBatchUpd(t tracker, r *rng, o *out) (string, [][]kv, bool) {
	var batches [][]kv
	var resps [][2]int
	ok := t.IterBatchUpd(func(ks, vs []int) (int, error) {
		b := make([]kv, len(ks))
		for i := range ks {
			b[i] = kv{ks[i], vs[i]}
		}
		n, e := answer(r, len(ks), o)
		batches = append(batches, b)
		resps = append(resps, [2]int{n, e})
		if e == 1 {
			return n, errFail
		}
		return n, nil
	})
	return "IterBatchUpd " + callsCoq(batches, resps), batches, ok
}
func doBatchDel(t tracker, r *rng, o *out) (string, [][]kv, bool) {
	var batches [][]kv
	var resps [][2]int
	ok := t.IterBatchDel(func(ks []int) (int, error) {
		b := make([]kv, len(ks))
		for i := range ks {
			b[i] = kv{ks[i], 0}
		}
		n, e := answer(r, len(ks), o)
		batches = append(batches, b)
		resps = append(resps, [2]int{n, e})
		if e == 1 {
			return n, errFail
		}
		return n, nil
	})
	return "IterBatchDel " + callsCoq(batches, resps), batches, ok
}

// applyFn's answer for a batch of l items: how many leading items were applied, and whether the next one failed
func answer(r *rng, l int, o *out) (int, int) {
	switch x := r.intn(20); {
	case x < 9:
		return l, 0 // whole batch
	case x < 14 && l > 0:
		o.tags["batch-error"] = true
		return r.intn(l), 1 // an item failed: applied < l
	case x < 19 && l > 0:
		o.tags["batch-partial"] = true
		return 1 + r.intn(l), 0 // partial, no error
	default:
		o.tags["batch-zero"] = true
		return 0, 0 // nothing applied, no error (the tail loop asks again)
	}
}

func main() {
	n := flag.Int("n", 100, "cases")
	seed := flag.Uint64("seed", 1, "seed")
	flag.Parse()
	logrus.SetLevel(logrus.FatalLevel)
	r := &rng{s: *seed}
	enc := json.NewEncoder(os.Stdout)
	univ := []int{0, 1, 2, 3, 4, 5, 6} // key 6 is never written: Get of an absent key
	callsAfterStop := 0
	for i := 0; i < *n; i++ {
		o := &out{tags: map[string]bool{}}
		var kind string
		nt := false
		switch c := r.intn(40); {
		case c == 0:
			kind, nt = bigCase(r, o, univ)
		case c < 9:
			kind = "KCache"
			nt = cacheCase(r, o, univ)
		default:
			kind, nt = trackerCase(r, o, univ, &callsAfterStop)
		}
		var tags []string
		for t := range o.tags {
			tags = append(tags, t)
		}
		sort.Strings(tags)
		tags = append([]string{"kind:" + kind}, tags...)
		coq := fmt.Sprintf("{| c_kind := %s; c_univ := %s; c_ops := [%s]; c_outs := [%s] |}", kind, intsCoq(univ),
			strings.Join(o.ops, ";"), strings.Join(o.outs, ";"))
		_ = enc.Encode(line{Coq: coq, NT: nt, Key: kind + "|" + strings.Join(o.ops, ";"),
			Sample: map[string]any{"kind": kind, "trace": o.sample}, Tags: tags})
	}
	_ = enc.Encode(map[string]any{"stats": map[string]any{
		"callbacks_invoked_after_IterActionNoOpStopIteration": callsAfterStop,
		"note": "informational: >0 means `break` inside the switch of Iter does not stop the range loop"}})
}

// bigCase: more keys than the batch size (128) so that the first loop of IterBatched calls applyFn mid-range.
func bigCase(r *rng, o *out, univ []int) (string, bool) {
	kind := "KExact"
	nVals := 3
	t := tracker(newMapT(func(a, b int) bool { return a == b }))
	if r.intn(2) == 0 {
		kind, nVals = "KCoarse", 4
		t = newMapT(func(a, b int) bool { return a/2 == b/2 })
	}
	o.tags["stream:big"] = true
	nk := 130 + r.intn(90)
	setMany := func(p int) {
		var xs []kv
		for k := 0; k < nk; k++ {
			if r.intn(100) < p {
				xs = append(xs, kv{k, r.intn(nVals)})
			}
		}
		for _, x := range xs {
			t.DesSet(x.k, x.v)
		}
		o.add("DesSetMany "+kvsCoq(xs), t.Dump(univ))
	}
	replace := func(p int) {
		m := map[int]int{}
		for k := 0; k < nk+40; k++ {
			if r.intn(100) < p {
				m[k] = r.intn(nVals)
			}
		}
		t.ReplaceMap(m)
		var xs []kv
		for k, v := range m {
			xs = append(xs, kv{k, v})
		}
		sortKVs(xs)
		o.add(fmt.Sprintf("Replace %s false", kvsCoq(xs)), t.Dump(univ))
	}
	setMany(85)
	replace(45)
	for j := 0; j < 2+r.intn(3); j++ {
		switch r.intn(5) {
		case 0:
			setMany(30)
		case 1:
			replace(60)
		case 2, 3:
			op, b, _ := doBatchUpd(t, r, o)
			d := t.Dump(univ)
			d.calls = b
			o.add(op, d)
		default:
			op, b, _ := doBatchDel(t, r, o)
			d := t.Dump(univ)
			d.calls = b
			o.add(op, d)
		}
	}
	op, b, _ := doBatchUpd(t, r, o)
	d := t.Dump(univ)
	d.calls = b
	o.add(op, d)
	op, b, _ = doBatchDel(t, r, o)
	d = t.Dump(univ)
	d.calls = b
	o.add(op, d)
	return kind, true
}

// cacheCase: the real CachingMap[int,int] over fakeDP.
func cacheCase(r *rng, o *out, univ []int) bool {
	f := &fakeDP{m: map[int]int{}}
	batched := r.intn(2) == 0
	fb := &fakeDPB{fakeDP: f}
	var cm *cachingmap.CachingMap[int, int]
	if batched {
		o.tags["cache:batched-map"] = true
		cm = cachingmap.New[int, int]("verif", fb)
	} else {
		cm = cachingmap.New[int, int]("verif", f)
	}
	tr := cm.VerifTracker()
	view := &mapT{insync: tr.InSync, des: tr.Desired(), dp: tr.Dataplane(), pu: tr.PendingUpdates(), pd: tr.PendingDeletions()}
	nk := 2 + r.intn(nKeys-1)
	nops := 6 + r.intn(30)
	sawApplyOK, sawApplyFail, sawExt := false, false, false
	inject := func() {
		f.failUpd, f.failDel, f.failLoad = map[int]bool{}, map[int]bool{}, false
		f.upd, f.del = nil, nil
		fb.callsU, fb.callsD, fb.shownU, fb.shownD = nil, nil, nil, nil
		fb.partial = r.intn(4) == 0
		if r.intn(2) == 0 {
			for k := 0; k < nk; k++ {
				if r.intn(4) == 0 {
					f.failUpd[k] = true
				}
				if r.intn(4) == 0 {
					f.failDel[k] = true
				}
			}
		}
		f.failLoad = r.intn(7) == 0
	}
	for j := 0; j < nops; j++ {
		k, v := r.intn(nk), r.intn(3)
		var op string
		nerr := 0
		switch c := r.intn(100); {
		case c < 4:
			// Dataplane() pass-through: the caller tells the cache what it did to the dataplane itself
			o.tags["cache:dataplane-passthrough"] = true
			switch r.intn(3) {
			case 0:
				cm.Dataplane().Set(k, v)
				op = fmt.Sprintf("COp (DpSet %d %d)", k, v)
			case 1:
				cm.Dataplane().Delete(k)
				op = fmt.Sprintf("COp (DpDel %d)", k)
			default:
				if r.intn(3) == 0 {
					cm.Dataplane().DeleteAll()
					op = "COp DpDelAll"
				} else {
					// two model steps: the pass-through, then the write it reports
					cm.Dataplane().Set(k, v)
					op = fmt.Sprintf("COp (DpSet %d %d)", k, v)
					d0 := view.Dump(univ)
					for kk, vv := range f.m {
						d0.real = append(d0.real, kv{kk, vv})
					}
					o.addC(op, d0)
					f.m[k] = v
					op = fmt.Sprintf("ExtSet %d %d", k, v)
				}
			}
		case c < 24:
			cm.Desired().Set(k, v)
			op = fmt.Sprintf("COp (DesSet %d %d)", k, v)
		case c < 36:
			cm.Desired().Delete(k)
			op = fmt.Sprintf("COp (DesDel %d)", k)
		case c < 39:
			cm.Desired().DeleteAll()
			op = "COp DesDelAll"
		case c < 50:
			f.m[k] = v
			op = fmt.Sprintf("ExtSet %d %d", k, v)
			sawExt = true
		case c < 57:
			delete(f.m, k)
			op = fmt.Sprintf("ExtDel %d", k)
			sawExt = true
		case c < 65:
			inject()
			f.failLoad = r.intn(4) == 0
			nerr = nerrOf(cm.LoadCacheFromDataplane())
			op = fmt.Sprintf("CLoad %v", f.failLoad)
		case c < 76:
			inject()
			nerr = nerrOf(cm.ApplyUpdatesOnly())
			op = fmt.Sprintf("CUpd %v [%s]", f.failLoad, strings.Join(f.upd, ";"))
			if batched {
				op = fmt.Sprintf("CUpdB %v [%s]", f.failLoad, strings.Join(fb.callsU, ";"))
			}
		case c < 86:
			inject()
			nerr = nerrOf(cm.ApplyDeletionsOnly())
			op = fmt.Sprintf("CDel %v [%s]", f.failLoad, strings.Join(f.del, ";"))
			if batched {
				op = fmt.Sprintf("CDelB %v [%s]", f.failLoad, strings.Join(fb.callsD, ";"))
			}
		default:
			inject()
			nerr = nerrOf(cm.ApplyAllChanges())
			op = fmt.Sprintf("CAll %v [%s] [%s]", f.failLoad, strings.Join(f.del, ";"), strings.Join(f.upd, ";"))
			if batched {
				op = fmt.Sprintf("CAllB %v [%s] [%s]", f.failLoad, strings.Join(fb.callsD, ";"), strings.Join(fb.callsU, ";"))
			}
			if nerr == 0 {
				sawApplyOK = true
				o.tags["apply-all-ok"] = true
			} else {
				sawApplyFail = true
				o.tags["apply-all-failed"] = true
			}
		}
		if nerr > 0 {
			o.tags["cache-op-error"] = true
		}
		d := view.Dump(univ)
		d.nerr = nerr
		if batched && (strings.HasPrefix(op, "CUpdB") || strings.HasPrefix(op, "CDelB") || strings.HasPrefix(op, "CAllB")) {
			d.calls = append(append([][]kv{}, fb.shownD...), fb.shownU...)
		}
		for kk, vv := range f.m {
			d.real = append(d.real, kv{kk, vv})
		}
		o.addC(op, d)
	}
	return sawApplyOK && sawApplyFail && sawExt
}

func trackerCase(r *rng, o *out, univ []int, callsAfterStop *int) (string, bool) {
	var t tracker
	var kind string
	nVals := 3
	switch r.intn(5) {
	case 0, 1:
		kind = "KExact"
		t = newMapT(func(a, b int) bool { return a == b })
	case 2, 3:
		kind = "KCoarse"
		nVals = 4
		t = newMapT(func(a, b int) bool { return a/2 == b/2 })
	default:
		kind = "KSet"
		nVals = 1
		t = newSetT()
	}
	// stream "dup": iterators handed to ReplaceAllIter/ReplaceFromIter may produce a key twice
	dupStream := r.intn(8) == 0
	nk := 2 + r.intn(nKeys-1) // keys 0..nk-1 (small domains make collisions likely)
	nops := 6 + r.intn(35)
	if dupStream {
		o.tags["stream:dup"] = true
	}
	sawUpd, sawDel, sawReplace, sawBoth := false, false, false, false
	for j := 0; j < nops; j++ {
		k := r.intn(nk)
		v := r.intn(nVals)
		var op string
		var shown [][]kv
		poisoned := false
		switch c := r.intn(100); {
		case c < 18:
			t.DesSet(k, v)
			op = fmt.Sprintf("DesSet %d %d", k, v)
		case c < 27:
			t.DesDel(k)
			op = fmt.Sprintf("DesDel %d", k)
		case c < 29:
			t.DesDelAll()
			op = "DesDelAll"
		case c < 44:
			t.DpSet(k, v)
			op = fmt.Sprintf("DpSet %d %d", k, v)
		case c < 51:
			t.DpDel(k)
			op = fmt.Sprintf("DpDel %d", k)
		case c < 53:
			t.DpDelAll()
			op = "DpDelAll"
		case c < 59:
			// ReplaceAllMap with a Go map (its own runtime iteration order, no duplicate keys)
			m := map[int]int{}
			for kk := 0; kk < nk; kk++ {
				if r.intn(2) == 0 {
					m[kk] = r.intn(nVals)
				}
			}
			t.ReplaceMap(m)
			var xs []kv
			for kk, vv := range m {
				xs = append(xs, kv{kk, vv})
			}
			sortKVs(xs)
			op = fmt.Sprintf("Replace %s false", kvsCoq(xs))
			sawReplace = true
		case c < 68:
			// ReplaceAllIter with an explicit sequence, optionally failing after a prefix
			perm := make([]int, nk)
			for kk := range perm {
				perm[kk] = kk
			}
			for a := nk - 1; a > 0; a-- {
				b := r.intn(a + 1)
				perm[a], perm[b] = perm[b], perm[a]
			}
			var xs []kv
			for _, kk := range perm {
				if r.intn(3) != 0 {
					xs = append(xs, kv{kk, r.intn(nVals)})
				}
			}
			if dupStream && len(xs) > 0 && r.intn(2) == 0 {
				// the iterator shows some key again (possibly with another value), anywhere later
				nd := 1 + r.intn(2)
				for a := 0; a < nd; a++ {
					src := xs[r.intn(len(xs))]
					pos := r.intn(len(xs) + 1)
					x := kv{src.k, r.intn(nVals)}
					xs = append(xs[:pos], append([]kv{x}, xs[pos:]...)...)
				}
				o.tags["replace-duplicate-key"] = true
			}
			fail := r.intn(3) == 0
			if fail && len(xs) > 0 {
				xs = xs[:r.intn(len(xs)+1)] // fails part-way
			}
			err := t.ReplaceIter(xs, fail)
			if (err != nil) != fail || (err != nil && !errors.Is(err, errIter)) {
				poisoned = true
			}
			op = fmt.Sprintf("Replace %s %v", kvsCoq(xs), fail)
			sawReplace = true
			if fail {
				o.tags["replace-error"] = true
			}
		case c < 80:
			// PendingUpdates().Iter with a per-key answer table fixed before the iteration
			table := answerTable(r)
			var tr []string
			stopped := false
			t.IterUpd(func(k, v int) dt.IterAction {
				a := table[k]
				tr = append(tr, fmt.Sprintf("(%d,%d,%s)", k, v, actCoq[a]))
				if stopped {
					*callsAfterStop++
				}
				if a == dt.IterActionNoOpStopIteration {
					stopped = true
					o.tags["stop-requested"] = true
				}
				if a == dt.IterActionUpdateDataplane {
					sawUpd = true
				}
				return a
			})
			op = "IterUpd [" + strings.Join(tr, ";") + "]"
		case c < 90:
			table := answerTable(r)
			var tr []string
			stopped := false
			t.IterDel(func(k int) dt.IterAction {
				a := table[k]
				tr = append(tr, fmt.Sprintf("(%d,%s)", k, actCoq[a]))
				if stopped {
					*callsAfterStop++
				}
				if a == dt.IterActionNoOpStopIteration {
					stopped = true
					o.tags["stop-requested"] = true
				}
				if a == dt.IterActionUpdateDataplane {
					sawDel = true
				}
				return a
			})
			op = "IterDel [" + strings.Join(tr, ";") + "]"
		case c < 95:
			var ok bool
			op, shown, ok = doBatchUpd(t, r, o)
			if !ok {
				t.DesSet(k, v)
				op = fmt.Sprintf("DesSet %d %d", k, v)
			} else {
				o.tags["iter-batched"] = true
			}
		default:
			var ok bool
			op, shown, ok = doBatchDel(t, r, o)
			if !ok {
				t.DesDel(k)
				op = fmt.Sprintf("DesDel %d", k)
			} else {
				o.tags["iter-batched"] = true
			}
		}
		d := t.Dump(univ)
		d.poisoned = d.poisoned || poisoned
		d.calls = shown
		if len(d.pu) > 0 && len(d.pd) > 0 {
			sawBoth = true
		}
		o.add(op, d)
	}
	for _, x := range []struct {
		b bool
		s string
	}{{sawUpd, "iter-applied-update"}, {sawDel, "iter-applied-deletion"}, {sawReplace, "replace"}, {sawBoth, "updates-and-deletions-pending"}} {
		if x.b {
			o.tags[x.s] = true
		}
	}
	return kind, (sawUpd || sawDel) && sawReplace && sawBoth
}

func answerTable(r *rng) [nKeys]dt.IterAction {
	var table [nKeys]dt.IterAction
	allUpd := r.intn(4) == 0
	for kk := range table {
		switch x := r.intn(20); {
		case allUpd || x < 11:
			table[kk] = dt.IterActionUpdateDataplane
		case x < 18:
			table[kk] = dt.IterActionNoOp
		default:
			table[kk] = dt.IterActionNoOpStopIteration
		}
	}
	return table
}
