//go:build verif

// C12 correspondence driver: ONE generated endpoint policy state (tiers of enforced / staged policies with a default
// action, profiles, IP-set members; one direction, one IP version) and ONE list of probe packets go through the four
// REAL implementations:
//
//	iptables, nftables : rules.NewRenderer(cfg, nft) - WorkloadEndpointToIptablesChains, PolicyToIptablesChains,
//	                     PolicyGroupToIptablesChains, ProfileToIptablesChains; every rule rendered to text by the real
//	                     rule renderers and parsed into the abstract syntax of Common/Ipt.v (parse.go = C09's parser);
//	                     evaluated by Ipt.run inside Coq
//	BPF                : the real bpfEndpointManager.extractRules (shim VerifExtractRules) on the same proto objects,
//	                     then polprog.Builder.Instructions; the instruction words are executed by C11/Bpf.v inside Coq
//	checker            : a real policystore filled through PolicyStore.ProcessUpdate with the same proto objects
//	                     (ActivePolicyUpdate, ActiveProfileUpdate, IPSetUpdate with Felix's own member strings), then
//	                     checker.checkStore (shim VerifCheckStore) per probe; the status code is the observable.
//
// One JSON line per case carries the case as a Coq term (Verif.C12.Spec.case).
package main

import (
	"encoding/binary"
	"encoding/json"
	"flag"
	"fmt"
	"io"
	"math/big"
	"net"
	"os"
	"sort"
	"strings"

	"github.com/sirupsen/logrus"

	"github.com/projectcalico/calico/app-policy/checker"
	"github.com/projectcalico/calico/app-policy/policystore"
	"github.com/projectcalico/calico/felix/bpf/asm"
	"github.com/projectcalico/calico/felix/bpf/polprog"
	intdataplane "github.com/projectcalico/calico/felix/dataplane/linux"
	"github.com/projectcalico/calico/felix/environment"
	"github.com/projectcalico/calico/felix/generictables"
	"github.com/projectcalico/calico/felix/ip"
	"github.com/projectcalico/calico/felix/ipsets"
	"github.com/projectcalico/calico/felix/iptables"
	"github.com/projectcalico/calico/felix/labelindex/ipsetmember"
	"github.com/projectcalico/calico/felix/nftables"
	"github.com/projectcalico/calico/felix/proto"
	"github.com/projectcalico/calico/felix/rules"
	"github.com/projectcalico/calico/felix/types"
)

type rng struct{ s uint64 }

func (r *rng) next() uint64 {
	r.s += 0x9e3779b97f4a7c15
	z := r.s
	z = (z ^ (z >> 30)) * 0xbf58476d1ce4e5b9
	z = (z ^ (z >> 27)) * 0x94d049bb133111eb
	return z ^ (z >> 31)
}
func (r *rng) intn(n int) int    { return int(r.next() % uint64(n)) }
func (r *rng) chance(p int) bool { return r.intn(100) < p }

type line struct {
	Coq    string         `json:"coq"`
	NT     bool           `json:"nt"`
	Key    string         `json:"key"`
	Feat   string         `json:"feat,omitempty"`
	Sample map[string]any `json:"sample,omitempty"`
	Tags   []string       `json:"tags"`
}

// ------------------------------------------------------------------ rules (generator side)

type cidr struct {
	v6   bool
	addr *big.Int
	len  int
}

func (c cidr) width() int {
	if c.v6 {
		return 128
	}
	return 32
}
func addrString(v6 bool, a *big.Int) string {
	if v6 {
		return net.IP(a.FillBytes(make([]byte, 16))).String()
	}
	b := a.FillBytes(make([]byte, 4))
	return fmt.Sprintf("%d.%d.%d.%d", b[0], b[1], b[2], b[3])
}
func (c cidr) String() string { return fmt.Sprintf("%s/%d", addrString(c.v6, c.addr), c.len) }
func (c cidr) coq() string {
	if c.v6 {
		return fmt.Sprintf("(C6 %s %d)", c.addr.String(), c.len)
	}
	return fmt.Sprintf("(C4 %s %d)", c.addr.String(), c.len)
}
func (c cidr) contains(x *big.Int) bool {
	sh := uint(c.width() - c.len)
	return new(big.Int).Rsh(x, sh).Cmp(new(big.Int).Rsh(c.addr, sh)) == 0
}
func mkCIDR(s string) cidr {
	parts := strings.Split(s, "/")
	var l int
	fmt.Sscanf(parts[1], "%d", &l)
	return cidr{v6: strings.Contains(s, ":"), addr: parseIP(parts[0]), len: l}
}

type prange struct{ first, last int }

type grule struct {
	action                                   string
	ipver                                    int // 0,4,6
	proto, notProto                          int // -1 none
	protoByName                              bool
	srcNets, dstNets, notSrcNets, notDstNets []cidr
	srcPorts, dstPorts, notDstPorts          []prange
	srcNamed, dstNamed, notDstNamed          []int
	notSrcNamed                              []int
	srcSets, dstSets, notSrcSets, notDstSets []int
	dstIPPortSets                            []int
	icmpType                                 int // -1 none
}

var protoNames = map[int]string{1: "icmp", 6: "tcp", 17: "udp", 58: "icmpv6", 132: "sctp", 136: "udplite"}

func setID(i int) string { return fmt.Sprintf("s%d", i) }

func (g *grule) toProto() *proto.Rule {
	r := &proto.Rule{Action: g.action}
	switch g.ipver {
	case 4:
		r.IpVersion = proto.IPVersion_IPV4
	case 6:
		r.IpVersion = proto.IPVersion_IPV6
	}
	mkp := func(n int, byName bool) *proto.Protocol {
		if n < 0 {
			return nil
		}
		if byName && protoNames[n] != "" {
			return &proto.Protocol{NumberOrName: &proto.Protocol_Name{Name: protoNames[n]}}
		}
		return &proto.Protocol{NumberOrName: &proto.Protocol_Number{Number: int32(n)}}
	}
	r.Protocol = mkp(g.proto, g.protoByName)
	r.NotProtocol = mkp(g.notProto, false)
	nets := func(cs []cidr) (out []string) {
		for _, c := range cs {
			out = append(out, c.String())
		}
		return
	}
	r.SrcNet, r.DstNet, r.NotSrcNet, r.NotDstNet = nets(g.srcNets), nets(g.dstNets), nets(g.notSrcNets), nets(g.notDstNets)
	ports := func(ps []prange) (out []*proto.PortRange) {
		for _, p := range ps {
			out = append(out, &proto.PortRange{First: int32(p.first), Last: int32(p.last)})
		}
		return
	}
	r.SrcPorts, r.DstPorts, r.NotDstPorts = ports(g.srcPorts), ports(g.dstPorts), ports(g.notDstPorts)
	ids := func(is []int) (out []string) {
		for _, i := range is {
			out = append(out, setID(i))
		}
		return
	}
	r.SrcNamedPortIpSetIds, r.DstNamedPortIpSetIds = ids(g.srcNamed), ids(g.dstNamed)
	r.NotDstNamedPortIpSetIds = ids(g.notDstNamed)
	r.NotSrcNamedPortIpSetIds = ids(g.notSrcNamed)
	r.SrcIpSetIds, r.DstIpSetIds, r.NotSrcIpSetIds, r.NotDstIpSetIds = ids(g.srcSets), ids(g.dstSets), ids(g.notSrcSets), ids(g.notDstSets)
	r.DstIpPortSetIds = ids(g.dstIPPortSets)
	if g.icmpType >= 0 {
		r.Icmp = &proto.Rule_IcmpType{IcmpType: int32(g.icmpType)}
	}
	return r
}

// typed constants for empty lists / None (Spec.v): an untyped [] or None costs Coq's elaboration milliseconds each
func coqListT[T any](xs []T, f func(T) string, nilName string) string {
	if len(xs) == 0 {
		return nilName
	}
	ys := make([]string, len(xs))
	for i, x := range xs {
		ys[i] = f(x)
	}
	return "[" + strings.Join(ys, "; ") + "]"
}
func coqList[T any](xs []T, f func(T) string) string {
	ys := make([]string, len(xs))
	for i, x := range xs {
		ys[i] = f(x)
	}
	return "[" + strings.Join(ys, "; ") + "]"
}
func coqN(i int) string        { return fmt.Sprintf("%d", i) }
func coqRange(p prange) string { return fmt.Sprintf("(%d, %d)", p.first, p.last) }
func coqOptN(i int) string {
	if i < 0 {
		return "oN"
	}
	return fmt.Sprintf("(Some %d)", i)
}
func coqBool(b bool) string {
	if b {
		return "true"
	}
	return "false"
}

// positional Build_rule (Spec.R)
func (g *grule) coq() string {
	act := map[string]string{"": "Allow", "allow": "Allow", "deny": "Deny", "pass": "Pass", "next-tier": "Pass", "log": "Log"}[g.action]
	iv := "oV"
	if g.ipver == 4 {
		iv = "(Some V4)"
	} else if g.ipver == 6 {
		iv = "(Some V6)"
	}
	cs := func(c []cidr) string { return coqListT(c, cidr.coq, "nC") }
	ps := func(p []prange) string { return coqListT(p, coqRange, "nP") }
	ns := func(n []int) string { return coqListT(n, coqN, "nN") }
	icmp := "oI"
	if g.icmpType >= 0 {
		icmp = fmt.Sprintf("(Some (IcmpType %d))", g.icmpType)
	}
	return fmt.Sprintf("(R %s %s %s %s %s %s %s %s %s %s %s %s %s %s %s nP %s %s oI %s %s %s %s)",
		act, iv, coqOptN(g.proto), cs(g.srcNets), ps(g.srcPorts), ns(g.srcNamed),
		cs(g.dstNets), ps(g.dstPorts), ns(g.dstNamed), icmp, ns(g.srcSets), ns(g.dstSets),
		ns(g.dstIPPortSets), coqOptN(g.notProto), cs(g.notSrcNets), cs(g.notDstNets),
		ps(g.notDstPorts), ns(g.notSrcSets), ns(g.notDstSets), ns(g.notSrcNamed), ns(g.notDstNamed))
}

// ------------------------------------------------------------------ the small universe rules and packets live in

const nNetSets, nPortSets = 4, 4 // set ids 1..4: NET sets (selectors); 5..8: IP_AND_PORT sets (named ports / services)

type universe struct {
	ver    int
	addrs  []*big.Int
	nets   []cidr
	odd    []cidr // prefix lengths strictly between w-8 and w
	ports  []int
	protos []int
}

func newUniverse(ver int) *universe {
	u := &universe{ver: ver, ports: []int{80, 443, 8080, 53, 4789, 1000}}
	if ver == 4 {
		for _, a := range []string{"10.0.0.1", "10.0.0.2", "10.0.0.130", "10.0.1.1", "10.0.1.2", "192.168.0.1", "172.16.0.9"} {
			u.addrs = append(u.addrs, parseIP(a))
		}
		for _, n := range []string{"10.0.0.0/24", "10.0.1.0/24", "10.0.0.0/16", "10.0.0.1/32", "192.168.0.0/16", "10.0.0.0/25", "10.0.0.128/25", "172.16.0.0/12"} {
			u.nets = append(u.nets, mkCIDR(n))
		}
		for _, n := range []string{"10.0.0.0/25", "10.0.0.128/25", "10.0.1.0/30", "10.0.0.2/31", "172.16.0.8/29"} {
			u.odd = append(u.odd, mkCIDR(n))
		}
		u.protos = []int{6, 17, 1, 4, 132}
	} else {
		for _, a := range []string{"fd00::1", "fd00::2", "fd00::82", "fd00:1::1", "fd00:1::2", "fe80::1", "2001:db8::9"} {
			u.addrs = append(u.addrs, parseIP(a))
		}
		for _, n := range []string{"fd00::/64", "fd00:1::/64", "fd00::/16", "fd00::1/128", "fe80::/10", "fd00::/65", "fd00::8000:0:0:0/65", "2001:db8::/32"} {
			u.nets = append(u.nets, mkCIDR(n))
		}
		for _, n := range []string{"fd00::/121", "fd00::80/121", "fd00:1::/126", "fd00::2/127", "2001:db8::8/125"} {
			u.odd = append(u.odd, mkCIDR(n))
		}
		u.protos = []int{6, 17, 58, 4, 132}
	}
	return u
}

type packet struct {
	proto        int
	src, dst     *big.Int
	sport, dport int
	ityp, icode  int
	mark         uint32
}

func hasPorts(proto int) bool { return proto == 6 || proto == 17 || proto == 132 || proto == 136 }

// K v proto src dst sport dport icmp_type icmp_code mark; for protocols that are not ICMP the two ICMP bytes of
// struct cali_tc_state alias the destination port
func (p packet) coq(ver int) string {
	v := "V4"
	if ver == 6 {
		v = "V6"
	}
	it, ic := p.ityp, p.icode
	if p.proto != 1 && p.proto != 58 {
		it, ic = p.dport&0xff, p.dport>>8
	}
	return fmt.Sprintf("(K %s %d %s %s %d %d %d %d %d)", v, p.proto, p.src.String(), p.dst.String(), p.sport, p.dport, it, ic, p.mark)
}

type pmember struct {
	addr        *big.Int
	proto, port int
}

// IP set contents
type setWorld struct {
	nets    [][]cidr    // index 1..nNetSets
	ports   [][]pmember // index nNetSets+1 .. nNetSets+nPortSets
	missing map[int]bool
}

func (w *setWorld) isPortSet(id int) bool { return id > nNetSets }

func genSets(r *rng, u *universe, oddNets bool, sctp bool) *setWorld {
	w := &setWorld{nets: make([][]cidr, nNetSets+1), ports: make([][]pmember, nNetSets+nPortSets+1), missing: map[int]bool{}}
	width := 32
	if u.ver == 6 {
		width = 128
	}
	for id := 1; id <= nNetSets; id++ {
		seen := map[string]bool{}
		for j, k := 0, r.intn(4); j < k; j++ {
			var c cidr
			switch x := r.intn(10); {
			case x < 5:
				c = cidr{v6: u.ver == 6, addr: u.addrs[r.intn(len(u.addrs))], len: width}
			case x < 8 || !oddNets:
				c = u.nets[r.intn(len(u.nets))]
				if !oddNets && c.len > width-8 && c.len < width {
					c = u.nets[0]
				}
			default:
				c = u.odd[r.intn(len(u.odd))]
			}
			if !seen[c.String()] {
				seen[c.String()] = true
				w.nets[id] = append(w.nets[id], c)
			}
		}
		if oddNets && id <= 2 {
			w.nets[id] = append(w.nets[id], u.odd[r.intn(len(u.odd))])
		}
	}
	for id := nNetSets + 1; id <= nNetSets+nPortSets; id++ {
		seen := map[string]bool{}
		for j, k := 0, 1+r.intn(4); j < k; j++ {
			m := pmember{addr: u.addrs[r.intn(len(u.addrs))], proto: []int{6, 17}[r.intn(2)], port: u.ports[r.intn(4)]}
			if sctp && r.chance(40) {
				m.proto = 132
			}
			key := fmt.Sprintf("%s/%d/%d", m.addr, m.proto, m.port)
			if !seen[key] {
				seen[key] = true
				w.ports[id] = append(w.ports[id], m)
			}
		}
	}
	return w
}
func (w *setWorld) hasIP(id int, a *big.Int) bool {
	if w.missing[id] || w.isPortSet(id) {
		return false
	}
	for _, c := range w.nets[id] {
		if c.contains(a) {
			return true
		}
	}
	return false
}
func (w *setWorld) hasPort(id int, a *big.Int, proto, port int) bool {
	if w.missing[id] || !w.isPortSet(id) {
		return false
	}
	for _, m := range w.ports[id] {
		if m.addr.Cmp(a) == 0 && m.proto == proto && m.port == port {
			return true
		}
	}
	return false
}
func (w *setWorld) coq() string {
	var parts []string
	for id := 1; id <= nNetSets+nPortSets; id++ {
		if w.missing[id] {
			continue
		}
		var ms []string
		if w.isPortSet(id) {
			for _, m := range w.ports[id] {
				ms = append(ms, fmt.Sprintf("EPort %s %d %d", m.addr.String(), m.proto, m.port))
			}
		} else {
			for _, c := range w.nets[id] {
				ms = append(ms, fmt.Sprintf("ECidr %s %d", c.addr.String(), c.len))
			}
		}
		parts = append(parts, fmt.Sprintf("(%d, %s)", id, coqListT(ms, func(s string) string { return s }, "nE")))
	}
	return "[" + strings.Join(parts, "; ") + "]"
}

// steering only (never used as an oracle): does the generated rule match the packet?
func (g *grule) matches(p packet, ver int, w *setWorld) bool {
	if g.ipver != 0 && g.ipver != ver {
		return false
	}
	if g.proto >= 0 && g.proto != p.proto {
		return false
	}
	if g.notProto >= 0 && g.notProto == p.proto {
		return false
	}
	inNets := func(cs []cidr, x *big.Int) bool {
		for _, c := range cs {
			if c.contains(x) {
				return true
			}
		}
		return false
	}
	inPorts := func(ps []prange, x int) bool {
		for _, q := range ps {
			if q.first <= x && x <= q.last {
				return true
			}
		}
		return false
	}
	if len(g.srcNets) > 0 && !inNets(g.srcNets, p.src) || len(g.dstNets) > 0 && !inNets(g.dstNets, p.dst) {
		return false
	}
	if inNets(g.notSrcNets, p.src) || inNets(g.notDstNets, p.dst) {
		return false
	}
	anyNamed := func(ids []int, a *big.Int, port int) bool {
		for _, id := range ids {
			if w.hasPort(id, a, p.proto, port) {
				return true
			}
		}
		return false
	}
	if (len(g.srcPorts) > 0 || len(g.srcNamed) > 0) && !(inPorts(g.srcPorts, p.sport) || anyNamed(g.srcNamed, p.src, p.sport)) {
		return false
	}
	if (len(g.dstPorts) > 0 || len(g.dstNamed) > 0) && !(inPorts(g.dstPorts, p.dport) || anyNamed(g.dstNamed, p.dst, p.dport)) {
		return false
	}
	if inPorts(g.notDstPorts, p.dport) || anyNamed(g.notDstNamed, p.dst, p.dport) {
		return false
	}
	if anyNamed(g.notSrcNamed, p.src, p.sport) {
		return false
	}
	for _, id := range g.srcSets {
		if !w.hasIP(id, p.src) {
			return false
		}
	}
	for _, id := range g.dstSets {
		if !w.hasIP(id, p.dst) {
			return false
		}
	}
	for _, id := range g.notSrcSets {
		if w.hasIP(id, p.src) {
			return false
		}
	}
	for _, id := range g.notDstSets {
		if w.hasIP(id, p.dst) {
			return false
		}
	}
	for _, id := range g.dstIPPortSets {
		if !w.hasPort(id, p.dst, p.proto, p.dport) {
			return false
		}
	}
	if g.icmpType >= 0 && g.icmpType != p.ityp {
		return false
	}
	return true
}

func pickNets(r *rng, u *universe, max int) []cidr {
	n := 1 + r.intn(max)
	var out []cidr
	for i := 0; i < n; i++ {
		out = append(out, u.nets[r.intn(len(u.nets))])
	}
	return out
}

// what a generated rule may contain
type ruleOpts struct {
	allowPass bool
	ipver     bool // explicit ip_version (the checker ignores it on the pinned tree)
	ood       bool // features outside the common fragment: ICMP type match, negated CIDRs of the other family
	named     bool // named-port sets (never hit in the checker of the pinned tree)
	simple    bool
}

// at most two positive match blocks (the C08 scratch-bit finding needs three)
func genRule(r *rng, u *universe, o ruleOpts) *grule {
	g := &grule{proto: -1, notProto: -1, icmpType: -1}
	acts := []string{"allow", "allow", "deny", "deny", "pass", "pass", "next-tier", "log"} // "" (v1 data model) makes the BPF builder panic and the checker fail: not generated (C05 covers action validation)
	for {
		g.action = acts[r.intn(len(acts))]
		if o.allowPass || (g.action != "pass" && g.action != "next-tier") {
			break
		}
	}
	if o.ipver {
		if r.chance(25) {
			g.ipver = u.ver
		} else if r.chance(25) {
			g.ipver = 10 - u.ver
		}
	}
	icmpProto := 1
	if u.ver == 6 {
		icmpProto = 58
	}
	if !o.simple && r.chance(35) {
		// a rule with few criteria, so that verdicts are not all "deny"
		o.simple = true
		g.action = []string{"allow", "allow", "pass", "deny", g.action}[r.intn(5)]
		if !o.allowPass && g.action == "pass" {
			g.action = "allow"
		}
		if r.chance(50) {
			g.proto = []int{6, 17}[r.intn(2)]
			return g
		}
	}
	switch k := r.intn(10); {
	case k < 5:
		g.proto = []int{6, 17}[r.intn(2)]
		g.protoByName = r.chance(60)
		if r.chance(65) {
			n := 1 + r.intn(2)
			for i := 0; i < n; i++ {
				f := u.ports[r.intn(len(u.ports))]
				l := f
				if r.chance(25) {
					l = f + 1 + r.intn(400)
				}
				g.dstPorts = append(g.dstPorts, prange{f, l})
			}
		}
		if !o.simple && r.chance(12) {
			g.srcPorts = []prange{{1000, 1000 + r.intn(2)*4000}}
		}
		if !o.simple && r.chance(22) {
			g.notDstPorts = []prange{{u.ports[r.intn(len(u.ports))], []int{9000, 8080, 444}[r.intn(3)]}}
			if g.notDstPorts[0].first > g.notDstPorts[0].last {
				g.notDstPorts[0].last = g.notDstPorts[0].first
			}
		}
	case k < 6:
		g.proto = icmpProto
		g.protoByName = r.chance(60)
		if o.ood && r.chance(50) {
			g.icmpType = []int{8, 0, 128}[r.intn(3)]
		}
	case k < 7:
		g.proto = []int{4, 132, 47}[r.intn(3)]
		g.protoByName = r.chance(50)
	}
	if g.proto < 0 && r.chance(30) {
		g.notProto = []int{6, 17, 1}[r.intn(3)]
	}
	if r.chance(35) {
		g.srcNets = pickNets(r, u, 2)
	}
	if r.chance(30) {
		g.dstNets = pickNets(r, u, 2)
	}
	if !o.simple {
		if r.chance(15) {
			g.notSrcNets = pickNets(r, u, 2)
		}
		if r.chance(15) {
			g.notDstNets = pickNets(r, u, 1)
		}
		if r.chance(22) {
			g.srcSets = []int{1 + r.intn(nNetSets)}
		}
		if r.chance(22) {
			g.dstSets = []int{1 + r.intn(nNetSets)}
		}
		if r.chance(8) {
			g.notSrcSets = []int{1 + r.intn(nNetSets)}
		}
		if r.chance(8) {
			g.notDstSets = []int{1 + r.intn(nNetSets)}
		}
		if o.ood {
			if r.chance(12) {
				// a negated CIDR list of the OTHER address family: Felix's dataplanes take the rule to be of that family,
				// the checker reads it as "not in it" (outside the common fragment)
				other := map[int]string{4: "fd00:77::/64", 6: "10.77.0.0/16"}[u.ver]
				if r.chance(50) {
					g.notSrcNets = []cidr{mkCIDR(other)}
				} else {
					g.notDstNets = []cidr{mkCIDR(other)}
				}
			}
		}
		if o.named {
			if r.chance(25) && (g.proto == 6 || g.proto == 17) {
				g.dstNamed = []int{nNetSets + 1 + r.intn(nPortSets)}
			}
			if r.chance(8) && (g.proto == 6 || g.proto == 17) {
				g.notDstNamed = []int{nNetSets + 1 + r.intn(nPortSets)}
			}
			if r.chance(10) && (g.proto == 6 || g.proto == 17) && len(g.srcPorts) == 0 {
				g.srcNamed = []int{nNetSets + 1 + r.intn(nPortSets)}
			}
			if r.chance(6) && (g.proto == 6 || g.proto == 17) {
				g.notSrcNamed = []int{nNetSets + 1 + r.intn(nPortSets)}
			}
		}
		if r.chance(8) && len(g.dstPorts) == 0 && len(g.notDstPorts) == 0 && len(g.dstNamed) == 0 {
			g.dstIPPortSets = []int{nNetSets + 1 + r.intn(nPortSets)}
		}
	}
	// cap the number of positive blocks at two
	blocks := func() int {
		n := 0
		dp := 0
		if len(g.dstPorts) > 0 {
			dp = 1
		}
		if dp+len(g.dstNamed) > 1 {
			n++
		}
		if len(g.srcNets) > 1 {
			n++
		}
		if len(g.dstNets) > 1 {
			n++
		}
		return n
	}
	for blocks() > 2 {
		switch {
		case len(g.srcNets) > 1:
			g.srcNets = g.srcNets[:1]
		default:
			g.dstNets = g.dstNets[:1]
		}
	}
	return g
}

// ------------------------------------------------------------------ endpoint description

type gpolicy struct {
	id      types.PolicyID
	staged  bool
	missing bool // not sent to the checker's store (out-of-fragment stream)
	in, out []*grule
}
type ggroup struct{ pols []*gpolicy }
type gtier struct {
	name          string
	defaultAction string
	groups        []*ggroup
}
type gprofile struct {
	name    string
	missing bool
	in, out []*grule
}

type markCfg struct{ accept, pass, drop, s0, s1, endpoint uint32 }

var markCfgs = []markCfg{
	{0x80, 0x100, 0x800, 0x200, 0x400, 0xff000},
	{0x10000, 0x20000, 0x100000, 0x40000, 0x80000, 0xffe00000},
	{0x1, 0x80000000, 0x4, 0x2, 0x40000000, 0xff00},
	{0x8, 0x10, 0x80, 0x20, 0x40, 0xff00},
}

// chain-name interning: real names -> short tokens, injective by construction
type interner struct {
	m    map[string]string
	real []string
}

func (in *interner) get(name string) string {
	if s, ok := in.m[name]; ok {
		return s
	}
	s := fmt.Sprintf("c%d", len(in.m))
	in.m[name] = s
	in.real = append(in.real, name)
	return s
}

type caseOpts struct {
	ver    int
	mc     markCfg
	flow   bool
	reject bool
	egress bool
	feat   string // "" | profile-pass | default-unset | ipver | trie | ood
	guard  bool
}

// checker variant of the tree under test
type kvariant struct{ profilePassNext, defaultLenient, ipver, trie, named bool }

var kv kvariant

func genEndpoint(r *rng, u *universe, o *caseOpts) ([]*gtier, []*gprofile) {
	nT := []int{0, 1, 1, 2, 2, 3}[r.intn(6)]
	if o.feat == "default-unset" && nT == 0 {
		nT = 1
	}
	if o.feat == "profile-pass" && r.chance(50) {
		nT = r.intn(2)
	}
	ro := ruleOpts{allowPass: true, ipver: kv.ipver || o.feat == "ipver" || o.feat == "ood", ood: o.feat == "ood",
		named: kv.named || o.feat == "named" || o.feat == "ood"}
	var tiers []*gtier
	polN := 0
	for t := 0; t < nT; t++ {
		defs := []string{"Deny", "Pass", "Pass"}
		if kv.defaultLenient || o.feat == "default-unset" || o.feat == "ood" {
			defs = append(defs, "")
		}
		if o.feat == "default-unset" {
			defs = []string{"", "", "Deny"}
		}
		tr := &gtier{name: fmt.Sprintf("tier%d", t), defaultAction: defs[r.intn(len(defs))]}
		nP := []int{0, 1, 1, 2, 2, 3, 4}[r.intn(7)]
		if o.feat == "default-unset" && nP < 2 {
			nP = 2
		}
		var cur *ggroup
		for k := 0; k < nP; k++ {
			p := &gpolicy{}
			polN++
			switch kindIdx := r.intn(10); {
			case kindIdx < 4:
				p.id = types.PolicyID{Name: fmt.Sprintf("%s.pol%d", tr.name, polN), Kind: "GlobalNetworkPolicy"}
			case kindIdx < 6:
				p.id = types.PolicyID{Name: fmt.Sprintf("%s.pol%d", tr.name, polN), Namespace: "ns1", Kind: "NetworkPolicy"}
			case kindIdx < 7:
				p.id = types.PolicyID{Name: fmt.Sprintf("knp.default.pol%d-with-a-rather-long-name-to-force-hashing", polN), Namespace: "ns2", Kind: "KubernetesNetworkPolicy"}
			case kindIdx < 8:
				p.id = types.PolicyID{Name: fmt.Sprintf("%s.pol%d", tr.name, polN), Kind: "StagedGlobalNetworkPolicy"}
			case kindIdx < 9:
				p.id = types.PolicyID{Name: fmt.Sprintf("%s.pol%d", tr.name, polN), Namespace: "ns1", Kind: "StagedNetworkPolicy"}
			default:
				p.id = types.PolicyID{Name: fmt.Sprintf("pol%d", polN), Namespace: "ns1", Kind: "StagedKubernetesNetworkPolicy"}
			}
			p.staged = strings.HasPrefix(p.id.Kind, "Staged")
			if o.feat == "ood" && r.chance(8) {
				p.missing = true
			}
			for i, n := 0, []int{0, 1, 1, 2, 3}[r.intn(5)]; i < n; i++ {
				p.in = append(p.in, genRule(r, u, ro))
			}
			for i, n := 0, []int{0, 1, 1, 2, 3}[r.intn(5)]; i < n; i++ {
				p.out = append(p.out, genRule(r, u, ro))
			}
			if cur == nil || r.chance(35) {
				cur = &ggroup{}
				tr.groups = append(tr.groups, cur)
			}
			cur.pols = append(cur.pols, p)
		}
		// now and then a tier whose policies are ALL staged: it must be skipped, end-of-tier action included
		if o.feat != "default-unset" && r.chance(15) {
			for _, g := range tr.groups {
				for _, p := range g.pols {
					if !p.staged {
						p.id.Kind = "Staged" + p.id.Kind
						p.staged = true
					}
				}
			}
		}
		// a third of the tiers with >= 2 policies: the first enforced policy opens with a Pass (or Allow / Deny) rule
		// on one protocol and the next enforced policy decides the same traffic differently, so that "pass ends the
		// tier" / "first verdict wins" are exercised by the probe aimed at that protocol
		if o.feat != "ood" && r.chance(35) {
			var enf []*gpolicy
			for _, g := range tr.groups {
				for _, p := range g.pols {
					if !p.staged {
						enf = append(enf, p)
					}
				}
			}
			if len(enf) >= 2 {
				pr := []int{6, 17}[r.intn(2)]
				first := []string{"pass", "pass", "allow", "deny"}[r.intn(4)]
				second := map[string]string{"pass": []string{"deny", "allow"}[r.intn(2)], "allow": "deny", "deny": "allow"}[first]
				mk := func(a string) *grule { return &grule{action: a, proto: pr, notProto: -1, icmpType: -1} }
				enf[0].in = append([]*grule{mk(first)}, enf[0].in...)
				enf[0].out = append([]*grule{mk(first)}, enf[0].out...)
				enf[1].in = append([]*grule{mk(second)}, enf[1].in...)
				enf[1].out = append([]*grule{mk(second)}, enf[1].out...)
			}
		}
		tiers = append(tiers, tr)
	}
	if len(tiers) > 0 && o.feat != "ood" && r.chance(50) {
		// make sure something behind the tiers can still allow (a pass is only visible if a later stage differs)
		tiers[len(tiers)-1].defaultAction = "Pass"
	}
	nPr := []int{0, 1, 1, 2, 3}[r.intn(5)]
	if o.feat == "profile-pass" && nPr < 2 {
		nPr = 2
	}
	var profs []*gprofile
	for k := 0; k < nPr; k++ {
		pf := &gprofile{name: fmt.Sprintf("prof%d", k)}
		if r.chance(20) {
			pf.name = fmt.Sprintf("kns.a-namespace-with-a-long-name-%d", k)
		}
		if o.feat == "ood" && r.chance(10) {
			pf.missing = true
		}
		po := ro
		po.allowPass = kv.profilePassNext || o.feat == "profile-pass" || o.feat == "ood"
		po.simple = o.feat == "profile-pass"
		for i, n := 0, r.intn(4); i < n; i++ {
			pf.in = append(pf.in, genRule(r, u, po))
		}
		for i, n := 0, r.intn(4); i < n; i++ {
			pf.out = append(pf.out, genRule(r, u, po))
		}
		profs = append(profs, pf)
	}
	return tiers, profs
}

// injectLegs puts IP+port sets on BOTH legs of one evaluation: a source-side named-port lookup and a destination-side
// named-port / service-set lookup, in one rule or in consecutive rules / policy then profile, with set members chosen so
// that the source key "<src ip>,<proto>:<sport>" and the destination key "<dst ip>,<proto>:<dport>" give different answers
// (same port on both sides, different addresses; each address in one set only), followed by a rule that decides the
// other way.  Returns probes aimed at the second lookup.
func injectLegs(r *rng, u *universe, w *setWorld, tiers []*gtier, profs []*gprofile) ([]*gtier, []*gprofile, []packet, string) {
	pr := []int{6, 17}[r.intn(2)]
	port := u.ports[r.intn(4)]
	a1, a2 := u.addrs[r.intn(len(u.addrs))], u.addrs[r.intn(len(u.addrs))]
	for a2.Cmp(a1) == 0 {
		a2 = u.addrs[r.intn(len(u.addrs))]
	}
	sa, sb := nNetSets+1, nNetSets+2
	w.ports[sa] = append([]pmember{{addr: a1, proto: pr, port: port}}, w.ports[sa]...)
	w.ports[sb] = append([]pmember{{addr: a2, proto: pr, port: port}}, w.ports[sb]...)
	// keep the two keys apart: a1's key only in sa, a2's key only in sb
	strip := func(id int, a *big.Int) {
		var out []pmember
		for _, m := range w.ports[id] {
			if !(m.addr.Cmp(a) == 0 && m.proto == pr && m.port == port) {
				out = append(out, m)
			}
		}
		w.ports[id] = out
	}
	strip(sa, a2)
	strip(sb, a1)
	mk := func(a string) *grule { return &grule{action: a, proto: pr, notProto: -1, icmpType: -1} }
	act := []string{"allow", "deny"}[r.intn(2)]
	other := map[string]string{"allow": "deny", "deny": "allow"}[act]
	var first, second []*grule // rules evaluated first / later (same list when `split` is false)
	split := false
	shape := ""
	switch r.intn(8) {
	case 0:
		g := mk(act)
		g.srcNamed, g.dstNamed = []int{sa}, []int{sb}
		first, shape = []*grule{g}, "one-rule:src-named+dst-named"
	case 1:
		g := mk(act)
		g.srcNamed, g.dstIPPortSets = []int{sa}, []int{sb}
		first, shape = []*grule{g}, "one-rule:src-named+dst-service-set"
	case 2:
		g := mk(act)
		g.srcNamed, g.notDstNamed = []int{sa}, []int{sa}
		first, shape = []*grule{g}, "one-rule:src-named+not-dst-named"
	case 3:
		g := mk(act)
		g.notSrcNamed, g.dstNamed = []int{sb}, []int{sb}
		first, shape = []*grule{g}, "one-rule:not-src-named+dst-named"
	case 4:
		g1, g2 := mk("log"), mk(act)
		g1.srcNamed, g2.dstNamed = []int{sa}, []int{sb}
		first, shape = []*grule{g1, g2}, "two-rules:src-named-then-dst-named"
	case 5:
		g1, g2 := mk("log"), mk(act)
		g1.dstNamed, g2.srcNamed = []int{sb}, []int{sa}
		first, shape = []*grule{g1, g2}, "two-rules:dst-named-then-src-named"
	case 6:
		g1, g2 := mk("pass"), mk(act)
		g1.srcNamed, g2.dstIPPortSets = []int{sa}, []int{sb}
		first, second, split, shape = []*grule{g1}, []*grule{g2}, true, "policy-then-profile:src-named-then-dst-service-set"
	default:
		g1, g2 := mk("log"), mk(act)
		g1.notSrcNamed, g2.notDstNamed = []int{sb}, []int{sa}
		first, shape = []*grule{g1, g2}, "two-rules:not-src-named-then-not-dst-named"
	}
	fallback := mk(other)
	pol := &gpolicy{id: types.PolicyID{Name: "legs.pol", Kind: "GlobalNetworkPolicy"}}
	if split {
		pol.in, pol.out = first, first
		if len(profs) == 0 {
			profs = []*gprofile{{name: "prof0"}}
		}
		pf := profs[0]
		pf.in = append(append([]*grule{}, append(second, fallback)...), pf.in...)
		pf.out = append(append([]*grule{}, append(second, fallback)...), pf.out...)
		// the tiers behind the injected policy must let the packet through to the profiles now and then
		for _, t := range tiers {
			if r.chance(60) {
				t.defaultAction = "Pass"
			}
		}
	} else {
		rs := append(append([]*grule{}, first...), fallback)
		pol.in, pol.out = rs, rs
	}
	lt := &gtier{name: "tierL", defaultAction: "Pass", groups: []*ggroup{{pols: []*gpolicy{pol}}}}
	tiers = append([]*gtier{lt}, tiers...)
	// probes: same port on both sides; the two addresses in every arrangement
	var pk []packet
	for _, ad := range [][2]*big.Int{{a1, a2}, {a2, a1}, {a1, a1}, {a2, a2}} {
		pk = append(pk, packet{proto: pr, src: ad[0], dst: ad[1], sport: port, dport: port})
	}
	pk = append(pk, packet{proto: pr, src: a1, dst: a2, sport: port, dport: u.ports[(r.intn(3)+1+indexOf(u.ports, port))%4]})
	return tiers, profs, pk, shape
}

// injectStagedAfter builds the layout "a tier with an enforced policy that lets the packet through, then a tier whose
// policies are ALL staged (default action Deny), then something that allows": the staged-only tier must be a no-op in
// every dataplane, end-of-tier action included.
func injectStagedAfter(r *rng, u *universe, tiers []*gtier, profs []*gprofile) ([]*gtier, []*gprofile, []packet) {
	pr := []int{6, 17}[r.intn(2)]
	mk := func(a string, proto int) *grule { return &grule{action: a, proto: proto, notProto: -1, icmpType: -1} }
	if len(tiers) == 0 {
		tiers = []*gtier{{name: "tier0", defaultAction: "Pass"}}
	}
	t0 := tiers[0]
	hasEnforced := false
	for _, g := range t0.groups {
		for _, p := range g.pols {
			hasEnforced = hasEnforced || !p.staged
		}
	}
	if !hasEnforced {
		pass := []*grule{mk("pass", pr)}
		t0.groups = append(t0.groups, &ggroup{pols: []*gpolicy{{id: types.PolicyID{Name: t0.name + ".enf", Kind: "GlobalNetworkPolicy"}, in: pass, out: pass}}})
	}
	t0.defaultAction = "Pass"
	ts := &gtier{name: "tierS", defaultAction: []string{"Deny", "Deny", ""}[r.intn(3)]}
	if !kv.defaultLenient && ts.defaultAction == "" {
		ts.defaultAction = "Deny"
	}
	grp := &ggroup{}
	for i, n := 0, 1+r.intn(2); i < n; i++ {
		kind := []string{"StagedGlobalNetworkPolicy", "StagedNetworkPolicy", "StagedKubernetesNetworkPolicy"}[r.intn(3)]
		ns := ""
		if kind != "StagedGlobalNetworkPolicy" {
			ns = "ns1"
		}
		rs := []*grule{mk([]string{"deny", "allow", "pass"}[r.intn(3)], -1)}
		grp.pols = append(grp.pols, &gpolicy{id: types.PolicyID{Name: fmt.Sprintf("tierS.st%d", i), Namespace: ns, Kind: kind}, staged: true, in: rs, out: rs})
		if r.chance(40) {
			ts.groups = append(ts.groups, grp)
			grp = &ggroup{}
		}
	}
	if len(grp.pols) > 0 {
		ts.groups = append(ts.groups, grp)
	}
	at := 1 + r.intn(len(tiers))
	out := append([]*gtier{}, tiers[:at]...)
	out = append(out, ts)
	out = append(out, tiers[at:]...)
	for _, t := range out[at+1:] {
		if r.chance(70) {
			t.defaultAction = "Pass"
		}
	}
	if len(profs) == 0 {
		profs = []*gprofile{{name: "prof0"}}
	}
	if r.chance(75) {
		al := mk("allow", pr)
		profs[0].in = append([]*grule{al}, profs[0].in...)
		profs[0].out = append([]*grule{al}, profs[0].out...)
	}
	var pk []packet
	for i := 0; i < 3; i++ {
		pk = append(pk, packet{proto: pr, src: u.addrs[r.intn(len(u.addrs))], dst: u.addrs[r.intn(len(u.addrs))],
			sport: []int{1000, 5000, 40000}[r.intn(3)], dport: u.ports[r.intn(len(u.ports))]})
	}
	return out, profs, pk
}

func indexOf(xs []int, x int) int {
	for i, y := range xs {
		if y == x {
			return i
		}
	}
	return 0
}

func protoRules(gs []*grule) []*proto.Rule {
	var out []*proto.Rule
	for _, g := range gs {
		out = append(out, g.toProto())
	}
	return out
}

// ------------------------------------------------------------------ the proto objects all four implementations read

type protoState struct {
	tierInfos []*proto.TierInfo
	policies  map[types.PolicyID]*proto.Policy
	profiles  map[types.ProfileID]*proto.Profile
	profIDs   []string
}

func buildProtoState(tiers []*gtier, profs []*gprofile) *protoState {
	ps := &protoState{policies: map[types.PolicyID]*proto.Policy{}, profiles: map[types.ProfileID]*proto.Profile{}}
	for _, t := range tiers {
		ti := &proto.TierInfo{Name: t.name, DefaultAction: t.defaultAction}
		for _, g := range t.groups {
			for _, p := range g.pols {
				pid := &proto.PolicyID{Name: p.id.Name, Namespace: p.id.Namespace, Kind: p.id.Kind}
				ti.IngressPolicies = append(ti.IngressPolicies, pid)
				ti.EgressPolicies = append(ti.EgressPolicies, pid)
				ps.policies[p.id] = &proto.Policy{InboundRules: protoRules(p.in), OutboundRules: protoRules(p.out), Tier: t.name, Namespace: p.id.Namespace}
			}
		}
		ps.tierInfos = append(ps.tierInfos, ti)
	}
	for _, pf := range profs {
		ps.profIDs = append(ps.profIDs, pf.name)
		ps.profiles[types.ProfileID{Name: pf.name}] = &proto.Profile{InboundRules: protoRules(pf.in), OutboundRules: protoRules(pf.out)}
	}
	return ps
}

// ------------------------------------------------------------------ iptables / nftables: render + parse

type rendered struct {
	cfgCoq, name, chainsCoq string
	nRules, nChains         int
	texts                   map[string][]string
}

func renderFlavor(o *caseOpts, nft bool, tiers []*gtier, profs []*gprofile, st *protoState) (res *rendered, err error) {
	defer func() {
		if e := recover(); e != nil {
			err = fmt.Errorf("renderer panicked: %v", e)
		}
	}()
	mc := o.mc
	cfg := rules.Config{
		IPSetConfigV4:                  ipsets.NewIPVersionConfig(ipsets.IPFamilyV4, "cali", nil, nil),
		IPSetConfigV6:                  ipsets.NewIPVersionConfig(ipsets.IPFamilyV6, "cali", nil, nil),
		MarkAccept:                     mc.accept,
		MarkPass:                       mc.pass,
		MarkDrop:                       mc.drop,
		MarkScratch0:                   mc.s0,
		MarkScratch1:                   mc.s1,
		MarkEndpoint:                   mc.endpoint,
		FlowLogsEnabled:                o.flow,
		VXLANPort:                      4789,
		VXLANVNI:                       4096,
		AllowVXLANPacketsFromWorkloads: true,
		AllowIPIPPacketsFromWorkloads:  true,
	}
	if o.reject {
		cfg.FilterDenyAction = "REJECT"
	}
	renderer := rules.NewRenderer(cfg, nft)
	ver := o.ver
	polPfx, profPfx := rules.PolicyInboundPfx, rules.ProfileInboundPfx
	if o.egress {
		polPfx, profPfx = rules.PolicyOutboundPfx, rules.ProfileOutboundPfx
	}
	var tpgs []rules.TierPolicyGroups
	var allGroups []*rules.PolicyGroup
	for _, t := range tiers {
		tpg := rules.TierPolicyGroups{Name: t.name, DefaultAction: t.defaultAction}
		for _, g := range t.groups {
			mkGroup := func(dir rules.PolicyDirection) *rules.PolicyGroup {
				pg := &rules.PolicyGroup{Direction: dir, Selector: fmt.Sprintf("sel == '%s-%d'", t.name, len(tpg.IngressPolicies))}
				for _, p := range g.pols {
					id := p.id
					pg.Policies = append(pg.Policies, &id)
				}
				return pg
			}
			in, out := mkGroup(rules.PolicyDirectionInbound), mkGroup(rules.PolicyDirectionOutbound)
			tpg.IngressPolicies = append(tpg.IngressPolicies, in)
			tpg.EgressPolicies = append(tpg.EgressPolicies, out)
			if o.egress {
				allGroups = append(allGroups, out)
			} else {
				allGroups = append(allGroups, in)
			}
		}
		tpgs = append(tpgs, tpg)
	}
	in := &interner{m: map[string]string{}}
	type rchain struct {
		name  string
		rules []generictables.Rule
	}
	var impl []rchain
	epm := rules.NewEndpointMarkMapper(mc.endpoint, mc.endpoint&(^mc.endpoint+1))
	cs := renderer.WorkloadEndpointToIptablesChains("cali1234", epm, true, tpgs, st.profIDs, nil)
	epChain := cs[0]
	if o.egress {
		epChain = cs[1]
	}
	impl = append(impl, rchain{epChain.Name, epChain.Rules})
	for _, t := range tiers {
		for _, g := range t.groups {
			for _, p := range g.pols {
				id := p.id
				chains := renderer.PolicyToIptablesChains(&id, st.policies[p.id], uint8(ver))
				want := rules.PolicyChainName(polPfx, &id, nft)
				for _, ch := range chains {
					if ch.Name == want {
						impl = append(impl, rchain{ch.Name, ch.Rules})
					}
				}
			}
		}
	}
	for _, g := range allGroups {
		if !g.ShouldBeInlined() {
			for _, ch := range renderer.PolicyGroupToIptablesChains(g) {
				impl = append(impl, rchain{ch.Name, ch.Rules})
			}
		}
	}
	for _, pf := range profs {
		id := types.ProfileID{Name: pf.name}
		inb, outb := renderer.ProfileToIptablesChains(&id, st.profiles[id], uint8(ver))
		want := rules.ProfileChainName(profPfx, &id, nft)
		for _, ch := range []*generictables.Chain{inb, outb} {
			if ch.Name == want {
				impl = append(impl, rchain{ch.Name, ch.Rules})
			}
		}
	}
	ipsetCfg := cfg.IPSetConfigV4
	if ver == 6 {
		ipsetCfg = cfg.IPSetConfigV6
	}
	names := map[string]int{}
	for i := 1; i <= nNetSets+nPortSets; i++ {
		nm := ipsetCfg.NameForMainIPSet(setID(i))
		if nft {
			nm = nftables.LegalizeSetName(nm)
		}
		names[nm] = i
	}
	feat := &environment.Features{}
	var implCoq []string
	res = &rendered{texts: map[string][]string{}}
	for ci, ch := range impl {
		var parsed []string
		for k := range ch.rules {
			var txt, a string
			var perr error
			if nft {
				txt = nftables.NewNFTRenderer("", uint8(ver)).Render("C", "", ch.rules[k], feat).Rule
				a, perr = parseNft(txt, ver, names, in)
			} else {
				txt = iptables.NewIptablesRenderer("").RenderAppend(&ch.rules[k], "C", "", feat)
				a, perr = parseIptables(txt, ver, names, in)
			}
			if perr != nil {
				return nil, fmt.Errorf("cannot parse rendered rule %q of chain %s: %v", txt, ch.name, perr)
			}
			if err2 := checkActionType(ch.rules[k].Action, a); err2 != nil {
				return nil, fmt.Errorf("rule %q: %v", txt, err2)
			}
			if ci == 0 {
				res.texts[ch.name] = append(res.texts[ch.name], txt)
			}
			parsed = append(parsed, a)
			res.nRules++
		}
		implCoq = append(implCoq, fmt.Sprintf("(\"%s\", [%s])", in.get(ch.name), strings.Join(parsed, "; ")))
	}
	fl, dk := "Iptables", "DenyDrop"
	if nft {
		fl = "Nft"
	}
	if o.reject {
		dk = "DenyReject"
	}
	res.cfgCoq = fmt.Sprintf("(Build_cfg %s %d %d %d %d %d %v false %s false false)", fl, mc.accept, mc.pass, mc.drop, mc.s0, mc.s1, o.flow, dk)
	res.name = in.get(epChain.Name)
	res.chainsCoq = "[" + strings.Join(implCoq, ";\n ") + "]"
	res.nChains = len(impl)
	return res, nil
}

// the action struct must agree with what its rendered fragment was parsed as
func checkActionType(a generictables.Action, parsed string) error {
	want := ""
	switch a.(type) {
	case nil:
		want = "ANone"
	case iptables.ReturnAction, nftables.ReturnAction:
		want = "AReturn"
	case iptables.DropAction, nftables.DropAction:
		want = "ADrop"
	case iptables.RejectAction, nftables.RejectAction:
		want = "AReject"
	case iptables.AcceptAction, nftables.AcceptAction:
		want = "AAccept"
	case iptables.LogAction, nftables.LogAction:
		want = "ALog"
	case iptables.NflogAction, nftables.NflogAction:
		want = "ANflog"
	case iptables.NoTrackAction, nftables.NoTrackAction:
		want = "ANoTrack"
	case iptables.JumpAction, nftables.JumpAction, *iptables.JumpAction, *nftables.JumpAction:
		want = "(AJump"
	case iptables.GotoAction, nftables.GotoAction, *iptables.GotoAction, *nftables.GotoAction:
		want = "(AGoto"
	case iptables.SetMarkAction, nftables.SetMarkAction, iptables.ClearMarkAction, nftables.ClearMarkAction,
		iptables.SetMaskedMarkAction, nftables.SetMaskedMarkAction:
		want = "(AMark"
	default:
		return fmt.Errorf("unexpected action type %T", a)
	}
	if !strings.HasSuffix(parsed, want+")") && !strings.Contains(parsed, "] "+want) {
		return fmt.Errorf("action struct %T rendered as something parsed to %s", a, parsed)
	}
	return nil
}

// ------------------------------------------------------------------ BPF

type setIDs struct{}

func (setIDs) GetNoAlloc(id string) uint64 {
	var n uint64
	if _, err := fmt.Sscanf(id, "s%d", &n); err != nil {
		return 0
	}
	return n
}

type compiled struct {
	kind  string // ok | panic | error
	msg   string
	progs []asm.Insns
}

func compileBPF(rs polprog.Rules, opts []polprog.Option) (res compiled) {
	defer func() {
		if e := recover(); e != nil {
			msg := fmt.Sprint(e)
			if en, ok := e.(*logrus.Entry); ok {
				msg = en.Message
			}
			res = compiled{kind: "panic", msg: msg}
		}
	}()
	b := polprog.NewBuilder(setIDs{}, 11, 12, 13, 14, opts...)
	progs, err := b.Instructions(rs)
	if err != nil {
		return compiled{kind: "error", msg: err.Error()}
	}
	return compiled{kind: "ok", progs: progs}
}

// One number per instruction (Bpf.decode_word): the 8-byte word as the assembler encoded it, read little-endian.
func insnsCoq(progs []asm.Insns) (string, int) {
	var ps []string
	total := 0
	for _, p := range progs {
		var is []string
		for _, in := range p {
			is = append(is, fmt.Sprintf("%d", binary.LittleEndian.Uint64(in.Instruction[:])))
			total++
		}
		ps = append(ps, "["+strings.Join(is, ";")+"]")
	}
	return "[" + strings.Join(ps, ";\n") + "]", total
}

// ------------------------------------------------------------------ checker

type flowT struct {
	src, dst            net.IP
	sport, dport, proto int
}

func (f *flowT) GetSourceIP() net.IP                { return f.src }
func (f *flowT) GetDestIP() net.IP                  { return f.dst }
func (f *flowT) GetSourcePort() int                 { return f.sport }
func (f *flowT) GetDestPort() int                   { return f.dport }
func (f *flowT) GetProtocol() int                   { return f.proto }
func (f *flowT) GetHttpMethod() *string             { return nil }
func (f *flowT) GetHttpPath() *string               { return nil }
func (f *flowT) GetSourcePrincipal() *string        { return nil }
func (f *flowT) GetDestPrincipal() *string          { return nil }
func (f *flowT) GetSourceLabels() map[string]string { return nil }
func (f *flowT) GetDestLabels() map[string]string   { return nil }

func toNetIP(v6 bool, a *big.Int) net.IP {
	if v6 {
		return net.IP(a.FillBytes(make([]byte, 16)))
	}
	return net.IP(a.FillBytes(make([]byte, 4)))
}

// the policy store as Dikastes would hold it after the policy-sync stream for this endpoint
func buildStore(v6 bool, tiers []*gtier, profs []*gprofile, st *protoState, w *setWorld) *policystore.PolicyStore {
	store := policystore.NewPolicyStore()
	upd := func(u *proto.ToDataplane) { store.ProcessUpdate("per-pod-policies", u) }
	for id := 1; id <= nNetSets+nPortSets; id++ {
		if w.missing[id] {
			continue
		}
		u := &proto.IPSetUpdate{Id: setID(id), Type: proto.IPSetUpdate_NET}
		if w.isPortSet(id) {
			u.Type = proto.IPSetUpdate_IP_AND_PORT
			for _, m := range w.ports[id] {
				pr := map[int]ipsetmember.Protocol{6: ipsetmember.ProtocolTCP, 17: ipsetmember.ProtocolUDP, 132: ipsetmember.ProtocolSCTP}[m.proto]
				u.Members = append(u.Members, ipsetmember.MakeIPPortProto(ip.FromNetIP(toNetIP(v6, m.addr)), uint16(m.port), pr).ToProtobufFormat())
			}
		} else {
			for _, c := range w.nets[id] {
				u.Members = append(u.Members, ipsetmember.MakeCIDROrIPOnly(ip.MustParseCIDROrIP(c.String())).ToProtobufFormat())
			}
		}
		upd(&proto.ToDataplane{Payload: &proto.ToDataplane_IpsetUpdate{IpsetUpdate: u}})
	}
	for _, t := range tiers {
		for _, g := range t.groups {
			for _, p := range g.pols {
				if p.missing {
					continue
				}
				upd(&proto.ToDataplane{Payload: &proto.ToDataplane_ActivePolicyUpdate{ActivePolicyUpdate: &proto.ActivePolicyUpdate{
					Id: &proto.PolicyID{Name: p.id.Name, Namespace: p.id.Namespace, Kind: p.id.Kind}, Policy: st.policies[p.id]}}})
			}
		}
	}
	for _, pf := range profs {
		if pf.missing {
			continue
		}
		upd(&proto.ToDataplane{Payload: &proto.ToDataplane_ActiveProfileUpdate{ActiveProfileUpdate: &proto.ActiveProfileUpdate{
			Id: &proto.ProfileID{Name: pf.name}, Profile: st.profiles[types.ProfileID{Name: pf.name}]}}})
	}
	return store
}

func statusCode(c int32) int {
	switch c {
	case checker.OK:
		return 0
	case checker.PERMISSION_DENIED:
		return 1
	case checker.INTERNAL:
		return 2
	case checker.INVALID_ARGUMENT:
		return 3
	}
	return 4
}

func runChecker(store *policystore.PolicyStore, ep *proto.WorkloadEndpoint, egress bool, v6 bool, p packet) (code int, err error) {
	defer func() {
		if e := recover(); e != nil {
			err = fmt.Errorf("checker panicked: %v", e)
		}
	}()
	dir := rules.RuleDirIngress
	if egress {
		dir = rules.RuleDirEgress
	}
	f := &flowT{src: toNetIP(v6, p.src), dst: toNetIP(v6, p.dst), sport: p.sport, dport: p.dport, proto: p.proto}
	return statusCode(checker.VerifCheckStore(store, ep, dir, f)), nil
}

// probe the four checker variant flags from the tree under test with minimal real evaluations
func probeChecker() (v kvariant, err error) {
	u := newUniverse(4)
	mk := func(tiers []*gtier, profs []*gprofile, w *setWorld, p packet) int {
		st := buildProtoState(tiers, profs)
		store := buildStore(false, tiers, profs, st, w)
		ep := &proto.WorkloadEndpoint{Tiers: st.tierInfos, ProfileIds: st.profIDs}
		c, e := runChecker(store, ep, false, false, p)
		if e != nil {
			err = e
		}
		return c
	}
	none := func() *grule { return &grule{proto: -1, notProto: -1, icmpType: -1} }
	with := func(f func(g *grule)) *grule { g := none(); f(g); return g }
	w0 := &setWorld{nets: make([][]cidr, nNetSets+1), ports: make([][]pmember, nNetSets+nPortSets+1), missing: map[int]bool{}}
	tcp := packet{proto: 6, src: u.addrs[0], dst: u.addrs[1], sport: 1000, dport: 80}
	gnp := func(n string) types.PolicyID { return types.PolicyID{Name: n, Kind: "GlobalNetworkPolicy"} }
	// 1. profile [pass] then profile [allow]
	c1 := mk(nil, []*gprofile{{name: "a", in: []*grule{with(func(g *grule) { g.action = "pass" })}},
		{name: "b", in: []*grule{with(func(g *grule) { g.action = "allow" })}}}, w0, tcp)
	v.profilePassNext = c1 == 0
	// 2. tier without default action: policy [allow udp] (no match), policy [allow]
	c2 := mk([]*gtier{{name: "t", defaultAction: "", groups: []*ggroup{{pols: []*gpolicy{
		{id: gnp("t.a"), in: []*grule{with(func(g *grule) { g.action = "allow"; g.proto = 17 })}},
		{id: gnp("t.b"), in: []*grule{with(func(g *grule) { g.action = "allow" })}}}}}}}, nil, w0, tcp)
	v.defaultLenient = c2 == 0
	// 3. profile [allow ip_version 6] on an IPv4 flow
	c3 := mk(nil, []*gprofile{{name: "a", in: []*grule{with(func(g *grule) { g.action = "allow"; g.ipver = 6 })}}}, w0, tcp)
	v.ipver = c3 == 1
	// 4. NET set {10.0.0.0/25}, profile [allow src in set], flow from 10.0.0.1
	w4 := &setWorld{nets: make([][]cidr, nNetSets+1), ports: make([][]pmember, nNetSets+nPortSets+1), missing: map[int]bool{}}
	w4.nets[1] = []cidr{mkCIDR("10.0.0.0/25")}
	c4 := mk(nil, []*gprofile{{name: "a", in: []*grule{with(func(g *grule) { g.action = "allow"; g.srcSets = []int{1} })}}}, w4, tcp)
	v.trie = c4 == 0
	// 5. IP_AND_PORT set {10.0.0.2,tcp:80}, profile [allow tcp to named port in set], flow to 10.0.0.2:80
	w5 := &setWorld{nets: make([][]cidr, nNetSets+1), ports: make([][]pmember, nNetSets+nPortSets+1), missing: map[int]bool{}}
	w5.ports[5] = []pmember{{addr: u.addrs[1], proto: 6, port: 80}}
	c5 := mk(nil, []*gprofile{{name: "a", in: []*grule{with(func(g *grule) { g.action = "allow"; g.proto = 6; g.dstNamed = []int{5} })}}}, w5, tcp)
	v.named = c5 == 0
	if c1 > 1 || c2 == 2 || c2 > 3 || c3 > 1 || c4 > 1 || c5 > 1 {
		err = fmt.Errorf("cannot tell the checker variant of this tree: probe statuses %d %d %d %d %d", c1, c2, c3, c4, c5)
	}
	return
}

// ------------------------------------------------------------------ one case

func buildCase(r *rng, o *caseOpts, u *universe, tiers []*gtier, profs []*gprofile, w *setWorld, forced []packet, extra ...packet) (*line, error) {
	ver := o.ver
	v6 := ver == 6
	st := buildProtoState(tiers, profs)

	// ---- iptables and nftables
	ipt, err := renderFlavor(o, false, tiers, profs, st)
	if err != nil {
		return nil, err
	}
	nft, err := renderFlavor(o, true, tiers, profs, st)
	if err != nil {
		return nil, err
	}

	// ---- BPF: the real extraction of polprog.Rules from the endpoint's tiers / profile ids, then the real builder
	var bpfRules polprog.Rules
	extractErr := func() (e error) {
		defer func() {
			if x := recover(); x != nil {
				e = fmt.Errorf("extractRules panicked: %v", x)
			}
		}()
		bpfRules = intdataplane.VerifExtractRules(st.policies, st.profiles, st.tierInfos, st.profIDs, o.egress)
		return nil
	}()
	if extractErr != nil {
		return nil, extractErr
	}
	bpfRules.NoProfileMatchID = 999999
	var opts []polprog.Option
	useJmps := r.chance(70)
	allow, deny := 1+r.intn(50), 60+r.intn(50)
	if useJmps {
		opts = append(opts, polprog.WithAllowDenyJumps(allow, deny))
	}
	base, stride := r.intn(20), 0
	var tags []string
	if r.chance(40) {
		stride = 100 + r.intn(1000)
		maxJ := []int{6, 10, 20, 40}[r.intn(4)]
		opts = append(opts, polprog.WithPolicyMapIndexAndStride(base, stride), polprog.VerifWithMaxJumps(maxJ))
		tags = append(tags, "bpf-split:enabled")
	}
	if o.flow {
		opts = append(opts, polprog.WithFlowLogs())
	}
	if v6 {
		opts = append(opts, polprog.WithIPv6())
	}
	comp := compileBPF(bpfRules, opts)
	bpfCoq, nInsn := "BPanic", 0
	switch comp.kind {
	case "ok":
		var s string
		s, nInsn = insnsCoq(comp.progs)
		bpfCoq = "(BOk " + s + ")"
		tags = append(tags, fmt.Sprintf("bpf-subprograms:%d", min(len(comp.progs), 4)))
	case "error":
		bpfCoq = "BError"
	}
	if comp.kind != "ok" && o.guard {
		return nil, fmt.Errorf("BPF builder failed on an in-fragment state: %s %s", comp.kind, comp.msg)
	}

	// ---- the endpoint as the Coq side sees it
	dirRules := func(inb, outb []*grule) []*grule {
		if o.egress {
			return outb
		}
		return inb
	}
	var allRules []*grule
	nPol, nStaged := 0, 0
	tiersCoq := coqList(tiers, func(t *gtier) string {
		var pols []string
		for _, g := range t.groups {
			for _, p := range g.pols {
				rs := dirRules(p.in, p.out)
				nPol++
				if p.staged {
					nStaged++
				} else {
					allRules = append(allRules, rs...)
				}
				pols = append(pols, fmt.Sprintf("KP %v %v %s", p.staged, !p.missing, coqList(rs, (*grule).coq)))
			}
		}
		def := map[string]string{"Deny": "KdDeny", "Pass": "KdPass", "": "KdUnset"}[t.defaultAction]
		return fmt.Sprintf("KT [%s] %s", strings.Join(pols, "; "), def)
	})
	profsCoq := coqList(profs, func(pf *gprofile) string {
		rs := dirRules(pf.in, pf.out)
		allRules = append(allRules, rs...)
		return fmt.Sprintf("KF %v %s", !pf.missing, coqList(rs, (*grule).coq))
	})

	// ---- probe packets: one aimed at each rule (a sample when there are many), perturbations, randoms
	var edgePorts []int
	for _, g := range allRules {
		for _, q := range append(append(append([]prange{}, g.dstPorts...), g.notDstPorts...), g.srcPorts...) {
			for _, x := range []int{q.first - 1, q.first, q.last, q.last + 1} {
				if x >= 0 && x <= 65535 {
					edgePorts = append(edgePorts, x)
				}
			}
		}
	}
	edgePort := func(def int) int {
		if len(edgePorts) > 0 && r.chance(50) {
			return edgePorts[r.intn(len(edgePorts))]
		}
		return def
	}
	rndPkt := func() packet {
		p := packet{proto: u.protos[r.intn(len(u.protos))], src: u.addrs[r.intn(len(u.addrs))], dst: u.addrs[r.intn(len(u.addrs))],
			sport: []int{1000, 5000, 40000}[r.intn(3)], dport: u.ports[r.intn(len(u.ports))], ityp: []int{8, 0, 128, 3}[r.intn(4)]}
		if r.chance(60) {
			p.proto = []int{6, 17}[r.intn(2)]
		}
		return p
	}
	fix := func(p packet) packet {
		if !hasPorts(p.proto) {
			p.sport, p.dport = 0, 0
		}
		if p.proto != 1 && p.proto != 58 {
			p.ityp, p.icode = 0, 0
		}
		return p
	}
	genMark := func() uint32 {
		mc := o.mc
		var m uint32
		for _, b := range []uint32{mc.s0, mc.s1, mc.accept, mc.pass} {
			if r.chance(35) {
				m |= b
			}
		}
		m |= uint32(r.next()) & mc.endpoint
		return m
	}
	var pkts []packet
	seenP := map[string]bool{}
	addP := func(p packet) {
		p = fix(p)
		p.mark = genMark()
		k := fmt.Sprintf("%d|%s|%s|%d|%d|%d", p.proto, p.src, p.dst, p.sport, p.dport, p.ityp)
		if !seenP[k] {
			seenP[k] = true
			pkts = append(pkts, p)
		}
	}
	const maxPkts = 20
	if forced != nil {
		for _, p := range forced {
			addP(p)
		}
	} else {
		for _, p := range extra {
			addP(p)
		}
		order := make([]int, len(allRules))
		for i := range order {
			order[i] = i
		}
		for i := len(order) - 1; i > 0; i-- {
			j := r.intn(i + 1)
			order[i], order[j] = order[j], order[i]
		}
		for _, ri := range order {
			if len(pkts) >= maxPkts-4 {
				break
			}
			g := allRules[ri]
			for try := 0; try < 60; try++ {
				p := rndPkt()
				if g.proto >= 0 {
					p.proto = g.proto
				}
				p = fix(p)
				if g.matches(p, ver, w) {
					addP(p)
					// the rule's negated protocol, everything else as aimed
					if g.notProto >= 0 && len(pkts) < maxPkts-2 {
						e := p
						e.proto = g.notProto
						addP(e)
					}
					// the far edges of the rule's port ranges (negated ranges first), everything else as aimed
					for _, q := range append(append([]prange{}, g.notDstPorts...), g.dstPorts...) {
						if q.first < q.last && len(pkts) < maxPkts-2 {
							e := p
							e.dport = []int{q.last, q.last + 1, q.first}[r.intn(3)]
							if len(g.notDstPorts) > 0 {
								e.dport = q.last
							}
							addP(e)
							break
						}
					}
					q := p
					k := r.intn(4)
					if len(g.dstPorts)+len(g.notDstPorts)+len(g.srcPorts) > 0 && r.chance(50) {
						k = 2
					}
					switch k {
					case 0:
						q.src = u.addrs[r.intn(len(u.addrs))]
					case 1:
						q.dst = u.addrs[r.intn(len(u.addrs))]
					case 2:
						q.dport = edgePort(u.ports[r.intn(len(u.ports))])
						if r.chance(25) {
							q.sport = edgePort(q.sport)
						}
					default:
						q.proto = u.protos[r.intn(len(u.protos))]
					}
					addP(q)
					break
				}
			}
		}
		for len(pkts) < maxPkts && len(pkts) < 8+len(allRules)*2 {
			addP(rndPkt())
		}
	}

	// ---- the checker: real policy store, real checkStore on every probe
	store := buildStore(v6, tiers, profs, st, w)
	ep := &proto.WorkloadEndpoint{Tiers: st.tierInfos, ProfileIds: st.profIDs}
	var codes []string
	nAllow := 0
	for _, p := range pkts {
		c, err := runChecker(store, ep, o.egress, v6, p)
		if err != nil {
			return nil, err
		}
		if c == 0 {
			nAllow++
		}
		codes = append(codes, fmt.Sprintf("%d", c))
	}

	// ---- emit
	vc := "V4"
	if v6 {
		vc = "V6"
	}
	kvCoq := fmt.Sprintf("(Build_kvariant %v %v %v %v %v)", kv.profilePassNext, kv.defaultLenient, kv.ipver, kv.trie, kv.named)
	stateCoq := fmt.Sprintf("%s\n %s\n %s", tiersCoq, profsCoq, w.coq())
	coq := fmt.Sprintf("(Build_case %s %s\n %s\n %v\n %s %s\n \"%s\" %s\n \"%s\" %s\n %v %d %d %d %d\n %s\n %s\n [%s])%%N",
		kvCoq, vc, stateCoq, o.guard, ipt.cfgCoq, nft.cfgCoq, ipt.name, ipt.chainsCoq, nft.name, nft.chainsCoq,
		useJmps, allow, deny, base, stride, bpfCoq,
		coqList(pkts, func(p packet) string { return p.coq(ver) }), strings.Join(codes, "; "))

	dir := "ingress"
	if o.egress {
		dir = "egress"
	}
	tags = append(tags, fmt.Sprintf("ipv%d", ver), "dir:"+dir, fmt.Sprintf("tiers:%d", len(tiers)), fmt.Sprintf("profiles:%d", len(profs)),
		fmt.Sprintf("flowlogs:%v", o.flow), fmt.Sprintf("in-fragment:%v", o.guard), "bpf-compile:"+comp.kind)
	if nStaged > 0 {
		tags = append(tags, "has-staged")
	}
	for _, t := range tiers {
		switch t.defaultAction {
		case "Pass":
			tags = append(tags, "tier-default-pass")
		case "":
			tags = append(tags, "tier-default-unset")
		}
	}
	for _, pf := range profs {
		for _, g := range dirRules(pf.in, pf.out) {
			if g.action == "pass" || g.action == "next-tier" {
				tags = append(tags, "profile-has-pass-rule")
			}
		}
	}
	for _, g := range allRules {
		if g.ipver != 0 {
			tags = append(tags, "rule-has-ip-version")
		}
		if len(g.dstNamed)+len(g.notDstNamed)+len(g.srcNamed)+len(g.notSrcNamed) > 0 {
			tags = append(tags, "rule-has-named-port")
		}
		if len(g.srcNamed)+len(g.notSrcNamed) > 0 && len(g.dstNamed)+len(g.notDstNamed)+len(g.dstIPPortSets) > 0 {
			tags = append(tags, "rule-has-port-sets-on-both-legs")
		}
	}
	if o.feat != "" {
		tags = append(tags, "feat:"+o.feat)
	}
	switch {
	case nAllow == 0:
		tags = append(tags, "verdicts:all-deny")
	case nAllow == len(pkts):
		tags = append(tags, "verdicts:all-allow")
	default:
		tags = append(tags, "verdicts:mixed")
	}
	sort.Strings(tags)
	tags = dedup(tags)
	sample := map[string]any{"ipver": ver, "direction": dir, "policies": nPol, "staged": nStaged, "profiles": len(profs),
		"iptables_chains": ipt.nChains, "iptables_rules": ipt.nRules, "nftables_rules": nft.nRules, "bpf_instructions": nInsn,
		"bpf_subprograms": len(comp.progs), "packets": len(pkts), "checker_status": strings.Join(codes, ""),
		"endpoint_chain_iptables": ipt.texts, "feat": o.feat}
	return &line{Coq: coq, NT: nPol-nStaged+len(profs) >= 2 && len(pkts) >= 8 && len(allRules) >= 2, Feat: o.feat,
		Key: fmt.Sprintf("%s|%v|%s", vc, o.egress, stateCoq), Sample: sample, Tags: tags}, nil
}

func dedup(xs []string) []string {
	var out []string
	for i, x := range xs {
		if i == 0 || xs[i-1] != x {
			out = append(out, x)
		}
	}
	return out
}

// ------------------------------------------------------------------ minimal witnesses of the four checker findings
func witness(r *rng, feat string) (*line, error) {
	o := &caseOpts{ver: 4, mc: markCfgs[0], feat: feat, guard: true}
	u := newUniverse(4)
	w := &setWorld{nets: make([][]cidr, nNetSets+1), ports: make([][]pmember, nNetSets+nPortSets+1), missing: map[int]bool{}}
	none := func() *grule { return &grule{proto: -1, notProto: -1, icmpType: -1} }
	with := func(f func(g *grule)) *grule { g := none(); f(g); return g }
	both := func(gs ...*grule) ([]*grule, []*grule) { return gs, gs }
	gnp := func(n string) types.PolicyID { return types.PolicyID{Name: n, Kind: "GlobalNetworkPolicy"} }
	tcp := packet{proto: 6, src: u.addrs[0], dst: u.addrs[1], sport: 1000, dport: 80}
	udp := tcp
	udp.proto = 17
	var tiers []*gtier
	var profs []*gprofile
	switch feat {
	case "profile-pass":
		a, b := both(with(func(g *grule) { g.action = "pass" }))
		c, d := both(with(func(g *grule) { g.action = "allow" }))
		profs = []*gprofile{{name: "prof0", in: a, out: b}, {name: "prof1", in: c, out: d}}
	case "default-unset":
		a, b := both(with(func(g *grule) { g.action = "allow"; g.proto = 17 }))
		c, d := both(with(func(g *grule) { g.action = "allow" }))
		tiers = []*gtier{{name: "tier0", defaultAction: "", groups: []*ggroup{{pols: []*gpolicy{
			{id: gnp("tier0.a"), in: a, out: b}, {id: gnp("tier0.b"), in: c, out: d}}}}}}
	case "ipver":
		a, b := both(with(func(g *grule) { g.action = "allow"; g.ipver = 6 }))
		profs = []*gprofile{{name: "prof0", in: a, out: b}}
	case "trie":
		w.nets[1] = []cidr{mkCIDR("10.0.0.0/25")}
		a, b := both(with(func(g *grule) { g.action = "allow"; g.srcSets = []int{1} }))
		profs = []*gprofile{{name: "prof0", in: a, out: b}}
	case "named":
		w.ports[5] = []pmember{{addr: u.addrs[1], proto: 6, port: 80}}
		a, b := both(with(func(g *grule) { g.action = "allow"; g.proto = 6; g.dstNamed = []int{5} }))
		profs = []*gprofile{{name: "prof0", in: a, out: b}}
	}
	c, err := buildCase(r, o, u, tiers, profs, w, []packet{tcp, udp})
	if err != nil {
		return nil, err
	}
	c.Tags = append(c.Tags, "corpus:minimal-"+feat)
	return c, nil
}

func main() {
	n := flag.Int("n", 30, "cases")
	seed := flag.Uint64("seed", 1, "seed")
	flag.Parse()
	logrus.SetLevel(logrus.PanicLevel)
	logrus.SetOutput(io.Discard)
	r := &rng{s: *seed*0x2545F4914F6CDD1D + 0xC12}
	enc := json.NewEncoder(os.Stdout)
	stats := map[string]any{}
	fail := func(err error) {
		fmt.Fprintf(os.Stderr, "C12 driver: %v\n", err)
		os.Exit(3)
	}
	var perr error
	if kv, perr = probeChecker(); perr != nil {
		fail(perr)
	}
	stats["checker_variant"] = fmt.Sprintf("%+v", kv)
	feats := []string{"profile-pass", "default-unset", "ipver", "trie", "named"}
	for _, f := range feats {
		c, err := witness(r, f)
		if err != nil {
			fail(err)
		}
		_ = enc.Encode(c)
	}
	for i := 0; i < *n; i++ {
		o := &caseOpts{ver: 4, mc: markCfgs[r.intn(len(markCfgs))], flow: r.chance(40), reject: r.chance(25), egress: r.chance(50), guard: true}
		if r.chance(35) {
			o.ver = 6
		}
		// feature streams: each is one checker finding class on the pinned tree (a case carries at most one);
		// "ood": outside the common fragment, only the checker model is compared with the checker
		switch x := r.intn(20); {
		case x < 2:
			o.feat = "profile-pass"
		case x < 4:
			o.feat = "default-unset"
		case x < 6:
			o.feat = "ipver"
		case x < 8:
			o.feat = "trie"
		case x < 10:
			o.feat = "named"
		case x < 12:
			o.feat, o.guard = "ood", false
		}
		u := newUniverse(o.ver)
		w := genSets(r, u, kv.trie || o.feat == "trie" || o.feat == "ood", o.feat == "ood")
		if o.feat == "ood" && r.chance(40) {
			w.missing[1+r.intn(nNetSets+nPortSets)] = true
		}
		tiers, profs := genEndpoint(r, u, o)
		var extra []packet
		legs := ""
		if (kv.named && o.feat == "" && r.chance(40)) || (o.feat == "named" && r.chance(60)) {
			tiers, profs, extra, legs = injectLegs(r, u, w, tiers, profs)
		}
		stagedAfter := false
		if o.feat == "" && legs == "" && r.chance(35) {
			tiers, profs, extra = injectStagedAfter(r, u, tiers, profs)
			stagedAfter = true
		}
		c, err := buildCase(r, o, u, tiers, profs, w, nil, extra...)
		if err != nil {
			fail(err)
		}
		if legs != "" {
			c.Tags = append(c.Tags, "both-legs:"+legs)
		}
		if stagedAfter {
			c.Tags = append(c.Tags, "layout:staged-only-tier-after-enforced-tier")
		}
		_ = enc.Encode(c)
	}
	_ = enc.Encode(map[string]any{"stats": stats})
}
