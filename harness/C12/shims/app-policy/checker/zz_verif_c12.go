//go:build verif

package checker

import (
	"github.com/projectcalico/calico/app-policy/policystore"
	"github.com/projectcalico/calico/felix/proto"
	"github.com/projectcalico/calico/felix/rules"
)

// Add-only shim for property C12.  Nothing here changes behaviour.

// VerifCheckStore exposes checkStore (enforced policies only) and returns the status code.
func VerifCheckStore(store *policystore.PolicyStore, ep *proto.WorkloadEndpoint, dir rules.RuleDir, flow Flow) int32 {
	s := checkStore(EnforcedOnly, store, ep, dir, flow)
	return s.Code
}
