//go:build verif

package intdataplane

import (
	"github.com/projectcalico/calico/felix/bpf/polprog"
	"github.com/projectcalico/calico/felix/proto"
	"github.com/projectcalico/calico/felix/types"
)

// Add-only shim for property C12.  Nothing here changes behaviour.

// VerifExtractRules runs the real bpfEndpointManager.extractRules (extractTiers + extractProfiles) of a workload
// endpoint on the given active policies / profiles: this is how the BPF dataplane reads an endpoint's policy state.
func VerifExtractRules(policies map[types.PolicyID]*proto.Policy, profiles map[types.ProfileID]*proto.Profile,
	tiers []*proto.TierInfo, profileNames []string, egress bool) polprog.Rules {
	m := &bpfEndpointManager{policies: policies, profiles: profiles}
	dir := PolDirnIngress
	if egress {
		dir = PolDirnEgress
	}
	return m.extractRules(tiers, profileNames, dir)
}
