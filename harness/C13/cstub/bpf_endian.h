/* Minimal stand-in for libbpf's bpf_endian.h (little-endian bpf target). */
#ifndef __VERIF_BPF_ENDIAN_H__
#define __VERIF_BPF_ENDIAN_H__
#define bpf_htons(x) __builtin_bswap16(x)
#define bpf_ntohs(x) __builtin_bswap16(x)
#define bpf_htonl(x) __builtin_bswap32(x)
#define bpf_ntohl(x) __builtin_bswap32(x)
#define bpf_cpu_to_be64(x) __builtin_bswap64(x)
#define bpf_be64_to_cpu(x) __builtin_bswap64(x)
#define __bpf_constant_htons(x) __builtin_bswap16(x)
#define __bpf_constant_htonl(x) __builtin_bswap32(x)
#endif
