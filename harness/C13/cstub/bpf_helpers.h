/* Minimal stand-in for libbpf's bpf_helpers.h (libbpf is not installed in the sandbox).
 * Only what the calico bpf-gpl *type* headers need in order to be parsed by
 * `clang -fsyntax-only -Xclang -fdump-record-layouts`; no struct layout depends on it. */
#ifndef __VERIF_BPF_HELPERS_H__
#define __VERIF_BPF_HELPERS_H__
#define SEC(name) __attribute__((section(name), used))
#ifndef __always_inline
#define __always_inline inline __attribute__((always_inline))
#endif
#ifndef __noinline
#define __noinline __attribute__((noinline))
#endif
#ifndef __weak
#define __weak __attribute__((weak))
#endif
#define __uint(name, val) int (*name)[val]
#define __type(name, val) typeof(val) *name
#define __array(name, val) typeof(val) *name[]
#define __ulong(name, val) enum { ___bpf_concat(__unique_value, __COUNTER__) = val } name
#define __kconfig __attribute__((section(".kconfig")))
#define __ksym __attribute__((section(".ksyms")))
#define __hidden __attribute__((visibility("hidden")))
#define LIBBPF_PIN_BY_NAME 1
#ifndef offsetof
#define offsetof(TYPE, MEMBER)	__builtin_offsetof(TYPE, MEMBER)
#endif
#endif
