/* Minimal stand-in for libbpf's bpf_core_read.h. */
#ifndef __VERIF_BPF_CORE_READ_H__
#define __VERIF_BPF_CORE_READ_H__
#define bpf_core_field_exists(field...) 1
#define bpf_core_type_exists(type) 1
#define BPF_CORE_READ(src, a, ...) 0
#define bpf_core_enum_value_exists(enum_type, enum_value) 1
#define bpf_core_enum_value(enum_type, enum_value) 0
#define bpf_core_field_size(field...) 0
#define bpf_core_type_size(type) 0
#endif
