"""C13 translator: regenerates the Coq tables (VerifGen.Gen) from the source tree.

C side : clang -target bpf -fdump-record-layouts over a stub that includes the bpf-gpl headers, twice
         (with / without -DIPVER6).  Pass 1 gives every member path and its offset; pass 2 asks clang for
         sizeof(member) of every path (a wrapper record per path), so no C type-size table is assumed.
Go side: JSON lines of harness/C13/cmd/main.go (run against the same tree).
Mapping: the explicit name-mapping table Go field <-> C member path(s) below.  A Go row without a mapping
         line gets none, and therefore fails its obligation inside Coq (never skipped).
"""
import json, os, re, subprocess, glob

HERE = os.path.dirname(os.path.abspath(__file__))
CSTUB = os.path.join(HERE, "cstub")

HEADERS = ["types.h", "conntrack_types.h", "nat_types.h", "policy.h", "routes.h", "sendrecv.h", "jump.h",
           "ifstate.h", "failsafe.h", "counters.h", "rule_counters.h", "qos.h", "conntrack_cleanup.h", "allowsources.h", "events.h", "profiling.h"]
HEADERS_V4_ONLY = ["ip_v4_fragment.h"]
# records laid out whether or not a map declaration names them (all `struct X` key/value types of the declared
# maps are added automatically)
STRUCTS = ["cali_tc_state", "ip_set_key", "calico_ct_key", "calico_ct_value", "calico_ct_leg", "calico_nat",
           "calico_nat_key", "calico_nat_value", "calico_nat_secondary_key", "calico_nat_dest", "cali_maglev_key",
           "calico_nat_affinity_key", "calico_nat_affinity_val", "sendrec_key", "sendrec_val", "ct_nats_key",
           "cali_rt_key", "cali_rt", "event_header"]
# records defined in a .c file of a BPF program rather than in a header: (file, extra flags, [struct])
EXTRA_TUS = [("conntrack_cleanup.c", ["-DCALI_COMPILE_FLAGS=512"], ["ct_iter_ctx"])]   # 512 = CALI_CT_CLEANUP, as calculate-flags gives
# constants / scalar types whose size enters a total-size comparison: name -> C declarator of a char array / member
CONSTS = {"STATE_SIZE": "char x[STATE_SIZE]", "__u32": "__u32 x", "MAX_COUNTERS_SIZE": "char x[MAX_COUNTERS_SIZE]"}
# key/value types that are arrays: their elements become member rows v[0] .. v[n-1]
ARRAY_TYPES = {"counters_t"}
MAP_RE = re.compile(r'typeof\(([^;]*?)\)\s*\*\s*key\s*;\s*typeof\(([^;]*?)\)\s*\*\s*value\s*;[^{}]*\}\s*(\w+)\s*__attribute__\(\(section\("\.maps"\)')


class TranslateError(Exception):
    pass


def _clang(repo, src, ipver, workdir, preprocess=False, extra=(), tag=""):
    inc = os.path.join(repo, "felix", "bpf-gpl")
    if not os.path.isdir(inc):
        raise TranslateError("no felix/bpf-gpl in %s" % repo)
    path = os.path.join(workdir, "stub_v%d%s%s.c" % (ipver, "_E" if preprocess else "", tag))
    open(path, "w").write(src)
    # -D__x86_64__ : as felix/bpf-gpl/Makefile does for an x86-64 build host; cstub/ stands in for libbpf's headers
    cmd = ["timeout", "120", "clang", "-target", "bpf", "-D__x86_64__", "-w", "-I", CSTUB, "-I", inc,
           "-I/usr/include/x86_64-linux-gnu", "-fsyntax-only", "-Xclang", "-fdump-record-layouts", path]
    if ipver == 6:
        cmd.insert(5, "-DIPVER6")
    for x in extra:
        cmd.insert(5, x)
    if preprocess:
        cmd = [c for c in cmd if c not in ("-fsyntax-only", "-Xclang", "-fdump-record-layouts")]
        cmd.insert(-1, "-E")
        cmd.insert(-1, "-P")
    r = subprocess.run(cmd, stdout=subprocess.PIPE, stderr=subprocess.PIPE, text=True)
    if r.returncode != 0:
        # A header that no longer parses means the C view cannot be established: that is a failure of the
        # check, not something to ignore (diagnostics after a fatal error are suppressed by clang).
        raise TranslateError("clang failed (ipver %d, rc %d):\n%s" % (ipver, r.returncode, r.stderr[-3000:]))
    return r.stdout


def _blocks(dump):
    """record name -> (list of (off_bits, bit_width or None, depth, type, name or None), sizeof bytes)"""
    res = {}
    for blk in dump.split("*** Dumping AST Record Layout\n")[1:]:
        lines = [l for l in blk.split("\n") if "|" in l]
        if not lines:
            continue
        head = lines[0].split("|", 1)[1].strip()
        m = re.search(r"\[sizeof=(\d+)", blk)
        if not m:
            continue
        rows = []
        for l in lines[1:]:
            offs, rest = l.split("|", 1)
            offs = offs.strip()
            if not offs or rest.strip().startswith("["):
                continue
            indent = len(rest) - len(rest.lstrip(" "))
            depth = (indent - 1) // 2          # members of the record itself have depth 1
            body = rest.strip()
            bm = re.match(r"(\d+):(\d+)-(\d+)$", offs)
            if bm:
                off = int(bm.group(1)) * 8 + int(bm.group(2))
                width = int(bm.group(3)) - int(bm.group(2)) + 1
            else:
                off, width = int(offs) * 8, None
            if "(anonymous at" in body or "(unnamed at" in body:
                # "union X::(anonymous at f:l:c)" or "... ) name"
                tail = body[body.rindex(")") + 1:].strip()
                name = tail or None
                typ = body[:body.rindex(")") + 1]
            else:
                typ, _, name = body.rpartition(" ")
            rows.append((off, width, depth, typ, name))
        res[head] = (rows, int(m.group(1)))
    return res


def c_view(repo, workdir):
    """returns (crows, ctotals, info, cmaps):
       crows   = [(ver, struct, path, off_bits, size_bits)]
       ctotals = [(ver, name, bytes)]
       cmaps   = {ver: {map symbol: (key type text, value type text)}}  from the CALI_MAP* declarations"""
    crows, ctotals = [], []
    info, cmaps = {}, {}
    import concurrent.futures
    with concurrent.futures.ThreadPoolExecutor(2) as ex:
        res = list(ex.map(lambda v: _c_view_ver(repo, workdir, v), (4, 6)))
    for ver, (cr, ct_, inf, mp) in zip((4, 6), res):
        crows += cr
        ctotals += ct_
        info[ver] = inf
        cmaps[ver] = mp
    return crows, ctotals, info, cmaps


def _c_view_ver(repo, workdir, ver):
    crows, ctotals = [], []
    if True:
        hdrs = HEADERS + (HEADERS_V4_ONLY if ver == 4 else [])
        inc = "".join('#include "%s"\n' % h for h in hdrs)
        # the map declarations, as the preprocessor expands them
        pre = _clang(repo, inc, ver, workdir, preprocess=True)
        maps_ = {}
        for m in MAP_RE.finditer(pre):
            maps_[m.group(3)] = (" ".join(m.group(1).split()), " ".join(m.group(2).split()))
        if not maps_:
            raise TranslateError("no CALI_MAP declaration found in the preprocessed headers (ipver %d)" % ver)
        structs = list(STRUCTS)
        for sym, (kt, vt) in sorted(maps_.items()):
            for t in (kt, vt):
                mm = re.match(r"struct (\w+)$", t)
                if mm and mm.group(1) not in structs:
                    structs.append(mm.group(1))
        src = inc
        # one wrapper record per map key / value: member v has exactly the declared key / value type
        wrappers = []
        for sym, (kt, vt) in sorted(maps_.items()):
            for which in ("key", "value"):
                w = "__verif_map_%s_%s" % (sym, which)
                src += "struct %s { __typeof__(*%s.%s) v; };\n" % (w, sym, which)
                wrappers.append((w, "map:%s:%s" % (sym, which), kt if which == "key" else vt))
        wtype = {n: t for (w, n, t) in wrappers}
        allrec = [("struct " + s_, s_) for s_ in structs] + [("struct " + w, n) for (w, n, _t) in wrappers]
        src += "".join('_Static_assert(sizeof(%s) > 0, "");\n' % k for (k, _n) in allrec)
        for i, (n, d) in enumerate(sorted(CONSTS.items())):
            src += 'struct __verif_const_%d { %s; };\n_Static_assert(sizeof(struct __verif_const_%d) > 0, "");\n' % (i, d, i)
        blocks = _blocks(_clang(repo, src, ver, workdir))
        members = []      # (record key, reported struct name, path, off, width or None)
        for key, sname in allrec:
            if key not in blocks:
                raise TranslateError("clang printed no layout for %s (ipver %d): the C definition is gone or renamed" % (key, ver))
            rows, size = blocks[key]
            ctotals.append((ver, sname, size))
            stack = []    # names per depth (None for anonymous levels)
            if sname.startswith("map:") and re.match(r"struct \w+$", wtype[sname]):
                rows = rows[:1]   # the record itself is laid out under its own name; keep only member v
            for off, width, depth, typ, name in rows:
                stack = stack[:depth - 1]
                stack.append(name)
                if name is None:
                    continue
                path = ".".join(x for x in stack if x is not None)
                members.append((key, sname, path, off, width))
        for i, (n, d) in enumerate(sorted(CONSTS.items())):
            key = "struct __verif_const_%d" % i
            if key not in blocks:
                raise TranslateError("no layout for constant %s" % n)
            ctotals.append((ver, n, blocks[key][1]))
        # pass 2: sizeof every non-bit-field member path, straight from clang (+ element size of array-typed values)
        src2 = src
        idx = {}
        for j, (key, sname, path, off, width) in enumerate(members):
            if width is None:
                idx[j] = "__verif_sz_%d" % j
                src2 += "struct %s { __typeof__(((%s *)0)->%s) x; };\n_Static_assert(sizeof(struct %s) > 0, \"\");\n" % (idx[j], key, path, idx[j])
        arrays = [(w, n) for (w, n, t) in wrappers if t in ARRAY_TYPES]
        for k, (w, n) in enumerate(arrays):
            src2 += "struct __verif_el_%d { __typeof__(((struct %s *)0)->v[0]) x; };\n_Static_assert(sizeof(struct __verif_el_%d) > 0, \"\");\n" % (k, w, k)
        blocks2 = _blocks(_clang(repo, src2, ver, workdir))
        sizes = {}
        for j, (key, sname, path, off, width) in enumerate(members):
            if width is None:
                k2 = "struct " + idx[j]
                if k2 not in blocks2:
                    raise TranslateError("no size for %s.%s" % (sname, path))
                width = blocks2[k2][1] * 8
            sizes[(sname, path)] = (off, width)
            crows.append((ver, sname, path, off, width))
        for k, (w, n) in enumerate(arrays):
            el = blocks2["struct __verif_el_%d" % k][1] * 8
            off, width = sizes[(n, "v")]
            if el == 0 or width % el:
                raise TranslateError("array value %s: element size does not divide the total" % n)
            for i in range(width // el):
                crows.append((ver, n, "v[%d]" % i, off + i * el, el))
        # records that live in a program's .c file: their own translation unit, same two passes
        for ti, (cfile, flags, sts) in enumerate(EXTRA_TUS):
            xsrc = '#include "%s"\n' % cfile + "".join('_Static_assert(sizeof(struct %s) > 0, "");\n' % x for x in sts)
            xb = _blocks(_clang(repo, xsrc, ver, workdir, extra=flags, tag="_x%d" % ti))
            xm = []
            for st in sts:
                if "struct " + st not in xb:
                    raise TranslateError("clang printed no layout for struct %s of %s (ipver %d)" % (st, cfile, ver))
                rows, size = xb["struct " + st]
                ctotals.append((ver, st, size))
                stack = []
                for off, width, depth, typ, name in rows:
                    stack = stack[:depth - 1]
                    stack.append(name)
                    if name is not None:
                        xm.append((st, ".".join(x for x in stack if x is not None), off, width))
            xsrc2 = xsrc
            for j, (st, path, off, width) in enumerate(xm):
                if width is None:
                    xsrc2 += "struct __verif_xs_%d { __typeof__(((struct %s *)0)->%s) x; };\n_Static_assert(sizeof(struct __verif_xs_%d) > 0, \"\");\n" % (j, st, path, j)
            xb2 = _blocks(_clang(repo, xsrc2, ver, workdir, extra=flags, tag="_x%d" % ti))
            for j, (st, path, off, width) in enumerate(xm):
                if width is None:
                    width = xb2["struct __verif_xs_%d" % j][1] * 8
                crows.append((ver, st, path, off, width))
            structs = structs + sts
        info = dict(structs=len(structs), maps=len(maps_), members=len(members))
    return crows, ctotals, info, maps_


def go_view(lines):
    grows, gtotals, notes, gmaps = [], [], [], []
    for l in lines:
        if "map" in l:
            gmaps.append(l["map"])
            continue
        if "row" in l:
            r = l["row"]
            grows.append((r["ipver"], r["struct"], r["field"], r["off"], r["size"], r.get("how", "")))
        elif "total" in l:
            t = l["total"]
            gtotals.append((t["ipver"], t["name"], t["size"]))
        elif "note" in l:
            notes.append(l["note"])
    return grows, gtotals, notes, gmaps


# ------------------------------------------------------------------------------------------------ mapping table
# gstruct -> (C struct, {go field: (C paths | (paths v4, paths v6), relation)})
E, P, O = "Exact", "Prefix", "OffsetOnly"


def _leg(prefix_go, prefix_c):
    d = {}
    for f in ("bytes", "packets", "seqno", "ifindex", "syn_seen", "ack_seen", "fin_seen", "rst_seen", "approved", "opener", "workload"):
        d[prefix_go + f] = ([prefix_c + f], E)
    return d


def _addr4(go, c):
    """a 16-byte address declared as four uint32 in the Go mirror struct; C: DECLARE_IP_ADDR(c)"""
    return {go: (([c], [c + ".a"]), E),
            go + "1": ((["__pad%s.b" % c], [c + ".b"]), E),
            go + "2": ((["__pad%s.c" % c], [c + ".c"]), E),
            go + "3": ((["__pad%s.d" % c], [c + ".d"]), E)}


CT_VALUE = {
    "RSTSeen()": (["rst_seen"], E), "LastSeen()": (["last_seen"], E), "Type()": (["type"], E),
    "Flags()#0": (["flags", "flags3", "flags4"], E), "Flags()#1": (["flags2"], E),
    "OrigIP()": (["orig_ip"], E), "OrigPort()": (["orig_port"], E), "OrigSPort()": (["orig_sport"], E),
    "NATSPort()": (["nat_sport"], E), "OrigSrcIP()": (["orig_sip"], E),
    # the conntrack key stores the 8-bit protocol number in a __u32 (little-endian: first byte)
    "ReverseNATKey().Proto()": (["nat_rev_key.protocol"], P), "ReverseNATKey().AddrA()": (["nat_rev_key.addr_a"], E),
    "ReverseNATKey().PortA()": (["nat_rev_key.port_a"], E), "ReverseNATKey().AddrB()": (["nat_rev_key.addr_b"], E),
    "ReverseNATKey().PortB()": (["nat_rev_key.port_b"], E),
    "Data().OrigDst": (["orig_ip"], E), "Data().OrigSrc": (["orig_sip"], E), "Data().OrigPort": (["orig_port"], E),
    "Data().OrigSPort": (["orig_sport"], E), "Data().TunIP": (["tun_ip"], E),
    "NewValueNormal.lastSeen": (["last_seen"], E),
    "NewValueNormal.flags#0": (["flags", "flags3", "flags4"], E), "NewValueNormal.flags#1": (["flags2"], E),
    "NewValueNATForward.lastSeen": (["last_seen"], E),
    "NewValueNATForward.flags#0": (["flags", "flags3", "flags4"], E), "NewValueNATForward.flags#1": (["flags2"], E),
    "NewValueNATForward.revKey.proto": (["nat_rev_key.protocol"], P), "NewValueNATForward.revKey.ipA": (["nat_rev_key.addr_a"], E),
    "NewValueNATForward.revKey.portA": (["nat_rev_key.port_a"], E), "NewValueNATForward.revKey.ipB": (["nat_rev_key.addr_b"], E),
    "NewValueNATForward.revKey.portB": (["nat_rev_key.port_b"], E), "SetNATSport": (["nat_sport"], E),
    "NewValueNATReverse.lastSeen": (["last_seen"], E),
    "NewValueNATReverse.flags#0": (["flags", "flags3", "flags4"], E), "NewValueNATReverse.flags#1": (["flags2"], E),
    "NewValueNATReverse.tunnelIP": (["tun_ip"], E), "NewValueNATReverse.origIP": (["orig_ip"], E),
    "NewValueNATReverse.origPort": (["orig_port"], E), "SetOrigSport": (["orig_sport"], E),
    # the three constructors write type 0, 1, 2: only the low bits of the type byte vary
    "NewValue*.type": (["type"], P),
}
CT_VALUE.update(_leg("Data().A2B.", "a_to_b."))
CT_VALUE.update(_leg("Data().B2A.", "b_to_a."))
CT_VALUE.update(_leg("NewValueNormal.legA.", "a_to_b."))
CT_VALUE.update(_leg("NewValueNormal.legB.", "b_to_a."))
CT_VALUE.update(_leg("NewValueNATReverse.legA.", "a_to_b."))
CT_VALUE.update(_leg("NewValueNATReverse.legB.", "b_to_a."))

STATE = {"eventHeader": (["eventhdr"], E), "ihl": (["ihl"], E), "PolicyRC": (["pol_rc"], E), "SrcPort": (["sport"], E),
         "DstPort": (["dport"], E), "PreNATDstPort": (["pre_nat_dport"], E), "PostNATDstPort": (["post_nat_dport"], E),
         "IPProto": (["ip_proto"], E), "pad": (["__pad"], E), "IPSize": (["ip_size"], E), "RulesHit": (["rules_hit"], E),
         "RuleIDs": (["rule_ids"], E), "Flags": (["flags"], E)}
for g, c in (("SrcAddr", "ip_src"), ("DstAddr", "ip_dst"), ("PreNATDstAddr", "pre_nat_ip_dst"),
             ("PostNATDstAddr", "post_nat_ip_dst"), ("TunIP", "tun_ip")):
    STATE.update(_addr4(g, c))
# Everything after Flags in the Go mirror struct follows the IPv4 build of struct cali_tc_state (the IPv6 build has
# 16-byte addresses inside ct_result / nat_dest, which one Go struct cannot mirror as well).  These lines are
# therefore obligations for ipver 4 always, and for ipver 6 only if the field is referenced anywhere in felix/.
STATE_TAIL = {"ConntrackRCPadding": (["ct_result.rc", "ct_result.pad"], E), "ConntrackFlags": (["ct_result.flags"], E),
              # name: "NAT IP + port" of the conntrack result
              "ConntrackNATIPPort": (["ct_result.nat_ip", "ct_result.nat_port"], E),
              # names used once fixes/C13-state-mirror-ct-result.patch is applied
              "ConntrackNATIP": (["ct_result.nat_ip"], E), "ConntrackNATSrcIP": (["ct_result.nat_sip"], E),
              "ConntrackNATPort": (["ct_result.nat_port"], E), "ConntrackNATSPort": (["ct_result.nat_sport"], E),
              "ConntrackTunIP": (["ct_result.tun_ip"], E), "ConntrackIfIndexFwd": (["ct_result.ifindex_fwd"], E),
              "ConntrackIfIndexCtd": (["ct_result.ifindex_created"], E), "NATData": (["nat_dest"], E),
              "ProgStartTime": (["prog_start_time"], E), "NATSvcID": (["nat_svc_id"], E)}
STATE_TAIL.update({k: (v[0][0], v[1]) for k, v in _addr4("SrcAddrMasq", "ip_src_masq").items()})

MAPPING = {
    "conntrack.Key": ("calico_ct_key", {
        "NewKey.proto": (["protocol"], P), "NewKey.ipA": (["addr_a"], E), "NewKey.portA": (["port_a"], E),
        "NewKey.ipB": (["addr_b"], E), "NewKey.portB": (["port_b"], E),
        "Proto()": (["protocol"], P), "AddrA()": (["addr_a"], E), "PortA()": (["port_a"], E), "AddrB()": (["addr_b"], E),
        "PortB()": (["port_b"], E)}),
    "conntrack.Value": ("calico_ct_value", CT_VALUE),
    "nat.FrontendKey": ("calico_nat_key", {
        "NewNATKeySrc.addr": (["addr"], E), "NewNATKeySrc.port": (["port"], E), "NewNATKeySrc.protocol": (["protocol"], E),
        "NewNATKeySrc.cidr.addr": (["saddr"], E),
        # LPM prefix length: a small number, only the low bits of the __u32 ever vary
        "NewNATKeySrc.cidr.prefix": (["prefixlen"], P),
        "Proto()": (["protocol"], E), "Addr()": (["addr"], E), "Port()": (["port"], E), "PrefixLen()": (["prefixlen"], E),
        "SrcCIDR().Addr()": (["saddr"], E)}),
    "nat.FrontendValue": ("calico_nat_value", {
        "NewNATValueWithFlags.id": (["id"], E), "NewNATValueWithFlags.count": (["count"], E), "NewNATValueWithFlags.local": (["local"], E),
        "NewNATValueWithFlags.affinityTimeo": (["affinity_timeo"], E), "NewNATValueWithFlags.flags": (["flags"], E),
        "ID()": (["id"], E), "Count()": (["count"], E), "LocalCount()": (["local"], E), "AffinityTimeout()": (["affinity_timeo"], E),
        "Flags()": (["flags"], E)}),
    "nat.BackendKey": ("calico_nat_secondary_key", {
        "NewNATBackendKey.id": (["id"], E), "NewNATBackendKey.ordinal": (["ordinal"], E), "ID()": (["id"], E), "Count()": (["ordinal"], E)}),
    "nat.BackendValue": ("calico_nat_dest", {
        "NewNATBackendValue.addr": (["addr"], E), "NewNATBackendValue.port": (["port"], E), "Addr()": (["addr"], E), "Port()": (["port"], E)}),
    "nat.MaglevBackendKey": ("cali_maglev_key", {
        "NewMaglevBackendKey.svcID": (["sid"], E), "NewMaglevBackendKey.ordinal": (["ordinal"], E), "SvcID()": (["sid"], E),
        "Ordinal()": (["ordinal"], E)}),
    "nat.AffinityKey": ("calico_nat_affinity_key", {
        "NewAffinityKey.clientIP": (["client_ip"], E), "NewAffinityKey.fEndKey.addr": (["nat_key.addr"], E),
        "NewAffinityKey.fEndKey.port": (["nat_key.port"], E), "NewAffinityKey.fEndKey.protocol": (["nat_key.protocol"], E),
        "ClientIP()": (["client_ip"], E), "FrontendAffinityKey().Addr()": (["nat_key.addr"], E),
        "FrontendAffinityKey().Port()": (["nat_key.port"], E), "FrontendAffinityKey().Proto()": (["nat_key.protocol"], E)}),
    "nat.AffinityValue": ("calico_nat_affinity_val", {
        "NewAffinityValue.ts": (["ts"], E), "NewAffinityValue.backend.addr": (["nat_dest.addr"], E),
        "NewAffinityValue.backend.port": (["nat_dest.port"], E), "Timestamp()": (["ts"], E),
        "Backend().Addr()": (["nat_dest.addr"], E), "Backend().Port()": (["nat_dest.port"], E)}),
    # bpf_sock_addr keeps the 16-bit port in network order in the first half of a 32-bit word
    "nat.SendRecvMsgKey": ("sendrec_key", {"Cookie()": (["cookie"], E), "IP()": (["ip"], E), "Port()": (["port"], P)}),
    "nat.SendRecvMsgValue": ("sendrec_val", {"IP()": (["ip"], E), "Port()": (["port"], P)}),
    "ipsets.IPSetEntry": ("ip_set_key", {
        "MakeBPFIPSetEntry.setID": (["set_id"], E), "MakeBPFIPSetEntry.cidr.addr": (["addr"], E), "MakeBPFIPSetEntry.port": (["port"], E),
        "MakeBPFIPSetEntry.proto": (["protocol"], E), "MakeBPFIPSetEntry.cidr.prefix": (["mask"], P),
        "SetID()": (["set_id"], E), "Addr()": (["addr"], E), "PrefixLen()": (["mask"], E), "Protocol()": (["protocol"], E),
        "Port()": (["port"], E)}),
    "routes.Key": ("cali_rt_key", {
        "NewKey.cidr.addr": (["addr"], E), "NewKey.cidr.prefix": (["prefixlen"], P), "PrefixLen()": (["prefixlen"], E), "Addr()": (["addr"], E)}),
    # a local workload route keeps a 32-bit ifindex at the start of next_hop (CALI_RT_IFINDEX): all of it for v4
    "routes.Value": ("cali_rt", {
        "NewValueWithNextHop.flags": (["flags"], E), "NewValueWithNextHop.nextHop": (["next_hop"], E),
        "NewValueWithIfIndex.flags": (["flags"], E), "NewValueWithIfIndex.ifIndex": (["next_hop"], P),
        "Flags()": (["flags"], E), "NextHop()": (["next_hop"], E), "IfaceIndex()": (["next_hop"], P)}),
    "events.PolicyVerdict": ("cali_tc_state", {
        "SrcAddr": (["ip_src"], E), "DstAddr": (["pre_nat_ip_dst"], E), "PostNATDstAddr": (["post_nat_ip_dst"], E),
        "NATTunSrcAddr": (["tun_ip"], E), "PolicyRC": (["pol_rc"], E), "SrcPort": (["sport"], E), "DstPort": (["pre_nat_dport"], E),
        "PostNATDstPort": (["post_nat_dport"], E), "IPProto": (["ip_proto"], E), "IPSize": (["ip_size"], E),
        "RuleIDs": (["rule_ids"], E), "RulesHit": (["rules_hit"], E)}),
    "polprog.stateOff": ("cali_tc_state", {
        "stateOffIPSrc": (["ip_src"], O), "stateOffIPDst": (["ip_dst"], O), "stateOffPreNATIPDst": (["pre_nat_ip_dst"], O),
        "stateOffPostNATIPDst": (["post_nat_ip_dst"], O), "stateOffPolResult": (["pol_rc"], O), "stateOffSrcPort": (["sport"], O),
        "stateOffDstPort": (["dport"], O), "stateOffICMPType": (["icmp_type"], O), "stateOffPreNATDstPort": (["pre_nat_dport"], O),
        "stateOffPostNATDstPort": (["post_nat_dport"], O), "stateOffIPProto": (["ip_proto"], O), "stateOffIPSize": (["ip_size"], O),
        "stateOffRulesHit": (["rules_hit"], O), "stateOffRuleIDs": (["rule_ids"], O), "stateOffFlags": (["flags"], O)}),
    "polprog.ipsKey": ("ip_set_key", {
        "ipsKeyPrefix": (["mask"], O), "ipsKeyID": (["set_id"], O), "ipsKeyAddr": (["addr"], O), "ipsKeyPort": (["port"], O),
        "ipsKeyProto": (["protocol"], O), "ipsKeyPad": (["pad"], O)}),
    "polprog.ipSetKeyStore": ("ip_set_key", {
        "prefixlen": (["mask"], E), "set_id": (["set_id"], E), "addr": (["addr"], E), "port": (["port"], E),
        "proto": (["protocol"], E), "pad": (["pad"], E)}),
}
MAPPING.update({
    "arp.Key": ("arp_key", {"NewKey.ip": (["ip"], E), "NewKey.ifIndex": (["ifindex"], E), "IP()": (["ip"], E), "IfIndex()": (["ifindex"], E)}),
    "arp.Value": ("arp_value", {"NewValue.macSrc": (["mac_src"], E), "NewValue.macDst": (["mac_dst"], E),
                                "SrcMAC()": (["mac_src"], E), "DstMAC()": (["mac_dst"], E)}),
    "failsafes.Key": ("failsafe_key", {
        "MakeKey.ipProto": (["ip_proto"], E), "MakeKey.port": (["port"], E),
        "MakeKey.outbound": (["flags"], P),          # one flag bit (CALI_FSAFE_OUT) of the __u8
        "MakeKey.ip": (["addr"], E), "MakeKey.mask": (["prefixlen"], P),   # LPM prefix length: small number
        "KeyFromSlice.port": (["port"], E), "KeyFromSlice.proto": (["ip_proto"], E), "KeyFromSlice.flags": (["flags"], P),
        "KeyFromSlice.addr": (["addr"], E), "KeyFromSlice.mask": (["prefixlen"], E)}),
    "cleanupv1.Value": ("cali_ccq_value", {
        "NewValue.key.proto": (["rev_key.protocol"], P), "NewValue.key.ipA": (["rev_key.addr_a"], E),
        "NewValue.key.portA": (["rev_key.port_a"], E), "NewValue.key.ipB": (["rev_key.addr_b"], E),
        "NewValue.key.portB": (["rev_key.port_b"], E), "NewValue.ts": (["last_seen"], E), "NewValue.rev_ts": (["rev_last_seen"], E),
        "OtherNATKey().Proto()": (["rev_key.protocol"], P), "OtherNATKey().AddrA()": (["rev_key.addr_a"], E),
        "OtherNATKey().PortA()": (["rev_key.port_a"], E), "OtherNATKey().AddrB()": (["rev_key.addr_b"], E),
        "OtherNATKey().PortB()": (["rev_key.port_b"], E), "Timestamp()": (["last_seen"], E), "RevTimestamp()": (["rev_last_seen"], E)}),
    "allowsources.Entry": ("allow_sources_key", {
        "NewKey.cidr.addr": (["addr"], E), "NewKey.ifindex": (["ifindex"], E), "NewKey.cidr.prefix": (["prefixlen"], P),
        "Addr()": (["addr"], E), "PrefixLen()": (["prefixlen"], E), "IfIndex()": (["ifindex"], E)}),
    "ifstate.Key": (None, {"NewKey.ifIndex": (["v"], E), "IfIndex()": (["v"], E)}),
    "ifstate.Value": ("ifstate_val", {
        "NewValue.flags": (["flags"], E),
        "NewValue.name": (["name"], P),        # 15 characters + the terminating NUL of char name[16]
        "NewValue.xdpPolIPv4": (["xdp_policy_v4"], E), "NewValue.ingressPolIPv4": (["ingress_policy_v4"], E),
        "NewValue.egressPolIPv4": (["egress_policy_v4"], E), "NewValue.xdpPolIPv6": (["xdp_policy_v6"], E),
        "NewValue.ingressPolIPv6": (["ingress_policy_v6"], E), "NewValue.egressPolIPv6": (["egress_policy_v6"], E),
        "NewValue.tcIngressFilter": (["tc_filter_ingress"], E), "NewValue.tcEgressFilter": (["tc_filter_egress"], E),
        "Flags()": (["flags"], E), "IfName()": (["name"], E), "XDPPolicyV4()": (["xdp_policy_v4"], E),
        "IngressPolicyV4()": (["ingress_policy_v4"], E), "EgressPolicyV4()": (["egress_policy_v4"], E),
        "XDPPolicyV6()": (["xdp_policy_v6"], E), "IngressPolicyV6()": (["ingress_policy_v6"], E),
        "EgressPolicyV6()": (["egress_policy_v6"], E), "TcIngressFilter()": (["tc_filter_ingress"], E),
        "TcEgressFilter()": (["tc_filter_egress"], E)}),
    "counters.Key": ("counters_key", {"NewKey.ifindex": (["ifindex"], E), "NewKey.hook": (["hook"], E), "IfIndex()": (["ifindex"], E)}),
    # counters.Read decodes the low 32 bits of each 64-bit per-CPU counter
    "counters.Value": (None, {"Read()[%d]" % i: (["v[%d]" % i], P) for i in range(64)}),
    "counters.PolicyKey": (None, {"PolicyMapMemIter.key": (["v"], E)}),
    "counters.PolicyValue": (None, {"PolicyMapMemIter.value": (["v"], E)}),
    "qos.Key": ("calico_qos_key", {"NewKey.ifIndex": (["ifindex"], E), "NewKey.ingress": (["ingress"], E), "NewKey.family": (["family"], E),
                                   "IfIndex()": (["ifindex"], E), "Ingress()": (["ingress"], E), "Family()": (["family"], E)}),
    "qos.Value": ("calico_qos_val", {
        "NewValue.packetRate": (["packet_rate"], E), "NewValue.packetBurst": (["packet_burst"], E),
        "NewValue.packetRateTokens": (["packet_rate_tokens"], E), "NewValue.packetRateLastUpdate": (["packet_rate_last_update"], E),
        "PacketRate()": (["packet_rate"], E), "PacketBurst()": (["packet_burst"], E), "PacketRateTokens()": (["packet_rate_tokens"], E),
        "PacketRateLastUpdate()": (["packet_rate_last_update"], E)}),
    "qos.ConnValue": ("calico_qos_conn_val", {
        "NewConnValue.maxConnections": (["max_connections"], E), "NewConnValue.currentCount": (["current_count"], E),
        "MaxConnections()": (["max_connections"], E), "CurrentCount()": (["current_count"], E)}),
})
MAPPING.update({
    "profiling.Key": ("prof_key", {"KeyFromBytes.Ifindex": (["ifindex"], E), "KeyFromBytes.Kind": (["kind"], E)}),
    "profiling.Value": ("prof_val", {"ValueFromBytes.Time": (["time"], E), "ValueFromBytes.Samples": (["samples"], E)}),
    "jump.Key": (None, {"Key.idx": (["v"], E)}),
    "jump.Value": (None, {"Value.fd": (["v"], E)}),
    # not a map: program input/output block; pairing by the WARNING comments in bpf_scanner.go / conntrack_cleanup.c
    "conntrack.CleanupContext": ("ct_iter_ctx", {
        "Encode.StartTime": (["now"], E), "WithStartTime": (["now"], E), "Encode.EndTime": (["end_time"], E),
        "Encode.NumKVsCleaned": (["num_cleaned"], E), "Decode.StartTime": (["now"], E), "Decode.EndTime": (["end_time"], E),
        "Decode.NumKVsCleaned": (["num_cleaned"], E)}),
    # events.Type is a 16-bit Go type holding the __u32 type; the length is only observable below the buffer size
    "events.Header": ("event_header", {"ParseEvent.Type": (["type"], P), "ParseEvent.Len": (["len"], P)}),
})
# generated programs: the builder's own annotation "state->X" names the C member; exceptions to Exact:
STATE_ACCESS_SPECIAL = {
    "state->rules_hit": (["rules_hit"], P),              # 8-bit load/store of the (<= 32) hit counter held in a __u32
    "state->icmp_type": (["icmp_type", "icmp_code"], E),  # 8-bit load of the type, 16-bit load of type+code
}

TOTALS = {   # Go total -> C struct / constant whose sizeof it must equal (both ip versions unless stated)
    "conntrack.KeySize": "calico_ct_key", "conntrack.MapParams.KeySize": "calico_ct_key",
    "conntrack.ValueSize": "calico_ct_value", "conntrack.MapParams.ValueSize": "calico_ct_value",
    "nat.FrontendMapParameters.KeySize": "calico_nat_key", "len(nat.FrontendKey)": "calico_nat_key",
    "nat.FrontendMapParameters.ValueSize": "calico_nat_value", "len(nat.FrontendValue)": "calico_nat_value",
    "nat.BackendMapParameters.KeySize": "calico_nat_secondary_key", "len(nat.BackendKey)": "calico_nat_secondary_key",
    "nat.BackendMapParameters.ValueSize": "calico_nat_dest", "len(nat.BackendValue)": "calico_nat_dest",
    "nat.MaglevMapParameters.KeySize": "cali_maglev_key", "len(nat.MaglevBackendKey)": "cali_maglev_key",
    "nat.MaglevMapParameters.ValueSize": "calico_nat_dest",
    "nat.AffinityMapParameters.KeySize": "calico_nat_affinity_key", "len(nat.AffinityKey)": "calico_nat_affinity_key",
    "nat.AffinityMapParameters.ValueSize": "calico_nat_affinity_val", "len(nat.AffinityValue)": "calico_nat_affinity_val",
    "len(nat.FrontEndAffinityKey)": "calico_nat",
    "nat.SendRecvMsgMapParameters.KeySize": "sendrec_key", "len(nat.SendRecvMsgKey)": "sendrec_key",
    "nat.SendRecvMsgMapParameters.ValueSize": "sendrec_val", "len(nat.SendRecvMsgValue)": "sendrec_val",
    "nat.CTNATsMapParameters.KeySize": "ct_nats_key", "nat.CTNATsMapParameters.ValueSize": "sendrec_val",
    "ipsets.IPSetEntrySize": "ip_set_key", "ipsets.MapParameters.KeySize": "ip_set_key", "ipsets.MapParameters.ValueSize": "__u32",
    "routes.KeySize": "cali_rt_key", "routes.MapParameters.KeySize": "cali_rt_key",
    "routes.ValueSize": "cali_rt", "routes.MapParameters.ValueSize": "cali_rt",
    "state.MapParameters.KeySize": "__u32", "state.MapParameters.ValueSize": "STATE_SIZE",
}
TOTALS.update({
    "arp.KeySize": "arp_key", "arp.ValueSize": "arp_value",
    "failsafes.KeySize": "failsafe_key", "failsafes.ValueSize": "failsafe_val", "len(failsafes.Value())": "failsafe_val",
    "len(failsafes.Key.ToSlice())": "failsafe_key",
    "cleanupv1.KeySize": "calico_ct_key", "cleanupv1.ValueSize": "cali_ccq_value",
    "allowsources.KeySize": "allow_sources_key",
    "ifstate.KeySize": "__u32", "len(ifstate.Key)": "__u32", "ifstate.ValueSize": "ifstate_val",
    "len(counters.Key)": "counters_key", "counters.MaxCounterNumber": "MAX_COUNTERS_SIZE",
    "len(qos.Key)": "calico_qos_key", "len(qos.Value)": "calico_qos_val", "len(qos.ConnValue)": "calico_qos_conn_val",
    # the Go mirror struct of struct cali_tc_state: compared against BOTH builds of the C struct
    "sizeof(state.State)": "cali_tc_state", "len(state.State.AsBytes())": "cali_tc_state",
})
TOTALS.update({"profiling.KeySize": "prof_key", "profiling.ValueSize": "prof_val", "len(jump.Key())": "__u32",
               "len(jump.Value())": "__u32", "sizeof(conntrack.CleanupContext)": "ct_iter_ctx"})
# the builder reserves one stack slot (of the IPv6 key size) per IP set key for both families: it must hold the key
TOTALS_GE = {(4, "polprog.ipSetKeyStackSlot"): "ip_set_key"}
TOTALS_V6_ONLY = {"polprog.ipSetKeyStackSlot": "ip_set_key"}


def referenced_state_fields(repo, names):
    """State tail fields referenced by name anywhere in felix/ outside the declaring file."""
    used = set()
    decl = os.path.join(repo, "felix", "bpf", "state", "map.go")
    pats = {n: re.compile(r"[.\s{,]%s\b" % re.escape(n)) for n in names}
    for root, dirs, files in os.walk(os.path.join(repo, "felix")):
        for f in files:
            if not f.endswith(".go"):
                continue
            p = os.path.join(root, f)
            if os.path.abspath(p) == os.path.abspath(decl):
                continue
            try:
                txt = open(p, errors="replace").read()
            except OSError:
                continue
            if "state." not in txt and "State" not in txt:
                continue
            for n, pat in pats.items():
                if n not in used and n in txt and pat.search(txt) and "bpf/state" in txt:
                    used.add(n)
    return used


def declared_state_off_vars(repo):
    src = open(os.path.join(repo, "felix", "bpf", "polprog", "pol_prog_builder.go")).read()
    return sorted(set(re.findall(r"^\s*(stateOff\w+)\s*=\s*asm\.FieldOffset", src, flags=re.M))), \
        sorted(set(re.findall(r"^\s*(ipsKey\w+)\s+int16\s*=", src, flags=re.M)))


def derive_pairing(gmaps, cmaps):
    """Go codec type -> {ver: C struct / wrapper name} read off the CALI_MAP declaration of the C map that has the
    same (versioned) name as the Go map.  Also returns the failed pairings."""
    derived, problems = {}, []
    for g in gmaps:
        ver, sym = g["ipver"], g["sym"]
        if sym not in cmaps.get(ver, {}):
            problems.append("Go map %s (ipver %d) has no CALI_MAP declaration of that name in the bpf-gpl headers" % (sym, ver))
            continue
        for which, gs in (("key", g["key_struct"]), ("value", g["value_struct"])):
            if not gs:
                continue
            t = cmaps[ver][sym][0 if which == "key" else 1]
            mm = re.match(r"struct (\w+)$", t)
            cs = mm.group(1) if mm else "map:%s:%s" % (sym, which)
            prev = derived.setdefault(gs, {}).get(ver)
            # scalar-typed keys/values of different maps live in different wrappers: any of them will do
            if prev is not None and prev != cs and not (prev.startswith("map:") and cs.startswith("map:")):
                problems.append("Go type %s is paired with both C %s and C %s (ipver %d)" % (gs, prev, cs, ver))
            derived[gs].setdefault(ver, cs)
    return derived, problems


def build_mapping(repo, grows, gmaps=(), cmaps=None):
    """returns (mrows, dropped, problems): mrows = [(ver, gstruct, gfield, cstruct, [paths], rel)];
    dropped = Go rows deliberately not obligations (with the reason); problems = translator-level failed obligations."""
    mrows, dropped, problems = [], [], []
    derived, dprob = derive_pairing(gmaps, cmaps or {})
    problems += dprob
    for gs, (hand, _tab) in MAPPING.items():
        for ver, cs in derived.get(gs, {}).items():
            if hand is not None and hand != cs:
                problems.append("pairing: the hand table says Go %s <-> C struct %s but the C declaration of its map uses %s (ipver %d)"
                                % (gs, hand, cs, ver))
    seen = set()
    tail_used = referenced_state_fields(repo, list(STATE_TAIL))
    for (ver, gs, gf, off, size, how) in grows:
        k = (ver, gs, gf)
        if k in seen:
            continue
        seen.add(k)
        ent = None
        if gs == "state.State":
            if gf.startswith("_@"):
                dropped.append((ver, gs, gf, "blank Go field: cannot be read or written by name"))
                continue
            if gf in STATE:
                ent = ("cali_tc_state", STATE[gf])
            elif gf in STATE_TAIL:
                if ver == 6 and gf not in tail_used:
                    dropped.append((ver, gs, gf, "IPv4-layout tail of the Go mirror struct, not referenced anywhere in felix/ (checked for ipver 4)"))
                    continue
                ent = ("cali_tc_state", STATE_TAIL[gf])
        elif gs == "polprog.stateAccess":
            if gf.startswith("state->"):
                ent = ("cali_tc_state", STATE_ACCESS_SPECIAL.get(gf, ([gf[len("state->"):]], E)))
        elif gs == "polprog.stateOffLabel":
            var, _, lbl = gf.partition("=")
            if lbl.startswith("state->"):
                ent = ("cali_tc_state", ([lbl[len("state->"):]], O))
        elif gs in MAPPING:
            cs, tab = MAPPING[gs]
            cs = derived.get(gs, {}).get(ver, cs)     # the C declaration decides; the hand table is cross-checked above
            if gf in tab and cs is not None:
                ent = (cs, tab[gf])
        if ent is None:
            continue            # no mapping line: the row fails inside Coq (find_m = None)
        cs, (paths, rel) = ent
        if isinstance(paths, tuple):
            paths = paths[0] if ver == 4 else paths[1]
        mrows.append((ver, gs, gf, cs, list(paths), rel))
    # every offset variable declared in the builder must have been printed by the shim
    svars, kvars = declared_state_off_vars(repo)
    have = {gf for (ver, gs, gf, *_r) in grows if gs in ("polprog.stateOff", "polprog.ipsKey")}
    for v in svars + kvars:
        if v not in have:
            problems.append("offset variable %s is declared in pol_prog_builder.go but not covered by the C13 shim/mapping" % v)
    return mrows, dropped, problems


def build_total_mapping(gtotals, gmaps=()):
    """returns (go totals incl. the per-map key/value sizes, tmrows [(ver, go name, c name, ge)], not compared)"""
    gt = list(gtotals)
    tm = []
    for g in gmaps:
        for which, k in (("key", "key_size"), ("value", "value_size")):
            n = "map %s %s size" % (g["sym"], which)
            gt.append((g["ipver"], n, g[k]))
            tm.append((g["ipver"], n, "map:%s:%s" % (g["sym"], which), False))
    for (ver, name, size) in gtotals:
        if (ver, name) in TOTALS_GE:
            tm.append((ver, name, TOTALS_GE[(ver, name)], True))
            continue
        c = TOTALS.get(name) or (TOTALS_V6_ONLY.get(name) if ver == 6 else None)
        if c:
            tm.append((ver, name, c, False))
    return gt, tm, []


# ------------------------------------------------------------------------------------------------ Coq output

def _s(x):
    return '"%s"' % x.replace('"', '""')


def gen_text(crows, grows, mrows, ctotals, gtotals, tmrows, header=""):
    """names are interned (see Layout.v): every row carries numbers, `names` gives their text"""
    ids = {}

    def n(x):
        if x not in ids:
            ids[x] = len(ids) + 1
        return ids[x]

    o = ["(* GENERATED on every run by /verif/harness/C13/translate.py - do not edit. %s *)" % header,
         "From Coq Require Import List NArith String.", "From Verif.C13 Require Import Layout.",
         "Import ListNotations.", "Open Scope N_scope.", ""]
    body = []
    body.append("Definition c_rows : list crow := [\n" + ";\n".join(
        "  CRow %d %d %d %d %d" % (v, n(s), n(p), off, sz) for (v, s, p, off, sz) in crows) + "\n].\n")
    body.append("Definition g_rows : list grow := [\n" + ";\n".join(
        "  GRow %d %d %d %d %d" % (v, n(s), n(f), off, sz) for (v, s, f, off, sz, *_h) in grows) + "\n].\n")
    body.append("Definition m_rows : list mrow := [\n" + ";\n".join(
        "  MRow %d %d %d %d [%s] %s" % (v, n(gs), n(gf), n(cs), "; ".join(str(n(p)) for p in ps), rel)
        for (v, gs, gf, cs, ps, rel) in mrows) + "\n].\n")
    body.append("Definition c_totals : list trow := [\n" + ";\n".join("  TRow %d %d %d" % (v, n(nm), sz) for (v, nm, sz) in ctotals) + "\n].\n")
    body.append("Definition g_totals : list trow := [\n" + ";\n".join("  TRow %d %d %d" % (v, n(nm), sz) for (v, nm, sz) in gtotals) + "\n].\n")
    body.append("Definition tm_rows : list tmrow := [\n" + ";\n".join(
        "  TMRow %d %d %d %s" % (v, n(g), n(c), "true" if ge else "false") for (v, g, c, ge) in tmrows) + "\n].\n")
    body.append("Definition tables : tables := Tables c_rows g_rows m_rows c_totals g_totals tm_rows.\n")
    # the name table is a comment-like artefact for the reader: kept as a Coq comment so that it costs nothing to check
    names = "(* names:\n" + "\n".join("  %d = %s" % (i, x.replace("*)", "* )").replace("(*", "( *")) for x, i in sorted(ids.items(), key=lambda kv: kv[1])) + "\n*)\n"
    return "\n".join(o + body) + "\n" + names


DIAG = """From Coq Require Import List NArith String Bool.
From Verif.C13 Require Import Layout.
From VerifGen Require Import %s.
Import ListNotations.
Definition bad_offsets := Eval vm_compute in bad (offset_okb tables) (T_g tables).
Definition bad_sizes := Eval vm_compute in bad (size_okb tables) (T_g tables).
Definition bad_totals := Eval vm_compute in bad (total_okb tables) (T_gtot tables).
Definition bad_mapping := Eval vm_compute in bad (mapping_usedb tables) (T_m tables).
Set Printing Width 1000000. Set Printing Depth 1000000.
Print bad_offsets. Print bad_sizes. Print bad_totals. Print bad_mapping.
"""


def parse_diag(out):
    res = {}
    for name in ("bad_offsets", "bad_sizes", "bad_totals", "bad_mapping"):
        m = re.search(r"%s\s*=\s*(.*?)\s*:\s*list N" % name, out, flags=re.S)
        if not m:
            raise TranslateError("diagnostics: no value for %s in\n%s" % (name, out[-2000:]))
        res[name] = [int(x) for x in re.findall(r"\d+", m.group(1).replace("%N", ""))]
    return res
