//go:build verif

package polprog

// Add-only export shim for property C13: exposes the hand-maintained offsets of the policy
// program builder so that the verif driver can print the Go view of struct cali_tc_state /
// struct ip_set_key.  Nothing here changes behaviour.

type VerifOff struct {
	Name   string
	Offset int16
	Field  string
}

func VerifStateOffsets() []VerifOff {
	return []VerifOff{
		{"stateOffIPSrc", stateOffIPSrc.Offset, stateOffIPSrc.Field},
		{"stateOffIPDst", stateOffIPDst.Offset, stateOffIPDst.Field},
		{"stateOffPreNATIPDst", stateOffPreNATIPDst.Offset, stateOffPreNATIPDst.Field},
		{"stateOffPostNATIPDst", stateOffPostNATIPDst.Offset, stateOffPostNATIPDst.Field},
		{"stateOffPolResult", stateOffPolResult.Offset, stateOffPolResult.Field},
		{"stateOffSrcPort", stateOffSrcPort.Offset, stateOffSrcPort.Field},
		{"stateOffDstPort", stateOffDstPort.Offset, stateOffDstPort.Field},
		{"stateOffICMPType", stateOffICMPType.Offset, stateOffICMPType.Field},
		{"stateOffPreNATDstPort", stateOffPreNATDstPort.Offset, stateOffPreNATDstPort.Field},
		{"stateOffPostNATDstPort", stateOffPostNATDstPort.Offset, stateOffPostNATDstPort.Field},
		{"stateOffIPProto", stateOffIPProto.Offset, stateOffIPProto.Field},
		{"stateOffIPSize", stateOffIPSize.Offset, stateOffIPSize.Field},
		{"stateOffRulesHit", stateOffRulesHit.Offset, stateOffRulesHit.Field},
		{"stateOffRuleIDs", stateOffRuleIDs.Offset, stateOffRuleIDs.Field},
		{"stateOffFlags", stateOffFlags.Offset, stateOffFlags.Field},
	}
}

func VerifStateEventHdrSize() int16 { return stateEventHdrSize }

func VerifIPSKeyOffsets() []VerifOff {
	return []VerifOff{
		{"ipsKeyPrefix", ipsKeyPrefix, ""},
		{"ipsKeyID", ipsKeyID, ""},
		{"ipsKeyAddr", ipsKeyAddr, ""},
		{"ipsKeyPort", ipsKeyPort, ""},
		{"ipsKeyProto", ipsKeyProto, ""},
		{"ipsKeyPad", ipsKeyPad, ""},
	}
}

// Stack offsets (relative to R10) at which the builder assembles the source / destination
// IP set lookup keys.
func VerifIPSetKeyStackOffsets() (src, dst int16) { return offSrcIPSetKey, offDstIPSetKey }
