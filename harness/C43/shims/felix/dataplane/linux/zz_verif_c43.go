//go:build verif

// C43 verification shim (add-only): gives the C43 driver access to the unexported route managers
// (vxlanManager / ipipManager / noEncapManager, each wrapping a routeManager) with a caller-supplied
// routetable.Interface.  Nothing here changes behaviour of the package.
package intdataplane

import (
	dpsets "github.com/projectcalico/calico/felix/dataplane/ipsets"
	"github.com/projectcalico/calico/felix/dataplane/linux/dataplanedefs"
	"github.com/projectcalico/calico/felix/routetable"
	"github.com/projectcalico/calico/felix/rules"
	"github.com/projectcalico/calico/felix/vxlanfdb"
	"github.com/projectcalico/calico/lib/logrusr"
)

type verifC43FDB struct{}

func (verifC43FDB) SetVTEPs(vteps []vxlanfdb.VTEP) {}

// VerifC43Managers is the triple of real managers that turn proto.RouteUpdate into kernel routes.
type VerifC43Managers struct {
	vx *vxlanManager
	ii *ipipManager
	ne *noEncapManager
	// IPv6 instances (nil unless built by VerifC43NewDualManagers)
	vx6 *vxlanManager
	ne6 *noEncapManager
}

// VerifC43NewDualManagers additionally builds the IPv6 VXLAN and no-encap managers, writing to rt6.
func VerifC43NewDualManagers(rt, rt6 routetable.Interface, hostname string, parentDevice string) *VerifC43Managers {
	m := VerifC43NewManagers(rt, hostname, parentDevice)
	cfg := m.vx.dpConfig
	op := logrusr.NewSummarizer("verif-c43-v6")
	m.vx6 = newVXLANManagerWithShims(dpsets.NewMockIPSets(), rt6, verifC43FDB{}, "vxlan-v6.calico", 6, 1430, cfg, op, nil)
	m.ne6 = newNoEncapManagerWithSims(rt6, 6, cfg, op, nil)
	if parentDevice != "" {
		m.vx6.routeMgr.OnParentDeviceUpdate(parentDevice)
		m.ne6.routeMgr.OnParentDeviceUpdate(parentDevice)
	}
	return m
}

func VerifC43NewManagers(rt routetable.Interface, hostname string, parentDevice string) *VerifC43Managers {
	cfg := Config{
		MaxIPSetSize:                1000,
		Hostname:                    hostname,
		ProgramIPIPClusterRoutes:    true,
		ProgramNoEncapClusterRoutes: true,
		DeviceRouteProtocol:         dataplanedefs.DefaultRouteProto,
		RulesConfig:                 rules.Config{VXLANVNI: 4096, VXLANPort: 4789},
	}
	op := logrusr.NewSummarizer("verif-c43")
	m := &VerifC43Managers{
		vx: newVXLANManagerWithShims(dpsets.NewMockIPSets(), rt, verifC43FDB{}, "vxlan.calico", 4, 1450, cfg, op, nil),
		ii: newIPIPManagerWithShims(rt, "tunl0", 4, 1480, cfg, op, nil),
		ne: newNoEncapManagerWithSims(rt, 4, cfg, op, nil),
	}
	if parentDevice != "" {
		m.vx.routeMgr.OnParentDeviceUpdate(parentDevice)
		m.ii.routeMgr.OnParentDeviceUpdate(parentDevice)
		m.ne.routeMgr.OnParentDeviceUpdate(parentDevice)
	}
	return m
}

// OnUpdate hands one dataplane message to all three managers (as the internal dataplane loop does).
func (m *VerifC43Managers) OnUpdate(msg any) {
	m.vx.OnUpdate(msg)
	m.ii.OnUpdate(msg)
	m.ne.OnUpdate(msg)
	if m.vx6 != nil {
		m.vx6.OnUpdate(msg)
		m.ne6.OnUpdate(msg)
	}
}

func (m *VerifC43Managers) CompleteDeferredWork() error {
	if err := m.vx.CompleteDeferredWork(); err != nil {
		return err
	}
	if err := m.ii.CompleteDeferredWork(); err != nil {
		return err
	}
	if err := m.ne.CompleteDeferredWork(); err != nil {
		return err
	}
	if m.vx6 != nil {
		if err := m.vx6.CompleteDeferredWork(); err != nil {
			return err
		}
		return m.ne6.CompleteDeferredWork()
	}
	return nil
}
