//go:build verif

// C43 correspondence driver.
//
// Stage 1: the REAL felix/calc.L3RouteResolver is driven with a generated history of IP pool, node,
// IPAM block and local workload updates (shuffled orders, reverts, deletions); the RouteUpdate /
// RouteRemove stream it emits through its callbacks is accumulated into the route set the dataplane holds.
// Stage 2: the same stream is handed to the REAL vxlanManager / ipipManager / noEncapManager (each a
// routeManager instantiation, reached through the verif shim) writing into a recording routetable; the
// routes they ask the kernel for are the second observable.
// One JSON line per case carries the history and both observables as a Coq term.
package main

import (
	"encoding/json"
	"flag"
	"fmt"
	gonet "net"
	"os"
	"sort"
	"strings"

	"github.com/sirupsen/logrus"

	"github.com/projectcalico/calico/felix/calc"
	intdataplane "github.com/projectcalico/calico/felix/dataplane/linux"
	"github.com/projectcalico/calico/felix/ifacemonitor"
	"github.com/projectcalico/calico/felix/ip"
	"github.com/projectcalico/calico/felix/proto"
	"github.com/projectcalico/calico/felix/routetable"
	"github.com/projectcalico/calico/libcalico-go/lib/apis/internalapi"
	"github.com/projectcalico/calico/libcalico-go/lib/backend/api"
	"github.com/projectcalico/calico/libcalico-go/lib/backend/encap"
	"github.com/projectcalico/calico/libcalico-go/lib/backend/model"
	cnet "github.com/projectcalico/calico/libcalico-go/lib/net"

	apiv3 "github.com/projectcalico/api/pkg/apis/projectcalico/v3"
)

// ---------------------------------------------------------------- random source

type rng struct{ s uint64 }

func (r *rng) next() uint64 {
	r.s += 0x9e3779b97f4a7c15
	z := r.s
	z = (z ^ (z >> 30)) * 0xbf58476d1ce4e5b9
	z = (z ^ (z >> 27)) * 0x94d049bb133111eb
	return z ^ (z >> 31)
}
func (r *rng) intn(n int) int { return int(r.next() % uint64(n)) }
func (r *rng) coin(num, den int) bool { return r.intn(den) < num }

type line struct {
	Coq    string         `json:"coq"`
	NT     bool           `json:"nt"`
	Key    string         `json:"key"`
	Sample map[string]any `json:"sample,omitempty"`
	Tags   []string       `json:"tags"`
}

// ---------------------------------------------------------------- values

type pfx struct {
	addr uint32
	len  int
}

func (p pfx) String() string {
	return fmt.Sprintf("%d.%d.%d.%d/%d", p.addr>>24, (p.addr>>16)&255, (p.addr>>8)&255, p.addr&255, p.len)
}
func (p pfx) coq() string { return fmt.Sprintf("(mkP %d %d%%nat)", p.addr, p.len) }
// IPv6 entities live in fd00:c43::/96; a 32-bit prefix (a, l) stands for fd00:c43::a/(96+l).
func (p pfx) ipnet6() cnet.IPNet {
	ipb := gonet.IP{0xfd, 0, 0x0c, 0x43, 0, 0, 0, 0, 0, 0, 0, 0, byte(p.addr >> 24), byte(p.addr >> 16), byte(p.addr >> 8), byte(p.addr)}
	return cnet.IPNet{IPNet: gonet.IPNet{IP: ipb, Mask: gonet.CIDRMask(96+p.len, 128)}}
}
func ip6Str(a uint32) string { return fmt.Sprintf("fd00:c43::%x:%x", a>>16, a&0xffff) }
func (p pfx) net(v6 bool) cnet.IPNet {
	if v6 {
		return p.ipnet6()
	}
	return p.ipnet()
}
func (p pfx) str(v6 bool) string {
	if v6 {
		return fmt.Sprintf("%s/%d", ip6Str(p.addr), 96+p.len)
	}
	return p.String()
}
func (p pfx) ipnet() cnet.IPNet {
	return cnet.IPNet{IPNet: gonet.IPNet{IP: gonet.IPv4(byte(p.addr>>24), byte(p.addr>>16), byte(p.addr>>8), byte(p.addr)).To4(),
		Mask: gonet.CIDRMask(p.len, 32)}}
}
func ipStr(a uint32) string { return fmt.Sprintf("%d.%d.%d.%d", a>>24, (a>>16)&255, (a>>8)&255, a&255) }
func mk(a, b, c, d uint32, l int) pfx { return pfx{a<<24 | b<<16 | c<<8 | d, l} }

const (
	mNever = 0
	mAlways = 1
	mCross  = 2
)

type poolV struct {
	ipip, vxlan int
	lb          bool
}
type nodeV struct {
	hasV4  bool
	addr   uint32
	subnet pfx
	hasV6  bool
	addr6  uint32 // last 32 bits under fd00:c43::/96
	sub6   pfx
}
type allocV struct {
	ord  int
	host int // -1: no node recorded
}
type blockV struct {
	aff    int // -1: no affinity
	allocs []allocV
}

const (
	kPool = iota
	kBlock
	kNode
	kWep
)

type op struct {
	kind  int
	c     pfx // pool / block key
	n     int // node / wep id
	pool  *poolV
	block *blockV
	node  *nodeV
	cidrs []pfx
	v6     bool  // pool / block of the IPv6 family
	cidrs6 []pfx // IPv6 addresses of the workload
}

func modeCoq(m int) string { return []string{"Never", "Always", "Cross"}[m] }
func modeGo(m int) encap.Mode {
	return []encap.Mode{encap.Never, encap.Always, encap.CrossSubnet}[m]
}
func optN(i int) string {
	if i < 0 {
		return "None"
	}
	return fmt.Sprintf("(Some %d)", i)
}

func nodevCoq(has bool, a uint32, sub pfx) string {
	if !has {
		return "None"
	}
	return fmt.Sprintf("(Some (%d, %s))", a, sub.coq())
}
func pfxList(cs []pfx) string {
	var xs []string
	for _, c := range cs {
		xs = append(xs, c.coq())
	}
	return "[" + strings.Join(xs, "; ") + "]"
}

func (o op) coq() string {
	switch o.kind {
	case kPool:
		if o.pool == nil {
			return fmt.Sprintf("P2 %v %s None", o.v6, o.c.coq())
		}
		return fmt.Sprintf("P2 %v %s (Some (mkPool %s %s %v))", o.v6, o.c.coq(), modeCoq(o.pool.ipip), modeCoq(o.pool.vxlan), o.pool.lb)
	case kBlock:
		if o.block == nil {
			return fmt.Sprintf("B2 %v %s None", o.v6, o.c.coq())
		}
		var as []string
		for _, a := range o.block.allocs {
			as = append(as, fmt.Sprintf("(%d, %s)", o.c.addr+uint32(a.ord), optN(a.host)))
		}
		return fmt.Sprintf("B2 %v %s (Some (mkBlock %s [%s]))", o.v6, o.c.coq(), optN(o.block.aff), strings.Join(as, "; "))
	case kNode:
		if o.node == nil {
			return fmt.Sprintf("N2 %d None", o.n)
		}
		return fmt.Sprintf("N2 %d (Some (%s, %s))", o.n, nodevCoq(o.node.hasV4, o.node.addr, o.node.subnet), nodevCoq(o.node.hasV6, o.node.addr6, o.node.sub6))
	default:
		return fmt.Sprintf("W2 %d %s %s", o.n, pfxList(o.cidrs), pfxList(o.cidrs6))
	}
}

func (o op) human() string {
	switch o.kind {
	case kPool:
		if o.pool == nil {
			return "pool " + o.c.str(o.v6) + " deleted"
		}
		return fmt.Sprintf("pool %s ipip=%s vxlan=%s lbOnly=%v", o.c.str(o.v6), modeCoq(o.pool.ipip), modeCoq(o.pool.vxlan), o.pool.lb)
	case kBlock:
		if o.block == nil {
			return "block " + o.c.str(o.v6) + " deleted"
		}
		s := fmt.Sprintf("block %s affinity=%d", o.c.str(o.v6), o.block.aff)
		for _, a := range o.block.allocs {
			s += fmt.Sprintf(" +%d->n%d", a.ord, a.host)
		}
		return s
	case kNode:
		if o.node == nil {
			return fmt.Sprintf("node n%d deleted", o.n)
		}
		t := fmt.Sprintf("node n%d", o.n)
		if o.node.hasV4 {
			t += fmt.Sprintf(" %s in %s", ipStr(o.node.addr), o.node.subnet)
		}
		if o.node.hasV6 {
			t += fmt.Sprintf(" %s in %s", ip6Str(o.node.addr6), o.node.sub6.str(true))
		}
		return t
	default:
		s := fmt.Sprintf("wep w%d", o.n)
		for _, c := range o.cidrs {
			s += " " + c.String()
		}
		for _, c := range o.cidrs6 {
			s += " " + c.str(true)
		}
		return s
	}
}

func nodeName(i int) string { return fmt.Sprintf("n%d", i) }
func nodeIdx(s string) int {
	var i int
	if _, err := fmt.Sscanf(s, "n%d", &i); err != nil {
		return -1
	}
	return i
}

// ---------------------------------------------------------------- the real resolver

type recorder struct {
	routes map[string]*proto.RouteUpdate
	mgrs   *intdataplane.VerifC43Managers
	nUpd   int
	nRem   int
}

func (r *recorder) OnRouteUpdate(u *proto.RouteUpdate) {
	r.routes[u.Dst] = u
	r.nUpd++
	r.mgrs.OnUpdate(u)
}
func (r *recorder) OnRouteRemove(dst string) {
	delete(r.routes, dst)
	r.nRem++
	r.mgrs.OnUpdate(&proto.RouteRemove{Dst: dst})
}

func apply(res *calc.L3RouteResolver, o op) {
	switch o.kind {
	case kPool:
		key := model.IPPoolKey{CIDR: model.PrefixFromIPNet(o.c.net(o.v6))}
		if o.pool == nil {
			res.OnPoolUpdate(api.Update{KVPair: model.KVPair{Key: key}, UpdateType: api.UpdateTypeKVDeleted})
			return
		}
		p := &model.IPPool{CIDR: o.c.net(o.v6), IPIPMode: modeGo(o.pool.ipip), VXLANMode: modeGo(o.pool.vxlan)}
		if o.pool.lb {
			p.AllowedUses = []apiv3.IPPoolAllowedUse{apiv3.IPPoolAllowedUseLoadBalancer}
		}
		res.OnPoolUpdate(api.Update{KVPair: model.KVPair{Key: key, Value: p}})
	case kBlock:
		key := model.BlockKey{CIDR: model.PrefixFromIPNet(o.c.net(o.v6))}
		if o.block == nil {
			res.OnBlockUpdate(api.Update{KVPair: model.KVPair{Key: key}, UpdateType: api.UpdateTypeKVDeleted})
			return
		}
		size := 1 << uint(32-o.c.len)
		b := &model.AllocationBlock{CIDR: o.c.net(o.v6), Allocations: make([]*int, size)}
		if o.block.aff >= 0 {
			a := "host:" + nodeName(o.block.aff)
			b.Affinity = &a
		}
		for _, a := range o.block.allocs {
			idx := len(b.Attributes)
			attrs := map[string]string{}
			if a.host >= 0 {
				attrs[model.IPAMBlockAttributeNode] = nodeName(a.host)
			}
			h := fmt.Sprintf("h%d", idx)
			b.Attributes = append(b.Attributes, model.AllocationAttribute{HandleID: &h, ActiveOwnerAttrs: attrs})
			b.Allocations[a.ord] = &idx
		}
		for i := range b.Allocations {
			if b.Allocations[i] == nil {
				b.Unallocated = append(b.Unallocated, i)
			}
		}
		res.OnBlockUpdate(api.Update{KVPair: model.KVPair{Key: key, Value: b}})
	case kNode:
		key := model.ResourceKey{Kind: internalapi.KindNode, Name: nodeName(o.n)}
		if o.node == nil {
			res.OnResourceUpdate(api.Update{KVPair: model.KVPair{Key: key}, UpdateType: api.UpdateTypeKVDeleted})
			return
		}
		n := internalapi.NewNode()
		n.Name = nodeName(o.n)
		bgp := &internalapi.NodeBGPSpec{}
		if o.node.hasV6 {
			bgp.IPv6Address = fmt.Sprintf("%s/%d", ip6Str(o.node.addr6), 96+o.node.sub6.len)
		}
		if o.node.hasV4 {
			bgp.IPv4Address = fmt.Sprintf("%s/%d", ipStr(o.node.addr), o.node.subnet.len)
		}
		n.Spec.BGP = bgp
		res.OnResourceUpdate(api.Update{KVPair: model.KVPair{Key: key, Value: n}})
	case kWep:
		key := model.WorkloadEndpointKey{Hostname: nodeName(0), OrchestratorID: "k8s", WorkloadID: fmt.Sprintf("w%d", o.n), EndpointID: "eth0"}
		if len(o.cidrs) == 0 && len(o.cidrs6) == 0 {
			res.OnWorkloadUpdate(api.Update{KVPair: model.KVPair{Key: key}, UpdateType: api.UpdateTypeKVDeleted})
			return
		}
		w := &model.WorkloadEndpoint{Name: fmt.Sprintf("cali%d", o.n)}
		for _, c := range o.cidrs {
			w.IPv4Nets = append(w.IPv4Nets, c.ipnet())
		}
		for _, c := range o.cidrs6 {
			w.IPv6Nets = append(w.IPv6Nets, c.ipnet6())
		}
		res.OnWorkloadUpdate(api.Update{KVPair: model.KVPair{Key: key, Value: w}})
	}
}

// ---------------------------------------------------------------- recording route table

type rtKey struct {
	class routetable.RouteClass
	iface string
}
type recRT struct{ cur map[rtKey][]routetable.Target }

func (t *recRT) OnIfaceStateChanged(string, int, ifacemonitor.State) {}
func (t *recRT) QueueResync()                                       {}
func (t *recRT) Apply() error                                       { return nil }
func (t *recRT) SetRoutes(c routetable.RouteClass, iface string, targets []routetable.Target) {
	t.cur[rtKey{c, iface}] = append([]routetable.Target(nil), targets...)
}
func (t *recRT) RouteRemove(c routetable.RouteClass, iface string, k routetable.RouteKey) {
	panic("verif C43: unexpected RouteRemove")
}
func (t *recRT) RouteUpdate(c routetable.RouteClass, iface string, tg routetable.Target) {
	panic("verif C43: unexpected RouteUpdate")
}
func (t *recRT) Index() int                                           { return 254 }
func (t *recRT) QueueResyncIface(string)                              {}
func (t *recRT) ReadRoutesFromKernel(string) ([]routetable.Target, error) { return nil, nil }

func vtepAddr(i int) uint32 { return 0xC0A8FF00 + uint32(i) }

type kroute struct {
	mgr, class, ttype int
	dst               pfx
	gw                int64 // -1 none
}

func classify(k rtKey) (mgr, class int) {
	// mgr: proto.IPPoolType of the manager; class: 0 tunnel device, 1 direct (parent device), 2 blackhole, 9 unexpected
	switch k.class {
	case routetable.RouteClassVXLANTunnel:
		return 2, ifc(k.iface == "vxlan.calico" || k.iface == "vxlan-v6.calico", 0)
	case routetable.RouteClassVXLANSameSubnet:
		return 2, ifc(k.iface == "eth0", 1)
	case routetable.RouteClassIPIPTunnel:
		return 3, ifc(k.iface == "tunl0", 0)
	case routetable.RouteClassIPIPSameSubnet:
		return 3, ifc(k.iface == "eth0", 1)
	case routetable.RouteClassNoEncap:
		if k.iface == "" {
			return 1, 0
		}
		return 1, ifc(k.iface == "eth0", 1)
	case routetable.RouteClassBlackholeVXLAN:
		return 2, ifc(k.iface == routetable.InterfaceNone, 2)
	case routetable.RouteClassBlackholeIPIP:
		return 3, ifc(k.iface == routetable.InterfaceNone, 2)
	case routetable.RouteClassBlackholeNoEncap:
		return 1, ifc(k.iface == routetable.InterfaceNone, 2)
	}
	return 0, 9
}
func ifc(ok bool, c int) int {
	if ok {
		return c
	}
	return 9
}
func ttypeOf(t routetable.TargetType) int {
	switch t {
	case "":
		return 0
	case routetable.TargetTypeNoEncap:
		return 1
	case routetable.TargetTypeVXLAN:
		return 2
	case routetable.TargetTypeOnLink:
		return 3
	case routetable.TargetTypeBlackhole:
		return 4
	}
	return 9
}

func parsePfx(s string) pfx {
	c := ip.MustParseCIDROrIP(s)
	if v6, ok := c.(ip.V6CIDR); ok {
		if v6.Prefix() < 96 {
			panic("verif C43: IPv6 CIDR outside the modelled /96: " + s)
		}
		return pfx{low32(v6.Addr()), int(v6.Prefix()) - 96}
	}
	v4 := c.(ip.V4CIDR)
	return pfx{v4.Addr().(ip.V4Addr).AsUint32(), int(v4.Prefix())}
}

func low32(a ip.Addr) uint32 {
	switch x := a.(type) {
	case ip.V4Addr:
		return x.AsUint32()
	case ip.V6Addr:
		b := x.AsNetIP().To16()
		for _, y := range b[:12] {
			_ = y
		}
		if b[0] != 0xfd || b[2] != 0x0c || b[3] != 0x43 {
			panic("verif C43: IPv6 address outside fd00:c43::/96: " + x.String())
		}
		return uint32(b[12])<<24 | uint32(b[13])<<16 | uint32(b[14])<<8 | uint32(b[15])
	}
	panic("verif C43: unknown address type")
}

// ---------------------------------------------------------------- generation

type universe struct {
	pools  []pfx
	blocks []pfx
	subs   []pfx
	nNodes int
	nWeps  int
}

func genPool(r *rng) *poolV {
	switch r.intn(12) {
	case 0:
		return nil
	case 1, 2:
		return &poolV{mNever, mNever, false}
	case 3, 4:
		return &poolV{mAlways, mNever, false}
	case 5, 6:
		return &poolV{mCross, mNever, false}
	case 7, 8:
		return &poolV{mNever, mAlways, false}
	case 9, 10:
		return &poolV{mNever, mCross, false}
	default:
		return &poolV{mNever, []int{mNever, mCross}[r.intn(2)], true}
	}
}

func genNode(r *rng, u *universe, i int) *nodeV {
	if r.coin(1, 10) {
		return nil
	}
	var n nodeV
	switch r.intn(8) {
	case 0: // IPv6 only
	default:
		if p := genNodePart(r, u, i); p != nil {
			n.hasV4, n.addr, n.subnet = true, p.addr, p.subnet
		}
	}
	if r.coin(2, 3) {
		if p := genNodePart(r, u, i); p != nil {
			n.hasV6, n.addr6, n.sub6 = true, p.addr, p.subnet
		}
	}
	if !n.hasV4 && !n.hasV6 {
		n.hasV6, n.addr6, n.sub6 = true, u.subs[0].addr|uint32(10+i), u.subs[0]
	}
	return &n
}

// one family's (address, subnet)
func genNodePart(r *rng, u *universe, i int) *nodeV {
	s := u.subs[r.intn(len(u.subs))]
	host := uint32(10 + i)
	if r.coin(1, 8) {
		host = 10 // address shared with another node
	}
	if r.coin(1, 6) {
		host += 128
	}
	addr := (s.addr &^ 0xff) | host // inside the /24 the subnets are carved from, not necessarily inside s
	if r.coin(3, 4) {
		addr = s.addr | (host & (1<<uint(32-s.len) - 1))
	}
	// the subnet Felix derives is the network of "addr/len" (Node.Spec.BGP.IPv4Address)
	return &nodeV{hasV4: true, addr: addr, subnet: pfx{addr &^ (1<<uint(32-s.len) - 1), s.len}}
}

func genBlock(r *rng, u *universe, c pfx) *blockV {
	if r.coin(1, 8) {
		return nil
	}
	b := &blockV{aff: r.intn(u.nNodes+1) - 1}
	if r.coin(1, 2) {
		b.aff = r.intn(2) // bias to local / first remote
	}
	size := 1 << uint(32-c.len)
	k := r.intn(4)
	used := map[int]bool{}
	for j := 0; j < k; j++ {
		ord := r.intn(size)
		if size > 8 && r.coin(1, 2) {
			ord = r.intn(6)
		}
		if used[ord] {
			continue
		}
		used[ord] = true
		b.allocs = append(b.allocs, allocV{ord, r.intn(u.nNodes+1) - 1})
	}
	sort.Slice(b.allocs, func(i, j int) bool { return b.allocs[i].ord < b.allocs[j].ord })
	return b
}

func genWep(r *rng, u *universe) []pfx {
	if r.coin(1, 5) {
		return nil
	}
	k := 1 + r.intn(2)
	var cs []pfx
	for j := 0; j < k; j++ {
		b := u.blocks[r.intn(len(u.blocks))]
		switch r.intn(10) {
		case 0:
			cs = append(cs, b) // a workload whose "address" is the whole block CIDR
		case 1:
			cs = append(cs, mk(10, 77, 0, uint32(r.intn(4)), 32)) // outside every pool
		default:
			size := 1 << uint(32-b.len)
			ord := r.intn(size)
			if size > 8 {
				ord = r.intn(6)
			}
			cs = append(cs, pfx{b.addr + uint32(ord), 32})
		}
	}
	return cs
}

func genOp(r *rng, u *universe) op {
	switch k := r.intn(10); {
	case k < 3:
		c := u.pools[r.intn(len(u.pools))]
		return mkPoolOp(r, c, r.coin(1, 3))
	case k < 6:
		c := u.blocks[r.intn(len(u.blocks))]
		return op{kind: kBlock, c: c, block: genBlock(r, u, c), v6: r.coin(1, 3)}
	case k < 9:
		n := r.intn(u.nNodes)
		if r.coin(1, 3) {
			n = 0
		}
		return op{kind: kNode, n: n, node: genNode(r, u, n)}
	default:
		return mkWepOp(r, u, r.intn(u.nWeps))
	}
}

// IPv6 pools have no IPIP mode
func mkPoolOp(r *rng, c pfx, v6 bool) op {
	p := genPool(r)
	if v6 && p != nil && p.ipip != mNever {
		p = &poolV{mNever, p.ipip, p.lb}
	}
	return op{kind: kPool, c: c, pool: p, v6: v6}
}
func mkWepOp(r *rng, u *universe, id int) op {
	o := op{kind: kWep, n: id, cidrs: genWep(r, u)}
	if r.coin(1, 2) {
		o.cidrs6 = genWep(r, u)
	}
	return o
}

func genUniverse(r *rng) (*universe, string) {
	u := &universe{nNodes: 3 + r.intn(2), nWeps: 2}
	u.pools = []pfx{mk(10, 1, 0, 0, 16), mk(10, 2, 0, 0, 16), mk(10, 3, 0, 0, 24)}
	u.blocks = []pfx{mk(10, 1, 0, 0, 26), mk(10, 1, 0, 64, 26), mk(10, 2, 0, 0, 28), mk(10, 3, 0, 0, 30), mk(10, 9, 0, 0, 26), mk(10, 2, 5, 7, 32)}
	tag := "universe:flat"
	switch r.intn(4) {
	case 0:
		u.subs = []pfx{mk(172, 16, 1, 0, 24), mk(172, 16, 2, 0, 24)}
	case 1:
		u.subs = []pfx{mk(172, 16, 1, 0, 25), mk(172, 16, 1, 128, 25), mk(172, 16, 1, 0, 24)}
		tag = "universe:split-subnet"
	case 2:
		u.subs = []pfx{mk(172, 16, 1, 0, 24)}
		tag = "universe:one-subnet"
	default:
		u.subs = []pfx{mk(172, 16, 1, 0, 24), mk(172, 16, 2, 0, 24), mk(172, 16, 0, 0, 16)}
		tag = "universe:nested-subnet"
	}
	if r.coin(1, 6) {
		// overlapping pool / nested block keys: outside what the datastore admits; the model must still agree
		u.pools = append(u.pools, mk(10, 1, 0, 0, 24))
		u.blocks = append(u.blocks, mk(10, 1, 0, 0, 28))
		tag += "+overlap"
	}
	return u, tag
}

func opKey(o op) string {
	switch o.kind {
	case kPool:
		return "p" + o.c.String()
	case kBlock:
		return "b" + o.c.String()
	case kNode:
		return fmt.Sprintf("n%d", o.n)
	}
	return fmt.Sprintf("w%d", o.n)
}

// genHistory: a random prefix (reverts, deletes, repeats) followed by one op per touched-or-chosen key in a
// shuffled order.  Every key of the universe appears at least in the tail with probability 3/4.
func genHistory(r *rng, u *universe) []op {
	var ops []op
	n := r.intn(14)
	for i := 0; i < n; i++ {
		ops = append(ops, genOp(r, u))
	}
	var tail []op
	for _, c := range u.pools {
		if r.coin(3, 4) {
			tail = append(tail, mkPoolOp(r, c, false))
		}
		if r.coin(1, 3) {
			tail = append(tail, mkPoolOp(r, c, true))
		}
	}
	for _, c := range u.blocks {
		if r.coin(3, 4) {
			tail = append(tail, op{kind: kBlock, c: c, block: genBlock(r, u, c)})
		}
		if r.coin(1, 3) {
			tail = append(tail, op{kind: kBlock, c: c, block: genBlock(r, u, c), v6: true})
		}
	}
	for i := 0; i < u.nNodes; i++ {
		if r.coin(7, 8) {
			tail = append(tail, op{kind: kNode, n: i, node: genNode(r, u, i)})
		}
	}
	for i := 0; i < u.nWeps; i++ {
		if r.coin(1, 2) {
			tail = append(tail, mkWepOp(r, u, i))
		}
	}
	for i := len(tail) - 1; i > 0; i-- {
		j := r.intn(i + 1)
		tail[i], tail[j] = tail[j], tail[i]
	}
	return append(ops, tail...)
}

// scripted shapes exercising the re-flagging paths (local subnet appears / changes / disappears after the
// routes exist, peer address moves between subnets, pool mode flips, affinity moves, borrowed addresses).
func scripted(i int) ([]op, string) {
	p := mk(10, 1, 0, 0, 16)
	b := mk(10, 1, 0, 0, 26)
	s1 := mk(172, 16, 1, 0, 24)
	s2 := mk(172, 16, 2, 0, 24)
	me := func(s pfx) op { return op{kind: kNode, n: 0, node: &nodeV{hasV4: true, addr: s.addr | 10, subnet: s}} }
	peer := func(s pfx) op { return op{kind: kNode, n: 1, node: &nodeV{hasV4: true, addr: s.addr | 11, subnet: s}} }
	v6only := func(n int) op { return op{kind: kNode, n: n, node: &nodeV{hasV6: true, addr6: s2.addr | uint32(10+n), sub6: s2}} }
	dual := func(n int, s4, s6 pfx) op {
		return op{kind: kNode, n: n, node: &nodeV{hasV4: true, addr: s4.addr | uint32(10+n), subnet: s4, hasV6: true, addr6: s6.addr | uint32(10+n), sub6: s6}}
	}
	pool6 := func(vx int) op { return op{kind: kPool, c: p, pool: &poolV{mNever, vx, false}, v6: true} }
	blk6 := func(aff int, al ...allocV) op { return op{kind: kBlock, c: b, block: &blockV{aff, al}, v6: true} }
	pool := func(ipip, vx int) op { return op{kind: kPool, c: p, pool: &poolV{ipip, vx, false}} }
	blk := func(aff int, al ...allocV) op { return op{kind: kBlock, c: b, block: &blockV{aff, al}} }
	switch i % 14 {
	case 10:
		return []op{pool6(mCross), blk6(1, allocV{3, 2}), dual(1, s1, s1), dual(2, s1, s2), dual(0, s1, s1)}, "script:dual-local-node-last"
	case 11:
		return []op{dual(0, s1, s1), dual(1, s1, s1), pool6(mCross), pool(mNever, mCross), blk6(1), blk(1), dual(0, s2, s2)}, "script:dual-local-renumbered"
	case 12:
		return []op{dual(0, s1, s1), dual(1, s2, s1), pool6(mCross), blk6(1), {kind: kNode, n: 0}, dual(0, s2, s1)}, "script:dual-local-deleted-and-back"
	case 13:
		return []op{dual(0, s1, s2), dual(1, s1, s1), pool6(mCross), blk6(1), {kind: kWep, n: 0, cidrs6: []pfx{{b.addr + 5, 32}}}, dual(0, s1, s1), dual(1, s1, s2)}, "script:dual-v6-subnet-only"
	case 0:
		return []op{pool(mNever, mCross), blk(1), peer(s1), me(s1)}, "script:local-node-last"
	case 1:
		return []op{me(s1), peer(s1), blk(1), pool(mNever, mCross), me(s2)}, "script:local-subnet-moves"
	case 2:
		return []op{me(s1), peer(s1), blk(1), pool(mCross, mNever), peer(s2)}, "script:peer-moves"
	case 3:
		return []op{me(s1), peer(s1), blk(1), pool(mNever, mCross), {kind: kNode, n: 0}}, "script:local-node-deleted"
	case 4:
		return []op{v6only(0), peer(s1), blk(1), pool(mNever, mCross), me(s1)}, "script:local-v6only-then-v4"
	case 5:
		return []op{me(s1), peer(s1), blk(1), pool(mNever, mCross), v6only(0)}, "script:local-v4-then-v6only"
	case 6:
		return []op{me(s1), peer(s1), pool(mNever, mAlways), blk(0, allocV{3, 1}), blk(1, allocV{3, 0})}, "script:affinity-moves-with-borrowed"
	case 7:
		return []op{me(s1), peer(s1), pool(mAlways, mNever), {kind: kWep, n: 0, cidrs: []pfx{{b.addr + 3, 32}}}, blk(1, allocV{3, 0})}, "script:local-wep-before-remote-block"
	case 8:
		return []op{me(s1), peer(s1), pool(mAlways, mNever), blk(1, allocV{3, 0}), {kind: kWep, n: 0, cidrs: []pfx{{b.addr + 3, 32}}}}, "script:remote-block-before-local-wep"
	default:
		return []op{me(s1), peer(s2), blk(1), pool(mNever, mNever), pool(mNever, mCross), pool(mAlways, mNever), {kind: kPool, c: p}}, "script:pool-mode-flips"
	}
}

// ---------------------------------------------------------------- one case

// probeFixed reports whether the tree's re-flagging walk treats an absent local IPv4 subnet as "contains
// nothing" (fixes/C43-*.patch applied) or as 0.0.0.0/0 (pinned code): the model has both variants.
func probeFixed() bool {
	ops, _ := scripted(4)
	rt := &recRT{cur: map[rtKey][]routetable.Target{}}
	rec := &recorder{routes: map[string]*proto.RouteUpdate{}, mgrs: intdataplane.VerifC43NewManagers(rt, nodeName(0), "eth0")}
	res := calc.NewL3RouteResolver(nodeName(0), rec, "CalicoIPAM")
	res.OnAlive = func() {}
	for _, o := range ops {
		apply(res, o)
	}
	u := rec.routes["10.1.0.0/26"]
	return u != nil && u.SameSubnet
}

// probeBlockReflag reports whether a block route that appears after a contained local workload address
// re-flags that address (aac8598).
func probeBlockReflag() bool {
	ops := []op{{kind: kWep, n: 0, cidrs: []pfx{mk(10, 1, 0, 3, 32)}}, {kind: kBlock, c: mk(10, 1, 0, 0, 26), block: &blockV{aff: 1}}}
	rt := &recRT{cur: map[rtKey][]routetable.Target{}}
	rec := &recorder{routes: map[string]*proto.RouteUpdate{}, mgrs: intdataplane.VerifC43NewManagers(rt, nodeName(0), "eth0")}
	res := calc.NewL3RouteResolver(nodeName(0), rec, "CalicoIPAM")
	res.OnAlive = func() {}
	for _, o := range ops {
		apply(res, o)
	}
	u := rec.routes["10.1.0.3/32"]
	return u != nil && u.Borrowed
}

var treeFixed bool

func runCase(r *rng, ops []op, nNodes int, tags []string) line {
	// the shape of the known finding: the local node is known before and after an update and its IPv4
	// subnet appears or disappears
	{
		var cur *nodeV
		flip := false
		for _, o := range ops {
			if o.kind == kNode && o.n == 0 {
				if cur != nil && o.node != nil && cur.hasV4 != o.node.hasV4 {
					flip = true
				}
				cur = o.node
			}
		}
		if flip {
			tags = append(tags, "local-v4-presence-flip")
		}
	}
	rt := &recRT{cur: map[rtKey][]routetable.Target{}}
	rt6 := &recRT{cur: map[rtKey][]routetable.Target{}}
	mgrs := intdataplane.VerifC43NewDualManagers(rt, rt6, nodeName(0), "eth0")
	rec := &recorder{routes: map[string]*proto.RouteUpdate{}, mgrs: mgrs}
	res := calc.NewL3RouteResolver(nodeName(0), rec, "CalicoIPAM")
	res.OnAlive = func() {}

	// final node table (decides which host metadata / VTEPs the managers know)
	final := map[int]*nodeV{}
	for _, o := range ops {
		if o.kind == kNode {
			final[o.n] = o.node
		}
	}
	sendMeta := func() {
		for i := 0; i < nNodes; i++ {
			nv := final[i]
			if nv == nil {
				continue
			}
			hm := &proto.HostMetadataUpdate{Hostname: nodeName(i)}
			vt := &proto.VXLANTunnelEndpointUpdate{Node: nodeName(i)}
			if nv.hasV4 {
				hm.Ipv4Addr = ipStr(nv.addr)
				vt.Mac, vt.Ipv4Addr, vt.ParentDeviceIp = fmt.Sprintf("66:00:00:00:00:%02x", i), ipStr(vtepAddr(i)), ipStr(nv.addr)
			}
			if nv.hasV6 {
				hm.Ipv6Addr = ip6Str(nv.addr6)
				vt.MacV6, vt.Ipv6Addr, vt.ParentDeviceIpv6 = fmt.Sprintf("66:00:00:00:06:%02x", i), ip6Str(vtepAddr(i)), ip6Str(nv.addr6)
			}
			mgrs.OnUpdate(hm)
			mgrs.OnUpdate(vt)
		}
	}
	metaFirst := r.coin(1, 2)
	if metaFirst {
		sendMeta()
	}
	dualFlip := false // one update of the local node changes the subnet of both families
	var cur0 *nodeV
	for _, o := range ops {
		if o.kind == kNode && o.n == 0 {
			sub := func(n *nodeV, six bool) pfx {
				if n == nil || (six && !n.hasV6) || (!six && !n.hasV4) {
					return pfx{}
				}
				if six {
					return n.sub6
				}
				return n.subnet
			}
			if sub(cur0, false) != sub(o.node, false) && sub(cur0, true) != sub(o.node, true) {
				dualFlip = true
			}
			cur0 = o.node
		}
		apply(res, o)
		if r.coin(1, 4) {
			if err := mgrs.CompleteDeferredWork(); err != nil {
				panic(err)
			}
		}
	}
	if dualFlip {
		tags = append(tags, "local-both-subnets-change-at-once")
	}
	if !metaFirst {
		sendMeta()
	}
	if err := mgrs.CompleteDeferredWork(); err != nil {
		panic(err)
	}

	rs4, hr4, int4 := routesObs(rec.routes, false)
	rs6, hr6, int6 := routesObs(rec.routes, true)
	kc4, hk4 := kernelObs(rt, false)
	kc6, hk6 := kernelObs(rt6, true)
	if int6 {
		tags = append(tags, "v6-remote-routes")
	}

	var oc, ho, keys []string
	for _, o := range ops {
		oc = append(oc, o.coq())
		ho = append(ho, o.human())
		keys = append(keys, o.coq())
	}
	coq := fmt.Sprintf("{| c_fixed := "+fmt.Sprint(treeFixed)+"; c_ops := [%s]; c_routes := [%s]; c_kernel := [%s]; c_routes6 := [%s]; c_kernel6 := [%s] |}",
		strings.Join(oc, "; "), strings.Join(rs4, "; "), strings.Join(kc4, "; "), strings.Join(rs6, "; "), strings.Join(kc6, "; "))
	return line{Coq: coq, NT: (int4 || int6) && len(ops) >= 4, Key: strings.Join(keys, ";"),
		Sample: map[string]any{"history": ho, "routes": hr4, "kernel": hk4, "routes6": hr6, "kernel6": hk6, "updates": rec.nUpd, "removes": rec.nRem}, Tags: tags}
}

// observable 1: accumulated route set of one family
func routesObs(routes map[string]*proto.RouteUpdate, v6 bool) (rs, hr []string, interesting bool) {
	var dsts []pfx
	byDst := map[pfx]*proto.RouteUpdate{}
	for d, u := range routes {
		if strings.Contains(d, ":") != v6 {
			continue
		}
		p := parsePfx(d)
		dsts = append(dsts, p)
		byDst[p] = u
	}
	sort.Slice(dsts, func(i, j int) bool {
		if dsts[i].addr != dsts[j].addr {
			return dsts[i].addr < dsts[j].addr
		}
		return dsts[i].len < dsts[j].len
	})
	for _, d := range dsts {
		u := byDst[d]
		nd, ipS := "None", "None"
		if u.DstNodeName != "" {
			nd = optN(nodeIdx(u.DstNodeName))
		}
		if u.DstNodeIp != "" {
			ipS = fmt.Sprintf("(Some %d)", low32(ip.FromString(u.DstNodeIp)))
		}
		rs = append(rs, fmt.Sprintf("(%s, mkRoute %d %d %s %s %v %v %v)", d.coq(), int(u.Types), int(u.IpPoolType), nd, ipS,
			u.SameSubnet, u.Borrowed, u.LocalWorkload))
		hr = append(hr, fmt.Sprintf("%s types=%d pool=%s node=%s ip=%s same=%v borrowed=%v localwl=%v", d.str(v6), int(u.Types), u.IpPoolType,
			u.DstNodeName, u.DstNodeIp, u.SameSubnet, u.Borrowed, u.LocalWorkload))
		if u.Types&proto.RouteType_REMOTE_WORKLOAD != 0 && u.IpPoolType != proto.IPPoolType_NONE && u.DstNodeName != nodeName(0) {
			interesting = true
		}
	}
	return
}

// observable 2: kernel routes asked of one family's route table
func kernelObs(rt *recRT, v6 bool) (kc, hk []string) {
	var ks []kroute
	for k, ts := range rt.cur {
		mgr, class := classify(k)
		for _, t := range ts {
			kr := kroute{mgr: mgr, class: class, ttype: ttypeOf(t.Type), dst: parsePfx(t.CIDR.String()), gw: -1}
			if t.GW != nil {
				kr.gw = int64(low32(t.GW))
			}
			ks = append(ks, kr)
		}
	}
	sort.Slice(ks, func(i, j int) bool {
		a, b := ks[i], ks[j]
		if a.mgr != b.mgr {
			return a.mgr < b.mgr
		}
		if a.class != b.class {
			return a.class < b.class
		}
		if a.dst.addr != b.dst.addr {
			return a.dst.addr < b.dst.addr
		}
		return a.dst.len < b.dst.len
	})
	for _, k := range ks {
		gw := "None"
		if k.gw >= 0 {
			gw = fmt.Sprintf("(Some %d)", k.gw)
		}
		kc = append(kc, fmt.Sprintf("mkK %d %d %d %s %s", k.mgr, k.class, k.ttype, k.dst.coq(), gw))
		g := "-"
		if k.gw >= 0 {
			g = ipStr(uint32(k.gw))
			if v6 {
				g = ip6Str(uint32(k.gw))
			}
		}
		hk = append(hk, fmt.Sprintf("mgr=%s %s %s via %s", []string{"?", "noencap", "vxlan", "ipip"}[k.mgr],
			map[int]string{0: "tunnel-dev", 1: "direct", 2: "blackhole", 9: "UNEXPECTED"}[k.class], k.dst.str(v6), g))
	}
	return
}

func main() {
	n := flag.Int("n", 100, "cases")
	seed := flag.Uint64("seed", 1, "seed")
	flag.Parse()
	logrus.SetLevel(logrus.PanicLevel)
	r := &rng{s: *seed}
	treeFixed = probeFixed()
	if probeBlockReflag() != treeFixed {
		fmt.Fprintln(os.Stderr, "verif C43: tree has exactly one of the two resolver fixes (b294575 / aac8598); the model knows the pinned tree and the current tree")
		os.Exit(3)
	}
	enc := json.NewEncoder(os.Stdout)
	for i := 0; i < *n; i++ {
		if i%5 == 0 {
			// scripted shape, optionally followed by a random tail over the default universe
			ops, tag := scripted(i / 5)
			tags := []string{"stream:scripted", tag}
			if (i/5)/14%2 == 1 {
				u, _ := genUniverse(r)
				k := 1 + r.intn(5)
				for j := 0; j < k; j++ {
					ops = append(ops, genOp(r, u))
				}
				tags = append(tags, "random-tail")
			}
			_ = enc.Encode(runCase(r, ops, 5, tags))
			continue
		}
		u, tag := genUniverse(r)
		ops := genHistory(r, u)
		_ = enc.Encode(runCase(r, ops, u.nNodes, []string{"stream:random", tag}))
	}
}
