//go:build verif

package ipam

import (
	"context"

	bapi "github.com/projectcalico/calico/libcalico-go/lib/backend/api"
	"github.com/projectcalico/calico/libcalico-go/lib/backend/model"
	cnet "github.com/projectcalico/calico/libcalico-go/lib/net"
)

// VerifC21Block gives the /verif C21 driver access to the unexported allocationBlock methods.
// Every method is a plain forwarder: no logic lives here.
type VerifC21Block struct{ b allocationBlock }

func VerifC21NewBlock(cidr cnet.IPNet) *VerifC21Block { return &VerifC21Block{newBlock(cidr, nil)} }

// VerifC21FromBackend is blockFromBackend (wrap + garbage collect with the configured cooldown).
func VerifC21FromBackend(cooldown int, b *model.AllocationBlock) *VerifC21Block {
	return &VerifC21Block{blockFromBackend(&IPAMConfig{IPCooldownSeconds: cooldown}, b)}
}

// VerifC21Wrap wraps a backend block without garbage collecting it.
func VerifC21Wrap(b *model.AllocationBlock) *VerifC21Block { return &VerifC21Block{allocationBlock{b}} }

func (v *VerifC21Block) Raw() *model.AllocationBlock { return v.b.AllocationBlock }

func (v *VerifC21Block) AutoAssign(num int, handle *string, attrs map[string]string, reserved []cnet.IPNet) ([]cnet.IPNet, error) {
	var f addrFilter = nilAddrFilter{}
	if len(reserved) > 0 {
		f = cidrSliceFilter(reserved)
	}
	return v.b.autoAssign(num, handle, AffinityConfig{}, attrs, false, f)
}

func (v *VerifC21Block) Assign(ip cnet.IP, handle *string, attrs map[string]string) error {
	return v.b.assign(false, ip, handle, attrs, AffinityConfig{})
}

func (v *VerifC21Block) Release(cooldown int, opts []ReleaseOptions) ([]cnet.IP, map[string]int, error) {
	return v.b.release(&IPAMConfig{IPCooldownSeconds: cooldown}, opts)
}

func (v *VerifC21Block) ReleaseByHandle(cooldown int, opts ReleaseOptions) int {
	return v.b.releaseByHandle(&IPAMConfig{IPCooldownSeconds: cooldown}, opts)
}

func (v *VerifC21Block) GarbageCollect(cooldown int) bool { return v.b.garbageCollect(cooldown) }

// VerifC21UpdateBlock is blockReaderWriter.updateBlock (SequenceNumber++ then compare-and-swap write).
func VerifC21UpdateBlock(ctx context.Context, c bapi.Client, kvp *model.KVPair) (*model.KVPair, error) {
	return blockReaderWriter{client: c}.updateBlock(ctx, kvp)
}

// VerifC21QueryBlock is blockReaderWriter.queryBlock.
func VerifC21QueryBlock(ctx context.Context, c bapi.Client, cidr cnet.IPNet) (*model.KVPair, error) {
	return blockReaderWriter{client: c}.queryBlock(ctx, cidr, "")
}
