//go:build verif

// C21 correspondence driver.
//
// Stream 1 (even cases, "block"): the REAL allocationBlock methods (newBlock, autoAssign, assign, release,
// releaseByHandle, garbageCollect, blockFromBackend's view is GC) and blockReaderWriter.updateBlock/queryBlock on the
// in-memory CAS backend, driven by a seeded generator.
// Stream 2 (odd cases, "client"): the REAL ipamClient (AutoAssign, AssignIP, ReleaseIPs with ReleaseOptions{Address,
// Handle, SequenceNumber}, ReleaseByHandle, GarbageCollectColdIPs) against the C19 in-memory backend, sequentially.
//
// Time: the code reads time.Now()/metav1.Now() directly, so every case runs inside a testing/synctest bubble (virtual
// clock, starts at 2000-01-01T00:00:00Z, advances only when the driver sleeps).  The driver is a normal binary; it
// enters the testing framework through testing.Main so that synctest.Test can be used.
//
// After every operation the full block contents (allocations, unallocated order, attributes incl. ReleasedAt,
// sequence numbers) and the operation's result lists are printed as part of a Coq `case` term.
package main

import (
	"context"
	"encoding/json"
	"flag"
	"fmt"
	"net"
	"os"
	"runtime"
	"sort"
	"strconv"
	"strings"
	"testing"
	"testing/synctest"
	"time"

	v3 "github.com/projectcalico/api/pkg/apis/projectcalico/v3"
	"github.com/sirupsen/logrus"
	metav1 "k8s.io/apimachinery/pkg/apis/meta/v1"

	"github.com/projectcalico/calico/libcalico-go/lib/apis/internalapi"
	"github.com/projectcalico/calico/libcalico-go/lib/backend/model"
	cerrors "github.com/projectcalico/calico/libcalico-go/lib/errors"
	"github.com/projectcalico/calico/libcalico-go/lib/ipam"
	cnet "github.com/projectcalico/calico/libcalico-go/lib/net"
	"github.com/projectcalico/calico/libcalico-go/lib/options"
	mb "github.com/projectcalico/calico/zz_verif/c19/membackend"
)

type rng struct{ s uint64 }

func (r *rng) next() uint64 {
	r.s += 0x9e3779b97f4a7c15
	z := r.s
	z = (z ^ (z >> 30)) * 0xbf58476d1ce4e5b9
	z = (z ^ (z >> 27)) * 0x94d049bb133111eb
	return z ^ (z >> 31)
}
func (r *rng) intn(n int) int    { return int(r.next() % uint64(n)) }
func (r *rng) chance(p int) bool { return r.intn(100) < p }

const base0 = uint32(10<<24 | 7<<16) // 10.7.0.0

func ip4(a uint32) net.IP { return net.IPv4(byte(a>>24), byte(a>>16), byte(a>>8), byte(a)).To4() }
func ipnum(ip net.IP) uint32 {
	v := ip.To4()
	return uint32(v[0])<<24 | uint32(v[1])<<16 | uint32(v[2])<<8 | uint32(v[3])
}
func log2(n int) int {
	k := 0
	for 1<<uint(k) < n {
		k++
	}
	return k
}

func classifyErr(err error) string {
	if err == nil {
		return "ENone"
	}
	switch err.(type) {
	case cerrors.ErrorResourceDoesNotExist:
		return "ENotFound"
	case cerrors.ErrorResourceAlreadyExists:
		return "EExists"
	case cerrors.ErrorResourceUpdateConflict:
		return "EConflict"
	}
	return "EOther"
}

// ---------------------------------------------------------------- fakes for the client stream
type pools struct{ pool v3.IPPool }

func (p *pools) GetEnabledPools(ctx context.Context, ipVersion int) ([]v3.IPPool, error) {
	if ipVersion == 4 {
		return []v3.IPPool{p.pool}, nil
	}
	return nil, nil
}
func (p *pools) GetAllPools(ctx context.Context) ([]v3.IPPool, error) {
	return []v3.IPPool{p.pool}, nil
}

type reservations struct{ addrs []uint32 }

func (r reservations) List(ctx context.Context, opts options.ListOptions) (*v3.IPReservationList, error) {
	l := &v3.IPReservationList{}
	if len(r.addrs) > 0 {
		res := v3.IPReservation{ObjectMeta: metav1.ObjectMeta{Name: "rsv"}}
		for _, a := range r.addrs {
			res.Spec.ReservedCIDRs = append(res.Spec.ReservedCIDRs, ip4(a).String()+"/32")
		}
		l.Items = append(l.Items, res)
	}
	return l, nil
}

// ---------------------------------------------------------------- Coq printing
var start time.Time // bubble start

func natList(xs []int) string {
	s := make([]string, len(xs))
	for i, x := range xs {
		s[i] = strconv.Itoa(x)
	}
	return "[" + strings.Join(s, ";") + "]"
}
func optN(p *uint64) string {
	if p == nil {
		return "None"
	}
	return fmt.Sprintf("(Some %d%%N)", *p)
}
func hnum(h string) uint64 {
	n, err := strconv.Atoi(strings.TrimPrefix(h, "h"))
	if err != nil {
		panic("bad handle " + h)
	}
	return uint64(n)
}
func optHandle(h *string) string {
	if h == nil {
		return "None"
	}
	return fmt.Sprintf("(Some %d%%N)", hnum(*h))
}

func blockCoq(b *model.AllocationBlock) string {
	var al []string
	for _, a := range b.Allocations {
		if a == nil {
			al = append(al, "None")
		} else {
			al = append(al, fmt.Sprintf("Some %d", *a))
		}
	}
	var at []string
	for _, a := range b.Attributes {
		tag := 0
		if t, ok := a.ActiveOwnerAttrs["tag"]; ok {
			tag, _ = strconv.Atoi(t)
		}
		rel := "None"
		if a.ReleasedAt != nil {
			rel = fmt.Sprintf("Some %d%%N", a.ReleasedAt.Time.Sub(start).Nanoseconds())
		}
		at = append(at, fmt.Sprintf("{| at_handle := %s; at_tag := %d%%N; at_rel := %s |}", optHandle(a.HandleID), tag, rel))
	}
	type kv struct {
		o int
		s uint64
	}
	var sq []kv
	for k, v := range b.SequenceNumberForAllocation {
		o, _ := strconv.Atoi(k)
		sq = append(sq, kv{o, v})
	}
	sort.Slice(sq, func(i, j int) bool { return sq[i].o < sq[j].o })
	var sqs []string
	for _, p := range sq {
		sqs = append(sqs, fmt.Sprintf("(%d, %d%%N)", p.o, p.s))
	}
	return fmt.Sprintf("{| bk_allocs := [%s]; bk_unalloc := %s; bk_attrs := [%s]; bk_seq := %d%%N; bk_seqs := [%s] |}",
		strings.Join(al, ";"), natList(b.Unallocated), strings.Join(at, ";"), b.SequenceNumber, strings.Join(sqs, ";"))
}

func blockText(b *model.AllocationBlock) string {
	var parts []string
	for o, a := range b.Allocations {
		if a == nil {
			continue
		}
		at := b.Attributes[*a]
		s := fmt.Sprintf("%d:", o)
		if at.ReleasedAt != nil {
			s += fmt.Sprintf("cool@%v", at.ReleasedAt.Time.Sub(start))
		} else if at.HandleID != nil {
			s += *at.HandleID
		} else {
			s += "nohandle"
		}
		s += fmt.Sprintf("#%d", b.SequenceNumberForAllocation[strconv.Itoa(o)]-uint64(start.UnixNano()))
		parts = append(parts, s)
	}
	return fmt.Sprintf("seq=+%d free=%v used={%s}", b.SequenceNumber-uint64(start.UnixNano()), b.Unallocated, strings.Join(parts, " "))
}

type req struct {
	ord    int // block ordinal (block stream) or pool offset (client stream)
	handle *string
	seq    *uint64
}

func reqsCoq(rs []req) string {
	var s []string
	for _, r := range rs {
		s = append(s, fmt.Sprintf("{| rq_ord := %d; rq_handle := %s; rq_seq := %s |}", r.ord, optHandle(r.handle), optN(r.seq)))
	}
	return "[" + strings.Join(s, ";") + "]"
}
func reqsText(rs []req) string {
	var s []string
	for _, r := range rs {
		x := strconv.Itoa(r.ord)
		if r.handle != nil {
			x += "/" + *r.handle
		}
		if r.seq != nil {
			x += fmt.Sprintf("/#%d", int64(*r.seq-uint64(start.UnixNano())))
		}
		s = append(s, x)
	}
	return strings.Join(s, ",")
}
func countsCoq(m map[string]int) string {
	var ks []string
	for k := range m {
		ks = append(ks, k)
	}
	sort.Slice(ks, func(i, j int) bool { return hnum(ks[i]) < hnum(ks[j]) })
	var s []string
	for _, k := range ks {
		s = append(s, fmt.Sprintf("(%d%%N, %d)", hnum(k), m[k]))
	}
	return "[" + strings.Join(s, ";") + "]"
}

type line struct {
	Coq    string         `json:"coq"`
	NT     bool           `json:"nt"`
	Key    string         `json:"key"`
	Sample map[string]any `json:"sample"`
	Tags   []string       `json:"tags"`
}

var cooldowns = []int{-1, 0, 0, 1, 2, 2, 5, 30}

// advance the virtual clock by a generated amount (exercises the strict "<" of the cooldown test, sub-second
// offsets for the one-second serialisation of ReleasedAt, and jumps past the cooldown)
func advance(r *rng, cd int) {
	var d time.Duration
	switch r.intn(10) {
	case 0, 1, 2:
		d = 0
	case 3:
		d = time.Nanosecond
	case 4:
		d = time.Duration(100+r.intn(900)) * time.Millisecond
	case 5:
		d = time.Second
	case 6:
		d = time.Duration(max(cd, 0)) * time.Second
	case 7:
		d = time.Duration(max(cd, 0))*time.Second + time.Nanosecond
	case 8:
		d = time.Duration(max(cd, 0))*time.Second + time.Second
	default:
		d = time.Duration(1+r.intn(3)) * time.Second
	}
	if d > 0 {
		time.Sleep(d)
	}
}

func hptr(i int) *string {
	s := fmt.Sprintf("h%d", i)
	return &s
}

// ---------------------------------------------------------------- stream 1: block level
func runBlockCase(seed uint64) line {
	r := &rng{s: seed}
	start = time.Now()
	size := []int{4, 8, 8}[r.intn(3)]
	cd := cooldowns[r.intn(len(cooldowns))]
	_, cidr, _ := cnet.ParseCIDR(fmt.Sprintf("%s/%d", ip4(base0), 32-log2(size)))
	ctx := context.Background()
	st := mb.NewStore()
	vb := ipam.VerifC21NewBlock(*cidr)
	// the block needs a datastore identity for updateBlock
	kvp, err := st.Create(ctx, &model.KVPair{Key: model.BlockKey{CIDR: model.PrefixFromIPNet(*cidr)}, Value: vb.Raw()})
	if err != nil {
		panic(err)
	}
	kvp.Value = vb.Raw()
	seq0 := vb.Raw().SequenceNumber
	oldSeqs := map[int][]uint64{}

	nops := 8 + r.intn(18)
	var obs, ops, keyParts []string
	tags := map[string]bool{}
	sawRelease, sawStale, sawReuse, sawCoolBlock := false, false, false, false
	everReleased := map[int]bool{}
	for k := 0; k < nops; k++ {
		if r.chance(8) {
			cd = cooldowns[r.intn(len(cooldowns))]
		}
		advance(r, cd)
		t := time.Since(start).Nanoseconds()
		b := vb.Raw()
		var live, notLive []int
		for o, a := range b.Allocations {
			if a != nil && b.Attributes[*a].ReleasedAt == nil {
				live = append(live, o)
			} else {
				notLive = append(notLive, o)
			}
		}
		var opCoq, resCoq, opText string
		switch x := r.intn(100); {
		case x < 25: // autoAssign
			num := 1 + r.intn(3)
			var h *string
			if !r.chance(5) {
				h = hptr(1 + r.intn(3))
			}
			tag := 1 + r.intn(2)
			var rsv []int
			var rsvNets []cnet.IPNet
			if r.chance(40) {
				for i := 0; i < 1+r.intn(3); i++ {
					o := r.intn(size)
					rsv = append(rsv, o)
					_, n, _ := cnet.ParseCIDR(ip4(base0+uint32(o)).String() + "/32")
					rsvNets = append(rsvNets, *n)
				}
				tags["block:auto-reserved"] = true
			}
			ips, err := vb.AutoAssign(num, h, map[string]string{"tag": strconv.Itoa(tag)}, rsvNets)
			if err != nil {
				panic(err)
			}
			var ords []int
			for _, ipn := range ips {
				o := int(ipnum(ipn.IP) - base0)
				ords = append(ords, o)
				if everReleased[o] {
					sawReuse = true
				}
			}
			opCoq = fmt.Sprintf("BAuto %s %d%%N %d %s", optHandle(h), tag, num, natList(rsv))
			resCoq = fmt.Sprintf("ResAuto %s", natList(ords))
			opText = fmt.Sprintf("autoAssign(num=%d, handle=%s, reserved=%v) -> %v", num, optHandle(h), rsv, ords)
		case x < 33: // assign
			o := r.intn(size)
			h := hptr(1 + r.intn(3))
			tag := 1 + r.intn(2)
			err := vb.Assign(cnet.IP{IP: ip4(base0 + uint32(o))}, h, map[string]string{"tag": strconv.Itoa(tag)})
			if err == nil && everReleased[o] {
				sawReuse = true
			}
			opCoq = fmt.Sprintf("BAssign %d %s %d%%N", o, optHandle(h), tag)
			resCoq = "ResErr " + classifyErr(err)
			opText = fmt.Sprintf("assign(%d, %s) -> %s", o, *h, classifyErr(err))
		case x < 63: // release
			var rs []req
			n := 1 + r.intn(3)
			stale := false
			for i := 0; i < n; i++ {
				var rq req
				pickLive := len(live) > 0 && (len(notLive) == 0 || r.chance(75))
				if pickLive {
					rq.ord = live[r.intn(len(live))]
				} else {
					rq.ord = notLive[r.intn(len(notLive))]
				}
				cur := b.GetSequenceNumberForOrdinal(rq.ord)
				if r.chance(55) {
					s := cur
					if r.chance(18) {
						if os := oldSeqs[rq.ord]; len(os) > 0 && r.chance(70) {
							s = os[r.intn(len(os))]
						} else if r.chance(50) {
							s = cur + 1
						} else {
							s = cur - 1
						}
						stale = stale || s != cur
					}
					rq.seq = &s
				}
				if r.chance(55) {
					if a := b.Allocations[rq.ord]; a != nil && b.Attributes[*a].HandleID != nil && !r.chance(12) {
						h := *b.Attributes[*a].HandleID
						rq.handle = &h
					} else {
						rq.handle = hptr(1 + r.intn(4))
					}
				}
				rs = append(rs, rq)
				if r.chance(10) {
					rs = append(rs, rq) // duplicate address
				}
			}
			var opts []ipam.ReleaseOptions
			for _, rq := range rs {
				o := ipam.ReleaseOptions{Address: ip4(base0 + uint32(rq.ord)).String(), SequenceNumber: rq.seq}
				if rq.handle != nil {
					o.Handle = *rq.handle
				}
				opts = append(opts, o)
			}
			before := map[int]uint64{}
			for _, o := range live {
				before[o] = b.GetSequenceNumberForOrdinal(o)
			}
			un, counts, err := vb.Release(cd, opts)
			var uno []int
			for _, u := range un {
				uno = append(uno, int(ipnum(u.IP)-base0))
			}
			sort.Ints(uno)
			if err != nil {
				counts = nil
				uno = nil
				if stale {
					sawStale = true
				}
			} else if len(counts) > 0 {
				sawRelease = true
			}
			nb := vb.Raw()
			for _, o := range live {
				a := nb.Allocations[o]
				if a == nil || nb.Attributes[*a].ReleasedAt != nil {
					everReleased[o] = true
					oldSeqs[o] = append(oldSeqs[o], before[o])
				}
			}
			opCoq = "BRelease " + reqsCoq(rs)
			resCoq = fmt.Sprintf("ResRel %s %s %s", natList(uno), countsCoq(counts), classifyErr(err))
			opText = fmt.Sprintf("release(%s) -> unalloc=%v counts=%v err=%s", reqsText(rs), uno, counts, classifyErr(err))
		case x < 75: // releaseByHandle
			h := 1 + r.intn(3)
			var sq *uint64
			if r.chance(25) && len(live) > 0 {
				s := b.GetSequenceNumberForOrdinal(live[r.intn(len(live))])
				sq = &s
			}
			before := map[int]uint64{}
			for _, o := range live {
				before[o] = b.GetSequenceNumberForOrdinal(o)
			}
			n := vb.ReleaseByHandle(cd, ipam.ReleaseOptions{Handle: fmt.Sprintf("h%d", h), SequenceNumber: sq})
			if n > 0 {
				sawRelease = true
			}
			nb := vb.Raw()
			for _, o := range live {
				a := nb.Allocations[o]
				if a == nil || nb.Attributes[*a].ReleasedAt != nil {
					everReleased[o] = true
					oldSeqs[o] = append(oldSeqs[o], before[o])
				}
			}
			opCoq = fmt.Sprintf("BRbh %d%%N %s", h, optN(sq))
			resCoq = fmt.Sprintf("ResCount %d", n)
			opText = fmt.Sprintf("releaseByHandle(h%d, seq=%s) -> %d", h, optN(sq), n)
		case x < 85: // garbageCollect
			ch := vb.GarbageCollect(cd)
			opCoq = "BGC"
			resCoq = fmt.Sprintf("ResChanged %v", ch)
			opText = fmt.Sprintf("garbageCollect -> changed=%v", ch)
		default: // updateBlock + read back (datastore round trip)
			kvp.Value = vb.Raw()
			nk, err := ipam.VerifC21UpdateBlock(ctx, st, kvp)
			if err != nil {
				panic(err)
			}
			_ = nk
			kvp, err = ipam.VerifC21QueryBlock(ctx, st, *cidr)
			if err != nil {
				panic(err)
			}
			// wrap the value read back WITHOUT garbage collection (GC is a separate generated operation)
			vb = ipam.VerifC21Wrap(kvp.Value.(*model.AllocationBlock))
			opCoq = "BPersist"
			resCoq = "ResNone"
			opText = "updateBlock + queryBlock"
		}
		nb := vb.Raw()
		for _, a := range nb.Allocations {
			if a != nil && nb.Attributes[*a].ReleasedAt != nil {
				sawCoolBlock = true
			}
		}
		obs = append(obs, fmt.Sprintf("{| bo_t := %d%%N; bo_cd := (%d)%%Z; bo_op := %s; bo_blk := %s; bo_res := %s |}",
			t, cd, opCoq, blockCoq(nb), resCoq))
		ops = append(ops, fmt.Sprintf("t=%v cd=%d %s  => %s", time.Duration(t), cd, opText, blockText(nb)))
		keyParts = append(keyParts, fmt.Sprintf("%d|%d|%s", t, cd, opCoq))
	}
	tags["stream:block"] = true
	tags[fmt.Sprintf("block:size=%d", size)] = true
	if sawStale {
		tags["block:stale-seq-rejected"] = true
	}
	if sawReuse {
		tags["block:reuse-after-release"] = true
	}
	if sawCoolBlock {
		tags["block:cooling-seen"] = true
	}
	coq := fmt.Sprintf("BlockCase %d %d%%N [%s]", size, seq0, strings.Join(obs, ";\n"))
	return line{Coq: coq, NT: sawRelease && (sawReuse || sawCoolBlock), Key: fmt.Sprintf("B%d|%s", size, strings.Join(keyParts, ";")),
		Sample: map[string]any{"stream": "block", "size": size, "ops": ops, "replay_args": fmt.Sprintf("-one %d", seed)}, Tags: tagList(tags)}
}

func tagList(m map[string]bool) []string {
	var t []string
	for k := range m {
		t = append(t, k)
	}
	sort.Strings(t)
	return t
}

// ---------------------------------------------------------------- stream 2: full client
func runClientCase(seed uint64) line {
	r := &rng{s: seed}
	start = time.Now()
	bsize := []int{4, 4, 8}[r.intn(3)]
	nblocks := []int{2, 2, 4}[r.intn(3)]
	cd := cooldowns[r.intn(len(cooldowns))]
	strict := r.chance(50)
	autoalloc := true
	// "deletion" domain: histories with ReleaseAffinity (blocks lose their affinity, get deleted and re-created) run with
	// StrictAffinity and without AutoAllocateBlocks, small layouts and mostly a positive cooldown
	deletion := r.chance(45)
	if deletion {
		strict, autoalloc = true, false
		bsize, nblocks = []int{2, 4, 4}[r.intn(3)], 2
		if r.chance(70) {
			cd = []int{1, 2, 5, 30}[r.intn(4)]
		}
	}
	logrus.SetLevel(logrus.PanicLevel)
	poolLen := 32 - log2(nblocks*bsize)
	blockLen := 32 - log2(bsize)
	auto := v3.Automatic
	pool := v3.IPPool{ObjectMeta: metav1.ObjectMeta{Name: "pool0"}, Spec: v3.IPPoolSpec{
		CIDR: fmt.Sprintf("%s/%d", ip4(base0), poolLen), BlockSize: blockLen,
		AllowedUses:    []v3.IPPoolAllowedUse{v3.IPPoolAllowedUseWorkload, v3.IPPoolAllowedUseTunnel},
		AssignmentMode: &auto,
	}}
	var rsv []uint32
	var rsvOff []int
	if r.chance(40) {
		for i := 0; i < 1+r.intn(3); i++ {
			o := r.intn(nblocks * bsize)
			rsv = append(rsv, base0+uint32(o))
			rsvOff = append(rsvOff, o)
		}
	}
	st := mb.NewStore()
	ctx := context.Background()
	n := internalapi.NewNode()
	n.Name = "n0"
	if _, err := st.Apply(ctx, &model.KVPair{Key: model.ResourceKey{Kind: internalapi.KindNode, Name: n.Name}, Value: n}); err != nil {
		panic(err)
	}
	setCfg := func(cd int) {
		if _, err := st.Apply(ctx, &model.KVPair{Key: model.IPAMConfigKey{}, Value: &model.IPAMConfig{
			StrictAffinity: strict, AutoAllocateBlocks: autoalloc, IPCooldownSeconds: cd}}); err != nil {
			panic(err)
		}
	}
	setCfg(cd)
	ic := ipam.NewIPAMClient(st, &pools{pool: pool}, reservations{addrs: rsv})
	_, poolNet, _ := cnet.ParseCIDR(pool.Spec.CIDR)
	claimed, failed, err := ic.ClaimAffinity(ctx, *poolNet, ipam.AffinityConfig{AffinityType: ipam.AffinityTypeHost, Host: "n0"})
	if err != nil || len(failed) != 0 || len(claimed) != nblocks {
		panic(fmt.Sprintf("claim: %v %v %v", claimed, failed, err))
	}
	blockNet := func(i int) cnet.IPNet {
		_, c, _ := cnet.ParseCIDR(fmt.Sprintf("%s/%d", ip4(base0+uint32(i*bsize)), blockLen))
		return *c
	}
	readBlocks := func() []*model.KVPair {
		var out []*model.KVPair
		for i := 0; i < nblocks; i++ {
			kv, err := ipam.VerifC21QueryBlock(ctx, st, blockNet(i))
			if err != nil {
				if _, ok := err.(cerrors.ErrorResourceDoesNotExist); !ok {
					panic(err)
				}
				kv = nil // the block does not exist
			}
			out = append(out, kv)
		}
		return out
	}
	dump := func() (string, string, []string) {
		var bs, affs, txt []string
		for i, kv := range readBlocks() {
			// the host's BlockAffinity object
			_, aerr := st.Get(ctx, model.BlockAffinityKey{Host: "n0", AffinityType: string(ipam.AffinityTypeHost), CIDR: model.PrefixFromIPNet(blockNet(i))}, "")
			if kv == nil {
				bs = append(bs, "None")
				affs = append(affs, fmt.Sprintf("%v", aerr == nil))
				txt = append(txt, fmt.Sprintf("   block %d: does not exist", i))
				continue
			}
			b := kv.Value.(*model.AllocationBlock)
			if (aerr == nil) != (b.Affinity != nil) {
				panic("affinity object and block affinity disagree")
			}
			bs = append(bs, "Some "+blockCoq(b))
			affs = append(affs, fmt.Sprintf("%v", aerr == nil))
			txt = append(txt, fmt.Sprintf("   block %d (affine=%v): %s", i, aerr == nil, blockText(b)))
		}
		affCoq := "[" + strings.Join(affs, ";") + "]"
		hl, err := st.List(ctx, model.IPAMHandleListOptions{}, "")
		if err != nil {
			panic(err)
		}
		type he struct {
			h uint64
			s string
		}
		var hs []he
		for _, kv := range hl.KVPairs {
			h := kv.Value.(*model.IPAMHandle)
			type be struct {
				i int
				n int
			}
			var bl []be
			for c, cnt := range h.Block {
				_, cn, _ := net.ParseCIDR(c)
				bl = append(bl, be{int(ipnum(cn.IP)-base0) / bsize, cnt})
			}
			sort.Slice(bl, func(i, j int) bool { return bl[i].i < bl[j].i })
			var parts []string
			for _, x := range bl {
				parts = append(parts, fmt.Sprintf("(%d, %d%%N)", x.i, x.n))
			}
			id := hnum(kv.Key.(model.IPAMHandleKey).HandleID)
			hs = append(hs, he{id, fmt.Sprintf("(%d%%N, [%s])", id, strings.Join(parts, ";"))})
		}
		sort.Slice(hs, func(i, j int) bool { return hs[i].h < hs[j].h })
		var hparts []string
		for _, x := range hs {
			hparts = append(hparts, x.s)
		}
		return "[" + strings.Join(bs, ";\n") + "]", affCoq + "\x00[" + strings.Join(hparts, ";") + "]", txt
	}
	initBlocks, _, _ := dump()

	oldSeqs := map[int][]uint64{}
	everReleased := map[int]bool{}
	nops := 8 + r.intn(14)
	var obs, ops, keyParts []string
	tags := map[string]bool{}
	sawRelease, sawStale, sawReuse, sawCool, sawMulti, sawWrongHandle := false, false, false, false, false, false
	sawRelAff, sawDeleted, sawRecreated := false, false, false
	wasAbsent := make([]bool, nblocks)
	for k := 0; k < nops; k++ {
		if r.chance(6) {
			cd = cooldowns[r.intn(len(cooldowns))]
			setCfg(cd)
		}
		advance(r, cd)
		kvs := readBlocks()
		for _, kv := range kvs {
			if kv == nil {
				// a block may be re-created by the next call: newBlock takes its SequenceNumber from the wall clock, which
				// in reality has advanced by far more than one nanosecond per datastore write since the old block was made
				time.Sleep(50 * time.Microsecond)
				break
			}
		}
		t := time.Since(start).Nanoseconds()
		type ainfo struct {
			live   bool
			handle *string
			seq    uint64
		}
		info := make([]ainfo, nblocks*bsize)
		var live, notLive []int
		for i, kv := range kvs {
			if kv == nil {
				for o := 0; o < bsize; o++ {
					notLive = append(notLive, i*bsize+o)
				}
				continue
			}
			b := kv.Value.(*model.AllocationBlock)
			for o, a := range b.Allocations {
				off := i*bsize + o
				info[off].seq = b.GetSequenceNumberForOrdinal(o)
				if a != nil && b.Attributes[*a].ReleasedAt == nil {
					info[off].live = true
					info[off].handle = b.Attributes[*a].HandleID
					live = append(live, off)
				} else {
					notLive = append(notLive, off)
				}
			}
		}
		markReleased := func() {
			for i, kv := range readBlocks() {
				if kv == nil {
					for o := 0; o < bsize; o++ {
						if off := i*bsize + o; info[off].live {
							everReleased[off] = true
							oldSeqs[off] = append(oldSeqs[off], info[off].seq)
						}
					}
					continue
				}
				b := kv.Value.(*model.AllocationBlock)
				for o, a := range b.Allocations {
					off := i*bsize + o
					if info[off].live && (a == nil || b.Attributes[*a].ReleasedAt != nil) {
						everReleased[off] = true
						oldSeqs[off] = append(oldSeqs[off], info[off].seq)
					}
				}
			}
		}
		var opCoq, resCoq, opText string
		x := r.intn(100)
		if deletion {
			// more AssignIP (the only call that re-creates a block here) and ReleaseAffinity
			switch y := r.intn(100); {
			case y < 22:
				x = 0 // AutoAssign
			case y < 42:
				x = 30 // AssignIP
			case y < 64:
				x = 40 // ReleaseIPs
			case y < 76:
				x = 70 // ReleaseByHandle
			case y < 82:
				x = 90 // GarbageCollectColdIPs
			default:
				x = 100 // ReleaseAffinity
			}
		}
		switch {
		case x == 100:
			i := r.intn(nblocks)
			must := r.chance(50)
			bn := blockNet(i)
			err := ic.ReleaseAffinity(ctx, bn, "n0", must)
			sawRelAff = true
			opCoq = fmt.Sprintf("CRelAff %d %v", i, must)
			resCoq = "CResErr " + classifyErr(err)
			opText = fmt.Sprintf("ReleaseAffinity(block %d, mustBeEmpty=%v) -> %s", i, must, classifyErr(err))
		case x < 30:
			num := 1 + r.intn(4)
			if r.chance(10) {
				num = bsize + 1
			}
			h, tag := 1+r.intn(4), 1+r.intn(2)
			hs := fmt.Sprintf("h%d", h)
			v4, _, err := ic.AutoAssign(ctx, ipam.AutoAssignArgs{Num4: num, HandleID: &hs, Attrs: map[string]string{"tag": strconv.Itoa(tag)},
				Hostname: "n0", IntendedUse: v3.IPPoolAllowedUseWorkload})
			var addrs []int
			if v4 != nil {
				for _, ipn := range v4.IPs {
					off := int(ipnum(ipn.IP) - base0)
					addrs = append(addrs, off)
					if everReleased[off] {
						sawReuse = true
					}
				}
			}
			opCoq = fmt.Sprintf("CAuto %d%%N %d%%N %d", h, tag, num)
			resCoq = fmt.Sprintf("CResIPs %s %s", natList(addrs), classifyErr(err))
			opText = fmt.Sprintf("AutoAssign(num=%d, h%d) -> %v %s", num, h, addrs, classifyErr(err))
		case x < 38:
			off := r.intn(nblocks * bsize)
			h, tag := 1+r.intn(4), 1+r.intn(2)
			hs := fmt.Sprintf("h%d", h)
			err := ic.AssignIP(ctx, ipam.AssignIPArgs{IP: cnet.IP{IP: ip4(base0 + uint32(off))}, HandleID: &hs,
				Attrs: map[string]string{"tag": strconv.Itoa(tag)}, Hostname: "n0"})
			if err == nil && everReleased[off] {
				sawReuse = true
			}
			opCoq = fmt.Sprintf("CAssignIP %d%%N %d%%N %d", h, tag, off)
			resCoq = "CResErr " + classifyErr(err)
			opText = fmt.Sprintf("AssignIP(%d, h%d) -> %s", off, h, classifyErr(err))
		case x < 70:
			var rs []req
			cnt := 1 + r.intn(4)
			stale, wrong := false, false
			for i := 0; i < cnt; i++ {
				var rq req
				if len(live) > 0 && (len(notLive) == 0 || r.chance(75)) {
					rq.ord = live[r.intn(len(live))]
				} else {
					rq.ord = notLive[r.intn(len(notLive))]
				}
				cur := info[rq.ord].seq
				if r.chance(55) {
					s := cur
					if r.chance(15) {
						if os := oldSeqs[rq.ord]; len(os) > 0 && r.chance(70) {
							s = os[r.intn(len(os))]
						} else {
							s = cur - 1
						}
						stale = stale || s != cur
					}
					rq.seq = &s
				}
				if r.chance(55) {
					if info[rq.ord].live && info[rq.ord].handle != nil && !r.chance(10) {
						h := *info[rq.ord].handle
						rq.handle = &h
					} else {
						rq.handle = hptr(1 + r.intn(4))
						if info[rq.ord].live && info[rq.ord].handle != nil && *rq.handle != *info[rq.ord].handle {
							wrong = true
						}
					}
				}
				rs = append(rs, rq)
				if r.chance(8) {
					rs = append(rs, rq)
				}
			}
			blocksHit := map[int]bool{}
			var opts []ipam.ReleaseOptions
			for _, rq := range rs {
				blocksHit[rq.ord/bsize] = true
				o := ipam.ReleaseOptions{Address: ip4(base0 + uint32(rq.ord)).String(), SequenceNumber: rq.seq}
				if rq.handle != nil {
					o.Handle = *rq.handle
				}
				opts = append(opts, o)
			}
			if len(blocksHit) > 1 {
				sawMulti = true
			}
			un, released, err := ic.ReleaseIPs(ctx, opts...)
			var uno, rel []int
			for _, u := range un {
				uno = append(uno, int(ipnum(u.IP)-base0))
			}
			for _, o := range released {
				rel = append(rel, int(ipnum(net.ParseIP(o.Address))-base0))
			}
			sort.Ints(uno)
			sort.Ints(rel)
			if err != nil && stale {
				sawStale = true
			}
			if err != nil && wrong {
				sawWrongHandle = true
			}
			markReleased()
			for off := range everReleased {
				_ = off
				sawRelease = true
			}
			opCoq = "CRelease " + reqsCoq(rs)
			resCoq = fmt.Sprintf("CResRel %s %s %s", natList(uno), natList(rel), classifyErr(err))
			opText = fmt.Sprintf("ReleaseIPs(%s) -> unalloc=%v ok=%v err=%s", reqsText(rs), uno, rel, classifyErr(err))
		case x < 85:
			h := 1 + r.intn(4)
			err := ic.ReleaseByHandle(ctx, fmt.Sprintf("h%d", h))
			markReleased()
			if len(everReleased) > 0 {
				sawRelease = true
			}
			opCoq = fmt.Sprintf("CRbh %d%%N", h)
			resCoq = "CResErr " + classifyErr(err)
			opText = fmt.Sprintf("ReleaseByHandle(h%d) -> %s", h, classifyErr(err))
		default:
			i := r.intn(nblocks)
			if kvs[i] == nil {
				i = (i + 1) % nblocks
			}
			if kvs[i] == nil {
				opCoq, resCoq, opText = fmt.Sprintf("CGC %d", i), "CResErr ENone", "GarbageCollectColdIPs skipped (no block)"
				break
			}
			cfg, err := ic.GetIPAMConfig(ctx)
			if err != nil {
				panic(err)
			}
			err = ic.(interface {
				GarbageCollectColdIPs(context.Context, *ipam.IPAMConfig, *model.KVPair) error
			}).GarbageCollectColdIPs(ctx, cfg, kvs[i])
			opCoq = fmt.Sprintf("CGC %d", i)
			resCoq = "CResErr " + classifyErr(err)
			opText = fmt.Sprintf("GarbageCollectColdIPs(block %d) -> %s", i, classifyErr(err))
		}
		bs, hs, txt := dump()
		affCoq, hs, _ := strings.Cut(hs, "\x00")
		for i, kv := range readBlocks() {
			if kv == nil {
				if !wasAbsent[i] {
					sawDeleted = true
				}
				wasAbsent[i] = true
				continue
			}
			if wasAbsent[i] {
				sawRecreated = true
			}
			wasAbsent[i] = false
			b := kv.Value.(*model.AllocationBlock)
			for _, a := range b.Allocations {
				if a != nil && b.Attributes[*a].ReleasedAt != nil {
					sawCool = true
				}
			}
		}
		obs = append(obs, fmt.Sprintf("{| co_t := %d%%N; co_cd := (%d)%%Z; co_op := %s; co_blocks := %s; co_affs := %s; co_handles := %s; co_res := %s |}",
			t, cd, opCoq, bs, affCoq, hs, resCoq))
		ops = append(ops, fmt.Sprintf("t=%v cd=%d %s", time.Duration(t), cd, opText))
		ops = append(ops, txt...)
		keyParts = append(keyParts, fmt.Sprintf("%d|%d|%s", t, cd, opCoq))
	}
	tags["stream:client"] = true
	tags[fmt.Sprintf("client:blocks=%dx%d", nblocks, bsize)] = true
	if len(rsv) > 0 {
		tags["client:reservations"] = true
	}
	if sawStale {
		tags["client:stale-seq-rejected"] = true
	}
	if sawWrongHandle {
		tags["client:wrong-handle-rejected"] = true
	}
	if sawReuse {
		tags["client:reuse-after-release"] = true
	}
	if sawCool {
		tags["client:cooling-seen"] = true
	}
	if sawMulti {
		tags["client:multi-block-release"] = true
	}
	if deletion {
		tags["client:deletion-domain"] = true
	}
	if sawRelAff {
		tags["client:release-affinity"] = true
	}
	if sawDeleted {
		tags["client:block-deleted"] = true
	}
	if sawRecreated {
		tags["client:block-recreated"] = true
	}
	coq := fmt.Sprintf("ClientCase %d %s %v %v %d%%N %s [%s]", bsize, natList(rsvOff), strict, autoalloc, uint64(start.UnixNano()), initBlocks, strings.Join(obs, ";\n"))
	return line{Coq: coq, NT: sawRelease && (sawReuse || sawCool), Key: fmt.Sprintf("C%dx%d|%v|%s", nblocks, bsize, rsvOff, strings.Join(keyParts, ";")),
		Sample: map[string]any{"stream": "client", "blocks": nblocks, "block_size": bsize, "reserved": rsvOff, "strict_affinity": strict, "auto_allocate_blocks": autoalloc,
			"ops": ops, "replay_args": fmt.Sprintf("-one %d", seed)}, Tags: tagList(tags)}
}

func main() {
	n := flag.Int("n", 100, "number of cases")
	seed := flag.Uint64("seed", 1, "seed")
	one := flag.Uint64("one", 0, "run the single case with this case seed")
	procs := flag.Int("procs", 1, "GOMAXPROCS (1 = deterministic; more lets ReleaseIPs' per-block goroutines run in parallel)")
	out := os.Stdout
	os.Stdout = os.Stderr // the testing framework prints PASS to stdout
	logrus.SetLevel(logrus.PanicLevel)
	// ReleaseIPs serves the blocks of one request in parallel goroutines, bounded by GOMAXPROCS: one processor makes
	// the run sequential and therefore deterministic (see the report: with more, the goroutines share and mutate one
	// cached handle object).
	flag.Parse()
	runtime.GOMAXPROCS(*procs)
	enc := json.NewEncoder(out)
	testing.Main(func(pat, str string) (bool, error) { return true, nil },
		[]testing.InternalTest{{Name: "TestVerifC21", F: func(t *testing.T) {
			r := &rng{s: *seed}
			emit := func(cs uint64) {
				var l line
				synctest.Test(t, func(t *testing.T) {
					if cs%2 == 0 {
						l = runBlockCase(cs)
					} else {
						l = runClientCase(cs)
					}
				})
				if err := enc.Encode(l); err != nil {
					panic(err)
				}
			}
			if *one != 0 {
				emit(*one)
				return
			}
			for i := 0; i < *n; i++ {
				cs := r.next()
				cs = cs - cs%2 + uint64(i%2) // even: block stream, odd: client stream
				if cs == 0 {
					cs = 2
				}
				emit(cs)
			}
		}}}, nil, nil)
}
