//go:build verif

package main

import (
	"encoding/json"
	"fmt"
	"strings"
	"time"

	"github.com/projectcalico/calico/felix/calc"
	"github.com/projectcalico/calico/felix/config"
	"github.com/projectcalico/calico/libcalico-go/lib/backend/api"
)

// ---------------------------------------------------------------- mode loop
//
// The real AsyncCalcGraph.loop() runs in its own goroutine around the real sequencer and the real calculation
// graph.  Its inputs are fed by hand (shim VerifNewLoop) and there is NO sleep and no timer anywhere:
//   * inputEvents and flushTicks are unbuffered and are received ONLY by the loop's main select, and the output
//     channel is unbuffered and received only by the driver.  The driver delivers an input with
//         for { select { case m := <-out: collect(m); case input <- ev: return } }
//     The send can complete only when the loop is back in its main select; by then every output of every earlier
//     iteration has been handed to the driver (each output send blocks until the driver takes it), and nothing
//     of the new iteration exists yet.  So the outputs collected while delivering input i+1 are exactly the
//     outputs of iteration i: the attribution of messages to loop iterations is exact and deterministic.
//   * a health tick may be consumed either by the main select or inside onEvent (while the loop waits to hand
//     over an output); both only call reportHealth.  Outputs collected while delivering a health tick are
//     attributed to the last non-health step, the health step itself is recorded with no output (if the real
//     loop ever flushed in a health iteration, the previous step's output would disagree with the model).
//   * sequencer callbacks are made ON THE LOOP GOROUTINE: an update with a key type the graph does not use
//     carries a closure that the graph's dispatcher runs inside CalcGraph.OnUpdates (where real graph nodes call
//     the sequencer).  Status updates go through the real CalcGraph.OnStatusUpdated (config batcher,
//     encapsulation resolver ... may emit ConfigUpdate / Encapsulation: outside the model, dropped).
//   * the case ends with one extra tick that is delivered only to collect the outputs of the last recorded step;
//     what that tick's own iteration does is not observed.

type lstep struct {
	ev   string
	ms   []string
	main bool
}

type loopCase struct {
	g     *gen
	l     *calc.VerifLoop
	out   chan any
	steps []lstep
	nMsgs int
}

func (lc *loopCase) collect(m any) {
	om, ok := msgToCoq(m)
	if !ok {
		return
	}
	lc.nMsgs++
	for i := len(lc.steps) - 1; i >= 0; i-- {
		if lc.steps[i].main {
			lc.steps[i].ms = append(lc.steps[i].ms, om.coq)
			return
		}
	}
	// output before any input: keep it, the model will disagree
	lc.steps = append([]lstep{{ev: "LHealth", ms: []string{om.coq}, main: true}}, lc.steps...)
}

func (lc *loopCase) record(ev string, main bool) {
	lc.steps = append(lc.steps, lstep{ev: ev, main: main})
	lc.g.keys = append(lc.g.keys, ev)
}

func (lc *loopCase) input(ev string, v any) {
	for {
		select {
		case m := <-lc.out:
			lc.collect(m)
		case lc.l.Input <- v:
			lc.record(ev, true)
			return
		}
	}
}

func (lc *loopCase) tick(recorded bool) {
	for {
		select {
		case m := <-lc.out:
			lc.collect(m)
		case lc.l.Ticks <- time.Time{}:
			if recorded {
				lc.record("LTick", true)
			}
			return
		}
	}
}

func (lc *loopCase) health() {
	for {
		select {
		case m := <-lc.out:
			lc.collect(m)
		case lc.l.Health <- time.Time{}:
			lc.record("LHealth", false)
			return
		}
	}
}

func runLoop(r *rng, n int, enc *json.Encoder) {
	for i := 0; i < n; i++ {
		g := newGen(r)
		g.noRetgt = false
		g.batching = true
		conf := config.New()
		conf.FelixHostname = "host"
		out := make(chan any)
		l := calc.VerifNewLoop(conf, out)
		lc := &loopCase{g: g, l: l, out: out}

		nUpd, sawInSync, firstInSync := 0, 0, -1
		updates := func() {
			g.batch, g.batchCbs = nil, nil
			k := 1 + r.intn(5)
			for j := 0; j < k; j++ {
				g.randomOp()
			}
			g.repair()
			cbs := append([]cbk(nil), g.batchCbs...)
			seq := l.Seq
			lc.input("LUpdates ["+strings.Join(g.batch, "; ")+"]", calc.VerifCallbacks(func() {
				for _, c := range cbs {
					applyCb(seq, c)
				}
			}))
			nUpd++
		}
		status := func(st api.SyncStatus) {
			ev := "LStatus false"
			if st == api.InSync {
				ev = "LStatus true"
				if sawInSync == 0 {
					firstInSync = len(lc.steps)
				}
				sawInSync++
			}
			lc.input(ev, st)
		}

		scenario := r.intn(5)
		switch scenario {
		case 0:
			g.tags["loop:insync-first"] = true
			status(api.InSync)
		case 1:
			g.tags["loop:tick-burst-first"] = true
			for j := 0; j < 8+r.intn(8); j++ { // fills the leaky bucket up to (and against) its cap of 10
				lc.tick(true)
			}
		}
		nev := 8 + r.intn(20)
		for j := 0; j < nev; j++ {
			switch k := r.intn(20); {
			case k < 8:
				updates()
			case k < 13:
				lc.tick(true)
			case k < 15:
				if scenario == 4 {
					status(api.ResyncInProgress) // this scenario never becomes in-sync
				} else {
					status(api.InSync)
				}
			case k < 17:
				status([]api.SyncStatus{api.WaitForDatastore, api.ResyncInProgress}[r.intn(2)])
			default:
				lc.health()
			}
		}
		lc.tick(true)
		lc.tick(false) // only to collect the outputs of the last recorded step

		var steps []string
		emittedAt := -1
		for k, s := range lc.steps {
			steps = append(steps, fmt.Sprintf("(%s, [%s])", s.ev, strings.Join(s.ms, "; ")))
			mark := ""
			for _, m := range s.ms {
				if m == "MInSync" {
					mark = " (InSync forwarded)"
					if emittedAt < 0 {
						emittedAt = k
					}
				}
			}
			ev := s.ev
			if len(ev) > 60 {
				ev = ev[:60] + "..."
			}
			g.sample = append(g.sample, fmt.Sprintf("%s -> %d msgs%s", ev, len(s.ms), mark))
		}
		switch {
		case sawInSync == 0:
			g.tags["loop:never-insync"] = true
		case sawInSync > 1:
			g.tags["loop:insync-repeated"] = true
		}
		if firstInSync > 0 {
			g.tags["loop:insync-after-other-inputs"] = true
		}
		if firstInSync >= 0 && emittedAt != firstInSync {
			g.tags["loop:insync-not-forwarded-in-the-iteration-of-the-input"] = true // the loop forces a flush: not expected
		}
		g.nt = nUpd > 0 && lc.nMsgs > 0 && sawInSync > 0
		g.steps = steps
		g.emit(enc, "CaseLoop")
	}
}

// ---------------------------------------------------------------- mode panic
//
// A contract-respecting prefix on the real sequencer, then ONE callback outside the upstream contract.  Some of
// those reach log.Panic in OnIPSetAdded / OnIPSetRemoved / OnIPSetMember{Added,Removed} (depending on what is
// sent / pending), some do not; the model's on_cb returns None exactly for the former.
func runPanic(r *rng, n int, enc *json.Encoder) {
	for i := 0; i < n; i++ {
		g := newGen(r)
		nops := 3 + r.intn(20)
		for j := 0; j < nops; j++ {
			g.randomOp()
			if r.chance(1, 5) {
				g.flush()
			}
		}
		if r.chance(1, 2) {
			g.flush()
		}
		// pick a callback outside the contract
		var c cbk
		id := r.intn(nIDs[KIPSet])
		_, exists := g.w.sets[id]
		switch k := r.intn(6); {
		case k < 2:
			if exists {
				c = cbk{op: "ipadd", id: id, m: r.intn(3)} // add of an existing set
			} else {
				c = cbk{op: "iprem", id: id} // remove of an unknown set
			}
		case k < 4:
			m := r.intn(nMembers)
			if exists {
				if g.w.sets[id][m] {
					c = cbk{op: "madd", id: id, m: m} // member already present
				} else {
					c = cbk{op: "mrem", id: id, m: m} // member not present
				}
			} else if r.chance(1, 2) {
				c = cbk{op: "madd", id: id, m: m} // unknown set
			} else {
				c = cbk{op: "mrem", id: id, m: m}
			}
		default:
			// remove then use: the set is gone upstream but (if it was sent) still known to the sequencer
			if exists {
				g.do(cbk{op: "iprem", id: id})
				g.repair()
				if _, still := g.w.sets[id]; still {
					c = cbk{op: "ipadd", id: id, m: 0}
				} else if r.chance(1, 2) {
					c = cbk{op: "madd", id: id, m: r.intn(nMembers)}
				} else {
					c = cbk{op: "iprem", id: id}
				}
			} else {
				c = cbk{op: "mrem", id: id, m: r.intn(nMembers)}
			}
		}
		panicked := false
		func() {
			defer func() {
				if e := recover(); e != nil {
					panicked = true
				}
			}()
			applyCb(g.es, c)
		}()
		g.tags["malformed:"+c.op] = true
		if panicked {
			g.tags["impl-panics"] = true
		} else {
			g.tags["impl-does-not-panic"] = true
		}
		g.keys = append(g.keys, "!"+c.coq())
		g.sample = append(g.sample, fmt.Sprintf("OUTSIDE CONTRACT %s -> panic=%v", c.coq(), panicked))
		b := "false"
		if panicked {
			b = "true"
		}
		var tags []string
		for t := range g.tags {
			tags = append(tags, t)
		}
		sortStrings(tags)
		_ = enc.Encode(line{Coq: fmt.Sprintf("XOld (CasePanic [%s] (%s) %s)", strings.Join(g.steps, "; "), c.coq(), b),
			NT: panicked, Key: strings.Join(g.keys, ";"), Sample: map[string]any{"trace": g.sample}, Tags: tags})
	}
}
