//go:build verif

package main

import (
	"encoding/json"
	"fmt"
	"net"
	"strconv"

	v3 "github.com/projectcalico/api/pkg/apis/projectcalico/v3"

	"github.com/projectcalico/calico/felix/calc"
	"github.com/projectcalico/calico/felix/config"
	"github.com/projectcalico/calico/felix/proto"
	"github.com/projectcalico/calico/libcalico-go/lib/backend/model"
	cnet "github.com/projectcalico/calico/libcalico-go/lib/net"
)

// ---------------------------------------------------------------- mode xseq: the complete sequencer
//
// As mode seq, plus the callbacks Model.v leaves out (ModelX.v): OnDatastoreNotReady, OnConfigUpdate,
// OnEncapUpdate, OnGlobalBGPConfigUpdate, OnWireguardUpdate / OnWireguardRemove.  The sequencer's configInterface
// is this stub: it remembers the last raw map per source and reports "changed" when it differs (ModelX.v x_cfg).

type memConfig struct{ last map[config.Source]string }

func (c *memConfig) UpdateFrom(m map[string]string, src config.Source) (bool, error) {
	ch := c.last[src] != m["v"]
	c.last[src] = m["v"]
	return ch, nil
}
func (c *memConfig) RawValues() map[string]string { return nil }
func (c *memConfig) ToConfigUpdate() *proto.ConfigUpdate {
	return &proto.ConfigUpdate{Config: map[string]string{"g": c.last[config.DatastoreGlobal], "s": c.last[config.DatastorePerSelector], "h": c.last[config.DatastorePerHost]}}
}

func atoi0(s string) int { n, _ := strconv.Atoi(s); return n }

func xmsgToCoq(m any) (string, bool) {
	switch e := m.(type) {
	case *calc.DatastoreNotReady:
		return "XNotReady", true
	case *proto.ConfigUpdate:
		return fmt.Sprintf("XConfig %d%%N %d%%N %d%%N", atoi0(e.Config["g"]), atoi0(e.Config["s"]), atoi0(e.Config["h"])), true
	case *proto.Encapsulation:
		v := 0
		for i, b := range []bool{e.IpipEnabled, e.VxlanEnabled, e.VxlanEnabledV6, e.NoEncapEnabled} {
			if b {
				v |= 1 << i
			}
		}
		return fmt.Sprintf("XEncap %d%%N", v), true
	case *proto.GlobalBGPConfigUpdate:
		v := 0
		if len(e.ServiceClusterCidrs) > 0 {
			fmt.Sscanf(e.ServiceClusterCidrs[0], "10.77.%d.0/24", &v)
		}
		return fmt.Sprintf("XBGP %d%%N", v), true
	case *proto.WireguardEndpointUpdate:
		return fmt.Sprintf("XWg4Upd %d%%N %d%%N %d%%N", num(e.Hostname, "n"), num(e.PublicKey, "k"), parseVerIP(e.InterfaceIpv4Addr)), true
	case *proto.WireguardEndpointRemove:
		return fmt.Sprintf("XWg4Rem %d%%N", num(e.Hostname, "n")), true
	case *proto.WireguardEndpointV6Update:
		var ver int
		fmt.Sscanf(e.InterfaceIpv6Addr, "fd00::%x", &ver)
		return fmt.Sprintf("XWg6Upd %d%%N %d%%N %d%%N", num(e.Hostname, "n"), num(e.PublicKeyV6, "k"), ver), true
	case *proto.WireguardEndpointV6Remove:
		return fmt.Sprintf("XWg6Rem %d%%N", num(e.Hostname, "n")), true
	}
	return "", false
}

func (g *gen) xop() {
	r := g.r
	rec := func(coq string) {
		g.steps = append(g.steps, "XICb ("+coq+")")
		g.keys = append(g.keys, coq)
		g.sample = append(g.sample, coq)
	}
	switch k := r.intn(12); {
	case k < 1:
		g.es.OnDatastoreNotReady()
		rec("XCbNotReady")
		g.tags["x:not-ready"] = true
	case k < 3:
		a, b, c := 1+r.intn(3), 1+r.intn(2), 1+r.intn(2)
		g.es.OnConfigUpdate(map[string]string{"v": fmt.Sprint(a)}, map[string]string{"v": fmt.Sprint(b)}, map[string]string{"v": fmt.Sprint(c)})
		rec(fmt.Sprintf("XCbConfig %d%%N %d%%N %d%%N", a, b, c))
		g.tags["x:config"] = true
	case k < 5:
		v := r.intn(16)
		g.es.OnEncapUpdate(config.Encapsulation{IPIPEnabled: v&1 != 0, VXLANEnabled: v&2 != 0, VXLANEnabledV6: v&4 != 0, NoEncapNeeded: v&8 != 0})
		rec(fmt.Sprintf("XCbEncap %d%%N", v))
		g.tags["x:encap"] = true
	case k < 6:
		v := r.intn(4)
		if v == 0 {
			g.es.OnGlobalBGPConfigUpdate(nil)
		} else {
			g.es.OnGlobalBGPConfigUpdate(&v3.BGPConfiguration{Spec: v3.BGPConfigurationSpec{
				ServiceClusterIPs: []v3.ServiceClusterIPBlock{{CIDR: ""}, {CIDR: fmt.Sprintf("10.77.%d.0/24", v)}}}})
		}
		rec(fmt.Sprintf("XCbBGP %d%%N", v))
		g.tags["x:bgp"] = true
	case k < 10:
		n, k4, k6, ver := r.intn(3), r.intn(3), r.intn(3), 1+r.intn(200)
		wg := &model.Wireguard{}
		if k4 > 0 {
			wg.PublicKey = fmt.Sprintf("k%d", k4)
		}
		if k6 > 0 {
			wg.PublicKeyV6 = fmt.Sprintf("k%d", k6)
		}
		ip4 := cnet.IP{IP: net.ParseIP(verIP(ver))}
		ip6 := cnet.IP{IP: net.ParseIP(fmt.Sprintf("fd00::%x", ver))}
		wg.InterfaceIPv4Addr, wg.InterfaceIPv6Addr = &ip4, &ip6
		g.es.OnWireguardUpdate(nodeName(n), wg)
		rec(fmt.Sprintf("XCbWgUpdate %d%%N (W %d%%N %d%%N %d%%N)", n, k4, k6, ver))
		g.tags["x:wireguard-update"] = true
		if k4 == 0 || k6 == 0 {
			g.tags["x:wireguard-empty-key"] = true
		}
	default:
		n := r.intn(3)
		g.es.OnWireguardRemove(nodeName(n))
		rec(fmt.Sprintf("XCbWgRemove %d%%N", n))
		g.tags["x:wireguard-remove"] = true
	}
}

func runXSeq(r *rng, n int, enc *json.Encoder) {
	for i := 0; i < n; i++ {
		g := newGen(r)
		g.xmode = true
		g.es = calc.NewEventSequencer(&memConfig{last: map[config.Source]string{config.DatastoreGlobal: "0", config.DatastorePerSelector: "0", config.DatastorePerHost: "0"}})
		g.es.Callback = func(m any) { g.rec = append(g.rec, m) }
		nops := 10 + r.intn(30)
		for j := 0; j < nops; j++ {
			if r.chance(1, 2) {
				g.xop()
			} else {
				g.randomOp()
			}
			if r.chance(1, 5) {
				g.flush()
			}
		}
		g.flush()
		g.nt = g.nt || g.nFlushes > 1
		g.emit(enc, "XSeq")
	}
}
