//go:build verif

// C02 correspondence driver.
//
// mode seq  : the real calc.EventSequencer is driven directly with generated callback histories that
//             satisfy the upstream contract (Spec.v cb_ok / closed at every flush), with flush points
//             after every callback, after batches, or only at the end.  The proto messages handed to
//             EventSequencer.Callback are recorded per flush.
// mode loop : the REAL AsyncCalcGraph select loop (flush throttling by the leaky bucket + in-sync forwarding) around
//             the real sequencer and the real calculation graph, fed by hand over unbuffered channels; see loop.go.
// mode panic: a contract-respecting prefix followed by ONE callback outside the contract; whether the real code
//             reaches log.Panic is compared with the model's None; see loop.go.
// (The whole calculation graph is driven by the C01 harness, which runs this property's oracle on its stream.)
//
// Each case is printed as one JSON line carrying the case as a Coq term of type Spec.case.
package main

import (
	"encoding/json"
	"flag"
	"io"
	"net/netip"
	"fmt"
	"os"
	"sort"
	"strings"

	"github.com/sirupsen/logrus"

	"github.com/projectcalico/calico/felix/calc"
	"github.com/projectcalico/calico/felix/config"
	"github.com/projectcalico/calico/felix/ip"
	"github.com/projectcalico/calico/felix/labelindex/ipsetmember"
	"github.com/projectcalico/calico/felix/proto"
	"github.com/projectcalico/calico/felix/types"
	"github.com/projectcalico/calico/libcalico-go/lib/backend/encap"
	"github.com/projectcalico/calico/libcalico-go/lib/backend/model"
	cnet "github.com/projectcalico/calico/libcalico-go/lib/net"
)

type rng struct{ s uint64 }

func (r *rng) next() uint64 {
	r.s += 0x9e3779b97f4a7c15
	z := r.s
	z = (z ^ (z >> 30)) * 0xbf58476d1ce4e5b9
	z = (z ^ (z >> 27)) * 0x94d049bb133111eb
	return z ^ (z >> 31)
}
func (r *rng) intn(n int) int { return int(r.next() % uint64(n)) }
func (r *rng) chance(num, den int) bool {
	return r.intn(den) < num
}

type line struct {
	Coq    string         `json:"coq"`
	NT     bool           `json:"nt"`
	Key    string         `json:"key"`
	Sample map[string]any `json:"sample,omitempty"`
	Tags   []string       `json:"tags"`
}

// ---------------------------------------------------------------- abstract objects (mirror of Model.v)

const (
	KIPSet = iota
	KPol
	KProf
	KEp
	KVtep
	KRoute
	KHost
	KPool
	KSA
	KNS
	KSvc
)

var kindName = []string{"KIPSet", "KPol", "KProf", "KEp", "KVtep", "KRoute", "KHost", "KPool", "KSA", "KNS", "KSvc"}

type cell struct{ k, id int }

func (c cell) coq() string { return fmt.Sprintf("(%s,%d%%N)", kindName[c.k], c.id) }

type value struct {
	refs []cell
	ver  int
}

func (v value) coq() string {
	rs := make([]string, len(v.refs))
	for i, r := range v.refs {
		rs[i] = r.coq()
	}
	return fmt.Sprintf("(V [%s] %d%%N)", strings.Join(rs, ";"), v.ver)
}

func nlist(xs []int) string {
	ss := make([]string, len(xs))
	for i, x := range xs {
		ss[i] = fmt.Sprintf("%d%%N", x)
	}
	return "[" + strings.Join(ss, ";") + "]"
}

func sortCells(cs []cell) {
	sort.Slice(cs, func(i, j int) bool {
		if cs[i].k != cs[j].k {
			return cs[i].k < cs[j].k
		}
		return cs[i].id < cs[j].id
	})
}

// ---------------------------------------------------------------- callbacks

type cbk struct {
	op   string // ipadd iprem madd mrem upd rem
	id   int
	m    int // member / ipset type
	c    cell
	v    value
	flav int // how the value is spread over the Go struct's fields (not visible to the model)
}

func (c cbk) coq() string {
	switch c.op {
	case "ipadd":
		return fmt.Sprintf("CIPSetAdded %d%%N %d%%N", c.id, c.m)
	case "iprem":
		return fmt.Sprintf("CIPSetRemoved %d%%N", c.id)
	case "madd":
		return fmt.Sprintf("CMemberAdded %d%%N %d%%N", c.id, c.m)
	case "mrem":
		return fmt.Sprintf("CMemberRemoved %d%%N %d%%N", c.id, c.m)
	case "upd":
		return fmt.Sprintf("CUpdate %s %s", c.c.coq(), c.v.coq())
	case "rem":
		return fmt.Sprintf("CRemove %s", c.c.coq())
	}
	panic("bad cb")
}

// names <-> numbers
func setName(id int) string   { return fmt.Sprintf("s%d", id) }
func polName(id int) string   { return fmt.Sprintf("p%d", id) }
func profName(id int) string  { return fmt.Sprintf("f%d", id) }
func nodeName(id int) string  { return fmt.Sprintf("n%d", id) }
func routeDst(id int) string  { return fmt.Sprintf("10.%d.0.0/24", id) }
func memberIP(m int) string   { return fmt.Sprintf("10.200.0.%d", m) }
func verIP(ver int) string    { return fmt.Sprintf("10.99.%d.%d", ver/256, ver%256) }
func verNet(ver int) string   { return verIP(ver) + "/32" }
func num(s, prefix string) int {
	var n int
	if !strings.HasPrefix(s, prefix) {
		panic("unexpected name " + s + " (wanted prefix " + prefix + ")")
	}
	if _, err := fmt.Sscanf(s[len(prefix):], "%d", &n); err != nil {
		panic("unexpected name " + s)
	}
	return n
}
func parseVerIP(s string) int {
	var a, b int
	s = strings.TrimSuffix(s, "/32")
	if _, err := fmt.Sscanf(s, "10.99.%d.%d", &a, &b); err != nil {
		panic("bad version ip " + s)
	}
	return a*256 + b
}

func polKey(id int) model.PolicyKey {
	if id%2 == 0 {
		return model.PolicyKey{Name: polName(id), Kind: "GlobalNetworkPolicy"}
	}
	return model.PolicyKey{Name: polName(id), Namespace: "ns", Kind: "NetworkPolicy"}
}
func profKey(id int) model.ProfileRulesKey {
	return model.ProfileRulesKey{ProfileKey: model.ProfileKey{Name: profName(id)}}
}
func epKey(id int) model.EndpointKey {
	if id%2 == 0 {
		return model.WorkloadEndpointKey{Hostname: "host", OrchestratorID: "k8s", WorkloadID: fmt.Sprintf("w%d", id), EndpointID: "eth0"}
	}
	return model.HostEndpointKey{Hostname: "host", EndpointID: fmt.Sprintf("h%d", id)}
}

// rules carrying the referenced IP set ids (spread over the different match fields) and the version
func parsedRules(v value, flav int) *calc.ParsedRules {
	_, n, _ := cnet.ParseCIDR(verNet(v.ver))
	in := []*calc.ParsedRule{{Action: "allow", SrcNets: []*cnet.IPNet{n}}}
	var out []*calc.ParsedRule
	for i, r := range v.refs {
		pr := &calc.ParsedRule{Action: "allow"}
		name := setName(r.id)
		switch (i + flav) % 8 {
		case 0:
			pr.SrcIPSetIDs = []string{name}
		case 1:
			pr.DstIPSetIDs = []string{name}
		case 2:
			pr.NotSrcIPSetIDs = []string{name}
		case 3:
			pr.NotDstIPSetIDs = []string{name}
		case 4:
			pr.SrcNamedPortIPSetIDs = []string{name}
		case 5:
			pr.DstNamedPortIPSetIDs = []string{name}
		case 6:
			pr.NotSrcNamedPortIPSetIDs = []string{name}
		case 7:
			pr.NotDstNamedPortIPSetIDs = []string{name}
		}
		if (i+flav)%3 == 0 {
			out = append(out, pr)
		} else {
			in = append(in, pr)
		}
	}
	return &calc.ParsedRules{InboundRules: in, OutboundRules: out, Tier: "default"}
}

func rulesToValue(in, out []*proto.Rule) value {
	seen := map[int]bool{}
	ver := -1
	for _, rs := range [][]*proto.Rule{in, out} {
		for _, r := range rs {
			for _, n := range r.SrcNet {
				ver = parseVerIP(n)
			}
			for _, l := range [][]string{r.SrcIpSetIds, r.DstIpSetIds, r.NotSrcIpSetIds, r.NotDstIpSetIds,
				r.SrcNamedPortIpSetIds, r.DstNamedPortIpSetIds, r.NotSrcNamedPortIpSetIds, r.NotDstNamedPortIpSetIds} {
				for _, s := range l {
					seen[num(s, "s")] = true
				}
			}
		}
	}
	var v value
	for id := range seen {
		v.refs = append(v.refs, cell{KIPSet, id})
	}
	sortCells(v.refs)
	v.ver = ver
	return v
}

func tiersToRefs(seen map[cell]bool, tiers []*proto.TierInfo) {
	for _, t := range tiers {
		for _, l := range [][]*proto.PolicyID{t.IngressPolicies, t.EgressPolicies} {
			for _, p := range l {
				seen[cell{KPol, num(p.Name, "p")}] = true
			}
		}
	}
}

func epValue(name string, profileIDs []string, tierLists ...[]*proto.TierInfo) value {
	seen := map[cell]bool{}
	for _, tl := range tierLists {
		tiersToRefs(seen, tl)
	}
	for _, p := range profileIDs {
		seen[cell{KProf, num(p, "f")}] = true
	}
	var v value
	for c := range seen {
		v.refs = append(v.refs, c)
	}
	sortCells(v.refs)
	v.ver = num(name, "v")
	return v
}

// ---------------------------------------------------------------- applying a callback to the real sequencer

func applyCb(es *calc.EventSequencer, c cbk) {
	switch c.op {
	case "ipadd":
		es.OnIPSetAdded(setName(c.id), proto.IPSetUpdate_IPSetType(c.m))
	case "iprem":
		es.OnIPSetRemoved(setName(c.id))
	case "madd":
		es.OnIPSetMemberAdded(setName(c.id), ipsetmember.MakeCIDROrIPOnly(ip.MustParseCIDROrIP(memberIP(c.m))))
	case "mrem":
		es.OnIPSetMemberRemoved(setName(c.id), ipsetmember.MakeCIDROrIPOnly(ip.MustParseCIDROrIP(memberIP(c.m))))
	case "upd":
		applyUpdate(es, c)
	case "rem":
		applyRemove(es, c)
	}
}

func applyUpdate(es *calc.EventSequencer, c cbk) {
	id, v := c.c.id, c.v
	switch c.c.k {
	case KPol:
		es.OnPolicyActive(polKey(id), parsedRules(v, c.flav))
	case KProf:
		es.OnProfileActive(profKey(id), parsedRules(v, c.flav))
	case KEp:
		var pols []calc.PolKV
		var profs []string
		for i, r := range v.refs {
			switch r.k {
			case KPol:
				mode := 0
				if id%2 == 1 { // host endpoints may have untracked / pre-DNAT / forward policies
					mode = (i + c.flav) % 4
				}
				ing := mode == 2 || (i+c.flav)%3 != 1
				pols = append(pols, calc.VerifPolKV(polKey(r.id), "default", mode, ing, !ing || (i+c.flav)%2 == 0))
			case KProf:
				profs = append(profs, profName(r.id))
			}
		}
		var tiers []calc.TierInfo
		if len(pols) > 0 {
			if c.flav%2 == 0 || len(pols) == 1 {
				tiers = []calc.TierInfo{{Name: "default", Valid: true, OrderedPolicies: pols}}
			} else {
				tiers = []calc.TierInfo{{Name: "default", Valid: true, OrderedPolicies: pols[:1]}, {Name: "tier2", Valid: true, OrderedPolicies: pols[1:]}}
			}
		}
		switch k := epKey(id).(type) {
		case model.WorkloadEndpointKey:
			es.OnEndpointTierUpdate(k, &model.WorkloadEndpoint{Name: fmt.Sprintf("v%d", v.ver), State: "active", ProfileIDs: profs}, nil, nil, tiers)
		case model.HostEndpointKey:
			es.OnEndpointTierUpdate(k, &model.HostEndpoint{Name: fmt.Sprintf("v%d", v.ver), ProfileIDs: profs}, nil, nil, tiers)
		}
	case KVtep:
		es.OnVTEPUpdate(&proto.VXLANTunnelEndpointUpdate{Node: nodeName(id), Mac: "00:11:22:33:44:55", Ipv4Addr: verIP(v.ver), ParentDeviceIp: "192.168.0.1"})
	case KRoute:
		ru := &proto.RouteUpdate{Dst: routeDst(id), DstNodeIp: verIP(v.ver)}
		if len(v.refs) > 0 {
			ru.IpPoolType = proto.IPPoolType_VXLAN
			ru.Types = proto.RouteType_REMOTE_WORKLOAD
			ru.DstNodeName = nodeName(v.refs[0].id)
		} else if c.flav%2 == 0 {
			ru.IpPoolType = proto.IPPoolType_NONE
			ru.Types = proto.RouteType_REMOTE_HOST
			ru.DstNodeName = "other"
		} else {
			ru.IpPoolType = proto.IPPoolType_VXLAN
			ru.Types = proto.RouteType_LOCAL_WORKLOAD
			ru.LocalWorkload = true
		}
		es.OnRouteUpdate(ru)
	case KSA:
		es.OnServiceAccountUpdate(&proto.ServiceAccountUpdate{Id: &proto.ServiceAccountID{Name: fmt.Sprintf("a%d", id), Namespace: "ns"}, Labels: map[string]string{"v": fmt.Sprint(v.ver)}})
	case KNS:
		es.OnNamespaceUpdate(&proto.NamespaceUpdate{Id: &proto.NamespaceID{Name: fmt.Sprintf("ns%d", id)}, Labels: map[string]string{"v": fmt.Sprint(v.ver)}})
	case KSvc:
		es.OnServiceUpdate(&proto.ServiceUpdate{Name: fmt.Sprintf("svc%d", id), Namespace: "ns", ClusterIps: []string{verIP(v.ver)}})
	case KHost:
		es.OnHostMetadataUpdate(fmt.Sprintf("m%d", id), calc.VerifHostInfo(verIP(v.ver), map[string]string{"a": "b"}))
	case KPool:
		_, n, _ := cnet.ParseCIDR(fmt.Sprintf("172.%d.0.0/16", id))
		es.OnIPPoolUpdate(model.IPPoolKey{CIDR: netip.MustParsePrefix(fmt.Sprintf("172.%d.0.0/16", id))}, &model.IPPool{CIDR: *n, IPIPMode: encap.Mode(fmt.Sprintf("m%d", v.ver)), Masquerade: v.ver%2 == 0})
	}
}

func applyRemove(es *calc.EventSequencer, c cbk) {
	id := c.c.id
	switch c.c.k {
	case KPol:
		es.OnPolicyInactive(polKey(id))
	case KProf:
		es.OnProfileInactive(profKey(id))
	case KEp:
		es.OnEndpointTierUpdate(epKey(id), nil, nil, nil, nil)
	case KVtep:
		es.OnVTEPRemove(nodeName(id))
	case KRoute:
		es.OnRouteRemove(routeDst(id))
	case KSA:
		es.OnServiceAccountRemove(types.ServiceAccountID{Name: fmt.Sprintf("a%d", id), Namespace: "ns"})
	case KNS:
		es.OnNamespaceRemove(types.NamespaceID{Name: fmt.Sprintf("ns%d", id)})
	case KSvc:
		es.OnServiceRemove(&proto.ServiceRemove{Name: fmt.Sprintf("svc%d", id), Namespace: "ns"})
	case KHost:
		es.OnHostMetadataRemove(fmt.Sprintf("m%d", id))
	case KPool:
		es.OnIPPoolRemove(model.IPPoolKey{CIDR: netip.MustParsePrefix(fmt.Sprintf("172.%d.0.0/16", id))})
	}
}

// ---------------------------------------------------------------- proto message -> model message (Coq text)

func parseMembers(ms []string) []int {
	out := make([]int, 0, len(ms))
	for _, s := range ms {
		s = strings.TrimSuffix(s, "/32")
		out = append(out, num(s, "10.200.0."))
	}
	sort.Ints(out)
	return out
}

type omsg struct {
	coq   string
	kind  string // add / del / delta / insync
	nrefs int
}

// msgToCoq converts one message the implementation emitted; ok=false for message types outside the model.
func msgToCoq(m any) (omsg, bool) {
	upd := func(c cell, v value) (omsg, bool) {
		return omsg{fmt.Sprintf("MUpdate %s %s", c.coq(), v.coq()), "add", len(v.refs)}, true
	}
	rem := func(c cell) (omsg, bool) { return omsg{fmt.Sprintf("MRemove %s", c.coq()), "del", 0}, true }
	switch e := m.(type) {
	case *proto.IPSetUpdate:
		return omsg{fmt.Sprintf("MIPSetUpdate %d%%N %s %d%%N", num(e.Id, "s"), nlist(parseMembers(e.Members)), int(e.Type)), "add", 0}, true
	case *proto.IPSetDeltaUpdate:
		return omsg{fmt.Sprintf("MIPSetDelta %d%%N %s %s", num(e.Id, "s"), nlist(parseMembers(e.AddedMembers)), nlist(parseMembers(e.RemovedMembers))), "delta", 0}, true
	case *proto.IPSetRemove:
		return omsg{fmt.Sprintf("MIPSetRemove %d%%N", num(e.Id, "s")), "del", 0}, true
	case *proto.ActivePolicyUpdate:
		return upd(cell{KPol, num(e.Id.Name, "p")}, rulesToValue(e.Policy.InboundRules, e.Policy.OutboundRules))
	case *proto.ActivePolicyRemove:
		return rem(cell{KPol, num(e.Id.Name, "p")})
	case *proto.ActiveProfileUpdate:
		return upd(cell{KProf, num(e.Id.Name, "f")}, rulesToValue(e.Profile.InboundRules, e.Profile.OutboundRules))
	case *proto.ActiveProfileRemove:
		return rem(cell{KProf, num(e.Id.Name, "f")})
	case *proto.WorkloadEndpointUpdate:
		return upd(cell{KEp, num(e.Id.WorkloadId, "w")}, epValue(e.Endpoint.Name, e.Endpoint.ProfileIds, e.Endpoint.Tiers))
	case *proto.WorkloadEndpointRemove:
		return rem(cell{KEp, num(e.Id.WorkloadId, "w")})
	case *proto.HostEndpointUpdate:
		return upd(cell{KEp, num(e.Id.EndpointId, "h")}, epValue(e.Endpoint.Name, e.Endpoint.ProfileIds, e.Endpoint.Tiers, e.Endpoint.UntrackedTiers, e.Endpoint.PreDnatTiers, e.Endpoint.ForwardTiers))
	case *proto.HostEndpointRemove:
		return rem(cell{KEp, num(e.Id.EndpointId, "h")})
	case *proto.VXLANTunnelEndpointUpdate:
		return upd(cell{KVtep, num(e.Node, "n")}, value{ver: parseVerIP(e.Ipv4Addr)})
	case *proto.VXLANTunnelEndpointRemove:
		return rem(cell{KVtep, num(e.Node, "n")})
	case *proto.RouteUpdate:
		var id int
		if _, err := fmt.Sscanf(e.Dst, "10.%d.0.0/24", &id); err != nil {
			panic("bad route dst " + e.Dst)
		}
		v := value{ver: parseVerIP(e.DstNodeIp)}
		if routeNeedsVTEP(e) {
			v.refs = []cell{{KVtep, num(e.DstNodeName, "n")}}
		}
		return upd(cell{KRoute, id}, v)
	case *proto.RouteRemove:
		var id int
		if _, err := fmt.Sscanf(e.Dst, "10.%d.0.0/24", &id); err != nil {
			panic("bad route dst " + e.Dst)
		}
		return rem(cell{KRoute, id})
	case *proto.ServiceAccountUpdate:
		return upd(cell{KSA, num(e.Id.Name, "a")}, value{ver: num(e.Labels["v"], "")})
	case *proto.ServiceAccountRemove:
		return rem(cell{KSA, num(e.Id.Name, "a")})
	case *proto.NamespaceUpdate:
		return upd(cell{KNS, num(e.Id.Name, "ns")}, value{ver: num(e.Labels["v"], "")})
	case *proto.NamespaceRemove:
		return rem(cell{KNS, num(e.Id.Name, "ns")})
	case *proto.ServiceUpdate:
		return upd(cell{KSvc, num(e.Name, "svc")}, value{ver: parseVerIP(e.ClusterIps[0])})
	case *proto.ServiceRemove:
		return rem(cell{KSvc, num(e.Name, "svc")})
	case *proto.HostMetadataUpdate:
		return upd(cell{KHost, num(e.Hostname, "m")}, value{ver: parseVerIP(e.Ipv4Addr)})
	case *proto.HostMetadataRemove:
		return rem(cell{KHost, num(e.Hostname, "m")})
	case *proto.IPAMPoolUpdate:
		var id int
		if _, err := fmt.Sscanf(e.Id, "172.%d.0.0-16", &id); err != nil {
			panic("bad pool id " + e.Id)
		}
		return upd(cell{KPool, id}, value{ver: num(e.Pool.IpipMode, "m")})
	case *proto.IPAMPoolRemove:
		var id int
		if _, err := fmt.Sscanf(e.Id, "172.%d.0.0-16", &id); err != nil {
			panic("bad pool id " + e.Id)
		}
		return rem(cell{KPool, id})
	case *proto.InSync:
		return omsg{"MInSync", "insync", 0}, true
	}
	return omsg{}, false
}

// A route needs the VTEP of its destination node when it is a remote workload route of a VXLAN pool
// (that is when the VXLAN manager resolves vtepsByNode[DstNodeName], felix/dataplane/linux/vxlan_mgr.go).
func routeNeedsVTEP(e *proto.RouteUpdate) bool {
	return e.IpPoolType == proto.IPPoolType_VXLAN && e.Types&proto.RouteType_REMOTE_WORKLOAD != 0 && e.DstNodeName != ""
}

// ---------------------------------------------------------------- config stub

type dummyConfig struct{}

func (d *dummyConfig) UpdateFrom(map[string]string, config.Source) (bool, error) { return false, nil }
func (d *dummyConfig) RawValues() map[string]string                              { return nil }
func (d *dummyConfig) ToConfigUpdate() *proto.ConfigUpdate                       { return &proto.ConfigUpdate{} }

func main() {
	logrus.SetOutput(io.Discard) // log.Panic still panics; the text is not wanted
	n := flag.Int("n", 100, "cases")
	seed := flag.Uint64("seed", 1, "seed")
	mode := flag.String("mode", "all", "seq | xseq | loop | panic | all")
	flag.Parse()
	enc := json.NewEncoder(os.Stdout)
	r := &rng{s: *seed}
	switch *mode {
	case "seq":
		runSeq(r, *n, enc)
	case "loop":
		runLoop(r, *n, enc)
	case "panic":
		runPanic(r, *n, enc)
	case "xseq":
		runXSeq(r, *n, enc)
	default:
		nl, np, nx := *n*25/100, *n*12/100, *n*18/100
		runSeq(r, *n-nl-np-nx, enc)
		runXSeq(&rng{s: *seed + 3000003}, nx, enc)
		runLoop(&rng{s: *seed + 1000003}, nl, enc)
		runPanic(&rng{s: *seed + 2000003}, np, enc)
	}
}
