//go:build verif

package main

import (
	"encoding/json"
	"fmt"
	"sort"
	"strings"

	"github.com/projectcalico/calico/felix/calc"
)

// universe sizes per kind
var nIDs = map[int]int{KIPSet: 5, KPol: 4, KProf: 3, KEp: 4, KVtep: 3, KRoute: 4, KHost: 2, KPool: 2, KSA: 2, KNS: 2, KSvc: 2}

const nMembers = 6

// world mirrors Spec.v's upstream world (fold of the callbacks)
type world struct {
	sets map[int]map[int]bool
	kv   map[cell]value
}

func newWorld() *world { return &world{sets: map[int]map[int]bool{}, kv: map[cell]value{}} }

func (w *world) clone() *world {
	c := newWorld()
	for k, v := range w.sets {
		m := map[int]bool{}
		for x := range v {
			m[x] = true
		}
		c.sets[k] = m
	}
	for k, v := range w.kv {
		c.kv[k] = v
	}
	return c
}

func (w *world) present(c cell) bool {
	if c.k == KIPSet {
		_, ok := w.sets[c.id]
		return ok
	}
	_, ok := w.kv[c]
	return ok
}

func (w *world) cells() []cell {
	var cs []cell
	for c := range w.kv {
		cs = append(cs, c)
	}
	sortCells(cs)
	return cs
}

func (w *world) setIDs() []int {
	var ids []int
	for id := range w.sets {
		ids = append(ids, id)
	}
	sort.Ints(ids)
	return ids
}

func (w *world) apply(c cbk) {
	switch c.op {
	case "ipadd":
		w.sets[c.id] = map[int]bool{}
	case "iprem":
		delete(w.sets, c.id)
	case "madd":
		w.sets[c.id][c.m] = true
	case "mrem":
		delete(w.sets[c.id], c.m)
	case "upd":
		w.kv[c.c] = c.v
	case "rem":
		delete(w.kv, c.c)
	}
}

type gen struct {
	r        *rng
	w        *world // upstream now
	last     *world // upstream at the last flush (= what the dataplane holds)
	noRetgt  bool   // keep inside the "no VTEP removed under a surviving route" restriction
	steps    []string
	keys     []string
	sample   []string
	es       *calc.EventSequencer
	rec      []any
	tags     map[string]bool
	nt       bool
	hadRefs  bool
	nFlushes int
	xmode    bool     // complete-sequencer mode: steps are xistep, messages xmsg
	batching bool     // loop mode: callbacks are collected into the current LUpdates batch
	batch    []string // Coq text of the callbacks of the current batch
	batchCbs []cbk    // the callbacks themselves (applied later, on the loop goroutine)
}

func (g *gen) randomValue(k int) value {
	var v value
	v.ver = g.r.intn(1000)
	sub := func(kind, num, den int) {
		for id := 0; id < nIDs[kind]; id++ {
			if g.r.chance(num, den) {
				v.refs = append(v.refs, cell{kind, id})
			}
		}
	}
	switch k {
	case KPol, KProf:
		sub(KIPSet, 1, 3)
	case KEp:
		sub(KPol, 1, 3)
		sub(KProf, 1, 3)
	case KRoute:
		if g.r.chance(2, 3) {
			v.refs = []cell{{KVtep, g.r.intn(nIDs[KVtep])}}
		}
	}
	return v
}

func (g *gen) randomKind() int {
	x := g.r.intn(16)
	switch {
	case x < 3:
		return KPol
	case x < 5:
		return KProf
	case x < 8:
		return KEp
	case x < 10:
		return KVtep
	case x < 13:
		return KRoute
	}
	return []int{KHost, KPool, KSA, KNS, KSvc}[g.r.intn(5)]
}

func (g *gen) do(c cbk) {
	c.flav = g.r.intn(8)
	g.w.apply(c)
	if g.batching {
		g.batch = append(g.batch, c.coq())
		g.batchCbs = append(g.batchCbs, c)
	} else {
		applyCb(g.es, c)
		if g.xmode {
			g.steps = append(g.steps, "XICb (XCb ("+c.coq()+"))")
		} else {
			g.steps = append(g.steps, "ICb ("+c.coq()+")")
		}
	}
	g.keys = append(g.keys, c.coq())
	g.sample = append(g.sample, c.coq())
	if c.op == "upd" && len(c.v.refs) > 0 {
		g.hadRefs = true
	}
}

func (g *gen) randomOp() {
	switch k := g.r.intn(20); {
	case k < 3:
		id := g.r.intn(nIDs[KIPSet])
		if _, ok := g.w.sets[id]; ok {
			g.do(cbk{op: "iprem", id: id})
		} else {
			g.do(cbk{op: "ipadd", id: id, m: g.r.intn(3)})
		}
	case k < 7:
		ids := g.w.setIDs()
		if len(ids) == 0 {
			return
		}
		id := ids[g.r.intn(len(ids))]
		m := g.r.intn(nMembers)
		if g.w.sets[id][m] {
			g.do(cbk{op: "mrem", id: id, m: m})
		} else {
			g.do(cbk{op: "madd", id: id, m: m})
		}
	case k < 16:
		kd := g.randomKind()
		g.do(cbk{op: "upd", c: cell{kd, g.r.intn(nIDs[kd])}, v: g.randomValue(kd)})
	default:
		cs := g.w.cells()
		if len(cs) > 0 && g.r.chance(3, 4) {
			g.do(cbk{op: "rem", c: cs[g.r.intn(len(cs))]})
		} else {
			kd := g.randomKind()
			g.do(cbk{op: "rem", c: cell{kd, g.r.intn(nIDs[kd])}})
		}
	}
}

// repair makes the upstream world reference-closed (what the calculation graph guarantees at a flush)
func (g *gen) repair() {
	for {
		fixed := false
		for _, c := range g.w.cells() {
			v := g.w.kv[c]
			for _, r := range v.refs {
				if g.w.present(r) {
					continue
				}
				switch x := g.r.intn(4); {
				case x < 2: // create the referent
					if r.k == KIPSet {
						g.do(cbk{op: "ipadd", id: r.id, m: g.r.intn(3)})
					} else {
						g.do(cbk{op: "upd", c: r, v: g.randomValue(r.k)})
					}
				case x < 3: // drop the dangling references from the referrer
					nv := value{ver: g.r.intn(1000)}
					for _, r2 := range v.refs {
						if g.w.present(r2) {
							nv.refs = append(nv.refs, r2)
						}
					}
					g.do(cbk{op: "upd", c: c, v: nv})
				default: // remove the referrer
					g.do(cbk{op: "rem", c: c})
				}
				fixed = true
				break
			}
			if fixed {
				break
			}
		}
		if fixed {
			continue
		}
		if g.noRetgt {
			// restriction of the main stream: a VTEP that the dataplane still has a route for is not
			// removed unless that route is removed too (see Spec.v no_retarget)
			for _, c := range g.last.cells() {
				if c.k != KRoute {
					continue
				}
				if _, still := g.w.kv[c]; !still {
					continue
				}
				for _, r := range g.last.kv[c].refs {
					if !g.w.present(r) {
						g.do(cbk{op: "upd", c: r, v: g.randomValue(r.k)})
						fixed = true
					}
				}
			}
		}
		if !fixed {
			return
		}
	}
}

func (g *gen) flush() {
	g.repair()
	g.rec = g.rec[:0]
	g.es.Flush()
	var ms []string
	adds, dels := 0, 0
	for _, m := range g.rec {
		om, ok := msgToCoq(m)
		if !ok {
			if xs, xok := xmsgToCoq(m); g.xmode && xok {
				ms = append(ms, xs)
			}
			continue
		}
		if g.xmode {
			om.coq = "XBase (" + om.coq + ")"
		}
		ms = append(ms, om.coq)
		switch om.kind {
		case "add":
			adds++
		case "del":
			dels++
		}
	}
	if adds > 0 && dels > 0 && g.hadRefs {
		g.nt = true
		g.tags["flush:adds+removes"] = true
	}
	if g.xmode {
		g.steps = append(g.steps, "XIFlush ["+strings.Join(ms, "; ")+"]")
	} else {
		g.steps = append(g.steps, "IFlush ["+strings.Join(ms, "; ")+"]")
	}
	g.keys = append(g.keys, "F")
	g.sample = append(g.sample, fmt.Sprintf("Flush -> %d msgs", len(ms)))
	g.last = g.w.clone()
	g.nFlushes++
}

func newGen(r *rng) *gen {
	g := &gen{r: r, w: newWorld(), last: newWorld(), tags: map[string]bool{}, noRetgt: true}
	g.es = calc.NewEventSequencer(&dummyConfig{})
	g.es.Callback = func(m any) { g.rec = append(g.rec, m) }
	return g
}

func (g *gen) emit(enc *json.Encoder, ctor string) {
	var tags []string
	for t := range g.tags {
		tags = append(tags, t)
	}
	sort.Strings(tags)
	smp := g.sample
	if len(smp) > 40 {
		smp = smp[:40]
	}
	if ctor != "XSeq" {
		ctor = "XOld (" + ctor
		defer func() {}()
	}
	term := ctor + " [" + strings.Join(g.steps, "; ") + "]"
	if strings.HasPrefix(ctor, "XOld (") {
		term += ")"
	}
	_ = enc.Encode(line{Coq: term, NT: g.nt, Key: strings.Join(g.keys, ";"),
		Sample: map[string]any{"trace": smp}, Tags: tags})
}

func runSeq(r *rng, n int, enc *json.Encoder) {
	for i := 0; i < n; i++ {
		g := newGen(r)
		func() {
			defer func() {
				if e := recover(); e != nil {
					g.steps = append(g.steps, "IPanic")
					g.tags["impl-panic"] = true
					g.sample = append(g.sample, fmt.Sprintf("PANIC: %v", e))
				}
			}()
			if i%25 == 24 {
				g.retargetScenario()
				return
			}
			nops := 8 + r.intn(40)
			switch mode := r.intn(3); mode {
			case 0:
				g.tags["flush:every-callback"] = true
				for j := 0; j < nops/2; j++ {
					g.randomOp()
					g.flush()
				}
			case 1:
				g.tags["flush:batches"] = true
				for j := 0; j < nops; j++ {
					g.randomOp()
					if r.chance(1, 6) {
						g.flush()
					}
				}
				g.flush()
			default:
				g.tags["flush:end-only"] = true
				for j := 0; j < nops; j++ {
					g.randomOp()
				}
				g.flush()
			}
			if r.chance(1, 2) {
				// teardown of a random part, then a last flush
				for _, c := range g.w.cells() {
					if r.chance(1, 2) {
						g.do(cbk{op: "rem", c: c})
					}
				}
				for _, id := range g.w.setIDs() {
					if r.chance(1, 2) {
						g.do(cbk{op: "iprem", id: id})
					}
				}
				g.flush()
			}
		}()
		g.emit(enc, "CaseSeq")
	}
}

// retargetScenario: a route that the dataplane has is re-pointed to another node's VTEP in the same
// flush interval in which its old VTEP goes away (both the old and the new upstream state are closed).
func (g *gen) retargetScenario() {
	g.noRetgt = false
	g.tags["vtep-retarget"] = true
	a, b := 0, 1+g.r.intn(2)
	rt := cell{KRoute, g.r.intn(nIDs[KRoute])}
	g.do(cbk{op: "upd", c: cell{KVtep, a}, v: value{ver: g.r.intn(1000)}})
	g.do(cbk{op: "upd", c: rt, v: value{refs: []cell{{KVtep, a}}, ver: g.r.intn(1000)}})
	g.flush()
	g.do(cbk{op: "upd", c: cell{KVtep, b}, v: value{ver: g.r.intn(1000)}})
	g.do(cbk{op: "upd", c: rt, v: value{refs: []cell{{KVtep, b}}, ver: g.r.intn(1000)}})
	g.do(cbk{op: "rem", c: cell{KVtep, a}})
	g.flush()
	g.nt = true
}

func sortStrings(xs []string) { sort.Strings(xs) }
