//go:build verif

package main

import "encoding/json"

func runLoop(r *rng, n int, enc *json.Encoder)  {}
func runGraph(r *rng, n int, enc *json.Encoder) {}
