//go:build verif

// Add-only access shims for the C02 correspondence driver (compiled only with -tags verif,
// overlaid at build time; nothing is written into the repository).
package calc

import (
	"time"

	"github.com/projectcalico/calico/felix/config"
	"github.com/projectcalico/calico/libcalico-go/lib/backend/api"
	"github.com/projectcalico/calico/libcalico-go/lib/backend/model"
)

// VerifPolKV builds the PolKV an endpoint's TierInfo carries (policyMetadata is unexported).
// mode: 0 normal, 1 untracked, 2 pre-DNAT, 3 apply-on-forward.
func VerifPolKV(key model.PolicyKey, tier string, mode int, ingress, egress bool) PolKV {
	var f policyMetadataFlags
	switch mode {
	case 1:
		f |= policyMetaDoNotTrack
	case 2:
		f |= policyMetaPreDNAT
	case 3:
		f |= policyMetaApplyOnForward
	}
	if ingress {
		f |= policyMetaIngress
	}
	if egress {
		f |= policyMetaEgress
	}
	return PolKV{Key: key, Value: &policyMetadata{Order: 1, Flags: f, Tier: tier}}
}

func VerifHostInfo(ip4 string, labels map[string]string) *HostInfo {
	return &HostInfo{ip4Addr: ip4, labels: labels}
}

// VerifLoop wraps a real AsyncCalcGraph whose select loop is fed by hand.  The three channels the main select
// receives from are replaced by UNBUFFERED channels handed to the driver; the output channel is the driver's
// (unbuffered) channel.  A send on Input or Ticks can only complete while the loop sits in its main select
// (nothing else receives from them), i.e. after every earlier iteration has delivered all of its output.
// Health is also received inside onEvent (while the loop is blocked on an output send).
//
// The calculation graph gets one extra input: an update whose key is an IPAMHandleKey (a key type the graph does
// not register) carries a closure that is run by the dispatcher ON THE LOOP GOROUTINE, inside
// CalcGraph.OnUpdates - exactly where real graph nodes call the sequencer's On* callbacks.
type VerifLoop struct {
	ACG    *AsyncCalcGraph
	Seq    *EventSequencer
	Input  chan any
	Ticks  chan time.Time
	Health chan time.Time
}

func VerifNewLoop(conf *config.Config, out chan<- any) *VerifLoop {
	acg := NewAsyncCalcGraph(conf, []chan<- any{out}, nil, nil)
	l := &VerifLoop{ACG: acg, Seq: acg.eventSequencer, Input: make(chan any), Ticks: make(chan time.Time), Health: make(chan time.Time)}
	acg.inputEvents = l.Input
	acg.flushTicks = l.Ticks
	acg.healthTicks = l.Health
	acg.CalcGraph.AllUpdDispatcher.Register(model.IPAMHandleKey{}, func(u api.Update) (filterOut bool) {
		u.Value.(func())()
		return false
	})
	go acg.loop()
	return l
}

// VerifCallbacks is the update that makes the loop goroutine run f inside CalcGraph.OnUpdates.
func VerifCallbacks(f func()) []api.Update {
	return []api.Update{{KVPair: model.KVPair{Key: model.IPAMHandleKey{HandleID: "verif"}, Value: f}, UpdateType: api.UpdateTypeKVNew}}
}
