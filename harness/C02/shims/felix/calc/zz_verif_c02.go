//go:build verif

// Add-only access shims for the C02 correspondence driver (compiled only with -tags verif,
// overlaid at build time; nothing is written into the repository).
package calc

import (
	"time"

	"github.com/projectcalico/calico/felix/config"
	"github.com/projectcalico/calico/libcalico-go/lib/backend/model"
)

// VerifPolKV builds the PolKV an endpoint's TierInfo carries (policyMetadata is unexported).
// mode: 0 normal, 1 untracked, 2 pre-DNAT, 3 apply-on-forward.
func VerifPolKV(key model.PolicyKey, tier string, mode int, ingress, egress bool) PolKV {
	var f policyMetadataFlags
	switch mode {
	case 1:
		f |= policyMetaDoNotTrack
	case 2:
		f |= policyMetaPreDNAT
	case 3:
		f |= policyMetaApplyOnForward
	}
	if ingress {
		f |= policyMetaIngress
	}
	if egress {
		f |= policyMetaEgress
	}
	return PolKV{Key: key, Value: &policyMetadata{Order: 1, Flags: f, Tier: tier}}
}

func VerifHostInfo(ip4 string, labels map[string]string) *HostInfo {
	return &HostInfo{ip4Addr: ip4, labels: labels}
}

// VerifLoop wraps a real AsyncCalcGraph whose select loop is fed by hand: the input, flush-tick
// and health-tick channels are unbuffered, so when a send returns the loop has finished every
// earlier iteration (it is back in its select).
type VerifLoop struct {
	ACG    *AsyncCalcGraph
	Seq    *EventSequencer
	ticks  chan time.Time
	health chan time.Time
}

func VerifNewLoop(conf *config.Config, out chan<- any) *VerifLoop {
	acg := NewAsyncCalcGraph(conf, []chan<- any{out}, nil, nil)
	acg.inputEvents = make(chan any)
	l := &VerifLoop{ACG: acg, Seq: acg.eventSequencer, ticks: make(chan time.Time), health: make(chan time.Time)}
	acg.flushTicks = l.ticks
	acg.healthTicks = l.health
	go acg.loop()
	return l
}

func (l *VerifLoop) SendTick()   { l.ticks <- time.Time{} }
func (l *VerifLoop) SendHealth() { l.health <- time.Time{} }
