//go:build verif

// C06 correspondence driver: feeds generated selector expressions (grammar-directed, with formatting
// noise, plus a mutated/malformed stream) to the real parser.Parse / parser.Validate and observes
// Selector.String / UniqueID / Evaluate, then re-parses the canonical text and observes again.
// One JSON line per case carrying the case as a Coq term of type Verif.C06.Spec.case.
package main

import (
	"encoding/hex"
	"encoding/json"
	"flag"
	"fmt"
	"os"
	"sort"
	"strings"

	"github.com/projectcalico/calico/libcalico-go/lib/hash"
	"github.com/projectcalico/calico/libcalico-go/lib/selector/parser"
)

type rng struct{ s uint64 }

func (r *rng) next() uint64 {
	r.s += 0x9e3779b97f4a7c15
	z := r.s
	z = (z ^ (z >> 30)) * 0xbf58476d1ce4e5b9
	z = (z ^ (z >> 27)) * 0x94d049bb133111eb
	return z ^ (z >> 31)
}
func (r *rng) intn(n int) int          { return int(r.next() % uint64(n)) }
func (r *rng) chance(p int) bool       { return r.intn(100) < p }
func (r *rng) pick(xs []string) string { return xs[r.intn(len(xs))] }

type line struct {
	Coq    string         `json:"coq"`
	NT     bool           `json:"nt"`
	Key    string         `json:"key"`
	Sample map[string]any `json:"sample,omitempty"`
	Tags   []string       `json:"tags"`
}

var labelPool = []string{"a", "b", "c", "app", "role", "tier", "has", "in", "not", "contains", "all", "global",
	"starts", "ends", "with", "notin", "k8s.io/name", "x-y_z.1/2", "0", "projectcalico.org/namespace", "A.B", "-", "_"}

var valuePool = []string{"", "b", "x", "prod", "web", "front-end", "x y", "it's", `say "hi"`, "a,b", "}", "{", "&&", "||",
	"has(a)", "!", "==", "caf\xc3\xa9", "\xff\xfe", "\xe2\x98\x83", "tab\there", " lead", "trail ", "(", ")", "in", "B", "bb", "prod-1"}

type gen struct {
	r      *rng
	tags   map[string]bool
	used   map[string][]string // label -> values mentioned
	labels []string
	maxD   int
}

func (g *gen) tag(t string) { g.tags[t] = true }

// optional whitespace noise
func (g *gen) ws() string {
	switch g.r.intn(10) {
	case 0:
		g.tag("ws:noise")
		return "  "
	case 1:
		g.tag("ws:noise")
		return "\t"
	case 2:
		g.tag("ws:noise")
		return " \t "
	case 3, 4, 5:
		return " "
	default:
		return ""
	}
}

// at least one blank
func (g *gen) sp() string {
	switch g.r.intn(8) {
	case 0:
		g.tag("ws:noise")
		return "  "
	case 1:
		g.tag("ws:noise")
		return "\t"
	default:
		return " "
	}
}

func (g *gen) label() string {
	var l string
	switch g.r.intn(40) {
	case 0:
		l = strings.Repeat("l", 512)
		g.tag("label:len512")
	case 1:
		l = strings.Repeat("m", 513)
		g.tag("label:len513")
	default:
		l = g.r.pick(labelPool)
	}
	switch l {
	case "has", "in", "not", "contains", "all", "global", "starts", "ends", "with", "notin":
		g.tag("label:keyword")
	}
	if _, ok := g.used[l]; !ok {
		g.used[l] = nil
		g.labels = append(g.labels, l)
	}
	return l
}

func (g *gen) value(l string) string {
	v := g.r.pick(valuePool)
	if g.r.chance(10) {
		v = v + g.r.pick(valuePool)
	}
	hasD, hasS := strings.Contains(v, `"`), strings.Contains(v, `'`)
	if hasD && hasS {
		v = strings.ReplaceAll(v, `'`, "")
		hasS = false
	}
	for _, c := range []byte(v) {
		if c >= 0x80 {
			g.tag("value:non-ascii")
			break
		}
	}
	g.used[l] = append(g.used[l], v)
	q := `"`
	if hasD {
		q = `'`
		g.tag("quote:single-forced")
	} else if hasS {
		g.tag("quote:double-forced")
	} else if g.r.chance(50) {
		q = `'`
		g.tag("quote:single")
	} else {
		g.tag("quote:double")
	}
	return q + v + q
}

func (g *gen) orExpr(d int) string {
	s := g.andExpr(d)
	for g.r.chance(25) {
		g.tag("op:or")
		s += g.ws() + "||" + g.ws() + g.andExpr(d)
	}
	return s
}

func (g *gen) andExpr(d int) string {
	s := g.op(d)
	for g.r.chance(30) {
		g.tag("op:and")
		s += g.ws() + "&&" + g.ws() + g.op(d)
	}
	return s
}

func (g *gen) op(d int) string {
	s := ""
	for g.r.chance(18) {
		g.tag("op:not")
		s += "!" + g.ws()
	}
	k := g.r.intn(100)
	switch {
	case k < 22 && d < g.maxD:
		g.tag("op:paren")
		if d+1 > 3 {
			g.tag("depth>3")
		}
		return s + "(" + g.ws() + g.orExpr(d+1) + g.ws() + ")"
	case k < 30:
		g.tag("op:has")
		return s + "has(" + g.ws() + g.label() + g.ws() + ")"
	case k < 33:
		g.tag("op:all")
		return s + "all(" + g.ws() + ")"
	case k < 36:
		g.tag("op:global")
		return s + "global(" + g.ws() + ")"
	}
	l := g.label()
	switch g.r.intn(12) {
	case 0, 1, 2:
		g.tag("op:==")
		return s + l + g.ws() + "==" + g.ws() + g.value(l)
	case 3, 4:
		g.tag("op:!=")
		return s + l + g.ws() + "!=" + g.ws() + g.value(l)
	case 5:
		g.tag("op:contains")
		return s + l + g.sp() + "contains" + g.ws() + g.value(l)
	case 6:
		g.tag("op:starts-with")
		return s + l + g.sp() + "starts" + g.ws() + "with" + g.ws() + g.value(l)
	case 7:
		g.tag("op:ends-with")
		return s + l + g.sp() + "ends" + g.ws() + "with" + g.ws() + g.value(l)
	case 8, 9:
		g.tag("op:in")
		return s + l + g.sp() + "in" + g.ws() + g.set(l)
	default:
		g.tag("op:not-in")
		return s + l + g.sp() + "not" + g.ws() + "in" + g.ws() + g.set(l)
	}
}

func (g *gen) set(l string) string {
	n := g.r.intn(5)
	if n == 0 {
		g.tag("set:empty")
	}
	s := "{" + g.ws()
	for i := 0; i < n; i++ {
		if i > 0 {
			s += g.ws() + "," + g.ws()
		}
		if i > 0 && g.r.chance(25) && len(g.used[l]) > 0 {
			// duplicate element
			g.tag("set:dup")
			v := g.used[l][g.r.intn(len(g.used[l]))]
			q := `"`
			if strings.Contains(v, `"`) {
				q = `'`
			}
			s += q + v + q
		} else {
			s += g.value(l)
		}
	}
	if n > 0 && g.r.chance(15) {
		g.tag("set:trailing-comma")
		s += g.ws() + ","
	}
	return s + g.ws() + "}"
}

var soupPool = []string{"(", ")", "{", "}", ",", "==", "!=", "!", "&&", "||", "in", "not in", "notin", "contains", "starts with",
	"ends with", "has(", "has(a)", "all()", "global()", "a", "b", "has", "in", "'x'", "\"y\"", "''", "'", "\"", "=", "&", "|", "#", "a.b/c-d_e"}

func soup(r *rng) string {
	n := 1 + r.intn(9)
	var sb strings.Builder
	for i := 0; i < n; i++ {
		sb.WriteString(r.pick(soupPool))
		switch r.intn(4) {
		case 0:
		case 1:
			sb.WriteString("\t")
		default:
			sb.WriteString(" ")
		}
	}
	return sb.String()
}

const mutAlphabet = "()'\"{},=!&| \tabhsinotcwl\n#\x00\xc3~<>"

func mutate(r *rng, s string) string {
	b := []byte(s)
	n := 1 + r.intn(3)
	for i := 0; i < n; i++ {
		switch r.intn(6) {
		case 0: // delete
			if len(b) > 0 {
				p := r.intn(len(b))
				b = append(b[:p:p], b[p+1:]...)
			}
		case 1: // insert
			p := r.intn(len(b) + 1)
			c := mutAlphabet[r.intn(len(mutAlphabet))]
			b = append(b[:p:p], append([]byte{c}, b[p:]...)...)
		case 2: // replace
			if len(b) > 0 {
				b[r.intn(len(b))] = mutAlphabet[r.intn(len(mutAlphabet))]
			}
		case 3: // truncate
			if len(b) > 0 {
				b = b[:r.intn(len(b))]
			}
		case 4: // duplicate a slice
			if len(b) > 1 {
				p := r.intn(len(b))
				q := p + r.intn(len(b)-p)
				b = append(b[:q:q], append(append([]byte{}, b[p:q]...), b[q:]...)...)
			}
		default: // swap
			if len(b) > 1 {
				p := r.intn(len(b) - 1)
				b[p], b[p+1] = b[p+1], b[p]
			}
		}
	}
	return string(b)
}

func coqBytes(s string) string {
	if len(s) == 0 {
		return "(@nil N)"
	}
	var sb strings.Builder
	sb.WriteString("[")
	for i := 0; i < len(s); i++ {
		if i > 0 {
			sb.WriteString(";")
		}
		fmt.Fprintf(&sb, "%d", s[i])
	}
	sb.WriteString("]%N")
	return sb.String()
}

func coqBool(b bool) string {
	if b {
		return "true"
	}
	return "false"
}

func coqBools(bs []bool) string {
	if len(bs) == 0 {
		return "(@nil bool)"
	}
	xs := make([]string, len(bs))
	for i, b := range bs {
		xs[i] = coqBool(b)
	}
	return "[" + strings.Join(xs, ";") + "]"
}

func coqMaps(ms []map[string]string) string {
	out := make([]string, len(ms))
	for i, m := range ms {
		if len(m) == 0 {
			out[i] = "(@nil (list N * list N))"
			continue
		}
		keys := make([]string, 0, len(m))
		for k := range m {
			keys = append(keys, k)
		}
		sort.Strings(keys)
		es := make([]string, len(keys))
		for j, k := range keys {
			es[j] = "(" + coqBytes(k) + ", " + coqBytes(m[k]) + ")"
		}
		out[i] = "[" + strings.Join(es, "; ") + "]"
	}
	return "[" + strings.Join(out, "; ") + "]"
}

type obs struct {
	accept bool
	panic  string
	text   string
	uid    string
	evals  []bool
	dneg   bool
}

func hasNotNot(n parser.Node) bool {
	switch x := n.(type) {
	case *parser.NotNode:
		if _, ok := x.Operand.(*parser.NotNode); ok {
			return true
		}
		return hasNotNot(x.Operand)
	case *parser.AndNode:
		for _, o := range x.Operands {
			if hasNotNot(o) {
				return true
			}
		}
	case *parser.OrNode:
		for _, o := range x.Operands {
			if hasNotNot(o) {
				return true
			}
		}
	}
	return false
}

// collapseBangs mirrors what parseOperation does to the canonical text: outside quoted strings every maximal
// run of k >= 2 "!" becomes k mod 2 of them.  Used only to recognise the exact shape of the known finding.
func collapseBangs(t string) string {
	var out []byte
	var quote byte
	for i := 0; i < len(t); {
		c := t[i]
		if quote != 0 {
			out = append(out, c)
			if c == quote {
				quote = 0
			}
			i++
			continue
		}
		if c == '"' || c == '\'' {
			quote = c
			out = append(out, c)
			i++
			continue
		}
		if c == '!' {
			j := i
			for j < len(t) && t[j] == '!' {
				j++
			}
			k := j - i
			if j < len(t) && t[j] == '=' { // the "!=" operator keeps its own "!"
				k--
				if k%2 == 1 {
					out = append(out, '!')
				}
				out = append(out, '!')
			} else if k%2 == 1 {
				out = append(out, '!')
			}
			i = j
			continue
		}
		out = append(out, c)
		i++
	}
	return string(out)
}

func sameBools(a, b []bool) bool {
	if len(a) != len(b) {
		return false
	}
	for i := range a {
		if a[i] != b[i] {
			return false
		}
	}
	return true
}

func observe(s string, maps []map[string]string) (o obs) {
	defer func() {
		if e := recover(); e != nil {
			o = obs{panic: fmt.Sprint(e)}
		}
	}()
	sel, err := parser.Parse(s)
	if err != nil {
		return obs{}
	}
	o.accept = true
	o.text = sel.String()
	o.uid = sel.UniqueID()
	o.dneg = hasNotNot(sel.Root())
	for _, m := range maps {
		o.evals = append(o.evals, sel.Evaluate(m))
	}
	return
}

func validate(s string) (ok bool, pan string) {
	defer func() {
		if e := recover(); e != nil {
			ok, pan = false, fmt.Sprint(e)
		}
	}()
	return parser.Validate(s) == nil, ""
}

func (g *gen) maps() []map[string]string {
	ms := make([]map[string]string, 8)
	for i := range ms {
		m := map[string]string{}
		for _, l := range g.labels {
			if len(l) > 100 || !g.r.chance(65) {
				continue
			}
			vs := g.used[l]
			var v string
			switch {
			case len(vs) > 0 && g.r.chance(60):
				v = vs[g.r.intn(len(vs))]
			case len(vs) > 0 && g.r.chance(50):
				v = vs[g.r.intn(len(vs))]
				switch g.r.intn(3) {
				case 0:
					v = v + g.r.pick(valuePool)
				case 1:
					v = g.r.pick(valuePool) + v
				default:
					v = g.r.pick(valuePool) + v + g.r.pick(valuePool)
				}
			default:
				v = g.r.pick(valuePool)
			}
			m[l] = v
		}
		if g.r.chance(20) {
			m[g.r.pick(labelPool)] = g.r.pick(valuePool)
		}
		ms[i] = m
	}
	return ms
}

// parenDepth: maximal nesting of "(" outside quoted strings (has( / all( / global( count too, harmlessly)
func parenDepth(t string) int {
	var quote byte
	d, m := 0, 0
	for i := 0; i < len(t); i++ {
		c := t[i]
		switch {
		case quote != 0:
			if c == quote {
				quote = 0
			}
		case c == '"' || c == '\'':
			quote = c
		case c == '(':
			d++
			if d > m {
				m = d
			}
		case c == ')':
			d--
		}
	}
	return m
}

// ---- deep-nesting / long-input boundary stream ---------------------------------------------------------
// Tiny atoms keep the text small; the shapes are chosen so that String() has to ADD parentheses (every
// &&/|| group is printed in its own pair), i.e. the canonical text nests deeper than the input.

type bcase struct {
	text string
	tag  string
}

var tinyAtoms = []string{"has(a)", "has(b)", "a==''", "b!='x'", "all()", "!has(a)", "a in{'x'}"}

func rep(s string, n int) string { return strings.Repeat(s, n) }

func boundaryCases(xl bool) []bcase {
	var out []bcase
	add := func(tag, text string) {
		if xl || len(text) <= 1300 { // the quick tier leaves out the few multi-kilobyte texts (slow to elaborate in Coq)
			out = append(out, bcase{text, tag})
		}
	}
	// A: right-nested && around an || core: input depth D, canonical depth D+1
	for _, d := range []int{15, 16, 17, 30, 31, 32, 33, 34, 40, 63, 64, 65, 66, 100, 200} {
		add(fmt.Sprintf("deep:and-nest:%d", d), rep("has(a)&&(", d)+"has(a)||has(b)"+rep(")", d))
	}
	// B: mixed precedence, "x||y&&(...)": the canonical text has two pairs of parentheses per input level
	for _, d := range []int{8, 15, 16, 17, 20, 31, 32, 33, 50, 100} {
		add(fmt.Sprintf("deep:mixed-nest:%d", d), rep("has(a)||has(b)&&(", d)+"has(a)&&has(b)||a==''"+rep(")", d))
	}
	// B': left-nested "(...)&&x"
	for _, d := range []int{16, 31, 32, 33, 65} {
		add(fmt.Sprintf("deep:left-nest:%d", d), rep("(", d)+"has(a)||has(b)"+rep(")&&has(b)", d))
	}
	// C: redundant parentheses only: canonical depth 0
	for _, d := range []int{15, 31, 32, 33, 40, 64, 100, 200} {
		add(fmt.Sprintf("deep:parens-only:%d", d), rep("(", d)+"has(a)"+rep(")", d))
	}
	// D: nested negations through parentheses, and long runs of "!"
	for _, d := range []int{5, 16, 31, 32, 33, 66, 100} {
		add(fmt.Sprintf("deep:not-nest:%d", d), rep("!(", d)+"has(a)"+rep(")", d))
	}
	for _, k := range []int{2, 3, 31, 32, 33, 64, 65, 255, 256} {
		add(fmt.Sprintf("long:bangs:%d", k), rep("!", k)+"has(a)")
		add(fmt.Sprintf("long:bangs-spaced:%d", k), rep("! ", k)+"(has(a)&&has(b))")
	}
	// E: long chains (no nesting in the input; one pair of parentheses per group in the canonical text)
	for _, n := range []int{50, 128, 300} {
		add(fmt.Sprintf("long:and-chain:%d", n), "has(a)"+rep("&&has(b)", n-1))
		add(fmt.Sprintf("long:or-chain:%d", n), "has(a)"+rep("||has(b)", n-1))
		add(fmt.Sprintf("long:mixed-chain:%d", n), "has(a)"+rep("&&has(b)||has(a)", n/2))
	}
	// F: labels and values around the 512-byte label limit; large sets
	for _, n := range []int{511, 512, 513, 1024} {
		l := rep("k", n)
		add(fmt.Sprintf("long:label-has:%d", n), "has("+l+")")
		add(fmt.Sprintf("long:label-eq:%d", n), l+"=='v'&&(has(a)||has(b))")
		add(fmt.Sprintf("long:value:%d", n), "a=='"+rep("v", n)+"'||b contains \""+rep("w", n)+"\"")
	}
	var set []string
	for i := 0; i < 120; i++ {
		set = append(set, fmt.Sprintf("'%c%d'", 'a'+byte(i%3), (i*37)%50))
	}
	add("long:set:120", "a in {"+strings.Join(set, ",")+"}&&b not in{"+strings.Join(set[:60], " , ")+",}")
	return out
}

// random deep expression: D levels, each wrapping the inner expression with one of several templates
func deepRandom(r *rng) (string, int) {
	depths := []int{15, 16, 17, 20, 24, 28, 30, 31, 32, 33, 34, 36, 40}
	d := depths[r.intn(len(depths))]
	s := r.pick(tinyAtoms) + []string{"||", "&&"}[r.intn(2)] + r.pick(tinyAtoms)
	for i := 0; i < d; i++ {
		a, b := r.pick(tinyAtoms), r.pick(tinyAtoms)
		switch r.intn(8) {
		case 0:
			s = a + "&&(" + s + ")"
		case 1:
			s = a + "||(" + s + ")"
		case 2:
			s = "(" + s + ")&&" + a
		case 3:
			s = "(" + s + ")||" + a
		case 4:
			s = a + "||" + b + "&&(" + s + ")"
		case 5:
			s = "(" + s + ")&&" + a + "||" + b
		case 6:
			s = "!(" + s + ")"
		default:
			s = a + " && ( " + s + " ) || " + b
		}
	}
	return s, d
}

// ---- AcceptVisitor(PrefixVisitor) stream ------------------------------------------------------------------

type labelCollector struct{ max int }

func (c *labelCollector) Visit(n any) {
	var l string
	switch x := n.(type) {
	case *parser.LabelEqValueNode:
		l = x.LabelName.Value()
	case *parser.LabelNeValueNode:
		l = x.LabelName.Value()
	case *parser.LabelContainsValueNode:
		l = x.LabelName.Value()
	case *parser.LabelStartsWithValueNode:
		l = x.LabelName.Value()
	case *parser.LabelEndsWithValueNode:
		l = x.LabelName.Value()
	case *parser.LabelInSetNode:
		l = x.LabelName.Value()
	case *parser.LabelNotInSetNode:
		l = x.LabelName.Value()
	case *parser.HasNode:
		l = x.LabelName.Value()
	}
	if len(l) > c.max {
		c.max = len(l)
	}
}

type pobs struct {
	ok       bool
	panic    string
	text     string
	uid      string
	evals    []bool
	maxLabel int
}

// parse, visit with the real PrefixVisitor, observe
func observePrefixed(s, prefix string, maps []map[string]string) (o pobs) {
	defer func() {
		if e := recover(); e != nil {
			o = pobs{panic: fmt.Sprint(e)}
		}
	}()
	sel, err := parser.Parse(s)
	if err != nil {
		return pobs{}
	}
	lc := &labelCollector{}
	sel.AcceptVisitor(lc) // (also recomputes String/UniqueID, harmlessly)
	sel.AcceptVisitor(parser.PrefixVisitor{Prefix: prefix})
	o.ok = true
	o.maxLabel = lc.max
	o.text = sel.String()
	o.uid = sel.UniqueID()
	for _, m := range maps {
		o.evals = append(o.evals, sel.Evaluate(m))
	}
	return
}

var prefixPool = []string{"pcns.", "pcns.", "pcsa.", "", "x-", "projectcalico.org/"}

func prefixMaps(r *rng, maps []map[string]string, prefix string) []map[string]string {
	out := make([]map[string]string, len(maps))
	for i, m := range maps {
		keys := make([]string, 0, len(m))
		for k := range m {
			keys = append(keys, k)
		}
		sort.Strings(keys)
		pm := map[string]string{}
		for _, k := range keys {
			switch r.intn(10) {
			case 0, 1: // left without the prefix: must be invisible to the prefixed selector
				pm[k] = m[k]
			case 2: // both, with different values
				pm[k] = m[k] + "?"
				pm[prefix+k] = m[k]
			default:
				pm[prefix+k] = m[k]
			}
		}
		out[i] = pm
	}
	return out
}

func main() {
	n := flag.Int("n", 100, "cases")
	seed := flag.Uint64("seed", 1, "seed")
	xl := flag.Bool("xl", false, "include the extra-large boundary cases (thorough tier)")
	hexIn := flag.String("hex", "", "replay: run exactly this input (hex of its bytes) instead of generating")
	flag.Parse()
	r := &rng{s: *seed}
	enc := json.NewEncoder(os.Stdout)

	// Which printer variant does this tree have?  (Model.to_string's `pn`.)
	pn := false
	if p := observe("!(!has(a))", nil); p.accept && p.text == "!(!has(a))" {
		pn = true
	}

	fixed := []string{"", " ", "\t \t", "all()", "global()", "!(!has(a))", "!(!(!has(a)))", "! ( !a=='b' )", "a in {}", "a not in {'x',}",
		"a notin{\"x\"}", "a startswith'x'", "a endswith \"x\"", "a starts with", "a not in x", "in in {'in'}", "has(has)", "has == 'has'",
		"not not in {'not'}", "contains contains 'contains'", "all == 'x' || global != 'y'", "(a == 'b')", "((a == 'b'))", "a == 'b' && c == 'd' || e == 'f'",
		"a == 'b' || c == 'd' && e == 'f'", "!a == 'b' && !has(c)", "a == \"it's\"", "a == 'say \"hi\"'", "a in {'b', \"b\", 'a'}", "a == 'b' )", "( a == 'b'",
		"a = 'b'", "a & b", "has(a", "has()", "all(x)", "a == b", "a == 'b", "!", "a !  = 'b'", "a\n== 'b'", "!!!has(a)", "a in {'x' 'y'}", "a in {,}",
		"!(!(a == 'b' && !(!has(c))))"}

	boundary := boundaryCases(*xl)
	if *hexIn != "" || len(os.Args) > 1 && os.Args[1] == "-hex" {
		boundary = nil
		raw, err := hex.DecodeString(*hexIn)
		if err != nil {
			fmt.Fprintln(os.Stderr, "bad -hex:", err)
			os.Exit(2)
		}
		fixed = []string{string(raw)}
		*n = 1
	}

	for i := 0; i < *n; i++ {
		g := &gen{r: r, tags: map[string]bool{}, used: map[string][]string{}, maxD: 6}
		var input string
		stream := "valid"
		if i < len(fixed) {
			input = fixed[i]
			stream = "fixed"
			g.label()
			g.used["a"] = []string{"b", "x", "it's"}
			g.used["c"] = []string{"d"}
			g.labels = append(g.labels, "a", "c", "e", "has", "in", "not", "contains", "all", "global")
		} else if j := i - len(fixed); j%4 == 0 && j/4 < len(boundary) {
			// boundary cases are spread out (every 4th case) so that no single Coq shard gets all the long texts
			bc := boundary[j/4]
			input = bc.text
			stream = "boundary"
			g.tag(bc.tag)
			g.tag(bc.tag[:strings.LastIndex(bc.tag, ":")])
			g.used["a"] = []string{"", "x", "a0", "vv"}
			g.used["b"] = []string{"x", "ww", "b7"}
			g.labels = append(g.labels, "a", "b")
		} else if r.chance(8) {
			var d int
			input, d = deepRandom(r)
			stream = "deep-random"
			g.tag(fmt.Sprintf("deep:random:%d", d))
			g.used["a"] = []string{"", "x"}
			g.used["b"] = []string{"x", "y"}
			g.labels = append(g.labels, "a", "b")
		} else {
			input = g.orExpr(0)
			for len(input) > 400 {
				g = &gen{r: r, tags: map[string]bool{}, used: map[string][]string{}, maxD: 3}
				input = g.orExpr(0)
			}
			if r.chance(25) {
				stream = "mutated"
				input = mutate(r, input)
			} else if r.chance(12) {
				stream = "soup"
				input = soup(r)
			}
		}
		maps := g.maps()
		o := observe(input, maps)
		vok, vpan := validate(input)
		var re obs
		if o.accept {
			re = observe(o.text, maps)
		}
		uidOK := o.accept && o.uid == hash.MakeUniqueID("s", o.text)
		// long byte lists are slow to elaborate in Coq: write each distinct text once and share it with `let`
		textTerm, reTerm := coqBytes(o.text), coqBytes(re.text)
		lets := ""
		if len(o.text) > 16 {
			lets = "let t := " + textTerm + " in "
			textTerm = "t"
			if re.text == o.text {
				reTerm = "t"
			}
		}
		inTerm := coqBytes(input)
		if len(input) > 16 && input == o.text {
			inTerm = "t"
		}
		coq := fmt.Sprintf("(@inl case pcase (%s{| c_pn := %s; c_input := %s; c_maps := %s; c_accept := %s; c_validate := %s; c_text := %s; c_evals := %s; "+
			"c_uid_ok := %s; c_re_accept := %s; c_re_text := %s; c_re_evals := %s; c_re_uid_same := %s |}))", lets,
			coqBool(pn), inTerm, coqMaps(maps), coqBool(o.accept), coqBool(vok), textTerm, coqBools(o.evals),
			coqBool(uidOK), coqBool(re.accept), reTerm, coqBools(re.evals), coqBool(o.accept && re.accept && re.uid == o.uid))

		tags := []string{"stream:" + stream}
		for t := range g.tags {
			if stream != "fixed" {
				tags = append(tags, t)
			}
		}
		if o.accept {
			tags = append(tags, "accepted")
		} else {
			tags = append(tags, "rejected")
		}
		if o.panic != "" || vpan != "" || re.panic != "" {
			tags = append(tags, "panic")
		}
		if o.dneg {
			tags = append(tags, "not-under-not")
			// exactly the known finding: still accepted, same meaning, UID is the hash of the text, and the
			// re-parsed text is the text with its "!" runs collapsed
			if re.accept && vok && uidOK && sameBools(o.evals, re.evals) && re.text == collapseBangs(o.text) && re.text != o.text {
				tags = append(tags, "not-under-not:known-shape")
			}
		}
		if di, dc := parenDepth(input), parenDepth(o.text); dc > di && dc >= 16 {
			tags = append(tags, "canonical-deeper-than-input(>=16)")
		}
		if o.accept && !re.accept {
			tags = append(tags, "canonical-text-rejected")
		}
		mixed := false
		for _, e := range o.evals {
			if e != o.evals[0] {
				mixed = true
			}
		}
		if mixed {
			tags = append(tags, "evals:mixed")
		}
		if o.accept && o.text != input {
			tags = append(tags, "reformatted")
		}
		sort.Strings(tags)
		_ = enc.Encode(line{Coq: coq, NT: o.accept && mixed && o.text != input, Key: input,
			Sample: map[string]any{"input": input, "input_hex": hex.EncodeToString([]byte(input)), "accepted": o.accept, "validate_ok": vok, "canonical": o.text, "evals": o.evals,
				"reparsed_canonical": re.text, "uid": o.uid, "reparsed_uid": re.uid, "panic": o.panic + vpan + re.panic},
			Tags: tags})

		// ---- the same selector after AcceptVisitor(PrefixVisitor{prefix}) ----
		isLabelBoundary := strings.Contains(strings.Join(tags, " "), "long:label")
		if o.accept && len(input) < 1500 && (stream == "fixed" || isLabelBoundary || r.chance(22)) {
			prefixes := []string{r.pick(prefixPool)}
			if isLabelBoundary {
				prefixes = []string{"pcns."}
			}
			if *hexIn != "" {
				prefixes = []string{"pcns.", "pcsa.", "", "x-"}
			}
			for _, prefix := range prefixes {
				pmaps := prefixMaps(r, maps, prefix)
				po := observePrefixed(input, prefix, pmaps)
				var pre obs
				if po.ok {
					pre = observe(po.text, pmaps)
				}
				puidOK := po.ok && po.uid == hash.MakeUniqueID("s", po.text)
				pReTerm := coqBytes(pre.text)
				if pre.text == po.text && len(po.text) > 16 {
					pReTerm = "t"
				}
				pcoq := fmt.Sprintf("(@inr case pcase (let t := %s in {| p_pn := %s; p_input := %s; p_prefix := %s; p_maps := %s; p_text := t; p_evals := %s; "+
					"p_uid_ok := %s; p_re_accept := %s; p_re_text := %s; p_re_evals := %s; p_re_uid_same := %s |}))",
					coqBytes(po.text), coqBool(pn), coqBytes(input), coqBytes(prefix), coqMaps(pmaps), coqBools(po.evals),
					coqBool(puidOK), coqBool(pre.accept), pReTerm, coqBools(pre.evals), coqBool(po.ok && pre.accept && pre.uid == po.uid))
				ptags := []string{"stream:prefix-visitor", "prefix:" + prefix}
				if po.maxLabel+len(prefix) > 512 {
					ptags = append(ptags, "prefix:name-exceeds-512")
					// exactly the known finding: the only thing wrong is that the prefixed name is too long to be re-read
					if po.ok && puidOK && !pre.accept && po.maxLabel <= 512 {
						ptags = append(ptags, "prefix:name-exceeds-512:known-shape")
					}
				}
				if po.ok && !pre.accept {
					ptags = append(ptags, "prefixed-text-rejected")
				}
				if po.panic != "" || pre.panic != "" {
					ptags = append(ptags, "panic")
				}
				pmixed := false
				for _, e := range po.evals {
					if e != po.evals[0] {
						pmixed = true
					}
				}
				if pmixed {
					ptags = append(ptags, "prefix:evals-mixed")
				}
				sort.Strings(ptags)
				_ = enc.Encode(line{Coq: pcoq, NT: po.ok && pmixed, Key: "prefix|" + prefix + "|" + input,
					Sample: map[string]any{"input": input, "input_hex": hex.EncodeToString([]byte(input)), "prefix": prefix, "prefixed_canonical": po.text,
						"evals": po.evals, "reparse_accepted": pre.accept, "reparsed_canonical": pre.text, "uid": po.uid, "reparsed_uid": pre.uid,
						"max_label_len": po.maxLabel, "panic": po.panic + pre.panic},
					Tags: ptags})
			}
		}
	}
}
