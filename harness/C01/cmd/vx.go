//go:build verif

package main

// VX cases: the REAL felix/calc VXLANResolver alone (IPv4 + IPv6), fed Node resources (spec.bgp addresses) and the
// VXLAN host config keys (tunnel address / tunnel MAC, both families) of 3 nodes.  The VTEP table its callbacks add up
// to is compared in Coq (Spec.check_vx) with the model Vxlan.vx_nodeN and with Vxlan.vtep_of of the final inputs.

import (
	"crypto/sha1"
	"fmt"
	gonet "net"
	"sort"
	"strings"

	v3 "github.com/projectcalico/api/pkg/apis/projectcalico/v3"
	metav1 "k8s.io/apimachinery/pkg/apis/meta/v1"

	"github.com/projectcalico/calico/felix/calc"
	"github.com/projectcalico/calico/felix/proto"
	"github.com/projectcalico/calico/libcalico-go/lib/apis/internalapi"
	"github.com/projectcalico/calico/libcalico-go/lib/backend/api"
	"github.com/projectcalico/calico/libcalico-go/lib/backend/model"
)

type vxrec struct {
	tbl map[string]*proto.VXLANTunnelEndpointUpdate
}

func (r *vxrec) OnVTEPUpdate(u *proto.VXLANTunnelEndpointUpdate) { r.tbl[u.Node] = u }
func (r *vxrec) OnVTEPRemove(node string)                        { delete(r.tbl, node) }

type vxop struct {
	kind string // node nodedel tun4 tun6 mac4 mac6
	n    int
	a, b string // "" = none
}

type vxIntern struct{ tab map[string]int }

func (t *vxIntern) opt(s string) string {
	if s == "" {
		return "None"
	}
	n, ok := t.tab[s]
	if !ok {
		n = len(t.tab) + 1
		t.tab[s] = n
	}
	return fmt.Sprintf("(Some %d%%N)", n)
}
func (t *vxIntern) num(s string) int {
	t.opt(s)
	return t.tab[s]
}

func (o vxop) coq(t *vxIntern) string {
	switch o.kind {
	case "node":
		return fmt.Sprintf("VNode %d%%N %s %s", o.n, t.opt(o.a), t.opt(o.b))
	case "nodedel":
		return fmt.Sprintf("VNodeDel %d%%N", o.n)
	case "tun4":
		return fmt.Sprintf("VTun4 %d%%N %s", o.n, t.opt(o.a))
	case "tun6":
		return fmt.Sprintf("VTun6 %d%%N %s", o.n, t.opt(o.a))
	case "mac4":
		return fmt.Sprintf("VMac4 %d%%N %s", o.n, t.opt(o.a))
	}
	return fmt.Sprintf("VMac6 %d%%N %s", o.n, t.opt(o.a))
}

func (o vxop) String() string { return fmt.Sprintf("%s %d %q %q", o.kind, o.n, o.a, o.b) }

func applyVxop(rr *calc.VXLANResolver, o vxop, bgpNil bool) {
	host := hosts[o.n]
	hc := func(name, val string) {
		u := api.Update{KVPair: model.KVPair{Key: model.HostConfigKey{Hostname: host, Name: name}}, UpdateType: api.UpdateTypeKVUpdated}
		if val != "" {
			u.Value = val
		}
		rr.OnHostConfigUpdate(u)
	}
	switch o.kind {
	case "node", "nodedel":
		key := model.ResourceKey{Kind: internalapi.KindNode, Name: host}
		u := api.Update{KVPair: model.KVPair{Key: key}, UpdateType: api.UpdateTypeKVUpdated}
		if o.kind == "node" || bgpNil {
			n := &internalapi.Node{TypeMeta: metav1.TypeMeta{Kind: internalapi.KindNode, APIVersion: v3.GroupVersionCurrent},
				ObjectMeta: metav1.ObjectMeta{Name: host}}
			if o.kind == "node" {
				n.Spec.BGP = &internalapi.NodeBGPSpec{}
				if o.a != "" {
					n.Spec.BGP.IPv4Address = o.a + "/24"
				}
				if o.b != "" {
					n.Spec.BGP.IPv6Address = o.b + "/64"
				}
			}
			u.Value = n
		}
		rr.OnResourceUpdate(u)
	case "tun4":
		hc("IPv4VXLANTunnelAddr", o.a)
	case "tun6":
		hc("IPv6VXLANTunnelAddr", o.a)
	case "mac4":
		hc("VXLANTunnelMACAddr", o.a)
	case "mac6":
		hc("VXLANTunnelMACAddrV6", o.a)
	}
}

// the deterministic MAC of vtepMACForHost (f + first five bytes of SHA-1 of the node name [+ "-v6"])
func genMAC(node string, v6 bool) string {
	if v6 {
		node += "-v6"
	}
	sha := sha1.Sum([]byte(node))
	return gonet.HardwareAddr(append([]byte("f"), sha[0:5]...)).String()
}

func vxCase(seed uint64, idx int) map[string]any {
	r := caseRng(seed^0x7f4a7c15, idx)
	n := 12 + r.intn(34)
	var ops []vxop
	var bgpNil []bool
	last := map[int]vxop{}
	orNone := func(p int, xs ...string) string {
		if r.chance(p) {
			return ""
		}
		return pick(r, xs)
	}
	v6only := false
	for len(ops) < n {
		nd := r.intn(3)
		var o vxop
		switch x := r.intn(100); {
		case x < 30:
			o = vxop{kind: "node", n: nd, a: orNone(12, fmt.Sprintf("192.168.0.%d", nd+1), fmt.Sprintf("192.168.1.%d", nd+1)),
				b: orNone(15, fmt.Sprintf("dead:beef::%d", nd+1), fmt.Sprintf("dead:beef::1:%d", nd+1))}
			if l, ok := last[nd]; ok && r.chance(50) {
				// in-place re-addressing: only the IPv6 (or only the IPv4) address differs from the last Node update
				o.a, o.b = l.a, l.b
				if r.chance(70) {
					o.b = pick(r, []string{fmt.Sprintf("dead:beef::%d", nd+1), fmt.Sprintf("dead:beef::1:%d", nd+1), fmt.Sprintf("dead:beef::2:%d", nd+1)})
					v6only = true
				} else {
					o.a = pick(r, []string{fmt.Sprintf("192.168.0.%d", nd+1), fmt.Sprintf("192.168.1.%d", nd+1)})
				}
			}
			last[nd] = o
		case x < 38:
			o = vxop{kind: "nodedel", n: nd}
			delete(last, nd)
		case x < 55:
			o = vxop{kind: "tun4", n: nd, a: orNone(15, fmt.Sprintf("10.0.%d.0", nd), fmt.Sprintf("10.0.%d.1", nd))}
		case x < 75:
			o = vxop{kind: "tun6", n: nd, a: orNone(15, fmt.Sprintf("fd00:10:%d::1", nd), fmt.Sprintf("fd00:10:%d::2", nd))}
		case x < 87:
			o = vxop{kind: "mac4", n: nd, a: orNone(40, fmt.Sprintf("66:74:c5:72:3f:%02x", nd), fmt.Sprintf("66:74:c5:72:3f:%02x", 16+nd))}
		default:
			o = vxop{kind: "mac6", n: nd, a: orNone(40, fmt.Sprintf("10:f3:27:5c:47:%02x", nd), fmt.Sprintf("10:f3:27:5c:47:%02x", 16+nd))}
		}
		ops = append(ops, o)
		bgpNil = append(bgpNil, r.chance(50))
	}
	rec := &vxrec{tbl: map[string]*proto.VXLANTunnelEndpointUpdate{}}
	panicked := ""
	func() {
		defer func() {
			if p := recover(); p != nil {
				panicked = fmt.Sprint(p)
			}
		}()
		rr := calc.NewVXLANResolver(localHost, rec)
		for i, o := range ops {
			applyVxop(rr, o, bgpNil[i])
		}
	}()
	t := &vxIntern{tab: map[string]int{}}
	var cops, sops, rows, text, gens []string
	for _, o := range ops {
		cops = append(cops, o.coq(t))
		sops = append(sops, o.String())
	}
	nodes := make([]string, 0, len(rec.tbl))
	for k := range rec.tbl {
		nodes = append(nodes, k)
	}
	sort.Strings(nodes)
	dual := false
	for _, nm := range nodes {
		u := rec.tbl[nm]
		if u.Ipv4Addr != "" && u.Ipv6Addr != "" {
			dual = true
		}
		rows = append(rows, fmt.Sprintf("(%d%%N, T %s %s %s %s %s %s)", nodeNum(nm), t.opt(u.Mac), t.opt(u.Ipv4Addr), t.opt(u.ParentDeviceIp),
			t.opt(u.MacV6), t.opt(u.Ipv6Addr), t.opt(u.ParentDeviceIpv6)))
		text = append(text, fmt.Sprint(u))
	}
	for i, h := range hosts {
		gens = append(gens, fmt.Sprintf("(%d%%N, (%d%%N, %d%%N))", i, t.num(genMAC(h, false)), t.num(genMAC(h, true))))
	}
	coq := fmt.Sprintf("(mkVX (mkVXCase [%s] [%s] [%s] %t))", strings.Join(cops, ";"), strings.Join(rows, ";"), strings.Join(gens, ";"), panicked == "")
	tags := []string{"kind:vxlan-resolver"}
	if dual {
		tags = append(tags, "vx:dual-stack-vtep")
	}
	if v6only {
		tags = append(tags, "vx:node-ipv6-only-change")
	}
	sample := map[string]any{"seed": seed, "index": idx, "kind": "vx", "ops": strings.Join(sops, "; "), "table": text}
	if panicked != "" {
		sample["panic"] = panicked
	}
	return map[string]any{"coq": coq, "nt": dual, "key": "vx|" + strings.Join(sops, ";"), "sample": sample, "tags": tags, "diff_class": "vx"}
}
