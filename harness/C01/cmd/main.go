//go:build verif

// C01 correspondence driver.  For every generated datastore history it drives the REAL calculation graph
// (calc.NewCalculationGraph behind the real ValidationFilter, feeding the real EventSequencer whose Callback is a
// recorder; everything synchronous, exactly the construction of calc_graph_fv_test.go), then drives two FRESH
// graphs with only the final datastore state (canonical and shuffled key order) + in-sync + flush, abstracts the
// three emitted proto message streams to Verif.C02.Model.msg terms and prints the case for Coq.
package main

import (
	"encoding/json"
	"flag"
	"fmt"
	"io"
	"os"
	"reflect"
	"sort"
	"strings"

	v3 "github.com/projectcalico/api/pkg/apis/projectcalico/v3"
	"github.com/sirupsen/logrus"
	googleproto "google.golang.org/protobuf/proto"

	"github.com/projectcalico/calico/felix/calc"
	"github.com/projectcalico/calico/felix/config"
	"github.com/projectcalico/calico/felix/proto"
	"github.com/projectcalico/calico/libcalico-go/lib/backend/api"
	"github.com/projectcalico/calico/libcalico-go/lib/backend/model"
)

// ------------------------------------------------------------------ the real graph, wrapped

type dummyConfig struct{}

func (d *dummyConfig) UpdateFrom(map[string]string, config.Source) (bool, error) { return false, nil }
func (d *dummyConfig) RawValues() map[string]string                              { return nil }
func (d *dummyConfig) ToConfigUpdate() *proto.ConfigUpdate                       { return &proto.ConfigUpdate{} }

type matchRec struct {
	count    map[model.PolicyKey]int
	rose     map[model.PolicyKey]bool // 0 -> >0 seen since the last effective flush
	flapped  map[model.PolicyKey]bool // ... and back to 0 before the next effective flush (sticky for the whole history)
	nFlapped int
}

func (m *matchRec) OnPolicyMatch(p model.PolicyKey, _ model.EndpointKey) {
	if m.count[p] == 0 {
		m.rose[p] = true
	}
	m.count[p]++
}
func (m *matchRec) OnPolicyMatchStopped(p model.PolicyKey, _ model.EndpointKey) {
	m.count[p]--
	if m.count[p] == 0 && m.rose[p] {
		if !m.flapped[p] {
			m.flapped[p] = true
		}
		m.nFlapped++
	}
}
func (m *matchRec) flushed() { m.rose = map[model.PolicyKey]bool{} }

type graph struct {
	cg     *calc.CalcGraph
	vf     *calc.ValidationFilter
	es     *calc.EventSequencer
	msgs   []any
	mr     *matchRec
	inSync bool
}

func newGraph(routeSource string) *graph {
	g := &graph{mr: &matchRec{count: map[model.PolicyKey]int{}, rose: map[model.PolicyKey]bool{}, flapped: map[model.PolicyKey]bool{}}}
	conf := config.New()
	conf.FelixHostname = localHost
	conf.BPFEnabled = true
	conf.RouteSource = routeSource
	conf.Encapsulation = config.Encapsulation{VXLANEnabled: true, VXLANEnabledV6: true}
	g.es = calc.NewEventSequencer(&dummyConfig{})
	g.es.Callback = func(m any) {
		if pm, ok := m.(googleproto.Message); ok {
			m = googleproto.Clone(pm)
		}
		g.msgs = append(g.msgs, m)
	}
	g.cg = calc.NewCalculationGraph(g.es, calc.NewLookupsCache(), conf, func() {})
	g.cg.VerifC01AddMatchListener(g.mr)
	g.vf = calc.NewValidationFilter(g.cg, conf)
	return g
}

func (g *graph) update(k model.Key, v any, ut api.UpdateType) {
	g.vf.OnUpdates([]api.Update{{KVPair: model.KVPair{Key: k, Value: v}, UpdateType: ut}})
}
func (g *graph) sync() {
	g.vf.OnStatusUpdated(api.InSync)
	g.inSync = true
}
func (g *graph) flush() {
	g.cg.Flush()
	g.es.Flush()
	if g.inSync {
		g.mr.flushed()
	}
}

// ------------------------------------------------------------------ abstraction of the emitted messages

const (
	KIPSet = iota
	KPol
	KProf
	KEp
	KVtep
	KRoute
	KHost
	KPool
	KSA
	KNS
	KSvc
)

var kindName = []string{"KIPSet", "KPol", "KProf", "KEp", "KVtep", "KRoute", "KHost", "KPool", "KSA", "KNS", "KSvc"}

type cellS struct {
	k  int
	id string
}

func (c cellS) String() string { return kindName[c.k] + ":" + c.id }

type tierS struct {
	group, name, action string
	in, out             []string
}

type amsg struct {
	op      string // upd rem setupd delta setrem skip
	c       cellS
	refs    []cellS
	payload string // deterministic bytes of the payload (digest source)
	base    string // endpoints: payload with all tier lists cleared
	tiers   []tierS
	text    string
	typ     int
	add     []string
	del     []string
}

func det(m googleproto.Message) string {
	b, err := googleproto.MarshalOptions{Deterministic: true}.Marshal(m)
	if err != nil {
		panic(err)
	}
	return string(b)
}

func polID(p *proto.PolicyID) string { return p.Kind + "/" + p.Namespace + "/" + p.Name }

func ruleRefs(rules ...[]*proto.Rule) []cellS {
	seen := map[string]bool{}
	var out []cellS
	for _, rs := range rules {
		for _, r := range rs {
			v := reflect.ValueOf(r).Elem()
			t := v.Type()
			for i := 0; i < t.NumField(); i++ {
				if strings.HasSuffix(t.Field(i).Name, "SetIds") && t.Field(i).Type.Kind() == reflect.Slice {
					for _, s := range v.Field(i).Interface().([]string) {
						if !seen[s] {
							seen[s] = true
							out = append(out, cellS{KIPSet, s})
						}
					}
				}
			}
		}
	}
	sort.Slice(out, func(i, j int) bool { return out[i].id < out[j].id })
	return out
}

func tierRefs(group string, tiers []*proto.TierInfo, refs *[]cellS, ts *[]tierS) {
	for _, t := range tiers {
		x := tierS{group: group, name: t.Name, action: t.DefaultAction}
		for _, p := range t.IngressPolicies {
			x.in = append(x.in, polID(p))
			*refs = append(*refs, cellS{KPol, polID(p)})
		}
		for _, p := range t.EgressPolicies {
			x.out = append(x.out, polID(p))
			*refs = append(*refs, cellS{KPol, polID(p)})
		}
		*ts = append(*ts, x)
	}
}

func dedupe(cs []cellS) []cellS {
	seen := map[cellS]bool{}
	var out []cellS
	for _, c := range cs {
		if !seen[c] {
			seen[c] = true
			out = append(out, c)
		}
	}
	return out
}

func abstract(m any) amsg {
	whole := func(k int, id string, pm googleproto.Message) amsg {
		return amsg{op: "upd", c: cellS{k, id}, payload: det(pm), text: fmt.Sprint(pm)}
	}
	rem := func(k int, id string) amsg { return amsg{op: "rem", c: cellS{k, id}} }
	switch e := m.(type) {
	case *proto.IPSetUpdate:
		return amsg{op: "setupd", c: cellS{KIPSet, e.Id}, add: e.Members, typ: int(e.Type)}
	case *proto.IPSetDeltaUpdate:
		return amsg{op: "delta", c: cellS{KIPSet, e.Id}, add: e.AddedMembers, del: e.RemovedMembers}
	case *proto.IPSetRemove:
		return amsg{op: "setrem", c: cellS{KIPSet, e.Id}}
	case *proto.ActivePolicyUpdate:
		a := whole(KPol, polID(e.Id), e.Policy)
		a.refs = ruleRefs(e.Policy.InboundRules, e.Policy.OutboundRules)
		return a
	case *proto.ActivePolicyRemove:
		return rem(KPol, polID(e.Id))
	case *proto.ActiveProfileUpdate:
		a := whole(KProf, e.Id.Name, e.Profile)
		a.refs = ruleRefs(e.Profile.InboundRules, e.Profile.OutboundRules)
		return a
	case *proto.ActiveProfileRemove:
		return rem(KProf, e.Id.Name)
	case *proto.WorkloadEndpointUpdate:
		a := whole(KEp, "w/"+e.Id.OrchestratorId+"/"+e.Id.WorkloadId+"/"+e.Id.EndpointId, e.Endpoint)
		tierRefs("n", e.Endpoint.Tiers, &a.refs, &a.tiers)
		for _, p := range e.Endpoint.ProfileIds {
			a.refs = append(a.refs, cellS{KProf, p})
		}
		b := googleproto.Clone(e.Endpoint).(*proto.WorkloadEndpoint)
		b.Tiers = nil
		a.base = det(b)
		return a
	case *proto.WorkloadEndpointRemove:
		return rem(KEp, "w/"+e.Id.OrchestratorId+"/"+e.Id.WorkloadId+"/"+e.Id.EndpointId)
	case *proto.HostEndpointUpdate:
		a := whole(KEp, "h/"+e.Id.EndpointId, e.Endpoint)
		tierRefs("n", e.Endpoint.Tiers, &a.refs, &a.tiers)
		tierRefs("u", e.Endpoint.UntrackedTiers, &a.refs, &a.tiers)
		tierRefs("p", e.Endpoint.PreDnatTiers, &a.refs, &a.tiers)
		tierRefs("f", e.Endpoint.ForwardTiers, &a.refs, &a.tiers)
		for _, p := range e.Endpoint.ProfileIds {
			a.refs = append(a.refs, cellS{KProf, p})
		}
		b := googleproto.Clone(e.Endpoint).(*proto.HostEndpoint)
		b.Tiers, b.UntrackedTiers, b.PreDnatTiers, b.ForwardTiers = nil, nil, nil, nil
		a.base = det(b)
		return a
	case *proto.HostEndpointRemove:
		return rem(KEp, "h/"+e.Id.EndpointId)
	case *proto.VXLANTunnelEndpointUpdate:
		return whole(KVtep, e.Node, e)
	case *proto.VXLANTunnelEndpointRemove:
		return rem(KVtep, e.Node)
	case *proto.RouteUpdate:
		a := whole(KRoute, e.Dst, e)
		b := googleproto.Clone(e).(*proto.RouteUpdate)
		// content apart from what the enclosing IPAM block contributes (workload type bits, borrowed flag)
		b.Types &^= proto.RouteType_LOCAL_WORKLOAD | proto.RouteType_REMOTE_WORKLOAD
		b.Borrowed = false
		a.base = det(b)
		return a
	case *proto.RouteRemove:
		return rem(KRoute, e.Dst)
	case *proto.HostMetadataUpdate:
		return whole(KHost, "host/"+e.Hostname, e)
	case *proto.HostMetadataRemove:
		return rem(KHost, "host/"+e.Hostname)
	case *proto.IPAMPoolUpdate:
		return whole(KPool, e.Id, e.Pool)
	case *proto.IPAMPoolRemove:
		return rem(KPool, e.Id)
	case *proto.ServiceAccountUpdate:
		return whole(KSA, e.Id.Namespace+"/"+e.Id.Name, e)
	case *proto.ServiceAccountRemove:
		return rem(KSA, e.Id.Namespace+"/"+e.Id.Name)
	case *proto.NamespaceUpdate:
		return whole(KNS, e.Id.Name, e)
	case *proto.NamespaceRemove:
		return rem(KNS, e.Id.Name)
	case *proto.ServiceUpdate:
		return whole(KSvc, "svc/"+e.Namespace+"/"+e.Name, e)
	case *proto.ServiceRemove:
		return rem(KSvc, "svc/"+e.Namespace+"/"+e.Name)
	// singletons / kinds the C02 message type has no constructor of their own for: carried as cells of class
	// KHost whose id names the message type, so they take part in the compared dataplane state.
	case *proto.Encapsulation:
		return whole(KHost, "singleton/encapsulation", e)
	case *proto.GlobalBGPConfigUpdate:
		return whole(KHost, "singleton/bgpconfig", e)
	case *proto.WireguardEndpointUpdate:
		return whole(KHost, "wg4/"+e.Hostname, e)
	case *proto.WireguardEndpointRemove:
		return rem(KHost, "wg4/"+e.Hostname)
	case *proto.WireguardEndpointV6Update:
		return whole(KHost, "wg6/"+e.Hostname, e)
	case *proto.WireguardEndpointV6Remove:
		return rem(KHost, "wg6/"+e.Hostname)
	case *proto.ConfigUpdate, *calc.DatastoreNotReady:
		return amsg{op: "skip"}
	}
	panic(fmt.Sprintf("C01 driver: message type %T is not abstracted", m))
}

// ------------------------------------------------------------------ dataplane state (Go side of dp_of)

type dpVal struct {
	refs    []cellS
	payload string
	base    string
	tiers   []tierS
	text    string
}

type dpState struct {
	sets map[string]map[string]bool
	kv   map[cellS]dpVal
	// well-formedness / closedness of the stream, evaluated message by message (mirrors C02.Spec.ok_msgs)
	bad []string
}

func newDP() *dpState { return &dpState{sets: map[string]map[string]bool{}, kv: map[cellS]dpVal{}} }

func (d *dpState) present(c cellS) bool {
	if c.k == KIPSet {
		_, ok := d.sets[c.id]
		return ok
	}
	_, ok := d.kv[c]
	return ok
}

func (d *dpState) apply(a amsg, idx int) {
	note := func(f string, args ...any) {
		if len(d.bad) < 8 {
			d.bad = append(d.bad, fmt.Sprintf("msg %d: ", idx)+fmt.Sprintf(f, args...))
		}
	}
	switch a.op {
	case "setupd":
		s := map[string]bool{}
		for _, m := range a.add {
			if s[m] {
				note("IPSetUpdate %s lists member %s twice", a.c.id, m)
			}
			s[m] = true
		}
		d.sets[a.c.id] = s
	case "delta":
		s, ok := d.sets[a.c.id]
		if !ok {
			note("IPSetDeltaUpdate for unknown set %s", a.c.id)
			return
		}
		for _, m := range a.add {
			if s[m] {
				note("delta adds present member %s to %s", m, a.c.id)
			}
		}
		for _, m := range a.del {
			if !s[m] {
				note("delta removes absent member %s from %s", m, a.c.id)
			}
		}
		for _, m := range a.add {
			s[m] = true
		}
		for _, m := range a.del {
			delete(s, m)
		}
	case "setrem":
		if _, ok := d.sets[a.c.id]; !ok {
			note("IPSetRemove of unknown set %s", a.c.id)
		}
		delete(d.sets, a.c.id)
	case "upd":
		d.kv[a.c] = dpVal{refs: a.refs, payload: a.payload, base: a.base, tiers: a.tiers, text: a.text}
	case "rem":
		if _, ok := d.kv[a.c]; !ok {
			note("remove of unknown %s", a.c)
		}
		delete(d.kv, a.c)
	case "skip":
		return
	}
	// reference-closedness after every message
	for c, v := range d.kv {
		for _, r := range v.refs {
			if !d.present(r) {
				note("after %s %s: %s references missing %s", a.op, a.c, c, r)
				return
			}
		}
	}
}

func dpOf(msgs []amsg) *dpState {
	d := newDP()
	for i, a := range msgs {
		d.apply(a, i)
	}
	return d
}

func joinClass(a, b string) string {
	if a == "none" {
		return b
	}
	if b == "none" {
		return a
	}
	if a == "other" || b == "other" {
		return "other"
	}
	m := map[string]bool{}
	for _, x := range strings.Split(a+"+"+b, "+") {
		m[x] = true
	}
	return strings.Join(setKeys(m), "+")
}

// exactRefs mirrors Spec.exact_refs: an IP set exists exactly when an active policy/profile uses it, a profile is
// active exactly when an endpoint lists it.
func exactRefs(d *dpState) []string {
	usedSets, usedProfs := map[string]bool{}, map[string]bool{}
	for c, v := range d.kv {
		for _, r := range v.refs {
			if (c.k == KPol || c.k == KProf) && r.k == KIPSet {
				usedSets[r.id] = true
			}
			if c.k == KEp && r.k == KProf {
				usedProfs[r.id] = true
			}
		}
	}
	var bad []string
	for id := range d.sets {
		if !usedSets[id] {
			bad = append(bad, "IP set "+id+" exists but no active policy/profile uses it")
		}
	}
	for id := range usedSets {
		if _, ok := d.sets[id]; !ok {
			bad = append(bad, "IP set "+id+" is used but does not exist")
		}
	}
	for c := range d.kv {
		if c.k == KProf && !usedProfs[c.id] {
			bad = append(bad, "profile "+c.id+" is active but no endpoint lists it")
		}
	}
	for id := range usedProfs {
		if _, ok := d.kv[cellS{KProf, id}]; !ok {
			bad = append(bad, "profile "+id+" is listed by an endpoint but not active")
		}
	}
	sort.Strings(bad)
	return bad
}

func sameRefs(a, b []cellS) bool {
	if len(a) != len(b) {
		return false
	}
	for i := range a {
		if a[i] != b[i] {
			return false
		}
	}
	return true
}

func setKeys(m map[string]bool) []string {
	out := make([]string, 0, len(m))
	for k := range m {
		out = append(out, k)
	}
	sort.Strings(out)
	return out
}

func actionsDifferOnlyForAbsentTiers(a, b []tierS, present map[string]bool) bool {
	if len(a) != len(b) {
		return false
	}
	for i := range a {
		if a[i].action != b[i].action && (a[i].name != b[i].name || present[a[i].name]) {
			return false
		}
	}
	return true
}

func tierNames(ts []tierS) string {
	var sb strings.Builder
	for _, t := range ts {
		sb.WriteString(t.group + "/" + t.name + ";")
	}
	return sb.String()
}

func stripTiers(ts []tierS, drop map[string]bool, withAction bool) string {
	var sb strings.Builder
	for _, t := range ts {
		var in, out []string
		for _, p := range t.in {
			if !drop[p] {
				in = append(in, p)
			}
		}
		for _, p := range t.out {
			if !drop[p] {
				out = append(out, p)
			}
		}
		if len(in)+len(out) == 0 {
			continue
		}
		fmt.Fprintf(&sb, "%s/%s in=%v out=%v", t.group, t.name, in, out)
		if withAction {
			fmt.Fprintf(&sb, " action=%q", t.action)
		}
		sb.WriteString(";")
	}
	return sb.String()
}

// diff describes where two dataplane states differ and classifies the difference cell by cell:
//
//	"stale-policy-order": an endpoint present on both sides whose non-tier content is equal and whose tier lists
//	     become equal once the policies in `flapped` (match started and stopped between two effective flushes)
//	     are removed from both sides;
//	"route-block-flags": a route present on both sides that differs only in the LOCAL_WORKLOAD/REMOTE_WORKLOAD
//	     type bits and the borrowed flag (what the enclosing IPAM block contributes to a contained route);
//	"other": anything else.
//
// The class of the whole difference is "other" as soon as one cell is "other", else the known classes joined by "+".
func diff(h, f *dpState, flapped map[string]bool, presentTiers map[string]bool) (lines []string, class string) {
	found := map[string]bool{}
	ids := map[string]bool{}
	for k := range h.sets {
		ids[k] = true
	}
	for k := range f.sets {
		ids[k] = true
	}
	for _, id := range setKeys(ids) {
		hs, hok := h.sets[id]
		fs, fok := f.sets[id]
		if hok != fok || fmt.Sprint(setKeys(hs)) != fmt.Sprint(setKeys(fs)) {
			found["other"] = true
			lines = append(lines, fmt.Sprintf("ipset %s: history=%v(%v) fresh=%v(%v)", id, setKeys(hs), hok, setKeys(fs), fok))
		}
	}
	cells := map[cellS]bool{}
	for c := range h.kv {
		cells[c] = true
	}
	for c := range f.kv {
		cells[c] = true
	}
	var cl []cellS
	for c := range cells {
		cl = append(cl, c)
	}
	sort.Slice(cl, func(i, j int) bool { return cl[i].String() < cl[j].String() })
	for _, c := range cl {
		hv, hok := h.kv[c]
		fv, fok := f.kv[c]
		if hok && fok && hv.payload == fv.payload && sameRefs(hv.refs, fv.refs) {
			continue
		}
		if !hok || !fok {
			found["other"] = true
			lines = append(lines, fmt.Sprintf("%s: present in history=%v fresh=%v  %s%s", c, hok, fok, hv.text, fv.text))
			continue
		}
		if c.k == KEp && hv.base == fv.base && tierNames(hv.tiers) == tierNames(fv.tiers) &&
			stripTiers(hv.tiers, nil, false) == stripTiers(fv.tiers, nil, false) && actionsDifferOnlyForAbsentTiers(hv.tiers, fv.tiers, presentTiers) {
			// same tiers, same policy lists: only the default_action of tiers that are NOT in the datastore differs
			found["tier-default-action"] = true
			lines = append(lines, fmt.Sprintf("%s: same tiers and policy lists, tier default_action differs: history=%s fresh=%s",
				c, stripTiers(hv.tiers, nil, true), stripTiers(fv.tiers, nil, true)))
			continue
		}
		if c.k == KEp && len(flapped) > 0 && hv.base == fv.base && stripTiers(hv.tiers, flapped, true) == stripTiers(fv.tiers, flapped, true) {
			found["stale-policy-order"] = true
			lines = append(lines, fmt.Sprintf("%s: policy lists differ only in the placement of policies whose match started and stopped between flushes %v: history=%s fresh=%s",
				c, setKeys(flapped), stripTiers(hv.tiers, nil, true), stripTiers(fv.tiers, nil, true)))
			continue
		}
		if c.k == KRoute && hv.base == fv.base {
			found["route-block-flags"] = true
			lines = append(lines, fmt.Sprintf("%s: differs only in workload type bits / borrowed flag: history=%s | fresh=%s", c, hv.text, fv.text))
			continue
		}
		found["other"] = true
		lines = append(lines, fmt.Sprintf("%s: history=%s | fresh=%s", c, hv.text, fv.text))
	}
	switch {
	case len(found) == 0:
		class = "none"
	case found["other"]:
		class = "other"
	default:
		class = strings.Join(setKeys(found), "+")
	}
	return
}

// ------------------------------------------------------------------ Coq emission

type interner struct {
	tab map[string]int
	rev []string
}

func (in *interner) num(ns, s string) int {
	k := ns + "\x00" + s
	if n, ok := in.tab[k]; ok {
		return n
	}
	n := len(in.rev)
	in.tab[k] = n
	in.rev = append(in.rev, ns+":"+s)
	return n
}

func (in *interner) cell(c cellS) string {
	return fmt.Sprintf("(%s,%d%%N)", kindName[c.k], in.num("c"+kindName[c.k], c.id))
}

func (in *interner) nlist(ns string, xs []string) string {
	ss := make([]string, len(xs))
	for i, x := range xs {
		ss[i] = fmt.Sprintf("%d%%N", in.num(ns, x))
	}
	return "[" + strings.Join(ss, ";") + "]"
}

func (in *interner) value(refs []cellS, payload string) string {
	rs := make([]string, len(refs))
	for i, r := range refs {
		rs[i] = in.cell(r)
	}
	return fmt.Sprintf("(V [%s] %d%%N)", strings.Join(rs, ";"), in.num("v", payload))
}

func (in *interner) msgs(ms []amsg) string {
	var out []string
	for _, a := range ms {
		switch a.op {
		case "setupd":
			out = append(out, fmt.Sprintf("MIPSetUpdate %d%%N %s %d%%N", in.num("cKIPSet", a.c.id), in.nlist("m", a.add), a.typ))
		case "delta":
			out = append(out, fmt.Sprintf("MIPSetDelta %d%%N %s %s", in.num("cKIPSet", a.c.id), in.nlist("m", a.add), in.nlist("m", a.del)))
		case "setrem":
			out = append(out, fmt.Sprintf("MIPSetRemove %d%%N", in.num("cKIPSet", a.c.id)))
		case "upd":
			out = append(out, fmt.Sprintf("MUpdate %s %s", in.cell(a.c), in.value(a.refs, a.payload)))
		case "rem":
			out = append(out, fmt.Sprintf("MRemove %s", in.cell(a.c)))
		}
	}
	return "[" + strings.Join(out, ";") + "]"
}

func (in *interner) world(d *dpState) string {
	var sets []string
	for _, id := range sortedKeys(d.sets) {
		sets = append(sets, fmt.Sprintf("(%d%%N,%s)", in.num("cKIPSet", id), in.nlist("m", setKeys(d.sets[id]))))
	}
	var cl []cellS
	for c := range d.kv {
		cl = append(cl, c)
	}
	sort.Slice(cl, func(i, j int) bool { return cl[i].String() < cl[j].String() })
	var kvs []string
	for _, c := range cl {
		kvs = append(kvs, fmt.Sprintf("(%s,%s)", in.cell(c), in.value(d.kv[c].refs, d.kv[c].payload)))
	}
	return fmt.Sprintf("[%s] [%s]", strings.Join(sets, ";"), strings.Join(kvs, ";"))
}

// ------------------------------------------------------------------ histories

type event struct {
	op      string // set del revert dup flush sync
	k       *ukey
	variant uint64
}

func (e event) String() string {
	switch e.op {
	case "flush", "sync":
		return e.op
	case "del":
		return "del " + e.k.name
	}
	return fmt.Sprintf("%s %s#%d", e.op, e.k.name, e.variant)
}

type stats struct {
	checkpoints                                                                       int
	events, flushes, reverts, dups, spuriousDel, delRef, flapped, msgsHist, msgsFresh int
}

func profilesOf(v any) []string {
	switch e := v.(type) {
	case *model.WorkloadEndpoint:
		return e.ProfileIDs
	case *model.HostEndpoint:
		return e.ProfileIDs
	}
	return nil
}

func abstractAll(ms []any) []amsg {
	out := make([]amsg, 0, len(ms))
	for _, m := range ms {
		a := abstract(m)
		if a.op != "skip" {
			out = append(out, a)
		}
	}
	return out
}

func runFresh(u []*ukey, cur map[string]uint64, order []string, routeSource string) (msgs []amsg, panicked string) {
	defer func() {
		if p := recover(); p != nil {
			panicked = fmt.Sprint(p)
		}
	}()
	byName := map[string]*ukey{}
	for _, k := range u {
		byName[k.name] = k
	}
	g := newGraph(routeSource)
	for _, n := range order {
		k := byName[n]
		g.update(k.key, k.build(cur[n]), api.UpdateTypeKVNew)
	}
	g.sync()
	g.flush()
	return abstractAll(g.msgs), ""
}

func genEvents(r *rng, u []*ukey, n int, scripted bool, lateLabels bool) []event {
	var evs []event
	cur := map[string]uint64{}
	seen := map[string][]uint64{}
	last := map[string]*event{}
	synced := false
	syncAt := -1
	switch r.intn(4) {
	case 0:
		syncAt = 0
	case 1, 2:
		syncAt = r.intn(n)
	}
	weights := make([]int, len(u))
	for i, k := range u {
		switch k.class {
		case "wep", "hep", "pol":
			weights[i] = 5
		case "prof", "plabel", "tier":
			weights[i] = 3
		default:
			weights[i] = 2
		}
	}
	tot := 0
	for _, w := range weights {
		tot += w
	}
	pickKey := func() *ukey {
		x := r.intn(tot)
		for i, w := range weights {
			if x < w {
				return u[i]
			}
			x -= w
		}
		return u[0]
	}
	set := func(k *ukey, v uint64, op string) {
		e := event{op: op, k: k, variant: v}
		evs = append(evs, e)
		cur[k.name] = v
		seen[k.name] = append(seen[k.name], v)
		last[k.name] = &evs[len(evs)-1]
	}
	del := func(k *ukey) {
		evs = append(evs, event{op: "del", k: k})
		delete(cur, k.name)
		last[k.name] = &evs[len(evs)-1]
	}
	byName := map[string]*ukey{}
	for _, k := range u {
		byName[k.name] = k
	}
	findVariant := func(k *ukey, pred func(any) bool) uint64 {
		start := r.intn(k.nvar)
		for i := 0; i < k.nvar; i++ {
			v := uint64((start + i) % k.nvar)
			if pred(k.build(v)) {
				return v
			}
		}
		return uint64(start)
	}
	if scripted {
		// the shape behind the policy-sorter entry left behind by a match that starts and stops between two
		// flushes: policy P present, a local endpoint makes it match and stops matching with no flush in between,
		// P is updated (other order/tier, same selector) while inactive, then the endpoint matches again.
		evs = append(evs, event{op: "sync"})
		synced = true
		syncAt = -1
		for _, t := range []string{"Tdefault", "Ttier-1", "Ttier-2"} {
			if r.chance(85) {
				set(byName[t], uint64(r.intn(12)), "set")
			}
		}
		pols := []string{"pol-1", "pol-2", "pol-3", "np-1"}
		pn := pick(r, pols)
		for _, p := range pols {
			if p != pn && r.chance(70) {
				set(byName[p], findVariant(byName[p], func(v any) bool { return v.(*model.Policy).Selector == "all()" || r.chance(3) }), "set")
			}
		}
		P := byName[pn]
		isAll := func(v any) bool {
			p := v.(*model.Policy)
			return p.Selector == "all()" && len(p.PerformanceHints) == 0
		}
		vA := findVariant(P, isAll)
		pa := P.build(vA).(*model.Policy)
		vB := findVariant(P, func(v any) bool {
			p := v.(*model.Policy)
			return isAll(v) && (p.Tier != pa.Tier || fmt.Sprint(p.Order) != fmt.Sprint(pa.Order) ||
				(p.Order != nil && pa.Order != nil && *p.Order != *pa.Order))
		})
		set(P, vA, "set")
		w := byName[pick(r, []string{"w1", "w2", "h1"})]
		if r.chance(70) {
			evs = append(evs, event{op: "flush"})
		}
		wv := uint64(r.intn(w.nvar))
		set(w, wv, "set")
		del(w)
		evs = append(evs, event{op: "flush"})
		set(P, vB, "set")
		if r.chance(40) {
			evs = append(evs, event{op: "flush"})
		}
		set(w, wv, "revert")
		n = len(evs) + r.intn(12)
		if n < 30 {
			n = 30 // keep the 30-event minimum: the tail is random
		}
		if r.chance(50) {
			n = len(evs) // ... except for half of the scripted cases, which end here (minimal shape)
		}
	} else if lateLabels {
		// profile labels that arrive late: an endpoint names profile P while P's labels are not in the datastore, is
		// updated (same profiles), and only then P's labels-to-apply arrive; policies select on the inherited labels.
		evs = append(evs, event{op: "sync"})
		synced = true
		syncAt = -1
		prof := pick(r, []string{"prof-1", "prof-2", "prof-3"})
		hasProf := func(v any) bool {
			for _, p := range profilesOf(v) {
				if p == prof {
					return true
				}
			}
			return false
		}
		inheritSel := func(v any) bool {
			s := v.(*model.Policy).Selector
			return s == "has(tag-1)" || s == "profile == 'prof-1'" || s == "tag-1 == 'foobar'" || s == "a == 'a'"
		}
		for _, p := range []string{"pol-1", "pol-2", "pol-3"} {
			set(byName[p], findVariant(byName[p], inheritSel), "set")
		}
		set(byName["Tdefault"], uint64(r.intn(12)), "set")
		w := byName[pick(r, []string{"w1", "w2", "w3", "h1"})]
		set(w, findVariant(w, hasProf), "set")
		if r.chance(60) {
			evs = append(evs, event{op: "flush"})
		}
		set(w, findVariant(w, hasProf), "set")
		if r.chance(60) {
			evs = append(evs, event{op: "flush"})
		}
		lk := byName["L"+prof]
		set(lk, findVariant(lk, func(v any) bool { return len(v.(*v3.Profile).Spec.LabelsToApply) > 0 }), "set")
		evs = append(evs, event{op: "flush"})
		n = len(evs) + r.intn(25)
	} else {
		// populate prefix: most keys get a value, in random order
		perm := r.perm(len(u))
		for _, i := range perm {
			if !synced && syncAt >= 0 && len(evs) >= syncAt {
				evs = append(evs, event{op: "sync"})
				synced = true
			}
			if r.chance(65) {
				set(u[i], uint64(r.intn(u[i].nvar)), "set")
			}
			if r.chance(8) {
				evs = append(evs, event{op: "flush"})
			}
		}
	}
	for len(evs) < n {
		if !synced && syncAt >= 0 && len(evs) >= syncAt {
			evs = append(evs, event{op: "sync"})
			synced = true
			continue
		}
		x := r.intn(100)
		switch {
		case x < 46:
			k := pickKey()
			if cv, present := cur[k.name]; present && k.class == "node" && r.chance(45) {
				// node re-addressing in place: same IPv4 side, labels etc., only the IPv6 address differs
				set(k, (cv/3)*3+(cv%3+1+uint64(r.intn(2)))%3, "set6")
			} else {
				set(k, uint64(r.intn(k.nvar)), "set")
			}
		case x < 60:
			del(pickKey())
		case x < 70:
			k := pickKey()
			if vs := seen[k.name]; len(vs) > 0 {
				set(k, vs[r.intn(len(vs))], "revert")
			}
		case x < 78:
			k := pickKey()
			if l := last[k.name]; l != nil {
				e := *l
				if e.op != "del" {
					e.op = "dup"
				}
				evs = append(evs, e)
				last[k.name] = &evs[len(evs)-1]
			}
		case x < 97:
			evs = append(evs, event{op: "flush"})
		default:
			if synced {
				evs = append(evs, event{op: "sync"}) // a repeated in-sync status
			}
		}
	}
	return evs
}

func runCase(seed uint64, idx int, u []*ukey, st *stats) map[string]any {
	r := caseRng(seed, idx)
	routeSource := "CalicoIPAM"
	if r.chance(25) {
		routeSource = "WorkloadIPs"
	}
	scripted := idx%6 == 5
	n := 30 + r.intn(171)
	if r.chance(30) {
		n = 30 + r.intn(40)
	}
	evs := genEvents(r, u, n, scripted, idx%6 == 2)
	line, _ := evalHistory(seed, idx, u, st, evs, routeSource, scripted, r.next(), true)
	return line
}

// shrinkCase: greedy delta-debugging of the history of case idx - drop chunks of events (then single events) as long
// as the classification of the difference stays the same (and is not "none"); prints the minimised case.
func shrinkCase(seed uint64, idx int, u []*ukey) map[string]any {
	r := caseRng(seed, idx)
	routeSource := "CalicoIPAM"
	if r.chance(25) {
		routeSource = "WorkloadIPs"
	}
	scripted := idx%6 == 5
	n := 30 + r.intn(171)
	if r.chance(30) {
		n = 30 + r.intn(40)
	}
	evs := genEvents(r, u, n, scripted, idx%6 == 2)
	shufSeed := r.next()
	st := &stats{}
	line, evs := evalHistory(seed, idx, u, st, evs, routeSource, scripted, shufSeed, true)
	class := line["diff_class"].(string)
	if class == "none" {
		return line
	}
	for chunk := len(evs) / 2; chunk >= 1; chunk /= 2 {
		for i := 0; i+chunk <= len(evs); {
			cand := append(append([]event(nil), evs[:i]...), evs[i+chunk:]...)
			l2, _ := evalHistory(seed, idx, u, st, cand, routeSource, scripted, shufSeed, false)
			if l2["diff_class"].(string) == class {
				evs, line = cand, l2
			} else {
				i += chunk
			}
		}
	}
	line["sample"].(map[string]any)["shrunk"] = true
	return line
}

func presentTiers(cur map[string]uint64) map[string]bool {
	m := map[string]bool{}
	for k := range cur {
		if strings.HasPrefix(k, "T") {
			m[k[1:]] = true
		}
	}
	return m
}

// caseRng derives an independent stream per (seed, case index).  (The state must not differ between cases by a multiple
// of splitmix64's increment, or the cases would replay one shared stream shifted by one draw each.)
func caseRng(seed uint64, idx int) *rng {
	t := &rng{s: seed*0x100000001b3 ^ (uint64(idx)+1)*0xd6e8feb86659fd93}
	a, b := t.next(), t.next()
	return &rng{s: a ^ (b << 1) ^ uint64(idx)}
}

func isBadClass(c string) bool {
	return c == "other" || c == "leak" || c == "panic" || c == "stream-not-closed"
}

// evalHistory runs one history on the real graph and compares it with fresh graphs fed the final state.
// With scan=true the comparison is ALSO made (Go side) at every effective flush point inside the history - each is a
// point where "the latest state has been delivered, in-sync signalled and Felix has flushed" - and the history is cut at
// the first flush point whose difference is outside the known classes (else, if the end is clean, at the first flush
// point showing a known class).  The case handed to Coq is the (possibly cut) history; returns it as well.
func evalHistory(seed uint64, idx int, u []*ukey, st *stats, evs []event, routeSource string, scripted bool, shufSeed uint64, scan bool) (map[string]any, []event) {
	r := &rng{s: shufSeed}
	// ---- history run on the real graph
	cur := map[string]uint64{}
	built := map[string]any{}
	tags := map[string]bool{"routesource:" + routeSource: true}
	if scripted {
		tags["scripted:match-flap-then-update"] = true
	}
	if idx%6 == 2 {
		tags["scripted:profile-labels-late"] = true
	}
	var ops []string
	var hpanic string
	var g *graph
	firstKnown := -1
	func() {
		defer func() {
			if p := recover(); p != nil {
				hpanic = fmt.Sprint(p)
			}
		}()
		g = newGraph(routeSource)
		run := newDP()
		done, nmsg := 0, 0
		checkpoint := func() string {
			for ; done < len(g.msgs); done++ {
				if a := abstract(g.msgs[done]); a.op != "skip" {
					run.apply(a, nmsg)
					nmsg++
				}
			}
			f, p := runFresh(u, cur, sortedKeys(cur), routeSource)
			if p != "" {
				return "panic"
			}
			fl := map[string]bool{}
			for pk := range g.mr.flapped {
				fl[pk.Kind+"/"+pk.Namespace+"/"+pk.Name] = true
			}
			fdp := dpOf(f)
			_, cl := diff(run, fdp, fl, presentTiers(cur))
			if len(run.bad)+len(fdp.bad) > 0 && cl == "none" {
				cl = "stream-not-closed"
			}
			if len(exactRefs(run))+len(exactRefs(fdp)) > 0 {
				cl = "leak"
			}
			return cl
		}
		for i, e := range evs {
			ops = append(ops, e.String())
			st.events++
			stop := false
			switch e.op {
			case "flush":
				st.flushes++
				g.flush()
				if scan && g.inSync {
					st.checkpoints++
					cl := checkpoint()
					if isBadClass(cl) {
						stop = true
					} else if cl != "none" && firstKnown < 0 {
						firstKnown = i
					}
				}
			case "sync":
				g.sync()
			case "del":
				_, present := cur[e.k.name]
				if !present {
					st.spuriousDel++
					tags["op:spurious-delete"] = true
				} else if referenced(e.k, built, g) {
					st.delRef++
					tags["op:delete-while-referenced"] = true
				}
				delete(cur, e.k.name)
				delete(built, e.k.name)
				g.update(e.k.key, nil, api.UpdateTypeKVDeleted)
			default:
				if e.op == "revert" {
					st.reverts++
					tags["op:revert"] = true
				}
				if e.op == "dup" {
					st.dups++
					tags["op:duplicate"] = true
				}
				if e.op == "set6" {
					tags["op:node-ipv6-only-change"] = true
				}
				ut := api.UpdateTypeKVNew
				if _, present := cur[e.k.name]; present {
					ut = api.UpdateTypeKVUpdated
				}
				cur[e.k.name] = e.variant
				v := e.k.build(e.variant)
				built[e.k.name] = v
				g.update(e.k.key, v, ut)
			}
			if stop {
				evs = evs[:i+1]
				tags["cut-at-flush-point"] = true
				break
			}
		}
		if !g.inSync {
			g.sync()
		}
		g.flush()
	}()

	flapped := map[string]bool{}
	if g != nil {
		for p := range g.mr.flapped {
			flapped[p.Kind+"/"+p.Namespace+"/"+p.Name] = true
		}
		st.flapped += g.mr.nFlapped
	}
	if len(flapped) > 0 {
		tags["op:match-start-stop-between-flushes"] = true
	}
	var hist []amsg
	if hpanic == "" {
		hist = abstractAll(g.msgs)
	}

	// ---- fresh runs on the final state
	canon := sortedKeys(cur)
	shuf := append([]string(nil), canon...)
	for i := len(shuf) - 1; i > 0; i-- {
		j := r.intn(i + 1)
		shuf[i], shuf[j] = shuf[j], shuf[i]
	}
	f1, p1 := runFresh(u, cur, canon, routeSource)
	f2, p2 := runFresh(u, cur, shuf, routeSource)
	panicked := hpanic != "" || p1 != "" || p2 != ""

	hd, fd, fd2 := dpOf(hist), dpOf(f1), dpOf(f2)
	dl, class := diff(hd, fd, flapped, presentTiers(cur))
	dl2, class2 := diff(fd2, fd, nil, presentTiers(cur))
	if class2 != "none" {
		tags["fresh-order-dependent"] = true
		for _, l := range dl2 {
			dl = append(dl, "fresh(shuffled) vs fresh(canonical): "+l)
		}
		class = joinClass(class, class2)
	}
	if len(hd.bad)+len(fd.bad)+len(fd2.bad) > 0 && class == "none" {
		class = "stream-not-closed"
	}
	leaks := append(exactRefs(hd), exactRefs(fd)...)
	if len(leaks) > 0 {
		class = "leak" // never a known class
	}
	if panicked {
		class = "panic"
	}
	tags["diff:"+class] = true
	st.msgsHist += len(hist)
	st.msgsFresh += len(f1)

	in := &interner{tab: map[string]int{}}
	pb := "false"
	if panicked {
		pb = "true"
	}
	coq := fmt.Sprintf("(mkCase (mkGCase %s %s %s %s %s %s))", in.msgs(hist), in.msgs(f1), in.msgs(f2), in.world(hd), in.world(fd), pb)

	nt := tags["op:delete-while-referenced"] || tags["op:match-start-stop-between-flushes"] || tags["op:revert"]
	var tl []string
	for t := range tags {
		tl = append(tl, t)
	}
	sort.Strings(tl)
	final := []string{}
	for _, k := range canon {
		final = append(final, fmt.Sprintf("%s#%d", k, cur[k]))
	}
	sample := map[string]any{
		"seed": seed, "index": idx, "route_source": routeSource, "events": len(evs), "history": strings.Join(ops, "; "),
		"final_state": strings.Join(final, " "), "history_msgs": len(hist), "fresh_msgs": len(f1),
		"flapped_policies": setKeys(flapped), "diff_class": class,
	}
	if len(dl) > 0 {
		if len(dl) > 12 {
			dl = dl[:12]
		}
		sample["diff"] = dl
	}
	if bad := append(append(append([]string{}, hd.bad...), fd.bad...), fd2.bad...); len(bad) > 0 {
		sample["stream_problems"] = bad
	}
	if panicked {
		sample["panic"] = hpanic + p1 + p2
	}
	if len(leaks) > 0 {
		sample["leaks"] = leaks
	}
	if scan && class == "none" && firstKnown >= 0 {
		// the end of the history is clean but an inner flush point shows a known class: report that prefix
		return evalHistory(seed, idx, u, st, evs[:firstKnown+1], routeSource, scripted, shufSeed, false)
	}
	return map[string]any{"coq": coq, "nt": nt, "key": fmt.Sprintf("%s|%s", routeSource, strings.Join(ops, ";")),
		"sample": sample, "tags": tl, "diff_class": class}, evs
}

// referenced: is the present object named by e.k referenced by another present object (delete-while-referenced)?
func referenced(k *ukey, built map[string]any, g *graph) bool {
	switch k.class {
	case "prof", "plabel":
		name := k.name[1:]
		for _, v := range built {
			for _, p := range profilesOf(v) {
				if p == name {
					return true
				}
			}
		}
	case "tier":
		for _, v := range built {
			if p, ok := v.(*model.Policy); ok && "T"+p.Tier == k.name {
				return true
			}
		}
	case "pol":
		return g.mr.count[k.key.(model.PolicyKey)] > 0
	case "pool":
		pk := k.key.(model.IPPoolKey)
		for _, v := range built {
			if b, ok := v.(*model.AllocationBlock); ok && pk.CIDR.Contains(mustAddr(b.CIDR.IP.String())) {
				return true
			}
		}
	case "node":
		for _, v := range built {
			if b, ok := v.(*model.AllocationBlock); ok && b.Affinity != nil && "node-"+strings.TrimPrefix(*b.Affinity, "host:") == k.name {
				return true
			}
		}
	}
	return false
}

func main() {
	n := flag.Int("n", 20, "cases")
	seed := flag.Uint64("seed", 1, "seed")
	only := flag.Int("only", -1, "run only the case with this index (replay)")
	shrink := flag.Bool("shrink", false, "with -only: minimise the history while the difference class stays the same")
	flag.Parse()
	logrus.SetOutput(io.Discard)
	logrus.SetLevel(logrus.PanicLevel)
	u := universe()
	enc := json.NewEncoder(os.Stdout)
	st := &stats{}
	for i := 0; i < *n; i++ {
		if *only >= 0 && i != *only {
			continue
		}
		if *shrink {
			if err := enc.Encode(shrinkCase(*seed, i, u)); err != nil {
				panic(err)
			}
			continue
		}
		if err := enc.Encode(runCase(*seed, i, u, st)); err != nil {
			panic(err)
		}
	}
	// the L3 route resolver slice: one case for every three graph cases
	reflag := probeReflag()
	for i := 0; i < *n/3; i++ {
		if *only >= 0 {
			break
		}
		if err := enc.Encode(l3Case(*seed, i, reflag)); err != nil {
			panic(err)
		}
	}
	// the VXLAN resolver slice (IPv4 + IPv6): one case for every three graph cases
	for i := 0; i < *n/3; i++ {
		if *only >= 0 {
			break
		}
		if err := enc.Encode(vxCase(*seed, i)); err != nil {
			panic(err)
		}
	}
	_ = enc.Encode(map[string]any{"stats": map[string]int{
		"events": st.events, "flushes": st.flushes, "flush_points_compared": st.checkpoints, "reverts": st.reverts, "duplicates": st.dups,
		"spurious_deletes": st.spuriousDel, "deletes_while_referenced": st.delRef,
		"match_start_stop_between_flushes": st.flapped, "history_messages": st.msgsHist, "fresh_messages": st.msgsFresh,
	}})
}
