//go:build verif

package main

// The bounded universe of datastore keys the C01 driver draws histories from, and the deterministic
// "variant -> value" builders.  A value is always rebuilt from (key, variant) so that the history graph and
// the fresh graphs never share (possibly retained) pointers.

import (
	"fmt"
	"net/netip"
	"sort"

	v3 "github.com/projectcalico/api/pkg/apis/projectcalico/v3"
	"github.com/projectcalico/api/pkg/lib/numorstring"
	metav1 "k8s.io/apimachinery/pkg/apis/meta/v1"

	"github.com/projectcalico/calico/lib/std/uniquelabels"
	"github.com/projectcalico/calico/libcalico-go/lib/apis/internalapi"
	"github.com/projectcalico/calico/libcalico-go/lib/backend/encap"
	"github.com/projectcalico/calico/libcalico-go/lib/backend/model"
	calinet "github.com/projectcalico/calico/libcalico-go/lib/net"
)

const localHost = "localhostname"

var hosts = []string{localHost, "remotehostname", "remotehostname2"}

type rng struct{ s uint64 }

func (r *rng) next() uint64 {
	r.s += 0x9e3779b97f4a7c15
	z := r.s
	z = (z ^ (z >> 30)) * 0xbf58476d1ce4e5b9
	z = (z ^ (z >> 27)) * 0x94d049bb133111eb
	return z ^ (z >> 31)
}
func (r *rng) intn(n int) int    { return int(r.next() % uint64(n)) }
func (r *rng) chance(p int) bool { return r.intn(100) < p }
func (r *rng) perm(n int) []int {
	p := make([]int, n)
	for i := range p {
		p[i] = i
	}
	for i := n - 1; i > 0; i-- {
		j := r.intn(i + 1)
		p[i], p[j] = p[j], p[i]
	}
	return p
}
func pick[T any](r *rng, xs []T) T { return xs[r.intn(len(xs))] }

type ukey struct {
	name  string // short name used in the printed history
	class string // wep hep prof plabel tier pol netset pool block node hcfg
	key   model.Key
	build func(variant uint64) any
	nvar  int // number of distinct variants worth drawing
}

func mustNet(s string) calinet.IPNet { return calinet.MustParseNetwork(s) }

var selectors = []string{
	"all()", "a == 'a'", "b == 'b'", "role == 'web'", "role == 'db'", "has(tag-1)", "profile == 'prof-1'",
	"!has(a)", "a == 'a' && b == 'b'", "role in {'web','db'}", "tag-1 == 'foobar'",
}

var (
	protoTCP = numorstring.ProtocolFromStringV1("tcp")
	protoUDP = numorstring.ProtocolFromStringV1("udp")
	orders   = []*float64{nil, fp(10), fp(20), fp(30), fp(20)}
)

func fp(f float64) *float64 { return &f }

func genLabels(r *rng) map[string]string {
	l := map[string]string{}
	if r.chance(60) {
		l["a"] = pick(r, []string{"a", "a", "x"})
	}
	if r.chance(50) {
		l["b"] = pick(r, []string{"b", "c"})
	}
	if r.chance(50) {
		l["role"] = pick(r, []string{"web", "db"})
	}
	return l
}

func genProfiles(r *rng) []string {
	var out []string
	for _, p := range []string{"prof-1", "prof-2", "prof-3", "prof-missing", "kns.ns1"} {
		if r.chance(35) {
			out = append(out, p)
		}
	}
	if len(out) > 1 && r.chance(30) {
		out[0], out[len(out)-1] = out[len(out)-1], out[0]
	}
	return out
}

func genPorts(r *rng) []model.EndpointPort {
	var ps []model.EndpointPort
	if r.chance(50) {
		ps = append(ps, model.EndpointPort{Name: "tcpport", Protocol: protoTCP, Port: uint16(8080 + r.intn(2))})
	}
	if r.chance(30) {
		ps = append(ps, model.EndpointPort{Name: "udpport", Protocol: protoUDP, Port: 9091})
	}
	if r.chance(15) {
		ps = append(ps, model.EndpointPort{Name: "tcpport", Protocol: protoTCP, Port: 8082})
	}
	return ps
}

func wepKey(host, wl string) model.WorkloadEndpointKey {
	return model.WorkloadEndpointKey{Hostname: host, OrchestratorID: "orch", WorkloadID: wl, EndpointID: "ep"}
}

func buildWEP(iface string, ips4, ips6 []string) func(uint64) any {
	return func(v uint64) any {
		r := &rng{s: v*7919 + 13}
		ep := &model.WorkloadEndpoint{State: "active", Name: iface}
		n := 1 + r.intn(2)
		seen := map[string]bool{}
		for i := 0; i < n; i++ {
			ip := pick(r, ips4)
			if !seen[ip] {
				seen[ip] = true
				ep.IPv4Nets = append(ep.IPv4Nets, mustNet(ip))
			}
		}
		if r.chance(25) {
			ep.IPv6Nets = append(ep.IPv6Nets, mustNet(pick(r, ips6)))
		}
		ep.Labels = uniquelabels.Make(genLabels(r))
		ep.ProfileIDs = genProfiles(r)
		ep.Ports = genPorts(r)
		return ep
	}
}

func buildHEP(ips4 []string) func(uint64) any {
	return func(v uint64) any {
		r := &rng{s: v*104729 + 5}
		ep := &model.HostEndpoint{}
		if r.chance(60) {
			ep.Name = "eth1"
		}
		if ep.Name == "" || r.chance(50) {
			ep.ExpectedIPv4Addrs = append(ep.ExpectedIPv4Addrs, calinet.MustParseIP(pick(r, ips4)))
		}
		ep.Labels = uniquelabels.Make(genLabels(r))
		ep.ProfileIDs = genProfiles(r)
		ep.Ports = genPorts(r)
		return ep
	}
}

func genRule(r *rng) model.Rule {
	rule := model.Rule{Action: pick(r, []string{"", "allow", "deny", "allow"})}
	switch r.intn(9) {
	case 0:
		rule.SrcSelector = pick(r, selectors)
	case 1:
		rule.DstSelector = pick(r, selectors)
	case 2:
		rule.NotSrcSelector = pick(r, selectors)
	case 3:
		n := mustNet(pick(r, []string{"12.0.0.0/24", "10.0.0.0/16", "192.168.0.0/24"}))
		rule.SrcNets = []*calinet.IPNet{&n}
	case 4:
		rule.Protocol = &protoTCP
		rule.SrcPorts = []numorstring.Port{{PortName: "tcpport"}}
	case 5:
		rule.Protocol = &protoTCP
		rule.DstSelector = pick(r, selectors)
		rule.DstPorts = []numorstring.Port{{PortName: "tcpport"}, numorstring.SinglePort(80)}
	case 6:
		rule.Protocol = &protoUDP
		rule.SrcSelector = pick(r, selectors)
		rule.NotSrcPorts = []numorstring.Port{{PortName: "udpport"}}
	case 7:
		rule.SrcSelector = pick(r, selectors)
		rule.DstSelector = pick(r, selectors)
	case 8:
		// no match criteria
	}
	return rule
}

func genRules(r *rng) []model.Rule {
	n := r.intn(3)
	out := make([]model.Rule, 0, n)
	for i := 0; i < n; i++ {
		out = append(out, genRule(r))
	}
	return out
}

func buildProfileRules(v uint64) any {
	r := &rng{s: v*31337 + 3}
	return &model.ProfileRules{InboundRules: genRules(r), OutboundRules: genRules(r)}
}

func buildProfileLabels(name string) func(uint64) any {
	return func(v uint64) any {
		r := &rng{s: v*271 + 9}
		l := map[string]string{}
		if r.chance(70) {
			l["profile"] = name
		}
		if r.chance(50) {
			l["tag-1"] = pick(r, []string{"", "foobar"})
		}
		if r.chance(25) {
			l["a"] = "a"
		}
		return &v3.Profile{
			TypeMeta:   metav1.TypeMeta{Kind: v3.KindProfile, APIVersion: v3.GroupVersionCurrent},
			ObjectMeta: metav1.ObjectMeta{Name: name},
			Spec:       v3.ProfileSpec{LabelsToApply: l},
		}
	}
}

func buildTier(v uint64) any {
	r := &rng{s: v*17 + 1}
	return &model.Tier{Order: pick(r, orders), DefaultAction: pick(r, []v3.Action{"", v3.Deny, v3.Pass})}
}

func buildPolicy(ns string) func(uint64) any {
	return func(v uint64) any {
		r := &rng{s: v*65537 + 11}
		p := &model.Policy{
			Namespace:     ns,
			Tier:          pick(r, []string{"default", "default", "tier-1", "tier-2"}),
			Order:         pick(r, orders),
			Selector:      pick(r, selectors),
			InboundRules:  genRules(r),
			OutboundRules: genRules(r),
			Types:         pick(r, [][]string{{"ingress"}, {"egress"}, {"ingress", "egress"}, {"ingress", "egress"}}),
		}
		if ns != "" {
			p.Selector = "(" + p.Selector + ") && projectcalico.org/namespace == '" + ns + "'"
			if r.chance(60) {
				p.Selector = pick(r, selectors) // keep it matchable by the small label vocabulary
			}
		}
		switch r.intn(12) {
		case 0:
			p.DoNotTrack, p.ApplyOnForward = true, true
		case 1:
			p.PreDNAT, p.ApplyOnForward = true, true
			p.Types = []string{"ingress"}
			p.OutboundRules = nil
		case 2:
			p.ApplyOnForward = true
		case 3:
			p.PerformanceHints = []v3.PolicyPerformanceHint{v3.PerfHintAssumeNeededOnEveryNode}
		}
		return p
	}
}

func buildNetSet(v uint64) any {
	r := &rng{s: v*911 + 7}
	ns := &model.NetworkSet{Labels: uniquelabels.Make(genLabels(r))}
	for _, n := range []string{"12.0.0.0/24", "12.1.0.0/24", "10.0.0.1/32", "feed:beef::/32", "12.0.0.0/25"} {
		if r.chance(40) {
			ns.Nets = append(ns.Nets, mustNet(n))
		}
	}
	return ns
}

func buildPool(cidr string) func(uint64) any {
	return func(v uint64) any {
		r := &rng{s: v*53 + 2}
		p := &model.IPPool{CIDR: mustNet(cidr), Masquerade: r.chance(50), Disabled: r.chance(10)}
		switch r.intn(5) {
		case 0:
			p.VXLANMode = encap.Always
		case 1:
			p.VXLANMode = encap.CrossSubnet
		case 2:
			p.IPIPMode = encap.Always
		case 3:
			p.IPIPMode = encap.CrossSubnet
		}
		return p
	}
}

func buildBlock(cidr string, size int) func(uint64) any {
	return func(v uint64) any {
		r := &rng{s: v*389 + 4}
		b := &model.AllocationBlock{CIDR: mustNet(cidr), Allocations: make([]*int, size)}
		if !r.chance(10) {
			a := "host:" + pick(r, hosts)
			b.Affinity = &a
		}
		b.Attributes = []model.AllocationAttribute{}
		for i := 0; i < size; i++ {
			if i > 0 && i < 4 && r.chance(40) {
				idx := len(b.Attributes)
				attr := model.AllocationAttribute{}
				if r.chance(80) {
					attr.ActiveOwnerAttrs = map[string]string{model.IPAMBlockAttributeNode: pick(r, hosts)}
				}
				b.Attributes = append(b.Attributes, attr)
				b.Allocations[i] = &idx
			} else {
				b.Unallocated = append(b.Unallocated, i)
			}
		}
		return b
	}
}

// node variant v: v/3 selects the IPv4 side and the labels, v%3 the IPv6 address (none / a / b), so that two
// variants with the same v/3 differ ONLY in spec.bgp.ipv6Address (in-place IPv6 re-addressing).
func buildNode(name string, idx int) func(uint64) any {
	return func(v uint64) any {
		r := &rng{s: (v/3)*7 + uint64(idx)}
		n := &internalapi.Node{
			TypeMeta:   metav1.TypeMeta{Kind: internalapi.KindNode, APIVersion: v3.GroupVersionCurrent},
			ObjectMeta: metav1.ObjectMeta{Name: name},
		}
		switch r.intn(6) {
		case 0: // no BGP spec at all
		case 1:
			n.Spec.BGP = &internalapi.NodeBGPSpec{IPv4Address: fmt.Sprintf("192.168.0.%d/32", idx+1)}
		case 2:
			n.Spec.BGP = &internalapi.NodeBGPSpec{IPv4Address: fmt.Sprintf("192.168.%d.%d/24", idx, idx+1)}
		case 3:
			n.Spec.BGP = &internalapi.NodeBGPSpec{IPv4Address: "192.168.0.9/24"} // shared between nodes
		default:
			n.Spec.BGP = &internalapi.NodeBGPSpec{IPv4Address: fmt.Sprintf("192.168.0.%d/24", idx+1)}
		}
		if r.chance(30) {
			n.Labels = map[string]string{"rack": pick(r, []string{"r1", "r2"})}
		}
		if n.Spec.BGP != nil {
			switch v % 3 {
			case 1:
				n.Spec.BGP.IPv6Address = fmt.Sprintf("dead:beef::%d/64", idx+1)
			case 2:
				n.Spec.BGP.IPv6Address = fmt.Sprintf("dead:beef::1:%d/64", idx+1)
			}
		}
		return n
	}
}

func buildTunnelAddrV6(idx int) func(uint64) any {
	return func(v uint64) any {
		return fmt.Sprintf("fd00:10:%d::%d", idx, 1+v%2)
	}
}

func buildTunnelMACV6(idx int) func(uint64) any {
	return func(v uint64) any {
		return fmt.Sprintf("10:f3:27:5c:47:%02x", idx*16+int(v%2))
	}
}

func buildTunnelAddr(idx int) func(uint64) any {
	return func(v uint64) any {
		return fmt.Sprintf("10.0.%d.%d", idx, v%2)
	}
}

func buildTunnelMAC(idx int) func(uint64) any {
	return func(v uint64) any {
		return fmt.Sprintf("66:74:c5:72:3f:%02x", idx*16+int(v%2))
	}
}

func buildSpecialProfile(name, prefix string) func(uint64) any {
	return func(v uint64) any {
		r := &rng{s: v*613 + 29}
		l := map[string]string{}
		if r.chance(70) {
			l[prefix+"team"] = pick(r, []string{"red", "blue"})
		}
		if r.chance(40) {
			l[prefix+"a"] = "a"
		}
		if r.chance(30) {
			l["a"] = "a" // an unprefixed label is passed on as it is and also inherited by the endpoints
		}
		return &v3.Profile{
			TypeMeta:   metav1.TypeMeta{Kind: v3.KindProfile, APIVersion: v3.GroupVersionCurrent},
			ObjectMeta: metav1.ObjectMeta{Name: name},
			Spec:       v3.ProfileSpec{LabelsToApply: l},
		}
	}
}

func buildWireguard(v uint64) any {
	r := &rng{s: v*97 + 41}
	w := &model.Wireguard{}
	if r.chance(75) {
		w.PublicKey = pick(r, []string{"jlkVyQYooZYzI2wFfNhSZez5eWh44yfq1wKVjLvSXgY=", "2g8sqKY+9U6WUUDU9UgOBEtN4IDJtQ6hTuTaMDBFmiI="})
		ip := calinet.MustParseIP(pick(r, []string{"192.168.100.1", "192.168.100.2"}))
		w.InterfaceIPv4Addr = &ip
	}
	if r.chance(30) {
		w.PublicKeyV6 = "vP2+rAqYjSZ3LrGzYRrRBHQX0ZQmRnbuYIjY1CYKyjw="
		ip := calinet.MustParseIP("fd00::1")
		w.InterfaceIPv6Addr = &ip
	}
	return w
}

func universe() []*ukey {
	var u []*ukey
	add := func(name, class string, key model.Key, nvar int, b func(uint64) any) {
		u = append(u, &ukey{name: name, class: class, key: key, build: b, nvar: nvar})
	}
	loc4 := []string{"10.0.0.1/32", "10.0.0.2/32", "10.0.0.3/32", "10.0.1.2/32"}
	rem4 := []string{"10.0.1.1/32", "10.0.1.2/32", "11.0.0.1/32", "10.0.0.2/32"}
	v6 := []string{"fc00:fe11::1/128", "fc00:fe11::2/128"}
	add("w1", "wep", wepKey(localHost, "wl1"), 40, buildWEP("cali1", loc4, v6))
	add("w2", "wep", wepKey(localHost, "wl2"), 40, buildWEP("cali2", loc4, v6))
	add("w3", "wep", wepKey(hosts[1], "wl3"), 40, buildWEP("cali3", rem4, v6))
	add("h1", "hep", model.HostEndpointKey{Hostname: localHost, EndpointID: "h1"}, 30, buildHEP([]string{"192.168.0.1", "10.0.0.1"}))
	add("h2", "hep", model.HostEndpointKey{Hostname: hosts[1], EndpointID: "h2"}, 30, buildHEP([]string{"192.168.0.2", "10.0.1.1"}))
	for _, p := range []string{"prof-1", "prof-2", "prof-3"} {
		add("R"+p, "prof", model.ProfileRulesKey{ProfileKey: model.ProfileKey{Name: p}}, 30, buildProfileRules)
		add("L"+p, "plabel", model.ResourceKey{Kind: v3.KindProfile, Name: p}, 12, buildProfileLabels(p))
	}
	for _, t := range []string{"default", "tier-1", "tier-2"} {
		add("T"+t, "tier", model.TierKey{Name: t}, 12, buildTier)
	}
	for _, p := range []string{"pol-1", "pol-2", "pol-3"} {
		add(p, "pol", model.PolicyKey{Name: p, Kind: v3.KindGlobalNetworkPolicy}, 400, buildPolicy(""))
	}
	add("np-1", "pol", model.PolicyKey{Name: "np-1", Namespace: "ns1", Kind: v3.KindNetworkPolicy}, 400, buildPolicy("ns1"))
	add("ns-1", "netset", model.NetworkSetKey{Name: "netset-1"}, 30, buildNetSet)
	add("ns-2", "netset", model.NetworkSetKey{Name: "netset-2"}, 30, buildNetSet)
	add("pool-10", "pool", model.IPPoolKey{CIDR: netip.MustParsePrefix("10.0.0.0/16")}, 20, buildPool("10.0.0.0/16"))
	add("pool-11", "pool", model.IPPoolKey{CIDR: netip.MustParsePrefix("11.0.0.0/16")}, 20, buildPool("11.0.0.0/16"))
	add("blk-10.0.0", "block", model.BlockKey{CIDR: netip.MustParsePrefix("10.0.0.0/29")}, 40, buildBlock("10.0.0.0/29", 8))
	add("blk-10.0.1", "block", model.BlockKey{CIDR: netip.MustParsePrefix("10.0.1.0/29")}, 40, buildBlock("10.0.1.0/29", 8))
	add("blk-11.0.0", "block", model.BlockKey{CIDR: netip.MustParsePrefix("11.0.0.0/30")}, 40, buildBlock("11.0.0.0/30", 4))
	for i, h := range hosts {
		add("node-"+h, "node", model.ResourceKey{Kind: internalapi.KindNode, Name: h}, 36, buildNode(h, i))
		if i > 0 {
			add("vtep6-"+h, "hcfg", model.HostConfigKey{Hostname: h, Name: "IPv6VXLANTunnelAddr"}, 2, buildTunnelAddrV6(i))
		}
		add("vtep-"+h, "hcfg", model.HostConfigKey{Hostname: h, Name: "IPv4VXLANTunnelAddr"}, 2, buildTunnelAddr(i))
	}
	add("vmac-"+hosts[1], "hcfg", model.HostConfigKey{Hostname: hosts[1], Name: "VXLANTunnelMACAddr"}, 2, buildTunnelMAC(1))
	add("vmac6-"+hosts[1], "hcfg", model.HostConfigKey{Hostname: hosts[1], Name: "VXLANTunnelMACAddrV6"}, 2, buildTunnelMACV6(1))
	// profiles with dataplane significance (ProfileDecoder): a Kubernetes namespace and a service account
	add("Lkns.ns1", "plabel", model.ResourceKey{Kind: v3.KindProfile, Name: "kns.ns1"}, 8, buildSpecialProfile("kns.ns1", "pcns."))
	add("Lksa.ns1.sa1", "plabel", model.ResourceKey{Kind: v3.KindProfile, Name: "ksa.ns1.sa1"}, 8, buildSpecialProfile("ksa.ns1.sa1", "pcsa."))
	add("wg-"+hosts[1], "wg", model.WireguardKey{NodeName: hosts[1]}, 8, buildWireguard)
	return u
}

func sortedKeys[M ~map[string]V, V any](m M) []string {
	out := make([]string, 0, len(m))
	for k := range m {
		out = append(out, k)
	}
	sort.Strings(out)
	return out
}

func mustAddr(s string) netip.Addr { return netip.MustParseAddr(s) }
