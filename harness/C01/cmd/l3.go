//go:build verif

package main

// L3 cases: the REAL felix/calc L3RouteResolver alone, fed IPAM block values and local workload endpoints over a
// two-level universe (3 /29 blocks 10.0.b.0/29, their addresses 10.0.b.i = address number 8b+i, 3 nodes; node 0 is
// the local one).  The route table its callbacks add up to is compared in Coq (Spec.check_l3) with the model
// L3Reflag.l3_node and with L3Reflag.route_of of the final inputs.

import (
	"fmt"
	"net/netip"
	"sort"
	"strings"

	"github.com/projectcalico/calico/felix/calc"
	"github.com/projectcalico/calico/felix/proto"
	"github.com/projectcalico/calico/libcalico-go/lib/backend/api"
	"github.com/projectcalico/calico/libcalico-go/lib/backend/model"
	calinet "github.com/projectcalico/calico/libcalico-go/lib/net"
)

type l3rec struct {
	tbl map[string]*proto.RouteUpdate
}

func (r *l3rec) OnRouteUpdate(u *proto.RouteUpdate) { r.tbl[u.Dst] = u }
func (r *l3rec) OnRouteRemove(dst string)           { delete(r.tbl, dst) }

type gop struct {
	kind   string // block blockdel wep wepdel
	b, a   int
	aff    int // -1 none
	allocs [][2]int
}

func (g gop) coq() string {
	switch g.kind {
	case "block":
		aff := "None"
		if g.aff >= 0 {
			aff = fmt.Sprintf("(Some %d%%N)", g.aff)
		}
		as := make([]string, len(g.allocs))
		for i, x := range g.allocs {
			as[i] = fmt.Sprintf("(%d%%N,%d%%N)", x[0], x[1])
		}
		return fmt.Sprintf("GBlock %d%%N %s [%s]", g.b, aff, strings.Join(as, ";"))
	case "blockdel":
		return fmt.Sprintf("GBlockDel %d%%N", g.b)
	case "wep":
		return fmt.Sprintf("GWep %d%%N", g.a)
	}
	return fmt.Sprintf("GWepDel %d%%N", g.a)
}

func (g gop) String() string {
	switch g.kind {
	case "block":
		return fmt.Sprintf("block %d aff=%d allocs=%v", g.b, g.aff, g.allocs)
	case "blockdel":
		return fmt.Sprintf("del block %d", g.b)
	case "wep":
		return fmt.Sprintf("wep %d", g.a)
	}
	return fmt.Sprintf("del wep %d", g.a)
}

func applyGop(rr *calc.L3RouteResolver, g gop) {
	switch g.kind {
	case "block", "blockdel":
		key := model.BlockKey{CIDR: netip.MustParsePrefix(fmt.Sprintf("10.0.%d.0/29", g.b))}
		if g.kind == "blockdel" {
			rr.OnBlockUpdate(api.Update{KVPair: model.KVPair{Key: key}, UpdateType: api.UpdateTypeKVDeleted})
			return
		}
		blk := &model.AllocationBlock{CIDR: mustNet(fmt.Sprintf("10.0.%d.0/29", g.b)), Allocations: make([]*int, 8)}
		if g.aff >= 0 {
			a := "host:" + hosts[g.aff]
			blk.Affinity = &a
		}
		alloc := map[int]int{}
		for _, x := range g.allocs {
			alloc[x[0]%8] = x[1]
		}
		for i := 0; i < 8; i++ {
			if n, ok := alloc[i]; ok {
				idx := len(blk.Attributes)
				blk.Attributes = append(blk.Attributes, model.AllocationAttribute{
					ActiveOwnerAttrs: map[string]string{model.IPAMBlockAttributeNode: hosts[n]}})
				blk.Allocations[i] = &idx
			} else {
				blk.Unallocated = append(blk.Unallocated, i)
			}
		}
		rr.OnBlockUpdate(api.Update{KVPair: model.KVPair{Key: key, Value: blk}, UpdateType: api.UpdateTypeKVNew})
	case "wep", "wepdel":
		key := model.WorkloadEndpointKey{Hostname: localHost, OrchestratorID: "orch", WorkloadID: fmt.Sprintf("wl%d", g.a), EndpointID: "ep"}
		if g.kind == "wepdel" {
			rr.OnWorkloadUpdate(api.Update{KVPair: model.KVPair{Key: key}, UpdateType: api.UpdateTypeKVDeleted})
			return
		}
		ep := &model.WorkloadEndpoint{State: "active", Name: fmt.Sprintf("cali%d", g.a),
			IPv4Nets: []calinet.IPNet{mustNet(fmt.Sprintf("10.0.%d.%d/32", g.a/8, g.a%8))}}
		rr.OnWorkloadUpdate(api.Update{KVPair: model.KVPair{Key: key, Value: ep}, UpdateType: api.UpdateTypeKVNew})
	}
}

func runL3(ops []gop) (tbl map[string]*proto.RouteUpdate, panicked string) {
	defer func() {
		if p := recover(); p != nil {
			panicked = fmt.Sprint(p)
		}
	}()
	rec := &l3rec{tbl: map[string]*proto.RouteUpdate{}}
	rr := calc.NewL3RouteResolver(localHost, rec, "CalicoIPAM")
	rr.OnAlive = func() {}
	for _, g := range ops {
		applyGop(rr, g)
	}
	return rec.tbl, ""
}

// does this tree re-flag the routes contained in a block whose route changes?  (workload first, block second)
func probeReflag() bool {
	tbl, _ := runL3([]gop{{kind: "wep", a: 1}, {kind: "block", b: 0, aff: 1}})
	r := tbl["10.0.0.1/32"]
	return r != nil && r.Borrowed
}

func nodeNum(name string) int {
	for i, h := range hosts {
		if h == name {
			return i
		}
	}
	return 99
}

func l3Case(seed uint64, idx int, reflag bool) map[string]any {
	r := caseRng(seed^0x5bd1e995, idx)
	n := 6 + r.intn(30)
	var ops []gop
	weps := map[int]bool{}
	blocks := map[int]bool{}
	for len(ops) < n {
		switch x := r.intn(100); {
		case x < 40:
			g := gop{kind: "block", b: r.intn(3), aff: r.intn(4) - 1}
			for i := 1; i <= 4; i++ {
				if r.chance(35) {
					g.allocs = append(g.allocs, [2]int{8*g.b + i, r.intn(3)})
				}
			}
			blocks[g.b] = true
			ops = append(ops, g)
		case x < 52:
			b := r.intn(3)
			delete(blocks, b)
			ops = append(ops, gop{kind: "blockdel", b: b})
		case x < 85:
			a := 8*r.intn(3) + 1 + r.intn(4)
			weps[a] = true
			ops = append(ops, gop{kind: "wep", a: a})
		default:
			a := 8*r.intn(3) + 1 + r.intn(4)
			delete(weps, a)
			ops = append(ops, gop{kind: "wepdel", a: a})
		}
	}
	tbl, panicked := runL3(ops)
	plain := panicked == ""
	var rows []string
	var text []string
	keys := make([]string, 0, len(tbl))
	for k := range tbl {
		keys = append(keys, k)
	}
	sort.Strings(keys)
	borrowed := false
	for _, dst := range keys {
		u := tbl[dst]
		var b, i, l int
		if _, err := fmt.Sscanf(dst, "10.0.%d.%d/%d", &b, &i, &l); err != nil {
			plain = false
			continue
		}
		c := fmt.Sprintf("inr %d%%N", 8*b+i)
		if l == 29 {
			c = fmt.Sprintf("inl %d%%N", b)
		}
		known := proto.RouteType_LOCAL_WORKLOAD | proto.RouteType_REMOTE_WORKLOAD
		if u.Types&^known != 0 || u.IpPoolType != proto.IPPoolType_NONE || u.DstNodeIp != "" || u.SameSubnet || u.NatOutgoing || u.TunnelType != nil {
			plain = false
		}
		if u.Borrowed {
			borrowed = true
		}
		rows = append(rows, fmt.Sprintf("(%s, R %d%%N %t %t %t %t)", c, nodeNum(u.DstNodeName),
			u.Types&proto.RouteType_LOCAL_WORKLOAD != 0, u.Types&proto.RouteType_REMOTE_WORKLOAD != 0, u.LocalWorkload, u.Borrowed))
		text = append(text, fmt.Sprint(u))
	}
	var cops, sops []string
	for _, g := range ops {
		cops = append(cops, g.coq())
		sops = append(sops, g.String())
	}
	coq := fmt.Sprintf("(mkL3 (mkL3Case %t [%s] [%s] %t))", reflag, strings.Join(cops, ";"), strings.Join(rows, ";"), plain)
	tags := []string{"kind:l3-resolver"}
	if borrowed {
		tags = append(tags, "l3:borrowed-route")
	}
	sample := map[string]any{"seed": seed, "index": idx, "kind": "l3", "ops": strings.Join(sops, "; "), "table": text, "reflag": reflag}
	if panicked != "" {
		sample["panic"] = panicked
	}
	return map[string]any{"coq": coq, "nt": borrowed && len(weps) > 0, "key": "l3|" + strings.Join(sops, ";"),
		"sample": sample, "tags": tags, "diff_class": "l3"}
}
