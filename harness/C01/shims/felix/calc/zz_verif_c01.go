//go:build verif

package calc

// Add-only access for the C01 driver: lets it register an additional (purely recording)
// PolicyMatchListener on the ActiveRulesCalculator of a graph built by NewCalculationGraph.
// The listener is appended after the PolicyResolver, so the graph's own behaviour is unchanged.
func (g *CalcGraph) VerifC01AddMatchListener(l PolicyMatchListener) {
	g.activeRulesCalculator.RegisterPolicyMatchListener(l)
}
