//go:build verif

// C17 correspondence driver: runs the real felix/routetable.RouteTable with the real ownership
// policies over the mocknetlink dataplane on generated histories (desired-route updates, interface
// churn, routes added/removed behind Felix's back, netlink failures injected through the mock's
// FailNext* flags at deterministically chosen calls) and prints one JSON line per history carrying
// the history and the kernel contents observed after each Apply as a Coq term.
package main

import (
	"encoding/binary"
	"encoding/json"
	"flag"
	"fmt"
	"io"
	"net"
	"os"
	"sort"
	"strings"
	"time"

	"github.com/onsi/gomega"
	"github.com/sirupsen/logrus"
	"github.com/vishvananda/netlink"
	"golang.org/x/sys/unix"

	"github.com/projectcalico/calico/felix/ifacemonitor"
	"github.com/projectcalico/calico/felix/ip"
	"github.com/projectcalico/calico/felix/netlinkshim"
	"github.com/projectcalico/calico/felix/netlinkshim/mocknetlink"
	"github.com/projectcalico/calico/felix/routetable"
	"github.com/projectcalico/calico/felix/routetable/ownershippol"
	"github.com/projectcalico/calico/felix/timeshim/mocktime"
	"github.com/projectcalico/calico/lib/logrusr"
)

type rng struct{ s uint64 }

func (r *rng) next() uint64 {
	r.s += 0x9e3779b97f4a7c15
	z := r.s
	z = (z ^ (z >> 30)) * 0xbf58476d1ce4e5b9
	z = (z ^ (z >> 27)) * 0x94d049bb133111eb
	return z ^ (z >> 31)
}
func (r *rng) intn(n int) int      { return int(r.next() % uint64(n)) }
func (r *rng) chance(p int) bool   { return r.intn(100) < p }
func pick[T any](r *rng, xs []T) T { return xs[r.intn(len(xs))] }

type line struct {
	Coq    string         `json:"coq"`
	NT     bool           `json:"nt"`
	Key    string         `json:"key"`
	Sample map[string]any `json:"sample,omitempty"`
	Tags   []string       `json:"tags"`
}

// ---------- universe ----------

var ifNames = []string{"cali1", "cali2", "eth0", "vxlan.calico"}
var classes = []routetable.RouteClass{routetable.RouteClassLocalWorkload, routetable.RouteClassVXLANTunnel, routetable.RouteClassNoEncap}

const nCIDR = 8 // 0..5 used by Felix's desired routes, 6..7 only by other software

func cidrStr(id int) string { return fmt.Sprintf("10.%d.0.%d/32", id/4, id+1) }
func cidrOf(id int) ip.CIDR { return ip.MustParseCIDROrIP(cidrStr(id)) }

var cidrID = map[string]int{}

func init() {
	for i := 0; i < nCIDR; i++ {
		cidrID[cidrStr(i)] = i
	}
}

// addresses are 172.16.0.<n> with n in 1..250, printed as the small number n (0 = no address)
func addr(n uint32) net.IP {
	if n == 0 {
		return nil
	}
	if n > 250 {
		panic("address id out of range")
	}
	b := make(net.IP, 4)
	binary.BigEndian.PutUint32(b, 0xac100000+n)
	return b
}
func addrN(a net.IP) uint32 {
	if a == nil {
		return 0
	}
	v4 := a.To4()
	if v4 == nil {
		panic("v6 address in v4 run")
	}
	n := binary.BigEndian.Uint32(v4) - 0xac100000
	if n == 0 || n > 250 {
		panic("address outside the generated range")
	}
	return n
}

// ---------- configurations ----------

type config struct {
	name     string
	pol      routetable.OwnershipPolicy
	coqPol   string
	table    int
	defProto int
	src      uint32
	grace    int // seconds
	exclProt int // a protocol that makes any route Felix's under this policy
}

func coqStrs(xs []string) string {
	q := make([]string, len(xs))
	for i, x := range xs {
		q[i] = fmt.Sprintf("\"%s\"%%string", x)
	}
	return "[" + strings.Join(q, "; ") + "]"
}
func coqNs(xs []netlink.RouteProtocol) string {
	q := make([]string, len(xs))
	for i, x := range xs {
		q[i] = fmt.Sprintf("%d", int(x))
	}
	return "[" + strings.Join(q, "; ") + "]%N"
}
func coqBool(b bool) string {
	if b {
		return "true"
	}
	return "false"
}

func mainPol(p *ownershippol.MainTableOwnershipPolicy) string {
	return fmt.Sprintf("(PMain %s %s %s %s %s %s)", coqStrs(p.WorkloadInterfacePrefixes), coqBool(p.RemoveNonCalicoWorkloadRoutes),
		coqStrs(p.CalicoSpecialInterfaces), coqNs(p.AllRouteProtocols), coqNs(p.ExclusiveRouteProtocols), coqBool(p.OwnBIRDIPIPRoutes))
}

func configs() []config {
	a := &ownershippol.MainTableOwnershipPolicy{
		WorkloadInterfacePrefixes:     []string{"cali"},
		RemoveNonCalicoWorkloadRoutes: true,
		AllRouteProtocols:             []netlink.RouteProtocol{unix.RTPROT_BOOT, 80},
		ExclusiveRouteProtocols:       []netlink.RouteProtocol{80},
	}
	b := ownershippol.NewMainTable("vxlan.calico", unix.RTPROT_BOOT, []string{"cali"}, false, false)
	c := ownershippol.NewMainTable("vxlan.calico", 80, []string{"cali"}, true, true)
	d := &ownershippol.ExclusiveOwnershipPolicy{InterfaceNames: []string{"cali1", "eth0"}}
	e := &ownershippol.ExclusiveOwnershipPolicy{}
	return []config{
		{"main-test-default", a, mainPol(a), 254, unix.RTPROT_BOOT, 0, 0, 80},
		{"main-boot-grace", b, mainPol(b), 254, unix.RTPROT_BOOT, 100, 10, 80},
		{"main-proto80", c, mainPol(c), 254, 80, 0, 0, 80},
		{"main-boot-grace-removeext", a, mainPol(a), 254, unix.RTPROT_BOOT, 0, 10, 80},
		{"exclusive-named", d, "(PExcl (Some " + coqStrs(d.InterfaceNames) + "))", 100, 80, 0, 0, 80},
		{"exclusive-all", e, "(PExcl None)", 100, unix.RTPROT_BOOT, 0, 10, 80},
	}
}

// ---------- failure injection: deterministic per (operation, n-th call within the Apply) ----------

type failItem struct {
	op   string // key used for counting
	coq  string // Coq nlop term
	n    int
	kind string // FErr | FEintr | FNotFound | FEintrP (Coq text built by partialKind)
	sub  int    // for connection failures: which of the three calls of newHandle fails
	// FEintrP: the whole-table dump yields the routes with these keys, then somebody else changes the kernel, then EINTR
	partial bool
	ks      [][2]int
	muts    []mut
	wasHit  bool
}

// an out-of-band change of one kernel route: r == nil deletes it
type mut struct {
	table, cid, prio int
	r                *kroute
}

func partialKind(ks [][2]int, muts []mut) (string, string) {
	var a, b, h []string
	for _, k := range ks {
		a = append(a, fmt.Sprintf("rk %d %d", k[0], k[1]))
	}
	for _, m := range muts {
		if m.r == nil {
			b = append(b, fmt.Sprintf("(kk %d %d %d, None)", m.table, m.cid, m.prio))
			h = append(h, fmt.Sprintf("del t%d %s/%d", m.table, cidrStr(m.cid), m.prio))
		} else {
			b = append(b, fmt.Sprintf("(kk %d %d %d, Some %s)", m.table, m.cid, m.prio, m.r.coq()))
			h = append(h, fmt.Sprintf("set t%d %s/%d proto=%d if=%d", m.table, cidrStr(m.cid), m.prio, m.r.proto, m.r.ifx))
		}
	}
	return "(FEintrP [" + strings.Join(a, "; ") + "] [" + strings.Join(b, "; ") + "])",
		fmt.Sprintf("partial-dump%v-then%v-EINTR", ks, h)
}

type drv struct {
	dp    *mocknetlink.MockNetlinkDataplane
	plan  []failItem
	count map[string]int
	hit   int
}

func (d *drv) check(op string) (string, int, bool) {
	it := d.checkItem(op)
	if it == nil {
		return "", 0, false
	}
	return it.kind, it.sub, true
}

func (d *drv) checkItem(op string) *failItem {
	n := d.count[op]
	d.count[op] = n + 1
	for i := range d.plan {
		f := &d.plan[i]
		if f.op == op && f.n == n {
			d.hit++
			f.wasHit = true
			return f
		}
	}
	return nil
}

func nlRoute(table, cid, prio int, k kroute) netlink.Route {
	return netlink.Route{Family: netlink.FAMILY_V4, Table: table, Dst: mustCIDR(cidrStr(cid)), Priority: prio, Type: k.typ,
		Scope: netlink.Scope(k.scope), Protocol: netlink.RouteProtocol(k.proto), LinkIndex: k.ifx, Gw: addr(k.gw), Src: addr(k.src), MTU: k.mtu}
}

func (d *drv) newHandle() (netlinkshim.Interface, error) {
	if _, sub, ok := d.check("conn"); ok {
		switch sub {
		case 0:
			d.dp.FailuresToSimulate |= mocknetlink.FailNextNewNetlink
		case 1:
			d.dp.FailuresToSimulate |= mocknetlink.FailNextSetSocketTimeout
		default:
			d.dp.FailuresToSimulate |= mocknetlink.FailNextSetStrict
		}
	}
	h, err := d.dp.NewMockNetlink()
	if err != nil {
		return nil, err
	}
	return &shim{Interface: h, d: d}, nil
}

type shim struct {
	netlinkshim.Interface
	d *drv
}

func (s *shim) LinkList() ([]netlink.Link, error) {
	if _, _, ok := s.d.check("linklist"); ok {
		s.d.dp.FailuresToSimulate |= mocknetlink.FailNextLinkList
	}
	return s.Interface.LinkList()
}

func (s *shim) LinkByName(name string) (netlink.Link, error) {
	if kind, _, ok := s.d.check("lbn:" + name); ok {
		if kind == "FNotFound" {
			s.d.dp.FailuresToSimulate |= mocknetlink.FailNextLinkByNameNotFound
		} else {
			s.d.dp.FailuresToSimulate |= mocknetlink.FailNextLinkByName
		}
	}
	return s.Interface.LinkByName(name)
}

func (s *shim) RouteListFilteredIter(family int, filter *netlink.Route, mask uint64, f func(netlink.Route) bool) error {
	op := "rlall"
	if mask&netlink.RT_FILTER_OIF != 0 {
		op = fmt.Sprintf("rlif:%d", filter.LinkIndex)
	}
	if it := s.d.checkItem(op); it != nil {
		if it.partial {
			// the dump delivers some routes, then the table is changed by somebody else and the dump is interrupted
			var all []netlink.Route
			if err := s.Interface.RouteListFilteredIter(family, filter, mask, func(r netlink.Route) bool { all = append(all, r); return true }); err != nil {
				return err
			}
			sort.Slice(all, func(i, j int) bool { return rkeyOf(&all[i]) < rkeyOf(&all[j]) })
			for _, r := range all {
				for _, k := range it.ks {
					if rkeyOf(&r) == fmt.Sprintf("%d/%d", k[0], k[1]) {
						f(r)
					}
				}
			}
			for _, m := range it.muts {
				if m.r == nil {
					s.d.dp.RemoveMockRoute(&netlink.Route{Table: m.table, Dst: mustCIDR(cidrStr(m.cid)), Priority: m.prio})
				} else {
					nl := nlRoute(m.table, m.cid, m.prio, *m.r)
					s.d.dp.AddMockRoute(&nl)
				}
			}
			return unix.EINTR
		}
		if it.kind == "FEintr" {
			// dump interrupted before anything was delivered
			return unix.EINTR
		}
		s.d.dp.FailuresToSimulate |= mocknetlink.FailNextRouteList
	}
	return s.Interface.RouteListFilteredIter(family, filter, mask, f)
}

func rkeyOf(r *netlink.Route) string {
	id, ok := cidrID[r.Dst.String()]
	if !ok {
		panic("unknown CIDR " + r.Dst.String())
	}
	return fmt.Sprintf("%d/%d", id, r.Priority)
}

func (s *shim) RouteReplace(r *netlink.Route) error {
	if kind, _, ok := s.d.check("rep:" + rkeyOf(r)); ok {
		if kind == "FNotFound" {
			return mocknetlink.ErrNotFound
		}
		s.d.dp.FailuresToSimulate |= mocknetlink.FailNextRouteReplace
	}
	return s.Interface.RouteReplace(r)
}

func (s *shim) RouteDel(r *netlink.Route) error {
	if _, _, ok := s.d.check("del:" + rkeyOf(r)); ok {
		s.d.dp.FailuresToSimulate |= mocknetlink.FailNextRouteDel
	}
	return s.Interface.RouteDel(r)
}

// ---------- one history ----------

type linkSt struct {
	idx         int
	up, running bool
}

type kroute struct {
	typ, scope int
	src        uint32
	proto      int
	onlink     bool
	gw         uint32
	ifx, mtu   int
}

func (k kroute) coq() string {
	return fmt.Sprintf("(mkr %d %d %d %d %s %d %d %d)", k.typ, k.scope, k.src, k.proto, coqBool(k.onlink), k.gw, k.ifx, k.mtu)
}

type hist struct {
	r      *rng
	cfg    config
	dp     *mocknetlink.MockNetlinkDataplane
	mt     *mocktime.MockTime
	rt     *routetable.RouteTable
	d      *drv
	links  map[string]*linkSt
	gen    map[string]int
	toTell map[string]bool
	ops    []string
	obs    []string
	sample []string
	tags   map[string]bool
	// statistics for the non-triviality rule
	applies, okApplies, failedApplies, hits, churn, foreign, conflicts int
	lastConnFail                                                       bool
	hot                                                                [][2]int
	lastChurned                                                        string
}

func (h *hist) emit(op string, human string) {
	h.ops = append(h.ops, op)
	h.sample = append(h.sample, human)
}

func (h *hist) setLink(name string, up, running bool, newIdx bool) {
	l, ok := h.links[name]
	if !ok || newIdx {
		base := 0
		for i, n := range ifNames {
			if n == name {
				base = 10 * (i + 1)
			}
		}
		h.gen[name]++
		if h.gen[name] > 9 {
			return
		}
		if ok {
			h.dp.DelIface(name)
		}
		l = &linkSt{idx: base + h.gen[name]}
		h.links[name] = l
		h.dp.AddIface(l.idx, name, up, running)
	} else {
		h.dp.SetIface(name, up, running)
	}
	l.up, l.running = up, running
	h.toTell[name] = true
	h.emit(fmt.Sprintf("ESetLink \"%s\" (mkl %d %s %s)", name, l.idx, coqBool(up), coqBool(running)),
		fmt.Sprintf("kernel: link %s idx=%d up=%v running=%v", name, l.idx, up, running))
}

func (h *hist) flush(idx int) {
	for k, r := range h.dp.RouteKeyToRoute {
		if r.LinkIndex == idx {
			delete(h.dp.RouteKeyToRoute, k)
		}
	}
	h.emit(fmt.Sprintf("EFlush %d", idx), fmt.Sprintf("kernel: flush routes via ifindex %d", idx))
}

func (h *hist) delLink(name string) {
	l, ok := h.links[name]
	if !ok {
		return
	}
	h.dp.DelIface(name)
	delete(h.links, name)
	h.toTell[name] = true
	h.emit(fmt.Sprintf("EDelLink \"%s\"", name), "kernel: link "+name+" deleted")
	h.flush(l.idx)
}

func (h *hist) tell(name string) {
	l, ok := h.links[name]
	delete(h.toTell, name)
	if !ok {
		h.rt.OnIfaceStateChanged(name, 0, ifacemonitor.StateNotPresent)
		h.emit(fmt.Sprintf("OIface \"%s\" 0 IfNP", name), "OnIfaceStateChanged("+name+", not-present)")
		return
	}
	st, cs := ifacemonitor.StateDown, "IfDown"
	if l.running {
		st, cs = ifacemonitor.StateUp, "IfUp"
	}
	h.rt.OnIfaceStateChanged(name, l.idx, st)
	h.emit(fmt.Sprintf("OIface \"%s\" %d %s", name, l.idx, cs), fmt.Sprintf("OnIfaceStateChanged(%s, %d, %s)", name, l.idx, st))
}

var ttypes = []struct {
	t   routetable.TargetType
	coq string
}{
	{routetable.TargetTypeLinkLocalUnicast, "TLinkLocal"}, {routetable.TargetTypeVXLAN, "TVXLAN"},
	{routetable.TargetTypeGlobalUnicast, "TGlobal"}, {routetable.TargetType(""), "TDefault"},
	{routetable.TargetTypeNoEncap, "TNoEncap"}, {routetable.TargetTypeOnLink, "TOnLink"},
}
var noifTypes = []struct {
	t   routetable.TargetType
	coq string
}{
	{routetable.TargetTypeBlackhole, "TBlackhole"}, {routetable.TargetTypeUnreachable, "TUnreachable"},
	{routetable.TargetTypeProhibit, "TProhibit"}, {routetable.TargetTypeThrow, "TThrow"}, {routetable.TargetTypeLocal, "TLocal"},
}

// genTarget makes a target for (iface, cidr) whose kernel route the ownership policy recognises as Felix's
// (that is how Felix's managers use the RouteTable); returns the Go value and its Coq form.
func (h *hist) genTarget(name string, cid, prio int) (routetable.Target, string) {
	r := h.r
	var tt routetable.TargetType
	var tcoq string
	if name == routetable.InterfaceNone {
		x := pick(r, noifTypes)
		tt, tcoq = x.t, x.coq
	} else {
		x := pick(r, ttypes)
		tt, tcoq = x.t, x.coq
	}
	var gw, src uint32
	if name != routetable.InterfaceNone && r.chance(40) {
		gw = uint32(1 + r.intn(3))
	}
	if r.chance(15) {
		src = uint32(11 + r.intn(2))
	}
	proto := 0
	if r.chance(20) {
		proto = h.cfg.exclProt
	}
	mtu := 0
	if r.chance(20) {
		mtu = 1400
	}
	eff := proto
	if eff == 0 {
		eff = h.cfg.defProto
	}
	if !h.cfg.pol.RouteIsOurs(name, &netlink.Route{Protocol: netlink.RouteProtocol(eff)}) {
		proto = h.cfg.exclProt
		h.tags["target:proto-forced-exclusive"] = true
	}
	t := routetable.Target{
		RouteKey: routetable.RouteKey{CIDR: cidrOf(cid), Priority: prio},
		Type:     tt, Protocol: netlink.RouteProtocol(proto), MTU: mtu,
	}
	if gw != 0 {
		t.GW = ip.FromNetIP(addr(gw))
	}
	if src != 0 {
		t.Src = ip.FromNetIP(addr(src))
	}
	return t, fmt.Sprintf("(mkt %s %d %d %d %d)", tcoq, gw, src, proto, mtu)
}

func (h *hist) pickIface() string {
	if h.r.chance(12) {
		return routetable.InterfaceNone
	}
	return pick(h.r, ifNames)
}
func (h *hist) pickKey() (int, int) {
	prio := 0
	if h.r.chance(15) {
		prio = 100
	}
	k := [2]int{h.r.intn(6), prio}
	h.hot = append(h.hot, k)
	return k[0], k[1]
}

// a key for a failure plan: mostly one that was touched recently, so that the failure is likely to be hit
func (h *hist) planKey() (int, int) {
	if len(h.hot) > 0 && h.r.chance(80) {
		n := len(h.hot)
		lo := n - 6
		if lo < 0 {
			lo = 0
		}
		k := h.hot[lo+h.r.intn(n-lo)]
		return k[0], k[1]
	}
	prio := 0
	if h.r.chance(15) {
		prio = 100
	}
	return h.r.intn(nCIDR), prio
}

func (h *hist) apiOp() {
	r := h.r
	class := pick(r, classes)
	name := h.pickIface()
	switch r.intn(10) {
	case 0, 1, 2:
		n := r.intn(4)
		var ts []routetable.Target
		var cs, hs []string
		for i := 0; i < n; i++ {
			cid, prio := h.pickKey()
			t, c := h.genTarget(name, cid, prio)
			ts = append(ts, t)
			cs = append(cs, fmt.Sprintf("kt %d %d %s", cid, prio, c))
			hs = append(hs, fmt.Sprintf("%s/%d", cidrStr(cid), prio))
		}
		h.rt.SetRoutes(class, name, ts)
		h.emit(fmt.Sprintf("OSetRoutes %d \"%s\" [%s]", int(class), name, strings.Join(cs, "; ")),
			fmt.Sprintf("SetRoutes(%v, %s, %v)", class, name, hs))
	case 3, 4, 5, 6, 7:
		cid, prio := h.pickKey()
		t, c := h.genTarget(name, cid, prio)
		h.rt.RouteUpdate(class, name, t)
		h.emit(fmt.Sprintf("ORouteUpdate %d \"%s\" (rk %d %d) %s", int(class), name, cid, prio, c),
			fmt.Sprintf("RouteUpdate(%v, %s, %s/%d %s gw=%v proto=%d)", class, name, cidrStr(cid), prio, t.Type, t.GW, t.Protocol))
	default:
		cid, prio := h.pickKey()
		h.rt.RouteRemove(class, name, routetable.RouteKey{CIDR: cidrOf(cid), Priority: prio})
		h.emit(fmt.Sprintf("ORouteRemove %d \"%s\" (rk %d %d)", int(class), name, cid, prio),
			fmt.Sprintf("RouteRemove(%v, %s, %s/%d)", class, name, cidrStr(cid), prio))
	}
}

// a route programmed by somebody else (or left over from an earlier Felix)
func (h *hist) outsideRoute() {
	r := h.r
	table := h.cfg.table
	if r.chance(20) {
		table = pick(r, []int{253, 77})
	}
	cid := r.intn(nCIDR)
	prio := 0
	if r.chance(15) {
		prio = 100
	}
	h.hot = append(h.hot, [2]int{cid, prio})
	kkey := fmt.Sprintf("(kk %d %d %d)", table, cid, prio)
	dst := mustCIDR(cidrStr(cid))
	if r.chance(25) {
		nl := netlink.Route{Table: table, Dst: dst, Priority: prio}
		h.dp.RemoveMockRoute(&nl)
		h.emit("EDelRoute "+kkey, fmt.Sprintf("kernel: somebody deletes route table=%d %s/%d", table, cidrStr(cid), prio))
		return
	}
	k := kroute{typ: unix.RTN_UNICAST, scope: int(netlink.SCOPE_LINK)}
	k.proto = pick(r, []int{2, 4, 12, 3, 80, 80, 3})
	if r.chance(15) {
		k.typ = pick(r, []int{unix.RTN_BLACKHOLE, unix.RTN_UNREACHABLE, unix.RTN_PROHIBIT})
		k.scope = int(netlink.SCOPE_UNIVERSE)
		k.ifx = 0
	} else {
		var present []string
		for _, n := range ifNames {
			if _, ok := h.links[n]; ok {
				present = append(present, n)
			}
		}
		if len(present) == 0 {
			return
		}
		k.ifx = h.links[pick(r, present)].idx
		if r.chance(30) {
			k.gw = uint32(1 + r.intn(3))
			k.scope = int(netlink.SCOPE_UNIVERSE)
		}
	}
	nl := netlink.Route{Family: netlink.FAMILY_V4, Table: table, Dst: dst, Priority: prio, Type: k.typ, Scope: netlink.Scope(k.scope),
		Protocol: netlink.RouteProtocol(k.proto), LinkIndex: k.ifx, Gw: addr(k.gw)}
	h.dp.AddMockRoute(&nl)
	h.foreign++
	h.emit(fmt.Sprintf("EAddRoute %s %s", kkey, k.coq()),
		fmt.Sprintf("kernel: somebody adds route table=%d %s/%d proto=%d ifindex=%d", table, cidrStr(cid), prio, k.proto, k.ifx))
}

func mustCIDR(s string) *net.IPNet {
	_, n, err := net.ParseCIDR(s)
	if err != nil {
		panic(err)
	}
	return n
}

func (h *hist) linkChurn() {
	r := h.r
	name := pick(r, ifNames)
	l, ok := h.links[name]
	h.churn++
	h.lastChurned = name
	switch {
	case ok && l.running && r.chance(25):
		// quick flap: down (kernel flushes the routes) and up again; the monitor reports both
		h.setLink(name, true, false, false)
		h.flush(l.idx)
		if r.chance(85) {
			h.tell(name)
		}
		h.setLink(name, true, true, false)
		h.tags["link-flap"] = true
	case ok && l.running && r.chance(20):
		// carrier loss: oper state goes down, the device and its routes stay (no flush)
		h.setLink(name, true, false, false)
		h.tags["link:carrier-loss-no-flush"] = true
	case !ok:
		h.setLink(name, true, r.chance(85), false)
	case r.chance(25):
		h.delLink(name)
	case r.chance(20):
		// deleted and recreated under the same name: new ifindex
		idx := l.idx
		h.setLink(name, true, true, true)
		h.flush(idx)
	case l.running:
		h.setLink(name, r.chance(50), false, false)
		h.flush(l.idx)
	default:
		h.setLink(name, true, true, false)
	}
	if r.chance(80) {
		h.tell(name)
	}
}

// tableKeys lists the keys of the routes currently in Felix's table, sorted
func (h *hist) tableKeys() [][2]int {
	var ks [][2]int
	for _, r := range h.dp.RouteKeyToRoute {
		if r.Table == h.cfg.table {
			ks = append(ks, [2]int{cidrID[r.Dst.String()], r.Priority})
		}
	}
	sort.Slice(ks, func(i, j int) bool { return ks[i][0] < ks[j][0] || (ks[i][0] == ks[j][0] && ks[i][1] < ks[j][1]) })
	return ks
}

// partialItem: the n-th whole-table dump of the Apply yields some routes, one of which (usually) then vanishes or is
// replaced by somebody else's route before the dump is retried
func (h *hist) partialItem(n int, must [][2]int) failItem {
	r := h.r
	all := h.tableKeys()
	ks := append([][2]int{}, must...)
	for _, k := range all {
		if r.chance(50) && !(len(must) > 0 && k == must[0]) {
			ks = append(ks, k)
		}
	}
	var muts []mut
	for _, k := range ks {
		if len(muts) < 2 && (len(must) > 0 && k == must[0] || r.chance(45)) {
			if r.chance(75) {
				muts = append(muts, mut{h.cfg.table, k[0], k[1], nil})
			} else {
				var present []string
				for _, n := range ifNames {
					if _, ok := h.links[n]; ok {
						present = append(present, n)
					}
				}
				if len(present) > 0 {
					kr := kroute{typ: unix.RTN_UNICAST, scope: int(netlink.SCOPE_LINK), proto: pick(r, []int{2, 4, 12}), ifx: h.links[pick(r, present)].idx}
					muts = append(muts, mut{h.cfg.table, k[0], k[1], &kr})
				}
			}
		}
	}
	kind, _ := partialKind(ks, muts)
	return failItem{op: "rlall", coq: "NRouteListAll", n: n, kind: kind, partial: true, ks: ks, muts: muts}
}

func (h *hist) genPlan() []failItem {
	r := h.r
	if r.chance(55) {
		return nil
	}
	if r.chance(12) {
		return []failItem{h.partialItem(0, nil)}
	}
	if r.chance(12) && !h.lastConnFail {
		// connection failures only on their own (and never in two consecutive Applies: handlemgr panics
		// after three failures in a row by design)
		return []failItem{{op: "conn", coq: "NConn", n: r.intn(2), kind: "FErr", sub: r.intn(3)}}
	}
	var p []failItem
	n := 1 + r.intn(3)
	for i := 0; i < n; i++ {
		nth := 0
		if r.chance(25) {
			nth = 1
		}
		switch r.intn(9) {
		case 0:
			p = append(p, failItem{op: "linklist", coq: "NLinkList", n: nth, kind: "FErr"})
		case 1:
			kind := pick(r, []string{"FErr", "FEintr"})
			p = append(p, failItem{op: "rlall", coq: "NRouteListAll", n: nth, kind: kind})
			if kind == "FEintr" && r.chance(30) {
				for j := 0; j < 5; j++ {
					p = append(p, failItem{op: "rlall", coq: "NRouteListAll", n: j, kind: kind})
				}
			}
		case 2:
			name := pick(r, ifNames)
			p = append(p, failItem{op: "lbn:" + name, coq: fmt.Sprintf("(NLinkByName \"%s\")", name), n: nth, kind: pick(r, []string{"FErr", "FNotFound"})})
		case 3:
			name := pick(r, ifNames)
			if h.lastChurned != "" && r.chance(70) {
				name = h.lastChurned
			}
			if l, ok := h.links[name]; ok {
				p = append(p, failItem{op: fmt.Sprintf("rlif:%d", l.idx), coq: fmt.Sprintf("(NRouteListIf %d)", l.idx), n: nth, kind: pick(r, []string{"FErr", "FErr", "FEintr"})})
			}
		case 4, 5, 6:
			cid, prio := h.planKey()
			p = append(p, failItem{op: fmt.Sprintf("rep:%d/%d", cid, prio), coq: fmt.Sprintf("(NReplace (rk %d %d))", cid, prio), n: nth, kind: pick(r, []string{"FErr", "FErr", "FNotFound"})})
		default:
			cid, prio := h.planKey()
			p = append(p, failItem{op: fmt.Sprintf("del:%d/%d", cid, prio), coq: fmt.Sprintf("(NDel (rk %d %d))", cid, prio), n: nth, kind: "FErr"})
		}
	}
	// half of the time every failure also hits the retry (the second attempt's call of the same operation)
	if r.chance(50) {
		for _, f := range p {
			if f.n == 0 {
				g := f
				g.n = 1
				p = append(p, g)
			}
		}
	}
	// keep the first item for each (op, n)
	seen := map[string]bool{}
	var q []failItem
	for _, f := range p {
		k := fmt.Sprintf("%s#%d", f.op, f.n)
		if !seen[k] {
			seen[k] = true
			q = append(q, f)
		}
	}
	return q
}

func (h *hist) dumpKernel() (string, []string) {
	type ent struct {
		table, cid, prio int
		k                kroute
	}
	var es []ent
	for _, r := range h.dp.RouteKeyToRoute {
		id, ok := cidrID[r.Dst.String()]
		if !ok {
			panic("unknown CIDR in kernel: " + r.Dst.String())
		}
		if r.Tos != 0 || len(r.MultiPath) != 0 {
			panic("route outside the modelled domain")
		}
		es = append(es, ent{r.Table, id, r.Priority, kroute{typ: r.Type, scope: int(r.Scope), src: addrN(r.Src), proto: int(r.Protocol),
			onlink: r.Flags&unix.RTNH_F_ONLINK != 0, gw: addrN(r.Gw), ifx: r.LinkIndex, mtu: r.MTU}})
	}
	sort.Slice(es, func(i, j int) bool {
		a, b := es[i], es[j]
		if a.table != b.table {
			return a.table < b.table
		}
		if a.cid != b.cid {
			return a.cid < b.cid
		}
		return a.prio < b.prio
	})
	var cs, hs []string
	for _, e := range es {
		cs = append(cs, fmt.Sprintf("kr %d %d %d %s", e.table, e.cid, e.prio, e.k.coq()))
		hs = append(hs, fmt.Sprintf("t%d %s/%d proto=%d if=%d type=%d gw=%d", e.table, cidrStr(e.cid), e.prio, e.k.proto, e.k.ifx, e.k.typ, e.k.gw))
	}
	return "[" + strings.Join(cs, "; ") + "]", hs
}

func (h *hist) apply(plan []failItem) {
	h.d.plan = plan
	h.d.count = map[string]int{}
	h.d.hit = 0
	err := h.rt.Apply()
	plan = nil
	for _, f := range h.d.plan {
		if f.partial && !f.wasHit {
			continue // no whole-table dump happened: nothing was changed behind Felix's back
		}
		if f.partial {
			h.tags["partial-dump-then-change"] = true
		}
		plan = append(plan, f)
	}
	h.d.plan = nil
	if h.dp.FailuresToSimulate != 0 {
		// a flag armed for a call that then did not happen would leak into a later call
		panic(fmt.Sprintf("failure flag left armed: %v", h.dp.FailuresToSimulate))
	}
	h.lastConnFail = len(plan) == 1 && plan[0].op == "conn"
	var ps, hs []string
	for _, f := range plan {
		ps = append(ps, fmt.Sprintf("pl %s %d %s", f.coq, f.n, f.kind))
		if f.partial {
			_, hk := partialKind(f.ks, f.muts)
			hs = append(hs, fmt.Sprintf("%s#%d:%s", f.op, f.n, hk))
		} else {
			hs = append(hs, fmt.Sprintf("%s#%d:%s", f.op, f.n, f.kind))
		}
	}
	kern, human := h.dumpKernel()
	h.applies++
	h.hits += h.d.hit
	if err != nil {
		h.failedApplies++
	} else {
		h.okApplies++
	}
	h.ops = append(h.ops, "OApply ["+strings.Join(ps, "; ")+"]")
	h.obs = append(h.obs, fmt.Sprintf("ob %s %s", coqBool(err != nil), kern))
	h.sample = append(h.sample, fmt.Sprintf("Apply(fail=%v) -> err=%v kernel=%v", hs, err != nil, human))
}

func (h *hist) ensureUp(name string) {
	if l, ok := h.links[name]; !ok || !l.running {
		h.setLink(name, true, true, false)
	}
	h.tell(name)
}

func (h *hist) update(class routetable.RouteClass, name string, cid, prio int) {
	t, c := h.genTarget(name, cid, prio)
	h.rt.RouteUpdate(class, name, t)
	h.emit(fmt.Sprintf("ORouteUpdate %d \"%s\" (rk %d %d) %s", int(class), name, cid, prio, c),
		fmt.Sprintf("RouteUpdate(%v, %s, %s/%d %s gw=%v proto=%d)", class, name, cidrStr(cid), prio, t.Type, t.GW, t.Protocol))
}

func (h *hist) remove(class routetable.RouteClass, name string, cid, prio int) {
	h.rt.RouteRemove(class, name, routetable.RouteKey{CIDR: cidrOf(cid), Priority: prio})
	h.emit(fmt.Sprintf("ORouteRemove %d \"%s\" (rk %d %d)", int(class), name, cid, prio),
		fmt.Sprintf("RouteRemove(%v, %s, %s/%d)", class, name, cidrStr(cid), prio))
}

// directed opening: a route is programmed, its interface flaps (the kernel drops the route), both events are
// reported, and the per-interface route listing of the following Apply fails.
func (h *hist) skeletonFlapListFailure() {
	r := h.r
	h.tags["skeleton:flap-list-failure"] = true
	name := pick(r, ifNames)
	h.ensureUp(name)
	cid, prio := h.pickKey()
	h.update(pick(r, classes), name, cid, prio)
	h.apply(nil)
	l := h.links[name]
	h.setLink(name, true, false, false)
	h.flush(l.idx)
	h.tell(name)
	h.setLink(name, true, true, false)
	h.tell(name)
	kind := pick(r, []string{"FErr", "FErr", "FEintr"})
	var p []failItem
	if kind == "FEintr" {
		for j := 0; j < 5; j++ {
			p = append(p, failItem{op: fmt.Sprintf("rlif:%d", l.idx), coq: fmt.Sprintf("(NRouteListIf %d)", l.idx), n: j, kind: kind})
		}
	} else {
		p = append(p, failItem{op: fmt.Sprintf("rlif:%d", l.idx), coq: fmt.Sprintf("(NRouteListIf %d)", l.idx), n: 0, kind: kind})
	}
	h.apply(p)
}

// directed opening: a destination moves from one interface to a better-class one that has just come up, the
// RouteReplace fails in both attempts, then nobody wants the destination any more.
func (h *hist) skeletonMoveThenFail() {
	r := h.r
	h.tags["skeleton:move-then-fail"] = true
	y := pick(r, ifNames)
	x := pick(r, ifNames)
	if x == y {
		return
	}
	h.ensureUp(y)
	if l, ok := h.links[x]; ok && l.running {
		h.setLink(x, true, false, false)
		h.flush(l.idx)
		h.tell(x)
	}
	cid, prio := h.pickKey()
	h.update(routetable.RouteClassVXLANTunnel, y, cid, prio)
	h.update(routetable.RouteClassLocalWorkload, x, cid, prio)
	h.apply(nil)
	h.ensureUp(x)
	op, coq := fmt.Sprintf("rep:%d/%d", cid, prio), fmt.Sprintf("(NReplace (rk %d %d))", cid, prio)
	h.apply([]failItem{{op: op, coq: coq, n: 0, kind: "FErr"}, {op: op, coq: coq, n: 1, kind: "FErr"}})
	h.remove(routetable.RouteClassLocalWorkload, x, cid, prio)
	h.remove(routetable.RouteClassVXLANTunnel, y, cid, prio)
	h.apply(nil)
}

var fixC bool       // OnIfaceStateChanged forgets the old ifindex's state on a renumbering (Model.v c_fixC)
var fixA, fixB bool // what the tree under test does (see Model.v c_fixA / c_fixB); set by probe()

func newHist(r *rng, cfg config) *hist {
	dp := mocknetlink.New()
	dp.ExistingTables.Add(cfg.table)
	mt := mocktime.New()
	d := &drv{dp: dp, count: map[string]int{}}
	var src net.IP
	if cfg.src != 0 {
		src = addr(cfg.src)
	}
	rt := routetable.New(cfg.pol, 4, 10*time.Second, src, netlink.RouteProtocol(cfg.defProto), true, cfg.table,
		logrusr.NewSummarizer("verif"), dp,
		routetable.WithTimeShim(mt),
		routetable.WithConntrackCleanup(false),
		routetable.WithRouteCleanupGracePeriod(time.Duration(cfg.grace)*time.Second),
		routetable.WithNetlinkHandleShim(d.newHandle),
	)
	return &hist{r: r, cfg: cfg, dp: dp, mt: mt, rt: rt, d: d, links: map[string]*linkSt{}, gen: map[string]int{},
		toTell: map[string]bool{}, tags: map[string]bool{"cfg:" + cfg.name: true}}
}

// probe runs the two directed scenarios once on the tree under test to see which variant of resyncIface it has.
func probe() {
	cfg := configs()[0]
	h := newHist(&rng{s: 12345}, cfg)
	h.ensureUp("cali1")
	h.update(routetable.RouteClassLocalWorkload, "cali1", 0, 0)
	h.apply(nil)
	l := h.links["cali1"]
	h.setLink("cali1", true, false, false)
	h.flush(l.idx)
	h.tell("cali1")
	h.setLink("cali1", true, true, false)
	h.tell("cali1")
	h.apply([]failItem{{op: fmt.Sprintf("rlif:%d", l.idx), n: 0, kind: "FErr"}})
	fixA = len(dp(h)) == 1

	h = newHist(&rng{s: 12345}, cfg)
	h.ensureUp("eth0")
	h.update(routetable.RouteClassVXLANTunnel, "eth0", 0, 0)
	h.update(routetable.RouteClassLocalWorkload, "cali1", 0, 0)
	h.apply(nil)
	h.ensureUp("cali1")
	h.apply([]failItem{{op: "rep:0/0", n: 0, kind: "FErr"}, {op: "rep:0/0", n: 1, kind: "FErr"}})
	h.remove(routetable.RouteClassLocalWorkload, "cali1", 0, 0)
	h.remove(routetable.RouteClassVXLANTunnel, "eth0", 0, 0)
	h.apply(nil)
	fixB = len(dp(h)) == 0

	// C: cali1 shows up under a new ifindex without a deletion being reported, goes away, and the old ifindex is
	// reused by cali2, which is up; a full resync must learn cali2
	h = newHist(&rng{s: 12345}, cfg)
	h.renumberThenReuse(0, 0, routetable.RouteClassLocalWorkload)
	fixC = len(dp(h)) == 1
}

func dp(h *hist) map[string]netlink.Route { return h.dp.RouteKeyToRoute }

// directed opening: a programmed route is delivered by the whole-table dump of a full resync, vanishes from the kernel
// before the (EINTR-)interrupted dump is retried, and must be put back by that same Apply.
func (h *hist) skeletonVanishMidDump() {
	r := h.r
	h.tags["skeleton:vanish-mid-dump"] = true
	name := pick(r, ifNames)
	h.ensureUp(name)
	cid, prio := h.pickKey()
	h.update(pick(r, classes), name, cid, prio)
	h.apply(nil)
	h.rt.QueueResync()
	h.emit("OQueueResync", "QueueResync()")
	h.apply([]failItem{h.partialItem(0, [][2]int{{cid, prio}})})
}

// setLinkIdx creates a link with a given ifindex (used to reuse an ifindex that has become free)
func (h *hist) setLinkIdx(name string, idx int, up, running bool) {
	if _, ok := h.links[name]; ok {
		h.dp.DelIface(name)
	}
	l := &linkSt{idx: idx, up: up, running: running}
	h.links[name] = l
	h.dp.AddIface(idx, name, up, running)
	h.toTell[name] = true
	h.emit(fmt.Sprintf("ESetLink \"%s\" (mkl %d %s %s)", name, idx, coqBool(up), coqBool(running)),
		fmt.Sprintf("kernel: link %s idx=%d up=%v running=%v", name, idx, up, running))
}

// directed opening: cali1 is recreated under a new ifindex and Felix hears of the new index without the deletion
// (OnIfaceStateChanged as resyncIface calls it); later cali1 goes away and its FIRST ifindex is reused by cali2.
func (h *hist) renumberThenReuse(cid, prio int, class routetable.RouteClass) {
	for _, n := range []string{"cali1", "cali2"} {
		if _, ok := h.links[n]; ok {
			h.delLink(n)
			h.tell(n)
		}
	}
	h.setLinkIdx("cali1", 95, true, true)
	h.tell("cali1")
	h.setLinkIdx("cali1", 96, true, true)
	h.flush(95)
	h.tell("cali1") // new index, no deletion reported
	h.delLink("cali1")
	h.tell("cali1")
	h.setLinkIdx("cali2", 95, true, true) // the old ifindex, reused; Felix is not told
	delete(h.toTell, "cali2")
	h.update(class, "cali2", cid, prio)
	h.rt.QueueResync()
	h.emit("OQueueResync", "QueueResync()")
	h.apply(nil)
	h.toTell["cali2"] = true
}

func runHistory(r *rng, cfg config, nops int) line {
	return newHist(r, cfg).run(nops)
}

func (h *hist) run(nops int) line {
	r, cfg, mt := h.r, h.cfg, h.mt
	// starting kernel state: some links, some routes of other software, some stale routes
	for _, n := range ifNames {
		if r.chance(70) {
			h.setLink(n, true, r.chance(85), false)
			if r.chance(50) {
				h.tell(n)
			}
		}
	}
	for i := r.intn(5); i > 0; i-- {
		h.outsideRoute()
	}
	switch sk := r.intn(12); sk {
	case 0:
		h.skeletonFlapListFailure()
	case 1:
		h.skeletonMoveThenFail()
	case 2:
		h.skeletonVanishMidDump()
	case 3:
		h.tags["skeleton:renumber-then-reuse"] = true
		cid, prio := h.pickKey()
		h.renumberThenReuse(cid, prio, pick(r, classes))
	}
	for i := 0; i < nops; i++ {
		switch k := r.intn(100); {
		case k < 46:
			h.apiOp()
		case k < 62:
			h.apply(h.genPlan())
		case k < 76:
			h.linkChurn()
		case k < 84:
			h.outsideRoute()
			if r.chance(60) {
				h.rt.QueueResync()
				h.emit("OQueueResync", "QueueResync()")
			}
		case k < 88:
			h.rt.QueueResync()
			h.emit("OQueueResync", "QueueResync()")
		case k < 91:
			n := pick(r, ifNames)
			h.rt.QueueResyncIface(n)
			h.emit(fmt.Sprintf("OQueueResyncIface \"%s\"", n), "QueueResyncIface("+n+")")
		case k < 96:
			dt := 1 + r.intn(8)
			mt.IncrementTime(time.Duration(dt) * time.Second)
			h.emit(fmt.Sprintf("ETime %d", dt), fmt.Sprintf("clock +%ds", dt))
		default:
			var pend []string
			for _, n := range ifNames {
				if h.toTell[n] {
					pend = append(pend, n)
				}
			}
			if len(pend) > 0 {
				h.tell(pend[0])
			}
		}
	}
	// closing phase: the interface monitor catches up, then Applies without injected failures
	for _, n := range ifNames {
		if h.toTell[n] {
			h.tell(n)
		}
	}
	if r.chance(50) {
		h.rt.QueueResync()
		h.emit("OQueueResync", "QueueResync()")
		h.tags["closing:resync"] = true
	} else {
		h.tags["closing:no-resync"] = true
	}
	h.apply(nil)
	if r.chance(50) {
		mt.IncrementTime(20 * time.Second)
		h.emit("ETime 20", "clock +20s")
		h.apply(nil)
	}

	if h.hits > 0 {
		h.tags["failures-hit"] = true
	}
	if h.failedApplies > 0 {
		h.tags["apply-failed"] = true
	}
	if h.churn > 0 {
		h.tags["link-churn"] = true
	}
	if h.foreign > 0 {
		h.tags["outside-routes"] = true
	}
	var tags []string
	for t := range h.tags {
		tags = append(tags, t)
	}
	sort.Strings(tags)
	coq := fmt.Sprintf("mkcase (mkcfg %s %d %d %d %d %s %s %s) [%s] [%s]", cfg.coqPol, cfg.table, cfg.defProto, cfg.src, cfg.grace,
		coqBool(fixA), coqBool(fixB), coqBool(fixC), strings.Join(h.ops, "; "), strings.Join(h.obs, "; "))
	return line{Coq: coq, NT: h.applies >= 2 && (h.hits > 0 || h.churn > 0 || h.foreign > 0),
		Key:    cfg.name + "|" + strings.Join(h.ops, ";"),
		Sample: map[string]any{"config": cfg.name, "trace": h.sample}, Tags: tags}
}

func main() {
	n := flag.Int("n", 100, "cases")
	seed := flag.Uint64("seed", 1, "seed")
	flag.Parse()
	logrus.SetOutput(io.Discard)
	logrus.SetLevel(logrus.ErrorLevel)
	gomega.RegisterFailHandler(func(msg string, _ ...int) { panic("mock assertion failed: " + msg) })
	probe()
	r := &rng{s: *seed}
	enc := json.NewEncoder(os.Stdout)
	_ = enc.Encode(map[string]any{"stats": map[string]any{"tree_has_fixA": fixA, "tree_has_fixB": fixB, "tree_has_fixC": fixC}})
	cfgs := configs()
	for i := 0; i < *n; i++ {
		cfg := cfgs[r.intn(len(cfgs))]
		nops := 10 + r.intn(26)
		_ = enc.Encode(runHistory(r, cfg, nops))
	}
}
