//go:build verif

// C41 correspondence driver.
//
// Part 1: the REAL flowtableExclusionManager (felix/dataplane/linux/flowtable_mgr.go, reached through the verif
// shim) is driven with a generated history of WorkloadEndpointUpdate/Remove, HostEndpointUpdate/Remove, unrelated
// messages and CompleteDeferredWork calls, writing into a recording IPSetsDataplane.  Observable: per
// CompleteDeferredWork, whether it replaced the IP set and with which members.
// Part 2: the REAL rule renderer (rules.NewRenderer, nftables or iptables flavour, flow offload on or off) renders
// all static chains of all tables; every rule carrying a flow-offload statement is rendered to text by the real
// nftables rule renderer and parsed into the abstract rule syntax of Common/Ipt.v (hard error on anything the
// grammar does not know).  The set name in the rule is tied to the set the manager wrote through the naming
// function the nftables IP set layer uses.
// One JSON line per case carries the history and both observables as a Coq term.
package main

import (
	"context"
	"encoding/json"
	"flag"
	"fmt"
	"math/big"
	"net"
	"os"
	"sort"
	"strconv"
	"strings"

	"github.com/sirupsen/logrus"
	"sigs.k8s.io/knftables"

	intdataplane "github.com/projectcalico/calico/felix/dataplane/linux"
	"github.com/projectcalico/calico/felix/dataplane/linux/dataplanedefs"
	"github.com/projectcalico/calico/felix/environment"
	"github.com/projectcalico/calico/felix/generictables"
	"github.com/projectcalico/calico/felix/ipsets"
	"github.com/projectcalico/calico/felix/iptables"
	"github.com/projectcalico/calico/felix/nftables"
	"github.com/projectcalico/calico/felix/proto"
	"github.com/projectcalico/calico/felix/rules"
	"github.com/projectcalico/calico/felix/rules/rulesdefs"
	"github.com/projectcalico/calico/lib/logrusr"
	"github.com/projectcalico/calico/libcalico-go/lib/set"
)

// ---------------------------------------------------------------- random source

type rng struct{ s uint64 }

func (r *rng) next() uint64 {
	r.s += 0x9e3779b97f4a7c15
	z := r.s
	z = (z ^ (z >> 30)) * 0xbf58476d1ce4e5b9
	z = (z ^ (z >> 27)) * 0x94d049bb133111eb
	return z ^ (z >> 31)
}
func (r *rng) intn(n int) int         { return int(r.next() % uint64(n)) }
func (r *rng) coin(num, den int) bool { return r.intn(den) < num }

type line struct {
	Coq    string         `json:"coq"`
	NT     bool           `json:"nt"`
	Key    string         `json:"key"`
	Sample map[string]any `json:"sample,omitempty"`
	Tags   []string       `json:"tags"`
}

type devNull struct{}

func (devNull) Write(p []byte) (int, error) { return len(p), nil }

func fatal(format string, a ...any) {
	fmt.Fprintf(os.Stderr, "C41 driver: "+format+"\n", a...)
	os.Exit(3)
}

// ---------------------------------------------------------------- recording IP sets dataplane

type recIPSets struct {
	real     *realLayer
	fam      ipsets.IPFamily
	cur      []string // members of the set as last written
	exists   bool
	changed  bool // some call touched the set since the flag was cleared
	meta     ipsets.IPSetMetadata
	haveMeta bool
	setIDs   map[string]bool
}

func (s *recIPSets) AddOrReplaceIPSet(m ipsets.IPSetMetadata, members []string) {
	s.meta, s.haveMeta = m, true
	s.setIDs[m.SetID] = true
	s.cur = append([]string(nil), members...)
	s.exists, s.changed = true, true
	s.real.do("AddOrReplaceIPSet", func() { s.real.sets.AddOrReplaceIPSet(m, members) })
}
func (s *recIPSets) AddMembers(setID string, newMembers []string) {
	s.setIDs[setID] = true
	s.cur = append(s.cur, newMembers...)
	s.changed = true
	s.real.do("AddMembers", func() { s.real.sets.AddMembers(setID, newMembers) })
}
func (s *recIPSets) RemoveMembers(setID string, removed []string) {
	s.setIDs[setID] = true
	for _, m := range removed {
		for i, x := range s.cur {
			if x == m {
				s.cur = append(s.cur[:i:i], s.cur[i+1:]...)
				break
			}
		}
	}
	s.changed = true
	s.real.do("RemoveMembers", func() { s.real.sets.RemoveMembers(setID, removed) })
}
func (s *recIPSets) RemoveIPSet(setID string) {
	s.setIDs[setID] = true
	s.cur, s.exists, s.changed = nil, false, true
	s.real.do("RemoveIPSet", func() { s.real.sets.RemoveIPSet(setID) })
}
func (s *recIPSets) GetIPFamily() ipsets.IPFamily { return s.fam }
func (s *recIPSets) GetTypeOf(setID string) (ipsets.IPSetType, error) {
	if s.haveMeta && s.meta.SetID == setID {
		return s.meta.Type, nil
	}
	return "", fmt.Errorf("no such set")
}
func (s *recIPSets) GetDesiredMembers(setID string) (set.Set[string], error) {
	if !s.exists {
		return nil, fmt.Errorf("no such set")
	}
	return set.FromArray(s.cur), nil
}
func (s *recIPSets) QueueResync()                               {}
func (s *recIPSets) ApplyUpdates(listener ipsets.UpdateListener) {}
func (s *recIPSets) ApplyDeletions() bool                       { return false }
func (s *recIPSets) SetFilter(neededIPSets set.Set[string])     {}

// ---------------------------------------------------------------- the real nftables IP set layer behind the recorder

// realLayer is the REAL felix/nftables.IPSets writing into knftables' in-memory fake.  Every call the manager makes on
// the recorder is forwarded to it; after each CompleteDeferredWork the driver calls ApplyUpdates (as the dataplane
// loop does) and lists the elements of the set THE RENDERED RULE NAMES.
type realLayer struct {
	sets   *nftables.IPSets
	fake   *knftables.Fake
	broken string
}

func newRealLayer(fam ipsets.IPFamily) *realLayer {
	kf := knftables.IPv4Family
	if fam == ipsets.IPFamilyV6 {
		kf = knftables.IPv6Family
	}
	f := knftables.NewFake(kf, "calico")
	ipc := ipsets.NewIPVersionConfig(fam, rules.IPSetNamePrefix, nil, nil)
	return &realLayer{sets: nftables.NewIPSets(ipc, f, logrusr.NewSummarizer("verif-c41")), fake: f}
}

func (l *realLayer) do(what string, fn func()) {
	if l == nil || l.broken != "" {
		return
	}
	defer func() {
		if x := recover(); x != nil {
			l.broken = fmt.Sprintf("%s panicked: %v", what, x)
		}
	}()
	fn()
}

// programmed returns the elements of the named set in the fake kernel (nil, false if the set does not exist).
func (l *realLayer) programmed(name string) ([]string, bool) {
	if l.broken != "" || name == "" {
		return nil, false
	}
	els, err := l.fake.ListElements(context.Background(), "set", name)
	if err != nil {
		return nil, false
	}
	var out []string
	for _, e := range els {
		out = append(out, strings.Join(e.Key, "."))
	}
	return out, true
}

var ruleSetNames = map[int]string{}

// ruleSetName renders the real nftables FORWARD chain with offload on and returns the set the offload rule's source match names.
func ruleSetName(ver int) string {
	if n, ok := ruleSetNames[ver]; ok {
		return n
	}
	name := ""
	func() {
		defer func() { _ = recover() }()
		rr := rules.NewRenderer(rules.Config{
			IPSetConfigV4: ipsets.NewIPVersionConfig(ipsets.IPFamilyV4, rules.IPSetNamePrefix, nil, nil),
			IPSetConfigV6: ipsets.NewIPVersionConfig(ipsets.IPFamilyV6, rules.IPSetNamePrefix, nil, nil),
			MarkAccept:    0x8, MarkPass: 0x10, MarkScratch0: 0x20, MarkScratch1: 0x40, MarkDrop: 0x80,
			MarkEndpoint: 0xff00, MarkNonCaliEndpoint: 0x0100,
			FilterDenyAction: "DROP", VXLANPort: 4789, VXLANVNI: 4096,
			WorkloadIfacePrefixes:    []string{"cali"},
			NFTablesFlowTableOffload: true,
		}, true)
		feat := &environment.Features{}
		for _, ch := range rr.StaticFilterTableChains(uint8(ver)) {
			for i := range ch.Rules {
				if _, ok := ch.Rules[i].Action.(nftables.FlowOffloadAction); !ok {
					continue
				}
				t := strings.Fields(nftables.NewNFTRenderer("", uint8(ver)).Render(ch.Name, "", ch.Rules[i], feat).Rule)
				for k := 0; k+2 < len(t); k++ {
					if t[k] == "saddr" && t[k+1] == "!=" && strings.HasPrefix(t[k+2], "@") {
						name = t[k+2][1:]
					}
				}
			}
		}
	}()
	ruleSetNames[ver] = name
	return name
}

// ---------------------------------------------------------------- the real nftables Table: programmed rule + flowtable object

// device universe; the id of a name is its rank in string order, so that N order in the model = Go string order
var devNames = []string{"cali1234", "cali9", "eth0", "eth1", "tunl0", "vxlan.calico"}

// no process is spawned for feature detection: the nftables renderer does not depend on iptables features
var sharedDetector = &environment.FakeFeatureDetector{}

type tableObs struct {
	ruleCoq   string   // the rule found in cali-FORWARD of the fake kernel, parsed ("None" if absent)
	ruleText  string
	declared  bool     // the flowtable the programmed rule names exists in the fake kernel
	devs      []int    // its devices, in the order the kernel object lists them
	ovl, wl, ext, existing []int
}

func pickDevs(r *rng) []int {
	var out []int
	n := r.intn(4)
	for i := 0; i < n; i++ {
		out = append(out, r.intn(len(devNames)))
	}
	return out
}
func devStrings(ids []int) []string {
	out := make([]string, 0, len(ids))
	for _, i := range ids {
		out = append(out, devNames[i])
	}
	return out
}
func idsCoq(ids []int) string {
	p := make([]string, len(ids))
	for i, x := range ids {
		p[i] = strconv.Itoa(x)
	}
	return "[" + strings.Join(p, "; ") + "]"
}

// tableRoundTrip drives the REAL nftables.NftablesTable on the SAME fake kernel the IP set layer wrote to: the real rendered
// offload rule goes into cali-FORWARD (jumped to from filter-FORWARD), the three device setters are called, Apply runs, and
// the rule and the flowtable object are read back from the fake kernel.
func tableRoundTrip(r *rng, ver int, fake *knftables.Fake, managed string) (obs tableObs, err error) {
	defer func() {
		if x := recover(); x != nil {
			err = fmt.Errorf("nftables table round trip panicked: %v", x)
		}
	}()
	obs.ruleCoq = "None"
	obs.ovl, obs.wl, obs.ext = pickDevs(r), pickDevs(r), pickDevs(r)
	switch r.intn(3) {
	case 0: // everything exists
		for i := range devNames {
			obs.existing = append(obs.existing, i)
		}
	default:
		for i := range devNames {
			if r.coin(2, 3) {
				obs.existing = append(obs.existing, i)
			}
		}
	}
	existing := devStrings(obs.existing)
	rr := rules.NewRenderer(rules.Config{
		IPSetConfigV4: ipsets.NewIPVersionConfig(ipsets.IPFamilyV4, rules.IPSetNamePrefix, nil, nil),
		IPSetConfigV6: ipsets.NewIPVersionConfig(ipsets.IPFamilyV6, rules.IPSetNamePrefix, nil, nil),
		MarkAccept:    0x8, MarkPass: 0x10, MarkScratch0: 0x20, MarkScratch1: 0x40, MarkDrop: 0x80,
		MarkEndpoint: 0xff00, MarkNonCaliEndpoint: 0x0100,
		FilterDenyAction: "DROP", VXLANPort: 4789, VXLANVNI: 4096,
		WorkloadIfacePrefixes:    []string{"cali"},
		NFTablesFlowTableOffload: true,
	}, true)
	var offload []generictables.Rule
	for _, ch := range rr.StaticFilterTableChains(uint8(ver)) {
		if ch.Name != rules.ChainFilterForward {
			continue
		}
		for i := range ch.Rules {
			if _, ok := ch.Rules[i].Action.(nftables.FlowOffloadAction); ok {
				offload = append(offload, ch.Rules[i])
			}
		}
	}
	table := nftables.NewTable("calico", uint8(ver), rulesdefs.RuleHashPrefix, sharedDetector,
		nftables.TableOptions{
			NewDataplane: func(fam knftables.Family, name string, options ...knftables.Option) (knftables.Interface, error) {
				return fake, nil
			},
			LookPathOverride:       func(p string) (string, error) { return p, nil },
			OpRecorder:             logrusr.NewSummarizer("verif-c41"),
			ListInterfacesOverride: func() ([]string, error) { return existing, nil },
		}, true)
	table.UpdateChains([]*generictables.Chain{{Name: rules.ChainFilterForward, Rules: offload}})
	table.InsertOrAppendRules("filter-FORWARD", []generictables.Rule{{Match: nftables.Match(), Action: &nftables.JumpAction{Target: rules.ChainFilterForward}}})
	table.SetOverlayDevices(devStrings(obs.ovl))
	table.SetWorkloadInterfaces(devStrings(obs.wl))
	table.SetExternalDevices(devStrings(obs.ext))
	table.Apply()

	// read back
	krules, lerr := fake.ListRules(context.Background(), rules.ChainFilterForward)
	if lerr != nil {
		return obs, fmt.Errorf("cannot list %s in the fake kernel: %v", rules.ChainFilterForward, lerr)
	}
	ftName := ""
	names := map[string]int{}
	setID := func(n string) int {
		if n == managed {
			return 1
		}
		if id, ok := names[n]; ok {
			return id
		}
		names[n] = 2 + len(names)
		return names[n]
	}
	for _, kr := range krules {
		if !hasFlowToken(kr.Rule) {
			continue
		}
		c, perr := parseOffloadRule(kr.Rule, ver, setID)
		if perr != nil {
			return obs, perr
		}
		obs.ruleCoq, obs.ruleText = "(Some "+c+")", kr.Rule
		t := strings.Fields(kr.Rule)
		ftName = strings.TrimPrefix(t[len(t)-1], "@")
	}
	if ft, ok := fake.Table.Flowtables[ftName]; ok && ftName != "" {
		obs.declared = true
		for _, d := range ft.Devices {
			id := -1
			for i, n := range devNames {
				if n == d {
					id = i
				}
			}
			if id < 0 {
				return obs, fmt.Errorf("flowtable device %q is not in the universe", d)
			}
			obs.devs = append(obs.devs, id)
		}
	}
	return obs, nil
}

// ---------------------------------------------------------------- universes

var wepIDs = []*proto.WorkloadEndpointID{
	{OrchestratorId: "k8s", WorkloadId: "default/pod-a", EndpointId: "eth0"},
	{OrchestratorId: "k8s", WorkloadId: "default/pod-b", EndpointId: "eth0"},
	{OrchestratorId: "k8s", WorkloadId: "default/pod-a", EndpointId: "eth1"}, // differs from 0 in the endpoint component only
	{OrchestratorId: "openstack", WorkloadId: "default/pod-a", EndpointId: "eth0"}, // differs from 0 in the orchestrator only
	{OrchestratorId: "k8s", WorkloadId: "kube-system/pod-c", EndpointId: "eth0"},
}
var hepIDs = []*proto.HostEndpointID{{EndpointId: "hep-0"}, {EndpointId: "hep-1"}, {EndpointId: "eth0"}}

var v4Pool = []string{"10.65.0.1", "10.65.0.2", "10.65.0.3", "192.168.7.4"}
var v6Pool = []string{"dead:beef::1", "dead:beef::2", "dead:beef::1:0", "fd00::4"}

func ipNum(s string) *big.Int {
	ip := net.ParseIP(s)
	if ip == nil {
		return nil
	}
	if !strings.Contains(s, ":") {
		return new(big.Int).SetBytes(ip.To4())
	}
	return new(big.Int).SetBytes(ip.To16())
}

// ---------------------------------------------------------------- ops

type netT struct {
	addr string
	mask int // -1 = no mask text
}

func (n netT) text() string {
	if n.mask < 0 {
		return n.addr
	}
	return fmt.Sprintf("%s/%d", n.addr, n.mask)
}
func (n netT) coq() string {
	if n.mask < 0 {
		return fmt.Sprintf("(%s, None)", ipNum(n.addr).String())
	}
	return fmt.Sprintf("(%s, Some %d)", ipNum(n.addr).String(), n.mask)
}

type opT struct {
	kind   string // wu wr hu hr other flush
	id     int
	nilEP  bool
	v4, v6 []netT
	ndscp  int
	qos    *[14]int64
	qkind  string
}

func netsCoq(ns []netT) string {
	p := make([]string, len(ns))
	for i, n := range ns {
		p[i] = n.coq()
	}
	return "[" + strings.Join(p, "; ") + "]"
}
func netsText(ns []netT) []string {
	p := make([]string, 0, len(ns))
	for _, n := range ns {
		p = append(p, n.text())
	}
	return p
}
func zCoq(v int64) string {
	if v < 0 {
		return fmt.Sprintf("(%d)%%Z", v)
	}
	return fmt.Sprintf("%d%%Z", v)
}

func (o *opT) coq() string {
	switch o.kind {
	case "wu":
		if o.nilEP {
			return fmt.Sprintf("WepUpdate %d None", o.id)
		}
		q := "None"
		if o.qos != nil {
			p := make([]string, 14)
			for i, v := range o.qos {
				p[i] = zCoq(v)
			}
			q = "(Some (QC " + strings.Join(p, " ") + "))"
		}
		return fmt.Sprintf("WepUpdate %d (Some (WEP %s %s %d%%nat %s))", o.id, netsCoq(o.v4), netsCoq(o.v6), o.ndscp, q)
	case "wr":
		return fmt.Sprintf("WepRemove %d", o.id)
	case "hu":
		return fmt.Sprintf("HepUpdate %d (HEP %s %s %d%%nat)", o.id, netsCoq(o.v4), netsCoq(o.v6), o.ndscp)
	case "hr":
		return fmt.Sprintf("HepRemove %d", o.id)
	case "other":
		return "Other"
	}
	return "Flush"
}

func (o *opT) text() string {
	switch o.kind {
	case "wu":
		if o.nilEP {
			return fmt.Sprintf("wep-update %d nil-endpoint", o.id)
		}
		return fmt.Sprintf("wep-update %d v4=%v v6=%v dscp-policies=%d qos=%s", o.id, netsText(o.v4), netsText(o.v6), o.ndscp, o.qkind)
	case "wr":
		return fmt.Sprintf("wep-remove %d", o.id)
	case "hu":
		return fmt.Sprintf("hep-update %d v4=%v v6=%v dscp-policies=%d", o.id, netsText(o.v4), netsText(o.v6), o.ndscp)
	case "hr":
		return fmt.Sprintf("hep-remove %d", o.id)
	}
	return o.kind
}

func dscpPolicies(n int) []*proto.QoSPolicy {
	var ps []*proto.QoSPolicy
	for i := 0; i < n; i++ {
		ps = append(ps, &proto.QoSPolicy{Dscp: int32(10 + 8*i)})
	}
	return ps
}

func (o *opT) msg(otherIdx int) any {
	switch o.kind {
	case "wu":
		m := &proto.WorkloadEndpointUpdate{Id: wepIDs[o.id]}
		if o.nilEP {
			return m
		}
		ep := &proto.WorkloadEndpoint{
			State: "active", Name: fmt.Sprintf("cali%d", o.id),
			Ipv4Nets: netsText(o.v4), Ipv6Nets: netsText(o.v6),
			QosPolicies: dscpPolicies(o.ndscp),
		}
		if o.qos != nil {
			q := o.qos
			ep.QosControls = &proto.QoSControls{
				IngressBandwidth: q[0], EgressBandwidth: q[1], IngressBurst: q[2], EgressBurst: q[3],
				IngressPacketRate: q[4], EgressPacketRate: q[5], IngressMaxConnections: q[6], EgressMaxConnections: q[7],
				IngressPeakrate: q[8], EgressPeakrate: q[9], IngressMinburst: q[10], EgressMinburst: q[11],
				IngressPacketBurst: q[12], EgressPacketBurst: q[13],
			}
		}
		m.Endpoint = ep
		return m
	case "wr":
		return &proto.WorkloadEndpointRemove{Id: wepIDs[o.id]}
	case "hu":
		return &proto.HostEndpointUpdate{Id: hepIDs[o.id], Endpoint: &proto.HostEndpoint{
			Name: "eth0", ExpectedIpv4Addrs: netsText(o.v4), ExpectedIpv6Addrs: netsText(o.v6), QosPolicies: dscpPolicies(o.ndscp)}}
	case "hr":
		return &proto.HostEndpointRemove{Id: hepIDs[o.id]}
	}
	switch otherIdx % 4 {
	case 0:
		return &proto.InSync{}
	case 1:
		return &proto.IPSetUpdate{Id: rules.IPSetIDNoFlowOffload, Members: []string{"10.65.0.9"}}
	case 2:
		return &proto.ActiveProfileUpdate{Id: &proto.ProfileID{Name: "p"}}
	}
	return &proto.HostMetadataUpdate{Hostname: "h", Ipv4Addr: "10.65.0.1"}
}

// ---------------------------------------------------------------- generators

func pickNets(r *rng, wep bool) (v4, v6 []netT) {
	pick := func(pool []string, full int) []netT {
		var out []netT
		n := []int{0, 1, 1, 1, 2, 2, 3}[r.intn(7)]
		for i := 0; i < n; i++ {
			m := -1
			if wep {
				m = full
			}
			out = append(out, netT{pool[r.intn(len(pool))], m})
		}
		return out
	}
	return pick(v4Pool, 32), pick(v6Pool, 128)
}

// qos kinds: which fields of QoSControls are set
var qosKinds = []string{"none", "dscp", "iconn", "econn", "iprate", "eprate", "bandwidth", "zero", "pburst", "mix", "dscp+bw"}

func setQos(r *rng, o *opT, kind string) {
	o.qkind = kind
	val := func() int64 { return int64(1 + r.intn(5000)) }
	switch kind {
	case "none":
	case "dscp":
		o.ndscp = 1 + r.intn(2)
	case "iconn":
		o.qos = &[14]int64{6: val()}
	case "econn":
		o.qos = &[14]int64{7: val()}
	case "iprate":
		o.qos = &[14]int64{4: val(), 12: int64(r.intn(20))}
	case "eprate":
		o.qos = &[14]int64{5: val(), 13: int64(r.intn(20))}
	case "bandwidth":
		o.qos = &[14]int64{0: val() * 1000, 1: val() * 1000, 2: val(), 3: val(), 8: val(), 9: val(), 10: val(), 11: val()}
	case "zero":
		o.qos = &[14]int64{}
	case "pburst":
		o.qos = &[14]int64{12: val(), 13: val()}
	case "mix":
		q := [14]int64{}
		for i := range q {
			if r.coin(1, 4) {
				q[i] = val()
			}
		}
		o.qos = &q
		if r.coin(1, 4) {
			o.ndscp = 1
		}
	case "dscp+bw":
		o.ndscp = 1
		o.qos = &[14]int64{0: val(), 1: val()}
	case "negative":
		q := [14]int64{}
		q[4+r.intn(4)] = -int64(1 + r.intn(100))
		o.qos = &q
	case "huge":
		q := [14]int64{}
		q[4+r.intn(4)] = int64(1) << 62
		o.qos = &q
	}
}

func genWepUpdate(r *rng, id int, kind string) *opT {
	o := &opT{kind: "wu", id: id}
	o.v4, o.v6 = pickNets(r, true)
	setQos(r, o, kind)
	return o
}
func genHepUpdate(r *rng, id int, dscp bool) *opT {
	o := &opT{kind: "hu", id: id}
	o.v4, o.v6 = pickNets(r, false)
	if dscp {
		o.ndscp = 1 + r.intn(2)
	}
	return o
}

func randomOp(r *rng, nW, nH int, boundary bool) *opT {
	x := r.intn(100)
	switch {
	case x < 45:
		k := qosKinds[r.intn(len(qosKinds))]
		if boundary && r.coin(1, 3) {
			k = []string{"negative", "huge", "zero"}[r.intn(3)]
		}
		o := genWepUpdate(r, r.intn(nW), k)
		if boundary {
			switch r.intn(8) {
			case 0:
				return &opT{kind: "wu", id: o.id, nilEP: true}
			case 1:
				o.v4, o.v6 = nil, nil
			case 2: // nets without mask text
				for i := range o.v4 {
					o.v4[i].mask = -1
				}
				for i := range o.v6 {
					o.v6[i].mask = -1
				}
			case 3: // the same address twice in one endpoint
				if len(o.v4) > 0 {
					o.v4 = append(o.v4, o.v4[0])
				}
				if len(o.v6) > 0 {
					o.v6 = append(o.v6, o.v6[0])
				}
			}
		}
		return o
	case x < 57:
		return &opT{kind: "wr", id: r.intn(nW)}
	case x < 72:
		return genHepUpdate(r, r.intn(nH), r.coin(2, 3))
	case x < 78:
		return &opT{kind: "hr", id: r.intn(nH)}
	case x < 82:
		return &opT{kind: "other"}
	}
	return &opT{kind: "flush"}
}

var flush = &opT{kind: "flush"}

func fixedNets(wep bool, idx ...int) (v4, v6 []netT) {
	for _, i := range idx {
		m4, m6 := -1, -1
		if wep {
			m4, m6 = 32, 128
		}
		v4 = append(v4, netT{v4Pool[i], m4})
		v6 = append(v6, netT{v6Pool[i], m6})
	}
	return
}
func wu(r *rng, id int, kind string, idx ...int) *opT {
	o := &opT{kind: "wu", id: id}
	o.v4, o.v6 = fixedNets(true, idx...)
	setQos(r, o, kind)
	return o
}
func hu(id int, ndscp int, idx ...int) *opT {
	o := &opT{kind: "hu", id: id, ndscp: ndscp}
	o.v4, o.v6 = fixedNets(false, idx...)
	return o
}

var needKinds = []string{"dscp", "iconn", "econn", "iprate", "eprate"}
var noNeedKinds = []string{"none", "bandwidth", "zero", "pburst"}

func scenario(r *rng, k int) ([]*opT, string) {
	need := func() string { return needKinds[r.intn(len(needKinds))] }
	noNeed := func() string { return noNeedKinds[r.intn(len(noNeedKinds))] }
	a, b := r.intn(len(wepIDs)), 0
	for b = r.intn(len(wepIDs)); b == a; b = r.intn(len(wepIDs)) {
	}
	x, y := r.intn(4), 0
	for y = r.intn(4); y == x; y = r.intn(4) {
	}
	switch k % 9 {
	case 0: // shared address, one owner removed, then the other
		return []*opT{wu(r, a, need(), x), wu(r, b, need(), x), flush, {kind: "wr", id: a}, flush, {kind: "wr", id: b}, flush}, "shared-then-removed"
	case 1: // QoS switched off
		return []*opT{wu(r, a, need(), x), flush, wu(r, a, noNeed(), x), flush}, "qos-off"
	case 2: // address changes
		return []*opT{wu(r, a, need(), x), flush, wu(r, a, need(), y), flush}, "address-change"
	case 3: // add and remove inside one batch, then an idle flush
		return []*opT{flush, wu(r, a, need(), x), {kind: "wr", id: a}, flush, flush}, "add-remove-one-batch"
	case 4: // features that do not count, then one that does
		return []*opT{wu(r, a, "none", x), flush, wu(r, a, "bandwidth", x), flush, wu(r, a, need(), x), flush}, "qos-on-late"
	case 5: // host and workload endpoint share an address
		return []*opT{hu(0, 1, x), wu(r, a, need(), x), flush, hu(0, 0, x), flush, {kind: "wr", id: a}, flush}, "hep-wep-shared"
	case 6: // endpoint loses one of two addresses while another endpoint keeps it
		return []*opT{wu(r, a, need(), x, y), wu(r, b, need(), y), flush, wu(r, a, need(), x), flush, wu(r, b, noNeed(), y), flush}, "partial-address-loss"
	case 7: // ids that differ in one component only (0/2 endpoint, 0/3 orchestrator)
		c := []int{2, 3}[r.intn(2)]
		return []*opT{wu(r, 0, need(), x), wu(r, c, need(), y), flush, {kind: "wr", id: c}, flush, {kind: "wr", id: 0}, flush}, "similar-ids"
	}
	// host endpoint toggles DSCP and changes addresses
	return []*opT{hu(1, 2, x), flush, hu(1, 1, y), flush, hu(1, 0, y), flush, {kind: "hr", id: 1}, flush}, "hep-toggle"
}

// ---------------------------------------------------------------- the rule: render + parse

var ctNames = map[string]string{"new": "CtNew", "established": "CtEstablished", "related": "CtRelated", "invalid": "CtInvalid", "untracked": "CtUntracked"}

func bcoq(x bool) string {
	if x {
		return "true"
	}
	return "false"
}

// parseOffloadRule parses the text of an nftables rule that carries a flow-offload statement.
// Grammar (anything else is an error):
//
//	rule   := match* "counter" "flow" ("offload"|"add") "@"<flowtable>
//	match  := "ct" "state" ["!="] state("," state)*
//	        | ("ip"|"ip6") ("saddr"|"daddr") ["!="] "@"<set>
//	        | "meta" "l4proto" ["!="] <number>
//	        | "meta" "mark" "&" <n> ("=="|"!=") <n>
//	        | ("iifname"|"oifname") ["!="] <name>[*]
func parseOffloadRule(text string, ver int, setID func(string) int) (string, error) {
	t := strings.Fields(text)
	i := 0
	peek := func() string {
		if i < len(t) {
			return t[i]
		}
		return ""
	}
	next := func() string { s := peek(); i++; return s }
	neg := func() bool {
		if peek() == "!=" {
			i++
			return true
		}
		return false
	}
	fam := "ip"
	if ver == 6 {
		fam = "ip6"
	}
	var ms []string
	for {
		w := next()
		switch w {
		case "":
			return "", fmt.Errorf("rule without statement: %q", text)
		case "ct":
			if next() != "state" {
				return "", fmt.Errorf("unknown ct key in %q", text)
			}
			ng := neg()
			var sts []string
			for _, s := range strings.Split(next(), ",") {
				c, ok := ctNames[s]
				if !ok {
					return "", fmt.Errorf("unknown conntrack state %q in %q", s, text)
				}
				sts = append(sts, c)
			}
			ms = append(ms, fmt.Sprintf("MCtState %s [%s]", bcoq(ng), strings.Join(sts, "; ")))
		case "ip", "ip6":
			if w != fam {
				return "", fmt.Errorf("%s match in an IPv%d rule: %q", w, ver, text)
			}
			dir := next()
			if dir != "saddr" && dir != "daddr" {
				return "", fmt.Errorf("unknown %s field %q in %q", w, dir, text)
			}
			ng := neg()
			ref := next()
			if !strings.HasPrefix(ref, "@") || len(ref) < 2 {
				return "", fmt.Errorf("expected a set reference, got %q in %q", ref, text)
			}
			k := "MSrcIpSet"
			if dir == "daddr" {
				k = "MDstIpSet"
			}
			ms = append(ms, fmt.Sprintf("%s %s %d", k, bcoq(ng), setID(ref[1:])))
		case "meta":
			switch f := next(); f {
			case "l4proto":
				ng := neg()
				n, err := strconv.Atoi(next())
				if err != nil || n < 0 || n > 255 {
					return "", fmt.Errorf("bad protocol number in %q", text)
				}
				ms = append(ms, fmt.Sprintf("MProto %s %d", bcoq(ng), n))
			case "mark":
				if next() != "&" {
					return "", fmt.Errorf("bad mark match in %q", text)
				}
				mk, err := strconv.ParseUint(next(), 0, 32)
				if err != nil {
					return "", err
				}
				op := next()
				if op != "==" && op != "!=" {
					return "", fmt.Errorf("bad mark operator in %q", text)
				}
				v, err := strconv.ParseUint(next(), 0, 32)
				if err != nil {
					return "", err
				}
				ms = append(ms, fmt.Sprintf("MMark %s %d %d", bcoq(op == "!="), v, mk))
			default:
				return "", fmt.Errorf("unknown meta key %q in %q", f, text)
			}
		case "iifname", "oifname":
			ng := neg()
			name := strings.Trim(next(), `"`)
			wild := strings.HasSuffix(name, "*")
			name = strings.TrimSuffix(name, "*")
			var bs []string
			for _, c := range []byte(name) {
				bs = append(bs, strconv.Itoa(int(c)))
			}
			k := "MInIface"
			if w == "oifname" {
				k = "MOutIface"
			}
			ms = append(ms, fmt.Sprintf("%s %s [%s] %s", k, bcoq(ng), strings.Join(bs, "; "), bcoq(wild)))
		case "counter":
			if next() != "flow" {
				return "", fmt.Errorf("statement is not a flow offload: %q", text)
			}
			if v := next(); v != "offload" && v != "add" {
				return "", fmt.Errorf("unknown flow statement %q in %q", v, text)
			}
			if ft := next(); ft != "@"+dataplanedefs.FlowtableName {
				return "", fmt.Errorf("flow statement names flowtable %q, the table declares %q", ft, dataplanedefs.FlowtableName)
			}
			if i != len(t) {
				return "", fmt.Errorf("trailing tokens after the flow statement: %q", text)
			}
			mm := make([]string, len(ms))
			for j, m := range ms {
				mm[j] = m
			}
			return "{| or_match := [" + strings.Join(mm, "; ") + "]; or_action := OFlowOffload |}", nil
		default:
			return "", fmt.Errorf("unknown token %q in %q", w, text)
		}
	}
}

func hasFlowToken(text string) bool {
	for _, w := range strings.Fields(text) {
		if w == "flow" || strings.Contains(w, "FLOWOFFLOAD") {
			return true
		}
	}
	return false
}

type renderedRule struct {
	forward bool
	index   int
	coq     string
	text    string
}

func renderOffloadRules(nft, offload bool, ver int, managedSetName string) (out []renderedRule, err error) {
	defer func() {
		if x := recover(); x != nil {
			err = fmt.Errorf("renderer panicked: %v", x)
		}
	}()
	cfg := rules.Config{
		IPSetConfigV4: ipsets.NewIPVersionConfig(ipsets.IPFamilyV4, rules.IPSetNamePrefix, nil, nil),
		IPSetConfigV6: ipsets.NewIPVersionConfig(ipsets.IPFamilyV6, rules.IPSetNamePrefix, nil, nil),
		MarkAccept:    0x8, MarkPass: 0x10, MarkScratch0: 0x20, MarkScratch1: 0x40, MarkDrop: 0x80,
		MarkEndpoint: 0xff00, MarkNonCaliEndpoint: 0x0100,
		FilterDenyAction: "DROP", VXLANPort: 4789, VXLANVNI: 4096,
		WorkloadIfacePrefixes:    []string{"cali"},
		NFTablesFlowTableOffload: offload,
	}
	rr := rules.NewRenderer(cfg, nft)
	var chains []*generictables.Chain
	tables := []struct {
		name string
		f    func(uint8) []*generictables.Chain
	}{
		{"filter", rr.StaticFilterTableChains}, {"nat", rr.StaticNATTableChains},
		{"mangle", rr.StaticMangleTableChains}, {"raw", rr.StaticRawTableChains},
	}
	feat := &environment.Features{}
	names := map[string]int{}
	setID := func(n string) int {
		if n == managedSetName {
			return 1
		}
		if id, ok := names[n]; ok {
			return id
		}
		names[n] = 2 + len(names)
		return names[n]
	}
	for _, tb := range tables {
		chains = tb.f(uint8(ver))
		for _, ch := range chains {
			for idx := range ch.Rules {
				rule := ch.Rules[idx]
				var txt string
				if nft {
					txt = nftables.NewNFTRenderer("", uint8(ver)).Render(ch.Name, "", rule, feat).Rule
				} else {
					txt = iptables.NewIptablesRenderer("").RenderAppend(&rule, ch.Name, "", feat)
				}
				_, isOff := rule.Action.(nftables.FlowOffloadAction)
				if !isOff && !hasFlowToken(txt) {
					continue
				}
				if !nft {
					return nil, fmt.Errorf("flow offload statement in an iptables rule: %q", txt)
				}
				c, perr := parseOffloadRule(txt, ver, setID)
				if perr != nil {
					return nil, perr
				}
				out = append(out, renderedRule{forward: tb.name == "filter" && ch.Name == rules.ChainFilterForward, index: idx, coq: c, text: tb.name + "/" + ch.Name + ": " + txt})
			}
		}
	}
	return out, nil
}

// ---------------------------------------------------------------- which QoS controls does the renderer act on in the filter chains?

var limitRenderer rules.RuleRenderer

// rendersLimits renders the real per-workload filter chains (nftables flavour) for the given QoS controls and reports
// whether any rule carries a packet-rate or connection-limit action.  These are the rules an offloaded flow would skip.
func rendersLimits(q *proto.QoSControls) (res bool, err error) {
	defer func() {
		if x := recover(); x != nil {
			err = fmt.Errorf("endpoint chain renderer panicked: %v", x)
		}
	}()
	if limitRenderer == nil {
		limitRenderer = rules.NewRenderer(rules.Config{
			IPSetConfigV4: ipsets.NewIPVersionConfig(ipsets.IPFamilyV4, rules.IPSetNamePrefix, nil, nil),
			IPSetConfigV6: ipsets.NewIPVersionConfig(ipsets.IPFamilyV6, rules.IPSetNamePrefix, nil, nil),
			MarkAccept:    0x8, MarkPass: 0x10, MarkScratch0: 0x20, MarkScratch1: 0x40, MarkDrop: 0x80,
			MarkEndpoint: 0xff00, MarkNonCaliEndpoint: 0x0100,
			FilterDenyAction: "DROP", VXLANPort: 4789, VXLANVNI: 4096,
			WorkloadIfacePrefixes:    []string{"cali"},
			NFTablesFlowTableOffload: true,
		}, true)
	}
	for _, ch := range limitRenderer.WorkloadEndpointToIptablesChains("cali0", nil, true, nil, nil, q) {
		for i := range ch.Rules {
			switch ch.Rules[i].Action.(type) {
			case nftables.LimitPacketRateAction, *nftables.LimitPacketRateAction,
				nftables.LimitNumConnectionsAction, *nftables.LimitNumConnectionsAction:
				res = true
			}
		}
	}
	return res, nil
}

// ---------------------------------------------------------------- main

func main() {
	n := flag.Int("n", 100, "cases")
	seed := flag.Uint64("seed", 1, "seed")
	flag.Parse()
	logrus.SetLevel(logrus.PanicLevel)
	logrus.SetOutput(devNull{})
	r := &rng{s: *seed*0x2545F4914F6CDD1D + 0xC41}
	enc := json.NewEncoder(os.Stdout)
	stats := map[string]int{}

	for i := 0; i < *n; i++ {
		ver := 4
		if r.coin(2, 5) {
			ver = 6
		}
		var ops []*opT
		stream := "random"
		var tags []string
		switch {
		case i%5 == 1:
			stream = "scenario"
			var nm string
			ops, nm = scenario(r, i/5)
			tags = append(tags, "scenario:"+nm)
			for k := r.intn(8); k > 0; k-- {
				ops = append(ops, randomOp(r, len(wepIDs), len(hepIDs), false))
			}
		case i%5 == 3:
			stream = "boundary"
			nops := 4 + r.intn(20)
			for k := 0; k < nops; k++ {
				ops = append(ops, randomOp(r, 3, 2, true))
			}
			if r.coin(1, 3) {
				ops = append([]*opT{flush, flush}, ops...)
			}
		default:
			nW, nH := 2+r.intn(len(wepIDs)-1), 1+r.intn(len(hepIDs))
			nops := 6 + r.intn(25)
			for k := 0; k < nops; k++ {
				ops = append(ops, randomOp(r, nW, nH, false))
			}
		}
		ops = append(ops, flush) // the dataplane loop always ends an apply with CompleteDeferredWork
		tags = append(tags, "stream:"+stream, fmt.Sprintf("ver:%d", ver))

		// ---- run the real manager
		fam := ipsets.IPFamilyV4
		if ver == 6 {
			fam = ipsets.IPFamilyV6
		}
		rec := &recIPSets{fam: fam, setIDs: map[string]bool{}, real: newRealLayer(fam)}
		var progs []string
		mgr := intdataplane.VerifC41NewExclusionManager(rec, uint8(ver), 1048576)
		var outs, sampleOps []string
		badMembers := map[string]int{}
		memberNum := func(m string) string {
			v := ipNum(m)
			isV6 := strings.Contains(m, ":")
			switch {
			case v == nil: // not an IP address at all (e.g. the mask was left on): a number no address has
				if _, ok := badMembers[m]; !ok {
					badMembers[m] = len(badMembers)
				}
				return new(big.Int).Add(new(big.Int).Lsh(big.NewInt(1), 130), big.NewInt(int64(badMembers[m]))).String()
			case isV6 != (ver == 6): // address of the other family
				return new(big.Int).Add(new(big.Int).Lsh(big.NewInt(1), 129), v).String()
			}
			return v.String()
		}
		// driver-side bookkeeping, only for tags / the non-triviality rule
		type shadow struct {
			needs bool
			addrs []string
		}
		sw, sh := map[int]shadow{}, map[int]shadow{}
		shared, toggledOff, addrChange, sawNone := false, false, false, false
		famNets := func(o *opT) []string {
			ns := o.v4
			if ver == 6 {
				ns = o.v6
			}
			var a []string
			for _, x := range ns {
				a = append(a, x.addr)
			}
			return a
		}
		otherIdx := 0
		var limits []string
		for _, o := range ops {
			sampleOps = append(sampleOps, o.text())
			switch o.kind {
			case "flush":
				rec.changed = false
				if err := mgr.CompleteDeferredWork(); err != nil {
					fatal("CompleteDeferredWork returned %v", err)
				}
				if rec.changed {
					nums := make([]*big.Int, 0, len(rec.cur))
					for _, m := range rec.cur {
						b, _ := new(big.Int).SetString(memberNum(m), 10)
						nums = append(nums, b)
					}
					sort.Slice(nums, func(a, b int) bool { return nums[a].Cmp(nums[b]) < 0 })
					p := make([]string, len(nums))
					for k, b := range nums {
						p[k] = b.String()
					}
					outs = append(outs, "Some ["+strings.Join(p, "; ")+"]")
				} else {
					outs = append(outs, "None")
					sawNone = true
				}
				// the dataplane loop now applies the IP set updates; read back what the rule's set holds
				rec.real.do("ApplyUpdates", func() { rec.real.sets.ApplyUpdates(nil) })
				if els, ok := rec.real.programmed(ruleSetName(ver)); ok {
					nums := make([]*big.Int, 0, len(els))
					for _, m := range els {
						b, _ := new(big.Int).SetString(memberNum(m), 10)
						nums = append(nums, b)
					}
					sort.Slice(nums, func(a, b int) bool { return nums[a].Cmp(nums[b]) < 0 })
					p := make([]string, len(nums))
					for k, b := range nums {
						p[k] = b.String()
					}
					progs = append(progs, "Some ["+strings.Join(p, "; ")+"]")
				} else {
					progs = append(progs, "None")
				}
				// shared address among endpoints that need the hooks?
				cnt := map[string]int{}
				for _, s := range sw {
					if s.needs {
						seen := map[string]bool{}
						for _, a := range s.addrs {
							if !seen[a] {
								cnt[a]++
								seen[a] = true
							}
						}
					}
				}
				for _, s := range sh {
					if s.needs {
						seen := map[string]bool{}
						for _, a := range s.addrs {
							if !seen[a] {
								cnt[a]++
								seen[a] = true
							}
						}
					}
				}
				for _, c := range cnt {
					if c >= 2 {
						shared = true
					}
				}
				continue
			case "wu":
				needs := !o.nilEP && (o.ndscp > 0 || (o.qos != nil && (o.qos[4] != 0 || o.qos[5] != 0 || o.qos[6] != 0 || o.qos[7] != 0)))
				old, had := sw[o.id]
				if had && old.needs && !needs {
					toggledOff = true
				}
				if had && old.needs && needs && strings.Join(old.addrs, ",") != strings.Join(famNets(o), ",") {
					addrChange = true
				}
				sw[o.id] = shadow{needs, famNets(o)}
				if !o.nilEP {
					var qc *proto.QoSControls
					if m, ok := o.msg(0).(*proto.WorkloadEndpointUpdate); ok {
						qc = m.Endpoint.QosControls
					}
					lim, lerr := rendersLimits(qc)
					if lerr != nil {
						fatal("%v", lerr)
					}
					qs := "None"
					if o.qos != nil {
						p := make([]string, 14)
						for k, v := range o.qos {
							p[k] = zCoq(v)
						}
						qs = "Some (QC " + strings.Join(p, " ") + ")"
					}
					limits = append(limits, fmt.Sprintf("(%s, %s)", qs, bcoq(lim)))
				}
				tags = append(tags, "qos:"+map[bool]string{true: "nil-endpoint", false: o.qkind}[o.nilEP])
			case "wr":
				delete(sw, o.id)
			case "hu":
				old, had := sh[o.id]
				if had && old.needs && o.ndscp == 0 {
					toggledOff = true
				}
				sh[o.id] = shadow{o.ndscp > 0, famNets(o)}
				tags = append(tags, "hep-update")
			case "hr":
				delete(sh, o.id)
			case "other":
				otherIdx++
			}
			mgr.OnUpdate(o.msg(otherIdx))
		}
		if len(badMembers) > 0 {
			tags = append(tags, "non-ip-member")
		}
		if len(rec.setIDs) > 1 {
			fatal("the manager wrote more than one IP set: %v", rec.setIDs)
		}

		// ---- the rule
		cfgIdx := i % 8
		nft, offload := true, true
		switch cfgIdx {
		case 2, 6:
			offload = false
		case 5:
			nft = false
		case 7:
			nft, offload = false, false
		}
		managed := ""
		if rec.haveMeta {
			ipc := ipsets.NewIPVersionConfig(fam, rules.IPSetNamePrefix, nil, nil)
			managed = nftables.LegalizeSetName(ipc.NameForMainIPSet(rec.meta.SetID))
			if rec.meta.Type != ipsets.IPSetTypeHashIP {
				tags = append(tags, "set-type:"+string(rec.meta.Type))
			}
		}
		rrs, err := renderOffloadRules(nft, offload, ver, managed)
		if err != nil {
			fatal("%v", err)
		}
		tobs, terr := tableRoundTrip(r, ver, rec.real.fake, managed)
		if terr != nil {
			fatal("%v", terr)
		}
		var rcoq, rtext []string
		for _, x := range rrs {
			rcoq = append(rcoq, fmt.Sprintf("{| l_forward := %s; l_index := %d%%nat; l_rule := %s |}", bcoq(x.forward), x.index, x.coq))
			rtext = append(rtext, x.text)
		}
		tags = append(tags, fmt.Sprintf("render:nft=%v,offload=%v", nft, offload))

		// ---- emit
		opc := make([]string, len(ops))
		for k, o := range ops {
			opc[k] = o.coq()
		}
		coq := fmt.Sprintf("{| c_ver := V%d; c_ops := [%s]; c_outs := [%s]; c_nft := %s; c_offload := %s; c_rules := [%s]; c_limits := [%s]; c_prog := [%s]; "+
			"c_krule := %s; c_ft_declared := %s; c_ft_devs := %s; c_dev_in := (%s, %s, %s, %s) |}",
			ver, strings.Join(opc, "; "), strings.Join(outs, "; "), bcoq(nft), bcoq(offload), strings.Join(rcoq, "; "), strings.Join(limits, "; "), strings.Join(progs, "; "),
			tobs.ruleCoq, bcoq(tobs.declared), idsCoq(tobs.devs), idsCoq(tobs.ovl), idsCoq(tobs.wl), idsCoq(tobs.ext), idsCoq(tobs.existing))
		tags = append(tags, fmt.Sprintf("ft-devices:%d", len(tobs.devs)))
		if len(tobs.devs) < len(tobs.ovl)+len(tobs.wl)+len(tobs.ext) {
			tags = append(tags, "ft-devices-merged-or-pruned")
		}
		if rec.real.broken != "" {
			tags = append(tags, "ipset-layer-broken")
			stats["ipset-layer-broken"]++
		}
		for _, f := range []struct {
			on  bool
			tag string
		}{{shared, "shared-address"}, {toggledOff, "qos-toggled-off"}, {addrChange, "address-change"}, {sawNone, "idle-flush"}} {
			if f.on {
				tags = append(tags, f.tag)
			}
		}
		// dedupe tags per case (qos kinds repeat)
		seen := map[string]bool{}
		var utags []string
		for _, t := range tags {
			if !seen[t] {
				seen[t] = true
				utags = append(utags, t)
			}
		}
		nt := shared || toggledOff || addrChange
		if nt {
			stats["nontrivial"]++
		}
		stats["cases"]++
		key := fmt.Sprintf("v%d|%s|%v|%v", ver, strings.Join(opc, ";"), nft, offload)
		l := line{Coq: coq, NT: nt, Key: key, Tags: utags,
			Sample: map[string]any{"ip_version": ver, "ops": sampleOps, "ipset_calls_per_flush": outs, "programmed_set_per_flush": progs, "rule_set_name": ruleSetName(ver), "offload_rules": rtext,
				"kernel_rule": tobs.ruleText, "flowtable_declared": tobs.declared, "flowtable_devices": devStrings(tobs.devs)}}
		if err := enc.Encode(l); err != nil {
			fatal("%v", err)
		}
	}
	b, _ := json.Marshal(map[string]any{"stats": stats})
	fmt.Println(string(b))
}
