//go:build verif

// C41 verification shim (add-only): lets the C41 driver construct the unexported flowtableExclusionManager
// with a caller-supplied IPSetsDataplane.  Nothing here changes behaviour of the package.
package intdataplane

import (
	dpsets "github.com/projectcalico/calico/felix/dataplane/ipsets"
)

// VerifC41Manager is the part of the Manager interface the internal dataplane loop drives.
type VerifC41Manager interface {
	OnUpdate(protoBufMsg any)
	CompleteDeferredWork() error
}

// VerifC41NewExclusionManager builds the real manager exactly as int_dataplane.go does.
func VerifC41NewExclusionManager(ipsetsDataplane dpsets.IPSetsDataplane, ipVersion uint8, maxIPSetSize int) VerifC41Manager {
	return newFlowtableExclusionManager(ipsetsDataplane, ipVersion, maxIPSetSize)
}
