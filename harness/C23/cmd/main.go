//go:build verif

// C23 correspondence driver: generated histories of block updates, pod/node changes (informer cache and API server
// separately), time advance and GC syncs, run SYNCHRONOUSLY against the real IPAMController
// (kube-controllers/pkg/controllers/node) with a recording IPAM client, the fake Kubernetes clientset and real
// informer indexers.  The controller reads time.Now() directly, so every case runs inside a testing/synctest bubble
// (virtual clock; time.Sleep advances it instantly); the binary enters the testing framework through testing.Main.
//
// Output: one JSON object per case with the Coq term of type Verif.C23.Spec.case (inputs + the implementation's
// observed ReleaseIPs / ReleaseBlockAffinity / ReleaseHostAffinities calls and bookkeeping dump after every sync).
package main

import (
	"context"
	"encoding/json"
	"flag"
	"fmt"
	"os"
	"sort"
	"strconv"
	"strings"
	"testing"
	"testing/synctest"
	"time"

	"github.com/sirupsen/logrus"
	v1 "k8s.io/api/core/v1"
	metav1 "k8s.io/apimachinery/pkg/apis/meta/v1"
	"k8s.io/client-go/kubernetes/fake"
	"k8s.io/client-go/tools/cache"

	"github.com/projectcalico/calico/kube-controllers/pkg/config"
	"github.com/projectcalico/calico/kube-controllers/pkg/controllers/node"
	"github.com/projectcalico/calico/libcalico-go/lib/apis/internalapi"
	"github.com/projectcalico/calico/libcalico-go/lib/backend/model"
	"github.com/projectcalico/calico/libcalico-go/lib/clientv3"
	cerrors "github.com/projectcalico/calico/libcalico-go/lib/errors"
	"github.com/projectcalico/calico/libcalico-go/lib/ipam"
	cnet "github.com/projectcalico/calico/libcalico-go/lib/net"
	"github.com/projectcalico/calico/libcalico-go/lib/options"

	apiv3 "github.com/projectcalico/api/pkg/apis/projectcalico/v3"
)

// ---------- rng ----------

type rng struct{ s uint64 }

func (r *rng) next() uint64 {
	r.s += 0x9e3779b97f4a7c15
	z := r.s
	z = (z ^ (z >> 30)) * 0xbf58476d1ce4e5b9
	z = (z ^ (z >> 27)) * 0x94d049bb133111eb
	return z ^ (z >> 31)
}
func (r *rng) n(k int) int       { return int(r.next() % uint64(k)) }
func (r *rng) p(pct int) bool    { return r.n(100) < pct }
func (r *rng) pick(xs []int) int { return xs[r.n(len(xs))] }

// ---------- recording clients ----------

type relOpt struct {
	Handle, IP string
	Seq        uint64
	HasSeq     bool
}

type recIPAM struct {
	ipam.Interface
	rel [][]relOpt
	rba []string
	rha []string
	// failure injection: when failMask != 0 the next ReleaseIPs call releases only the options whose bit is set
	// (option k -> bit k%63; bit 63 only marks the mask as set) and returns an error
	failMask uint64
	failed   bool
	done     []relOpt
}

func (f *recIPAM) ReleaseIPs(ctx context.Context, opts ...ipam.ReleaseOptions) ([]cnet.IP, []ipam.ReleaseOptions, error) {
	var call []relOpt
	for _, o := range opts {
		ro := relOpt{Handle: o.Handle, IP: o.Address}
		if o.SequenceNumber != nil {
			ro.Seq, ro.HasSeq = *o.SequenceNumber, true
		}
		call = append(call, ro)
	}
	f.rel = append(f.rel, call)
	if f.failMask != 0 {
		var released []ipam.ReleaseOptions
		for k, o := range opts {
			if f.failMask&(1<<(uint(k)%63)) != 0 {
				released = append(released, o)
				f.done = append(f.done, call[k])
			}
		}
		f.failed = true
		return nil, released, fmt.Errorf("injected datastore error")
	}
	return nil, opts, nil
}

func (f *recIPAM) ReleaseBlockAffinity(ctx context.Context, block *model.AllocationBlock, mustBeEmpty bool) error {
	f.rba = append(f.rba, block.CIDR.String())
	return nil
}

func (f *recIPAM) ReleaseHostAffinities(ctx context.Context, cfg ipam.AffinityConfig, mustBeEmpty bool) error {
	f.rha = append(f.rha, cfg.Host)
	return nil
}

func (f *recIPAM) GetIPAMConfig(ctx context.Context) (*ipam.IPAMConfig, error) {
	return &ipam.IPAMConfig{}, nil
}

type recNodes struct {
	clientv3.NodeInterface
	nodes map[string]*internalapi.Node
}

func (f *recNodes) Get(ctx context.Context, name string, opts options.GetOptions) (*internalapi.Node, error) {
	if n, ok := f.nodes[name]; ok {
		return n, nil
	}
	return nil, cerrors.ErrorResourceDoesNotExist{Identifier: name}
}

type recClient struct {
	*node.FakeCalicoClient
	ip *recIPAM
	nd *recNodes
}

func (c *recClient) IPAM() ipam.Interface          { return c.ip }
func (c *recClient) Nodes() clientv3.NodeInterface { return c.nd }

// ---------- names ----------

const winHandle = 0

func nodeName(n int) string { return fmt.Sprintf("node-%d", n) }
func podName(p int) string  { return fmt.Sprintf("pod-%d", p) }
func handleName(h int) string {
	if h == winHandle {
		return ipam.WindowsReservedHandle
	}
	return fmt.Sprintf("h%d", h)
}
func blockCIDR(b int) string { return fmt.Sprintf("10.0.%d.0/29", b) }
func ipOf(b, ord int) string { return fmt.Sprintf("10.0.%d.%d", b, ord) }
func numSuffix(s string) int {
	i := strings.LastIndexAny(s, "-h")
	n, err := strconv.Atoi(s[i+1:])
	if err != nil {
		panic("bad name " + s)
	}
	return n
}
func handleNum(s string) int {
	if s == ipam.WindowsReservedHandle {
		return winHandle
	}
	return numSuffix(s)
}
func blockNum(cidr string) int {
	parts := strings.Split(cidr, ".")
	n, _ := strconv.Atoi(parts[2])
	return n
}
func ipNums(ip string) (int, int) {
	parts := strings.Split(ip, ".")
	b, _ := strconv.Atoi(parts[2])
	o, _ := strconv.Atoi(parts[3])
	return b, o
}
func nodeNum(s string) int {
	if s == "" {
		return 0
	}
	return numSuffix(s)
}

// ---------- inputs ----------

type attrsT struct {
	Node, Pod int
	Tun       bool
}
type ballocT struct {
	Ord    int
	Handle int // -1 = no handle
	At     attrsT
	Seq    uint64
}
type blockT struct {
	Aff    int // 0 none, >0 host node, -1 other
	Allocs []ballocT
}
type podT struct {
	Node    int
	IPs     [][2]int
	Evicted bool
}

type event struct {
	Kind    string // pod knode cnodeapi cnodesync block poddeleted full tick sync
	API     bool
	N       int
	Present bool
	NonK8s  bool // Calico node without a Kubernetes OrchRef
	Pod     *podT
	Block   *blockT
	D       int
}

func nodeKindCoq(e event) string {
	if !e.Present {
		return "None"
	}
	return fmt.Sprintf("(Some %v)", !e.NonK8s)
}

func (a attrsT) coq() string { return fmt.Sprintf("(mkAt %d %d %v)", a.Node, a.Pod, a.Tun) }
func (b blockT) coq() string {
	aff := "AffNone"
	if b.Aff > 0 {
		aff = fmt.Sprintf("(AffHost %d)", b.Aff)
	} else if b.Aff < 0 {
		aff = "AffOther"
	}
	var as []string
	for _, a := range b.Allocs {
		h := "None"
		if a.Handle >= 0 {
			h = fmt.Sprintf("(Some %d)", a.Handle)
		}
		as = append(as, fmt.Sprintf("mkBA %d %s %s %d", a.Ord, h, a.At.coq(), a.Seq))
	}
	return fmt.Sprintf("(mkB %s [%s])", aff, strings.Join(as, "; "))
}
func (p podT) coq() string {
	var ips []string
	for _, ip := range p.IPs {
		ips = append(ips, fmt.Sprintf("(%d,%d)", ip[0], ip[1]))
	}
	return fmt.Sprintf("(mkP %d [%s] %v)", p.Node, strings.Join(ips, "; "), p.Evicted)
}
func (e event) coq() string {
	switch e.Kind {
	case "pod":
		if e.Pod == nil {
			return fmt.Sprintf("Ev (EPod %v %d None)", e.API, e.N)
		}
		return fmt.Sprintf("Ev (EPod %v %d (Some %s))", e.API, e.N, e.Pod.coq())
	case "knode":
		return fmt.Sprintf("Ev (EKNode %d %v)", e.N, e.Present)
	case "cnodeapi":
		return fmt.Sprintf("Ev (ECNodeApi %d %s)", e.N, nodeKindCoq(e))
	case "cnodesync":
		return fmt.Sprintf("Ev (ECNodeSync %d %s)", e.N, nodeKindCoq(e))
	case "block":
		if e.Block == nil {
			return fmt.Sprintf("Ev (EBlock %d None)", e.N)
		}
		return fmt.Sprintf("Ev (EBlock %d (Some %s))", e.N, e.Block.coq())
	case "poddeleted":
		return fmt.Sprintf("Ev (EPodDeleted %d)", e.N)
	case "full":
		return "Ev EFull"
	case "tick":
		return fmt.Sprintf("Ev (ETick %d)", e.D)
	}
	panic("kind " + e.Kind)
}

// ---------- running one history against the real controller ----------

type runner struct {
	t0     time.Time
	ctl    *node.VerifC23
	ip     *recIPAM
	nd     *recNodes
	cs     *fake.Clientset
	podIdx cache.Indexer
	nodIdx cache.Indexer
}

func newRunner(grace *int) *runner {
	r := &runner{t0: time.Now()}
	r.ip = &recIPAM{}
	r.nd = &recNodes{nodes: map[string]*internalapi.Node{}}
	cli := &recClient{FakeCalicoClient: node.NewFakeCalicoClient(), ip: r.ip, nd: r.nd}
	r.cs = fake.NewClientset()
	r.podIdx = cache.NewIndexer(cache.MetaNamespaceKeyFunc, cache.Indexers{cache.NamespaceIndex: cache.MetaNamespaceIndexFunc})
	r.nodIdx = cache.NewIndexer(cache.MetaNamespaceKeyFunc, cache.Indexers{})
	cfg := config.NodeControllerConfig{}
	if grace != nil {
		cfg.LeakGracePeriod = &metav1.Duration{Duration: time.Duration(*grace) * time.Second}
	}
	r.ctl = node.NewVerifC23(cfg, cli, r.cs, r.podIdx, r.nodIdx)
	return r
}

func mkPod(p int, v *podT) *v1.Pod {
	pod := &v1.Pod{ObjectMeta: metav1.ObjectMeta{Name: podName(p), Namespace: "ns"}}
	if v.Node != 0 {
		pod.Spec.NodeName = nodeName(v.Node)
	}
	pod.Status.Phase = v1.PodRunning
	for i, ip := range v.IPs {
		s := ipOf(ip[0], ip[1])
		if i == 0 {
			pod.Status.PodIP = s
		}
		pod.Status.PodIPs = append(pod.Status.PodIPs, v1.PodIP{IP: s})
	}
	if v.Evicted {
		pod.Status.Phase = v1.PodFailed
		pod.Status.Reason = "Evicted"
	}
	return pod
}

func calicoNode(n int, nonK8s bool) *internalapi.Node {
	cn := internalapi.NewNode()
	cn.Name = nodeName(n)
	if nonK8s {
		// bare-metal / OpenStack host sharing the datastore: no Kubernetes OrchRef
		cn.Spec.OrchRefs = []internalapi.OrchRef{{NodeName: nodeName(n), Orchestrator: "openstack"}}
	} else {
		cn.Spec.OrchRefs = []internalapi.OrchRef{{NodeName: nodeName(n), Orchestrator: "k8s"}}
	}
	return cn
}

func mkBlock(b int, v *blockT) *model.AllocationBlock {
	_, cidr, _ := cnet.ParseCIDR(blockCIDR(b))
	blk := &model.AllocationBlock{CIDR: *cidr, Allocations: make([]*int, 8), SequenceNumberForAllocation: map[string]uint64{}}
	if v.Aff > 0 {
		s := "host:" + nodeName(v.Aff)
		blk.Affinity = &s
	} else if v.Aff < 0 {
		s := "virtual:load-balancer"
		blk.Affinity = &s
	}
	used := map[int]bool{}
	for _, a := range v.Allocs {
		idx := len(blk.Attributes)
		attr := model.AllocationAttribute{}
		if a.Handle >= 0 {
			h := handleName(a.Handle)
			attr.HandleID = &h
		}
		m := map[string]string{}
		if a.At.Node != 0 {
			m[ipam.AttributeNode] = nodeName(a.At.Node)
		}
		if a.At.Pod != 0 {
			m[ipam.AttributePod] = podName(a.At.Pod)
			m[ipam.AttributeNamespace] = "ns"
		}
		if a.At.Tun {
			m[ipam.AttributeType] = ipam.AttributeTypeVXLAN
		}
		attr.ActiveOwnerAttrs = m
		blk.Attributes = append(blk.Attributes, attr)
		blk.Allocations[a.Ord] = &idx
		blk.SequenceNumberForAllocation[fmt.Sprintf("%d", a.Ord)] = a.Seq
		used[a.Ord] = true
	}
	for o := 0; o < 8; o++ {
		if !used[o] {
			blk.Unallocated = append(blk.Unallocated, o)
		}
	}
	return blk
}

func (r *runner) apply(e event) {
	ctx := context.Background()
	switch e.Kind {
	case "pod":
		name := podName(e.N)
		if e.API {
			_, err := r.cs.CoreV1().Pods("ns").Get(ctx, name, metav1.GetOptions{})
			exists := err == nil
			if e.Pod == nil {
				if exists {
					if err := r.cs.CoreV1().Pods("ns").Delete(ctx, name, metav1.DeleteOptions{}); err != nil {
						panic(err)
					}
				}
			} else if exists {
				if _, err := r.cs.CoreV1().Pods("ns").Update(ctx, mkPod(e.N, e.Pod), metav1.UpdateOptions{}); err != nil {
					panic(err)
				}
			} else {
				if _, err := r.cs.CoreV1().Pods("ns").Create(ctx, mkPod(e.N, e.Pod), metav1.CreateOptions{}); err != nil {
					panic(err)
				}
			}
		} else {
			if e.Pod == nil {
				_ = r.podIdx.Delete(&v1.Pod{ObjectMeta: metav1.ObjectMeta{Name: name, Namespace: "ns"}})
			} else {
				_ = r.podIdx.Update(mkPod(e.N, e.Pod))
			}
		}
	case "knode":
		kn := &v1.Node{ObjectMeta: metav1.ObjectMeta{Name: nodeName(e.N)}}
		if e.Present {
			_ = r.nodIdx.Update(kn)
		} else {
			_ = r.nodIdx.Delete(kn)
		}
	case "cnodeapi":
		if e.Present {
			r.nd.nodes[nodeName(e.N)] = calicoNode(e.N, e.NonK8s)
		} else {
			delete(r.nd.nodes, nodeName(e.N))
		}
	case "cnodesync":
		key := model.ResourceKey{Kind: internalapi.KindNode, Name: nodeName(e.N)}
		if e.Present {
			r.ctl.HandleUpdate(model.KVPair{Key: key, Value: calicoNode(e.N, e.NonK8s)})
		} else {
			r.ctl.HandleUpdate(model.KVPair{Key: key})
		}
	case "block":
		_, cidr, _ := cnet.ParseCIDR(blockCIDR(e.N))
		key := model.BlockKey{CIDR: model.PrefixFromIPNet(*cidr)}
		if e.Block == nil {
			r.ctl.HandleUpdate(model.KVPair{Key: key})
		} else {
			r.ctl.HandleUpdate(model.KVPair{Key: key, Value: mkBlock(e.N, e.Block)})
		}
	case "poddeleted":
		p := &v1.Pod{ObjectMeta: metav1.ObjectMeta{Name: "x", Namespace: "ns"}}
		if e.N != 0 {
			p.Spec.NodeName = nodeName(e.N)
		}
		r.ctl.PodDeleted(p)
	case "full":
		r.ctl.FullScan()
	case "tick":
		time.Sleep(time.Duration(e.D) * time.Second)
	default:
		panic("kind " + e.Kind)
	}
}

type syncObs struct {
	Failed bool
	Done   []relOpt
	Rel    [][]relOpt
	RBA    []string
	RHA    []string
	Dump   node.VerifC23Dump
	Err    string
}

func (r *runner) sync() syncObs { return r.syncWith(0) }

func (r *runner) syncWith(failMask uint64) syncObs {
	r.ip.rel, r.ip.rba, r.ip.rha = nil, nil, nil
	r.ip.failMask, r.ip.failed, r.ip.done = failMask, false, nil
	err := r.ctl.Sync()
	r.ip.failMask = 0
	o := syncObs{Rel: r.ip.rel, RBA: r.ip.rba, RHA: r.ip.rha, Dump: r.ctl.Dump(), Failed: r.ip.failed, Done: r.ip.done}
	if err != nil {
		o.Err = err.Error()
	}
	return o
}

func idCoq(handle, ip string) string {
	b, o := ipNums(ip)
	return fmt.Sprintf("(%d,%d,%d)", handleNum(handle), b, o)
}

func sortedJoin(xs []string) string {
	sort.Strings(xs)
	return strings.Join(xs, "; ")
}

func (r *runner) secs(t time.Time) int { return int(t.Sub(r.t0) / time.Second) }

func (r *runner) obsCoq(o syncObs) (string, bool) {
	malformed := false
	var rel []string
	if len(o.Rel) > 1 {
		malformed = true
	}
	for _, call := range o.Rel {
		for _, x := range call {
			if !x.HasSeq {
				malformed = true
			}
			b, ord := ipNums(x.IP)
			rel = append(rel, fmt.Sprintf("mkR %d %d %d %d", handleNum(x.Handle), b, ord, x.Seq))
		}
	}
	var rba, rha []string
	for _, b := range o.RBA {
		rba = append(rba, strconv.Itoa(blockNum(b)))
	}
	for _, n := range o.RHA {
		rha = append(rha, strconv.Itoa(nodeNum(n)))
	}
	sort.Strings(rha)
	d := o.Dump
	var blocks, allocs, bynode, dirty, byhandle, conf, nbb, bbn, empty, tracker []string
	for _, b := range d.Blocks {
		blocks = append(blocks, strconv.Itoa(blockNum(b)))
	}
	for _, a := range d.Allocs {
		b, ord := ipNums(a.IP)
		if blockNum(a.Block) != b {
			malformed = true
		}
		at := attrsT{Node: nodeNum(a.Attrs[ipam.AttributeNode])}
		if a.Attrs[ipam.AttributePod] != "" && a.Attrs[ipam.AttributeNamespace] != "" {
			at.Pod = numSuffix(a.Attrs[ipam.AttributePod])
		}
		at.Tun = a.Attrs[ipam.AttributeType] == ipam.AttributeTypeVXLAN
		leaked := "None"
		if a.LeakedAt != nil {
			leaked = fmt.Sprintf("(Some %d)", r.secs(*a.LeakedAt))
		}
		allocs = append(allocs, fmt.Sprintf("mkA %d %d %d %s %d %d %s %v", handleNum(a.Handle), b, ord, at.coq(), a.Seq, nodeNum(a.Knode), leaked, a.Confirmed))
	}
	for n, ids := range d.ByNode {
		for _, id := range ids {
			bynode = append(bynode, fmt.Sprintf("(%d,%s)", nodeNum(n), idCoq(id[0], id[1])))
		}
	}
	for _, n := range d.Dirty {
		dirty = append(dirty, strconv.Itoa(nodeNum(n)))
	}
	for h, ids := range d.ByHandle {
		for _, id := range ids {
			byhandle = append(byhandle, fmt.Sprintf("(%d,%s)", handleNum(h), idCoq(id[0], id[1])))
		}
	}
	for _, id := range d.Conf {
		conf = append(conf, idCoq(id[0], id[1]))
	}
	for b, n := range d.NBB {
		nbb = append(nbb, fmt.Sprintf("(%d,%d)", blockNum(b), nodeNum(n)))
	}
	for n, bs := range d.BBN {
		for _, b := range bs {
			bbn = append(bbn, fmt.Sprintf("(%d,%d)", nodeNum(n), blockNum(b)))
		}
	}
	for b, n := range d.Empty {
		empty = append(empty, fmt.Sprintf("(%d,%d)", blockNum(b), nodeNum(n)))
	}
	for b, t := range d.Tracker {
		tracker = append(tracker, fmt.Sprintf("(%d,%d)", blockNum(b), r.secs(t)))
	}
	dump := fmt.Sprintf("(mkD [%s] [%s] [%s] [%s] [%s] [%s] [%s] [%s] [%s] [%s] %v)", sortedJoin(blocks), sortedJoin(allocs),
		sortedJoin(bynode), sortedJoin(dirty), sortedJoin(byhandle), sortedJoin(conf), sortedJoin(nbb), sortedJoin(bbn),
		sortedJoin(empty), sortedJoin(tracker), d.Full)
	if o.Failed {
		var done []string
		for _, x := range o.Done {
			b, ord := ipNums(x.IP)
			done = append(done, fmt.Sprintf("mkR %d %d %d %d", handleNum(x.Handle), b, ord, x.Seq))
		}
		if len(rba) > 0 || len(rha) > 0 {
			malformed = true // a failed ReleaseIPs ends the sync
		}
		return fmt.Sprintf("mkSF [%s] %s [%s]", strings.Join(rel, "; "), dump, strings.Join(done, "; ")), malformed
	}
	return fmt.Sprintf("mkS [%s] [%s] [%s] %s", strings.Join(rel, "; "), strings.Join(rba, "; "), strings.Join(rha, "; "), dump), malformed
}

// ---------- generator ----------

type hinfo struct {
	Node, Pod int
	Tun       bool
}

type gen struct {
	r       *rng
	nNodes  int
	nPods   int
	nBlocks int
	nonk8s  map[int]bool  // Calico nodes that are not Kubernetes nodes in this case
	handles map[int]hinfo // attributes are a function of the handle within one case (node attr of an id never changes)
	truth   map[int]*blockT
	seq     map[int]uint64
	tags    map[string]bool
	stream  string
}

func (g *gen) handleInfo(h int) hinfo {
	if hi, ok := g.handles[h]; ok {
		return hi
	}
	var hi hinfo
	switch {
	case h == winHandle:
		hi = hinfo{Node: 1 + g.r.n(g.nNodes)}
	case h >= 20: // tunnel handle of node h-20
		hi = hinfo{Node: h - 20, Tun: true}
	case h == 9: // neither pod nor tunnel
		hi = hinfo{Node: 1 + g.r.n(g.nNodes)}
	case h == 8: // pod address without a node attribute
		hi = hinfo{Pod: 1 + g.r.n(g.nPods)}
	default:
		hi = hinfo{Node: 1 + g.r.n(g.nNodes), Pod: 1 + g.r.n(g.nPods)}
	}
	g.handles[h] = hi
	return hi
}

func (g *gen) snapshot(b int) *blockT {
	t := g.truth[b]
	c := &blockT{Aff: t.Aff, Allocs: append([]ballocT(nil), t.Allocs...)}
	sort.Slice(c.Allocs, func(i, j int) bool { return c.Allocs[i].Ord < c.Allocs[j].Ord })
	return c
}

func (g *gen) freeOrd(b int) int {
	used := map[int]bool{}
	for _, a := range g.truth[b].Allocs {
		used[a.Ord] = true
	}
	var free []int
	for o := 0; o < 5; o++ {
		if !used[o] {
			free = append(free, o)
		}
	}
	if len(free) == 0 {
		return -1
	}
	return g.r.pick(free)
}

func (g *gen) pickHandle() int {
	x := g.r.n(100)
	switch {
	case x < 78:
		return 1 + g.r.n(4)
	case x < 88:
		return 20 + 1 + g.r.n(g.nNodes)
	case x < 92:
		return 9
	case x < 95:
		return 8
	case x < 97:
		return winHandle
	default:
		return -1
	}
}

// podFromTruth builds the pod object that the blocks' allocations for pod p describe (consistent world).
func (g *gen) podFromTruth(p int) *podT {
	var pt *podT
	for b := 1; b <= g.nBlocks; b++ {
		t, ok := g.truth[b]
		if !ok {
			continue
		}
		for _, a := range t.Allocs {
			if a.At.Pod == p && a.Handle >= 0 && !a.At.Tun {
				if pt == nil {
					pt = &podT{Node: a.At.Node}
				}
				pt.IPs = append(pt.IPs, [2]int{b, a.Ord})
			}
		}
	}
	return pt
}

func (g *gen) history(n int) []event {
	var evs []event
	emit := func(e event) { evs = append(evs, e) }
	// start: nodes known everywhere (mostly)
	for nd := 1; nd <= g.nNodes; nd++ {
		if g.r.p(90) && (!g.nonk8s[nd] || g.r.p(10)) {
			emit(event{Kind: "knode", N: nd, Present: true})
		}
		if g.r.p(90) {
			emit(event{Kind: "cnodeapi", N: nd, Present: true, NonK8s: g.nonk8s[nd]})
		}
		if g.r.p(85) {
			emit(event{Kind: "cnodesync", N: nd, Present: true, NonK8s: g.nonk8s[nd]})
		}
	}
	for len(evs) < n {
		x := g.r.n(100)
		switch {
		case x < 22: // allocate
			b := 1 + g.r.n(g.nBlocks)
			if _, ok := g.truth[b]; !ok {
				aff := 1 + g.r.n(g.nNodes)
				if g.r.p(8) {
					aff = 0
				}
				g.truth[b] = &blockT{Aff: aff}
			}
			o := g.freeOrd(b)
			if o < 0 {
				continue
			}
			h := g.pickHandle()
			var at attrsT
			if h >= 0 {
				hi := g.handleInfo(h)
				at = attrsT{Node: hi.Node, Pod: hi.Pod, Tun: hi.Tun}
				if hi.Pod != 0 && g.r.p(8) {
					at.Pod = 1 + g.r.n(g.nPods)
				}
			}
			g.seq[b]++
			g.truth[b].Allocs = append(g.truth[b].Allocs, ballocT{Ord: o, Handle: h, At: at, Seq: g.seq[b]})
			if g.r.p(90) {
				emit(event{Kind: "block", N: b, Block: g.snapshot(b)})
			}
			if at.Pod != 0 && g.r.p(75) { // the pod that owns it shows up
				pt := g.podFromTruth(at.Pod)
				if pt != nil {
					if g.r.p(15) {
						pt.IPs = nil
					}
					emit(event{Kind: "pod", API: true, N: at.Pod, Pod: pt})
					if g.r.p(85) {
						emit(event{Kind: "pod", API: false, N: at.Pod, Pod: pt})
					}
				}
			}
		case x < 30: // free an address (CNI DEL)
			b := 1 + g.r.n(g.nBlocks)
			t, ok := g.truth[b]
			if !ok || len(t.Allocs) == 0 {
				continue
			}
			i := g.r.n(len(t.Allocs))
			t.Allocs = append(t.Allocs[:i:i], t.Allocs[i+1:]...)
			g.seq[b]++
			if g.r.p(90) {
				emit(event{Kind: "block", N: b, Block: g.snapshot(b)})
			}
		case x < 33: // re-allocate an ordinal in place (new sequence number, same handle)
			b := 1 + g.r.n(g.nBlocks)
			t, ok := g.truth[b]
			if !ok || len(t.Allocs) == 0 {
				continue
			}
			i := g.r.n(len(t.Allocs))
			g.seq[b]++
			t.Allocs[i].Seq = g.seq[b]
			emit(event{Kind: "block", N: b, Block: g.snapshot(b)})
			g.tags["realloc"] = true
		case x < 37: // (re)deliver a block / new empty block / affinity change / delete
			b := 1 + g.r.n(g.nBlocks)
			t, ok := g.truth[b]
			y := g.r.n(100)
			switch {
			case !ok:
				g.truth[b] = &blockT{Aff: 1 + g.r.n(g.nNodes)}
				emit(event{Kind: "block", N: b, Block: g.snapshot(b)})
			case y < 35:
				emit(event{Kind: "block", N: b, Block: g.snapshot(b)})
			case y < 60:
				old := t.Aff
				switch g.r.n(10) {
				case 0, 1, 2:
					t.Aff = 0
				case 3:
					if len(t.Allocs) > 0 {
						t.Aff = -1
					}
				default:
					t.Aff = 1 + g.r.n(g.nNodes)
				}
				if old > 0 && t.Aff > 0 && old != t.Aff {
					g.tags["affinity-moved"] = true
				}
				if old > 0 && t.Aff < 0 {
					g.tags["affinity-to-other"] = true
				}
				emit(event{Kind: "block", N: b, Block: g.snapshot(b)})
			case y < 80:
				delete(g.truth, b)
				emit(event{Kind: "block", N: b})
			default:
				emit(event{Kind: "block", N: b}) // delete of an unknown / already deleted block is fine too
				delete(g.truth, b)
			}
		case x < 50: // pod lifecycle
			p := 1 + g.r.n(g.nPods)
			y := g.r.n(100)
			switch {
			case y < 40: // deleted everywhere, deletion event
				emit(event{Kind: "pod", API: true, N: p})
				if g.r.p(85) {
					emit(event{Kind: "pod", API: false, N: p})
				}
				if g.r.p(80) {
					emit(event{Kind: "poddeleted", N: 1 + g.r.n(g.nNodes)})
				}
			case y < 55: // only one view changes (lag)
				api := g.r.p(50)
				if g.r.p(50) {
					emit(event{Kind: "pod", API: api, N: p})
				} else if pt := g.podFromTruth(p); pt != nil {
					emit(event{Kind: "pod", API: api, N: p, Pod: pt})
				}
				g.tags["view-lag"] = true
			case y < 75: // consistent (re)creation
				if pt := g.podFromTruth(p); pt != nil {
					emit(event{Kind: "pod", API: true, N: p, Pod: pt})
					emit(event{Kind: "pod", API: false, N: p, Pod: pt})
				}
			default: // arbitrary pod: other node, other IPs, evicted, unscheduled
				pt := &podT{Node: g.r.n(g.nNodes + 1)}
				k := g.r.n(3)
				for i := 0; i < k; i++ {
					pt.IPs = append(pt.IPs, [2]int{1 + g.r.n(g.nBlocks), g.r.n(5)})
				}
				pt.Evicted = g.r.p(20)
				if pt.Node == 0 && g.r.p(80) {
					pt.IPs = nil
				}
				api := g.r.p(50)
				emit(event{Kind: "pod", API: api, N: p, Pod: pt})
				if g.r.p(70) {
					emit(event{Kind: "pod", API: !api, N: p, Pod: pt})
				}
			}
		case x < 58: // node lifecycle
			nd := 1 + g.r.n(g.nNodes)
			present := g.r.p(35)
			nk := g.nonk8s[nd]
			if g.r.p(6) {
				nk = !nk // the node changes kind (re-registered)
				g.tags["node-kind-change"] = true
			}
			y := g.r.n(100)
			switch {
			case y < 50:
				emit(event{Kind: "knode", N: nd, Present: present})
				emit(event{Kind: "cnodeapi", N: nd, Present: present, NonK8s: nk})
				emit(event{Kind: "cnodesync", N: nd, Present: present, NonK8s: nk})
				if !present {
					emit(event{Kind: "full"})
				}
			case y < 70:
				emit(event{Kind: "knode", N: nd, Present: present})
				if !present && g.r.p(70) {
					emit(event{Kind: "full"})
				}
			case y < 85:
				emit(event{Kind: "cnodesync", N: nd, Present: present, NonK8s: nk})
			default:
				emit(event{Kind: "cnodeapi", N: nd, Present: present, NonK8s: nk})
			}
			g.tags["node-change"] = true
		case x < 72: // time
			d := []int{1, 5, 30, 61, 200, 450, 451, 899, 900, 901, 1000, 2000}[g.r.n(12)]
			emit(event{Kind: "tick", D: d})
		case x < 76:
			emit(event{Kind: "full"})
		case x < 79:
			emit(event{Kind: "poddeleted", N: g.r.n(g.nNodes + 1)})
		default:
			if g.r.p(35) {
				emit(event{Kind: "syncfail", D: g.r.n(1 << 20)})
			} else {
				emit(event{Kind: "sync"})
			}
		}
	}
	emit(event{Kind: "full"})
	emit(event{Kind: "sync"})
	return evs
}

// ---------- one case ----------

type line struct {
	Coq    string         `json:"coq"`
	NT     bool           `json:"nt"`
	Key    string         `json:"key"`
	Sample map[string]any `json:"sample"`
	Tags   []string       `json:"tags"`
}

// Scripted histories around a live Calico node that is not a Kubernetes node (cached "" by the syncer) owning a tunnel
// address and blocks: nothing of it may be released; variant 1: the Calico node is gone from the datastore, the cache
// lags (release is legitimate); variant 2: an empty second block past the grace period (releaseUnusedBlocks path).
// Two empty blocks of one node, one already seen empty for longer than the grace period, the other not yet marked:
// whether the second gets its "seen empty" time in the sync that releases the first depends on the map order of
// emptyBlocks (the block count is tested before markEmpty).  Both outcomes must be reproduced by the model.
func emptyOrderCase(k int) line {
	g := 900
	evs := []event{{Kind: "knode", N: 1, Present: true}, {Kind: "cnodeapi", N: 1, Present: true}, {Kind: "cnodesync", N: 1, Present: true},
		{Kind: "block", N: 1, Block: &blockT{Aff: 1, Allocs: []ballocT{{Ord: 0, Handle: 9, At: attrsT{Node: 1}, Seq: 1}}}},
		{Kind: "block", N: 3, Block: &blockT{Aff: 1}},
		{Kind: "sync"},
		{Kind: "block", N: 1},
		{Kind: "block", N: 2, Block: &blockT{Aff: 1}},
		{Kind: "tick", D: 901},
		{Kind: "sync"}, {Kind: "tick", D: 901}, {Kind: "sync"}, {Kind: "full"}, {Kind: "sync"}}
	return execute(uint64(k), &g, evs, map[string]bool{"scenario": true, "empty-block-order": true, "grace:900": true})
}

func scenarioCase(k int) line {
	if k >= 5 {
		return emptyOrderCase(k)
	}
	if k >= 3 {
		return rolloverCase(k)
	}
	g := 900
	tun := attrsT{Node: 1, Tun: true}
	evs := []event{{Kind: "cnodesync", N: 1, Present: true, NonK8s: true}}
	if k != 1 {
		evs = append(evs, event{Kind: "cnodeapi", N: 1, Present: true, NonK8s: true})
	}
	evs = append(evs,
		event{Kind: "block", N: 1, Block: &blockT{Aff: 1, Allocs: []ballocT{{Ord: 0, Handle: 21, At: tun, Seq: 1}}}},
		event{Kind: "block", N: 2, Block: &blockT{Aff: 1}},
		event{Kind: "sync"}, event{Kind: "full"}, event{Kind: "sync"},
		event{Kind: "tick", D: 901}, event{Kind: "full"}, event{Kind: "sync"},
		event{Kind: "block", N: 3, Block: &blockT{Aff: 1}}, event{Kind: "sync"},
		event{Kind: "tick", D: 901}, event{Kind: "sync"}, event{Kind: "full"}, event{Kind: "sync"})
	return execute(uint64(k), &g, evs, map[string]bool{"scenario": true, "non-k8s-node": true, "grace:900": true})
}

// A Kubernetes node goes away (tunnel address becomes a confirmed leak), the ReleaseIPs call fails so the leak rolls
// over in confirmedLeaks, the node re-registers; variant 3: the next sync looks at the node again (full scan) - the
// final re-validation must resurrect the tunnel address; variant 4: the next sync does not look at the node.
func rolloverCase(k int) line {
	g := 900
	tun := attrsT{Node: 1, Tun: true}
	evs := []event{{Kind: "knode", N: 1, Present: true}, {Kind: "cnodeapi", N: 1, Present: true}, {Kind: "cnodesync", N: 1, Present: true},
		{Kind: "block", N: 1, Block: &blockT{Aff: 1, Allocs: []ballocT{{Ord: 0, Handle: 21, At: tun, Seq: 1}}}},
		{Kind: "sync"},
		{Kind: "knode", N: 1}, {Kind: "cnodeapi", N: 1}, {Kind: "cnodesync", N: 1}, {Kind: "full"},
		{Kind: "syncfail", D: 0},
		{Kind: "knode", N: 1, Present: true}, {Kind: "cnodeapi", N: 1, Present: true}, {Kind: "cnodesync", N: 1, Present: true}}
	if k == 3 {
		evs = append(evs, event{Kind: "full"})
	}
	evs = append(evs, event{Kind: "sync"}, event{Kind: "full"}, event{Kind: "sync"})
	return execute(uint64(k), &g, evs, map[string]bool{"scenario": true, "tunnel-rollover": true, "grace:900": true})
}

func runCase(cs uint64) line {
	r := &rng{s: cs}
	g := &gen{r: r, nNodes: 2 + r.n(2), nPods: 2 + r.n(3), nBlocks: 2 + r.n(2), handles: map[int]hinfo{}, truth: map[int]*blockT{},
		seq: map[int]uint64{}, tags: map[string]bool{}, nonk8s: map[int]bool{}}
	if r.p(40) {
		g.nonk8s[g.nNodes] = true
		g.tags["non-k8s-node"] = true
	}
	var grace *int
	gtag := "grace:nil"
	switch x := r.n(100); {
	case x < 55:
		v := 900
		grace = &v
		gtag = "grace:900"
	case x < 85:
		v := 60
		grace = &v
		gtag = "grace:60"
	case x < 93:
		v := 0
		grace = &v
		gtag = "grace:0"
	}
	g.tags[gtag] = true
	evs := g.history(14 + r.n(30))
	return execute(cs, grace, evs, g.tags)
}

// ---------- which variant of the code is this tree? ----------
// The model follows the tree: two scripted probes decide whether fixes/C23-block-affinity-moved.patch and
// fixes/C23-gc-handle-all-or-none.patch are present (they change observable behaviour the model has to mirror).
var fixAff, fixGC bool

func probeAff() bool {
	run := newRunner(nil)
	run.apply(event{Kind: "block", N: 1, Block: &blockT{Aff: 1}})
	run.apply(event{Kind: "block", N: 1, Block: &blockT{Aff: 2}})
	_, stale := run.ctl.Dump().BBN[nodeName(1)]
	return !stale
}

// One handle with two addresses, both confirmed leaks by the cache; the API server justifies the first only.
// Unfixed code releases the second alone when the map range visits it first.
func probeGCOnce() bool {
	g := 900
	run := newRunner(&g)
	at := attrsT{Node: 1, Pod: 1}
	run.apply(event{Kind: "cnodeapi", N: 1, Present: true})
	run.apply(event{Kind: "cnodesync", N: 1, Present: true})
	run.apply(event{Kind: "block", N: 1, Block: &blockT{Aff: 1, Allocs: []ballocT{{Ord: 0, Handle: 1, At: at, Seq: 1}, {Ord: 1, Handle: 1, At: at, Seq: 2}}}})
	run.apply(event{Kind: "pod", API: true, N: 1, Pod: &podT{Node: 1, IPs: [][2]int{{1, 0}}}})
	o := run.sync()
	return len(o.Rel) > 0
}

// The batch limit of garbageCollectKnownLeaks is a local constant (10000), so the cut is exercised at full size:
// 10001 confirmed leaks, two (once three) addresses per handle, in one large block.  Reports whether the single
// ReleaseIPs call contains a handle only partially.
func batchCut() map[string]any {
	g := 900
	run := newRunner(&g)
	_, cidr, _ := cnet.ParseCIDR("10.200.0.0/18")
	const total = 10001
	blk := &model.AllocationBlock{CIDR: *cidr, Allocations: make([]*int, 16384), SequenceNumberForAllocation: map[string]uint64{}}
	aff := "host:" + nodeName(1)
	blk.Affinity = &aff
	perHandle := map[string]int{}
	for o := 0; o < total; o++ {
		idx := o
		h := fmt.Sprintf("big%d", (o/2)%(total/2))
		perHandle[h]++
		blk.Attributes = append(blk.Attributes, model.AllocationAttribute{HandleID: &h, ActiveOwnerAttrs: map[string]string{
			ipam.AttributeNode: nodeName(1), ipam.AttributePod: fmt.Sprintf("p%d", o/2), ipam.AttributeNamespace: "ns"}})
		blk.Allocations[o] = &idx
		blk.SequenceNumberForAllocation[fmt.Sprintf("%d", o)] = 1
	}
	run.ctl.HandleUpdate(model.KVPair{Key: model.BlockKey{CIDR: model.PrefixFromIPNet(*cidr)}, Value: blk})
	o := run.sync()
	res := map[string]any{"confirmed_leaks": total, "calls": len(o.Rel)}
	split := 0
	for _, call := range o.Rel {
		res["batch"] = len(call)
		got := map[string]int{}
		for _, x := range call {
			got[x.Handle]++
		}
		for h, k := range got {
			if k != perHandle[h] {
				split++
				res["example"] = fmt.Sprintf("handle %s: %d of its %d addresses in the ReleaseIPs call", h, k, perHandle[h])
			}
		}
	}
	res["split_handles"] = split
	return res
}

// An allocation re-allocated in place (same handle, same address, new sequence number) with a DIFFERENT node attribute
// - two block updates compacted into one by a syncer resync - and then freed.  Reports whether allocationsByNode still
// holds the allocation under the old node although no block contains it, and what a sync then releases.
func zombieProbe() map[string]any {
	g := 900
	run := newRunner(&g)
	mk := func(node int, seq uint64) *blockT {
		return &blockT{Aff: 1, Allocs: []ballocT{{Ord: 0, Handle: 1, At: attrsT{Node: node, Pod: 1}, Seq: seq}}}
	}
	run.apply(event{Kind: "block", N: 1, Block: mk(1, 1)})
	run.apply(event{Kind: "block", N: 1, Block: mk(2, 2)})
	run.apply(event{Kind: "block", N: 1, Block: &blockT{Aff: 1}})
	d := run.ctl.Dump()
	res := map[string]any{"tracked_allocations": len(d.Allocs), "allocations_by_node": d.ByNode}
	stale := 0
	for _, ids := range d.ByNode {
		stale += len(ids)
	}
	res["stale_entries"] = stale - len(d.Allocs)
	// an unrelated allocation elsewhere, so that the handle tracker is not empty
	run.apply(event{Kind: "block", N: 2, Block: &blockT{Aff: 2, Allocs: []ballocT{{Ord: 0, Handle: 9, At: attrsT{Node: 2}, Seq: 1}}}})
	run.apply(event{Kind: "full"})
	o := run.sync()
	res["release_ips_after_sync"] = o.Rel
	return res
}

func execute(cs uint64, grace *int, evs []event, tags map[string]bool) line {
	run := newRunner(grace)
	var steps, keys []string
	var sample []any
	released, rbaSeen, rhaSeen, candidate, malformed := false, false, false, false, false
	nsync := 0
	for _, e := range evs {
		if e.Kind == "sync" || e.Kind == "syncfail" {
			var o syncObs
			if e.Kind == "syncfail" {
				o = run.syncWith(uint64(e.D) | 1<<63)
			} else {
				o = run.sync()
			}
			if o.Failed {
				tags["release-failed"] = true
				if len(o.Done) > 0 && len(o.Done) < len(o.Rel[0]) {
					tags["release-partial"] = true
				}
			}
			nsync++
			s, bad := run.obsCoq(o)
			malformed = malformed || bad
			steps = append(steps, s)
			keys = append(keys, "sync")
			if len(o.Rel) > 0 {
				released = true
			}
			if len(o.RBA) > 0 {
				rbaSeen = true
			}
			if len(o.RHA) > 0 {
				rhaSeen = true
			}
			for _, a := range o.Dump.Allocs {
				if a.LeakedAt != nil {
					candidate = true
				}
			}
			sample = append(sample, map[string]any{"sync": map[string]any{"release_ips": o.Rel, "release_block_affinity": o.RBA,
				"release_host_affinities": o.RHA, "err": o.Err}})
			continue
		}
		run.apply(e)
		steps = append(steps, e.coq())
		keys = append(keys, e.coq())
		sample = append(sample, e.coq())
	}
	gs := "None"
	if grace != nil {
		gs = fmt.Sprintf("(Some %d)", *grace)
	}
	if released {
		tags["released-ips"] = true
	}
	if rbaSeen {
		tags["released-block"] = true
	}
	if rhaSeen {
		tags["released-node"] = true
	}
	if candidate {
		tags["candidate"] = true
	}
	if malformed {
		tags["malformed-observation"] = true
	}
	var tl []string
	for t := range tags {
		tl = append(tl, t)
	}
	sort.Strings(tl)
	return line{Coq: fmt.Sprintf("mkK %s %v %v [%s]", gs, fixAff, fixGC, strings.Join(steps, ";\n ")), NT: released || rbaSeen || candidate,
		Key: gs + "|" + strings.Join(keys, ";"), Sample: map[string]any{"grace": gs, "steps": sample, "replay_args": fmt.Sprintf("-one %d", cs)}, Tags: tl}
}

func main() {
	n := flag.Int("n", 100, "number of cases")
	seed := flag.Uint64("seed", 1, "seed")
	one := flag.Uint64("one", 0, "run the single case with this case seed")
	out := os.Stdout
	os.Stdout = os.Stderr // the testing framework prints PASS to stdout
	logrus.SetLevel(logrus.PanicLevel)
	flag.Parse()
	enc := json.NewEncoder(out)
	_ = apiv3.KindIPPool
	testing.Main(func(pat, str string) (bool, error) { return true, nil },
		[]testing.InternalTest{{Name: "TestVerifC23", F: func(t *testing.T) {
			r := &rng{s: *seed}
			synctest.Test(t, func(t *testing.T) {
				fixAff = probeAff()
				fixGC = true
				for i := 0; i < 32 && fixGC; i++ {
					if probeGCOnce() {
						fixGC = false
					}
				}
			})
			if err := enc.Encode(map[string]any{"stats": map[string]any{"tree_has_affinity_fix": fixAff, "tree_has_gc_fix": fixGC}}); err != nil {
				panic(err)
			}
			emit := func(cs uint64) {
				var l line
				synctest.Test(t, func(t *testing.T) { l = runCase(cs) })
				if err := enc.Encode(l); err != nil {
					panic(err)
				}
			}
			if *one != 0 {
				emit(*one)
				return
			}
			var zp map[string]any
			synctest.Test(t, func(t *testing.T) { zp = zombieProbe() })
			if err := enc.Encode(map[string]any{"zombie": zp}); err != nil {
				panic(err)
			}
			var bc map[string]any
			synctest.Test(t, func(t *testing.T) { bc = batchCut() })
			if err := enc.Encode(map[string]any{"batchcut": bc}); err != nil {
				panic(err)
			}
			for k := 0; k < 8 && k < *n; k++ {
				var l line
				synctest.Test(t, func(t *testing.T) { l = scenarioCase(k) })
				if err := enc.Encode(l); err != nil {
					panic(err)
				}
			}
			for i := 8; i < *n; i++ {
				cs := r.next()
				if cs == 0 {
					cs = 1
				}
				emit(cs)
			}
		}}}, nil, nil)
}
