//go:build verif

// Add-only access for the C23 verification driver: drives the IPAMController's handlers synchronously (no goroutines)
// and dumps its bookkeeping.  Nothing here changes behaviour.
package node

import (
	"sort"
	"time"

	v1 "k8s.io/api/core/v1"
	"k8s.io/client-go/kubernetes"
	"k8s.io/client-go/tools/cache"

	"github.com/projectcalico/calico/kube-controllers/pkg/config"
	bapi "github.com/projectcalico/calico/libcalico-go/lib/backend/api"
	"github.com/projectcalico/calico/libcalico-go/lib/backend/model"
	client "github.com/projectcalico/calico/libcalico-go/lib/clientv3"
	"github.com/projectcalico/calico/libcalico-go/lib/kubevirt"
)

type VerifC23 struct{ c *IPAMController }

func NewVerifC23(cfg config.NodeControllerConfig, cli client.Interface, cs kubernetes.Interface, pi, ni cache.Indexer) *VerifC23 {
	vm := cache.NewIndexer(cache.MetaNamespaceKeyFunc, cache.Indexers{})
	vmi := cache.NewIndexer(cache.MetaNamespaceKeyFunc, cache.Indexers{})
	c := NewIPAMController(cfg, cli, cs, pi, ni, kubevirt.NewDeferredInformersWithIndexers(vm, vmi))
	c.handleUpdate(bapi.InSync)
	return &VerifC23{c: c}
}

// HandleUpdate is what acceptScheduleRequests does with one syncer update.
func (v *VerifC23) HandleUpdate(kvp model.KVPair) { v.c.handleUpdate(kvp) }

// PodDeleted is what acceptScheduleRequests does with one pod deletion event.
func (v *VerifC23) PodDeleted(p *v1.Pod) { v.c.allocationState.markDirtyPodDeleted(p) }

// FullScan is what acceptScheduleRequests does on a node deletion batch or a periodic tick.
func (v *VerifC23) FullScan() { v.c.fullScanNextSync("verif") }

func (v *VerifC23) Sync() error { return v.c.syncIPAM() }

type VerifC23Alloc struct {
	IP, Handle, Block, Knode string
	Attrs                    map[string]string
	Seq                      uint64
	LeakedAt                 *time.Time
	Confirmed                bool
}

type VerifC23Dump struct {
	Blocks     []string
	Allocs     []VerifC23Alloc            // allocationsByBlock
	ByNode     map[string][][2]string     // node -> (handle, ip) of the allocation objects held
	ByNodeKeys map[string][]string        // node -> map keys
	ByHandle   map[string][][2]string     // handle -> (handle, ip)
	Conf       [][2]string                // (handle, ip) of confirmedLeaks values
	Dirty      []string
	NBB        map[string]string
	BBN        map[string][]string
	Empty      map[string]string
	Tracker    map[string]time.Time
	Full       bool
}

func (v *VerifC23) Dump() VerifC23Dump {
	c := v.c
	d := VerifC23Dump{ByNode: map[string][][2]string{}, ByNodeKeys: map[string][]string{}, ByHandle: map[string][][2]string{},
		NBB: map[string]string{}, BBN: map[string][]string{}, Empty: map[string]string{}, Tracker: map[string]time.Time{}}
	for b := range c.allBlocks {
		d.Blocks = append(d.Blocks, b)
	}
	sort.Strings(d.Blocks)
	for _, m := range c.allocationsByBlock {
		for _, a := range m {
			d.Allocs = append(d.Allocs, VerifC23Alloc{IP: a.ip, Handle: a.handle, Block: a.block, Knode: a.knode, Attrs: a.attrs,
				Seq: a.sequenceNumber, LeakedAt: a.leakedAt, Confirmed: a.confirmedLeak})
		}
	}
	for n, m := range c.allocationState.allocationsByNode {
		d.ByNode[n] = [][2]string{}
		for k, a := range m {
			d.ByNode[n] = append(d.ByNode[n], [2]string{a.handle, a.ip})
			d.ByNodeKeys[n] = append(d.ByNodeKeys[n], k)
		}
	}
	for n := range c.allocationState.dirtyNodes {
		d.Dirty = append(d.Dirty, n)
	}
	for h, m := range c.handleTracker.allocationsByHandle {
		d.ByHandle[h] = [][2]string{}
		for _, a := range m {
			d.ByHandle[h] = append(d.ByHandle[h], [2]string{a.handle, a.ip})
		}
	}
	for _, a := range c.confirmedLeaks {
		d.Conf = append(d.Conf, [2]string{a.handle, a.ip})
	}
	for b, n := range c.nodesByBlock {
		d.NBB[b] = n
	}
	for n, m := range c.blocksByNode {
		d.BBN[n] = []string{}
		for b := range m {
			d.BBN[n] = append(d.BBN[n], b)
		}
	}
	for b, n := range c.emptyBlocks {
		d.Empty[b] = n
	}
	for b, t := range c.blockReleaseTracker.blocks {
		d.Tracker[b] = t
	}
	d.Full = c.fullSyncRequired
	return d
}
